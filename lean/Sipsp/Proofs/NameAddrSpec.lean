/-
  Sipsp.Proofs.NameAddrSpec — a grammar of name-addr values (From / To / Contact / P-Asserted-Identity) as predicates
  over buffer positions, and the proof that ParseNameAddrPVal decomposes every value of that grammar exactly as
  written.

  Plan: one lemma per (state, byte class) of `naStep` (`step…`), segment lemmas that walk `runLoop` over a piece of the
  grammar (`na_…_run`, `na_…_sep`, `na_…_term`), the frame lemma `setFromParamVal_eq` (a parameter only touches the
  fields collected in `PAcc`; its effect is `paramEffect`), the induction over the parameter list `na_plist_run`, the
  four whole-value theorems `parseNameAddr_bracket[_params]`, `parseNameAddr_bare[_params]`, the characterisation of
  `paramEffect` (tag / expires / q / lr / other), and the comma-separated lists of Contact and P-Asserted-Identity
  (`contactsLoop_list`, `paisLoop_list`) with what the list object records (count, stored values, min / max expires).
-/
import Sipsp.Proofs.HdrSpec
import Sipsp.Proofs.SafeNA
import Sipsp.Proofs.Num
import Sipsp.Proofs.Bytes
import Sipsp.Proofs.CapacityPAI

namespace Sipsp

/-! ### generic: a run of bytes over which the step does nothing but advance -/

/-- the bytes at `[i, j)` are present and all satisfy `P` -/
def Run (P : UInt8 → Bool) (b : Buf) (i j : Nat) : Prop := ∀ k, i ≤ k → k < j → ∃ c, b[k]? = some c ∧ P c = true

theorem Run.tail {P : UInt8 → Bool} {b : Buf} {i j : Nat} (h : Run P b i j) (i' : Nat) (hi : i ≤ i') : Run P b i' j :=
  fun k h1 h2 => h k (by omega) h2

theorem runLoop_run {σ : Type} (m : Machine σ) (b : Buf) (P : UInt8 → Bool) (st : σ)
    (hstep : ∀ k c, b[k]? = some c → P c = true → m.step b k c st = .cont (k + 1) st) (i j : Nat) (hij : i ≤ j)
    (hr : Run P b i j) : runLoop m b i st = runLoop m b j st := by
  induction hk : j - i generalizing i with
  | zero =>
    have : i = j := by omega
    rw [this]
  | succ n ih =>
    obtain ⟨c, hc, hp⟩ := hr i (Nat.le_refl _) (by omega)
    rw [runLoop_cont m hc (hstep i c hc hp), if_pos (by omega)]
    exact ih (i + 1) (by omega) (hr.tail (i + 1) (by omega)) (by omega)

/-! ### character classes of the name-addr automaton -/

/-- a byte of the URI between angle brackets: anything but `>` `<` SP HT CR LF -/
def isURIch (c : UInt8) : Bool := !(c == 62) && !(c == 60) && !(isLWSch c)

theorem isURIch_iff {c : UInt8} : isURIch c = true ↔ (c == 62) = false ∧ (c == 60) = false ∧ isLWSch c = false := by
  unfold isURIch
  cases (c == 62) <;> cases (c == 60) <;> cases (isLWSch c) <;> simp

/-! ### small facts -/

theorem naLWS_ok {h : Nat} {b : Buf} {i n : Nat} (pf : PFromBody) (hs : skipLWS b i 0 = (n, 0, .ok)) :
    naLWS h b i pf = .cont n pf := by
  unfold naLWS lwsStd; rw [hs]

theorem naLWS_eoh {h : Nat} {b : Buf} {i p crl : Nat} (pf : PFromBody) (hs : skipLWS b i 0 = (p, crl, .eoh)) :
    naLWS h b i pf = .done (naEOH h b pf i p crl .ok).1 (naEOH h b pf i p crl .ok).2.1 (naEOH h b pf i p crl .ok).2.2 := by
  unfold naLWS lwsStd; rw [hs]

/-- the byte at the start of `Lws … Eol`: white space or a line-end byte -/
theorem lws_eol_first {b : Buf} {w p e : Nat} (hl : Lws b w p) (he : Eol b p e) :
    ∃ c, b[w]? = some c ∧ isLWSch c = true := by
  have := hl.le
  by_cases h1 : w < p
  · exact hl.first h1
  · have : w = p := by omega
    subst this
    obtain ⟨c0, h0, _, _, h4⟩ := he.first; exact ⟨c0, h0, h4⟩

/-- the whole call on a new object, from what the loop returns -/
theorem parse_of_loop (h : Nat) (b : Buf) (o : Nat) {o' : Nat} {e : Err} {st : PFromBody}
    (hr : runLoop (naMachine h) b o {} = (o', e, st)) (he : e = .ok ∨ e = .moreValues) :
    parseNameAddrPVal h b o {} = (o', e, { st with s := 0 }) := by
  unfold parseNameAddrPVal
  rw [if_neg (by decide)]
  show ((runLoop (naMachine h) b o {}).1, (runLoop (naMachine h) b o {}).2.1,
    naExit 0 (runLoop (naMachine h) b o {}).2.1 (runLoop (naMachine h) b o {}).2.2) = _
  rw [hr]
  unfold naExit
  rcases he with rfl | rfl <;> rfl

/-! ### `<uri>` -/

theorem naStep_uri_ch (h : Nat) (b : Buf) (i : Nat) (c : UInt8) (pf : PFromBody) (hst : pf.state = .uri)
    (hc : isURIch c = true) : naStep h b i c pf = .cont (i + 1) pf := by
  obtain ⟨h1, h2, h3⟩ := isURIch_iff.1 hc
  unfold naStep; simp only [hst]
  unfold naStepU
  simp only [h1, h2, h3, Bool.false_eq_true, ↓reduceIte, Bool.or_self]

theorem naStep_uri_gt (h : Nat) (b : Buf) (i : Nat) (pf : PFromBody) (hst : pf.state = .uri) :
    naStep h b i 62 pf = .cont (i + 1) { (pf.setURI pf.s i).extV (i + 1) with state := .uriFound } := by
  unfold naStep; simp only [hst]
  unfold naStepU
  simp only [beq_self_eq_true, ↓reduceIte]

/-- from the byte after `<` (state `uri`) to the byte after `>` -/
theorem na_uri_run (h : Nat) (b : Buf) (a g : Nat) (pf : PFromBody) (hst : pf.state = .uri) (hag : a ≤ g)
    (hu : Run isURIch b a g) (hg : b[g]? = some 62) :
    runLoop (naMachine h) b a pf =
      runLoop (naMachine h) b (g + 1) { (pf.setURI pf.s g).extV (g + 1) with state := .uriFound } := by
  rw [runLoop_run (naMachine h) b isURIch pf (fun k c _ hc => naStep_uri_ch h b k c pf hst hc) a g hag hu]
  rw [runLoop_cont (naMachine h) hg (by exact naStep_uri_gt h b g pf hst), if_pos (by omega)]

/-! ### the parameter-dependent fields and the effect of one parameter -/

/-- the fields of the object that `setFromParamVal` may change (besides clearing the four work offsets) -/
structure PAcc where
  tag : PField := {}
  lr : Bool := false
  hasExpires : Bool := false
  expires : Nat := 0
  q : Nat := 0
  paramErr : Err := .ok
  errOffs : Nat := 0
  deriving DecidableEq, Repr, Inhabited

def PFromBody.acc (pf : PFromBody) : PAcc := ⟨pf.tag, pf.lr, pf.hasExpires, pf.expires, pf.q, pf.paramErr, pf.errOffs⟩

def PFromBody.withAcc (pf : PFromBody) (a : PAcc) : PFromBody :=
  { pf with tag := a.tag, lr := a.lr, hasExpires := a.hasExpires, expires := a.expires, q := a.q, paramErr := a.paramErr, errOffs := a.errOffs }

/-- what a parameter with name `[ps, pe)` and value `[vs, ve)` (`vs = ve`: no value) does to those fields: this is
    `setFromParamVal` itself, run on an otherwise empty object -/
def paramEffect (b : Buf) (ps pe vs ve : Nat) (a : PAcc) : PAcc :=
  (setFromParamVal b { (({} : PFromBody).withAcc a) with pstart := ps, pend := pe, vstart := vs, vend := ve }).acc

theorem setQ_frame (pf : PFromBody) (val : List UInt8) :
    setQ pf val = { pf with q := (setQ pf val).q, paramErr := (setQ pf val).paramErr, errOffs := (setQ pf val).errOffs } := by
  unfold setQ; dsimp only; repeat' split
  all_goals rfl

theorem setQ_congr (pf pf' : PFromBody) (val : List UInt8) (h1 : pf.q = pf'.q) (h2 : pf.paramErr = pf'.paramErr)
    (h3 : pf.errOffs = pf'.errOffs) (h4 : pf.vstart = pf'.vstart) (h5 : pf.vend = pf'.vend) :
    (setQ pf val).q = (setQ pf' val).q ∧ (setQ pf val).paramErr = (setQ pf' val).paramErr ∧
      (setQ pf val).errOffs = (setQ pf' val).errOffs := by
  unfold setQ; dsimp only; repeat' split
  all_goals simp only [h1, h2, h3, h4, h5, and_self]

theorem setQ_other (pf : PFromBody) (val : List UInt8) :
    (setQ pf val).tag = pf.tag ∧ (setQ pf val).lr = pf.lr ∧ (setQ pf val).hasExpires = pf.hasExpires ∧
      (setQ pf val).expires = pf.expires := by
  unfold setQ; dsimp only; repeat' split
  all_goals exact ⟨rfl, rfl, rfl, rfl⟩

/-- **frame**: `setFromParamVal` on any object = its effect on the parameter-dependent fields, the four work offsets
    cleared, everything else untouched (name and value inside the buffer, so that Go does not panic) -/
theorem setFromParamVal_eq (b : Buf) (pf : PFromBody) (h1 : pf.pend ≤ b.size) (h2 : pf.vend ≤ b.size) :
    setFromParamVal b pf = (pf.withAcc (paramEffect b pf.pstart pf.pend pf.vstart pf.vend pf.acc)).clearPV := by
  unfold paramEffect
  unfold setFromParamVal
  simp only [PFromBody.withAcc, PFromBody.acc]
  by_cases c1 : (decide (pf.pstart < pf.pend) && decide (pf.vstart < pf.vend)) = true
  · simp only [c1, ↓reduceIte]
    simp only [Bool.and_eq_true, decide_eq_true_eq] at c1
    rw [slice?_some b pf.pstart pf.pend (by omega) (by omega), slice?_some b pf.vstart pf.vend (by omega) (by omega)]
    simp only
    by_cases t1 : cmpEqL (b.extract pf.pstart pf.pend) sTag = true
    · simp only [t1, ↓reduceIte]; rfl
    · simp only [t1, Bool.false_eq_true, ↓reduceIte]
      by_cases t2 : cmpEqL (b.extract pf.pstart pf.pend) sExpires = true
      · simp only [t2, ↓reduceIte]; rfl
      · simp only [t2, Bool.false_eq_true, ↓reduceIte]
        by_cases t3 : cmpEqL (b.extract pf.pstart pf.pend) sQ = true
        · simp only [t3, ↓reduceIte]
          rw [setQ_frame pf]
          obtain ⟨e1, e2, e3⟩ := setQ_congr pf
            { q := pf.q, paramErr := pf.paramErr, errOffs := pf.errOffs, vstart := pf.vstart, vend := pf.vend,
              tag := pf.tag, lr := pf.lr, hasExpires := pf.hasExpires, expires := pf.expires, pstart := pf.pstart, pend := pf.pend }
            (b.extract pf.vstart pf.vend).toList rfl rfl rfl rfl rfl
          obtain ⟨o1, o2, o3, o4⟩ := setQ_other
            { q := pf.q, paramErr := pf.paramErr, errOffs := pf.errOffs, vstart := pf.vstart, vend := pf.vend,
              tag := pf.tag, lr := pf.lr, hasExpires := pf.hasExpires, expires := pf.expires, pstart := pf.pstart, pend := pf.pend }
            (b.extract pf.vstart pf.vend).toList
          simp only [PFromBody.clearPV, e1, e2, e3, o1, o2, o3, o4]
        · simp only [t3, Bool.false_eq_true, ↓reduceIte]
          by_cases t4 : cmpEqL (b.extract pf.pstart pf.pend) sLr = true
          · simp only [t4, ↓reduceIte]; rfl
          · simp only [t4, Bool.false_eq_true, ↓reduceIte]; rfl
  · simp only [c1, Bool.false_eq_true, ↓reduceIte]
    by_cases c2 : (decide (pf.pstart < pf.pend) && pf.vstart == pf.vend) = true
    · simp only [c2, ↓reduceIte]
      simp only [Bool.and_eq_true, decide_eq_true_eq] at c2
      rw [slice?_some b pf.pstart pf.pend (by omega) (by omega)]
      simp only
      by_cases t4 : cmpEqL (b.extract pf.pstart pf.pend) sLr = true
      · simp only [t4, ↓reduceIte]; rfl
      · simp only [t4, Bool.false_eq_true, ↓reduceIte]; rfl
    · simp only [c2, Bool.false_eq_true, ↓reduceIte]; rfl

/-! ### the parameter automaton: states (header parameters after `<uri>`, and the "possible" twins after a bare URI) -/

def stNP (q : Bool) : FBState := match q with | true => .newPossibleParam | false => .newParam
def stPN (q : Bool) : FBState := match q with | true => .possibleParamName | false => .paramName
def stPNE (q : Bool) : FBState := match q with | true => .possibleParamNameEnd | false => .paramNameEnd
def stNV (q : Bool) : FBState := match q with | true => .newPossibleVal | false => .newParamVal
def stPV (q : Bool) : FBState := match q with | true => .possibleVal | false => .paramVal
def stPVE (q : Bool) : FBState := match q with | true => .possibleValEnd | false => .paramValEnd
def stQV (q : Bool) : FBState := match q with | true => .quotedPossibleVal | false => .quotedVal

/-- a byte of a parameter name: anything but SP HT CR LF `,` `=` `<` `>` `;` -/
def isPNch (c : UInt8) : Bool := !(isLWSch c) && !(c == 44) && !(c == 61) && !(c == 60) && !(c == 62) && !(c == 59)

theorem isPNch_iff {c : UInt8} : isPNch c = true ↔ isLWSch c = false ∧ (c == 44) = false ∧ (c == 61) = false ∧
    (c == 60) = false ∧ (c == 62) = false ∧ (c == 59) = false := by
  unfold isPNch
  cases isLWSch c <;> cases (c == 44) <;> cases (c == 61) <;> cases (c == 60) <;> cases (c == 62) <;> cases (c == 59) <;> simp

/-- a byte of a parameter value outside quotes: anything but SP HT CR LF `,` `;` `=` `<` `>` `"` -/
def isPVch (c : UInt8) : Bool :=
  !(isLWSch c) && !(c == 44) && !(c == 59) && !(c == 61) && !(c == 60) && !(c == 62) && !(c == 34)

theorem isPVch_iff {c : UInt8} : isPVch c = true ↔ isLWSch c = false ∧ (c == 44) = false ∧ (c == 59) = false ∧
    (c == 61) = false ∧ (c == 60) = false ∧ (c == 62) = false ∧ (c == 34) = false := by
  unfold isPVch
  cases isLWSch c <;> cases (c == 44) <;> cases (c == 59) <;> cases (c == 61) <;> cases (c == 60) <;>
    cases (c == 62) <;> cases (c == 34) <;> simp

/-- a byte inside a quoted string: anything but `"` `\` SP HT CR LF (those are covered by their own rules) -/
def isQch (c : UInt8) : Bool := !(c == 34) && !(c == 92) && !(isLWSch c)

theorem isQch_iff {c : UInt8} : isQch c = true ↔ (c == 34) = false ∧ (c == 92) = false ∧ isLWSch c = false := by
  unfold isQch
  cases (c == 34) <;> cases (c == 92) <;> cases isLWSch c <;> simp

/-! #### steps in `newParam` / `paramName` -/

theorem stepNP_lws (h : Nat) (b : Buf) (i n : Nat) (c : UInt8) (pf : PFromBody) (q : Bool) (hst : pf.state = stNP q)
    (hc : isLWSch c = true) (hs : skipLWS b i 0 = (n, 0, .ok)) : naStep h b i c pf = .cont n pf := by
  cases q <;>
  · simp only [stNP] at hst
    unfold naStep; simp only [hst]
    unfold naStepP; simp only [hc, ↓reduceIte]
    rw [hs]
    simp only [naNameWS, hst]
    rfl

theorem stepNP_ch (h : Nat) (b : Buf) (i : Nat) (c : UInt8) (pf : PFromBody) (q : Bool) (hst : pf.state = stNP q)
    (hc : isPNch c = true) :
    naStep h b i c pf = .cont (i + 1) (naParamsOffs { pf with state := stPN q, pstart := i } i) := by
  obtain ⟨h1, h2, h3, h4, h5, h6⟩ := isPNch_iff.1 hc
  cases q <;>
  · simp only [stNP] at hst
    unfold naStep; simp only [hst]
    unfold naStepP; simp only [h1, h2, h3, h4, h5, h6, Bool.false_eq_true, ↓reduceIte, Bool.or_self]
    simp only [naParamStart, hst]
    rfl

theorem naParamStart_other (pf : PFromBody) (i : Nat) (h1 : pf.state ≠ .newParam) (h2 : pf.state ≠ .newPossibleParam) :
    naParamStart pf i = pf := by
  unfold naParamStart
  have e1 : (pf.state == .newParam) = false := by simpa using h1
  have e2 : (pf.state == .newPossibleParam) = false := by simpa using h2
  simp only [e1, e2, Bool.false_eq_true, ↓reduceIte]

theorem stepPN_ch (h : Nat) (b : Buf) (i : Nat) (c : UInt8) (pf : PFromBody) (q : Bool) (hst : pf.state = stPN q)
    (hc : isPNch c = true) (hpo : (pf.params.offs == 0) = false) : naStep h b i c pf = .cont (i + 1) pf := by
  obtain ⟨h1, h2, h3, h4, h5, h6⟩ := isPNch_iff.1 hc
  cases q <;>
  · simp only [stPN] at hst
    unfold naStep; simp only [hst]
    unfold naStepP; simp only [h1, h2, h3, h4, h5, h6, Bool.false_eq_true, ↓reduceIte, Bool.or_self]
    rw [naParamStart_other pf i (by rw [hst]; decide) (by rw [hst]; decide)]
    simp only [naParamsOffs, hpo, Bool.false_eq_true, ↓reduceIte]

theorem stepPN_eq (h : Nat) (b : Buf) (i : Nat) (pf : PFromBody) (q : Bool) (hst : pf.state = stPN q) :
    naStep h b i 61 pf = .cont (i + 1) { pf with state := stNV q, pend := i, vstart := i + 1 } := by
  cases q <;>
  · simp only [stPN] at hst
    unfold naStep; simp only [hst]
    unfold naStepP
    simp +decide only [hst, ↓reduceIte]
    rfl

theorem stepPN_semi (h : Nat) (b : Buf) (i : Nat) (pf : PFromBody) (q : Bool) (hst : pf.state = stPN q) :
    naStep h b i 59 pf = .cont (i + 1) (setFromParamVal b { pf with state := stNP q, pend := i }) := by
  cases q <;>
  · simp only [stPN] at hst
    unfold naStep; simp only [hst]
    unfold naStepP
    simp +decide only [hst, ↓reduceIte]
    rfl

theorem stepPN_lws (h : Nat) (b : Buf) (i n : Nat) (c : UInt8) (pf : PFromBody) (q : Bool) (hst : pf.state = stPN q)
    (hc : isLWSch c = true) (hs : skipLWS b i 0 = (n, 0, .ok)) :
    naStep h b i c pf = .cont n { pf with state := stPNE q, pend := i } := by
  cases q <;>
  · simp only [stPN] at hst
    unfold naStep; simp only [hst]
    unfold naStepP; simp only [hc, ↓reduceIte]
    rw [hs]
    simp +decide only [naNameWS, hst, ↓reduceIte]
    rfl

theorem stepPN_eoh (h : Nat) (b : Buf) (i p crl : Nat) (c : UInt8) (pf : PFromBody) (q : Bool) (hst : pf.state = stPN q)
    (hc : isLWSch c = true) (hs : skipLWS b i 0 = (p, crl, .eoh)) :
    naStep h b i c pf = .done (p + crl) .ok
      { naEOHParamName b { pf with state := stPNE q, pend := i } i with state := .fin, soffs := 0, type := h } := by
  cases q <;>
  · simp only [stPN] at hst
    unfold naStep; simp only [hst]
    unfold naStepP; simp only [hc, ↓reduceIte]
    rw [hs]
    simp +decide only [naNameWS, hst, ↓reduceIte]
    rfl

theorem stepPN_comma (h : Nat) (b : Buf) (i : Nat) (pf : PFromBody) (q : Bool) (hst : pf.state = stPN q)
    (hm : multipleValsOk h = true) :
    naStep h b i 44 pf = .done (i + 1) .moreValues
      { naEOHParamName b pf i with state := .fin, soffs := 0, type := h } := by
  cases q <;>
  · simp only [stPN] at hst
    unfold naStep; simp only [hst]
    unfold naStepP
    simp +decide only [hm, ↓reduceIte]
    unfold naMoreValues naEOH
    simp only [hst]
    rfl

/-! #### steps in `paramNameEnd` -/

theorem stepPNE_eq (h : Nat) (b : Buf) (i : Nat) (pf : PFromBody) (q : Bool) (hst : pf.state = stPNE q) :
    naStep h b i 61 pf = .cont (i + 1) { pf with state := stNV q, vstart := i + 1 } := by
  cases q <;>
  · simp only [stPNE] at hst
    unfold naStep; simp only [hst]
    unfold naStepPE
    simp +decide only [hst, ↓reduceIte]
    rfl

theorem stepPNE_semi (h : Nat) (b : Buf) (i : Nat) (pf : PFromBody) (q : Bool) (hst : pf.state = stPNE q) :
    naStep h b i 59 pf = .cont (i + 1) (setFromParamVal b { pf with state := stNP q }) := by
  cases q <;>
  · simp only [stPNE] at hst
    unfold naStep; simp only [hst]
    unfold naStepPE
    simp +decide only [hst, ↓reduceIte]
    rfl

theorem stepPNE_comma (h : Nat) (b : Buf) (i : Nat) (pf : PFromBody) (q : Bool) (hst : pf.state = stPNE q)
    (hm : multipleValsOk h = true) :
    naStep h b i 44 pf = .done (i + 1) .moreValues
      { naEOHParamName b pf pf.pend with state := .fin, soffs := 0, type := h } := by
  cases q <;>
  · simp only [stPNE] at hst
    unfold naStep; simp only [hst]
    unfold naStepPE
    simp +decide only [↓reduceIte]
    unfold naCommaAfterWS naEOH
    simp only [hm, ↓reduceIte, hst]
    rfl

/-! #### steps in `newParamVal` / `paramVal` -/

theorem stepNV_lws (h : Nat) (b : Buf) (i n : Nat) (c : UInt8) (pf : PFromBody) (q : Bool) (hst : pf.state = stNV q)
    (hc : isLWSch c = true) (hs : skipLWS b i 0 = (n, 0, .ok)) :
    naStep h b i c pf = .cont n { pf with vstart := n } := by
  cases q <;>
  · simp only [stNV] at hst
    unfold naStep; simp only [hst]
    unfold naStepV; simp only [hc, ↓reduceIte]
    rw [hs]
    simp +decide only [naValWS, hst, ↓reduceIte]

theorem stepNV_ch (h : Nat) (b : Buf) (i : Nat) (c : UInt8) (pf : PFromBody) (q : Bool) (hst : pf.state = stNV q)
    (hc : isPVch c = true) : naStep h b i c pf = .cont (i + 1) { pf with state := stPV q, vstart := i } := by
  obtain ⟨h1, h2, h3, h4, h5, h6, h7⟩ := isPVch_iff.1 hc
  cases q <;>
  · simp only [stNV] at hst
    unfold naStep; simp only [hst]
    unfold naStepV
    simp +decide only [h1, h2, h3, h4, h5, h6, h7, hst, Bool.false_eq_true, ↓reduceIte, Bool.or_self]
    rfl

theorem stepNV_quote (h : Nat) (b : Buf) (i : Nat) (pf : PFromBody) (q : Bool) (hst : pf.state = stNV q) :
    naStep h b i 34 pf = .cont (i + 1) { pf with state := stQV q, vstart := i } := by
  cases q <;>
  · simp only [stNV] at hst
    unfold naStep; simp only [hst]
    unfold naStepV
    simp +decide only [hst, ↓reduceIte]
    rfl

theorem stepPV_ch (h : Nat) (b : Buf) (i : Nat) (c : UInt8) (pf : PFromBody) (q : Bool) (hst : pf.state = stPV q)
    (hc : isPVch c = true) : naStep h b i c pf = .cont (i + 1) pf := by
  obtain ⟨h1, h2, h3, h4, h5, h6, h7⟩ := isPVch_iff.1 hc
  cases q <;>
  · simp only [stPV] at hst
    unfold naStep; simp only [hst]
    unfold naStepV
    simp +decide only [h1, h2, h3, h4, h5, h6, h7, hst, Bool.false_eq_true, ↓reduceIte, Bool.or_self]

theorem stepPV_quote (h : Nat) (b : Buf) (i : Nat) (pf : PFromBody) (q : Bool) (hst : pf.state = stPV q) :
    naStep h b i 34 pf = .cont (i + 1) { pf with state := stQV q } := by
  cases q <;>
  · simp only [stPV] at hst
    unfold naStep; simp only [hst]
    unfold naStepV
    simp +decide only [hst, ↓reduceIte]
    rfl

theorem stepPV_semi (h : Nat) (b : Buf) (i : Nat) (pf : PFromBody) (q : Bool) (hst : pf.state = stPV q) :
    naStep h b i 59 pf = .cont (i + 1) (setFromParamVal b { pf with state := stNP q, vend := i }) := by
  cases q <;>
  · simp only [stPV] at hst
    unfold naStep; simp only [hst]
    unfold naStepV
    simp +decide only [hst, ↓reduceIte]
    rfl

theorem stepPV_lws (h : Nat) (b : Buf) (i n : Nat) (c : UInt8) (pf : PFromBody) (q : Bool) (hst : pf.state = stPV q)
    (hc : isLWSch c = true) (hs : skipLWS b i 0 = (n, 0, .ok)) :
    naStep h b i c pf = .cont n { pf with state := stPVE q, vend := i } := by
  cases q <;>
  · simp only [stPV] at hst
    unfold naStep; simp only [hst]
    unfold naStepV; simp only [hc, ↓reduceIte]
    rw [hs]
    simp +decide only [naValWS, hst]
    rfl

theorem stepPV_eoh (h : Nat) (b : Buf) (i p crl : Nat) (c : UInt8) (pf : PFromBody) (q : Bool) (hst : pf.state = stPV q)
    (hc : isLWSch c = true) (hs : skipLWS b i 0 = (p, crl, .eoh)) :
    naStep h b i c pf = .done (p + crl) .ok
      { ((setFromParamVal b { pf with state := stPVE q, vend := i }).extParams i).extV i with
        state := .fin, soffs := 0, type := h } := by
  cases q <;>
  · simp only [stPV] at hst
    unfold naStep; simp only [hst]
    unfold naStepV; simp only [hc, ↓reduceIte]
    rw [hs]
    simp +decide only [naValWS, hst]
    rfl

theorem stepPV_comma (h : Nat) (b : Buf) (i : Nat) (pf : PFromBody) (q : Bool) (hst : pf.state = stPV q)
    (hm : multipleValsOk h = true) :
    naStep h b i 44 pf = .done (i + 1) .moreValues
      { ((setFromParamVal b { pf with vend := i }).extParams i).extV i with state := .fin, soffs := 0, type := h } := by
  cases q <;>
  · simp only [stPV] at hst
    unfold naStep; simp only [hst]
    unfold naStepV
    simp +decide only [hm, ↓reduceIte]
    unfold naMoreValues naEOH naEOHVal
    simp only [hst]
    rfl

/-! #### steps in `paramValEnd` -/

theorem stepPVE_semi (h : Nat) (b : Buf) (i : Nat) (pf : PFromBody) (q : Bool) (hst : pf.state = stPVE q) :
    naStep h b i 59 pf = .cont (i + 1) (setFromParamVal b { pf with state := stNP q }) := by
  cases q <;>
  · simp only [stPVE] at hst
    unfold naStep; simp only [hst]
    unfold naStepVE
    simp +decide only [hst, ↓reduceIte]
    rfl

theorem stepPVE_comma (h : Nat) (b : Buf) (i : Nat) (pf : PFromBody) (q : Bool) (hst : pf.state = stPVE q)
    (hm : multipleValsOk h = true) :
    naStep h b i 44 pf = .done (i + 1) .moreValues
      { ((setFromParamVal b pf).extParams pf.vend).extV pf.vend with state := .fin, soffs := 0, type := h } := by
  cases q <;>
  · simp only [stPVE] at hst
    unfold naStep; simp only [hst]
    unfold naStepVE
    simp +decide only [↓reduceIte]
    unfold naCommaAfterWS naEOH
    simp only [hm, ↓reduceIte, hst]
    rfl

/-! #### quoted strings (display name and parameter values) -/

def IsQState (s : FBState) : Prop := s = .quoted ∨ s = .quotedVal ∨ s = .quotedPossibleVal

theorem naStep_q (h : Nat) (b : Buf) (i : Nat) (c : UInt8) (pf : PFromBody) (hst : IsQState pf.state) :
    naStep h b i c pf = naStepQ h b i c pf := by
  rcases hst with hst | hst | hst <;> (unfold naStep; rw [hst])

theorem stepQ_ch (h : Nat) (b : Buf) (i : Nat) (c : UInt8) (pf : PFromBody) (hst : IsQState pf.state)
    (hc : isQch c = true) : naStep h b i c pf = .cont (i + 1) pf := by
  obtain ⟨h1, h2, h3⟩ := isQch_iff.1 hc
  rw [naStep_q h b i c pf hst]
  unfold naStepQ
  simp only [h1, h2, h3, Bool.false_eq_true, ↓reduceIte]

theorem stepQ_esc (h : Nat) (b : Buf) (i : Nat) (c1 : UInt8) (pf : PFromBody) (hst : IsQState pf.state)
    (h1 : b[i + 1]? = some c1) (hc1 : isCRLFch c1 = false) : naStep h b i 92 pf = .cont (i + 2) pf := by
  rw [naStep_q h b i 92 pf hst]
  unfold naStepQ
  simp +decide only [h1, hc1, ↓reduceIte]

theorem stepQ_lws (h : Nat) (b : Buf) (i n : Nat) (c : UInt8) (pf : PFromBody) (hst : IsQState pf.state)
    (hc : isLWSch c = true) (hs : skipLWS b i 0 = (n, 0, .ok)) : naStep h b i c pf = .cont n pf := by
  rw [naStep_q h b i c pf hst]
  unfold naStepQ
  have h34 : (c == 34) = false := by
    unfold isLWSch at hc; simp only [Bool.or_eq_true, beq_iff_eq] at hc
    rcases hc with ((hc | hc) | hc) | hc <;> (rw [hc]; decide)
  have h92 : (c == 92) = false := by
    unfold isLWSch at hc; simp only [Bool.or_eq_true, beq_iff_eq] at hc
    rcases hc with ((hc | hc) | hc) | hc <;> (rw [hc]; decide)
  simp only [h34, h92, hc, Bool.false_eq_true, ↓reduceIte]
  exact naLWS_ok pf hs

/-- the inside of a quoted string from `i` up to the closing quote at `j`: ordinary bytes, `\x` pairs (`x` not CR / LF)
    and linear white space (folds included) -/
inductive NaQBody (b : Buf) : Nat → Nat → Prop
  | nil (i : Nat) : b[i]? = some 34 → NaQBody b i i
  | ch (i j : Nat) (c : UInt8) : b[i]? = some c → isQch c = true → NaQBody b (i + 1) j → NaQBody b i j
  | esc (i j : Nat) (c1 : UInt8) : b[i]? = some 92 → b[i + 1]? = some c1 → isCRLFch c1 = false → NaQBody b (i + 2) j →
      NaQBody b i j
  | lws (i n j : Nat) (c : UInt8) : Lws b i n → i < n → b[n]? = some c → isLWSch c = false → NaQBody b n j → NaQBody b i j

theorem NaQBody.le {b : Buf} {i j : Nat} (H : NaQBody b i j) : i ≤ j := by
  induction H with
  | nil i _ => exact Nat.le_refl _
  | ch i j c _ _ _ ih => omega
  | esc i j c1 _ _ _ _ ih => omega
  | lws i n j c _ hlt _ _ _ ih => omega

theorem NaQBody.close {b : Buf} {i j : Nat} (H : NaQBody b i j) : b[j]? = some 34 := by
  induction H with
  | nil i h => exact h
  | ch i j c _ _ _ ih => exact ih
  | esc i j c1 _ _ _ _ ih => exact ih
  | lws i n j c _ _ _ _ _ ih => exact ih

/-- the loop walks over the inside of a quoted string without touching the object -/
theorem na_qbody_run (h : Nat) {b : Buf} {i j : Nat} (H : NaQBody b i j) (pf : PFromBody) (hst : IsQState pf.state) :
    runLoop (naMachine h) b i pf = runLoop (naMachine h) b j pf := by
  induction H with
  | nil i _ => rfl
  | ch i j c hc hq _ ih =>
    rw [runLoop_cont (naMachine h) hc (by exact stepQ_ch h b i c pf hst hq), if_pos (by omega)]; exact ih
  | esc i j c1 h0 h1 hc1 _ ih =>
    rw [runLoop_cont (naMachine h) h0 (by exact stepQ_esc h b i c1 pf hst h1 hc1), if_pos (by omega)]; exact ih
  | lws i n j c hl hlt hn hc _ ih =>
    obtain ⟨c0, h0, hl0⟩ := hl.first hlt
    rw [runLoop_cont (naMachine h) h0 (by exact stepQ_lws h b i n c0 pf hst hl0 (skipLWS_of_lws hl hn hc)), if_pos hlt]
    exact ih

theorem stepQ_close (h : Nat) (b : Buf) (i : Nat) (pf : PFromBody) (hst : IsQState pf.state) :
    naStep h b i 34 pf = .cont (i + 1) { pf with state :=
      if pf.state = .quoted then .name else if pf.state = .quotedVal then .paramVal else .possibleVal } := by
  rw [naStep_q h b i 34 pf hst]
  unfold naStepQ
  rcases hst with hst | hst | hst <;> simp +decide only [hst, ↓reduceIte]

theorem stepQV_close (h : Nat) (b : Buf) (i : Nat) (pf : PFromBody) (q : Bool) (hst : pf.state = stQV q) :
    naStep h b i 34 pf = .cont (i + 1) { pf with state := stPV q } := by
  cases q <;>
  · simp only [stQV] at hst
    unfold naStep; simp only [hst]
    unfold naStepQ
    simp +decide only [hst, ↓reduceIte]
    rfl

theorem stQV_isQ (q : Bool) : IsQState (stQV q) := by
  cases q
  · exact Or.inr (Or.inl rfl)
  · exact Or.inr (Or.inr rfl)

/-! ### the object while a parameter list is being read -/

/-- `base` with the parameter-dependent fields `a`, automaton state `st`, start of the parameter span `po`, and the four
    work offsets -/
def pst (base : PFromBody) (st : FBState) (po ps pe vs ve : Nat) (a : PAcc) : PFromBody :=
  { base with tag := a.tag, lr := a.lr, hasExpires := a.hasExpires, expires := a.expires, q := a.q, paramErr := a.paramErr, errOffs := a.errOffs, state := st, params := ⟨po, base.params.len⟩, pstart := ps, pend := pe, vstart := vs, vend := ve }

theorem sfp_pst (b : Buf) (base : PFromBody) (st : FBState) (po ps pe vs ve : Nat) (a : PAcc) (h1 : pe ≤ b.size)
    (h2 : ve ≤ b.size) :
    setFromParamVal b (pst base st po ps pe vs ve a) = pst base st po 0 0 0 0 (paramEffect b ps pe vs ve a) := by
  rw [setFromParamVal_eq b _ h1 h2]; rfl

/-- the finished object: parameter span and value extended to `w` -/
def finP (h : Nat) (base : PFromBody) (po w : Nat) (a : PAcc) : PFromBody :=
  { ((pst base .fin po 0 0 0 0 a).extParams w).extV w with soffs := 0, type := h }

/-! ### grammar of parameters -/

/-- the rest of a parameter value: value bytes and quoted strings -/
inductive PValTail (b : Buf) : Nat → Nat → Prop
  | nil (i : Nat) : PValTail b i i
  | ch (i j : Nat) (c : UInt8) : b[i]? = some c → isPVch c = true → PValTail b (i + 1) j → PValTail b i j
  | q (i k j : Nat) : b[i]? = some 34 → NaQBody b (i + 1) k → PValTail b (k + 1) j → PValTail b i j

/-- a parameter value at `[vs, ve)`: a non-empty sequence of value bytes and quoted strings -/
def PVal (b : Buf) (vs ve : Nat) : Prop :=
  (∃ c, b[vs]? = some c ∧ isPVch c = true ∧ PValTail b (vs + 1) ve) ∨
  (∃ k, b[vs]? = some 34 ∧ NaQBody b (vs + 1) k ∧ PValTail b (k + 1) ve)

theorem PValTail.le {b : Buf} {i j : Nat} (H : PValTail b i j) : i ≤ j := by
  induction H with
  | nil i => exact Nat.le_refl _
  | ch i j c _ _ _ ih => omega
  | q i k j _ hq _ ih => have := hq.le; omega

theorem PVal.lt {b : Buf} {vs ve : Nat} (H : PVal b vs ve) : vs < ve := by
  rcases H with ⟨c, _, _, ht⟩ | ⟨k, _, hq, ht⟩
  · have := ht.le; omega
  · have := ht.le; have := hq.le; omega

theorem PVal.first {b : Buf} {vs ve : Nat} (H : PVal b vs ve) : ∃ c, b[vs]? = some c ∧ isLWSch c = false := by
  rcases H with ⟨c, hc, hp, _⟩ | ⟨k, hc, _, _⟩
  · exact ⟨c, hc, (isPVch_iff.1 hp).1⟩
  · exact ⟨34, hc, by decide⟩

theorem na_pvaltail_run (h : Nat) {b : Buf} {i j : Nat} (H : PValTail b i j) (q : Bool) (base : PFromBody)
    (po ps pe vs : Nat) (a : PAcc) :
    runLoop (naMachine h) b i (pst base (stPV q) po ps pe vs 0 a) =
      runLoop (naMachine h) b j (pst base (stPV q) po ps pe vs 0 a) := by
  induction H with
  | nil i => rfl
  | ch i j c hc hp _ ih =>
    rw [runLoop_cont (naMachine h) hc (by exact stepPV_ch h b i c _ q rfl hp), if_pos (by omega)]; exact ih
  | q i k j hc hq _ ih =>
    have hle := hq.le
    rw [runLoop_cont (naMachine h) hc (by exact stepPV_quote h b i _ q rfl), if_pos (by omega)]
    rw [na_qbody_run h hq _ (stQV_isQ q)]
    rw [runLoop_cont (naMachine h) hq.close
      (by exact stepQV_close h b k (pst base (stQV q) po ps pe vs 0 a) q rfl), if_pos (by omega)]
    exact ih

/-- from the first byte of a value (state "new value") to its end (state "in value", value start recorded) -/
theorem na_pval_run (h : Nat) {b : Buf} {vs ve : Nat} (H : PVal b vs ve) (q : Bool) (base : PFromBody)
    (po ps pe vs0 : Nat) (a : PAcc) :
    runLoop (naMachine h) b vs (pst base (stNV q) po ps pe vs0 0 a) =
      runLoop (naMachine h) b ve (pst base (stPV q) po ps pe vs 0 a) := by
  rcases H with ⟨c, hc, hp, ht⟩ | ⟨k, hc, hq, ht⟩
  · rw [runLoop_cont (naMachine h) hc (by exact stepNV_ch h b vs c _ q rfl hp), if_pos (by omega)]
    exact na_pvaltail_run h ht q base po ps pe vs a
  · have hle := hq.le
    rw [runLoop_cont (naMachine h) hc (by exact stepNV_quote h b vs _ q rfl), if_pos (by omega)]
    rw [na_qbody_run h hq _ (stQV_isQ q)]
    rw [runLoop_cont (naMachine h) hq.close
      (by exact stepQV_close h b k (pst base (stQV q) po ps pe vs 0 a) q rfl), if_pos (by omega)]
    exact na_pvaltail_run h ht q base po ps pe vs a

/-- start of the parameter span after a parameter that begins at `ps` -/
def poNext (po ps : Nat) : Nat := if po = 0 then ps else po

theorem naParamsOffs_pst (base : PFromBody) (st : FBState) (po ps : Nat) (a : PAcc) (hps : ps ≤ 65535) :
    naParamsOffs (pst base st po ps 0 0 0 a) ps = pst base st (poNext po ps) ps 0 0 0 a := by
  unfold naParamsOffs poNext
  by_cases h0 : po = 0
  · subst h0
    have : ((pst base st 0 ps 0 0 0 a).params.offs == 0) = true := rfl
    rw [if_pos this, if_pos rfl, trunc16_id hps]; rfl
  · have : ((pst base st po ps 0 0 0 a).params.offs == 0) = false := by
      show (po == 0) = false
      simpa using h0
    rw [this, if_neg h0]; rfl

/-- optional white space, then the parameter name `[ps, pe)` -/
theorem na_pname_run (h : Nat) (b : Buf) (q : Bool) (base : PFromBody) (po : Nat) (a : PAcc) (i ps pe : Nat)
    (hl : Lws b i ps) (hn : Run isPNch b ps pe) (hlt : ps < pe) (h0 : 0 < ps) (hfit : b.size ≤ 65535) :
    runLoop (naMachine h) b i (pst base (stNP q) po 0 0 0 0 a) =
      runLoop (naMachine h) b pe (pst base (stPN q) (poNext po ps) ps 0 0 0 a) := by
  obtain ⟨c, hc, hp⟩ := hn ps (Nat.le_refl _) hlt
  have hcl := (isPNch_iff.1 hp).1
  have hsz := get?_lt hc
  have hle := hl.le
  -- the white space
  have hskip : runLoop (naMachine h) b i (pst base (stNP q) po 0 0 0 0 a) =
      runLoop (naMachine h) b ps (pst base (stNP q) po 0 0 0 0 a) := by
    by_cases h1 : i < ps
    · obtain ⟨c0, hc0, hl0⟩ := hl.first h1
      rw [runLoop_cont (naMachine h) hc0 (by exact stepNP_lws h b i ps c0 _ q rfl hl0 (skipLWS_of_lws hl hc hcl)),
        if_pos h1]
    · have : i = ps := by omega
      rw [this]
  rw [hskip]
  -- the first byte of the name
  have hstep : naStep h b ps c (pst base (stNP q) po 0 0 0 0 a) =
      .cont (ps + 1) (pst base (stPN q) (poNext po ps) ps 0 0 0 a) := by
    rw [stepNP_ch h b ps c _ q rfl hp]
    show Step.cont (ps + 1) (naParamsOffs (pst base (stPN q) po ps 0 0 0 a) ps) = _
    rw [naParamsOffs_pst base (stPN q) po ps a (by omega)]
  rw [runLoop_cont (naMachine h) hc (by exact hstep), if_pos (by omega)]
  -- the rest of the name
  have hpo : ((pst base (stPN q) (poNext po ps) ps 0 0 0 a).params.offs == 0) = false := by
    show (poNext po ps == 0) = false
    unfold poNext
    by_cases hz : po = 0
    · rw [if_pos hz]; simp; omega
    · rw [if_neg hz]; simpa using hz
  exact runLoop_run (naMachine h) b isPNch _ (fun k c' _ hc' => stepPN_ch h b k c' _ q rfl hc' hpo) (ps + 1) pe
    (by omega) (hn.tail (ps + 1) (by omega))

/-- a parameter without value, then optional white space and `;` -/
theorem na_flag_sep (h : Nat) (b : Buf) (q : Bool) (base : PFromBody) (po ps pe m : Nat) (a : PAcc)
    (hl : Lws b pe m) (hm : b[m]? = some 59) :
    runLoop (naMachine h) b pe (pst base (stPN q) po ps 0 0 0 a) =
      runLoop (naMachine h) b (m + 1) (pst base (stNP q) po 0 0 0 0 (paramEffect b ps pe 0 0 a)) := by
  have hsz := get?_lt hm
  have hle := hl.le
  by_cases h1 : pe < m
  · obtain ⟨c0, hc0, hl0⟩ := hl.first h1
    rw [runLoop_cont (naMachine h) hc0
      (by exact stepPN_lws h b pe m c0 _ q rfl hl0 (skipLWS_of_lws hl hm (by decide))), if_pos h1]
    have hstep : naStep h b m 59 (pst base (stPNE q) po ps pe 0 0 a) =
        .cont (m + 1) (pst base (stNP q) po 0 0 0 0 (paramEffect b ps pe 0 0 a)) := by
      rw [stepPNE_semi h b m _ q rfl]
      show Step.cont (m + 1) (setFromParamVal b (pst base (stNP q) po ps pe 0 0 a)) = _
      rw [sfp_pst b base _ po ps pe 0 0 a (by omega) (by omega)]
    exact (runLoop_cont (naMachine h) hm (by exact hstep)).trans (if_pos (by omega))
  · have : pe = m := by omega
    subst this
    have hstep : naStep h b pe 59 (pst base (stPN q) po ps 0 0 0 a) =
        .cont (pe + 1) (pst base (stNP q) po 0 0 0 0 (paramEffect b ps pe 0 0 a)) := by
      rw [stepPN_semi h b pe _ q rfl]
      show Step.cont (pe + 1) (setFromParamVal b (pst base (stNP q) po ps pe 0 0 a)) = _
      rw [sfp_pst b base _ po ps pe 0 0 a (by omega) (by omega)]
    exact (runLoop_cont (naMachine h) hm (by exact hstep)).trans (if_pos (by omega))

/-- end of a parameter name, optional white space, `=`, optional white space, up to the first byte of the value -/
theorem na_peq_run (h : Nat) (b : Buf) (q : Bool) (base : PFromBody) (po ps pe eq vs : Nat) (a : PAcc)
    (hl : Lws b pe eq) (heq : b[eq]? = some 61) (hl2 : Lws b (eq + 1) vs) {c : UInt8} (hv : b[vs]? = some c)
    (hc : isLWSch c = false) :
    runLoop (naMachine h) b pe (pst base (stPN q) po ps 0 0 0 a) =
      runLoop (naMachine h) b vs (pst base (stNV q) po ps pe vs 0 a) := by
  have hle := hl.le
  have hle2 := hl2.le
  -- up to the byte after `=`
  have h1 : runLoop (naMachine h) b pe (pst base (stPN q) po ps 0 0 0 a) =
      runLoop (naMachine h) b (eq + 1) (pst base (stNV q) po ps pe (eq + 1) 0 a) := by
    by_cases h1 : pe < eq
    · obtain ⟨c0, hc0, hl0⟩ := hl.first h1
      rw [runLoop_cont (naMachine h) hc0
        (by exact stepPN_lws h b pe eq c0 _ q rfl hl0 (skipLWS_of_lws hl heq (by decide))), if_pos h1]
      exact (runLoop_cont (naMachine h) heq
        (by exact stepPNE_eq h b eq (pst base (stPNE q) po ps pe 0 0 a) q rfl)).trans (if_pos (by omega))
    · have : pe = eq := by omega
      subst this
      exact (runLoop_cont (naMachine h) heq
        (by exact stepPN_eq h b pe (pst base (stPN q) po ps 0 0 0 a) q rfl)).trans (if_pos (by omega))
  rw [h1]
  by_cases h2 : eq + 1 < vs
  · obtain ⟨c0, hc0, hl0⟩ := hl2.first h2
    have hstep := stepNV_lws h b (eq + 1) vs c0 (pst base (stNV q) po ps pe (eq + 1) 0 a) q rfl hl0
      (skipLWS_of_lws hl2 hv hc)
    exact (runLoop_cont (naMachine h) hc0 (by exact hstep)).trans (if_pos h2)
  · have : eq + 1 = vs := by omega
    rw [this]

/-- a parameter value, then optional white space and `;` -/
theorem na_val_sep (h : Nat) (b : Buf) (q : Bool) (base : PFromBody) (po ps pe vs ve m : Nat) (a : PAcc)
    (hpe : pe ≤ ve) (hl : Lws b ve m) (hm : b[m]? = some 59) :
    runLoop (naMachine h) b ve (pst base (stPV q) po ps pe vs 0 a) =
      runLoop (naMachine h) b (m + 1) (pst base (stNP q) po 0 0 0 0 (paramEffect b ps pe vs ve a)) := by
  have hsz := get?_lt hm
  have hle := hl.le
  by_cases h1 : ve < m
  · obtain ⟨c0, hc0, hl0⟩ := hl.first h1
    rw [runLoop_cont (naMachine h) hc0
      (by exact stepPV_lws h b ve m c0 _ q rfl hl0 (skipLWS_of_lws hl hm (by decide))), if_pos h1]
    have hstep : naStep h b m 59 (pst base (stPVE q) po ps pe vs ve a) =
        .cont (m + 1) (pst base (stNP q) po 0 0 0 0 (paramEffect b ps pe vs ve a)) := by
      rw [stepPVE_semi h b m _ q rfl]
      show Step.cont (m + 1) (setFromParamVal b (pst base (stNP q) po ps pe vs ve a)) = _
      rw [sfp_pst b base _ po ps pe vs ve a (by omega) (by omega)]
    exact (runLoop_cont (naMachine h) hm (by exact hstep)).trans (if_pos (by omega))
  · have : ve = m := by omega
    subst this
    have hstep : naStep h b ve 59 (pst base (stPV q) po ps pe vs 0 a) =
        .cont (ve + 1) (pst base (stNP q) po 0 0 0 0 (paramEffect b ps pe vs ve a)) := by
      rw [stepPV_semi h b ve _ q rfl]
      show Step.cont (ve + 1) (setFromParamVal b (pst base (stNP q) po ps pe vs ve a)) = _
      rw [sfp_pst b base _ po ps pe vs ve a (by omega) (by omega)]
    exact (runLoop_cont (naMachine h) hm (by exact hstep)).trans (if_pos (by omega))

/-! ### how a value ends -/

/-- after the last byte of the value (at `w`): optional white space and a line end that is not a fold — verdict OK,
    offset after the line end — or, for the header kinds that take several values, optional white space and a comma —
    verdict "more values", offset after the comma -/
inductive Term (h : Nat) (b : Buf) (w : Nat) : Nat → Err → Prop
  | eol (p e : Nat) (c2 : UInt8) : Lws b w p → Eol b p e → b[e]? = some c2 → isWS c2 = false → Term h b w e .ok
  | comma (m : Nat) : Lws b w m → b[m]? = some 44 → multipleValsOk h = true → Term h b w (m + 1) .moreValues

theorem Term.bound {h : Nat} {b : Buf} {w o : Nat} {e : Err} (T : Term h b w o e) : w < b.size := by
  cases T with
  | eol p e c2 hl he _ _ => obtain ⟨c, hc, _⟩ := he.first; have := get?_lt hc; have := hl.le; omega
  | comma m hl hm _ => have := get?_lt hm; have := hl.le; omega

theorem Term.complete {h : Nat} {b : Buf} {w o : Nat} {e : Err} (T : Term h b w o e) : e = .ok ∨ e = .moreValues := by
  cases T with
  | eol p e c2 _ _ _ _ => exact Or.inl rfl
  | comma m _ _ _ => exact Or.inr rfl

theorem naEOHParamName_end (b : Buf) (pf : PFromBody) (i : Nat) (h1 : pf.state ≠ .paramName)
    (h2 : pf.state ≠ .possibleParamName) (h3 : pf.pstart < pf.pend) (h4 : ((setFromParamVal b pf).params.offs != 0) = true) :
    naEOHParamName b pf i = ((setFromParamVal b pf).extParams i).extV i := by
  unfold naEOHParamName
  have e1 : (pf.state == .paramName) = false := by simpa using h1
  have e2 : (pf.state == .possibleParamName) = false := by simpa using h2
  simp only [e1, e2, Bool.or_self, Bool.false_eq_true, ↓reduceIte, h3, h4]

theorem naEOHParamName_name (b : Buf) (pf : PFromBody) (i : Nat) (q : Bool) (h1 : pf.state = stPN q)
    (h3 : pf.pstart < i) (h4 : ((setFromParamVal b { pf with pend := i }).params.offs != 0) = true) :
    naEOHParamName b pf i = ((setFromParamVal b { pf with pend := i }).extParams i).extV i := by
  unfold naEOHParamName
  have e1 : (pf.state == .paramName || pf.state == .possibleParamName) = true := by
    cases q <;> (simp only [stPN] at h1; rw [h1]; decide)
  simp only [e1, ↓reduceIte, h3, h4]

/-- a parameter without value at the end of the value -/
theorem na_flag_term (h : Nat) (b : Buf) (q : Bool) (base : PFromBody) (po ps pe : Nat) (a : PAcc) (hps : ps < pe)
    (hpo : po ≠ 0) {o' : Nat} {e' : Err} (T : Term h b pe o' e') :
    runLoop (naMachine h) b pe (pst base (stPN q) po ps 0 0 0 a) =
      (o', e', finP h base po pe (paramEffect b ps pe 0 0 a)) := by
  have hsz := T.bound
  have hpo' : ∀ st, ((pst base st po 0 0 0 0 (paramEffect b ps pe 0 0 a)).params.offs != 0) = true := by
    intro st; show (po != 0) = true; simpa using hpo
  have hE : ∀ st, st ≠ .paramName → st ≠ .possibleParamName →
      naEOHParamName b (pst base st po ps pe 0 0 a) pe =
        ((pst base st po 0 0 0 0 (paramEffect b ps pe 0 0 a)).extParams pe).extV pe := by
    intro st n1 n2
    rw [naEOHParamName_end b _ pe n1 n2 hps (by rw [sfp_pst b base st po ps pe 0 0 a (by omega) (by omega)]; exact hpo' st)]
    rw [sfp_pst b base st po ps pe 0 0 a (by omega) (by omega)]
  have hne1 : stPNE q ≠ .paramName := by cases q <;> decide
  have hne2 : stPNE q ≠ .possibleParamName := by cases q <;> decide
  rcases T with ⟨p, e, c2, hl, he, h2, hw2⟩ | ⟨m, hl, hm, hmv⟩
  · obtain ⟨c0, hc0, hl0⟩ := lws_eol_first hl he
    have hgt := he.gt
    refine runLoop_done (naMachine h) hc0 ?_
    show naStep h b pe c0 _ = _
    rw [stepPN_eoh h b pe p (o' - p) c0 _ q rfl hl0 (skipLWS_of_lws_eol hl he h2 hw2)]
    have : p + (o' - p) = o' := by omega
    rw [this]
    show Step.done o' Err.ok { naEOHParamName b (pst base (stPNE q) po ps pe 0 0 a) pe with
      state := .fin, soffs := 0, type := h } = _
    rw [hE _ hne1 hne2]; rfl
  · have hle := hl.le
    by_cases h1 : pe < m
    · obtain ⟨c0, hc0, hl0⟩ := hl.first h1
      rw [runLoop_cont (naMachine h) hc0
        (by exact stepPN_lws h b pe m c0 _ q rfl hl0 (skipLWS_of_lws hl hm (by decide))), if_pos h1]
      refine runLoop_done (naMachine h) hm ?_
      show naStep h b m 44 (pst base (stPNE q) po ps pe 0 0 a) = _
      rw [stepPNE_comma h b m _ q rfl hmv]
      show Step.done (m + 1) Err.moreValues { naEOHParamName b (pst base (stPNE q) po ps pe 0 0 a) pe with
        state := .fin, soffs := 0, type := h } = _
      rw [hE _ hne1 hne2]; rfl
    · have : pe = m := by omega
      subst this
      refine runLoop_done (naMachine h) hm ?_
      show naStep h b pe 44 (pst base (stPN q) po ps 0 0 0 a) = _
      rw [stepPN_comma h b pe _ q rfl hmv]
      rw [naEOHParamName_name b _ pe q rfl hps (by
        show ((setFromParamVal b (pst base (stPN q) po ps pe 0 0 a)).params.offs != 0) = true
        rw [sfp_pst b base _ po ps pe 0 0 a (by omega) (by omega)]; exact hpo' _)]
      show Step.done (pe + 1) Err.moreValues { ((setFromParamVal b (pst base (stPN q) po ps pe 0 0 a)).extParams pe).extV pe with
        state := .fin, soffs := 0, type := h } = _
      rw [sfp_pst b base _ po ps pe 0 0 a (by omega) (by omega)]; rfl

/-- a parameter with value at the end of the value -/
theorem na_val_term (h : Nat) (b : Buf) (q : Bool) (base : PFromBody) (po ps pe vs ve : Nat) (a : PAcc) (hpe : pe ≤ ve)
    {o' : Nat} {e' : Err} (T : Term h b ve o' e') :
    runLoop (naMachine h) b ve (pst base (stPV q) po ps pe vs 0 a) =
      (o', e', finP h base po ve (paramEffect b ps pe vs ve a)) := by
  have hsz := T.bound
  rcases T with ⟨p, e, c2, hl, he, h2, hw2⟩ | ⟨m, hl, hm, hmv⟩
  · obtain ⟨c0, hc0, hl0⟩ := lws_eol_first hl he
    have hgt := he.gt
    refine runLoop_done (naMachine h) hc0 ?_
    show naStep h b ve c0 _ = _
    rw [stepPV_eoh h b ve p (o' - p) c0 _ q rfl hl0 (skipLWS_of_lws_eol hl he h2 hw2)]
    have : p + (o' - p) = o' := by omega
    rw [this]
    show Step.done o' Err.ok { ((setFromParamVal b (pst base (stPVE q) po ps pe vs ve a)).extParams ve).extV ve with
      state := .fin, soffs := 0, type := h } = _
    rw [sfp_pst b base _ po ps pe vs ve a (by omega) (by omega)]; rfl
  · have hle := hl.le
    by_cases h1 : ve < m
    · obtain ⟨c0, hc0, hl0⟩ := hl.first h1
      rw [runLoop_cont (naMachine h) hc0
        (by exact stepPV_lws h b ve m c0 _ q rfl hl0 (skipLWS_of_lws hl hm (by decide))), if_pos h1]
      refine runLoop_done (naMachine h) hm ?_
      show naStep h b m 44 (pst base (stPVE q) po ps pe vs ve a) = _
      rw [stepPVE_comma h b m _ q rfl hmv]
      show Step.done (m + 1) Err.moreValues { ((setFromParamVal b (pst base (stPVE q) po ps pe vs ve a)).extParams ve).extV ve with
        state := .fin, soffs := 0, type := h } = _
      rw [sfp_pst b base _ po ps pe vs ve a (by omega) (by omega)]; rfl
    · have : ve = m := by omega
      subst this
      refine runLoop_done (naMachine h) hm ?_
      show naStep h b ve 44 (pst base (stPV q) po ps pe vs 0 a) = _
      rw [stepPV_comma h b ve _ q rfl hmv]
      show Step.done (ve + 1) Err.moreValues { ((setFromParamVal b (pst base (stPV q) po ps pe vs ve a)).extParams ve).extV ve with
        state := .fin, soffs := 0, type := h } = _
      rw [sfp_pst b base _ po ps pe vs ve a (by omega) (by omega)]; rfl

/-! ### parameter lists -/

/-- name `[ps, pe)` and value `[vs, ve)` of a parameter (`vs = ve = 0`: no value) -/
structure PSpan where
  ps : Nat
  pe : Nat
  vs : Nat
  ve : Nat
  deriving DecidableEq, Repr

/-- one parameter, read from the byte after its `;` at `i`: optional white space, a name, and optionally white space,
    `=`, white space and a value; `w` is the offset after its last byte -/
inductive ParamAt (b : Buf) (i : Nat) : PSpan → Nat → Prop
  | flag (ps pe : Nat) : Lws b i ps → Run isPNch b ps pe → ps < pe → ParamAt b i ⟨ps, pe, 0, 0⟩ pe
  | val (ps pe eq vs ve : Nat) : Lws b i ps → Run isPNch b ps pe → ps < pe → Lws b pe eq → b[eq]? = some 61 →
      Lws b (eq + 1) vs → PVal b vs ve → ParamAt b i ⟨ps, pe, vs, ve⟩ ve

/-- parameters separated by `;` with optional white space around it; `w` is the offset after the last byte of the last one -/
inductive PList (b : Buf) : Nat → List PSpan → Nat → Prop
  | last (i w : Nat) (x : PSpan) : ParamAt b i x w → PList b i [x] w
  | cons (i w m w' : Nat) (x : PSpan) (L : List PSpan) : ParamAt b i x w → Lws b w m → b[m]? = some 59 →
      PList b (m + 1) L w' → PList b i (x :: L) w'

/-- the parameter-dependent fields after all parameters of the list, in order -/
def accAll (b : Buf) (L : List PSpan) (a : PAcc) : PAcc := L.foldl (fun a x => paramEffect b x.ps x.pe x.vs x.ve a) a

/-- start of the parameter span -/
def firstPs (po : Nat) : List PSpan → Nat
  | [] => po
  | x :: _ => poNext po x.ps

theorem ParamAt.bounds {b : Buf} {i w : Nat} {x : PSpan} (H : ParamAt b i x w) : i ≤ x.ps ∧ x.ps < x.pe ∧ x.pe ≤ w := by
  rcases H with ⟨ps, pe, h1, h2, h3⟩ | ⟨ps, pe, eq, vs, ve, h1, h2, h3, h4, h5, h6, h7⟩
  · exact ⟨h1.le, h3, Nat.le_refl _⟩
  · have := h1.le; have := h4.le; have := h6.le; have := h7.lt
    exact ⟨by omega, h3, by show pe ≤ w; omega⟩

theorem na_param_sep (h : Nat) (b : Buf) (q : Bool) (base : PFromBody) (po : Nat) (a : PAcc) {i w m : Nat} {x : PSpan}
    (H : ParamAt b i x w) (hl : Lws b w m) (hm : b[m]? = some 59) (h0 : 0 < i) (hfit : b.size ≤ 65535) :
    runLoop (naMachine h) b i (pst base (stNP q) po 0 0 0 0 a) =
      runLoop (naMachine h) b (m + 1) (pst base (stNP q) (poNext po x.ps) 0 0 0 0 (paramEffect b x.ps x.pe x.vs x.ve a)) := by
  rcases H with ⟨ps, pe, h1, h2, h3⟩ | ⟨ps, pe, eq, vs, ve, h1, h2, h3, h4, h5, h6, h7⟩
  · have := h1.le
    rw [na_pname_run h b q base po a i ps w h1 h2 h3 (by omega) hfit]
    exact na_flag_sep h b q base _ ps w m a hl hm
  · have := h1.le; have := h4.le; have := h6.le; have := h7.lt
    obtain ⟨c, hc, hcl⟩ := h7.first
    rw [na_pname_run h b q base po a i ps pe h1 h2 h3 (by omega) hfit]
    rw [na_peq_run h b q base _ ps pe eq vs a h4 h5 h6 hc hcl]
    rw [na_pval_run h h7 q base _ ps pe vs a]
    exact na_val_sep h b q base _ ps pe vs w m a (by omega) hl hm

theorem na_param_term (h : Nat) (b : Buf) (q : Bool) (base : PFromBody) (po : Nat) (a : PAcc) {i w : Nat} {x : PSpan}
    (H : ParamAt b i x w) {o' : Nat} {e' : Err} (T : Term h b w o' e') (h0 : 0 < i) (hfit : b.size ≤ 65535) :
    runLoop (naMachine h) b i (pst base (stNP q) po 0 0 0 0 a) =
      (o', e', finP h base (poNext po x.ps) w (paramEffect b x.ps x.pe x.vs x.ve a)) := by
  rcases H with ⟨ps, pe, h1, h2, h3⟩ | ⟨ps, pe, eq, vs, ve, h1, h2, h3, h4, h5, h6, h7⟩
  · have := h1.le
    rw [na_pname_run h b q base po a i ps w h1 h2 h3 (by omega) hfit]
    refine na_flag_term h b q base _ ps w a h3 ?_ T
    unfold poNext; split <;> omega
  · have := h1.le; have := h4.le; have := h6.le; have := h7.lt
    obtain ⟨c, hc, hcl⟩ := h7.first
    rw [na_pname_run h b q base po a i ps pe h1 h2 h3 (by omega) hfit]
    rw [na_peq_run h b q base _ ps pe eq vs a h4 h5 h6 hc hcl]
    rw [na_pval_run h h7 q base _ ps pe vs a]
    exact na_val_term h b q base _ ps pe vs w a (by omega) T

/-- **the parameter list**: from the byte after the first `;` to the end of the value -/
theorem na_plist_run (h : Nat) (b : Buf) (q : Bool) (base : PFromBody) (hfit : b.size ≤ 65535) {i w : Nat}
    {L : List PSpan} (H : PList b i L w) {o' : Nat} {e' : Err} (T : Term h b w o' e') :
    ∀ (po : Nat) (a : PAcc), 0 < i →
      runLoop (naMachine h) b i (pst base (stNP q) po 0 0 0 0 a) = (o', e', finP h base (firstPs po L) w (accAll b L a)) := by
  induction H with
  | last i w x hx =>
    intro po a h0
    exact na_param_term h b q base po a hx T h0 hfit
  | cons i w m w' x L hx hl hm _ ih =>
    intro po a h0
    rw [na_param_sep h b q base po a hx hl hm h0 hfit]
    rw [ih T _ _ (by omega)]
    have hb := hx.bounds
    have hne : poNext po x.ps ≠ 0 := by unfold poNext; split <;> omega
    have e1 : firstPs (poNext po x.ps) L = poNext po x.ps := by
      cases L with
      | nil => rfl
      | cons y L' => show poNext (poNext po x.ps) y.ps = _; generalize poNext po x.ps = z at hne ⊢; unfold poNext; rw [if_neg hne]
    rw [e1]
    rfl

/-! ### after `>` -/

theorem stepUF_lws (h : Nat) (b : Buf) (i : Nat) (c : UInt8) (pf : PFromBody) (hst : pf.state = .uriFound)
    (hc : isLWSch c = true) : naStep h b i c pf = naLWS h b i pf := by
  unfold naStep; simp only [hst]
  unfold naStepUF; simp only [hc, ↓reduceIte]

theorem stepUF_semi (h : Nat) (b : Buf) (i : Nat) (pf : PFromBody) (hst : pf.state = .uriFound) :
    naStep h b i 59 pf = .cont (i + 1) { pf with state := .newParam, s := 0 } := by
  unfold naStep; simp only [hst]
  unfold naStepUF
  simp +decide only [↓reduceIte]

theorem stepUF_comma (h : Nat) (b : Buf) (i : Nat) (pf : PFromBody) (hst : pf.state = .uriFound)
    (hm : multipleValsOk h = true) :
    naStep h b i 44 pf = .done (i + 1) .moreValues { pf with state := .fin, soffs := 0, type := h } := by
  unfold naStep; simp only [hst]
  unfold naStepUF
  simp +decide only [hm, ↓reduceIte]
  unfold naMoreValues naEOH
  simp only [hst]
  rfl

/-- in a state whose white-space handling is the standard one, white space in front of a non-white byte is skipped -/
theorem na_skip_lws (h : Nat) (b : Buf) (pf : PFromBody) {w n : Nat} (hl : Lws b w n) {c : UInt8} (hn : b[n]? = some c)
    (hc : isLWSch c = false) (hstep : ∀ c', isLWSch c' = true → naStep h b w c' pf = naLWS h b w pf) :
    runLoop (naMachine h) b w pf = runLoop (naMachine h) b n pf := by
  have hle := hl.le
  by_cases h1 : w < n
  · obtain ⟨c0, hc0, hl0⟩ := hl.first h1
    have hs : naStep h b w c0 pf = .cont n pf := by
      rw [hstep c0 hl0]; exact naLWS_ok pf (skipLWS_of_lws hl hn hc)
    exact (runLoop_cont (naMachine h) hc0 (by exact hs)).trans (if_pos h1)
  · have : w = n := by omega
    rw [this]

/-- `<uri>` and nothing else up to the end of the value -/
theorem na_uf_term (h : Nat) (b : Buf) (pf : PFromBody) (hst : pf.state = .uriFound) {w o' : Nat} {e' : Err}
    (T : Term h b w o' e') :
    runLoop (naMachine h) b w pf = (o', e', { pf with state := .fin, soffs := 0, type := h }) := by
  rcases T with ⟨p, e, c2, hl, he, h2, hw2⟩ | ⟨m, hl, hm, hmv⟩
  · obtain ⟨c0, hc0, hl0⟩ := lws_eol_first hl he
    have hgt := he.gt
    refine runLoop_done (naMachine h) hc0 ?_
    show naStep h b w c0 pf = _
    rw [stepUF_lws h b w c0 pf hst hl0, naLWS_eoh pf (skipLWS_of_lws_eol hl he h2 hw2)]
    unfold naEOH; simp only [hst]
    unfold naFinish
    have : p + (o' - p) = o' := by omega
    simp only [this]
  · rw [na_skip_lws h b pf hl hm (by decide) (fun c' hc' => stepUF_lws h b w c' pf hst hc')]
    exact runLoop_done (naMachine h) hm (by exact stepUF_comma h b m pf hst hmv)

/-- `<uri>`, optional white space and `;` -/
theorem na_uf_sep (h : Nat) (b : Buf) (pf : PFromBody) (hst : pf.state = .uriFound) {w m : Nat} (hl : Lws b w m)
    (hm : b[m]? = some 59) :
    runLoop (naMachine h) b w pf = runLoop (naMachine h) b (m + 1) { pf with state := .newParam, s := 0 } := by
  rw [na_skip_lws h b pf hl hm (by decide) (fun c' hc' => stepUF_lws h b w c' pf hst hc')]
  exact (runLoop_cont (naMachine h) hm (by exact stepUF_semi h b m pf hst)).trans (if_pos (by omega))

/-! ### the forms with angle brackets -/

/-- the object right after `<` at `a` (value started at `o`, display name `nm`) -/
def uriSt (nm : PField) (o x a : Nat) : PFromBody := { name := nm, v := ⟨o, x⟩, s := a + 1, state := .uri }

/-- the object right after `>` at `g` -/
def ufBase (nm : PField) (o a g : Nat) : PFromBody :=
  { name := nm, uri := ⟨a + 1, g - (a + 1)⟩, v := ⟨o, g + 1 - o⟩, s := a + 1, state := .uriFound }

theorem na_uri_to_uf (h : Nat) (b : Buf) (nm : PField) (o x a g : Nat) (hoa : o ≤ a) (hag : a + 1 ≤ g)
    (hu : Run isURIch b (a + 1) g) (hg : b[g]? = some 62) (hfit : b.size ≤ 65535) :
    runLoop (naMachine h) b (a + 1) (uriSt nm o x a) = runLoop (naMachine h) b (g + 1) (ufBase nm o a g) := by
  have hsz := get?_lt hg
  have e1 := set_eq (a + 1) g hag (by omega)
  have e2 := extend_eq ⟨o, x⟩ (g + 1) (by show o ≤ g + 1; omega) (by omega)
  have e3 := setPanics_false (a + 1) g hag
  have e4 := extendPanics_false (⟨o, x⟩ : PField) (g + 1) (by show o ≤ g + 1; omega)
  rw [na_uri_run h b (a + 1) g (uriSt nm o x a) rfl hag hu hg]
  congr 1
  unfold uriSt ufBase PFromBody.setURI PFromBody.extV
  simp only [e1, e2, e3, e4, Bool.or_false]

/-! ### steps of the first case group (`init`, `name`, `nameOrURI`, `nameOrURIEnd`) -/

/-- a byte of a display-name token or of a bare URI: anything but SP HT CR LF `,` `<` `"` `;` `>` -/
def isTokch (c : UInt8) : Bool := !(isLWSch c) && !(c == 44) && !(c == 60) && !(c == 34) && !(c == 59) && !(c == 62)

theorem isTokch_iff {c : UInt8} : isTokch c = true ↔ isLWSch c = false ∧ (c == 44) = false ∧ (c == 60) = false ∧
    (c == 34) = false ∧ (c == 59) = false ∧ (c == 62) = false := by
  unfold isTokch
  cases isLWSch c <;> cases (c == 44) <;> cases (c == 60) <;> cases (c == 34) <;> cases (c == 59) <;> cases (c == 62) <;> simp

/-- … and not `*` (first byte of a token) -/
def isTok1 (c : UInt8) : Bool := isTokch c && !(c == 42)

theorem isTok1_iff {c : UInt8} : isTok1 c = true ↔ isTokch c = true ∧ (c == 42) = false := by
  unfold isTok1
  cases isTokch c <;> cases (c == 42) <;> simp

theorem stepA_init_lt (h : Nat) (b : Buf) (i : Nat) (pf : PFromBody) (hst : pf.state = .init) :
    naStep h b i 60 pf = .cont (i + 1) { pf.setV i i with s := i + 1, state := .uri } := by
  unfold naStep; simp only [hst]
  unfold naStepA
  simp +decide only [hst, ↓reduceIte]

theorem stepA_init_quote (h : Nat) (b : Buf) (i : Nat) (pf : PFromBody) (hst : pf.state = .init) :
    naStep h b i 34 pf = .cont (i + 1) { pf.setV i i with s := i, state := .quoted } := by
  unfold naStep; simp only [hst]
  unfold naStepA
  simp +decide only [hst, ↓reduceIte]

theorem stepA_init_tok (h : Nat) (b : Buf) (i : Nat) (c : UInt8) (pf : PFromBody) (hst : pf.state = .init)
    (hc : isTok1 c = true) : naStep h b i c pf = .cont (i + 1) { pf.setV i i with s := i, state := .nameOrURI } := by
  obtain ⟨ht, h42⟩ := isTok1_iff.1 hc
  obtain ⟨h1, h2, h3, h4, h5, h6⟩ := isTokch_iff.1 ht
  unfold naStep; simp only [hst]
  unfold naStepA
  simp +decide only [h1, h2, h3, h4, h5, h6, h42, hst, Bool.false_eq_true, ↓reduceIte]

theorem stepA_nu_tok (h : Nat) (b : Buf) (i : Nat) (c : UInt8) (pf : PFromBody) (hst : pf.state = .nameOrURI)
    (hc : isTokch c = true) : naStep h b i c pf = .cont (i + 1) pf := by
  obtain ⟨h1, h2, h3, h4, h5, h6⟩ := isTokch_iff.1 hc
  unfold naStep; simp only [hst]
  unfold naStepA
  by_cases h42 : (c == 42) = true
  · simp +decide only [h1, h2, h3, h4, h5, h6, h42, hst, Bool.false_eq_true, ↓reduceIte]
  · simp +decide only [h1, h2, h3, h4, h5, h6, h42, hst, Bool.false_eq_true, ↓reduceIte]

theorem stepA_nu_lt (h : Nat) (b : Buf) (i : Nat) (pf : PFromBody) (hst : pf.state = .nameOrURI) :
    naStep h b i 60 pf = .cont (i + 1) { (pf.setName pf.s i).resetUPT with s := i + 1, state := .uri } := by
  unfold naStep; simp only [hst]
  unfold naStepA
  simp +decide only [hst, ↓reduceIte]

theorem stepA_nu_lws (h : Nat) (b : Buf) (i : Nat) (c : UInt8) (pf : PFromBody) (hst : pf.state = .nameOrURI)
    (hc : isLWSch c = true) :
    naStep h b i c pf = naLWS h b i { (pf.setURI pf.s i).extV i with state := .nameOrURIEnd } := by
  unfold naStep; simp only [hst]
  unfold naStepA
  simp +decide only [hc, hst, ↓reduceIte]

theorem stepA_nu_semi (h : Nat) (b : Buf) (i : Nat) (pf : PFromBody) (hst : pf.state = .nameOrURI) :
    naStep h b i 59 pf =
      .cont (i + 1) { (pf.setURI pf.s i).extV (i + 1) with s := i + 1, state := .newPossibleParam } := by
  unfold naStep; simp only [hst]
  unfold naStepA
  simp +decide only [hst, ↓reduceIte]

theorem stepA_nu_comma (h : Nat) (b : Buf) (i : Nat) (pf : PFromBody) (hst : pf.state = .nameOrURI)
    (hm : multipleValsOk h = true) :
    naStep h b i 44 pf = .done (i + 1) .moreValues
      { (pf.setURI pf.s i).extV i with state := .fin, soffs := 0, type := h } := by
  unfold naStep; simp only [hst]
  unfold naStepA
  simp +decide only [hm, ↓reduceIte]
  unfold naMoreValues naEOH
  simp only [hst]
  rfl

theorem stepA_nue_lt (h : Nat) (b : Buf) (i : Nat) (pf : PFromBody) (hst : pf.state = .nameOrURIEnd) :
    naStep h b i 60 pf = .cont (i + 1) { (pf.setName pf.s i).resetUPT with s := i + 1, state := .uri } := by
  unfold naStep; simp only [hst]
  unfold naStepA
  simp +decide only [hst, ↓reduceIte]

theorem stepA_nue_tok (h : Nat) (b : Buf) (i : Nat) (c : UInt8) (pf : PFromBody) (hst : pf.state = .nameOrURIEnd)
    (hc : isTok1 c = true) : naStep h b i c pf = .cont (i + 1) { pf.resetUPT with state := .name } := by
  obtain ⟨ht, h42⟩ := isTok1_iff.1 hc
  obtain ⟨h1, h2, h3, h4, h5, h6⟩ := isTokch_iff.1 ht
  unfold naStep; simp only [hst]
  unfold naStepA
  simp +decide only [h1, h2, h3, h4, h5, h6, h42, hst, Bool.false_eq_true, ↓reduceIte]

theorem stepA_nue_quote (h : Nat) (b : Buf) (i : Nat) (pf : PFromBody) (hst : pf.state = .nameOrURIEnd) :
    naStep h b i 34 pf = .cont (i + 1) { pf.resetUPT with state := .quoted } := by
  unfold naStep; simp only [hst]
  unfold naStepA
  simp +decide only [hst, ↓reduceIte]

theorem stepA_nue_semi (h : Nat) (b : Buf) (i : Nat) (pf : PFromBody) (hst : pf.state = .nameOrURIEnd) :
    naStep h b i 59 pf = .cont (i + 1) { pf with state := .newPossibleParam } := by
  unfold naStep; simp only [hst]
  unfold naStepA
  simp +decide only [hst, ↓reduceIte]

theorem stepA_nue_comma (h : Nat) (b : Buf) (i : Nat) (pf : PFromBody) (hst : pf.state = .nameOrURIEnd)
    (hm : multipleValsOk h = true) :
    naStep h b i 44 pf = .done (i + 1) .moreValues { pf with state := .fin, soffs := 0, type := h } := by
  unfold naStep; simp only [hst]
  unfold naStepA
  simp +decide only [hm, ↓reduceIte]
  unfold naMoreValues naEOH
  simp only [hst]
  rfl

theorem stepA_nm_tok (h : Nat) (b : Buf) (i : Nat) (c : UInt8) (pf : PFromBody) (hst : pf.state = .name)
    (hc : isTokch c = true) : naStep h b i c pf = .cont (i + 1) pf := by
  obtain ⟨h1, h2, h3, h4, h5, h6⟩ := isTokch_iff.1 hc
  unfold naStep; simp only [hst]
  unfold naStepA
  by_cases h42 : (c == 42) = true
  · simp +decide only [h1, h2, h3, h4, h5, h6, h42, hst, Bool.false_eq_true, ↓reduceIte]
  · simp +decide only [h1, h2, h3, h4, h5, h6, h42, hst, Bool.false_eq_true, ↓reduceIte]

theorem stepA_nm_lws (h : Nat) (b : Buf) (i : Nat) (c : UInt8) (pf : PFromBody) (hst : pf.state = .name)
    (hc : isLWSch c = true) : naStep h b i c pf = naLWS h b i pf := by
  unfold naStep; simp only [hst]
  unfold naStepA
  simp +decide only [hc, hst, ↓reduceIte]

theorem stepA_nm_lt (h : Nat) (b : Buf) (i : Nat) (pf : PFromBody) (hst : pf.state = .name) :
    naStep h b i 60 pf = .cont (i + 1) { (pf.setName pf.s i).resetUPT with s := i + 1, state := .uri } := by
  unfold naStep; simp only [hst]
  unfold naStepA
  simp +decide only [hst, ↓reduceIte]

theorem stepA_nm_quote (h : Nat) (b : Buf) (i : Nat) (pf : PFromBody) (hst : pf.state = .name) :
    naStep h b i 34 pf = .cont (i + 1) { pf.resetUPT with state := .quoted } := by
  unfold naStep; simp only [hst]
  unfold naStepA
  simp +decide only [hst, ↓reduceIte]

/-! ### display names -/

/-- the rest of a display name up to the `<` at `a`: token bytes, linear white space and quoted strings -/
inductive NameTail (b : Buf) : Nat → Nat → Prop
  | done (a : Nat) : b[a]? = some 60 → NameTail b a a
  | ch (i a : Nat) (c : UInt8) : b[i]? = some c → isTokch c = true → NameTail b (i + 1) a → NameTail b i a
  | lws (i n a : Nat) (c : UInt8) : Lws b i n → i < n → b[n]? = some c → isLWSch c = false → NameTail b n a →
      NameTail b i a
  | q (i k a : Nat) : b[i]? = some 34 → NaQBody b (i + 1) k → NameTail b (k + 1) a → NameTail b i a

theorem NameTail.le {b : Buf} {i a : Nat} (H : NameTail b i a) : i ≤ a := by
  induction H with
  | done a _ => exact Nat.le_refl _
  | ch i a c _ _ _ ih => omega
  | lws i n a c _ _ _ _ _ ih => omega
  | q i k a _ hq _ ih => have := hq.le; omega

theorem NameTail.lt {b : Buf} {i a : Nat} (H : NameTail b i a) : b[a]? = some 60 := by
  induction H with
  | done a h => exact h
  | ch i a c _ _ _ ih => exact ih
  | lws i n a c _ _ _ _ _ ih => exact ih
  | q i k a _ _ _ ih => exact ih

/-- the object inside a display name that started at `o` -/
def nmSt (o x : Nat) : PFromBody := { v := ⟨o, x⟩, s := o, state := .name }

theorem isQState_quoted : IsQState FBState.quoted := Or.inl rfl

/-- a quoted string inside a display name -/
theorem na_name_quoted (h : Nat) (b : Buf) (o x : Nat) {i k : Nat} (hq : NaQBody b i k) :
    runLoop (naMachine h) b i ({ v := ⟨o, x⟩, s := o, state := .quoted } : PFromBody) =
      runLoop (naMachine h) b (k + 1) (nmSt o x) := by
  rw [na_qbody_run h hq _ isQState_quoted]
  have hstep : naStep h b k 34 ({ v := ⟨o, x⟩, s := o, state := .quoted } : PFromBody) = .cont (k + 1) (nmSt o x) := by
    rw [stepQ_close h b k _ isQState_quoted]; rfl
  exact (runLoop_cont (naMachine h) hq.close (by exact hstep)).trans (if_pos (by omega))

theorem na_nametail_run (h : Nat) (b : Buf) (o x : Nat) (hfit : b.size ≤ 65535) {i a : Nat} (H : NameTail b i a)
    (hoi : o ≤ i) :
    runLoop (naMachine h) b i (nmSt o x) = runLoop (naMachine h) b (a + 1) (uriSt ⟨o, a - o⟩ o x a) := by
  induction H with
  | done a ha =>
    have hsz := get?_lt ha
    have hstep : naStep h b a 60 (nmSt o x) = .cont (a + 1) (uriSt ⟨o, a - o⟩ o x a) := by
      rw [stepA_nm_lt h b a _ rfl]
      unfold nmSt uriSt PFromBody.setName PFromBody.resetUPT
      simp only [set_eq o a hoi (by omega), setPanics_false o a hoi, Bool.or_false]
    exact (runLoop_cont (naMachine h) ha (by exact hstep)).trans (if_pos (by omega))
  | ch i a c hc ht _ ih =>
    rw [runLoop_cont (naMachine h) hc (by exact stepA_nm_tok h b i c (nmSt o x) rfl ht), if_pos (by omega)]
    exact ih (by omega)
  | lws i n a c hl hlt hn hcl _ ih =>
    rw [na_skip_lws h b _ hl hn hcl (fun c' hc' => stepA_nm_lws h b i c' _ rfl hc')]
    exact ih (by omega)
  | q i k a hc hq _ ih =>
    have := hq.le
    have hstep : naStep h b i 34 (nmSt o x) = .cont (i + 1) ({ v := ⟨o, x⟩, s := o, state := .quoted } : PFromBody) := by
      rw [stepA_nm_quote h b i _ rfl]; rfl
    rw [runLoop_cont (naMachine h) hc (by exact hstep), if_pos (by omega), na_name_quoted h b o x hq]
    exact ih (by omega)

/-- the object after a first token `[o, t)` and white space (display name or bare URI still undecided) -/
def nueSt (o t : Nat) : PFromBody := { uri := ⟨o, t - o⟩, v := ⟨o, t - o⟩, s := o, state := .nameOrURIEnd }

/-- after a first token and white space: the rest of the display name -/
theorem na_nue_nametail (h : Nat) (b : Buf) (o t : Nat) (hfit : b.size ≤ 65535) {n a : Nat} (H : NameTail b n a)
    (hon : o ≤ n) {c : UInt8} (hn : b[n]? = some c) (hcl : isLWSch c = false) (h42 : (c == 42) = false) :
    runLoop (naMachine h) b n (nueSt o t) = runLoop (naMachine h) b (a + 1) (uriSt ⟨o, a - o⟩ o (t - o) a) := by
  rcases H with ⟨_, ha⟩ | ⟨_, _, c', hc, ht, H'⟩ | ⟨_, n', _, c', hl, hlt, hn', hcl', H'⟩ | ⟨_, k, _, hc, hq, H'⟩
  · have hsz := get?_lt ha
    have hstep : naStep h b n 60 (nueSt o t) = .cont (n + 1) (uriSt ⟨o, n - o⟩ o (t - o) n) := by
      rw [stepA_nue_lt h b n _ rfl]
      unfold nueSt uriSt PFromBody.setName PFromBody.resetUPT
      simp only [set_eq o n hon (by omega), setPanics_false o n hon, Bool.or_false]
    exact (runLoop_cont (naMachine h) ha (by exact hstep)).trans (if_pos (by omega))
  · rw [hn] at hc; cases hc
    have hstep : naStep h b n c (nueSt o t) = .cont (n + 1) (nmSt o (t - o)) := by
      rw [stepA_nue_tok h b n c _ rfl (isTok1_iff.2 ⟨ht, h42⟩)]; rfl
    rw [runLoop_cont (naMachine h) hn (by exact hstep), if_pos (by omega)]
    exact na_nametail_run h b o (t - o) hfit H' (by omega)
  · obtain ⟨c0, hc0, hl0⟩ := hl.first hlt
    rw [hn] at hc0; cases hc0
    rw [hcl] at hl0; cases hl0
  · have := hq.le
    have hstep : naStep h b n 34 (nueSt o t) = .cont (n + 1) ({ v := ⟨o, t - o⟩, s := o, state := .quoted } : PFromBody) := by
      rw [stepA_nue_quote h b n _ rfl]; rfl
    rw [runLoop_cont (naMachine h) hc (by exact hstep), if_pos (by omega), na_name_quoted h b o (t - o) hq]
    exact na_nametail_run h b o (t - o) hfit H' (by omega)

/-! ### the first token: display name or bare URI -/

/-- the object inside a first token that started at `o` -/
def nuSt (o : Nat) : PFromBody := { v := ⟨o, 0⟩, s := o, state := .nameOrURI }

theorem na_tok_run (h : Nat) (b : Buf) (o t : Nat) (hfit : b.size ≤ 65535) {c : UInt8} (hc : b[o]? = some c)
    (h1 : isTok1 c = true) (hr : Run isTokch b (o + 1) t) (hot : o + 1 ≤ t) :
    runLoop (naMachine h) b o {} = runLoop (naMachine h) b t (nuSt o) := by
  have hsz := get?_lt hc
  have hstep : naStep h b o c {} = .cont (o + 1) (nuSt o) := by
    rw [stepA_init_tok h b o c {} rfl h1]
    unfold nuSt PFromBody.setV
    simp only [set_eq o o (Nat.le_refl _) (by omega), setPanics_false o o (Nat.le_refl _), Nat.sub_self]
    rfl
  rw [runLoop_cont (naMachine h) hc (by exact hstep), if_pos (by omega)]
  exact runLoop_run (naMachine h) b isTokch _ (fun k c' _ hc' => stepA_nu_tok h b k c' _ rfl hc') (o + 1) t hot hr

theorem nu_to_nue (o t : Nat) (hot : o ≤ t) (ht : t ≤ 65535) :
    ({ ((nuSt o).setURI (nuSt o).s t).extV t with state := .nameOrURIEnd } : PFromBody) = nueSt o t := by
  unfold nuSt nueSt PFromBody.setURI PFromBody.extV
  simp only [set_eq o t hot ht, setPanics_false o t hot, extend_eq ⟨o, 0⟩ t hot ht,
    extendPanics_false (⟨o, 0⟩ : PField) t hot, Bool.or_false]

/-- first token, then `<` -/
theorem na_nu_lt (h : Nat) (b : Buf) (o t : Nat) (hfit : b.size ≤ 65535) (hot : o ≤ t) (ht : b[t]? = some 60) :
    runLoop (naMachine h) b t (nuSt o) = runLoop (naMachine h) b (t + 1) (uriSt ⟨o, t - o⟩ o 0 t) := by
  have hsz := get?_lt ht
  have hstep : naStep h b t 60 (nuSt o) = .cont (t + 1) (uriSt ⟨o, t - o⟩ o 0 t) := by
    rw [stepA_nu_lt h b t _ rfl]
    unfold nuSt uriSt PFromBody.setName PFromBody.resetUPT
    simp only [set_eq o t hot (by omega), setPanics_false o t hot, Bool.or_false]
  exact (runLoop_cont (naMachine h) ht (by exact hstep)).trans (if_pos (by omega))

/-- first token, then white space and another byte -/
theorem na_nu_lws (h : Nat) (b : Buf) (o t n : Nat) (hfit : b.size ≤ 65535) (hot : o ≤ t) (hl : Lws b t n) (hlt : t < n)
    {c : UInt8} (hn : b[n]? = some c) (hcl : isLWSch c = false) :
    runLoop (naMachine h) b t (nuSt o) = runLoop (naMachine h) b n (nueSt o t) := by
  have hsz := get?_lt hn
  obtain ⟨c0, hc0, hl0⟩ := hl.first hlt
  have hstep : naStep h b t c0 (nuSt o) = .cont n (nueSt o t) := by
    rw [stepA_nu_lws h b t c0 _ rfl hl0, nu_to_nue o t hot (by omega)]
    exact naLWS_ok _ (skipLWS_of_lws hl hn hcl)
  exact (runLoop_cont (naMachine h) hc0 (by exact hstep)).trans (if_pos hlt)

/-- the part of a name-addr value in front of `<` at `a`: nothing, a display name that starts with a quoted string, or
    a display name that starts with a token; `nm` is the display-name field that is reported -/
inductive AddrPrefix (b : Buf) (o : Nat) : PField → Nat → Prop
  | none : b[o]? = some 60 → AddrPrefix b o {} o
  | quoted (k a : Nat) : b[o]? = some 34 → NaQBody b (o + 1) k → NameTail b (k + 1) a → AddrPrefix b o ⟨o, a - o⟩ a
  | tokenLt (t : Nat) (c : UInt8) : b[o]? = some c → isTok1 c = true → Run isTokch b (o + 1) t → o + 1 ≤ t →
      b[t]? = some 60 → AddrPrefix b o ⟨o, t - o⟩ t
  | token (t n a : Nat) (c c' : UInt8) : b[o]? = some c → isTok1 c = true → Run isTokch b (o + 1) t → o + 1 ≤ t →
      Lws b t n → t < n → b[n]? = some c' → isLWSch c' = false → (c' == 42) = false → NameTail b n a →
      AddrPrefix b o ⟨o, a - o⟩ a

theorem AddrPrefix.run (h : Nat) {b : Buf} {o a : Nat} {nm : PField} (H : AddrPrefix b o nm a) (hfit : b.size ≤ 65535) :
    o ≤ a ∧ ∃ x, runLoop (naMachine h) b o {} = runLoop (naMachine h) b (a + 1) (uriSt nm o x a) := by
  rcases H with ⟨h0⟩ | ⟨k, _, h0, hq, ht⟩ | ⟨t, c, h0, h1, hr, hot, ht⟩ | ⟨t, n, _, c, c', h0, h1, hr, hot, hl, hlt, hn, hcl, h42, ht⟩
  · refine ⟨Nat.le_refl _, 0, ?_⟩
    have hsz := get?_lt h0
    have hstep : naStep h b o 60 {} = .cont (o + 1) (uriSt {} o 0 o) := by
      rw [stepA_init_lt h b o {} rfl]
      unfold uriSt PFromBody.setV
      simp only [set_eq o o (Nat.le_refl _) (by omega), setPanics_false o o (Nat.le_refl _), Nat.sub_self]
      rfl
    exact (runLoop_cont (naMachine h) h0 (by exact hstep)).trans (if_pos (by omega))
  · have := hq.le; have := ht.le
    refine ⟨by omega, 0, ?_⟩
    have hsz := get?_lt h0
    have hstep : naStep h b o 34 {} = .cont (o + 1) ({ v := ⟨o, 0⟩, s := o, state := .quoted } : PFromBody) := by
      rw [stepA_init_quote h b o {} rfl]
      unfold PFromBody.setV
      simp only [set_eq o o (Nat.le_refl _) (by omega), setPanics_false o o (Nat.le_refl _), Nat.sub_self]
      rfl
    rw [runLoop_cont (naMachine h) h0 (by exact hstep), if_pos (by omega), na_name_quoted h b o 0 hq]
    exact na_nametail_run h b o 0 hfit ht (by omega)
  · refine ⟨by omega, 0, ?_⟩
    rw [na_tok_run h b o a hfit h0 h1 hr hot]
    exact na_nu_lt h b o a hfit (by omega) ht
  · have := ht.le
    refine ⟨by omega, t - o, ?_⟩
    rw [na_tok_run h b o t hfit h0 h1 hr hot, na_nu_lws h b o t n hfit (by omega) hl hlt hn hcl]
    exact na_nue_nametail h b o t hfit ht (by omega) hn hcl h42

/-! ### the reported object -/

/-- the finished object: display name, URI, parameter span, whole value, header kind, and the parameter-dependent
    fields; everything else as in a new object -/
def naResult (h : Nat) (nm uri params v : PField) (a : PAcc) : PFromBody :=
  { name := nm, uri := uri, params := params, v := v, type := h, state := .fin, tag := a.tag, lr := a.lr, hasExpires := a.hasExpires, expires := a.expires, q := a.q, paramErr := a.paramErr, errOffs := a.errOffs }

theorem finP_result (h : Nat) (base : PFromBody) (po w : Nat) (a : PAcc) (hs : base.star = false) (hp : base.pnc = false)
    (hv : base.v.offs ≤ w) (hpo : po ≤ w) (hw : w ≤ 65535) :
    ({ finP h base po w a with s := 0 } : PFromBody) =
      naResult h base.name base.uri ⟨po, w - po⟩ ⟨base.v.offs, w - base.v.offs⟩ a := by
  unfold finP pst PFromBody.extParams PFromBody.extV naResult
  simp only [extend_eq ⟨po, base.params.len⟩ w hpo hw, extend_eq base.v w hv hw, hs, hp,
    extendPanics_false (⟨po, base.params.len⟩ : PField) w hpo, extendPanics_false base.v w hv, Bool.or_false]

theorem PList.bounds {b : Buf} {i w : Nat} {L : List PSpan} (H : PList b i L w) :
    i ≤ firstPs 0 L ∧ firstPs 0 L < w := by
  induction H with
  | last i w x hx =>
    have hb := hx.bounds
    exact ⟨hb.1, by show x.ps < w; omega⟩
  | cons i w m w' x L hx hl hm _ ih =>
    have hb := hx.bounds; have hle := hl.le
    exact ⟨hb.1, by show x.ps < w'; omega⟩

/-! ### the whole value -/

/-- **angle-bracket forms without parameters**: `[display-name] <uri>` and the end of the value -/
theorem parseNameAddr_bracket (h : Nat) (b : Buf) (o a g o' : Nat) (e' : Err) (nm : PField) (hfit : b.size ≤ 65535)
    (hp : AddrPrefix b o nm a) (hu : Run isURIch b (a + 1) g) (hag : a + 1 ≤ g) (hg : b[g]? = some 62)
    (T : Term h b (g + 1) o' e') :
    parseNameAddrPVal h b o {} = (o', e', naResult h nm ⟨a + 1, g - (a + 1)⟩ {} ⟨o, g + 1 - o⟩ {}) := by
  obtain ⟨hoa, x, hrun⟩ := hp.run h hfit
  have hloop : runLoop (naMachine h) b o {} =
      (o', e', { ufBase nm o a g with state := .fin, soffs := 0, type := h }) := by
    rw [hrun, na_uri_to_uf h b nm o x a g hoa hag hu hg hfit]
    exact na_uf_term h b _ rfl T
  rw [parse_of_loop h b o hloop T.complete]
  rfl

/-- **angle-bracket forms with parameters**: `[display-name] <uri> ;p1[=v1] ;p2[=v2] …` and the end of the value -/
theorem parseNameAddr_bracket_params (h : Nat) (b : Buf) (o a g m w o' : Nat) (e' : Err) (nm : PField) (L : List PSpan)
    (hfit : b.size ≤ 65535) (hp : AddrPrefix b o nm a) (hu : Run isURIch b (a + 1) g) (hag : a + 1 ≤ g)
    (hg : b[g]? = some 62) (hl : Lws b (g + 1) m) (hm : b[m]? = some 59) (hL : PList b (m + 1) L w)
    (T : Term h b w o' e') :
    parseNameAddrPVal h b o {} =
      (o', e', naResult h nm ⟨a + 1, g - (a + 1)⟩ ⟨firstPs 0 L, w - firstPs 0 L⟩ ⟨o, w - o⟩ (accAll b L {})) := by
  obtain ⟨hoa, x, hrun⟩ := hp.run h hfit
  have hb := hL.bounds
  have hle := hl.le
  have hsz := T.bound
  have hloop : runLoop (naMachine h) b o {} =
      (o', e', finP h { ufBase nm o a g with s := 0 } (firstPs 0 L) w (accAll b L {})) := by
    rw [hrun, na_uri_to_uf h b nm o x a g hoa hag hu hg hfit, na_uf_sep h b _ rfl hl hm]
    exact na_plist_run h b false { ufBase nm o a g with s := 0 } hfit hL T 0 {} (by omega)
  rw [parse_of_loop h b o hloop T.complete]
  rw [finP_result h _ (firstPs 0 L) w _ rfl rfl (by show o ≤ w; omega) (by omega) (by omega)]
  rfl

/-! ### the bare-URI forms -/

/-- bare URI `[o, t)` and the end of the value -/
theorem na_nu_term (h : Nat) (b : Buf) (o t : Nat) (hfit : b.size ≤ 65535) (hot : o ≤ t) {o' : Nat} {e' : Err}
    (T : Term h b t o' e') :
    runLoop (naMachine h) b t (nuSt o) = (o', e', { nueSt o t with state := .fin, soffs := 0, type := h }) := by
  have hsz := T.bound
  rcases T with ⟨p, e, c2, hl, he, h2, hw2⟩ | ⟨m, hl, hm, hmv⟩
  · obtain ⟨c0, hc0, hl0⟩ := lws_eol_first hl he
    have hgt := he.gt
    refine runLoop_done (naMachine h) hc0 ?_
    show naStep h b t c0 (nuSt o) = _
    rw [stepA_nu_lws h b t c0 _ rfl hl0, nu_to_nue o t hot (by omega),
      naLWS_eoh _ (skipLWS_of_lws_eol hl he h2 hw2)]
    unfold naEOH nueSt naFinish
    have : p + (o' - p) = o' := by omega
    simp only [this]
  · have hle := hl.le
    by_cases h1 : t < m
    · rw [na_nu_lws h b o t m hfit hot hl h1 hm (by decide)]
      exact runLoop_done (naMachine h) hm (by exact stepA_nue_comma h b m (nueSt o t) rfl hmv)
    · have : t = m := by omega
      subst this
      refine runLoop_done (naMachine h) hm ?_
      show naStep h b t 44 (nuSt o) = _
      rw [stepA_nu_comma h b t _ rfl hmv]
      have := congrArg (fun p : PFromBody => ({ p with state := .fin, soffs := 0, type := h } : PFromBody))
        (nu_to_nue o t hot (by omega))
      exact congrArg (Step.done (t + 1) Err.moreValues) this

/-- the object after a bare URI `[o, t)` and `;` (the value extent and the ghost local differ with / without white
    space in front of the `;`; neither survives to the result) -/
def bareBase (o t x s' : Nat) : PFromBody := { uri := ⟨o, t - o⟩, v := ⟨o, x⟩, s := s' }

/-- bare URI `[o, t)`, optional white space and `;` -/
theorem na_nu_sep (h : Nat) (b : Buf) (o t m : Nat) (hfit : b.size ≤ 65535) (hot : o ≤ t) (hl : Lws b t m)
    (hm : b[m]? = some 59) :
    ∃ x s', runLoop (naMachine h) b t (nuSt o) =
      runLoop (naMachine h) b (m + 1) (pst (bareBase o t x s') (stNP true) 0 0 0 0 0 {}) := by
  have hsz := get?_lt hm
  have hle := hl.le
  by_cases h1 : t < m
  · refine ⟨t - o, o, ?_⟩
    rw [na_nu_lws h b o t m hfit hot hl h1 hm (by decide)]
    have hstep : naStep h b m 59 (nueSt o t) = .cont (m + 1) (pst (bareBase o t (t - o) o) (stNP true) 0 0 0 0 0 {}) := by
      rw [stepA_nue_semi h b m _ rfl]; rfl
    exact (runLoop_cont (naMachine h) hm (by exact hstep)).trans (if_pos (by omega))
  · have : t = m := by omega
    subst this
    refine ⟨t + 1 - o, t + 1, ?_⟩
    have hstep : naStep h b t 59 (nuSt o) = .cont (t + 1) (pst (bareBase o t (t + 1 - o) (t + 1)) (stNP true) 0 0 0 0 0 {}) := by
      rw [stepA_nu_semi h b t _ rfl]
      unfold nuSt bareBase pst PFromBody.setURI PFromBody.extV
      simp only [set_eq o t hot (by omega), setPanics_false o t hot, extend_eq ⟨o, 0⟩ (t + 1) (by show o ≤ t + 1; omega) (by omega),
        extendPanics_false (⟨o, 0⟩ : PField) (t + 1) (by show o ≤ t + 1; omega), Bool.or_false]
      rfl
    exact (runLoop_cont (naMachine h) hm (by exact hstep)).trans (if_pos (by omega))

/-- **bare URI without parameters** -/
theorem parseNameAddr_bare (h : Nat) (b : Buf) (o t o' : Nat) (e' : Err) (hfit : b.size ≤ 65535) {c : UInt8}
    (hc : b[o]? = some c) (h1 : isTok1 c = true) (hr : Run isTokch b (o + 1) t) (hot : o + 1 ≤ t)
    (T : Term h b t o' e') :
    parseNameAddrPVal h b o {} = (o', e', naResult h {} ⟨o, t - o⟩ {} ⟨o, t - o⟩ {}) := by
  have hloop : runLoop (naMachine h) b o {} = (o', e', { nueSt o t with state := .fin, soffs := 0, type := h }) := by
    rw [na_tok_run h b o t hfit hc h1 hr hot]
    exact na_nu_term h b o t hfit (by omega) T
  rw [parse_of_loop h b o hloop T.complete]
  rfl

/-- **bare URI with parameters** (they are header parameters) -/
theorem parseNameAddr_bare_params (h : Nat) (b : Buf) (o t m w o' : Nat) (e' : Err) (L : List PSpan)
    (hfit : b.size ≤ 65535) {c : UInt8} (hc : b[o]? = some c) (h1 : isTok1 c = true)
    (hr : Run isTokch b (o + 1) t) (hot : o + 1 ≤ t) (hl : Lws b t m) (hm : b[m]? = some 59)
    (hL : PList b (m + 1) L w) (T : Term h b w o' e') :
    parseNameAddrPVal h b o {} =
      (o', e', naResult h {} ⟨o, t - o⟩ ⟨firstPs 0 L, w - firstPs 0 L⟩ ⟨o, w - o⟩ (accAll b L {})) := by
  have hb := hL.bounds
  have hle := hl.le
  have hsz := T.bound
  obtain ⟨x, s', hsep⟩ := na_nu_sep h b o t m hfit (by omega) hl hm
  have hloop : runLoop (naMachine h) b o {} =
      (o', e', finP h (bareBase o t x s') (firstPs 0 L) w (accAll b L {})) := by
    rw [na_tok_run h b o t hfit hc h1 hr hot, hsep]
    exact na_plist_run h b true (bareBase o t x s') hfit hL T 0 {} (by omega)
  rw [parse_of_loop h b o hloop T.complete]
  rw [finP_result h _ (firstPs 0 L) w _ rfl rfl (by show o ≤ w; omega) (by omega) (by omega)]
  rfl

/-! ### what the individual parameters do -/

theorem cmpEqL_len {nm : Buf} {l : List UInt8} (h : cmpEqL nm l = true) : nm.size = l.length := by
  unfold cmpEqL at h
  simp only [Bool.and_eq_true, beq_iff_eq] at h
  exact h.1

theorem cmpEqL_false_of_len {nm : Buf} {l : List UInt8} (h : nm.size ≠ l.length) : cmpEqL nm l = false := by
  cases hc : cmpEqL nm l with
  | false => rfl
  | true => exact absurd (cmpEqL_len hc) h

/-- a parameter with a value -/
theorem paramEffect_valued (b : Buf) (ps pe vs ve : Nat) (a : PAcc) (h1 : ps < pe) (h2 : vs < ve) (h3 : pe ≤ b.size)
    (h4 : ve ≤ b.size) :
    paramEffect b ps pe vs ve a =
      if cmpEqL (b.extract ps pe) sTag then { a with tag := PField.set vs ve }
      else if cmpEqL (b.extract ps pe) sExpires then
        (setExpires { (({} : PFromBody).withAcc a) with pstart := ps, pend := pe, vstart := vs, vend := ve }
          (b.extract vs ve).toList).acc
      else if cmpEqL (b.extract ps pe) sQ then
        (setQ { (({} : PFromBody).withAcc a) with pstart := ps, pend := pe, vstart := vs, vend := ve }
          (b.extract vs ve).toList).acc
      else if cmpEqL (b.extract ps pe) sLr then { a with lr := true }
      else a := by
  unfold paramEffect setFromParamVal
  have c1 : (decide (ps < pe) && decide (vs < ve)) = true := by simp [h1, h2]
  simp only [PFromBody.withAcc, c1, ↓reduceIte]
  rw [slice?_some b ps pe (by omega) h3, slice?_some b vs ve (by omega) h4]
  simp only
  by_cases t1 : cmpEqL (b.extract ps pe) sTag = true
  · simp only [t1, ↓reduceIte]; rfl
  · simp only [t1, Bool.false_eq_true, ↓reduceIte]
    by_cases t2 : cmpEqL (b.extract ps pe) sExpires = true
    · simp only [t2, ↓reduceIte]; rfl
    · simp only [t2, Bool.false_eq_true, ↓reduceIte]
      by_cases t3 : cmpEqL (b.extract ps pe) sQ = true
      · simp only [t3, ↓reduceIte]
        obtain ⟨o1, o2, o3, o4⟩ := setQ_other
          { (({} : PFromBody).withAcc a) with pstart := ps, pend := pe, vstart := vs, vend := ve } (b.extract vs ve).toList
        simp only [PFromBody.withAcc] at o1 o2 o3 o4
        simp only [PFromBody.clearPV, PFromBody.acc, o1, o2, o3, o4]
      · simp only [t3, Bool.false_eq_true, ↓reduceIte]
        by_cases t4 : cmpEqL (b.extract ps pe) sLr = true
        · simp only [t4, ↓reduceIte]; rfl
        · simp only [t4, Bool.false_eq_true, ↓reduceIte]; rfl

/-- a parameter without value: only `lr` (any letter case) is recognised -/
theorem paramEffect_flag (b : Buf) (ps pe : Nat) (a : PAcc) (h1 : ps < pe) (h3 : pe ≤ b.size) :
    paramEffect b ps pe 0 0 a = if cmpEqL (b.extract ps pe) sLr then { a with lr := true } else a := by
  unfold paramEffect setFromParamVal
  have c1 : (decide (ps < pe) && decide (0 < 0)) = false := by simp
  have c2 : (decide (ps < pe) && (0 : Nat) == 0) = true := by simp [h1]
  simp only [PFromBody.withAcc, c1, c2, Bool.false_eq_true, ↓reduceIte]
  rw [slice?_some b ps pe (by omega) h3]
  simp only
  by_cases t4 : cmpEqL (b.extract ps pe) sLr = true
  · simp only [t4, ↓reduceIte]; rfl
  · simp only [t4, Bool.false_eq_true, ↓reduceIte]; rfl

/-- `tag=value` (name in any letter case): the tag is the value as written -/
theorem paramEffect_tag (b : Buf) (ps pe vs ve : Nat) (a : PAcc) (h1 : ps < pe) (h2 : vs < ve) (h3 : pe ≤ b.size)
    (h4 : ve ≤ b.size) (hfit : b.size ≤ 65535) (hn : cmpEqL (b.extract ps pe) sTag = true) :
    paramEffect b ps pe vs ve a = { a with tag := ⟨vs, ve - vs⟩ } := by
  rw [paramEffect_valued b ps pe vs ve a h1 h2 h3 h4, if_pos hn, set_eq vs ve (by omega) (by omega)]

/-- `expires=digits` (any number of digits): the value, saturated at 2^32-1 -/
theorem paramEffect_expires (b : Buf) (ps pe vs ve : Nat) (a : PAcc) (h1 : ps < pe) (h2 : vs < ve) (h3 : pe ≤ b.size)
    (h4 : ve ≤ b.size) (hn : cmpEqL (b.extract ps pe) sExpires = true) (hd : AllDigits (b.extract vs ve).toList) :
    paramEffect b ps pe vs ve a =
      { a with hasExpires := true, expires := min (decOf (b.extract vs ve).toList) 4294967295 } := by
  have hl := cmpEqL_len hn
  have t1 : cmpEqL (b.extract ps pe) sTag = false := cmpEqL_false_of_len (by rw [hl]; decide)
  rw [paramEffect_valued b ps pe vs ve a h1 h2 h3 h4, t1, if_neg (by decide), if_pos hn]
  have hs := setExpires_spec
    { (({} : PFromBody).withAcc a) with pstart := ps, pend := pe, vstart := vs, vend := ve } (b.extract vs ve).toList hd
  rw [← hs.1]
  unfold setExpires
  rfl

/-- `lr` with a value -/
theorem paramEffect_lr (b : Buf) (ps pe vs ve : Nat) (a : PAcc) (h1 : ps < pe) (h2 : vs < ve) (h3 : pe ≤ b.size)
    (h4 : ve ≤ b.size) (hn : cmpEqL (b.extract ps pe) sLr = true) :
    paramEffect b ps pe vs ve a = { a with lr := true } := by
  have hl := cmpEqL_len hn
  have t1 : cmpEqL (b.extract ps pe) sTag = false := cmpEqL_false_of_len (by rw [hl]; decide)
  have t2 : cmpEqL (b.extract ps pe) sExpires = false := cmpEqL_false_of_len (by rw [hl]; decide)
  have t3 : cmpEqL (b.extract ps pe) sQ = false := cmpEqL_false_of_len (by rw [hl]; decide)
  rw [paramEffect_valued b ps pe vs ve a h1 h2 h3 h4, t1, t2, t3, if_neg (by decide), if_neg (by decide),
    if_neg (by decide), if_pos hn]

/-- any other parameter with a value leaves the object alone -/
theorem paramEffect_other (b : Buf) (ps pe vs ve : Nat) (a : PAcc) (h1 : ps < pe) (h2 : vs < ve) (h3 : pe ≤ b.size)
    (h4 : ve ≤ b.size) (n1 : cmpEqL (b.extract ps pe) sTag = false) (n2 : cmpEqL (b.extract ps pe) sExpires = false)
    (n3 : cmpEqL (b.extract ps pe) sQ = false) (n4 : cmpEqL (b.extract ps pe) sLr = false) :
    paramEffect b ps pe vs ve a = a := by
  rw [paramEffect_valued b ps pe vs ve a h1 h2 h3 h4, n1, n2, n3, n4, if_neg (by decide), if_neg (by decide),
    if_neg (by decide), if_neg (by decide)]

/-! ### the `q` parameter -/

theorem digit_ne_dot (c : UInt8) (h : IsDigitB c) : (c != 46) = true := by
  have : c ≠ 46 := by
    intro hc; subst hc; have := h.1; simp at this
  simpa using this

theorem takeWhile_digits (ip rest : List UInt8) (hi : AllDigits ip) :
    (ip ++ 46 :: rest).takeWhile (· != 46) = ip := by
  induction ip with
  | nil => simp
  | cons c cs ih =>
    have hc := digit_ne_dot c (hi c List.mem_cons_self)
    simp only [List.cons_append, List.takeWhile_cons, hc, ↓reduceIte]
    rw [ih (fun x hx => hi x (List.mem_cons_of_mem _ hx))]

theorem takeWhile_digits_all (ip : List UInt8) (hi : AllDigits ip) : ip.takeWhile (· != 46) = ip := by
  induction ip with
  | nil => rfl
  | cons c cs ih =>
    have hc := digit_ne_dot c (hi c List.mem_cons_self)
    simp only [List.takeWhile_cons, hc, ↓reduceIte]
    rw [ih (fun x hx => hi x (List.mem_cons_of_mem _ hx))]

theorem decOf_le3 (l : List UInt8) (hd : AllDigits l) (hl : l.length ≤ 3) : decOf l ≤ 999 := by
  match l, hl with
  | [], _ => unfold decOf; rw [decFrom_nil]; omega
  | [a], _ =>
    have ha := dval_le a (hd a (by simp))
    unfold decOf; rw [decFrom_cons, decFrom_nil]; omega
  | [a, b], _ =>
    have ha := dval_le a (hd a (by simp)); have hb := dval_le b (hd b (by simp))
    unfold decOf; rw [decFrom_cons, decFrom_cons, decFrom_nil]; omega
  | [a, b, c], _ =>
    have ha := dval_le a (hd a (by simp)); have hb := dval_le b (hd b (by simp)); have hc := dval_le c (hd c (by simp))
    unfold decOf; rw [decFrom_cons, decFrom_cons, decFrom_cons, decFrom_nil]; omega

/-- the value of `int.frac` in thousandths -/
def qValue (ip fp : List UInt8) : Nat := decOf ip * 1000 + decOf fp * 10 ^ (3 - fp.length)

theorem setQ_frac (pf : PFromBody) (ip fp : List UInt8) (hi : AllDigits ip) (hf : AllDigits fp) (hl : fp.length ≤ 3)
    (hu : decOf ip ≤ 1) (h1 : decOf ip = 1 → decOf fp = 0) :
    setQ pf (ip ++ 46 :: fp) = { pf with q := qValue ip fp } := by
  have hd := decOf_le3 fp hf hl
  have hpi := (pUInt64Val_spec ip hi).1 (by unfold maxU64; omega)
  have hpf := (pUInt64Val_spec fp hf).1 (by unfold maxU64; omega)
  unfold setQ
  simp only [takeWhile_digits ip fp hi, List.length_append, List.length_cons, List.take_left']
  have hdrop : List.drop (ip.length + 1) (ip ++ 46 :: fp) = fp := by
    rw [List.drop_append, List.drop_eq_nil_of_le (by omega)]
    simp
  have hlt : decide (ip.length < ip.length + (fp.length + 1)) = true := by simp
  have hlen : ip.length + (fp.length + 1) - ip.length ≤ 4 := by omega
  have hnd : ip.length + (fp.length + 1) - (ip.length + 1) = fp.length := by omega
  simp only [hpi, hdrop, hlt, hpf, hlen, hnd, beq_self_eq_true, Bool.and_self, Bool.true_and, ↓reduceIte]
  have hbad : (decide (decOf ip > 1) || decide (decOf fp > 999) || decOf ip == 1 && decide (decOf fp > 0)) = false := by
    have a1 : decide (decOf ip > 1) = false := by simp; omega
    have a2 : decide (decOf fp > 999) = false := by simp; omega
    rw [a1, a2]
    by_cases hone : decOf ip = 1
    · have := h1 hone
      simp [this]
    · have : (decOf ip == 1) = false := by simpa using hone
      simp [this]
  simp only [hbad, Bool.false_eq_true, ↓reduceIte]
  have hq : (decOf ip * 1000 + if (fp.length == 1) = true then decOf fp * 100 else
      if (fp.length == 2) = true then decOf fp * 10 else decOf fp) % 65536 = qValue ip fp := by
    unfold qValue
    match fp, hf, hl with
    | [], _, _ =>
      have : decOf [] = 0 := by unfold decOf; rw [decFrom_nil]
      simp [this]; omega
    | [a], hf, _ =>
      have ha := dval_le a (hf a (by simp))
      have : decOf [a] = dval a := by unfold decOf; rw [decFrom_cons, decFrom_nil]; omega
      simp [this]; omega
    | [a, b], hf, _ =>
      have ha := dval_le a (hf a (by simp)); have hb := dval_le b (hf b (by simp))
      have : decOf [a, b] = dval a * 10 + dval b := by
        unfold decOf; rw [decFrom_cons, decFrom_cons, decFrom_nil]; omega
      simp [this]; omega
    | [a, b, c], hf, _ =>
      have ha := dval_le a (hf a (by simp)); have hb := dval_le b (hf b (by simp)); have hc := dval_le c (hf c (by simp))
      have : decOf [a, b, c] = (dval a * 10 + dval b) * 10 + dval c := by
        unfold decOf; rw [decFrom_cons, decFrom_cons, decFrom_cons, decFrom_nil]; omega
      simp [this]; omega
  rw [hq]

theorem setQ_int (pf : PFromBody) (ip : List UInt8) (hi : AllDigits ip) (hu : decOf ip ≤ 1) :
    setQ pf ip = { pf with q := decOf ip * 1000 } := by
  have hpi := (pUInt64Val_spec ip hi).1 (by unfold maxU64; omega)
  unfold setQ
  simp only [takeWhile_digits_all ip hi, Nat.sub_self, Nat.zero_le, ↓reduceIte, List.take_length, hpi, Nat.lt_irrefl,
    decide_false, Bool.and_false, Bool.false_eq_true, beq_self_eq_true]
  have a1 : decide (decOf ip > 1) = false := by simp; omega
  simp only [a1, Bool.false_and, Bool.or_false, Bool.false_eq_true, ↓reduceIte, Nat.add_zero, decide_false,
    Nat.reduceGT]
  have : decOf ip * 1000 % 65536 = decOf ip * 1000 := by omega
  rw [this]


/-- `q=int.frac` (at most three fraction digits, value at most 1): the value in thousandths -/
theorem paramEffect_q_frac (b : Buf) (ps pe vs ve : Nat) (a : PAcc) (h1 : ps < pe) (h2 : vs < ve) (h3 : pe ≤ b.size)
    (h4 : ve ≤ b.size) (hn : cmpEqL (b.extract ps pe) sQ = true) (ip fp : List UInt8)
    (hv : (b.extract vs ve).toList = ip ++ 46 :: fp) (hi : AllDigits ip) (hf : AllDigits fp) (hl : fp.length ≤ 3)
    (hu : decOf ip ≤ 1) (hone : decOf ip = 1 → decOf fp = 0) :
    paramEffect b ps pe vs ve a = { a with q := qValue ip fp } := by
  have hlen := cmpEqL_len hn
  have t1 : cmpEqL (b.extract ps pe) sTag = false := cmpEqL_false_of_len (by rw [hlen]; decide)
  have t2 : cmpEqL (b.extract ps pe) sExpires = false := cmpEqL_false_of_len (by rw [hlen]; decide)
  rw [paramEffect_valued b ps pe vs ve a h1 h2 h3 h4, t1, t2, if_neg (by decide), if_neg (by decide), if_pos hn, hv,
    setQ_frac _ ip fp hi hf hl hu hone]
  rfl

/-- `q=int` (0 or 1, any number of leading zeros) -/
theorem paramEffect_q_int (b : Buf) (ps pe vs ve : Nat) (a : PAcc) (h1 : ps < pe) (h2 : vs < ve) (h3 : pe ≤ b.size)
    (h4 : ve ≤ b.size) (hn : cmpEqL (b.extract ps pe) sQ = true) (hi : AllDigits (b.extract vs ve).toList)
    (hu : decOf (b.extract vs ve).toList ≤ 1) :
    paramEffect b ps pe vs ve a = { a with q := decOf (b.extract vs ve).toList * 1000 } := by
  have hlen := cmpEqL_len hn
  have t1 : cmpEqL (b.extract ps pe) sTag = false := cmpEqL_false_of_len (by rw [hlen]; decide)
  have t2 : cmpEqL (b.extract ps pe) sExpires = false := cmpEqL_false_of_len (by rw [hlen]; decide)
  rw [paramEffect_valued b ps pe vs ve a h1 h2 h3 h4, t1, t2, if_neg (by decide), if_neg (by decide), if_pos hn,
    setQ_int _ _ hi hu]
  rfl

/-! ### leading white space, `*` -/

theorem stepA_init_lws (h : Nat) (b : Buf) (i : Nat) (c : UInt8) (pf : PFromBody) (hst : pf.state = .init)
    (hc : isLWSch c = true) : naStep h b i c pf = naLWS h b i pf := by
  unfold naStep; simp only [hst]
  unfold naStepA
  simp +decide only [hc, hst, ↓reduceIte]

/-- linear white space in front of the value is skipped -/
theorem parse_lead_lws (h : Nat) (b : Buf) {o0 o : Nat} (hl : Lws b o0 o) {c : UInt8} (hc : b[o]? = some c)
    (hcl : isLWSch c = false) : parseNameAddrPVal h b o0 {} = parseNameAddrPVal h b o {} := by
  have hrun : runLoop (naMachine h) b o0 {} = runLoop (naMachine h) b o {} :=
    na_skip_lws h b {} hl hc hcl (fun c' hc' => stepA_init_lws h b o0 c' {} rfl hc')
  unfold parseNameAddrPVal
  rw [if_neg (by decide), if_neg (by decide)]
  show ((runLoop (naMachine h) b o0 {}).1, (runLoop (naMachine h) b o0 {}).2.1,
    naExit 0 (runLoop (naMachine h) b o0 {}).2.1 (runLoop (naMachine h) b o0 {}).2.2) =
    ((runLoop (naMachine h) b o {}).1, (runLoop (naMachine h) b o {}).2.1,
    naExit 0 (runLoop (naMachine h) b o {}).2.1 (runLoop (naMachine h) b o {}).2.2)
  rw [hrun]

theorem stepA_init_star (h : Nat) (b : Buf) (i : Nat) (pf : PFromBody) (hst : pf.state = .init) :
    naStep h b i 42 pf = .cont (i + 1) { pf.setV i (i + 1) with s := i, state := .star } := by
  unfold naStep; simp only [hst]
  unfold naStepA
  simp +decide only [hst, ↓reduceIte]

theorem stepStar_lws (h : Nat) (b : Buf) (i : Nat) (c : UInt8) (pf : PFromBody) (hst : pf.state = .star)
    (hc : isLWSch c = true) : naStep h b i c pf = naLWS h b i pf := by
  unfold naStep; simp only [hst]
  unfold naStepStar; simp only [hc, ↓reduceIte]

theorem stepStar_other (h : Nat) (b : Buf) (i : Nat) (c : UInt8) (pf : PFromBody) (hst : pf.state = .star)
    (hc : isLWSch c = false) : naStep h b i c pf = .done i .badChar pf := by
  unfold naStep; simp only [hst]
  unfold naStepStar; simp only [hc, Bool.false_eq_true, ↓reduceIte]

/-- **`*`** (Contact: *), optional white space and the line end: the star indicator is set, URI = V = the `*` -/
theorem parseNameAddr_star (h : Nat) (b : Buf) (o p e : Nat) (hfit : b.size ≤ 65535) (h0 : b[o]? = some 42)
    (hl : Lws b (o + 1) p) (he : Eol b p e) {c2 : UInt8} (h2 : b[e]? = some c2) (hw2 : isWS c2 = false) :
    parseNameAddrPVal h b o {} =
      (e, .ok, { star := true, uri := ⟨o, 1⟩, v := ⟨o, 1⟩, type := h, state := .fin }) := by
  have hsz := get?_lt h0
  have hgt := he.gt
  obtain ⟨c0, hc0, hl0⟩ := lws_eol_first hl he
  have hstep : naStep h b o 42 {} = .cont (o + 1) ({ v := ⟨o, 1⟩, s := o, state := .star } : PFromBody) := by
    rw [stepA_init_star h b o {} rfl]
    unfold PFromBody.setV
    simp only [set_eq o (o + 1) (by omega) (by omega), setPanics_false o (o + 1) (by omega), Nat.add_sub_cancel_left]
    rfl
  have hloop : runLoop (naMachine h) b o {} =
      (e, .ok, { star := true, uri := ⟨o, 1⟩, v := ⟨o, 1⟩, s := o, type := h, state := .fin }) := by
    rw [runLoop_cont (naMachine h) h0 (by exact hstep), if_pos (by omega)]
    have hs2 : naStep h b (o + 1) c0 ({ v := ⟨o, 1⟩, s := o, state := .star } : PFromBody) =
        .done e .ok { star := true, uri := ⟨o, 1⟩, v := ⟨o, 1⟩, s := o, type := h, state := .fin } := by
      rw [stepStar_lws h b (o + 1) c0 _ rfl hl0, naLWS_eoh _ (skipLWS_of_lws_eol hl he h2 hw2)]
      unfold naEOH naFinish
      have : p + (e - p) = e := by omega
      simp only [this]
    exact runLoop_done (naMachine h) hc0 (by exact hs2)
  rw [parse_of_loop h b o hloop (Or.inl rfl)]

/-- `*` followed by a comma is rejected -/
theorem parseNameAddr_star_comma (h : Nat) (b : Buf) (o : Nat) (h0 : b[o]? = some 42) (h1 : b[o + 1]? = some 44) :
    (parseNameAddrPVal h b o {}).2.1 = .badChar := by
  have hstep : naStep h b o 42 {} = .cont (o + 1) { ({} : PFromBody).setV o (o + 1) with s := o, state := .star } :=
    stepA_init_star h b o {} rfl
  have hloop : (runLoop (naMachine h) b o {}).2.1 = .badChar := by
    rw [runLoop_cont (naMachine h) h0 (by exact hstep), if_pos (by omega)]
    have hs2 := stepStar_other h b (o + 1) 44 { ({} : PFromBody).setV o (o + 1) with s := o, state := .star } rfl
      (by decide)
    rw [runLoop_done (naMachine h) h1 (by exact hs2)]
  unfold parseNameAddrPVal
  rw [if_neg (by decide)]
  exact hloop

/-! ### a value of the grammar, as one predicate -/

theorem Term.range {h : Nat} {b : Buf} {w o : Nat} {e : Err} (T : Term h b w o e) : w < o ∧ o ≤ b.size := by
  rcases T with ⟨p, e, c2, hl, he, h2, _⟩ | ⟨m, hl, hm, _⟩
  · have := hl.le; have := he.gt; have := get?_lt h2; omega
  · have := hl.le; have := get?_lt hm; omega

theorem AddrPrefix.first {b : Buf} {o a : Nat} {nm : PField} (H : AddrPrefix b o nm a) :
    ∃ c, b[o]? = some c ∧ isLWSch c = false := by
  rcases H with ⟨h0⟩ | ⟨k, _, h0, _, _⟩ | ⟨t, c, h0, h1, _, _, _⟩ | ⟨t, n, _, c, c', h0, h1, _, _, _, _, _, _, _, _⟩
  · exact ⟨60, h0, by decide⟩
  · exact ⟨34, h0, by decide⟩
  · exact ⟨c, h0, (isTokch_iff.1 (isTok1_iff.1 h1).1).1⟩
  · exact ⟨c, h0, (isTokch_iff.1 (isTok1_iff.1 h1).1).1⟩

/-- a well-formed name-addr value at `o0` (optional leading white space), the offset after it, the verdict, and the
    object it denotes: the four forms (angle brackets without / with parameters, bare URI without / with parameters) -/
def NAValue (h : Nat) (b : Buf) (o0 o' : Nat) (e' : Err) (r : PFromBody) : Prop :=
  (∃ o a g nm, Lws b o0 o ∧ AddrPrefix b o nm a ∧ Run isURIch b (a + 1) g ∧ a + 1 ≤ g ∧ b[g]? = some 62 ∧
    Term h b (g + 1) o' e' ∧ r = naResult h nm ⟨a + 1, g - (a + 1)⟩ {} ⟨o, g + 1 - o⟩ {}) ∨
  (∃ o a g m w nm L, Lws b o0 o ∧ AddrPrefix b o nm a ∧ Run isURIch b (a + 1) g ∧ a + 1 ≤ g ∧ b[g]? = some 62 ∧
    Lws b (g + 1) m ∧ b[m]? = some 59 ∧ PList b (m + 1) L w ∧ Term h b w o' e' ∧
    r = naResult h nm ⟨a + 1, g - (a + 1)⟩ ⟨firstPs 0 L, w - firstPs 0 L⟩ ⟨o, w - o⟩ (accAll b L {})) ∨
  (∃ o t c, Lws b o0 o ∧ b[o]? = some c ∧ isTok1 c = true ∧ Run isTokch b (o + 1) t ∧ o + 1 ≤ t ∧ Term h b t o' e' ∧
    r = naResult h {} ⟨o, t - o⟩ {} ⟨o, t - o⟩ {}) ∨
  (∃ o t m w c L, Lws b o0 o ∧ b[o]? = some c ∧ isTok1 c = true ∧ Run isTokch b (o + 1) t ∧ o + 1 ≤ t ∧ Lws b t m ∧
    b[m]? = some 59 ∧ PList b (m + 1) L w ∧ Term h b w o' e' ∧
    r = naResult h {} ⟨o, t - o⟩ ⟨firstPs 0 L, w - firstPs 0 L⟩ ⟨o, w - o⟩ (accAll b L {}))

/-- **every value of the grammar is decomposed as written** -/
theorem NAValue.parse {h : Nat} {b : Buf} {o0 o' : Nat} {e' : Err} {r : PFromBody} (H : NAValue h b o0 o' e' r)
    (hfit : b.size ≤ 65535) : parseNameAddrPVal h b o0 {} = (o', e', r) := by
  rcases H with ⟨o, a, g, nm, hl, hp, hu, hag, hg, T, rfl⟩ |
    ⟨o, a, g, m, w, nm, L, hl, hp, hu, hag, hg, hl2, hm, hL, T, rfl⟩ |
    ⟨o, t, c, hl, hc, h1, hr, hot, T, rfl⟩ | ⟨o, t, m, w, c, L, hl, hc, h1, hr, hot, hl2, hm, hL, T, rfl⟩
  · obtain ⟨c, hc, hcl⟩ := hp.first
    rw [parse_lead_lws h b hl hc hcl]
    exact parseNameAddr_bracket h b o a g o' e' nm hfit hp hu hag hg T
  · obtain ⟨c, hc, hcl⟩ := hp.first
    rw [parse_lead_lws h b hl hc hcl]
    exact parseNameAddr_bracket_params h b o a g m w o' e' nm L hfit hp hu hag hg hl2 hm hL T
  · rw [parse_lead_lws h b hl hc (isTokch_iff.1 (isTok1_iff.1 h1).1).1]
    exact parseNameAddr_bare h b o t o' e' hfit hc h1 hr hot T
  · rw [parse_lead_lws h b hl hc (isTokch_iff.1 (isTok1_iff.1 h1).1).1]
    exact parseNameAddr_bare_params h b o t m w o' e' L hfit hc h1 hr hot hl2 hm hL T

theorem AddrPrefix.le {b : Buf} {o a : Nat} {nm : PField} (H : AddrPrefix b o nm a) : o ≤ a := by
  rcases H with ⟨h0⟩ | ⟨k, _, h0, hq, ht⟩ | ⟨t, c, h0, h1, hr, hot, ht⟩ | ⟨t, n, _, c, c', h0, h1, hr, hot, hl, hlt, hn, hcl, h42, ht⟩
  · exact Nat.le_refl _
  · have := hq.le; have := ht.le; omega
  · omega
  · have := ht.le; omega

theorem NAValue.range {h : Nat} {b : Buf} {o0 o' : Nat} {e' : Err} {r : PFromBody} (H : NAValue h b o0 o' e' r) :
    o0 < o' ∧ o' ≤ b.size := by
  rcases H with ⟨o, a, g, nm, hl, hp, hu, hag, hg, T, rfl⟩ |
    ⟨o, a, g, m, w, nm, L, hl, hp, hu, hag, hg, hl2, hm, hL, T, rfl⟩ |
    ⟨o, t, c, hl, hc, h1, hr, hot, T, rfl⟩ | ⟨o, t, m, w, c, L, hl, hc, h1, hr, hot, hl2, hm, hL, T, rfl⟩
  · have := hl.le; have := T.range; have := hp.le; omega
  · have := hl.le; have := T.range; have := hL.bounds; have := hl2.le; have := hp.le; omega
  · have := hl.le; have := T.range; omega
  · have := hl.le; have := T.range; have := hL.bounds; have := hl2.le; omega

/-! ### a Contact header body: comma-separated values -/

/-- values separated by commas; the last one ends at the line end; `rs` are the objects they denote -/
inductive ValList (h : Nat) (b : Buf) : Nat → List PFromBody → Nat → Prop
  | last (o o' : Nat) (r : PFromBody) : NAValue h b o o' .ok r → ValList h b o [r] o'
  | cons (o o1 o' : Nat) (r : PFromBody) (rs : List PFromBody) : NAValue h b o o1 .moreValues r →
      ValList h b o1 rs o' → ValList h b o (r :: rs) o'

/-- what ParseAllContactValues does with the contacts object for the values `rs`, in order -/
def PContacts.acceptAll (c : PContacts) : List PFromBody → PContacts
  | [] => c
  | [r] => (c.setCur r).account r
  | r :: r2 :: rs => (c.next r).acceptAll (r2 :: rs)

theorem ValList.ne_nil {h : Nat} {b : Buf} {o o' : Nat} {rs : List PFromBody} (H : ValList h b o rs o') : rs ≠ [] := by
  cases H <;> simp

/-- **ParseAllContactValues on a well-formed list of values** -/
theorem contactsLoop_list (b : Buf) (hfit : b.size ≤ 65535) {o o' : Nat} {rs : List PFromBody}
    (H : ValList HdrContact b o rs o') :
    ∀ c : PContacts, CtClean c → c.cur = {} → contactsLoop b o c = (o', .ok, c.acceptAll rs) := by
  induction H with
  | last o o' r hv =>
    intro c _ hcur
    rw [contactsLoop]
    simp only [parseOneContact, hcur, hv.parse hfit]
    rfl
  | cons o o1 o' r rs hv hrest ih =>
    intro c hcl hcur
    have hr := hv.range
    rw [contactsLoop]
    simp only [parseOneContact, hcur, hv.parse hfit]
    rw [if_pos hr]
    have hnext := next_clean c r hcl
    have hih := ih (c.next r) hnext.1 hnext.2
    have hrs := hrest.ne_nil
    cases rs with
    | nil => exact absurd rfl hrs
    | cons r2 rs' =>
      show contactsLoop b o1 (c.next r) = _
      rw [hih]
      rfl

/-! ### what the contacts object records for a sequence of values -/

theorem next_scalars (c : PContacts) (r : PFromBody) :
    (c.next r).maxExpires = ((c.setCur r).account r).maxExpires ∧
    (c.next r).minExpires = ((c.setCur r).account r).minExpires := by
  unfold PContacts.next; split <;> exact ⟨rfl, rfl⟩

theorem step_maxE (c : PContacts) (r : PFromBody) :
    ((c.setCur r).account r).maxExpires = max c.maxExpires r.expires := by
  rw [account_maxE, (setCur_scalars c r).2.1, Nat.max_def]
  split <;> split <;> omega

theorem step_minE (c : PContacts) (r : PFromBody) :
    ((c.setCur r).account r).minExpires = min (if c.n == 0 then 4294967295 else c.minExpires) r.expires := by
  rw [account_minE, (setCur_scalars c r).2.2.1, setCur_n]
  generalize (if c.n == 0 then 4294967295 else c.minExpires) = x
  rw [Nat.min_def]
  split <;> split <;> omega

theorem acceptAll_cons2 (c : PContacts) (r r2 : PFromBody) (rs : List PFromBody) :
    c.acceptAll (r :: r2 :: rs) = (c.next r).acceptAll (r2 :: rs) := rfl

/-- **the value count includes the values that did not fit the caller's array** -/
theorem ctAcceptAll_n (c : PContacts) (rs : List PFromBody) : (c.acceptAll rs).n = c.n + rs.length := by
  induction rs generalizing c with
  | nil => rfl
  | cons r rs ih =>
    cases rs with
    | nil => show ((c.setCur r).account r).n = _; rw [account_n, setCur_n]; rfl
    | cons r2 rs' => rw [acceptAll_cons2, ih, next_n]; simp only [List.length_cons]; omega

/-- **the maximum expires summarises all values** (also those beyond the array) -/
theorem ctAcceptAll_maxE (c : PContacts) (rs : List PFromBody) :
    (c.acceptAll rs).maxExpires = rs.foldl (fun m r => max m r.expires) c.maxExpires := by
  induction rs generalizing c with
  | nil => rfl
  | cons r rs ih =>
    cases rs with
    | nil => show ((c.setCur r).account r).maxExpires = _; rw [step_maxE]; rfl
    | cons r2 rs' => rw [acceptAll_cons2, ih, (next_scalars c r).1, step_maxE]; rfl

/-- **the minimum expires summarises all values**, starting from 2^32-1 for the first value of the message -/
theorem ctAcceptAll_minE (c : PContacts) (rs : List PFromBody) (hne : rs ≠ []) :
    (c.acceptAll rs).minExpires =
      rs.foldl (fun m r => min m r.expires) (if c.n == 0 then 4294967295 else c.minExpires) := by
  induction rs generalizing c with
  | nil => exact absurd rfl hne
  | cons r rs ih =>
    cases rs with
    | nil => show ((c.setCur r).account r).minExpires = _; rw [step_minE]; rfl
    | cons r2 rs' =>
      rw [acceptAll_cons2, ih _ (by simp), (next_scalars c r).2, step_minE, next_n]
      have : (c.n + 1 == 0) = false := by simp
      rw [this]
      rfl

theorem ctAcceptAll_size (c : PContacts) (rs : List PFromBody) : (c.acceptAll rs).vals.size = c.vals.size := by
  induction rs generalizing c with
  | nil => rfl
  | cons r rs ih =>
    cases rs with
    | nil => show ((c.setCur r).account r).vals.size = _; rw [account_vals, setCur_size]
    | cons r2 rs' => rw [acceptAll_cons2, ih, next_vals, setCur_size]

theorem ctAcceptAll_keep (c : PContacts) (rs : List PFromBody) (j : Nat) (hj : j < c.n) :
    (c.acceptAll rs).vals[j]! = c.vals[j]! := by
  induction rs generalizing c with
  | nil => rfl
  | cons r rs ih =>
    cases rs with
    | nil => show ((c.setCur r).account r).vals[j]! = _; rw [account_vals, setCur_vals_ne c r j (by omega)]
    | cons r2 rs' =>
      rw [acceptAll_cons2, ih _ (by rw [next_n]; omega), next_vals, setCur_vals_ne c r j (by omega)]

/-- **the stored values are the values of the header, in order** (those that fit the caller's array) -/
theorem ctAcceptAll_stored (c : PContacts) (rs : List PFromBody) (k : Nat) (hk : k < rs.length)
    (hin : c.n + k < c.vals.size) : (c.acceptAll rs).vals[c.n + k]! = rs[k] := by
  induction rs generalizing c k with
  | nil => cases hk
  | cons r rs ih =>
    cases rs with
    | nil =>
      have : k = 0 := by simpa using hk
      subst this
      show ((c.setCur r).account r).vals[c.n + 0]! = r
      rw [account_vals]; exact setCur_get_n c r (by omega)
    | cons r2 rs' =>
      rw [acceptAll_cons2]
      cases k with
      | zero =>
        show ((c.next r).acceptAll (r2 :: rs')).vals[c.n]! = r
        rw [ctAcceptAll_keep _ _ c.n (by rw [next_n]; omega), next_vals]
        exact setCur_get_n c r (by omega)
      | succ k =>
        have := ih (c.next r) k (by simpa using hk) (by rw [next_n, next_vals, setCur_size]; omega)
        rw [next_n] at this
        have e : c.n + (k + 1) = c.n + 1 + k := by omega
        rw [e, this]; rfl

/-- ParseAllContactValues itself (with its normalisation of the scratch slot) -/
theorem parseAllContactValues_list (b : Buf) (hfit : b.size ≤ 65535) {o o' : Nat} {rs : List PFromBody}
    (H : ValList HdrContact b o rs o') (c : PContacts) (hc : CtClean c) (hcur : c.cur = {}) :
    parseAllContactValues b o c = (o', .ok, c.acceptAll rs) := by
  unfold parseAllContactValues
  have : (decide (c.n ≥ c.vals.size) && c.last.parsed) = false := by
    by_cases hin : c.n < c.vals.size
    · have : decide (c.n ≥ c.vals.size) = false := by simp; omega
      rw [this]; rfl
    · have hl : c.last = {} := by
        unfold PContacts.cur at hcur; rw [if_neg hin] at hcur; exact hcur
      rw [hl]; simp [PFromBody.parsed]
  simp only [this, Bool.false_eq_true, ↓reduceIte]
  exact contactsLoop_list b hfit H c hc hcur

/-- a new contacts object (any capacity) satisfies the hypotheses -/
theorem ct_new_ok (k : Nat) :
    CtClean ({ vals := Array.replicate k {} } : PContacts) ∧ ({ vals := Array.replicate k {} } : PContacts).cur = {} := by
  have hrep : ∀ j, j < (Array.replicate k ({} : PFromBody)).size → (Array.replicate k ({} : PFromBody))[j]! = {} := by
    intro j hj; simp at hj; simp [hj]
  refine ⟨⟨fun j _ hj => hrep j hj, fun _ => rfl⟩, ?_⟩
  unfold PContacts.cur
  split
  · rename_i hin; exact hrep _ hin
  · rfl

/-! ### a P-Asserted-Identity header body -/

theorem naResult_star (h : Nat) (nm u p v : PField) (a : PAcc) : (naResult h nm u p v a).star = false := rfl

theorem NAValue.star {h : Nat} {b : Buf} {o0 o' : Nat} {e' : Err} {r : PFromBody} (H : NAValue h b o0 o' e' r) :
    r.star = false := by
  rcases H with ⟨o, a, g, nm, _, _, _, _, _, _, rfl⟩ | ⟨o, a, g, m, w, nm, L, _, _, _, _, _, _, _, _, _, rfl⟩ |
    ⟨o, t, c, _, _, _, _, _, _, rfl⟩ | ⟨o, t, m, w, c, L, _, _, _, _, _, _, _, _, _, rfl⟩ <;> rfl

def PPAIs.acceptAll (c : PPAIs) : List PFromBody → PPAIs
  | [] => c
  | [r] => (c.setCur r).account r
  | r :: r2 :: rs => (c.next r).acceptAll (r2 :: rs)

/-- **ParseAllPAIValues on a well-formed list of values** -/
theorem paisLoop_list (b : Buf) (hfit : b.size ≤ 65535) {o o' : Nat} {rs : List PFromBody}
    (H : ValList HdrPAI b o rs o') :
    ∀ c : PPAIs, PaClean c → c.cur = {} → paisLoop b o c = (o', .ok, c.acceptAll rs) := by
  induction H with
  | last o o' r hv =>
    intro c _ hcur
    rw [paisLoop]
    simp only [parseOnePAI, hcur, hv.parse hfit, hv.star]
    rfl
  | cons o o1 o' r rs hv hrest ih =>
    intro c hcl hcur
    have hr := hv.range
    rw [paisLoop]
    simp only [parseOnePAI, hcur, hv.parse hfit, hv.star]
    simp only [Bool.and_false, Bool.false_eq_true, ↓reduceIte]
    rw [if_pos hr]
    have hnext := paNext_clean c r hcl
    have hih := ih (c.next r) hnext.1 hnext.2
    have hrs := hrest.ne_nil
    cases rs with
    | nil => exact absurd rfl hrs
    | cons r2 rs' =>
      show paisLoop b o1 (c.next r) = _
      rw [hih]
      rfl

theorem paAcceptAll_n (c : PPAIs) (rs : List PFromBody) : (c.acceptAll rs).n = c.n + rs.length := by
  induction rs generalizing c with
  | nil => rfl
  | cons r rs ih =>
    cases rs with
    | nil => show ((c.setCur r).account r).n = _; rw [paAccount_n, paSetCur_n]; rfl
    | cons r2 rs' =>
      show ((c.next r).acceptAll (r2 :: rs')).n = _
      rw [ih, paNext_n]; simp only [List.length_cons]; omega

theorem parseAllPAIValues_list (b : Buf) (hfit : b.size ≤ 65535) {o o' : Nat} {rs : List PFromBody}
    (H : ValList HdrPAI b o rs o') (c : PPAIs) (hc : PaClean c) (hcur : c.cur = {}) :
    parseAllPAIValues b o c = (o', .ok, c.acceptAll rs) := by
  unfold parseAllPAIValues
  have : (decide (c.n ≥ c.vals.size) && c.last.parsed) = false := by
    by_cases hin : c.n < c.vals.size
    · have : decide (c.n ≥ c.vals.size) = false := by simp; omega
      rw [this]; rfl
    · have hl : c.last = {} := by
        unfold PPAIs.cur at hcur; rw [if_neg hin] at hcur; exact hcur
      rw [hl]; simp [PFromBody.parsed]
  simp only [this, Bool.false_eq_true, ↓reduceIte]
  exact paisLoop_list b hfit H c hc hcur

/-- a new P-Asserted-Identity object satisfies the hypotheses -/
theorem pa_new_ok : PaClean ({} : PPAIs) ∧ ({} : PPAIs).cur = {} := by
  refine ⟨⟨fun k h1 h2 => ?_, fun _ => rfl⟩, rfl⟩
  have hk : k < 2 := h2
  have : k = 1 := by have : 0 < k := h1; omega
  subst this; rfl

/-! ### helpers for concrete instances -/


/-- executable version of `Run` -/
def runCheck (P : UInt8 → Bool) (b : Buf) (i j : Nat) : Bool :=
  (List.range' i (j - i)).all (fun k => match b[k]? with | some c => P c | none => false)

theorem run_of_check {P : UInt8 → Bool} {b : Buf} {i j : Nat} (h : runCheck P b i j = true) : Run P b i j := by
  intro k h1 h2
  unfold runCheck at h
  have hk := List.all_eq_true.1 h k (List.mem_range'_1.2 ⟨h1, by omega⟩)
  cases hb : b[k]? with
  | none => rw [hb] at hk; cases hk
  | some c => rw [hb] at hk; exact ⟨c, rfl, hk⟩

theorem accAll_nil (b : Buf) (a : PAcc) : accAll b [] a = a := rfl

theorem accAll_cons (b : Buf) (x : PSpan) (L : List PSpan) (a : PAcc) :
    accAll b (x :: L) a = accAll b L (paramEffect b x.ps x.pe x.vs x.ve a) := rfl

end Sipsp
