/-
  Sipsp.Proofs.Bytes — facts about the bytescase model: eqFold/cmpEq are equality of
  ASCII-lower-cased bytes.
-/
import Sipsp.Model.Bytescase

namespace Sipsp

/-- ASCII lower-casing, the reference notion of "ignoring letter case". -/
def lowerB (c : UInt8) : UInt8 := if 65 ≤ c ∧ c ≤ 90 then c + 32 else c

def lowerL (l : List UInt8) : List UInt8 := l.map lowerB

theorem eqFold_nat : ∀ a, a < 256 → ∀ b, b < 256 →
    eqFold (UInt8.ofNat a) (UInt8.ofNat b) = (lowerB (UInt8.ofNat a) == lowerB (UInt8.ofNat b)) := by
  decide +kernel

theorem eqFold_iff (v w : UInt8) : eqFold v w = (lowerB v == lowerB w) := by
  have h := eqFold_nat v.toNat (UInt8.toNat_lt v) w.toNat (UInt8.toNat_lt w)
  simpa using h

end Sipsp
