/-
  Sipsp.Proofs.SafeHeaders — ParseHeaders never panics (65,535-byte limit); every stored header (array slots, scratch
  slot, first-of-type shortcuts) and every field of the values object can be dereferenced.
-/
import Sipsp.Proofs.SafeHdrLine
import Sipsp.Proofs.CapacityMsg

namespace Sipsp

/-- a header whose name and value can be dereferenced; no panic was recorded on it -/
def HdrFine (b : Buf) (h : Hdr) : Prop := h.pnc = false ∧ h.name.inside b.size ∧ h.val.inside b.size

theorem HdrFine_new (b : Buf) : HdrFine b {} := ⟨rfl, PField.inside_zero _, PField.inside_zero _⟩

theorem HlOut.hdr {b : Buf} {h : Hdr} {hb : Option PHdrVals} (h' : HlOut b (h, hb)) : HdrFine b h :=
  ⟨h'.pnc, h'.nameF, h'.valF⟩

/-- name and value of a header lie before the offset `o` -/
def HdrBefore (o : Nat) (h : Hdr) : Prop := h.name.inside o ∧ h.val.inside o

theorem HdrBefore.mono {o o' : Nat} {h : Hdr} (hh : HdrBefore o h) (h1 : o ≤ o') : HdrBefore o' h :=
  ⟨PField.inside_mono hh.1 h1, PField.inside_mono hh.2 h1⟩

theorem HdrBefore_new (o : Nat) : HdrBefore o {} := ⟨PField.inside_zero _, PField.inside_zero _⟩

/-- every stored header and every first-of-type shortcut lies before `o` -/
structure HlsIn (o : Nat) (hl : HdrLst) : Prop where
  stored : ∀ k, k < hl.n → k < hl.hdrs.size → HdrBefore o hl.hdrs[k]!
  hI : ∀ j, j < hl.h.size → HdrBefore o hl.h[j]!

theorem HlsIn.mono {o o' : Nat} {hl : HdrLst} (h : HlsIn o hl) (h1 : o ≤ o') : HlsIn o' hl :=
  ⟨fun k a1 a2 => (h.stored k a1 a2).mono h1, fun j hj => (h.hI j hj).mono h1⟩

structure HlsSafe (b : Buf) (o : Nat) (hl : HdrLst) (hb : Option PHdrVals) : Prop where
  cur : HlSafe b o (hl.cur, hb)
  clean : HlsClean hl
  stored : ∀ k, k < hl.n → k < hl.hdrs.size → HdrFine b hl.hdrs[k]!
  hF : ∀ j, j < hl.h.size → HdrFine b hl.h[j]!
  inn : HlsIn o hl

/-- whatever the verdict: every slot of the caller's array, the scratch slot and every shortcut is dereferenceable -/
structure HlsOut (b : Buf) (hl : HdrLst) : Prop where
  all : ∀ k, k < hl.hdrs.size → HdrFine b hl.hdrs[k]!
  hdr : HdrFine b hl.hdr
  hF : ∀ j, j < hl.h.size → HdrFine b hl.h[j]!

theorem HlsSafe.out {b : Buf} {o : Nat} {hl : HdrLst} {hb : Option PHdrVals} (H : HlsSafe b o hl hb) : HlsOut b hl := by
  have hc : HdrFine b hl.cur := H.cur.out.hdr
  refine ⟨fun k hk => ?_, ?_, H.hF⟩
  · rcases Nat.lt_trichotomy k hl.n with h1 | h1 | h1
    · exact H.stored k h1 hk
    · subst h1
      unfold HdrLst.cur at hc; rw [if_pos hk] at hc; exact hc
    · rw [H.clean.1 k h1 hk]; exact HdrFine_new b
  · by_cases hin : hl.n < hl.hdrs.size
    · rw [H.clean.2 hin]; exact HdrFine_new b
    · unfold HdrLst.cur at hc; rw [if_neg hin] at hc; exact hc

theorem HlsOut.setCur {b : Buf} {hl : HdrLst} (H : HlsOut b hl) (g : Hdr) (hg : HdrFine b g) : HlsOut b (hl.setCur g) := by
  refine ⟨fun k hk => ?_, ?_, ?_⟩
  · rw [hlSetCur_size] at hk
    by_cases hkn : hl.n = k
    · subst hkn; rw [hlSetCur_get_n hl g hk]; exact hg
    · rw [hlSetCur_ne hl g k hkn]; exact H.all k hk
  · by_cases hin : hl.n < hl.hdrs.size
    · rw [hlSetCur_hdr_in hl g hin]; exact H.hdr
    · rw [hlSetCur_hdr_out hl g hin]; exact hg
  · rw [(hlSetCur_scalars hl g).2]; exact H.hF

theorem HlsSafe.setCur {b : Buf} {o n : Nat} {hl : HdrLst} {hb v : Option PHdrVals} (H : HlsSafe b o hl hb) (g : Hdr)
    (hg : HlSafe b n (g, v)) (hon : o ≤ n) : HlsSafe b n (hl.setCur g) v := by
  have hm := H.inn.mono hon
  refine ⟨by rw [hlSetCur_cur]; exact hg, ⟨fun k h1 h2 => ?_, fun h1 => ?_⟩, fun k h1 h2 => ?_, ?_,
    ⟨fun k h1 h2 => ?_, by rw [(hlSetCur_scalars hl g).2]; exact hm.hI⟩⟩
  · rw [hlSetCur_n] at h1; rw [hlSetCur_size] at h2
    rw [hlSetCur_ne hl g k (by omega)]; exact H.clean.1 k h1 h2
  · rw [hlSetCur_n, hlSetCur_size] at h1
    rw [hlSetCur_hdr_in hl g h1]; exact H.clean.2 h1
  · rw [hlSetCur_n] at h1; rw [hlSetCur_size] at h2
    rw [hlSetCur_ne hl g k (by omega)]; exact H.stored k h1 h2
  · rw [(hlSetCur_scalars hl g).2]; exact H.hF
  · rw [hlSetCur_n] at h1; rw [hlSetCur_size] at h2
    rw [hlSetCur_ne hl g k (by omega)]; exact hm.stored k h1 h2

theorem setHdr_allP (P : Hdr → Prop) (hl : HdrLst) (g : Hdr) (hg : P g) (H : ∀ j, j < hl.h.size → P hl.h[j]!) :
    ∀ j, j < (hl.setHdr g).h.size → P (hl.setHdr g).h[j]! := by
  unfold HdrLst.setHdr
  split
  · split
    · split
      · intro j hj
        simp only [Array.set!_eq_setIfInBounds, Array.size_setIfInBounds] at hj
        by_cases hjt : g.type - 1 = j
        · subst hjt
          simp only [Array.set!_eq_setIfInBounds, Array.getElem!_eq_getD, Array.getD_eq_getD_getElem?,
            Array.getElem?_setIfInBounds_self_of_lt hj, Option.getD_some]
          exact hg
        · have := H j hj
          simp only [Array.set!_eq_setIfInBounds, Array.getElem!_eq_getD, Array.getD_eq_getD_getElem?,
            Array.getElem?_setIfInBounds_ne hjt] at this ⊢
          exact this
      · exact H
    · exact H
  · exact H

theorem accept_allP (P : Hdr → Prop) (hl : HdrLst) (g : Hdr) (hg : P g) (H : ∀ j, j < hl.h.size → P hl.h[j]!) :
    ∀ j, j < (hl.accept g).h.size → P (hl.accept g).h[j]! := by
  have := setHdr_allP P { hl with pflags := (hl.pflags ||| (1 <<< g.type)) % 65536 } g hg H
  unfold HdrLst.accept
  dsimp only
  split <;> exact this

theorem HlsSafe.next {b : Buf} {o n : Nat} {hl : HdrLst} {hb v : Option PHdrVals} (H : HlsSafe b o hl hb) (g : Hdr)
    (hg : HlSafe b n (g, v)) (hfin : g.state = .fin) (hon : o ≤ n) : HlsSafe b n ((hl.setCur g).accept g) v := by
  have hn : ((hl.setCur g).accept g).n = hl.n + 1 := by rw [accept_n, hlSetCur_n]
  have hs : ((hl.setCur g).accept g).hdrs.size = hl.hdrs.size := by rw [accept_hdrs, hlSetCur_size]
  have hk : ∀ k, hl.n < k → k < hl.hdrs.size → ((hl.setCur g).accept g).hdrs[k]! = {} := by
    intro k h1 h2; rw [accept_hdrs, hlSetCur_ne hl g k (by omega)]; exact H.clean.1 k h1 h2
  have hh : ((hl.setCur g).accept g).hdr = {} := by
    rw [accept_hdr, hlSetCur_n, hlSetCur_size]
    split
    · rename_i hin; rw [hlSetCur_hdr_in hl g hin]; exact H.clean.2 hin
    · rfl
  have hcur : ((hl.setCur g).accept g).cur = {} := by
    unfold HdrLst.cur
    rw [hn, hs]
    split
    · rename_i hin; exact hk _ (by omega) hin
    · exact hh
  refine ⟨?_, ⟨fun k h1 h2 => ?_, fun _ => hh⟩, fun k h1 h2 => ?_, ?_, ?_⟩
  · rw [hcur]
    refine HlSafe_new b n v hg.hi (fun hv hvv => ?_)
    have := hg.hv hv hvv
    exact this.restate (by rw [hfin]; decide) (by rw [hfin]; decide) (by decide) (by decide)
  · rw [hn] at h1; rw [hs] at h2; exact hk k (by omega) h2
  · rw [hn] at h1; rw [hs] at h2
    rw [accept_hdrs]
    by_cases hkn : hl.n = k
    · subst hkn; rw [hlSetCur_get_n hl g h2]; exact hg.out.hdr
    · rw [hlSetCur_ne hl g k hkn]; exact H.stored k (by omega) h2
  · exact accept_allP (HdrFine b) _ g hg.out.hdr (by rw [(hlSetCur_scalars hl g).2]; exact H.hF)
  · have hm := H.inn.mono hon
    refine ⟨fun k h1 h2 => ?_, ?_⟩
    · rw [hn] at h1; rw [hs] at h2
      rw [accept_hdrs]
      by_cases hkn : hl.n = k
      · subst hkn; rw [hlSetCur_get_n hl g h2]; exact ⟨hg.nameIn, hg.valIn⟩
      · rw [hlSetCur_ne hl g k hkn]; exact hm.stored k (by omega) h2
    · exact accept_allP (HdrBefore n) _ g ⟨hg.nameIn, hg.valIn⟩ (by rw [(hlSetCur_scalars hl g).2]; exact hm.hI)

/-! ### the "empty line" verdict comes from the first byte of a header line only -/

theorem hlStep_empty_ge (b : Buf) (i : Nat) (c : UInt8) (st : HLσ) {n : Nat} {st' : HLσ}
    (hs : hlStep b i c st = .done n .empty st') : i ≤ n := by
  obtain ⟨h, hv⟩ := st
  unfold hlStep at hs
  simp only at hs
  cases hst : h.state <;> simp only [hst] at hs
  case init =>
    split at hs
    · split at hs
      · cases hs
      · split at hs <;> (cases hs; omega)
    · split at hs
      · cases hs; omega
      · exact absurd hs (hlName_ne_empty b i _ hv)
  case name => exact absurd hs (hlName_ne_empty b i _ hv)
  case nameEnd =>
    split at hs
    · cases hs
    · split at hs
      · exact absurd hs (hlAfterColon_ne_empty b _ _ hv)
      · cases hs
  case bodyStart =>
    rcases hsk : skipLWS b i 0 with ⟨n1, crl, e⟩
    rw [hsk] at hs
    have := skipLWS_verdicts b i 0 hsk
    rcases this with rfl | rfl | rfl | rfl <;> simp only at hs <;> cases hs
  case val =>
    split at hs
    · cases hs
    · exact absurd hs (hlValEnd_ne_empty b _ _ hv)
  case valEnd => exact absurd hs (hlValEnd_ne_empty b _ _ hv)
  case fin => cases hs
  all_goals exact absurd hs (hlCont_ne_empty b i h hv)

theorem parseHdrLine_empty_ge (b : Buf) (o : Nat) (h : Hdr) (hb : Option PHdrVals) {o' : Nat} {h' : Hdr}
    {hb' : Option PHdrVals} (hr : parseHdrLine b o h hb = (o', .empty, h', hb')) : o ≤ o' := by
  unfold parseHdrLine at hr
  rcases hrl : runLoop hlMachine b o (h, hb) with ⟨o1, e1, h1, hb1⟩
  rw [hrl] at hr
  simp only [Prod.mk.injEq] at hr
  obtain ⟨rfl, rfl, rfl, rfl⟩ := hr
  have key := runLoop_inv hlMachine b (fun i _ => o ≤ i) (fun r => r.2.1 = .empty → o ≤ r.1)
    (by
      intro i c st i' st' hb hP hs
      exact ⟨fun hlt => by omega, fun hn => absurd (hl_progress b i c st i' st' hb hs) hn⟩)
    (by
      intro i c st o2 e2 st2 hb hP hs hq
      subst hq
      have := hlStep_empty_ge b i c st hs
      omega)
    (by intro i st _ _ hq; simp only [hlMachine] at hq; cases hq)
    o (h, hb) (Nat.le_refl _)
  rw [hrl] at key
  exact key rfl

/-- **ParseHeaders never panics** -/
theorem parseHeaders_safe (b : Buf) (offs : Nat) (hl : HdrLst) (hb : Option PHdrVals) (hfit : b.size ≤ 65535)
    (hok1 : hlsOK b hl) (hok2 : hbOK b offs hb) (hpe : hlsPend hl hb) (ho : offs ≤ b.size)
    (H : HlsSafe b offs hl hb) :
    HlsOut b (parseHeaders b offs hl hb).2.2.1 ∧
    (∀ hv, (parseHeaders b offs hl hb).2.2.2 = some hv → HvFine b hv) ∧
    ((parseHeaders b offs hl hb).2.1 = .moreBytes ∨ (parseHeaders b offs hl hb).2.1 = .ok →
      HlsSafe b (parseHeaders b offs hl hb).1 (parseHeaders b offs hl hb).2.2.1 (parseHeaders b offs hl hb).2.2.2) ∧
    ((parseHeaders b offs hl hb).2.1 = .ok ∨ (parseHeaders b offs hl hb).2.1 = .moreBytes →
      offs ≤ (parseHeaders b offs hl hb).1 ∧ (parseHeaders b offs hl hb).1 ≤ b.size) ∧
    (parseHeaders b offs hl hb).1 ≤ b.size := by
  induction hk : b.size - offs using Nat.strongRecOn generalizing offs hl hb with
  | _ k ih =>
    rw [parseHeaders.eq_1 b offs hl hb]
    by_cases hlt : offs < b.size
    · rw [if_pos hlt]
      have hI : hlOK b offs hl.cur hb := ⟨by omega, hlsOK_cur hok1, hok2⟩
      rcases hp1 : parseHdrLine b offs hl.cur hb with ⟨n1, e1, g1, v1⟩
      obtain ⟨hO, hS, hF, hN, hE⟩ := parseHdrLine_safe b offs hl.cur hb hfit H.cur hI hp1
      have hvf : ∀ hv, v1 = some hv → HvFine b hv := hO.hv
      have herr : HlsOut b (hl.setCur g1) ∧ (∀ hv, v1 = some hv → HvFine b hv) := ⟨H.out.setCur g1 hO.hdr, hvf⟩
      cases e1 <;> simp only
      case ok =>
        have hpost := parseHdrLine_post b offs hl.cur hb hI hp1 (Or.inl rfl)
        have hg : offs < n1 := parseHdrLine_ok_gt b offs hl.cur hb hI hpe.1 hp1
        rw [if_pos hg]
        have := ih (b.size - n1) (by omega) n1 _ v1 (hlsOK_next g1 hok1) hpost.2
          (hlsPend_next g1 v1 hpe) hpost.1 (H.next g1 (hS (Or.inl rfl)) (hF rfl) (by omega)) rfl
        exact ⟨this.1, this.2.1, this.2.2.1, (fun hh => ⟨by have := (this.2.2.2.1 hh).1; omega, (this.2.2.2.1 hh).2⟩), this.2.2.2.2⟩
      case empty =>
        have hge := parseHdrLine_empty_ge b offs hl.cur hb hp1
        have hle := (parseHdrLine_post b offs hl.cur hb hI hp1 (Or.inr rfl)).1
        split
        · exact ⟨herr.1, herr.2, (fun _ => H.setCur g1 (hE rfl) hge), (fun _ => ⟨hge, hle⟩), hN⟩
        · exact ⟨herr.1, herr.2, (fun hh => by rcases hh with hh | hh <;> cases hh),
            (fun hh => by rcases hh with hh | hh <;> cases hh), hN⟩
      case moreBytes =>
        obtain ⟨_, _, _, r1, r2⟩ := parseHdrLine_resume b #[] offs hl.cur hb hI hpe.1 hp1
        exact ⟨herr.1, herr.2, (fun _ => H.setCur g1 (hS (Or.inr rfl)) r1), (fun _ => ⟨r1, r2⟩), hN⟩
      all_goals exact ⟨herr.1, herr.2, (fun hh => by rcases hh with hh | hh <;> cases hh),
        (fun hh => by rcases hh with hh | hh <;> cases hh), hN⟩
    · rw [if_neg hlt]
      exact ⟨H.out, (fun hv hh => (H.cur.hv hv hh).fine), (fun _ => H), (fun _ => ⟨Nat.le_refl _, ho⟩), ho⟩

end Sipsp
