/-
  Sipsp.Proofs.UriCmpLink — property C15: the side conditions of the comparison laws (UriCmpLaws) are established
  by the parsers, so that the laws hold for what the entry points accept.
-/
import Sipsp.Proofs.UriCmpLaws
import Sipsp.Proofs.SafeRest

namespace Sipsp

/-! ### (1a) ParseAllURIParams: recorded type = classification of the name, mask = the types stored -/

/-- what ParseAllURIParams maintains about the element types: every stored element (index below `n` and inside the
    array) has a readable name and its recorded type is the classification of that name; as long as nothing was
    dropped for lack of room (`n ≤ capacity`) a bit is set in the `types` mask exactly when it is set in the type of
    a stored element. -/
structure UclPlInv (b : Buf) (l : URIParamsLst) : Prop where
  cls : ∀ k, k < l.n → k < l.params.size →
    ∃ nm, l.params[k]!.param.name.get? b = some nm ∧ l.params[k]!.t = uriParamResolve nm
  types : l.n ≤ l.params.size → ∀ x, ((l.types &&& x) ≠ 0 ↔ ∃ k, k < l.n ∧ (l.params[k]!.t &&& x) ≠ 0)

theorem uclPlInv_new (b : Buf) (k : Nat) : UclPlInv b ({ params := Array.replicate k {} } : URIParamsLst) := by
  refine ⟨fun j hj _ => absurd hj (Nat.not_lt_zero j), fun _ x => ?_⟩
  constructor
  · intro h; exact absurd (Nat.zero_and x) h
  · rintro ⟨j, hj, _⟩; exact absurd hj (Nat.not_lt_zero j)

theorem UclPlInv.setCur {b : Buf} {l : URIParamsLst} (h : UclPlInv b l) (p : URIParam) : UclPlInv b (l.setCur p) := by
  refine ⟨fun k hk hs => ?_, fun hn x => ?_⟩
  · rw [pSetCur_n] at hk; rw [pSetCur_size] at hs
    rw [pSetCur_get_ne l p k (by omega)]; exact h.cls k hk hs
  · rw [pSetCur_n, pSetCur_size] at hn
    rw [pSetCur_types, pSetCur_n, h.types hn x]
    constructor
    · rintro ⟨k, hk, hx⟩; exact ⟨k, hk, by rw [pSetCur_get_ne l p k (by omega)]; exact hx⟩
    · rintro ⟨k, hk, hx⟩; exact ⟨k, hk, by rw [pSetCur_get_ne l p k (by omega)] at hx; exact hx⟩

theorem UclPlInv.setPnc {b : Buf} {l : URIParamsLst} (h : UclPlInv b l) (v : Bool) : UclPlInv b { l with pnc := v } :=
  ⟨h.cls, h.types⟩

theorem ucl_or_and_ne_zero (a c x : Nat) : ((a ||| c) &&& x) ≠ 0 ↔ ((a &&& x) ≠ 0 ∨ (c &&& x) ≠ 0) := by
  rw [Nat.and_or_distrib_right]
  constructor
  · intro h
    by_cases ha : a &&& x = 0
    · right; intro hc; apply h; rw [ha, hc]; rfl
    · left; exact ha
  · intro h hz
    have := Nat.or_eq_zero_iff.1 hz
    rcases h with h | h
    · exact h this.1
    · exact h this.2

theorem UclPlInv.next {b : Buf} {l : URIParamsLst} (h : UclPlInv b l) (tp : PTokParam) {nm : Buf}
    (hg : tp.name.get? b = some nm) : UclPlInv b (l.next tp (uriParamResolve nm)) := by
  have hne : ∀ k, l.n ≠ k → (l.next tp (uriParamResolve nm)).params[k]! = l.params[k]! := fun k hk => by
    rw [pNext_params, pSetCur_get_ne l _ k hk]
  have hself : l.n < l.params.size →
      (l.next tp (uriParamResolve nm)).params[l.n]! = { param := tp, t := uriParamResolve nm } := fun hin => by
    rw [pNext_params, pSetCur_get_n l _ hin]
  refine ⟨fun k hk hs => ?_, fun hn x => ?_⟩
  · rw [pNext_n] at hk; rw [pNext_size] at hs
    by_cases hkn : l.n = k
    · subst hkn
      rw [hself hs]
      exact ⟨nm, hg, rfl⟩
    · rw [hne k hkn]; exact h.cls k (by omega) hs
  · rw [pNext_n, pNext_size] at hn
    have hin : l.n < l.params.size := by omega
    rw [pNext_types, pNext_n, ucl_or_and_ne_zero, h.types (by omega) x]
    constructor
    · rintro (⟨k, hk, hx⟩ | hx)
      · exact ⟨k, by omega, by rw [hne k (by omega)]; exact hx⟩
      · exact ⟨l.n, by omega, by rw [hself hin]; exact hx⟩
    · rintro ⟨k, hk, hx⟩
      by_cases hkn : l.n = k
      · subst hkn; rw [hself hin] at hx; exact Or.inr hx
      · rw [hne k hkn] at hx; exact Or.inl ⟨k, by omega, hx⟩

/-- the invariant is kept by the whole loop, whatever the verdict, flags and capacity -/
theorem uriParamsLoop_uclInv (b : Buf) (flags : Nat) (offs : Nat) (l : URIParamsLst) (vNo : Nat)
    (h : UclPlInv b l) : UclPlInv b (uriParamsLoop b offs l flags vNo).2.2.2 := by
  revert h
  induction offs, l, vNo using uriParamsLoop_induct b flags with
  | step offs l vNo ih =>
    intro h
    rcases hp : parseTokenParam b offs l.cur.param flags with ⟨next, e1, tp⟩
    by_cases hm : e1 = .moreBytes
    · subst hm
      rw [uriParamsLoop_eq_more hp]
      exact h.setCur _
    by_cases hacc : e1 = .ok ∨ e1 = .moreValues ∨ e1 = .eoh
    · rcases hgn : tp.name.get? b with _ | nm
      · rw [uriParamsLoop_panic hp hacc hgn]
        exact (h.setCur _).setPnc true
      · have hn := h.next tp hgn
        rcases hacc with hk | hv | he
        · subst hk
          rw [uriParamsLoop_eq_last hp (Or.inl rfl) hgn]; exact hn
        · subst hv
          rw [uriParamsLoop_mv hp hgn]
          split
          · rename_i hgd
            exact ih next tp nm hp hgn hgd hn
          · exact hn
        · subst he
          rw [uriParamsLoop_eq_last hp (Or.inr rfl) hgn]; exact hn
    · rw [uriParamsLoop_err hp (fun hh => hacc (Or.inl hh)) (fun hh => hacc (Or.inr (Or.inl hh)))
        (fun hh => hacc (Or.inr (Or.inr hh))) hm]
      exact h.setCur _

theorem parseAllURIParams_uclInv (b : Buf) (offs : Nat) (l : URIParamsLst) (flags : Nat) (h : UclPlInv b l) :
    UclPlInv b (parseAllURIParams b offs l flags).2.2.2 :=
  uriParamsLoop_uclInv b _ offs l 0 h

end Sipsp
