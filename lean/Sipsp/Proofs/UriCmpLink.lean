/-
  Sipsp.Proofs.UriCmpLink — property C15: the side conditions of the comparison laws (UriCmpLaws) are established
  by the parsers, so that the laws hold for what the entry points accept; the laws restated for raw byte strings.
  Everything is for ALL inputs the statements quantify over; `≤ 65535` is the documented size limit of a buffer.

  (1) the list parsers establish the list hypotheses of the laws
      * `parseAllURIParams_ucl` (new list of ANY capacity, any flags, any verdict, any offset inside the buffer): no
        panic; every stored parameter lies inside the buffer (`ParamIn`) and its recorded type is the classification
        of its name (`UclCls`); the `types` mask is the set of types stored (`TypesOk`) unless parameters were
        dropped for lack of room.  Loop invariant `UclPlInv` (`uriParamsLoop_uclInv`, `parseAllURIParams_uclInv`:
        kept by every call on any list satisfying it).  `parseAllURIHdrs_ucl`: every stored header lies inside the
        buffer (`HdrIn`).
      * `ucl_pmatch_iff`, `ucl_paramsNoDup_iff`, `ucl_hdrsNoDup_iff`, `ucl_paramsNoDup_text`, `ucl_hdrsNoDup_text`: for
        parsed lists the side condition `ParamsNoDup` / `HdrsNoDup` of the laws says exactly that no two NAMES (byte
        strings of the text, `uclParamNames` / `uclHdrNames`) are equal up to ASCII letter case (`UclNoDupNames`).
      * `ucl_paramsWf`, `ucl_hdrsWf`: every parameter / header string (≤ 65535 bytes) without duplicate names
        satisfies `ParamsWf` / `HdrsWf`; the no-panic and inside-the-string parts hold for EVERY string.
  (2) raw URIs (`UclNoDup raw`: the parameter names and the header names of the text are duplicate-free;
      `UclListsOk raw`: ParseAllURIParams / ParseAllURIHdrs accept the parameter / header string)
      * `ucl_parse_get`: every component of an accepted URI reads back as the slice `[offs, offs+len)`;
        `ucl_uriWf`, `ucl_uriGood`: accepted + `UclNoDup` (+ `UclListsOk`) ⇒ `URIWf` (`URIGood`).
      * REFLEXIVITY `uriParseCmp_refl_raw`, `uriCmp_refl_parsed`: accepted, `UclListsOk`, `UclNoDup` ⇒ equal to itself
        under every flag value, no error, the parsed URI handed back twice.
      * SYMMETRY `uriParseCmp_symm_raw` (ANY two byte strings ≤ 65535, accepted or not; `UclNoDup` for the accepted
        ones), `uriParseCmp_symm_full` (complete results, parsed URIs swapped), `uriCmp_symm_parsed`.
      * PRESENCE `uriParamsEq_presence_raw`, `uriParseCmp_presence_raw`: a verdict "equal" (parameters not skipped)
        means each of user / ttl / method / maddr (any letter case) is a parameter NAME of both texts or of
        neither (at most 100 parameters each).
      (flag monotonicity needs no side condition: `uriParseCmp_mono` in UriCmpLaws.)
  (3) LETTER CASE, unconditional (no hypothesis on duplicates, well-formedness or acceptance):
      * `parseURI_case`: ParseURI returns the same result on strings that differ only in letter case, anywhere;
        `parseAllURIParams_case`, `parseAllURIHdrs_case`, `parseTokenParam_case`, `skipLWS_case`, `skipQuoted_case`:
        so do the list parsers (positions AND recorded types);
      * `uriParamsLstEq_case`, `uriHdrsLstEq_case`, `uriParamsEq_case`, `uriHdrsEq_case`: the list comparisons read
        their buffers only up to letter case (names and values);
      * `uriCmp_case`: URICmp, any URI objects, given the same user / password bytes;
      * `uriParseCmp_case` (`UclCaseVariant`: same string up to letter case, user and password untouched) and the
        special case `uriParseCmp_host_case` (`UclHostCaseVariant`: only host bytes re-cased): the COMPLETE result of
        URIParseCmp is unchanged, for any two byte strings ≤ 65535.
  Tests at the end: non-vacuity of every hypothesis; `ucl_refl_needs_listsOk` (ParseURI accepts `sip:a@b;<` but the
  URI is NOT equal to itself: the "lists well formed" hypothesis of reflexivity is necessary), `ucl_needs_nodup`.

  NOT proved here:
    * an independent (parser-free) description of the name lists `uclParamNames` / `uclHdrNames`: they are the names
      ParseAllURIParams / ParseAllURIHdrs report for the text (for texts of the grammar `GList` of ParamSpec these
      are the names as written: `GList.paramSeq`); duplicate-freedom is stated on these byte strings;
    * order invariance for raw strings (the laws `uriParamsLstEq_perm` / `uriCmp_congr` still take `ParamsSim` /
      `URISame` as hypotheses about the two parsed lists);
    * the presence rule beyond 100 parameters (the mask then also covers dropped parameters);
    * transitivity (false).
-/
import Sipsp.Proofs.UriCmpLaws
import Sipsp.Proofs.SafeRest
import Sipsp.Proofs.ParamSpec

namespace Sipsp

/-! ### (1a) ParseAllURIParams: recorded type = classification of the name, mask = the types stored -/

/-- what ParseAllURIParams maintains about the element types: every stored element (index below `n` and inside the
    array) has a readable name and its recorded type is the classification of that name; as long as nothing was
    dropped for lack of room (`n ≤ capacity`) a bit is set in the `types` mask exactly when it is set in the type of
    a stored element. -/
structure UclPlInv (b : Buf) (l : URIParamsLst) : Prop where
  cls : ∀ k, k < l.n → k < l.params.size →
    ∃ nm, l.params[k]!.param.name.get? b = some nm ∧ l.params[k]!.t = uriParamResolve nm
  types : l.n ≤ l.params.size → ∀ x, ((l.types &&& x) ≠ 0 ↔ ∃ k, k < l.n ∧ (l.params[k]!.t &&& x) ≠ 0)

theorem uclPlInv_new (b : Buf) (k : Nat) : UclPlInv b ({ params := Array.replicate k {} } : URIParamsLst) := by
  refine ⟨fun j hj _ => absurd hj (Nat.not_lt_zero j), fun _ x => ?_⟩
  constructor
  · intro h; exact absurd (Nat.zero_and x) h
  · rintro ⟨j, hj, _⟩; exact absurd hj (Nat.not_lt_zero j)

theorem UclPlInv.setCur {b : Buf} {l : URIParamsLst} (h : UclPlInv b l) (p : URIParam) : UclPlInv b (l.setCur p) := by
  refine ⟨fun k hk hs => ?_, fun hn x => ?_⟩
  · rw [pSetCur_n] at hk; rw [pSetCur_size] at hs
    rw [pSetCur_get_ne l p k (by omega)]; exact h.cls k hk hs
  · rw [pSetCur_n, pSetCur_size] at hn
    rw [pSetCur_types, pSetCur_n, h.types hn x]
    constructor
    · rintro ⟨k, hk, hx⟩; exact ⟨k, hk, by rw [pSetCur_get_ne l p k (by omega)]; exact hx⟩
    · rintro ⟨k, hk, hx⟩; exact ⟨k, hk, by rw [pSetCur_get_ne l p k (by omega)] at hx; exact hx⟩

theorem UclPlInv.setPnc {b : Buf} {l : URIParamsLst} (h : UclPlInv b l) (v : Bool) : UclPlInv b { l with pnc := v } :=
  ⟨h.cls, h.types⟩

theorem ucl_or_and_ne_zero (a c x : Nat) : ((a ||| c) &&& x) ≠ 0 ↔ ((a &&& x) ≠ 0 ∨ (c &&& x) ≠ 0) := by
  rw [Nat.and_or_distrib_right]
  constructor
  · intro h
    by_cases ha : a &&& x = 0
    · right; intro hc; apply h; rw [ha, hc]; rfl
    · left; exact ha
  · intro h hz
    have := Nat.or_eq_zero_iff.1 hz
    rcases h with h | h
    · exact h this.1
    · exact h this.2

theorem UclPlInv.next {b : Buf} {l : URIParamsLst} (h : UclPlInv b l) (tp : PTokParam) {nm : Buf}
    (hg : tp.name.get? b = some nm) : UclPlInv b (l.next tp (uriParamResolve nm)) := by
  have hne : ∀ k, l.n ≠ k → (l.next tp (uriParamResolve nm)).params[k]! = l.params[k]! := fun k hk => by
    rw [pNext_params, pSetCur_get_ne l _ k hk]
  have hself : l.n < l.params.size →
      (l.next tp (uriParamResolve nm)).params[l.n]! = { param := tp, t := uriParamResolve nm } := fun hin => by
    rw [pNext_params, pSetCur_get_n l _ hin]
  refine ⟨fun k hk hs => ?_, fun hn x => ?_⟩
  · rw [pNext_n] at hk; rw [pNext_size] at hs
    by_cases hkn : l.n = k
    · subst hkn
      rw [hself hs]
      exact ⟨nm, hg, rfl⟩
    · rw [hne k hkn]; exact h.cls k (by omega) hs
  · rw [pNext_n, pNext_size] at hn
    have hin : l.n < l.params.size := by omega
    rw [pNext_types, pNext_n, ucl_or_and_ne_zero, h.types (by omega) x]
    constructor
    · rintro (⟨k, hk, hx⟩ | hx)
      · exact ⟨k, by omega, by rw [hne k (by omega)]; exact hx⟩
      · exact ⟨l.n, by omega, by rw [hself hin]; exact hx⟩
    · rintro ⟨k, hk, hx⟩
      by_cases hkn : l.n = k
      · subst hkn; rw [hself hin] at hx; exact Or.inr hx
      · rw [hne k hkn] at hx; exact Or.inl ⟨k, by omega, hx⟩

/-- the invariant is kept by the whole loop, whatever the verdict, flags and capacity -/
theorem uriParamsLoop_uclInv (b : Buf) (flags : Nat) (offs : Nat) (l : URIParamsLst) (vNo : Nat)
    (h : UclPlInv b l) : UclPlInv b (uriParamsLoop b offs l flags vNo).2.2.2 := by
  revert h
  induction offs, l, vNo using uriParamsLoop_induct b flags with
  | step offs l vNo ih =>
    intro h
    rcases hp : parseTokenParam b offs l.cur.param flags with ⟨next, e1, tp⟩
    by_cases hm : e1 = .moreBytes
    · subst hm
      rw [uriParamsLoop_eq_more hp]
      exact h.setCur _
    by_cases hacc : e1 = .ok ∨ e1 = .moreValues ∨ e1 = .eoh
    · rcases hgn : tp.name.get? b with _ | nm
      · rw [uriParamsLoop_panic hp hacc hgn]
        exact (h.setCur _).setPnc true
      · have hn := h.next tp hgn
        rcases hacc with hk | hv | he
        · subst hk
          rw [uriParamsLoop_eq_last hp (Or.inl rfl) hgn]; exact hn
        · subst hv
          rw [uriParamsLoop_mv hp hgn]
          split
          · rename_i hgd
            exact ih next tp nm hp hgn hgd hn
          · exact hn
        · subst he
          rw [uriParamsLoop_eq_last hp (Or.inr rfl) hgn]; exact hn
    · rw [uriParamsLoop_err hp (fun hh => hacc (Or.inl hh)) (fun hh => hacc (Or.inr (Or.inl hh)))
        (fun hh => hacc (Or.inr (Or.inr hh))) hm]
      exact h.setCur _

theorem parseAllURIParams_uclInv (b : Buf) (offs : Nat) (l : URIParamsLst) (flags : Nat) (h : UclPlInv b l) :
    UclPlInv b (parseAllURIParams b offs l flags).2.2.2 :=
  uriParamsLoop_uclInv b _ offs l 0 h

/-! ### (1b) from the invariant to the hypotheses of the laws: `TypesOk`, classification of the stored elements -/

theorem ucl_mem_plist {l : URIParamsLst} {p : URIParam} :
    p ∈ l.plist ↔ ∃ k, k < l.n ∧ k < l.params.size ∧ l.params[k]! = p := by
  unfold URIParamsLst.plist URIParamsLst.pNo
  rw [List.mem_take_iff_getElem]
  constructor
  · rintro ⟨j, hj, rfl⟩
    have hj' : j < l.params.size := by
      have := hj; simp only [Array.length_toList] at this; omega
    refine ⟨j, ?_, hj', ?_⟩
    · split at hj <;> omega
    · rw [getElem!_pos l.params j hj', Array.getElem_toList]
  · rintro ⟨k, hk, hs, rfl⟩
    refine ⟨k, ?_, ?_⟩
    · simp only [Array.length_toList]; split <;> omega
    · rw [getElem!_pos l.params k hs, Array.getElem_toList]

/-- a stored parameter's recorded type is the classification (`URIParamResolve`) of its name -/
def UclCls (b : Buf) (p : URIParam) : Prop := ∃ nm, p.param.name.get? b = some nm ∧ p.t = uriParamResolve nm

theorem UclPlInv.mem_cls {b : Buf} {l : URIParamsLst} (h : UclPlInv b l) : ∀ p ∈ l.plist, UclCls b p := by
  intro p hp
  obtain ⟨k, hk, hs, rfl⟩ := ucl_mem_plist.1 hp
  exact h.cls k hk hs

theorem ucl_resolve_range (nm : Buf) :
    uriParamResolve nm ∈ [URIParamTransportF, URIParamLRF, URIParamMaddrF, URIParamUserF, URIParamMethodF,
      URIParamTTLF, URIParamOtherF] := by
  unfold uriParamResolve
  repeat' split
  all_goals simp

/-- the types ParseAllURIParams records are single bits: testing a presence bit is comparing the type -/
theorem ucl_resolve_bit (nm : Buf) (x : Nat) (hx : x ∈ [URIParamUserF, URIParamTTLF, URIParamMethodF, URIParamMaddrF]) :
    (uriParamResolve nm &&& x) ≠ 0 ↔ uriParamResolve nm = x := by
  have hr := ucl_resolve_range nm
  generalize uriParamResolve nm = t at hr
  simp only [List.mem_cons, List.not_mem_nil, or_false] at hr hx
  rcases hr with rfl | rfl | rfl | rfl | rfl | rfl | rfl <;> rcases hx with rfl | rfl | rfl | rfl <;> decide

/-- **the `types` mask is the set of types stored**, provided no parameter was dropped for lack of room -/
theorem UclPlInv.typesOk {b : Buf} {l : URIParamsLst} (h : UclPlInv b l) (hn : l.n ≤ l.params.size) : TypesOk l := by
  intro x hx
  rw [h.types hn x]
  constructor
  · rintro ⟨k, hk, hb⟩
    have hs : k < l.params.size := by omega
    obtain ⟨nm, _, ht⟩ := h.cls k hk hs
    rw [ht] at hb
    exact ⟨l.params[k]!, ucl_mem_plist.2 ⟨k, hk, hs, rfl⟩, by rw [ht]; exact (ucl_resolve_bit nm x hx).1 hb⟩
  · rintro ⟨p, hp, ht⟩
    obtain ⟨k, hk, hs, rfl⟩ := ucl_mem_plist.1 hp
    obtain ⟨nm, _, ht'⟩ := h.cls k hk hs
    refine ⟨k, hk, ?_⟩
    rw [ht'] at ht ⊢
    exact (ucl_resolve_bit nm x hx).2 ht

/-- one direction holds even when parameters were dropped: the type of every stored parameter is in the mask -/
theorem ucl_srTpGet_paramIn {b : Buf} {p : URIParam} (h : SrTpGet b p.param) : ParamIn b p := by
  obtain ⟨⟨x, hx⟩, ⟨y, hy⟩⟩ := h
  exact ⟨by rw [hx]; rfl, by rw [hy]; rfl⟩

theorem ucl_srTpGet_hdrIn {b : Buf} {p : PTokParam} (h : SrTpGet b p) : HdrIn b p := by
  obtain ⟨⟨x, hx⟩, ⟨y, hy⟩⟩ := h
  exact ⟨by rw [hx]; rfl, by rw [hy]; rfl⟩

/-- **ParseAllURIParams establishes the list hypotheses of the comparison laws** (new list of any capacity `k`, any
    flags, any verdict, any offset inside a buffer within the 65,535-byte limit): no panic; every stored parameter
    lies inside the buffer (`ParamIn`) and its recorded type is the classification of its name (`UclCls`); the type
    mask is the set of types stored (`TypesOk`) unless parameters were dropped for lack of room. -/
theorem parseAllURIParams_ucl (b : Buf) (o k flags : Nat) (hfit : b.size ≤ 65535) (ho : o ≤ b.size) :
    (parseAllURIParams b o { params := Array.replicate k {} } flags).2.2.2.pnc = false ∧
    (∀ p ∈ (parseAllURIParams b o { params := Array.replicate k {} } flags).2.2.2.plist, ParamIn b p ∧ UclCls b p) ∧
    ((parseAllURIParams b o { params := Array.replicate k {} } flags).2.2.2.more = false →
      TypesOk (parseAllURIParams b o { params := Array.replicate k {} } flags).2.2.2) := by
  have hS := parseAllURIParams_safe b o { params := Array.replicate k {} } flags hfit ho (srPlIn_new o k)
  have hI := parseAllURIParams_uclInv b o { params := Array.replicate k {} } flags (uclPlInv_new b k)
  refine ⟨hS.out.pnc, fun p hp => ⟨ucl_srTpGet_paramIn (hS.out.mem_get hfit _ p hp), hI.mem_cls p hp⟩, fun hm => ?_⟩
  apply hI.typesOk
  unfold URIParamsLst.more at hm
  simpa using hm

/-- **ParseAllURIHdrs establishes the list hypothesis of the comparison laws**: every stored header lies inside the
    buffer (`HdrIn`) -/
theorem parseAllURIHdrs_ucl (b : Buf) (o k flags : Nat) (hfit : b.size ≤ 65535) (ho : o ≤ b.size) :
    ∀ h ∈ (parseAllURIHdrs b o { hdrs := Array.replicate k {} } flags).2.2.2.hlist, HdrIn b h := by
  have hS := parseAllURIHdrs_safe b o { hdrs := Array.replicate k {} } flags ho (srHlIn_new o k)
  exact fun p hp => ucl_srTpGet_hdrIn (hS.out.mem_get hfit _ p hp)

/-! ### (1c) "no duplicate parameter" is "no two parameter NAMES equal up to letter case" -/

theorem ucl_ofLower_cases (s : List UInt8) (t : Nat) (ht : uriParamOfLower s = t) :
    (s = sTransport ∧ t = URIParamTransportF) ∨ (s = sLr ∧ t = URIParamLRF) ∨ (s = sMaddr ∧ t = URIParamMaddrF) ∨
    (s = sUser ∧ t = URIParamUserF) ∨ (s = sMethod ∧ t = URIParamMethodF) ∨ (s = sTtl ∧ t = URIParamTTLF) ∨
    t = URIParamOtherF := by
  unfold uriParamOfLower at ht
  by_cases h1 : s = sTransport
  · rw [if_pos h1] at ht; exact Or.inl ⟨h1, ht.symm⟩
  rw [if_neg h1] at ht
  by_cases h2 : s = sLr
  · rw [if_pos h2] at ht; exact Or.inr (Or.inl ⟨h2, ht.symm⟩)
  rw [if_neg h2] at ht
  by_cases h3 : s = sMaddr
  · rw [if_pos h3] at ht; exact Or.inr (Or.inr (Or.inl ⟨h3, ht.symm⟩))
  rw [if_neg h3] at ht
  by_cases h4 : s = sUser
  · rw [if_pos h4] at ht; exact Or.inr (Or.inr (Or.inr (Or.inl ⟨h4, ht.symm⟩)))
  rw [if_neg h4] at ht
  by_cases h5 : s = sMethod
  · rw [if_pos h5] at ht; exact Or.inr (Or.inr (Or.inr (Or.inr (Or.inl ⟨h5, ht.symm⟩))))
  rw [if_neg h5] at ht
  by_cases h6 : s = sTtl
  · rw [if_pos h6] at ht; exact Or.inr (Or.inr (Or.inr (Or.inr (Or.inr (Or.inl ⟨h6, ht.symm⟩)))))
  rw [if_neg h6] at ht
  exact Or.inr (Or.inr (Or.inr (Or.inr (Or.inr (Or.inr ht.symm)))))

/-- two lower-cased names of the same type other than `other` are the same name -/
theorem ucl_ofLower_inj {s s' : List UInt8} (h : uriParamOfLower s = uriParamOfLower s')
    (hne : uriParamOfLower s ≠ URIParamOtherF) : s = s' := by
  rcases ucl_ofLower_cases s _ rfl with ⟨a, ta⟩ | ⟨a, ta⟩ | ⟨a, ta⟩ | ⟨a, ta⟩ | ⟨a, ta⟩ | ⟨a, ta⟩ | ta <;>
  rcases ucl_ofLower_cases s' _ rfl with ⟨a', ta'⟩ | ⟨a', ta'⟩ | ⟨a', ta'⟩ | ⟨a', ta'⟩ | ⟨a', ta'⟩ | ⟨a', ta'⟩ | ta' <;>
  first
    | exact a.trans a'.symm
    | exact absurd ta hne
    | (rw [ta, ta'] at h; exact absurd h (by decide))

/-- for parameters classified by their names, "the same parameter" means "names equal up to letter case" -/
theorem ucl_pmatch_iff {b : Buf} {p q : URIParam} (hp : UclCls b p) (hq : UclCls b q) :
    PMatch b p b q ↔ FEq p.param.name b q.param.name b := by
  obtain ⟨np, hnp, htp⟩ := hp
  obtain ⟨nq, hnq, htq⟩ := hq
  constructor
  · rintro ⟨ht, ho⟩
    by_cases hot : p.t = URIParamOtherF
    · exact ho hot
    · refine ⟨np, nq, hnp, hnq, ?_⟩
      unfold CaseEq
      rw [htp, htq, uriParamResolve_lower, uriParamResolve_lower] at ht
      rw [htp, uriParamResolve_lower] at hot
      exact ucl_ofLower_inj ht hot
  · rintro ⟨x, y, hx, hy, hc⟩
    rw [hnp] at hx; rw [hnq] at hy; cases hx; cases hy
    refine ⟨?_, fun _ => ⟨np, nq, hnp, hnq, hc⟩⟩
    rw [htp, htq, uriParamResolve_lower, uriParamResolve_lower]
    unfold CaseEq at hc; rw [hc]

/-- a list of byte strings without two members equal up to ASCII letter case -/
def UclNoDupNames (l : List Buf) : Prop := l.Pairwise (fun a c => ¬ CaseEq a c)

instance (a c : Buf) : Decidable (CaseEq a c) := inferInstanceAs (Decidable (lowerL a.toList = lowerL c.toList))
instance (l : List Buf) : Decidable (UclNoDupNames l) :=
  inferInstanceAs (Decidable (l.Pairwise (fun a c => ¬ CaseEq a c)))

theorem ucl_srTpIn_name {b : Buf} {p : PTokParam} (h : SrTpIn b.size p) (hfit : b.size ≤ 65535) :
    p.name.get? b = some (nameOf b p) := by
  have := h.name
  unfold PField.inside at this
  exact field_get? b p.name.offs p.name.len this hfit

theorem ucl_feq_names {b : Buf} {p q : PTokParam} (hp : p.name.get? b = some (nameOf b p))
    (hq : q.name.get? b = some (nameOf b q)) : FEq p.name b q.name b ↔ CaseEq (nameOf b p) (nameOf b q) := by
  constructor
  · rintro ⟨x, y, hx, hy, hc⟩
    rw [hp] at hx; rw [hq] at hy; cases hx; cases hy; exact hc
  · intro hc; exact ⟨_, _, hp, hq, hc⟩

/-- the list-level statement: for a parameter list whose elements are classified by their (readable) names,
    `ParamsNoDup` (the side condition of the comparison laws) says exactly that no two names are equal up to case -/
theorem ucl_paramsNoDup_iff {b : Buf} {l : List URIParam} (hc : ∀ p ∈ l, UclCls b p)
    (hn : ∀ p ∈ l, p.param.name.get? b = some (nameOf b p.param)) :
    ParamsNoDup b l ↔ UclNoDupNames (l.map (fun p => nameOf b p.param)) := by
  unfold ParamsNoDup UclNoDupNames
  rw [List.pairwise_map]
  apply List.Pairwise.iff_of_mem
  intro p q hp hq
  rw [ucl_pmatch_iff (hc p hp) (hc q hq), ucl_feq_names (hn p hp) (hn q hq)]

theorem ucl_hdrsNoDup_iff {b : Buf} {l : List PTokParam} (hn : ∀ p ∈ l, p.name.get? b = some (nameOf b p)) :
    HdrsNoDup b l ↔ UclNoDupNames (l.map (nameOf b)) := by
  unfold HdrsNoDup UclNoDupNames
  rw [List.pairwise_map]
  apply List.Pairwise.iff_of_mem
  intro p q hp hq
  rw [ucl_feq_names (hn p hp) (hn q hq)]

/-! ### (2a) parameter / header STRINGS: the side conditions `ParamsWf` / `HdrsWf` from the text -/

/-- the names (as byte strings of the text) of the parameters URIParamsEq / URICmp extract from a parameter string -/
def uclParamNames (pb : Buf) : List Buf := (uriParamsParse pb 0).2.plist.map (fun p => nameOf pb p.param)

/-- the names of the headers URIHdrsEq / URICmp extract from a header string -/
def uclHdrNames (hb : Buf) : List Buf := (uriHdrsParse hb 0).2.hlist.map (nameOf hb)

theorem ucl_mem_hlist {l : URIHdrsLst} {p : PTokParam} :
    p ∈ l.hlist ↔ ∃ k, k < l.n ∧ k < l.hdrs.size ∧ l.hdrs[k]! = p := by
  unfold URIHdrsLst.hlist URIHdrsLst.hNo
  rw [List.mem_take_iff_getElem]
  constructor
  · rintro ⟨j, hj, rfl⟩
    have hj' : j < l.hdrs.size := by
      have := hj; simp only [Array.length_toList] at this; omega
    refine ⟨j, ?_, hj', ?_⟩
    · split at hj <;> omega
    · rw [getElem!_pos l.hdrs j hj', Array.getElem_toList]
  · rintro ⟨k, hk, hs, rfl⟩
    refine ⟨k, ?_, ?_⟩
    · simp only [Array.length_toList]; split <;> omega
    · rw [getElem!_pos l.hdrs k hs, Array.getElem_toList]

/-- what URIParamsEq's parse of a parameter string (any string within the size limit) guarantees: no panic, every
    stored parameter readable with its name being `nameOf`, and classified by its name -/
theorem ucl_paramsParse_facts (pb : Buf) (o : Nat) (hfit : pb.size ≤ 65535) (ho : o ≤ pb.size) :
    (uriParamsParse pb o).2.pnc = false ∧
    ∀ p ∈ (uriParamsParse pb o).2.plist,
      ParamIn pb p ∧ UclCls pb p ∧ p.param.name.get? pb = some (nameOf pb p.param) := by
  have hS := parseAllURIParams_safe pb o { params := Array.replicate 100 {} } (POptTokURIParamF ||| POptInputEndF) hfit ho
    (srPlIn_new o 100)
  have hI := parseAllURIParams_uclInv pb o { params := Array.replicate 100 {} } (POptTokURIParamF ||| POptInputEndF)
    (uclPlInv_new pb 100)
  refine ⟨hS.out.pnc, fun p hp => ?_⟩
  have hp' : p ∈ (parseAllURIParams pb o { params := Array.replicate 100 {} }
      (POptTokURIParamF ||| POptInputEndF)).2.2.2.plist := hp
  refine ⟨ucl_srTpGet_paramIn (hS.out.mem_get hfit _ p hp'), hI.mem_cls p hp', ?_⟩
  obtain ⟨k, _, hs, rfl⟩ := ucl_mem_plist.1 hp'
  exact ucl_srTpIn_name (hS.out.arr k hs) hfit

theorem ucl_hdrsParse_facts (hb : Buf) (o : Nat) (hfit : hb.size ≤ 65535) (ho : o ≤ hb.size) :
    ∀ p ∈ (uriHdrsParse hb o).2.hlist, HdrIn hb p ∧ p.name.get? hb = some (nameOf hb p) := by
  have hS := parseAllURIHdrs_safe hb o { hdrs := Array.replicate 100 {} } (POptTokURIHdrF ||| POptInputEndF) ho
    (srHlIn_new o 100)
  intro p hp
  have hp' : p ∈ (parseAllURIHdrs hb o { hdrs := Array.replicate 100 {} }
      (POptTokURIHdrF ||| POptInputEndF)).2.2.2.hlist := hp
  refine ⟨ucl_srTpGet_hdrIn (hS.out.mem_get hfit _ p hp'), ?_⟩
  obtain ⟨k, _, hs, rfl⟩ := ucl_mem_hlist.1 hp'
  exact ucl_srTpIn_name (hS.out.arr k hs) hfit

/-- for the parsed list of a parameter string, the side condition `ParamsNoDup` of the laws IS freedom from duplicate
    names in the text -/
theorem ucl_paramsNoDup_text (pb : Buf) (hfit : pb.size ≤ 65535) :
    ParamsNoDup pb (uriParamsParse pb 0).2.plist ↔ UclNoDupNames (uclParamNames pb) := by
  have h := (ucl_paramsParse_facts pb 0 hfit (Nat.zero_le _)).2
  exact ucl_paramsNoDup_iff (fun p hp => (h p hp).2.1) (fun p hp => (h p hp).2.2)

theorem ucl_hdrsNoDup_text (hb : Buf) (hfit : hb.size ≤ 65535) :
    HdrsNoDup hb (uriHdrsParse hb 0).2.hlist ↔ UclNoDupNames (uclHdrNames hb) := by
  have h := ucl_hdrsParse_facts hb 0 hfit (Nat.zero_le _)
  exact ucl_hdrsNoDup_iff (fun p hp => (h p hp).2)

/-- **every parameter string without duplicate names is well formed for comparison** (`ParamsWf`, the hypothesis of
    the symmetry / reflexivity laws): the no-panic and inside-the-string parts hold for EVERY string within the limit -/
theorem ucl_paramsWf (pb : Buf) (hfit : pb.size ≤ 65535)
    (hnd : errOkOrEOH (uriParamsParse pb 0).1 = true → UclNoDupNames (uclParamNames pb)) : ParamsWf pb 0 := by
  have h := ucl_paramsParse_facts pb 0 hfit (Nat.zero_le _)
  exact ⟨h.1, fun _ p hp => (h.2 p hp).1, fun hok => (ucl_paramsNoDup_text pb hfit).2 (hnd hok)⟩

/-- **every header string without duplicate names is well formed for comparison** (`HdrsWf`) -/
theorem ucl_hdrsWf (hb : Buf) (hfit : hb.size ≤ 65535)
    (hnd : errOkOrEOH (uriHdrsParse hb 0).1 = true → UclNoDupNames (uclHdrNames hb)) : HdrsWf hb 0 := by
  have h := ucl_hdrsParse_facts hb 0 hfit (Nat.zero_le _)
  exact ⟨fun _ p hp => (h p hp).1, fun hok => (ucl_hdrsNoDup_text hb hfit).2 (hnd hok)⟩

/-! ### (2b) raw URIs: the side conditions `URIWf` / `URIGood` for everything ParseURI accepts -/

/-- the slice of the buffer a field designates -/
def uclSeg (b : Buf) (f : PField) : Buf := b.extract f.offs (f.offs + f.len)

/-- every component of a URI accepted by ParseURI reads back as the slice `[offs, offs + len)` of the string -/
theorem ucl_parse_get (raw : Buf) (hfit : raw.size ≤ 65535) (hacc : (parseURI raw {}).1 = .none) :
    ∀ f ∈ [(parseURI raw {}).2.2.1.scheme, (parseURI raw {}).2.2.1.user, (parseURI raw {}).2.2.1.pass,
        (parseURI raw {}).2.2.1.host, (parseURI raw {}).2.2.1.port, (parseURI raw {}).2.2.1.params,
        (parseURI raw {}).2.2.1.headers], f.get? raw = some (uclSeg raw f) := by
  obtain ⟨_, t, k, u0, hk, hl, hty, hu⟩ := (parseURI_ok raw hfit).2.2 hacc
  have hk0 : 0 < k := by rcases hk with ⟨_, rfl, _⟩ | ⟨_, rfl, _⟩ | ⟨_, rfl, _⟩ <;> decide
  have hg := hl.get hk0 hfit
  rw [hu]
  intro f hf
  by_cases ht : t = TELuri
  · rw [if_pos ht] at hf
    simp only [telSwap, List.mem_cons, List.not_mem_nil, or_false] at hf
    rcases hf with rfl | rfl | rfl | rfl | rfl | rfl | rfl
    · exact hg _ (by simp)
    · exact hg _ (by simp)
    · exact hg _ (by simp)
    · exact field_get? raw 0 0 (Nat.zero_le _) hfit
    · exact hg _ (by simp)
    · exact hg _ (by simp)
    · exact hg _ (by simp)
  · rw [if_neg ht] at hf
    exact hg f hf

/-- the parameter string of a raw URI (the bytes between the first `;` after the host part and the `?` or the end),
    as ParseURI delimits it -/
def uclParamsText (raw : Buf) : Buf := uclSeg raw (parseURI raw {}).2.2.1.params

/-- the header string of a raw URI (the bytes after the `?`), as ParseURI delimits it -/
def uclHdrsText (raw : Buf) : Buf := uclSeg raw (parseURI raw {}).2.2.1.headers

theorem uclSeg_size_le (b : Buf) (f : PField) : (uclSeg b f).size ≤ b.size := by
  unfold uclSeg
  simp only [Array.size_extract]
  omega

/-- the parameter and header lists of the raw URI are well formed: ParseAllURIParams / ParseAllURIHdrs (as called
    by URICmp: end of input flagged) accept them -/
structure UclListsOk (raw : Buf) : Prop where
  params : errOkOrEOH (uriParamsParse (uclParamsText raw) 0).1 = true
  headers : errOkOrEOH (uriHdrsParse (uclHdrsText raw) 0).1 = true

/-- the parameter and header lists of the raw URI are free of duplicate names: no two parameter names and no two
    header names (byte strings of the text) are equal up to ASCII letter case.  Only lists that parse are
    constrained. -/
structure UclNoDup (raw : Buf) : Prop where
  params : errOkOrEOH (uriParamsParse (uclParamsText raw) 0).1 = true → UclNoDupNames (uclParamNames (uclParamsText raw))
  headers : errOkOrEOH (uriHdrsParse (uclHdrsText raw) 0).1 = true → UclNoDupNames (uclHdrNames (uclHdrsText raw))

instance (raw : Buf) : Decidable (UclListsOk raw) :=
  decidable_of_iff (errOkOrEOH (uriParamsParse (uclParamsText raw) 0).1 = true ∧
    errOkOrEOH (uriHdrsParse (uclHdrsText raw) 0).1 = true) ⟨fun ⟨a, b⟩ => ⟨a, b⟩, fun ⟨a, b⟩ => ⟨a, b⟩⟩

instance (raw : Buf) : Decidable (UclNoDup raw) :=
  decidable_of_iff ((errOkOrEOH (uriParamsParse (uclParamsText raw) 0).1 = true →
      UclNoDupNames (uclParamNames (uclParamsText raw))) ∧
    (errOkOrEOH (uriHdrsParse (uclHdrsText raw) 0).1 = true → UclNoDupNames (uclHdrNames (uclHdrsText raw))))
    ⟨fun ⟨a, b⟩ => ⟨a, b⟩, fun ⟨a, b⟩ => ⟨a, b⟩⟩

/-- **every URI ParseURI accepts (sip, sips, tel; at most 65,535 bytes) whose parameter and header names are free of
    duplicates is well formed for comparison** (`URIWf`, the hypothesis of the symmetry law) -/
theorem ucl_uriWf (raw : Buf) (hfit : raw.size ≤ 65535) (hacc : (parseURI raw {}).1 = .none) (hnd : UclNoDup raw) :
    URIWf (parseURI raw {}).2.2.1 raw := by
  have hg := ucl_parse_get raw hfit hacc
  have hsome : ∀ {f : PField} {x : Buf}, f.get? raw = some x → (f.get? raw).isSome := fun h => by rw [h]; rfl
  refine ⟨hsome (hg _ (by simp)), hsome (hg _ (by simp)), hsome (hg _ (by simp)),
    ⟨uclParamsText raw, hg _ (by simp), ?_⟩, ⟨uclHdrsText raw, hg _ (by simp), ?_⟩⟩
  · exact ucl_paramsWf _ (by have := uclSeg_size_le raw (parseURI raw {}).2.2.1.params; unfold uclParamsText; omega)
      hnd.params
  · exact ucl_hdrsWf _ (by have := uclSeg_size_le raw (parseURI raw {}).2.2.1.headers; unfold uclHdrsText; omega)
      hnd.headers

/-- … and if moreover its parameter and header lists are well formed, it satisfies `URIGood`, the hypothesis of the
    reflexivity law -/
theorem ucl_uriGood (raw : Buf) (hfit : raw.size ≤ 65535) (hacc : (parseURI raw {}).1 = .none) (hok : UclListsOk raw)
    (hnd : UclNoDup raw) : URIGood (parseURI raw {}).2.2.1 raw := by
  have w := ucl_uriWf raw hfit hacc hnd
  have hg := ucl_parse_get raw hfit hacc
  obtain ⟨pb, hpb, wp⟩ := w.params
  obtain ⟨hb, hhb, wh⟩ := w.headers
  have e1 : pb = uclParamsText raw := by
    have := hg (parseURI raw {}).2.2.1.params (by simp)
    rw [hpb] at this; cases this; rfl
  have e2 : hb = uclHdrsText raw := by
    have := hg (parseURI raw {}).2.2.1.headers (by simp)
    rw [hhb] at this; cases this; rfl
  subst e1; subst e2
  exact ⟨w.user, w.pass, w.host, ⟨_, hpb, wp, hok.params⟩, ⟨_, hhb, wh, hok.headers⟩⟩

theorem ucl_parse_eq (raw : Buf) (hfit : raw.size ≤ 65535) (hacc : (parseURI raw {}).1 = .none) :
    parseURI raw {} = (UErr.none, (parseURI raw {}).2.1, (parseURI raw {}).2.2.1, false) := by
  have h2 := (parseURI_ok raw hfit).2.1
  rcases hp : parseURI raw {} with ⟨e, n, u, c⟩
  rw [hp] at hacc h2
  simp only at hacc h2
  rw [hacc, h2]

/-- **REFLEXIVITY for the raw-string entry point**: every raw URI of at most 65,535 bytes that ParseURI accepts, whose
    parameter and header lists are well formed and free of duplicate names, is equal to itself under every flag
    value; URIParseCmp reports no error and hands back the parsed URI twice. -/
theorem uriParseCmp_refl_raw (raw : Buf) (f : Nat) (hfit : raw.size ≤ 65535) (hacc : (parseURI raw {}).1 = .none)
    (hok : UclListsOk raw) (hnd : UclNoDup raw) :
    uriParseCmp raw raw f =
      some (true, UErr.none, 0, some (parseURI raw {}).2.2.1, some (parseURI raw {}).2.2.1) := by
  have hp := ucl_parse_eq raw hfit hacc
  rw [uriParseCmp_ok raw raw f hp hp, uriCmp_refl _ raw f (ucl_uriGood raw hfit hacc hok hnd)]
  rfl

/-- … and the same for URICmp on the parsed URI -/
theorem uriCmp_refl_parsed (raw : Buf) (f : Nat) (hfit : raw.size ≤ 65535) (hacc : (parseURI raw {}).1 = .none)
    (hok : UclListsOk raw) (hnd : UclNoDup raw) :
    uriCmp (parseURI raw {}).2.2.1 raw (parseURI raw {}).2.2.1 raw f = some true :=
  uriCmp_refl _ raw f (ucl_uriGood raw hfit hacc hok hnd)

/-- **SYMMETRY of URICmp on parsed URIs**: any two accepted raw URIs (at most 65,535 bytes each) free of duplicate
    parameter / header names, every flag value; the parameter / header lists need not be well formed, and a panic
    (`none`) would be symmetric too -/
theorem uriCmp_symm_parsed (raw1 raw2 : Buf) (f : Nat) (hfit1 : raw1.size ≤ 65535) (hfit2 : raw2.size ≤ 65535)
    (hacc1 : (parseURI raw1 {}).1 = .none) (hacc2 : (parseURI raw2 {}).1 = .none)
    (hnd1 : UclNoDup raw1) (hnd2 : UclNoDup raw2) :
    uriCmp (parseURI raw1 {}).2.2.1 raw1 (parseURI raw2 {}).2.2.1 raw2 f =
      uriCmp (parseURI raw2 {}).2.2.1 raw2 (parseURI raw1 {}).2.2.1 raw1 f :=
  uriCmp_symm _ raw1 _ raw2 f (ucl_uriWf raw1 hfit1 hacc1 hnd1) (ucl_uriWf raw2 hfit2 hacc2 hnd2)

/-- **SYMMETRY for the raw-string entry point**: for ANY two byte strings of at most 65,535 bytes (accepted by
    ParseURI or not) the verdict of URIParseCmp does not depend on the order of the arguments, provided the accepted
    ones are free of duplicate parameter / header names -/
theorem uriParseCmp_symm_raw (raw1 raw2 : Buf) (f : Nat) (hfit1 : raw1.size ≤ 65535) (hfit2 : raw2.size ≤ 65535)
    (hnd1 : (parseURI raw1 {}).1 = .none → UclNoDup raw1) (hnd2 : (parseURI raw2 {}).1 = .none → UclNoDup raw2) :
    (uriParseCmp raw1 raw2 f).map (·.1) = (uriParseCmp raw2 raw1 f).map (·.1) := by
  have p1 := (parseURI_ok raw1 hfit1).2.1
  have p2 := (parseURI_ok raw2 hfit2).2.1
  rw [uriParseCmp_eq, uriParseCmp_eq]
  simp only [p1, p2, Bool.false_eq_true, ↓reduceIte]
  by_cases c1 : (parseURI raw1 {}).1 = UErr.none
  · by_cases c2 : (parseURI raw2 {}).1 = UErr.none
    · have b1 : ((parseURI raw1 {}).1 != UErr.none) = false := by rw [c1]; rfl
      have b2 : ((parseURI raw2 {}).1 != UErr.none) = false := by rw [c2]; rfl
      simp only [b1, b2, Bool.false_eq_true, ↓reduceIte]
      rw [uriCmp_symm_parsed raw1 raw2 f hfit1 hfit2 c1 c2 (hnd1 c1) (hnd2 c2)]
      simp only [Option.map_map]
      rfl
    · have b1 : ((parseURI raw1 {}).1 != UErr.none) = false := by rw [c1]; rfl
      have b2 : ((parseURI raw2 {}).1 != UErr.none) = true := by simpa using c2
      simp only [b1, b2, Bool.false_eq_true, ↓reduceIte, Option.map_some]
  · have b1 : ((parseURI raw1 {}).1 != UErr.none) = true := by simpa using c1
    by_cases c2 : (parseURI raw2 {}).1 = UErr.none
    · have b2 : ((parseURI raw2 {}).1 != UErr.none) = false := by rw [c2]; rfl
      simp only [b1, b2, Bool.false_eq_true, ↓reduceIte, Option.map_some]
    · have b2 : ((parseURI raw2 {}).1 != UErr.none) = true := by simpa using c2
      simp only [b1, b2, ↓reduceIte, Option.map_some]

/-- … with the complete results when both are accepted: same verdict, no error, the two parsed URIs handed back in the
    order of the arguments -/
theorem uriParseCmp_symm_full (raw1 raw2 : Buf) (f : Nat) (hfit1 : raw1.size ≤ 65535) (hfit2 : raw2.size ≤ 65535)
    (hacc1 : (parseURI raw1 {}).1 = .none) (hacc2 : (parseURI raw2 {}).1 = .none)
    (hnd1 : UclNoDup raw1) (hnd2 : UclNoDup raw2) :
    ∃ r, uriParseCmp raw1 raw2 f = some (r, UErr.none, 0, some (parseURI raw1 {}).2.2.1, some (parseURI raw2 {}).2.2.1) ∧
      uriParseCmp raw2 raw1 f = some (r, UErr.none, 0, some (parseURI raw2 {}).2.2.1, some (parseURI raw1 {}).2.2.1) := by
  have h1 := ucl_parse_eq raw1 hfit1 hacc1
  have h2 := ucl_parse_eq raw2 hfit2 hacc2
  obtain ⟨r, hr⟩ := uriCmp_some _ raw1 _ raw2 f hfit1 hfit2 (srUriGet_parse raw1 hfit1 hacc1) (srUriGet_parse raw2 hfit2 hacc2)
  refine ⟨r, ?_, ?_⟩
  · rw [uriParseCmp_ok raw1 raw2 f h1 h2, hr]; rfl
  · rw [uriParseCmp_ok raw2 raw1 f h2 h1, ← uriCmp_symm_parsed raw1 raw2 f hfit1 hfit2 hacc1 hacc2 hnd1 hnd2, hr]; rfl

/-! ### (3) ParseURI does not look at the letter case of any byte -/

def uclIsLetter (c : UInt8) : Bool := (65 ≤ c && c ≤ 90) || (97 ≤ c && c ≤ 122)

theorem ucl_lowerB_letter_nat : ∀ a, a < 256 →
    (uclIsLetter (UInt8.ofNat a) = false → lowerB (UInt8.ofNat a) = UInt8.ofNat a) ∧
    (uclIsLetter (UInt8.ofNat a) = true → uclIsLetter (lowerB (UInt8.ofNat a)) = true ∧
      UInt8.ofNat a ||| 0x20 = lowerB (UInt8.ofNat a)) := by
  decide +kernel

theorem ucl_lowerB_letter (c : UInt8) :
    (uclIsLetter c = false → lowerB c = c) ∧
    (uclIsLetter c = true → uclIsLetter (lowerB c) = true ∧ c ||| 0x20 = lowerB c) := by
  have := ucl_lowerB_letter_nat c.toNat (UInt8.toNat_lt c)
  simpa using this

/-- two bytes with the same lower-case form are equal or both ASCII letters -/
theorem ucl_lowerB_eq {c d : UInt8} (h : lowerB c = lowerB d) :
    c = d ∨ (uclIsLetter c = true ∧ uclIsLetter d = true) := by
  cases hc : uclIsLetter c <;> cases hd : uclIsLetter d
  · left
    rw [← (ucl_lowerB_letter c).1 hc, ← (ucl_lowerB_letter d).1 hd, h]
  · have h1 := ((ucl_lowerB_letter d).2 hd).1
    rw [← h, (ucl_lowerB_letter c).1 hc, hc] at h1
    cases h1
  · have h1 := ((ucl_lowerB_letter c).2 hc).1
    rw [h, (ucl_lowerB_letter d).1 hd, hd] at h1
    cases h1
  · exact Or.inr ⟨rfl, rfl⟩

theorem ucl_letter_nat : ∀ a, a < 256 → uclIsLetter (UInt8.ofNat a) = true →
    (UInt8.ofNat a == 91) = false ∧ (UInt8.ofNat a == 58) = false ∧ (UInt8.ofNat a == 93) = false ∧
    (UInt8.ofNat a == 64) = false ∧ (UInt8.ofNat a == 59) = false ∧ (UInt8.ofNat a == 63) = false ∧
    (UInt8.ofNat a == 38) = false ∧ isDigit (UInt8.ofNat a) = false := by
  decide +kernel

/-- the URI automaton treats all letters alike: none of its tests singles out a letter -/
theorem ucl_letter_facts {c : UInt8} (h : uclIsLetter c = true) :
    (c == 91) = false ∧ (c == 58) = false ∧ (c == 93) = false ∧ (c == 64) = false ∧ (c == 59) = false ∧
    (c == 63) = false ∧ (c == 38) = false ∧ isDigit c = false := by
  have := ucl_letter_nat c.toNat (UInt8.toNat_lt c) (by simpa using h)
  simpa using this

theorem uriStep_letter (i : Nat) (c d : UInt8) (σ : UState) (hc : uclIsLetter c = true) (hd : uclIsLetter d = true) :
    uriStep i c σ = uriStep i d σ := by
  obtain ⟨c1, c2, c3, c4, c5, c6, c7, c8⟩ := ucl_letter_facts hc
  obtain ⟨d1, d2, d3, d4, d5, d6, d7, d8⟩ := ucl_letter_facts hd
  unfold uriStep
  simp only [c1, c2, c3, c4, c5, c6, c7, c8, d1, d2, d3, d4, d5, d6, d7, d8, Bool.false_eq_true, ↓reduceIte, Bool.or_self]

/-- one step of ParseURI's automaton gives the same result on two bytes that differ at most in letter case -/
theorem uriStep_case (i : Nat) (c d : UInt8) (σ : UState) (h : lowerB c = lowerB d) : uriStep i c σ = uriStep i d σ := by
  rcases ucl_lowerB_eq h with rfl | ⟨hc, hd⟩
  · rfl
  · exact uriStep_letter i c d σ hc hd

/-- `b'` is `b` with some letters written in the other case, position by position -/
def UclCaseVar (b b' : Buf) : Prop := ∀ j : Nat, (b'[j]?).map lowerB = (b[j]?).map lowerB

theorem UclCaseVar.get_none {b b' : Buf} (h : UclCaseVar b b') {j : Nat} (hb : b[j]? = none) : b'[j]? = none := by
  have := h j; rw [hb] at this; simpa using this

theorem UclCaseVar.get_some {b b' : Buf} (h : UclCaseVar b b') {j : Nat} {c : UInt8} (hb : b[j]? = some c) :
    ∃ c', b'[j]? = some c' ∧ lowerB c' = lowerB c := by
  have := h j; rw [hb] at this
  rcases hb' : b'[j]? with _ | c'
  · rw [hb'] at this; cases this
  · rw [hb'] at this; exact ⟨c', rfl, by simpa using this⟩

theorem UclCaseVar.size {b b' : Buf} (h : UclCaseVar b b') : b'.size = b.size := by
  rcases Nat.lt_trichotomy b'.size b.size with hlt | heq | hgt
  · have h1 : b'[b'.size]? = none := Array.getElem?_eq_none (Nat.le_refl _)
    have h2 := h b'.size
    rw [h1, Array.getElem?_eq_getElem hlt] at h2; cases h2
  · exact heq
  · have h1 : b[b.size]? = none := Array.getElem?_eq_none (Nat.le_refl _)
    have h2 := h b.size
    rw [h1, Array.getElem?_eq_getElem hgt] at h2; cases h2

theorem UclCaseVar.of_caseEq {b b' : Buf} (h : CaseEq b b') : UclCaseVar b b' := by
  intro j
  unfold CaseEq lowerL at h
  have := congrArg (fun l => l[j]?) h
  simp only [List.getElem?_map, Array.getElem?_toList] at this
  exact this.symm

theorem UclCaseVar.caseEq {b b' : Buf} (h : UclCaseVar b b') : CaseEq b b' := by
  unfold CaseEq lowerL
  apply List.ext_getElem?
  intro j
  simp only [List.getElem?_map, Array.getElem?_toList]
  exact (h j).symm

theorem uriLoop_case (b b' : Buf) (h : UclCaseVar b b') : ∀ (i : Nat) (σ : UState), uriLoop b' i σ = uriLoop b i σ := by
  intro i σ
  fun_induction uriLoop b i σ with
  | case1 i σ hb =>
    rw [uriLoop]
    split
    · rfl
    · rename_i c hc
      rw [h.get_none hb] at hc; cases hc
  | case2 i σ c hb σ' hs ih =>
    obtain ⟨c', hc', hl⟩ := h.get_some hb
    rw [uriLoop]
    split
    · rename_i hc
      rw [hc'] at hc; cases hc
    · rename_i c'' hc
      rw [hc'] at hc; cases hc
      rw [uriStep_case i c' c σ hl]
      simp only [hs]
      exact ih
  | case3 i σ c hb e p σ' hs =>
    obtain ⟨c', hc', hl⟩ := h.get_some hb
    rw [uriLoop]
    split
    · rename_i hc
      rw [hc'] at hc; cases hc
    · rename_i c'' hc
      rw [hc'] at hc; cases hc
      rw [uriStep_case i c' c σ hl]
      simp only [hs]

theorem ucl_or20 {c d : UInt8} (h : lowerB c = lowerB d) : c ||| 0x20 = d ||| 0x20 := by
  rcases ucl_lowerB_eq h with rfl | ⟨hc, hd⟩
  · rfl
  · rw [((ucl_lowerB_letter c).2 hc).2, ((ucl_lowerB_letter d).2 hd).2, h]

/-- **LETTER CASE, ParseURI**: ParseURI returns the same result (verdict, position, all component offsets and
    lengths, port number) on two byte strings that differ only in the case of ASCII letters — anywhere: scheme, user,
    host, parameters, headers. -/
theorem parseURI_case (raw raw' : Buf) (pu : PsipURI) (h : UclCaseVar raw raw') : parseURI raw' pu = parseURI raw pu := by
  have hsz := h.size
  by_cases hlen : 5 ≤ raw.size
  · have g : ∀ j, j < 5 → ∃ c, raw[j]? = some c := fun j hj =>
      ⟨raw[j]'(by omega), Array.getElem?_eq_getElem (by omega)⟩
    obtain ⟨c0, hc0⟩ := g 0 (by omega)
    obtain ⟨c1, hc1⟩ := g 1 (by omega)
    obtain ⟨c2, hc2⟩ := g 2 (by omega)
    obtain ⟨c3, hc3⟩ := g 3 (by omega)
    obtain ⟨c4, hc4⟩ := g 4 (by omega)
    obtain ⟨a0, ha0, l0⟩ := h.get_some hc0
    obtain ⟨a1, ha1, l1⟩ := h.get_some hc1
    obtain ⟨a2, ha2, l2⟩ := h.get_some hc2
    obtain ⟨a3, ha3, l3⟩ := h.get_some hc3
    obtain ⟨a4, ha4, l4⟩ := h.get_some hc4
    have hs := sch_congr (ucl_or20 l0) (ucl_or20 l1) (ucl_or20 l2) (ucl_or20 l3)
    have h58 : (a4 == 58) = (c4 == 58) := by
      rcases ucl_lowerB_eq l4 with rfl | ⟨x, y⟩
      · rfl
      · rw [(ucl_letter_facts x).2.1, (ucl_letter_facts y).2.1]
    have lp : ∀ k σ, uriLoop raw' k σ = uriLoop raw k σ := uriLoop_case raw raw' h
    unfold parseURI
    simp only [hc0, hc1, hc2, hc3, hc4, ha0, ha1, ha2, ha3, ha4, hs, h58, lp]
  · have n4 : raw[4]? = none := Array.getElem?_eq_none (by omega)
    have n4' : raw'[4]? = none := Array.getElem?_eq_none (by omega)
    unfold parseURI
    rw [n4, n4', hsz]
    rcases raw[0]? with _ | _ <;> rcases raw[1]? with _ | _ <;> rcases raw[2]? with _ | _ <;>
      rcases raw[3]? with _ | _ <;> rcases raw'[0]? with _ | _ <;> rcases raw'[1]? with _ | _ <;>
      rcases raw'[2]? with _ | _ <;> rcases raw'[3]? with _ | _ <;> rfl

/-! ### (3b) letter case of the host: URIParseCmp on raw strings that differ only there -/

theorem ucl_seg_congr {b b' : Buf} (hsz : b'.size = b.size) (f : PField)
    (h : ∀ j, f.offs ≤ j → j < f.offs + f.len → b'[j]? = b[j]?) : uclSeg b' f = uclSeg b f := by
  unfold uclSeg
  apply Array.ext_getElem?
  intro i
  rw [Array.getElem?_extract, Array.getElem?_extract, hsz]
  by_cases hi : i < min (f.offs + f.len) b.size - f.offs
  · simp only [hi, ↓reduceIte]; exact h _ (by omega) (by omega)
  · simp only [hi, ↓reduceIte]

theorem ucl_seg_caseEq {b b' : Buf} (h : UclCaseVar b b') (f : PField) : CaseEq (uclSeg b' f) (uclSeg b f) := by
  have hsz := h.size
  apply UclCaseVar.caseEq
  intro i
  unfold uclSeg
  rw [Array.getElem?_extract, Array.getElem?_extract, hsz]
  by_cases hi : i < min (f.offs + f.len) b.size - f.offs
  · simp only [hi, ↓reduceIte]; exact (h _).symm
  · simp only [hi, ↓reduceIte]

/-- user and password lie before the host, parameters and headers after it (or are empty) -/
theorem ucl_layout_disj {b : Buf} {k : Nat} {u : PsipURI} (h : URILayout b k u) :
    u.user.offs + u.user.len ≤ u.host.offs ∧ u.pass.offs + u.pass.len ≤ u.host.offs ∧
    (u.params.len = 0 ∨ u.host.offs + u.host.len ≤ u.params.offs) ∧
    (u.headers.len = 0 ∨ u.host.offs + u.host.len ≤ u.headers.offs) := by
  obtain ⟨hsch, hup, hhl, h1, h2, h3, hend⟩ := h
  have a0 := hup.arith
  have a1 := h1.arith
  have a2 := h2.arith
  have a3 := h3.arith
  generalize uafter (k + u.user.len) u.pass = q0 at a0
  generalize uafter (uafter (uafter (u.host.offs + u.host.len) u.port) u.params) u.headers = q3 at a3 hend
  generalize uafter (uafter (u.host.offs + u.host.len) u.port) u.params = q2 at a2 a3
  generalize uafter (u.host.offs + u.host.len) u.port = q1 at a1 a2
  refine ⟨by omega, by omega, by omega, by omega⟩

/-- in an accepted URI the bytes of user, password, parameter string and header string lie outside the host -/
theorem ucl_parse_disj (raw : Buf) (hfit : raw.size ≤ 65535) (hacc : (parseURI raw {}).1 = .none) :
    ∀ f ∈ [(parseURI raw {}).2.2.1.user, (parseURI raw {}).2.2.1.pass, (parseURI raw {}).2.2.1.params,
        (parseURI raw {}).2.2.1.headers], ∀ j, f.offs ≤ j → j < f.offs + f.len →
      j < (parseURI raw {}).2.2.1.host.offs ∨
        (parseURI raw {}).2.2.1.host.offs + (parseURI raw {}).2.2.1.host.len ≤ j := by
  obtain ⟨_, t, k, u0, hk, hl, hty, hu⟩ := (parseURI_ok raw hfit).2.2 hacc
  have hk0 : 0 < k := by rcases hk with ⟨_, rfl, _⟩ | ⟨_, rfl, _⟩ | ⟨_, rfl, _⟩ <;> decide
  rw [hu]
  intro f hf j hj1 hj2
  by_cases ht : t = TELuri
  · rw [if_pos ht]
    right
    show (0 : Nat) + 0 ≤ j
    omega
  · rw [if_neg ht] at hf ⊢
    obtain ⟨d1, d2, d3, d4⟩ := ucl_layout_disj hl
    simp only [List.mem_cons, List.not_mem_nil, or_false] at hf
    rcases hf with rfl | rfl | rfl | rfl <;> omega

/-- `raw'` is `raw` with the letter case of some bytes of the HOST changed (the host as ParseURI delimits it in
    `raw`) and nothing else: equal up to case everywhere, identical before and after the host -/
structure UclHostCaseVariant (raw raw' : Buf) : Prop where
  caseEq : CaseEq raw raw'
  before : raw'.toList.take (parseURI raw {}).2.2.1.host.offs = raw.toList.take (parseURI raw {}).2.2.1.host.offs
  after : raw'.toList.drop ((parseURI raw {}).2.2.1.host.offs + (parseURI raw {}).2.2.1.host.len) =
    raw.toList.drop ((parseURI raw {}).2.2.1.host.offs + (parseURI raw {}).2.2.1.host.len)

instance (raw raw' : Buf) : Decidable (UclHostCaseVariant raw raw') :=
  decidable_of_iff (CaseEq raw raw' ∧
    raw'.toList.take (parseURI raw {}).2.2.1.host.offs = raw.toList.take (parseURI raw {}).2.2.1.host.offs ∧
    raw'.toList.drop ((parseURI raw {}).2.2.1.host.offs + (parseURI raw {}).2.2.1.host.len) =
      raw.toList.drop ((parseURI raw {}).2.2.1.host.offs + (parseURI raw {}).2.2.1.host.len))
    ⟨fun ⟨a, b, c⟩ => ⟨a, b, c⟩, fun ⟨a, b, c⟩ => ⟨a, b, c⟩⟩

theorem UclHostCaseVariant.outside {raw raw' : Buf} (v : UclHostCaseVariant raw raw') (j : Nat)
    (hj : j < (parseURI raw {}).2.2.1.host.offs ∨
      (parseURI raw {}).2.2.1.host.offs + (parseURI raw {}).2.2.1.host.len ≤ j) : raw'[j]? = raw[j]? := by
  rcases hj with hj | hj
  · have := congrArg (fun l => l[j]?) v.before
    simp only [List.getElem?_take, hj, ↓reduceIte, Array.getElem?_toList] at this
    exact this
  · have e : ∀ (b : Buf), b[j]? = (b.toList.drop ((parseURI raw {}).2.2.1.host.offs +
        (parseURI raw {}).2.2.1.host.len))[j - ((parseURI raw {}).2.2.1.host.offs +
        (parseURI raw {}).2.2.1.host.len)]? := by
      intro b
      rw [List.getElem?_drop, Array.getElem?_toList]
      congr 1
      omega
    rw [e raw, e raw', v.after]

/-- what URICmp reads from an accepted URI is unchanged by a host-case variant, except the host, which changes only
    in letter case -/
theorem ucl_host_variant_get (raw raw' : Buf) (hfit : raw.size ≤ 65535) (hacc : (parseURI raw {}).1 = .none)
    (v : UclHostCaseVariant raw raw') :
    (parseURI raw {}).2.2.1.user.get? raw' = (parseURI raw {}).2.2.1.user.get? raw ∧
    (parseURI raw {}).2.2.1.pass.get? raw' = (parseURI raw {}).2.2.1.pass.get? raw ∧
    (parseURI raw {}).2.2.1.params.get? raw' = (parseURI raw {}).2.2.1.params.get? raw ∧
    (parseURI raw {}).2.2.1.headers.get? raw' = (parseURI raw {}).2.2.1.headers.get? raw ∧
    FEq (parseURI raw {}).2.2.1.host raw' (parseURI raw {}).2.2.1.host raw := by
  have hv := UclCaseVar.of_caseEq v.caseEq
  have hsz := hv.size
  have hp' : parseURI raw' {} = parseURI raw {} := parseURI_case raw raw' {} hv
  have g := ucl_parse_get raw hfit hacc
  have g' := ucl_parse_get raw' (by omega) (by rw [hp']; exact hacc)
  rw [hp'] at g'
  have hd := ucl_parse_disj raw hfit hacc
  have key : ∀ f ∈ [(parseURI raw {}).2.2.1.user, (parseURI raw {}).2.2.1.pass, (parseURI raw {}).2.2.1.params,
      (parseURI raw {}).2.2.1.headers], uclSeg raw' f = uclSeg raw f := fun f hf =>
    ucl_seg_congr hsz f (fun j h1 h2 => v.outside j (hd f hf j h1 h2))
  refine ⟨?_, ?_, ?_, ?_, ?_⟩
  · rw [g' _ (by simp), g _ (by simp), key _ (by simp)]
  · rw [g' _ (by simp), g _ (by simp), key _ (by simp)]
  · rw [g' _ (by simp), g _ (by simp), key _ (by simp)]
  · rw [g' _ (by simp), g _ (by simp), key _ (by simp)]
  · exact ⟨_, _, g' _ (by simp), g _ (by simp), ucl_seg_caseEq hv _⟩

/-- URICmp depends on the buffers only through the five components it reads, and on the host only up to case -/
theorem ucl_uriCmp_get_congr (u1 : PsipURI) (b1 b1' : Buf) (u2 : PsipURI) (b2 b2' : Buf) (f : Nat)
    (h1 : u1.user.get? b1' = u1.user.get? b1 ∧ u1.pass.get? b1' = u1.pass.get? b1 ∧
      u1.params.get? b1' = u1.params.get? b1 ∧ u1.headers.get? b1' = u1.headers.get? b1 ∧ FEq u1.host b1' u1.host b1)
    (h2 : u2.user.get? b2' = u2.user.get? b2 ∧ u2.pass.get? b2' = u2.pass.get? b2 ∧
      u2.params.get? b2' = u2.params.get? b2 ∧ u2.headers.get? b2' = u2.headers.get? b2 ∧ FEq u2.host b2' u2.host b2) :
    uriCmp u1 b1' u2 b2' f = uriCmp u1 b1 u2 b2 f := by
  rw [uriCmp_eq, uriCmp_eq, uriCmpShort_congr u1 b1' u1 b1 u2 b2' u2 b2 f ⟨rfl, rfl, h1.1, h1.2.1, h1.2.2.2.2⟩
    ⟨rfl, rfl, h2.1, h2.2.1, h2.2.2.2.2⟩]
  have hp : uriCmpParamsPart u1 b1' u2 b2' = uriCmpParamsPart u1 b1 u2 b2 := by
    unfold uriCmpParamsPart; rw [h1.2.2.1, h2.2.2.1]
  have hh : uriCmpHdrsPart u1 b1' u2 b2' = uriCmpHdrsPart u1 b1 u2 b2 := by
    unfold uriCmpHdrsPart; rw [h1.2.2.2.1, h2.2.2.2.1]
  rw [hp, hh]

/-- **HOST LETTER CASE for the raw-string entry point**: for ANY two byte strings of at most 65,535 bytes, the
    complete result of URIParseCmp (verdict, error, index, both parsed URIs) is unchanged when the letter case of
    host bytes of either string is changed — no condition on duplicates or on the lists being well formed. -/
theorem uriParseCmp_host_case (raw1 raw1' raw2 raw2' : Buf) (f : Nat) (hfit1 : raw1.size ≤ 65535)
    (hfit2 : raw2.size ≤ 65535) (v1 : UclHostCaseVariant raw1 raw1') (v2 : UclHostCaseVariant raw2 raw2') :
    uriParseCmp raw1' raw2' f = uriParseCmp raw1 raw2 f := by
  rw [uriParseCmp_eq, uriParseCmp_eq, parseURI_case raw1 raw1' {} (UclCaseVar.of_caseEq v1.caseEq),
    parseURI_case raw2 raw2' {} (UclCaseVar.of_caseEq v2.caseEq)]
  by_cases c1 : (parseURI raw1 {}).1 = UErr.none
  · by_cases c2 : (parseURI raw2 {}).1 = UErr.none
    · rw [ucl_uriCmp_get_congr _ raw1 raw1' _ raw2 raw2' f (ucl_host_variant_get raw1 raw1' hfit1 c1 v1)
        (ucl_host_variant_get raw2 raw2' hfit2 c2 v2)]
    · have b2 : ((parseURI raw2 {}).1 != UErr.none) = true := by simpa using c2
      simp only [b2, ↓reduceIte]
  · have b1 : ((parseURI raw1 {}).1 != UErr.none) = true := by simpa using c1
    simp only [b1, ↓reduceIte]

/-! ### (4) the parameter / header list parsers do not look at letter case -/

theorem ucl_lower_char_nat : ∀ a, a < 256 →
    isWS (lowerB (UInt8.ofNat a)) = isWS (UInt8.ofNat a) ∧
    isCRLFch (lowerB (UInt8.ofNat a)) = isCRLFch (UInt8.ofNat a) ∧
    isLWSch (lowerB (UInt8.ofNat a)) = isLWSch (UInt8.ofNat a) ∧
    (∀ k ∈ [(0 : UInt8), 9, 10, 13, 32, 34, 38, 44, 59, 61, 63, 92, 127],
      (lowerB (UInt8.ofNat a) == k) = (UInt8.ofNat a == k)) ∧
    (decide (lowerB (UInt8.ofNat a) < 33) = decide (UInt8.ofNat a < 33)) ∧
    (∀ u, tokAllowedB (lowerB (UInt8.ofNat a)) u = tokAllowedB (UInt8.ofNat a) u) := by
  decide +kernel

/-- the byte tests of the scanners do not tell a letter from its other-case form -/
structure UclSameClass (c d : UInt8) : Prop where
  ws : isWS c = isWS d
  crlf : isCRLFch c = isCRLFch d
  lws : isLWSch c = isLWSch d
  eq : ∀ k ∈ [(0 : UInt8), 9, 10, 13, 32, 34, 38, 44, 59, 61, 63, 92, 127], (c == k) = (d == k)
  lt : decide (c < 33) = decide (d < 33)
  tok : ∀ flags, tokAllowedChar c flags = tokAllowedChar d flags

theorem ucl_lower_class (c : UInt8) : UclSameClass (lowerB c) c := by
  have := ucl_lower_char_nat c.toNat (UInt8.toNat_lt c)
  simp only [UInt8.ofNat_toNat] at this
  obtain ⟨h1, h2, h3, h4, h5, h6⟩ := this
  exact ⟨h1, h2, h3, h4, h5, fun flags => h6 (hasFlag flags POptTokURIParamF)⟩

theorem ucl_sameClass {c d : UInt8} (h : lowerB c = lowerB d) : UclSameClass c d := by
  have hc := ucl_lower_class c
  have hd := ucl_lower_class d
  rw [h] at hc
  exact ⟨hc.ws.symm.trans hd.ws, hc.crlf.symm.trans hd.crlf, hc.lws.symm.trans hd.lws,
    fun k hk => (hc.eq k hk).symm.trans (hd.eq k hk), hc.lt.symm.trans hd.lt,
    fun f => (hc.tok f).symm.trans (hd.tok f)⟩


theorem UclSameClass.ne {c d : UInt8} (h : UclSameClass c d) (k : UInt8)
    (hk : k ∈ [(0 : UInt8), 9, 10, 13, 32, 34, 38, 44, 59, 61, 63, 92, 127]) : (c != k) = (d != k) := by
  unfold bne; rw [h.eq k hk]

theorem skipCRLF_case {b b' : Buf} (h : UclCaseVar b b') (i : Nat) : skipCRLF b' i = skipCRLF b i := by
  unfold skipCRLF
  rcases h1 : b[i+1]? with _ | c1
  · rw [h.get_none h1]
    rcases h0 : b[i]? with _ | c0
    · rw [h.get_none h0]
    · obtain ⟨c0', e0, l0⟩ := h.get_some h0
      have k := ucl_sameClass l0
      rw [e0]
      simp only [k.ne 13 (by simp), k.ne 10 (by simp)]
  · obtain ⟨c1', e1, l1⟩ := h.get_some h1
    rw [e1]
    rcases h0 : b[i]? with _ | c0
    · rw [h.get_none h0]
    · obtain ⟨c0', e0, l0⟩ := h.get_some h0
      have k := ucl_sameClass l0
      have k1 := ucl_sameClass l1
      rw [e0]
      simp only [k.eq 13 (by simp), k.eq 10 (by simp), k1.eq 10 (by simp)]

theorem skipLWS_case {b b' : Buf} (h : UclCaseVar b b') (i flags : Nat) : skipLWS b' i flags = skipLWS b i flags := by
  fun_induction skipLWS b i flags with
  | case1 i hb => exact skipLWS_none (h.get_none hb)
  | case2 i c hb hws ih =>
    obtain ⟨c', e, l⟩ := h.get_some hb
    rw [skipLWS_ws e (by rw [(ucl_sameClass l).ws]; exact hws)]; exact ih
  | case3 i c hb hws hcr n' crl' hs hb2 hfl =>
    obtain ⟨c', e, l⟩ := h.get_some hb
    have k := ucl_sameClass l
    rw [skipLWS_crlf_end e (by rw [k.ws]; simpa using hws) (by rw [k.crlf]; exact hcr)
      (by rw [skipCRLF_case h]; exact hs) (h.get_none hb2), if_pos hfl]
  | case4 i c hb hws hcr n' crl' hs hb2 hfl =>
    obtain ⟨c', e, l⟩ := h.get_some hb
    have k := ucl_sameClass l
    rw [skipLWS_crlf_end e (by rw [k.ws]; simpa using hws) (by rw [k.crlf]; exact hcr)
      (by rw [skipCRLF_case h]; exact hs) (h.get_none hb2), if_neg hfl]
  | case5 i c hb hws hcr n' crl' hs c2 hb2 hws2 ih =>
    obtain ⟨c', e, l⟩ := h.get_some hb
    obtain ⟨c2', e2, l2⟩ := h.get_some hb2
    have k := ucl_sameClass l
    rw [skipLWS_crlf_ws e (by rw [k.ws]; simpa using hws) (by rw [k.crlf]; exact hcr)
      (by rw [skipCRLF_case h]; exact hs) e2 (by rw [(ucl_sameClass l2).ws]; exact hws2)]
    exact ih
  | case6 i c hb hws hcr n' crl' hs c2 hb2 hws2 =>
    obtain ⟨c', e, l⟩ := h.get_some hb
    obtain ⟨c2', e2, l2⟩ := h.get_some hb2
    have k := ucl_sameClass l
    rw [skipLWS_crlf_eoh e (by rw [k.ws]; simpa using hws) (by rw [k.crlf]; exact hcr)
      (by rw [skipCRLF_case h]; exact hs) e2 (by rw [(ucl_sameClass l2).ws]; simpa using hws2)]
  | case7 i c hb hws hcr n' crl' e' hne hs =>
    obtain ⟨c', e, l⟩ := h.get_some hb
    have k := ucl_sameClass l
    rw [skipLWS_crlf_err e (by rw [k.ws]; simpa using hws) (by rw [k.crlf]; exact hcr)
      (by rw [skipCRLF_case h]; exact hs) (fun h => hne h)]
  | case8 i c hb hws hcr =>
    obtain ⟨c', e, l⟩ := h.get_some hb
    have k := ucl_sameClass l
    rw [skipLWS_other e (by rw [k.ws]; simpa using hws) (by rw [k.crlf]; simpa using hcr)]

/-- generic: a loop run over two buffers of which the machine cannot tell the difference -/
theorem ucl_runLoop_congr {σ : Type} (m : Machine σ) {b b' : Buf} (h : UclCaseVar b b')
    (hstep : ∀ i c c' st, b[i]? = some c → b'[i]? = some c' → m.step b' i c' st = m.step b i c st)
    (heob : ∀ i st, b[i]? = none → m.eob b' i st = m.eob b i st) :
    ∀ (i : Nat) (st : σ), runLoop m b' i st = runLoop m b i st := by
  intro i st
  induction hk : b.size - i using Nat.strongRecOn generalizing i st with
  | _ k ih =>
    cases hb : b[i]? with
    | none => rw [runLoop_none m st hb, runLoop_none m st (h.get_none hb), heob i st hb]
    | some c =>
      obtain ⟨c', e, l⟩ := h.get_some hb
      have hi := get?_lt hb
      cases hs : m.step b i c st with
      | cont i' st' =>
        rw [runLoop_cont m hb hs, runLoop_cont m e ((hstep i c c' st hb e).trans hs)]
        by_cases hlt : i < i'
        · rw [if_pos hlt, if_pos hlt]
          exact ih (b.size - i') (by omega) i' st' rfl
        · rw [if_neg hlt, if_neg hlt]
      | done o e' st' =>
        rw [runLoop_done m hb hs, runLoop_done m e ((hstep i c c' st hb e).trans hs)]

theorem sqStep_case {b b' : Buf} (h : UclCaseVar b b') (i : Nat) (c c' : UInt8) (hb : b[i]? = some c)
    (hb' : b'[i]? = some c') : sqStep b' i c' () = sqStep b i c () := by
  have l : lowerB c' = lowerB c := by
    obtain ⟨d, hd, hl⟩ := h.get_some hb
    rw [hb'] at hd; cases hd; exact hl
  have k := ucl_sameClass l
  unfold sqStep
  rw [k.eq 34 (by simp), k.eq 92 (by simp), k.eq 10 (by simp), k.eq 13 (by simp), k.eq 127 (by simp), k.lt,
    k.ne 32 (by simp), k.ne 9 (by simp)]
  rcases h1 : b[i + 1]? with _ | c1
  · rw [h.get_none h1]
  · obtain ⟨c1', e1, l1⟩ := h.get_some h1
    rw [e1]
    simp only [(ucl_sameClass l1).crlf]

theorem skipQuoted_case {b b' : Buf} (h : UclCaseVar b b') (i : Nat) : skipQuoted b' i = skipQuoted b i := by
  unfold skipQuoted
  rw [ucl_runLoop_congr sqMachine h (fun i c c' _ hb hb' => sqStep_case h i c c' hb hb') (fun i _ _ => rfl)]


theorem tpMoreBytes_case {b b' : Buf} (h : UclCaseVar b b') (flags : Nat) (p : PTokParam) (i : Nat) :
    tpMoreBytes b' flags p i = tpMoreBytes b flags p i := by
  unfold tpMoreBytes; rw [h.size]

theorem tpLWS_case {b b' : Buf} (h : UclCaseVar b b') (flags i : Nat) (p : PTokParam) (upd : PTokParam → PTokParam) :
    tpLWS b' flags i p upd = tpLWS b flags i p upd := by
  unfold tpLWS; rw [skipLWS_case h, tpMoreBytes_case h]

theorem tpSpTermSep_case {b b' : Buf} (h : UclCaseVar b b') (offs i : Nat) (p : PTokParam) :
    tpSpTermSep b' offs i p = tpSpTermSep b offs i p := by
  unfold tpSpTermSep
  rcases h1 : b[i - 1]? with _ | c1
  · rw [h.get_none h1]
  · obtain ⟨c1', e1, l1⟩ := h.get_some h1
    rw [e1]
    simp only [(ucl_sameClass l1).lws]

theorem tpStep_case {b b' : Buf} (h : UclCaseVar b b') (flags offs i : Nat) (c c' : UInt8) (p : PTokParam)
    (hb : b[i]? = some c) (hb' : b'[i]? = some c') : tpStep flags offs b' i c' p = tpStep flags offs b i c p := by
  have l : lowerB c' = lowerB c := by
    obtain ⟨d, hd, hl⟩ := h.get_some hb
    rw [hb'] at hd; cases hd; exact hl
  have k := ucl_sameClass l
  have ksep : (c' == tpSep flags) = (c == tpSep flags) := by
    rcases tpSep_cases flags with hs | hs <;> rw [hs] <;> exact k.eq _ (by simp)
  have kterm : (c' == tpTerm flags) = (c == tpTerm flags) := by
    rcases tpTerm_cases flags with hs | hs | hs <;> rw [hs] <;> exact k.eq _ (by simp)
  unfold tpStep
  simp only [k.lws, ksep, kterm, k.eq 61 (by simp), k.eq 34 (by simp), k.tok flags, tpLWS_case h, tpSpTermSep_case h,
    skipQuoted_case h, tpMoreBytes_case h]

theorem parseTokenParam_case {b b' : Buf} (h : UclCaseVar b b') (offs : Nat) (p : PTokParam) (flags : Nat) :
    parseTokenParam b' offs p flags = parseTokenParam b offs p flags := by
  unfold parseTokenParam
  split
  · rfl
  · exact ucl_runLoop_congr (tpMachine flags offs) h (fun i c c' st hb hb' => tpStep_case h flags offs i c c' st hb hb')
      (fun i st _ => tpMoreBytes_case h flags st i) offs p


theorem ucl_extract_caseEq {b b' : Buf} (h : UclCaseVar b b') (i j : Nat) : CaseEq (b'.extract i j) (b.extract i j) := by
  have hsz := h.size
  apply UclCaseVar.caseEq
  intro n
  rw [Array.getElem?_extract, Array.getElem?_extract, hsz]
  by_cases hi : n < min j b.size - i
  · simp only [hi, ↓reduceIte]; exact (h _).symm
  · simp only [hi, ↓reduceIte]

/-- reading a field from two buffers that differ only in letter case: both reads panic, or both succeed with results
    equal up to case -/
theorem ucl_get?_case {b b' : Buf} (h : UclCaseVar b b') (f : PField) :
    (f.get? b' = none ∧ f.get? b = none) ∨ ∃ x' x, f.get? b' = some x' ∧ f.get? b = some x ∧ CaseEq x' x := by
  unfold PField.get?
  rw [h.size]
  by_cases hc : f.offs ≤ f.endT ∧ f.endT ≤ b.size
  · rw [if_pos hc, if_pos hc]
    exact Or.inr ⟨_, _, rfl, rfl, ucl_extract_caseEq h _ _⟩
  · rw [if_neg hc, if_neg hc]
    exact Or.inl ⟨rfl, rfl⟩

theorem ucl_resolve_caseEq {x x' : Buf} (h : CaseEq x' x) : uriParamResolve x' = uriParamResolve x := by
  rw [uriParamResolve_lower, uriParamResolve_lower]
  unfold CaseEq at h
  rw [h]

theorem uriParamsLoop_case {b b' : Buf} (h : UclCaseVar b b') (flags : Nat) :
    ∀ (offs : Nat) (l : URIParamsLst) (vNo : Nat),
      uriParamsLoop b' offs l flags vNo = uriParamsLoop b offs l flags vNo := by
  intro offs l vNo
  induction offs, l, vNo using uriParamsLoop_induct b flags with
  | step offs l vNo ih =>
    rw [uriParamsLoop_eq b', uriParamsLoop_eq b, parseTokenParam_case h]
    rcases hp : parseTokenParam b offs l.cur.param flags with ⟨next, e, tp⟩
    simp only
    rcases ucl_get?_case h tp.name with ⟨g', g⟩ | ⟨x', x, g', g, hc⟩
    · rw [g', g]
    · rw [g', g]
      simp only [ucl_resolve_caseEq hc, h.size]
      by_cases hmv : e = .moreValues
      · subst hmv
        by_cases hG : next ≤ b.size ∧ (offs < next ∨ (offs = next ∧ l.cur.param.state = .fNxt ∧
            (l.next tp (uriParamResolve x)).cur.param.state ≠ .fNxt))
        · simp only [hG]
          rw [ih next tp x hp g hG]
        · simp only [hG, ↓reduceIte]
      · have : (e == Err.moreValues) = false := by simpa using hmv
        simp only [this, Bool.false_eq_true, ↓reduceIte]

theorem uriHdrsLoop_case {b b' : Buf} (h : UclCaseVar b b') (flags : Nat) :
    ∀ (offs : Nat) (l : URIHdrsLst) (vNo : Nat),
      uriHdrsLoop b' offs l flags vNo = uriHdrsLoop b offs l flags vNo := by
  intro offs l vNo
  induction offs, l, vNo using uriHdrsLoop_induct b flags with
  | step offs l vNo ih =>
    rw [uriHdrsLoop_eq b', uriHdrsLoop_eq b, parseTokenParam_case h]
    rcases hp : parseTokenParam b offs l.cur flags with ⟨next, e, tp⟩
    simp only [h.size]
    by_cases hmv : e = .moreValues
    · subst hmv
      by_cases hG : next ≤ b.size ∧ (offs < next ∨ (offs = next ∧ l.cur.state = .fNxt ∧ (l.next tp).cur.state ≠ .fNxt))
      · simp only [hG]
        rw [ih next tp hp hG]
      · simp only [hG, ↓reduceIte]
    · have : (e == Err.moreValues) = false := by simpa using hmv
      simp only [this, Bool.false_eq_true, ↓reduceIte]

/-- **LETTER CASE, ParseAllURIParams**: the same result — verdict, offsets, the stored positions and TYPES of all
    parameters, the type mask — on two buffers that differ only in letter case; any list, any flags -/
theorem parseAllURIParams_case {b b' : Buf} (h : UclCaseVar b b') (offs : Nat) (l : URIParamsLst) (flags : Nat) :
    parseAllURIParams b' offs l flags = parseAllURIParams b offs l flags :=
  uriParamsLoop_case h _ offs l 0

/-- **LETTER CASE, ParseAllURIHdrs** -/
theorem parseAllURIHdrs_case {b b' : Buf} (h : UclCaseVar b b') (offs : Nat) (l : URIHdrsLst) (flags : Nat) :
    parseAllURIHdrs b' offs l flags = parseAllURIHdrs b offs l flags :=
  uriHdrsLoop_case h _ offs l 0


/-! ### (4b) the list comparisons read their buffers only up to letter case -/

/-- the buffer with every ASCII upper-case letter lower-cased -/
def uclLower (b : Buf) : Buf := b.map lowerB

theorem uclLower_get? (f : PField) (b : Buf) : f.get? (uclLower b) = (f.get? b).map uclLower := by
  unfold PField.get? uclLower
  rw [Array.size_map]
  by_cases hc : f.offs ≤ f.endT ∧ f.endT ≤ b.size
  · rw [if_pos hc, if_pos hc, Option.map_some, Array.map_extract]
  · rw [if_neg hc, if_neg hc, Option.map_none]

theorem uclLower_caseEq (x : Buf) : CaseEq (uclLower x) x := by
  unfold CaseEq uclLower lowerL
  rw [Array.toList_map, List.map_map]
  apply List.map_congr_left
  intro c _
  exact lowerB_lowerB c

theorem cmpEq_uclLower (x y : Buf) : cmpEq (uclLower x) (uclLower y) = cmpEq x y :=
  cmpEq_congr (uclLower_caseEq x) (uclLower_caseEq y)

theorem uclLower_eq_of_caseEq {b b' : Buf} (h : CaseEq b b') : uclLower b = uclLower b' := by
  apply Array.ext'
  unfold uclLower
  rw [Array.toList_map, Array.toList_map]
  exact h

theorem paramsEqInner_lower (p1 : URIParam) (b1 b2 : Buf) :
    ∀ l, paramsEqInner p1 (uclLower b1) (uclLower b2) l = paramsEqInner p1 b1 b2 l := by
  intro l
  induction l with
  | nil => rfl
  | cons p2 rest ih =>
    unfold paramsEqInner
    rw [ih]
    simp only [uclLower_get?]
    cases p1.param.name.get? b1 <;> cases p2.param.name.get? b2 <;> cases p1.param.val.get? b1 <;>
      cases p2.param.val.get? b2 <;> simp only [Option.map_none, Option.map_some, cmpEq_uclLower]

theorem paramsEqOuter_lower (b1 b2 : Buf) (l2 : List URIParam) :
    ∀ l1, paramsEqOuter (uclLower b1) (uclLower b2) l2 l1 = paramsEqOuter b1 b2 l2 l1 := by
  intro l1
  induction l1 with
  | nil => rfl
  | cons p1 rest ih =>
    unfold paramsEqOuter
    rw [ih, paramsEqInner_lower]

theorem uriParamsLstEq_lower (l1 : URIParamsLst) (b1 : Buf) (l2 : URIParamsLst) (b2 : Buf) :
    uriParamsLstEq l1 (uclLower b1) l2 (uclLower b2) = uriParamsLstEq l1 b1 l2 b2 := by
  unfold uriParamsLstEq
  rw [paramsEqOuter_lower]

theorem hdrsEqInner_lower (h1 : PTokParam) (b1 b2 : Buf) :
    ∀ l, hdrsEqInner h1 (uclLower b1) (uclLower b2) l = hdrsEqInner h1 b1 b2 l := by
  intro l
  induction l with
  | nil => rfl
  | cons h2 rest ih =>
    unfold hdrsEqInner
    rw [ih]
    simp only [uclLower_get?]
    cases h1.name.get? b1 <;> cases h2.name.get? b2 <;> cases h1.val.get? b1 <;>
      cases h2.val.get? b2 <;> simp only [Option.map_none, Option.map_some, cmpEq_uclLower]

theorem hdrsEqOuter_lower (b1 b2 : Buf) (l2 : List PTokParam) :
    ∀ l1, hdrsEqOuter (uclLower b1) (uclLower b2) l2 l1 = hdrsEqOuter b1 b2 l2 l1 := by
  intro l1
  induction l1 with
  | nil => rfl
  | cons p1 rest ih =>
    unfold hdrsEqOuter
    rw [ih, hdrsEqInner_lower]

theorem uriHdrsLstEq_lower (l1 : URIHdrsLst) (b1 : Buf) (l2 : URIHdrsLst) (b2 : Buf) :
    uriHdrsLstEq l1 (uclLower b1) l2 (uclLower b2) = uriHdrsLstEq l1 b1 l2 b2 := by
  unfold uriHdrsLstEq
  rw [hdrsEqOuter_lower]

/-- **LETTER CASE, URIParamsLstEq**: the verdict (panic included) depends on the two buffers only up to letter case —
    parameter names AND values; no side condition on the lists -/
theorem uriParamsLstEq_case (l1 : URIParamsLst) (l2 : URIParamsLst) {b1 b1' b2 b2' : Buf} (h1 : CaseEq b1 b1')
    (h2 : CaseEq b2 b2') : uriParamsLstEq l1 b1' l2 b2' = uriParamsLstEq l1 b1 l2 b2 := by
  rw [← uriParamsLstEq_lower l1 b1' l2 b2', ← uriParamsLstEq_lower l1 b1 l2 b2, uclLower_eq_of_caseEq h1,
    uclLower_eq_of_caseEq h2]

/-- **LETTER CASE, URIHdrsLstEq**: header names and values -/
theorem uriHdrsLstEq_case (l1 : URIHdrsLst) (l2 : URIHdrsLst) {b1 b1' b2 b2' : Buf} (h1 : CaseEq b1 b1')
    (h2 : CaseEq b2 b2') : uriHdrsLstEq l1 b1' l2 b2' = uriHdrsLstEq l1 b1 l2 b2 := by
  rw [← uriHdrsLstEq_lower l1 b1' l2 b2', ← uriHdrsLstEq_lower l1 b1 l2 b2, uclLower_eq_of_caseEq h1,
    uclLower_eq_of_caseEq h2]

theorem uriParamsParse_case {b b' : Buf} (h : CaseEq b b') (o : Nat) : uriParamsParse b' o = uriParamsParse b o := by
  unfold uriParamsParse
  rw [parseAllURIParams_case (UclCaseVar.of_caseEq h)]

theorem uriHdrsParse_case {b b' : Buf} (h : CaseEq b b') (o : Nat) : uriHdrsParse b' o = uriHdrsParse b o := by
  unfold uriHdrsParse
  rw [parseAllURIHdrs_case (UclCaseVar.of_caseEq h)]

/-- **LETTER CASE, URIParamsEq**: the complete result is the same on parameter strings that differ only in letter
    case (names and values), whatever they contain -/
theorem uriParamsEq_case {b1 b1' b2 b2' : Buf} (h1 : CaseEq b1 b1') (h2 : CaseEq b2 b2') (o1 o2 : Nat) :
    uriParamsEq b1' o1 b2' o2 = uriParamsEq b1 o1 b2 o2 := by
  rw [uriParamsEq_eq, uriParamsEq_eq, uriParamsParse_case h1, uriParamsParse_case h2, uriParamsLstEq_case _ _ h1 h2]

/-- **LETTER CASE, URIHdrsEq** -/
theorem uriHdrsEq_case {b1 b1' b2 b2' : Buf} (h1 : CaseEq b1 b1') (h2 : CaseEq b2 b2') (o1 o2 : Nat) :
    uriHdrsEq b1' o1 b2' o2 = uriHdrsEq b1 o1 b2 o2 := by
  rw [uriHdrsEq_eq, uriHdrsEq_eq, uriHdrsParse_case h1, uriHdrsParse_case h2, uriHdrsLstEq_case _ _ h1 h2]


/-! ### (4c) URICmp / URIParseCmp: letter case matters nowhere except in user and password -/

theorem ucl_cmpFields_case {b1 b1' b2 b2' : Buf} (h1 : UclCaseVar b1 b1') (h2 : UclCaseVar b2 b2') (s : Bool)
    (f g : PField) :
    cmpFields s cmpEq (f.get? b1') (g.get? b2') = cmpFields s cmpEq (f.get? b1) (g.get? b2) := by
  unfold cmpFields
  rcases ucl_get?_case h1 f with ⟨a', a⟩ | ⟨x', x, a', a, ca⟩ <;>
  rcases ucl_get?_case h2 g with ⟨c', c⟩ | ⟨y', y, c', c, cc⟩
  · rw [a', a, c', c]
  · rw [a', a, c', c]
  · rw [a', a, c', c]
  · rw [a', a, c', c]
    simp only [cmpEq_congr ca cc]

theorem ucl_paramsPart_case {b1 b1' b2 b2' : Buf} (h1 : UclCaseVar b1 b1') (h2 : UclCaseVar b2 b2') (u1 u2 : PsipURI) :
    uriCmpParamsPart u1 b1' u2 b2' = uriCmpParamsPart u1 b1 u2 b2 := by
  unfold uriCmpParamsPart
  rcases ucl_get?_case h1 u1.params with ⟨a', a⟩ | ⟨x', x, a', a, ca⟩ <;>
  rcases ucl_get?_case h2 u2.params with ⟨c', c⟩ | ⟨y', y, c', c, cc⟩
  · rw [a', a, c', c]
  · rw [a', a, c', c]
  · rw [a', a, c', c]
  · rw [a', a, c', c]
    simp only
    rw [uriParamsEq_case ca.symm cc.symm]

theorem ucl_hdrsPart_case {b1 b1' b2 b2' : Buf} (h1 : UclCaseVar b1 b1') (h2 : UclCaseVar b2 b2') (u1 u2 : PsipURI) :
    uriCmpHdrsPart u1 b1' u2 b2' = uriCmpHdrsPart u1 b1 u2 b2 := by
  unfold uriCmpHdrsPart
  rcases ucl_get?_case h1 u1.headers with ⟨a', a⟩ | ⟨x', x, a', a, ca⟩ <;>
  rcases ucl_get?_case h2 u2.headers with ⟨c', c⟩ | ⟨y', y, c', c, cc⟩
  · rw [a', a, c', c]
  · rw [a', a, c', c]
  · rw [a', a, c', c]
  · rw [a', a, c', c]
    simp only
    rw [uriHdrsEq_case ca.symm cc.symm]

/-- **LETTER CASE, URICmp**: for ANY two URI objects and any flags, URICmp gives the same answer (panic included)
    when the buffers are replaced by buffers that differ only in letter case, provided the user and password bytes
    read are the same.  No condition on duplicates, well-formedness, or the objects being results of ParseURI. -/
theorem uriCmp_case (u1 : PsipURI) (b1 b1' : Buf) (u2 : PsipURI) (b2 b2' : Buf) (f : Nat)
    (h1 : CaseEq b1 b1') (h2 : CaseEq b2 b2')
    (hu1 : u1.user.get? b1' = u1.user.get? b1) (hp1 : u1.pass.get? b1' = u1.pass.get? b1)
    (hu2 : u2.user.get? b2' = u2.user.get? b2) (hp2 : u2.pass.get? b2' = u2.pass.get? b2) :
    uriCmp u1 b1' u2 b2' f = uriCmp u1 b1 u2 b2 f := by
  have v1 := UclCaseVar.of_caseEq h1
  have v2 := UclCaseVar.of_caseEq h2
  rw [uriCmp_eq, uriCmp_eq, uriCmpShort_eq, uriCmpShort_eq, hu1, hp1, hu2, hp2, ucl_cmpFields_case v1 v2,
    ucl_paramsPart_case v1 v2, ucl_hdrsPart_case v1 v2]

/-- `raw'` is `raw` with the letter case of some bytes changed, but not inside the user and password components (as
    ParseURI delimits them in `raw`) -/
structure UclCaseVariant (raw raw' : Buf) : Prop where
  caseEq : CaseEq raw raw'
  user : uclSeg raw' (parseURI raw {}).2.2.1.user = uclSeg raw (parseURI raw {}).2.2.1.user
  pass : uclSeg raw' (parseURI raw {}).2.2.1.pass = uclSeg raw (parseURI raw {}).2.2.1.pass

instance (raw raw' : Buf) : Decidable (UclCaseVariant raw raw') :=
  decidable_of_iff (CaseEq raw raw' ∧
    uclSeg raw' (parseURI raw {}).2.2.1.user = uclSeg raw (parseURI raw {}).2.2.1.user ∧
    uclSeg raw' (parseURI raw {}).2.2.1.pass = uclSeg raw (parseURI raw {}).2.2.1.pass)
    ⟨fun ⟨a, b, c⟩ => ⟨a, b, c⟩, fun ⟨a, b, c⟩ => ⟨a, b, c⟩⟩

/-- **LETTER CASE for the raw-string entry point**: for ANY two byte strings of at most 65,535 bytes, the complete
    result of URIParseCmp (verdict, error, index, both parsed URIs — identical objects) is unchanged when the letter
    case of either string is changed anywhere outside its user and password: scheme, host, parameter names and
    values, header names and values.  No condition on duplicates or on the lists being well formed. -/
theorem uriParseCmp_case (raw1 raw1' raw2 raw2' : Buf) (f : Nat) (hfit1 : raw1.size ≤ 65535)
    (hfit2 : raw2.size ≤ 65535) (v1 : UclCaseVariant raw1 raw1') (v2 : UclCaseVariant raw2 raw2') :
    uriParseCmp raw1' raw2' f = uriParseCmp raw1 raw2 f := by
  have w1 := UclCaseVar.of_caseEq v1.caseEq
  have w2 := UclCaseVar.of_caseEq v2.caseEq
  have hp1 : parseURI raw1' {} = parseURI raw1 {} := parseURI_case raw1 raw1' {} w1
  have hp2 : parseURI raw2' {} = parseURI raw2 {} := parseURI_case raw2 raw2' {} w2
  rw [uriParseCmp_eq, uriParseCmp_eq, hp1, hp2]
  by_cases c1 : (parseURI raw1 {}).1 = UErr.none
  · by_cases c2 : (parseURI raw2 {}).1 = UErr.none
    · have g1 := ucl_parse_get raw1 hfit1 c1
      have g1' := ucl_parse_get raw1' (by rw [w1.size]; exact hfit1) (by rw [hp1]; exact c1)
      have g2 := ucl_parse_get raw2 hfit2 c2
      have g2' := ucl_parse_get raw2' (by rw [w2.size]; exact hfit2) (by rw [hp2]; exact c2)
      rw [hp1] at g1'
      rw [hp2] at g2'
      rw [uriCmp_case _ raw1 raw1' _ raw2 raw2' f v1.caseEq v2.caseEq
        (by rw [g1' _ (by simp), g1 _ (by simp), v1.user]) (by rw [g1' _ (by simp), g1 _ (by simp), v1.pass])
        (by rw [g2' _ (by simp), g2 _ (by simp), v2.user]) (by rw [g2' _ (by simp), g2 _ (by simp), v2.pass])]
    · have b2 : ((parseURI raw2 {}).1 != UErr.none) = true := by simpa using c2
      simp only [b2, ↓reduceIte]
  · have b1 : ((parseURI raw1 {}).1 != UErr.none) = true := by simpa using c1
    simp only [b1, ↓reduceIte]

/-! ### (2c) the presence rule on parameter strings -/

theorem ucl_ofLower_eq_iff (s : List UInt8) :
    (uriParamOfLower s = URIParamUserF ↔ s = sUser) ∧ (uriParamOfLower s = URIParamTTLF ↔ s = sTtl) ∧
    (uriParamOfLower s = URIParamMethodF ↔ s = sMethod) ∧ (uriParamOfLower s = URIParamMaddrF ↔ s = sMaddr) := by
  refine ⟨⟨fun h => ?_, fun h => by rw [h]; decide⟩, ⟨fun h => ?_, fun h => by rw [h]; decide⟩,
    ⟨fun h => ?_, fun h => by rw [h]; decide⟩, ⟨fun h => ?_, fun h => by rw [h]; decide⟩⟩ <;>
  rcases ucl_ofLower_cases s _ rfl with ⟨a, ta⟩ | ⟨a, ta⟩ | ⟨a, ta⟩ | ⟨a, ta⟩ | ⟨a, ta⟩ | ⟨a, ta⟩ | ta <;>
  first
    | exact a
    | (rw [ta] at h; exact absurd h (by decide))

/-- the parameter string has a parameter whose name is `s` up to letter case (`s` a lower-case name) -/
def UclHasParam (pb : Buf) (s : List UInt8) : Prop := ∃ nm ∈ uclParamNames pb, lowerL nm.toList = s

instance (pb : Buf) (s : List UInt8) : Decidable (UclHasParam pb s) :=
  inferInstanceAs (Decidable (∃ nm ∈ uclParamNames pb, lowerL nm.toList = s))

theorem ucl_hasType_iff (pb : Buf) (hfit : pb.size ≤ 65535) (x : Nat) (s : List UInt8)
    (hxs : ∀ s', uriParamOfLower s' = x ↔ s' = s) :
    (∃ p ∈ (uriParamsParse pb 0).2.plist, p.t = x) ↔ UclHasParam pb s := by
  have hf := (ucl_paramsParse_facts pb 0 hfit (Nat.zero_le _)).2
  unfold UclHasParam uclParamNames
  constructor
  · rintro ⟨p, hp, ht⟩
    obtain ⟨_, ⟨nm, hnm, hcl⟩, hn⟩ := hf p hp
    rw [hn] at hnm; cases hnm
    refine ⟨_, List.mem_map.2 ⟨p, hp, rfl⟩, ?_⟩
    rw [hcl, uriParamResolve_lower] at ht
    exact (hxs _).1 ht
  · rintro ⟨nm, hnm, hl⟩
    obtain ⟨p, hp, rfl⟩ := List.mem_map.1 hnm
    obtain ⟨_, ⟨nm', hnm', hcl⟩, hn⟩ := hf p hp
    rw [hn] at hnm'; cases hnm'
    refine ⟨p, hp, ?_⟩
    rw [hcl, uriParamResolve_lower]
    exact (hxs _).2 hl

/-- **PRESENCE RULE on parameter strings**: if URIParamsEq says "equal" for two parameter strings (at most 65,535
    bytes, at most 100 parameters each), then each of `user`, `ttl`, `method`, `maddr` (in any letter case) is a
    parameter name of both strings or of neither -/
theorem uriParamsEq_presence_raw (pb1 pb2 : Buf) (hfit1 : pb1.size ≤ 65535) (hfit2 : pb2.size ≤ 65535)
    (hm1 : (uriParamsParse pb1 0).2.more = false) (hm2 : (uriParamsParse pb2 0).2.more = false) {e : Err}
    (h : uriParamsEq pb1 0 pb2 0 = some (true, e)) :
    ∀ s ∈ [sUser, sTtl, sMethod, sMaddr], (UclHasParam pb1 s ↔ UclHasParam pb2 s) := by
  have t1 : TypesOk (uriParamsParse pb1 0).2 :=
    (parseAllURIParams_ucl pb1 0 100 (POptTokURIParamF ||| POptInputEndF) hfit1 (Nat.zero_le _)).2.2 hm1
  have t2 : TypesOk (uriParamsParse pb2 0).2 :=
    (parseAllURIParams_ucl pb2 0 100 (POptTokURIParamF ||| POptInputEndF) hfit2 (Nat.zero_le _)).2.2 hm2
  have hl : uriParamsLstEq (uriParamsParse pb1 0).2 pb1 (uriParamsParse pb2 0).2 pb2 = some true := by
    rw [uriParamsEq_eq] at h
    by_cases c1 : (uriParamsParse pb1 0).2.pnc = true
    · rw [if_pos c1] at h; cases h
    rw [if_neg c1] at h
    by_cases c2 : (!errOkOrEOH (uriParamsParse pb1 0).1) = true
    · rw [if_pos c2] at h; cases h
    rw [if_neg c2] at h
    by_cases c3 : (uriParamsParse pb2 0).2.pnc = true
    · rw [if_pos c3] at h; cases h
    rw [if_neg c3] at h
    by_cases c4 : (!errOkOrEOH (uriParamsParse pb2 0).1) = true
    · rw [if_pos c4] at h; cases h
    rw [if_neg c4] at h
    rcases hr : uriParamsLstEq (uriParamsParse pb1 0).2 pb1 (uriParamsParse pb2 0).2 pb2 with _ | r
    · rw [hr] at h; cases h
    · rw [hr] at h
      simp only [Option.map_some, Option.some.injEq, Prod.mk.injEq] at h
      rw [h.1]
  have hp := uriParamsLstEq_true_presence _ pb1 _ pb2 hl t1 t2
  have k := ucl_ofLower_eq_iff
  intro s hs
  simp only [List.mem_cons, List.not_mem_nil, or_false] at hs
  rcases hs with rfl | rfl | rfl | rfl
  · rw [← ucl_hasType_iff pb1 hfit1 URIParamUserF sUser (fun s' => (k s').1),
      ← ucl_hasType_iff pb2 hfit2 URIParamUserF sUser (fun s' => (k s').1)]
    exact hp _ (by simp)
  · rw [← ucl_hasType_iff pb1 hfit1 URIParamTTLF sTtl (fun s' => (k s').2.1),
      ← ucl_hasType_iff pb2 hfit2 URIParamTTLF sTtl (fun s' => (k s').2.1)]
    exact hp _ (by simp)
  · rw [← ucl_hasType_iff pb1 hfit1 URIParamMethodF sMethod (fun s' => (k s').2.2.1),
      ← ucl_hasType_iff pb2 hfit2 URIParamMethodF sMethod (fun s' => (k s').2.2.1)]
    exact hp _ (by simp)
  · rw [← ucl_hasType_iff pb1 hfit1 URIParamMaddrF sMaddr (fun s' => (k s').2.2.2),
      ← ucl_hasType_iff pb2 hfit2 URIParamMaddrF sMaddr (fun s' => (k s').2.2.2)]
    exact hp _ (by simp)

/-- … and for raw URIs: a verdict "equal" of URIParseCmp without URICmpSkipParams means that each of `user`, `ttl`,
    `method`, `maddr` is a parameter name of both URIs or of neither (at most 100 parameters each) -/
theorem uriParseCmp_presence_raw (raw1 raw2 : Buf) (f : Nat) (hfit1 : raw1.size ≤ 65535) (hfit2 : raw2.size ≤ 65535)
    (hm1 : (uriParamsParse (uclParamsText raw1) 0).2.more = false)
    (hm2 : (uriParamsParse (uclParamsText raw2) 0).2.more = false)
    (hf : hasFlag f URICmpSkipParams = false) {e : UErr} {i : Nat} {r1 r2 : Option PsipURI}
    (h : uriParseCmp raw1 raw2 f = some (true, e, i, r1, r2)) :
    ∀ s ∈ [sUser, sTtl, sMethod, sMaddr],
      (UclHasParam (uclParamsText raw1) s ↔ UclHasParam (uclParamsText raw2) s) := by
  have p1 := (parseURI_ok raw1 hfit1).2.1
  have p2 := (parseURI_ok raw2 hfit2).2.1
  rw [uriParseCmp_eq] at h
  simp only [p1, p2, Bool.false_eq_true, ↓reduceIte] at h
  by_cases c1 : ((parseURI raw1 {}).1 != UErr.none) = true
  · rw [if_pos c1] at h; cases h
  rw [if_neg c1] at h
  by_cases c2 : ((parseURI raw2 {}).1 != UErr.none) = true
  · rw [if_pos c2] at h; cases h
  rw [if_neg c2] at h
  have a1 : (parseURI raw1 {}).1 = UErr.none := by simpa using c1
  have a2 : (parseURI raw2 {}).1 = UErr.none := by simpa using c2
  have hc : uriCmp (parseURI raw1 {}).2.2.1 raw1 (parseURI raw2 {}).2.2.1 raw2 f = some true := by
    rcases hr : uriCmp (parseURI raw1 {}).2.2.1 raw1 (parseURI raw2 {}).2.2.1 raw2 f with _ | r
    · rw [hr] at h; cases h
    · rw [hr] at h
      simp only [Option.map_some, Option.some.injEq, Prod.mk.injEq] at h
      rw [h.1]
  have hpp := ((uriCmp_true_iff _ _ _ _ _).1 hc).2.1
  rcases hpp with hpp | hpp
  · rw [hf] at hpp; cases hpp
  · unfold uriCmpParamsPart at hpp
    rw [ucl_parse_get raw1 hfit1 a1 _ (by simp), ucl_parse_get raw2 hfit2 a2 _ (by simp)] at hpp
    simp only at hpp
    rcases hq : uriParamsEq (uclSeg raw1 (parseURI raw1 {}).2.2.1.params) 0
        (uclSeg raw2 (parseURI raw2 {}).2.2.1.params) 0 with _ | ⟨r, e'⟩
    · rw [hq] at hpp; cases hpp
    · rw [hq] at hpp
      simp only [Option.map_some, Option.some.injEq] at hpp
      subst hpp
      exact uriParamsEq_presence_raw _ _
        (by unfold uclParamsText; have := uclSeg_size_le raw1 (parseURI raw1 {}).2.2.1.params; omega)
        (by unfold uclParamsText; have := uclSeg_size_le raw2 (parseURI raw2 {}).2.2.1.params; omega) hm1 hm2 hq

/-! ### tests / non-vacuity (closed computations, `decide +kernel`) -/

section UclTests

def uclRawA : Buf := "sip:Alice:pw@Example.COM:5060;transport=udp;Foo=Bar;lr?a=1&B=2".toUTF8.data
/-- `uclRawA` with some host letters in the other case -/
def uclRawA' : Buf := "sip:Alice:pw@eXAMPLE.com:5060;transport=udp;Foo=Bar;lr?a=1&B=2".toUTF8.data
def uclRawB : Buf := "sips:bob@[2001:DB8::1];Method=INVITE;ttl=3".toUTF8.data
def uclRawB' : Buf := "sips:bob@[2001:db8::1];Method=INVITE;ttl=3".toUTF8.data

/-- test: the text-derived name lists -/
example : uclParamNames (uclParamsText uclRawA) =
    ["transport".toUTF8.data, "Foo".toUTF8.data, "lr".toUTF8.data] := by decide +kernel
example : uclHdrNames (uclHdrsText uclRawA) = ["a".toUTF8.data, "B".toUTF8.data] := by decide +kernel

/-- non-vacuity of the hypotheses of `uriParseCmp_refl_raw` / `uriParseCmp_symm_raw`: an accepted URI with user,
    password, port, three parameters and two headers -/
theorem uclRawA_acc : (parseURI uclRawA {}).1 = UErr.none := by decide +kernel
theorem uclRawA_ok : UclListsOk uclRawA := by decide +kernel
theorem uclRawA_nodup : UclNoDup uclRawA := by decide +kernel
theorem uclRawB_acc : (parseURI uclRawB {}).1 = UErr.none := by decide +kernel
theorem uclRawB_nodup : UclNoDup uclRawB := by decide +kernel

/-- the theorems applied -/
example (f : Nat) : uriParseCmp uclRawA uclRawA f =
    some (true, UErr.none, 0, some (parseURI uclRawA {}).2.2.1, some (parseURI uclRawA {}).2.2.1) :=
  uriParseCmp_refl_raw uclRawA f (by decide) uclRawA_acc uclRawA_ok uclRawA_nodup
example (f : Nat) : (uriParseCmp uclRawA uclRawB f).map (·.1) = (uriParseCmp uclRawB uclRawA f).map (·.1) :=
  uriParseCmp_symm_raw uclRawA uclRawB f (by decide) (by decide) (fun _ => uclRawA_nodup) (fun _ => uclRawB_nodup)

/-- non-vacuity of `UclHostCaseVariant` (with a real change), host name and bracketed IPv6 reference -/
theorem uclRawA_variant : UclHostCaseVariant uclRawA uclRawA' := by decide +kernel
theorem uclRawB_variant : UclHostCaseVariant uclRawB uclRawB' := by decide +kernel
example : uclRawA' ≠ uclRawA := by decide +kernel
example (f : Nat) : uriParseCmp uclRawA' uclRawB' f = uriParseCmp uclRawA uclRawB f :=
  uriParseCmp_host_case uclRawA uclRawA' uclRawB uclRawB' f (by decide) (by decide) uclRawA_variant uclRawB_variant
/-- so the re-cased string equals the original one under every flag value -/
example (f : Nat) : uriParseCmp uclRawA' uclRawA f =
    some (true, UErr.none, 0, some (parseURI uclRawA {}).2.2.1, some (parseURI uclRawA {}).2.2.1) := by
  rw [uriParseCmp_host_case uclRawA uclRawA' uclRawA uclRawA f (by decide) (by decide) uclRawA_variant
    ⟨CaseEq.refl _, rfl, rfl⟩]
  exact uriParseCmp_refl_raw uclRawA f (by decide) uclRawA_acc uclRawA_ok uclRawA_nodup

/-- test: ParseURI on a string re-cased everywhere (scheme, user, host, parameters, headers) -/
example : parseURI "SIP:ALICE:PW@EXAMPLE.COM:5060;TRANSPORT=UDP;FOO=BAR;LR?A=1&b=2".toUTF8.data {} = parseURI uclRawA {} :=
  parseURI_case _ _ {} (UclCaseVar.of_caseEq (by decide +kernel))

/-- the hypothesis `UclListsOk` of reflexivity is NECESSARY: ParseURI accepts `sip:a@b;<` (it does not look inside
    the parameter string), ParseAllURIParams rejects `<`, and URIParseCmp then reports the URI different from
    itself; same for a header string -/
theorem ucl_refl_needs_listsOk :
    (parseURI "sip:a@b;<".toUTF8.data {}).1 = UErr.none ∧ UclNoDup "sip:a@b;<".toUTF8.data ∧
    (uriParseCmp "sip:a@b;<".toUTF8.data "sip:a@b;<".toUTF8.data 0).map (·.1) = some false ∧
    (parseURI "sip:a@b?<".toUTF8.data {}).1 = UErr.none ∧ UclNoDup "sip:a@b?<".toUTF8.data ∧
    (uriParseCmp "sip:a@b?<".toUTF8.data "sip:a@b?<".toUTF8.data 0).map (·.1) = some false := by decide +kernel

/-- the hypothesis `UclNoDup` is necessary for reflexivity and for symmetry (names equal up to case count as
    duplicates) -/
theorem ucl_needs_nodup :
    ¬ UclNoDup "sip:a@b;x=1;X=2".toUTF8.data ∧
    (uriParseCmp "sip:a@b;x=1;X=2".toUTF8.data "sip:a@b;x=1;X=2".toUTF8.data 0).map (·.1) = some false ∧
    (uriParseCmp "sip:a@b;x=1;X=2".toUTF8.data "sip:a@b;x=1".toUTF8.data 0).map (·.1) = some false ∧
    (uriParseCmp "sip:a@b;x=1".toUTF8.data "sip:a@b;x=1;X=2".toUTF8.data 0).map (·.1) = some true := by decide +kernel

/-- non-vacuity of `UclCaseVariant` with changes in scheme, host, parameter names and values, header names and values -/
def uclRawC' : Buf := "SIP:Alice:pw@eXAMPLE.com:5060;TRANSPORT=UDP;fOO=bAR;LR?A=1&b=2".toUTF8.data
theorem uclRawC_variant : UclCaseVariant uclRawA uclRawC' := by decide +kernel
example (f : Nat) : uriParseCmp uclRawC' uclRawB' f = uriParseCmp uclRawA uclRawB f :=
  uriParseCmp_case uclRawA uclRawC' uclRawB uclRawB' f (by decide) (by decide) uclRawC_variant (by decide +kernel)
/-- so the string re-cased everywhere but in user and password equals the original one under every flag value -/
example (f : Nat) : uriParseCmp uclRawC' uclRawA f =
    some (true, UErr.none, 0, some (parseURI uclRawA {}).2.2.1, some (parseURI uclRawA {}).2.2.1) := by
  rw [uriParseCmp_case uclRawA uclRawC' uclRawA uclRawA f (by decide) (by decide) uclRawC_variant
    ⟨CaseEq.refl _, rfl, rfl⟩]
  exact uriParseCmp_refl_raw uclRawA f (by decide) uclRawA_acc uclRawA_ok uclRawA_nodup
/-- the exclusion of user and password is necessary: re-casing the user gives a different URI -/
example : ¬ UclCaseVariant uclRawA "sip:alice:pw@Example.COM:5060;transport=udp;Foo=Bar;lr?a=1&B=2".toUTF8.data := by
  decide +kernel
example : (uriParseCmp "sip:alice:pw@Example.COM:5060;transport=udp;Foo=Bar;lr?a=1&B=2".toUTF8.data uclRawA 0).map (·.1) =
    some false := by decide +kernel
/-- test: ParseAllURIParams on a re-cased string: same positions, same types -/
example : parseAllURIParams "TRANSPORT=UDP;fOO=bAR;LR".toUTF8.data 0 { params := Array.replicate 4 {} } 0 =
    parseAllURIParams "transport=udp;Foo=Bar;lr".toUTF8.data 0 { params := Array.replicate 4 {} } 0 :=
  parseAllURIParams_case (UclCaseVar.of_caseEq (by decide +kernel)) 0 _ 0

/-- non-vacuity of the hypotheses of `uriParamsEq_presence_raw`, and the theorem applied -/
example : UclHasParam "Transport=udp;USER=phone".toUTF8.data sUser := by decide +kernel
example : UclHasParam "x=1;User=Phone".toUTF8.data sUser ↔ UclHasParam "USER=phone;y=2".toUTF8.data sUser :=
  uriParamsEq_presence_raw "x=1;User=Phone".toUTF8.data "USER=phone;y=2".toUTF8.data (by decide) (by decide)
    (by decide +kernel) (by decide +kernel) (e := Err.ok) (by decide +kernel) sUser (by simp)

/-- test / non-vacuity of `parseAllURIParams_ucl`: the mask is the set of stored types -/
example : TypesOk (parseAllURIParams "user=phone;ttl=1;x".toUTF8.data 0 { params := Array.replicate 5 {} } 0).2.2.2 :=
  (parseAllURIParams_ucl _ 0 5 0 (by decide) (by decide)).2.2 (by decide +kernel)

end UclTests

end Sipsp
