/-
  Sipsp.Proofs.UriCmpLink — property C15: the side conditions of the comparison laws (UriCmpLaws) are established
  by the parsers, so that the laws hold for what the entry points accept.
-/
import Sipsp.Proofs.UriCmpLaws
import Sipsp.Proofs.SafeRest
import Sipsp.Proofs.ParamSpec

namespace Sipsp

/-! ### (1a) ParseAllURIParams: recorded type = classification of the name, mask = the types stored -/

/-- what ParseAllURIParams maintains about the element types: every stored element (index below `n` and inside the
    array) has a readable name and its recorded type is the classification of that name; as long as nothing was
    dropped for lack of room (`n ≤ capacity`) a bit is set in the `types` mask exactly when it is set in the type of
    a stored element. -/
structure UclPlInv (b : Buf) (l : URIParamsLst) : Prop where
  cls : ∀ k, k < l.n → k < l.params.size →
    ∃ nm, l.params[k]!.param.name.get? b = some nm ∧ l.params[k]!.t = uriParamResolve nm
  types : l.n ≤ l.params.size → ∀ x, ((l.types &&& x) ≠ 0 ↔ ∃ k, k < l.n ∧ (l.params[k]!.t &&& x) ≠ 0)

theorem uclPlInv_new (b : Buf) (k : Nat) : UclPlInv b ({ params := Array.replicate k {} } : URIParamsLst) := by
  refine ⟨fun j hj _ => absurd hj (Nat.not_lt_zero j), fun _ x => ?_⟩
  constructor
  · intro h; exact absurd (Nat.zero_and x) h
  · rintro ⟨j, hj, _⟩; exact absurd hj (Nat.not_lt_zero j)

theorem UclPlInv.setCur {b : Buf} {l : URIParamsLst} (h : UclPlInv b l) (p : URIParam) : UclPlInv b (l.setCur p) := by
  refine ⟨fun k hk hs => ?_, fun hn x => ?_⟩
  · rw [pSetCur_n] at hk; rw [pSetCur_size] at hs
    rw [pSetCur_get_ne l p k (by omega)]; exact h.cls k hk hs
  · rw [pSetCur_n, pSetCur_size] at hn
    rw [pSetCur_types, pSetCur_n, h.types hn x]
    constructor
    · rintro ⟨k, hk, hx⟩; exact ⟨k, hk, by rw [pSetCur_get_ne l p k (by omega)]; exact hx⟩
    · rintro ⟨k, hk, hx⟩; exact ⟨k, hk, by rw [pSetCur_get_ne l p k (by omega)] at hx; exact hx⟩

theorem UclPlInv.setPnc {b : Buf} {l : URIParamsLst} (h : UclPlInv b l) (v : Bool) : UclPlInv b { l with pnc := v } :=
  ⟨h.cls, h.types⟩

theorem ucl_or_and_ne_zero (a c x : Nat) : ((a ||| c) &&& x) ≠ 0 ↔ ((a &&& x) ≠ 0 ∨ (c &&& x) ≠ 0) := by
  rw [Nat.and_or_distrib_right]
  constructor
  · intro h
    by_cases ha : a &&& x = 0
    · right; intro hc; apply h; rw [ha, hc]; rfl
    · left; exact ha
  · intro h hz
    have := Nat.or_eq_zero_iff.1 hz
    rcases h with h | h
    · exact h this.1
    · exact h this.2

theorem UclPlInv.next {b : Buf} {l : URIParamsLst} (h : UclPlInv b l) (tp : PTokParam) {nm : Buf}
    (hg : tp.name.get? b = some nm) : UclPlInv b (l.next tp (uriParamResolve nm)) := by
  have hne : ∀ k, l.n ≠ k → (l.next tp (uriParamResolve nm)).params[k]! = l.params[k]! := fun k hk => by
    rw [pNext_params, pSetCur_get_ne l _ k hk]
  have hself : l.n < l.params.size →
      (l.next tp (uriParamResolve nm)).params[l.n]! = { param := tp, t := uriParamResolve nm } := fun hin => by
    rw [pNext_params, pSetCur_get_n l _ hin]
  refine ⟨fun k hk hs => ?_, fun hn x => ?_⟩
  · rw [pNext_n] at hk; rw [pNext_size] at hs
    by_cases hkn : l.n = k
    · subst hkn
      rw [hself hs]
      exact ⟨nm, hg, rfl⟩
    · rw [hne k hkn]; exact h.cls k (by omega) hs
  · rw [pNext_n, pNext_size] at hn
    have hin : l.n < l.params.size := by omega
    rw [pNext_types, pNext_n, ucl_or_and_ne_zero, h.types (by omega) x]
    constructor
    · rintro (⟨k, hk, hx⟩ | hx)
      · exact ⟨k, by omega, by rw [hne k (by omega)]; exact hx⟩
      · exact ⟨l.n, by omega, by rw [hself hin]; exact hx⟩
    · rintro ⟨k, hk, hx⟩
      by_cases hkn : l.n = k
      · subst hkn; rw [hself hin] at hx; exact Or.inr hx
      · rw [hne k hkn] at hx; exact Or.inl ⟨k, by omega, hx⟩

/-- the invariant is kept by the whole loop, whatever the verdict, flags and capacity -/
theorem uriParamsLoop_uclInv (b : Buf) (flags : Nat) (offs : Nat) (l : URIParamsLst) (vNo : Nat)
    (h : UclPlInv b l) : UclPlInv b (uriParamsLoop b offs l flags vNo).2.2.2 := by
  revert h
  induction offs, l, vNo using uriParamsLoop_induct b flags with
  | step offs l vNo ih =>
    intro h
    rcases hp : parseTokenParam b offs l.cur.param flags with ⟨next, e1, tp⟩
    by_cases hm : e1 = .moreBytes
    · subst hm
      rw [uriParamsLoop_eq_more hp]
      exact h.setCur _
    by_cases hacc : e1 = .ok ∨ e1 = .moreValues ∨ e1 = .eoh
    · rcases hgn : tp.name.get? b with _ | nm
      · rw [uriParamsLoop_panic hp hacc hgn]
        exact (h.setCur _).setPnc true
      · have hn := h.next tp hgn
        rcases hacc with hk | hv | he
        · subst hk
          rw [uriParamsLoop_eq_last hp (Or.inl rfl) hgn]; exact hn
        · subst hv
          rw [uriParamsLoop_mv hp hgn]
          split
          · rename_i hgd
            exact ih next tp nm hp hgn hgd hn
          · exact hn
        · subst he
          rw [uriParamsLoop_eq_last hp (Or.inr rfl) hgn]; exact hn
    · rw [uriParamsLoop_err hp (fun hh => hacc (Or.inl hh)) (fun hh => hacc (Or.inr (Or.inl hh)))
        (fun hh => hacc (Or.inr (Or.inr hh))) hm]
      exact h.setCur _

theorem parseAllURIParams_uclInv (b : Buf) (offs : Nat) (l : URIParamsLst) (flags : Nat) (h : UclPlInv b l) :
    UclPlInv b (parseAllURIParams b offs l flags).2.2.2 :=
  uriParamsLoop_uclInv b _ offs l 0 h

/-! ### (1b) from the invariant to the hypotheses of the laws: `TypesOk`, classification of the stored elements -/

theorem ucl_mem_plist {l : URIParamsLst} {p : URIParam} :
    p ∈ l.plist ↔ ∃ k, k < l.n ∧ k < l.params.size ∧ l.params[k]! = p := by
  unfold URIParamsLst.plist URIParamsLst.pNo
  rw [List.mem_take_iff_getElem]
  constructor
  · rintro ⟨j, hj, rfl⟩
    have hj' : j < l.params.size := by
      have := hj; simp only [Array.length_toList] at this; omega
    refine ⟨j, ?_, hj', ?_⟩
    · split at hj <;> omega
    · rw [getElem!_pos l.params j hj', Array.getElem_toList]
  · rintro ⟨k, hk, hs, rfl⟩
    refine ⟨k, ?_, ?_⟩
    · simp only [Array.length_toList]; split <;> omega
    · rw [getElem!_pos l.params k hs, Array.getElem_toList]

/-- a stored parameter's recorded type is the classification (`URIParamResolve`) of its name -/
def UclCls (b : Buf) (p : URIParam) : Prop := ∃ nm, p.param.name.get? b = some nm ∧ p.t = uriParamResolve nm

theorem UclPlInv.mem_cls {b : Buf} {l : URIParamsLst} (h : UclPlInv b l) : ∀ p ∈ l.plist, UclCls b p := by
  intro p hp
  obtain ⟨k, hk, hs, rfl⟩ := ucl_mem_plist.1 hp
  exact h.cls k hk hs

theorem ucl_resolve_range (nm : Buf) :
    uriParamResolve nm ∈ [URIParamTransportF, URIParamLRF, URIParamMaddrF, URIParamUserF, URIParamMethodF,
      URIParamTTLF, URIParamOtherF] := by
  unfold uriParamResolve
  repeat' split
  all_goals simp

/-- the types ParseAllURIParams records are single bits: testing a presence bit is comparing the type -/
theorem ucl_resolve_bit (nm : Buf) (x : Nat) (hx : x ∈ [URIParamUserF, URIParamTTLF, URIParamMethodF, URIParamMaddrF]) :
    (uriParamResolve nm &&& x) ≠ 0 ↔ uriParamResolve nm = x := by
  have hr := ucl_resolve_range nm
  generalize uriParamResolve nm = t at hr
  simp only [List.mem_cons, List.not_mem_nil, or_false] at hr hx
  rcases hr with rfl | rfl | rfl | rfl | rfl | rfl | rfl <;> rcases hx with rfl | rfl | rfl | rfl <;> decide

/-- **the `types` mask is the set of types stored**, provided no parameter was dropped for lack of room -/
theorem UclPlInv.typesOk {b : Buf} {l : URIParamsLst} (h : UclPlInv b l) (hn : l.n ≤ l.params.size) : TypesOk l := by
  intro x hx
  rw [h.types hn x]
  constructor
  · rintro ⟨k, hk, hb⟩
    have hs : k < l.params.size := by omega
    obtain ⟨nm, _, ht⟩ := h.cls k hk hs
    rw [ht] at hb
    exact ⟨l.params[k]!, ucl_mem_plist.2 ⟨k, hk, hs, rfl⟩, by rw [ht]; exact (ucl_resolve_bit nm x hx).1 hb⟩
  · rintro ⟨p, hp, ht⟩
    obtain ⟨k, hk, hs, rfl⟩ := ucl_mem_plist.1 hp
    obtain ⟨nm, _, ht'⟩ := h.cls k hk hs
    refine ⟨k, hk, ?_⟩
    rw [ht'] at ht ⊢
    exact (ucl_resolve_bit nm x hx).2 ht

/-- one direction holds even when parameters were dropped: the type of every stored parameter is in the mask -/
theorem ucl_srTpGet_paramIn {b : Buf} {p : URIParam} (h : SrTpGet b p.param) : ParamIn b p := by
  obtain ⟨⟨x, hx⟩, ⟨y, hy⟩⟩ := h
  exact ⟨by rw [hx]; rfl, by rw [hy]; rfl⟩

theorem ucl_srTpGet_hdrIn {b : Buf} {p : PTokParam} (h : SrTpGet b p) : HdrIn b p := by
  obtain ⟨⟨x, hx⟩, ⟨y, hy⟩⟩ := h
  exact ⟨by rw [hx]; rfl, by rw [hy]; rfl⟩

/-- **ParseAllURIParams establishes the list hypotheses of the comparison laws** (new list of any capacity `k`, any
    flags, any verdict, any offset inside a buffer within the 65,535-byte limit): no panic; every stored parameter
    lies inside the buffer (`ParamIn`) and its recorded type is the classification of its name (`UclCls`); the type
    mask is the set of types stored (`TypesOk`) unless parameters were dropped for lack of room. -/
theorem parseAllURIParams_ucl (b : Buf) (o k flags : Nat) (hfit : b.size ≤ 65535) (ho : o ≤ b.size) :
    (parseAllURIParams b o { params := Array.replicate k {} } flags).2.2.2.pnc = false ∧
    (∀ p ∈ (parseAllURIParams b o { params := Array.replicate k {} } flags).2.2.2.plist, ParamIn b p ∧ UclCls b p) ∧
    ((parseAllURIParams b o { params := Array.replicate k {} } flags).2.2.2.more = false →
      TypesOk (parseAllURIParams b o { params := Array.replicate k {} } flags).2.2.2) := by
  have hS := parseAllURIParams_safe b o { params := Array.replicate k {} } flags hfit ho (srPlIn_new o k)
  have hI := parseAllURIParams_uclInv b o { params := Array.replicate k {} } flags (uclPlInv_new b k)
  refine ⟨hS.out.pnc, fun p hp => ⟨ucl_srTpGet_paramIn (hS.out.mem_get hfit _ p hp), hI.mem_cls p hp⟩, fun hm => ?_⟩
  apply hI.typesOk
  unfold URIParamsLst.more at hm
  simpa using hm

/-- **ParseAllURIHdrs establishes the list hypothesis of the comparison laws**: every stored header lies inside the
    buffer (`HdrIn`) -/
theorem parseAllURIHdrs_ucl (b : Buf) (o k flags : Nat) (hfit : b.size ≤ 65535) (ho : o ≤ b.size) :
    ∀ h ∈ (parseAllURIHdrs b o { hdrs := Array.replicate k {} } flags).2.2.2.hlist, HdrIn b h := by
  have hS := parseAllURIHdrs_safe b o { hdrs := Array.replicate k {} } flags ho (srHlIn_new o k)
  exact fun p hp => ucl_srTpGet_hdrIn (hS.out.mem_get hfit _ p hp)

end Sipsp
