/-
  Sipsp.Proofs.LwsSite — the white-space suspension site shared by the value parsers
  (`lwsStd`): stability and restart.
-/
import Sipsp.Proofs.RunLoop
import Sipsp.Model.Values

namespace Sipsp

variable {σ : Type}

/-- what `runLoop` does after a step result obtained at position `i` -/
def runStep (m : Machine σ) (b : Buf) (i : Nat) : Step σ → Nat × Err × σ
  | .cont i' st' => if i < i' then runLoop m b i' st' else (i, Err.lbug, st')
  | .done o e st' => (o, e, st')

theorem runLoop_eq_runStep (m : Machine σ) {b : Buf} {i : Nat} {c : UInt8} (st : σ) (h : b[i]? = some c) :
    runLoop m b i st = runStep m b i (m.step b i c st) := by
  cases hs : m.step b i c st with
  | cont i' st' => rw [runLoop_cont m h hs]; rfl
  | done o e st' => rw [runLoop_done m h hs]; rfl

/-- `lwsStd` is stable under buffer extension unless it asked for more bytes -/
theorem lwsStd_stable (b s : Buf) (i : Nat) (st : σ) (eoh : σ → Nat → Nat → Nat → Nat × Err × σ) (mb : σ → σ)
    (h : ∀ o st', lwsStd b i st eoh mb ≠ .done o .moreBytes st') :
    lwsStd (b ++ s) i st eoh mb = lwsStd b i st eoh mb := by
  unfold lwsStd at h ⊢
  rcases hsk : skipLWS b i 0 with ⟨n, crl, e⟩
  rw [hsk] at h
  have hne : e ≠ .moreBytes := by
    intro he; subst he; exact h n (mb st) rfl
  rw [skipLWS_stable b s i 0 hsk hne (by decide)]

/-- restart at a `lwsStd` site: `st1` is the state the step had already moved to when it suspended. -/
theorem lwsStd_restart (m : Machine σ) (b s : Buf) (i n crl : Nat) (st1 : σ)
    (eoh : σ → Nat → Nat → Nat → Nat × Err × σ) (mb : σ → σ) {c : UInt8}
    (hbi : b[i]? = some c) (hci : isLWSch c = true)
    (hsk : skipLWS b i 0 = (n, crl, Err.moreBytes))
    (hmb : mb st1 = st1)
    (hstep : ∀ j c', (b ++ s)[j]? = some c' → isLWSch c' = true →
      m.step (b ++ s) j c' st1 = lwsStd (b ++ s) j st1 eoh mb)
    (heoh : ∀ j j' n' crl', eoh st1 j n' crl' = eoh st1 j' n' crl')
    (heob : ∀ j, m.eob (b ++ s) j st1 = (j, Err.moreBytes, st1)) :
    runLoop m (b ++ s) n (mb st1) = runStep m (b ++ s) i (lwsStd (b ++ s) i st1 eoh mb) := by
  obtain ⟨hre, hin⟩ := skipLWS_restart b s i 0 hsk (by decide)
  rw [hmb]
  rcases hB : skipLWS (b ++ s) i 0 with ⟨n2, crl2, e2⟩
  have hBn : skipLWS (b ++ s) n 0 = (n2, crl2, e2) := hre.trans hB
  have hrange := skipLWS_range (b ++ s) n 0 hBn
  -- the original step on the extended buffer
  have horig : lwsStd (b ++ s) i st1 eoh mb =
      (match (n2, crl2, e2) with
       | (n, _, .ok) => .cont n st1
       | (n, crl, .eoh) => let r := eoh st1 i n crl; .done r.1 r.2.1 r.2.2
       | (n, _, .moreBytes) => .done n .moreBytes (mb st1)
       | (n, _, e) => .done n e st1) := by
    unfold lwsStd; rw [hB]; rfl
  cases hbn : (b ++ s)[n]? with
  | none =>
    -- nothing new at the restart point: both ask for more bytes at n
    rw [runLoop_none m st1 hbn, heob n]
    rw [skipLWS_none hbn] at hBn
    cases hBn
    rw [horig]; simp only [runStep, hmb]
  | some c' =>
    by_cases hl : isLWSch c' = true
    · rw [runLoop_eq_runStep m st1 hbn, hstep n c' hbn hl]
      unfold lwsStd; rw [hBn, hB]
      cases e2 with
      | ok =>
        have h1 : n < n2 := skipLWS_ok_gt (b ++ s) n 0 hbn hl hBn
        have h2 : i < n2 := by omega
        simp only [runStep, if_pos h1, if_pos h2]
      | eoh => simp only [runStep, heoh n i]
      | _ => rfl
    · -- a non white space byte at the restart point: the scan from i stops exactly there
      have hws : isWS c' = false := by
        simp only [isLWSch, isWS, Bool.or_eq_true, not_or, beq_iff_eq] at hl ⊢
        simp [hl.1.1.1, hl.1.1.2]
      have hcr : isCRLFch c' = false := by
        simp only [isLWSch, isCRLFch, Bool.or_eq_true, not_or, beq_iff_eq] at hl ⊢
        simp [hl.1.2, hl.2]
      rw [skipLWS_other hbn hws hcr] at hBn
      cases hBn
      rw [horig]
      simp only [runStep]
      have : i < n := by
        rcases Nat.lt_or_ge i n with h | h
        · exact h
        · have : n = i := by omega
          subst this
          rw [get?_app hbi] at hbn; cases hbn; exact absurd hci hl
      rw [if_pos this]

end Sipsp

namespace Sipsp

variable {σ : Type}

/-- restart at a `lwsStd` site, second form: the resumed run starts from the state `st1` the step had moved
    to (the `moreBytes:` bookkeeping `mb` is redone by whoever suspends next) -/
theorem lwsStd_restart' (m : Machine σ) (b s : Buf) (i n crl : Nat) (st1 : σ)
    (eoh : σ → Nat → Nat → Nat → Nat × Err × σ) (mb : σ → σ) {c : UInt8}
    (hbi : b[i]? = some c) (hci : isLWSch c = true)
    (hsk : skipLWS b i 0 = (n, crl, Err.moreBytes))
    (hstep : ∀ j c', (b ++ s)[j]? = some c' → isLWSch c' = true →
      m.step (b ++ s) j c' st1 = lwsStd (b ++ s) j st1 eoh mb)
    (heoh : ∀ j j' n' crl', eoh st1 j n' crl' = eoh st1 j' n' crl')
    (heob : ∀ j, m.eob (b ++ s) j st1 = (j, Err.moreBytes, mb st1)) :
    runLoop m (b ++ s) n st1 = runStep m (b ++ s) i (lwsStd (b ++ s) i st1 eoh mb) := by
  obtain ⟨hre, hin⟩ := skipLWS_restart b s i 0 hsk (by decide)
  rcases hB : skipLWS (b ++ s) i 0 with ⟨n2, crl2, e2⟩
  have hBn : skipLWS (b ++ s) n 0 = (n2, crl2, e2) := hre.trans hB
  have hrange := skipLWS_range (b ++ s) n 0 hBn
  have horig : lwsStd (b ++ s) i st1 eoh mb =
      (match (n2, crl2, e2) with
       | (n, _, .ok) => .cont n st1
       | (n, crl, .eoh) => let r := eoh st1 i n crl; .done r.1 r.2.1 r.2.2
       | (n, _, .moreBytes) => .done n .moreBytes (mb st1)
       | (n, _, e) => .done n e st1) := by
    unfold lwsStd; rw [hB]; rfl
  cases hbn : (b ++ s)[n]? with
  | none =>
    rw [runLoop_none m st1 hbn, heob n]
    rw [skipLWS_none hbn] at hBn
    cases hBn
    rw [horig]; simp only [runStep]
  | some c' =>
    by_cases hl : isLWSch c' = true
    · rw [runLoop_eq_runStep m st1 hbn, hstep n c' hbn hl]
      unfold lwsStd; rw [hBn, hB]
      cases e2 with
      | ok =>
        have h1 : n < n2 := skipLWS_ok_gt (b ++ s) n 0 hbn hl hBn
        have h2 : i < n2 := by omega
        simp only [runStep, if_pos h1, if_pos h2]
      | eoh => simp only [runStep, heoh n i]
      | _ => rfl
    · have hws : isWS c' = false := by
        simp only [isLWSch, isWS, Bool.or_eq_true, not_or, beq_iff_eq] at hl ⊢
        simp [hl.1.1.1, hl.1.1.2]
      have hcr : isCRLFch c' = false := by
        simp only [isLWSch, isCRLFch, Bool.or_eq_true, not_or, beq_iff_eq] at hl ⊢
        simp [hl.1.2, hl.2]
      rw [skipLWS_other hbn hws hcr] at hBn
      cases hBn
      rw [horig]
      simp only [runStep]
      have : i < n := by
        rcases Nat.lt_or_ge i n with h | h
        · exact h
        · have : n = i := by omega
          subst this
          rw [get?_app hbi] at hbn; cases hbn; exact absurd hci hl
      rw [if_pos this]

end Sipsp
