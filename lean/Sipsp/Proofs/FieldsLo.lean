/-
  Sipsp.Proofs.FieldsLo — property C05, lower bounds, order and nesting (the upper bounds — every field ends at or
  before the returned offset — are in SafeFLine … SafeMsg, the body / raw-message layout in Layout).

  Proved here (ALL buffers within the 65,535-byte limit, all offsets, flags, capacities, chunk schedules):
  (1) first line. `parseFLine_lo`: the invariant `FlLo s` (every non-empty first-line field starts at or after `s`;
      the field a suspended parse is still extending starts at or after `s`) holds of the zero object and is kept by
      every call of ParseFLine at an offset `≥ s`, whatever the verdict. `parseFLine_order`: WHENEVER ParseFLine
      (initial state, offset `o`) says OK, the reported fields are method (at `o`) < URI < version, or version (at
      `o`) < status code < reason: one after the other, separated, non-empty, the last one ending before the returned
      offset — for every input, not only for lines of the grammar.
  (2) header lines. `parseHdrLine_lo` / `parseHdrLine_own_line`: ParseHdrLine on a new header at line offset `o`, on
      OK: the name starts exactly at `o`, is not empty, the value (if set) starts after the end of the name, name and
      value end at or before the returned offset — for generic headers AND the eight typed kinds. Lower bounds of the
      value parsers: `parseCallIDVal_lo`, `parseUIntVal_lo`, `parseCLenVal_lo`, `parseCSeqVal_lo`,
      `parseAllContactValues_new_lo`, `parseAllPAIValues_new_lo` (name-addr values: `parseNameAddrPVal_vlo` of
      SafeNALo), put together by `parseBody_lo`.
  (3) header block. `parseHeaders_lo`: on OK, `HlsLo s`: every stored header and every first-of-type shortcut that is
      set starts at or after `s`, has a non-empty name and a value after the name; stored headers are in message order
      without overlap: for `j < k`, name and value of header `j` end at or before the start of the name of header `k`
      (`HlsLo.consecutive` for `k, k+1`).
  (4) message. `parseSIPMsg_lo` (one call from the initial state), `parseSIPMsg_lo_init` (object produced by Init),
      `parseSIPMsg_lo_schedule_init` (any chain of resumed calls over growing prefixes, from Init): `MsgLo o m'` —
      (1), (3) and the header values (`HvLo`: From / To value, Call-ID, CSeq, Content-Length, Expires, the running
      Contact / PAI header value and every stored contact / identity value start at or after `o`).
      `parseSIPMsg_ord` / `_init` / `_schedule_init`: `MsgOrd o m'` — the first line is in order from `o` and ends
      before an offset `o1` at or after which every stored header, shortcut and header value starts.
      `parseSIPMsg_before_body` / `_schedule_init`: everything reported about the first line and the headers
      (`MsgRelIn`) ends at or before the start of the body, which is `≥ o`.
      `MsgLo.meaning` spells the records out field by field.
  (5) CSeq nesting. `CsNest` (in `parseCSeqVal_lo`, `HvLo.cseqL`): the number starts where the CSeq value starts, ends
      at or before the start of the method, and the method ends where the value ends.
  NOT proved here: lower bounds / nesting of the sub-fields of name-addr values (display name, URI, parameters, tag
  inside the value; C09 gives their exact spans for values of the grammar); lower bounds for objects resumed in the
  middle of a header line are obtained through the one-shot equivalence (C01), not as a resumption invariant (the
  first-line invariant `FlLo` IS a resumption invariant); the `first` / `last` overflow slots of the contact list.
-/
import Sipsp.Proofs.Layout
import Sipsp.Properties.C01

namespace Sipsp

/-- a field is empty (unset fields are `⟨0,0⟩`), or it starts at or after `s` -/
def FLo (s : Nat) (f : PField) : Prop := f.len = 0 ∨ s ≤ f.offs

theorem FLo_zero (s : Nat) : FLo s {} := Or.inl rfl

theorem FLo.mono {s s' : Nat} {f : PField} (h : FLo s f) (hs : s' ≤ s) : FLo s' f := by
  rcases h with h | h
  · exact Or.inl h
  · exact Or.inr (by omega)

theorem flo_set_offs (a e : Nat) (h : a < 65536) : (PField.set a e).offs = a := by
  show trunc16 a = a
  exact trunc16_of_lt h

/-! ### (1) first line -/

/-- the five first-line fields are empty or start at or after `s` -/
structure FL5 (s : Nat) (pl : PFLine) : Prop where
  method : FLo s pl.method
  uri : FLo s pl.uri
  version : FLo s pl.version
  statusCode : FLo s pl.statusCode
  reason : FLo s pl.reason

/-- the field that a suspended first-line parse is still extending already starts at or after `s` -/
def FlPend (s : Nat) (pl : PFLine) : Prop :=
  (pl.state = .reqMethod → s ≤ pl.method.offs) ∧ (pl.state = .reqURI → s ≤ pl.uri.offs) ∧
  (pl.state = .reqVer → s ≤ pl.version.offs) ∧ (pl.state = .rplReason → s ≤ pl.reason.offs)

/-- **lower-bound invariant of the first-line object**: holds of the zero object, and is kept by every call of
    ParseFLine at an offset `≥ s` (whatever the verdict) -/
def FlLo (s : Nat) (pl : PFLine) : Prop := FL5 s pl ∧ FlPend s pl

theorem FlPend.of_idle {s : Nat} {pl : PFLine}
    (h : pl.state = .crlf ∨ pl.state = .fin ∨ pl.state = .init ∨ pl.state = .rplStatus) : FlPend s pl := by
  unfold FlPend
  rcases h with h | h | h | h <;> rw [h] <;>
    exact ⟨(fun hh => by cases hh), (fun hh => by cases hh), (fun hh => by cases hh), (fun hh => by cases hh)⟩

theorem FlPend.reqMethod {s : Nat} {pl : PFLine} (hst : pl.state = .reqMethod) (hv : s ≤ pl.method.offs) : FlPend s pl := by
  unfold FlPend; rw [hst]
  exact ⟨(fun _ => hv), (fun hh => by cases hh), (fun hh => by cases hh), (fun hh => by cases hh)⟩

theorem FlPend.reqURI {s : Nat} {pl : PFLine} (hst : pl.state = .reqURI) (hv : s ≤ pl.uri.offs) : FlPend s pl := by
  unfold FlPend; rw [hst]
  exact ⟨(fun hh => by cases hh), (fun _ => hv), (fun hh => by cases hh), (fun hh => by cases hh)⟩

theorem FlPend.reqVer {s : Nat} {pl : PFLine} (hst : pl.state = .reqVer) (hv : s ≤ pl.version.offs) : FlPend s pl := by
  unfold FlPend; rw [hst]
  exact ⟨(fun hh => by cases hh), (fun hh => by cases hh), (fun _ => hv), (fun hh => by cases hh)⟩

theorem FlPend.rplReason {s : Nat} {pl : PFLine} (hst : pl.state = .rplReason) (hv : s ≤ pl.reason.offs) : FlPend s pl := by
  unfold FlPend; rw [hst]
  exact ⟨(fun hh => by cases hh), (fun hh => by cases hh), (fun hh => by cases hh), (fun _ => hv)⟩

theorem FlLo_new (s : Nat) : FlLo s {} :=
  ⟨⟨FLo_zero s, FLo_zero s, FLo_zero s, FLo_zero s, FLo_zero s⟩, FlPend.of_idle (Or.inr (Or.inr (Or.inl rfl)))⟩

theorem flCRLF_lo (b : Buf) (i s : Nat) (pl : PFLine) (hst : pl.state = .crlf) (h : FL5 s pl) :
    FlLo s (flCRLF b i pl).2.2 := by
  unfold flCRLF
  rcases hs : skipCRLF b i with ⟨n, crl, e⟩
  cases e <;> simp only
  case ok => exact ⟨⟨h.method, h.uri, h.version, h.statusCode, h.reason⟩, FlPend.of_idle (Or.inr (Or.inl rfl))⟩
  all_goals exact ⟨h, FlPend.of_idle (Or.inl hst)⟩

theorem flReqVer_lo (b : Buf) (i s : Nat) (pl : PFLine) (hst : pl.state = .reqVer) (h : FL5 s pl)
    (hv : s ≤ pl.version.offs) : FlLo s (flReqVer b i pl).2.2 := by
  unfold flReqVer
  simp only
  split
  · exact ⟨h, FlPend.reqVer hst hv⟩
  · split
    · exact ⟨h, FlPend.reqVer hst hv⟩
    · have h5 : ∀ x : PFLine, x.method = pl.method → x.uri = pl.uri → x.version = pl.version.extend (skipToken b i) →
          x.statusCode = pl.statusCode → x.reason = pl.reason → FL5 s x := by
        intro x e1 e2 e3 e4 e5
        exact ⟨by rw [e1]; exact h.method, by rw [e2]; exact h.uri, by rw [e3]; exact Or.inr hv,
          by rw [e4]; exact h.statusCode, by rw [e5]; exact h.reason⟩
      split
      · exact ⟨h5 _ rfl rfl rfl rfl rfl, FlPend.reqVer hst hv⟩
      · exact flCRLF_lo b _ s _ rfl (h5 _ rfl rfl rfl rfl rfl)

theorem flReqURI_lo (b : Buf) (i s : Nat) (pl : PFLine) (hfit : b.size ≤ 65535) (hsi : s ≤ i)
    (hst : pl.state = .reqURI) (h : FL5 s pl) (hv : s ≤ pl.uri.offs) : FlLo s (flReqURI b i pl).2.2 := by
  unfold flReqURI
  have hge := skipToken_ge b i
  simp only
  split
  · exact ⟨h, FlPend.reqURI hst hv⟩
  · rename_i c hc
    have hlt := get?_lt hc
    split
    · exact ⟨h, FlPend.reqURI hst hv⟩
    · split
      · exact ⟨⟨h.method, Or.inr hv, h.version, h.statusCode, h.reason⟩, FlPend.reqURI hst hv⟩
      · have hso : (PField.set (skipToken b i + 1) (skipToken b i + 1)).offs = skipToken b i + 1 :=
          flo_set_offs _ _ (by omega)
        exact flReqVer_lo b _ s _ rfl
          ⟨h.method, Or.inr hv, Or.inr (by rw [hso]; omega), h.statusCode, h.reason⟩ (by rw [hso]; omega)

theorem flReqMethod_lo (b : Buf) (i s : Nat) (pl : PFLine) (hfit : b.size ≤ 65535) (hsi : s ≤ i)
    (hst : pl.state = .reqMethod) (h : FL5 s pl) (hv : s ≤ pl.method.offs) : FlLo s (flReqMethod b i pl).2.2 := by
  unfold flReqMethod
  have hge := skipToken_ge b i
  simp only
  split
  · exact ⟨h, FlPend.reqMethod hst hv⟩
  · rename_i c hc
    have hlt := get?_lt hc
    split
    · exact ⟨h, FlPend.reqMethod hst hv⟩
    · split
      · exact ⟨⟨Or.inr hv, h.uri, h.version, h.statusCode, h.reason⟩, FlPend.reqMethod hst hv⟩
      · split
        · exact ⟨⟨Or.inr hv, h.uri, h.version, h.statusCode, h.reason⟩, FlPend.reqMethod hst hv⟩
        · have hso : (PField.set (skipToken b i + 1) (skipToken b i + 1)).offs = skipToken b i + 1 :=
            flo_set_offs _ _ (by omega)
          exact flReqURI_lo b _ s _ hfit (by omega) rfl
            ⟨Or.inr hv, Or.inr (by rw [hso]; omega), h.version, h.statusCode, h.reason⟩ (by rw [hso]; omega)

theorem flRplReason_lo (b : Buf) (i s : Nat) (pl : PFLine) (hst : pl.state = .rplReason) (h : FL5 s pl)
    (hv : s ≤ pl.reason.offs) : FlLo s (flRplReason b i pl).2.2 := by
  unfold flRplReason
  rcases hs : skipLine b i with ⟨n, crl, e⟩
  cases e <;> simp only
  case ok => exact ⟨⟨h.method, h.uri, h.version, h.statusCode, Or.inr hv⟩, FlPend.of_idle (Or.inr (Or.inl rfl))⟩
  all_goals exact ⟨h, FlPend.rplReason hst hv⟩

theorem flReply_lo (b : Buf) (i0 l s : Nat) (pl : PFLine) (hfit : b.size ≤ 65535) (hsi : s ≤ i0)
    (hlen : i0 + l + 4 ≤ b.size) (h : FL5 s pl) : FlLo s (flReply b i0 l pl).2.2 := by
  unfold flReply
  simp only
  have hver : (PField.set i0 (i0 + l - 1)).offs = i0 := flo_set_offs _ _ (by omega)
  have hsc : (PField.set (i0 + l) (i0 + l + 3)).offs = i0 + l := flo_set_offs _ _ (by omega)
  have hre : (PField.set (i0 + l + 4) (i0 + l + 4)).offs = i0 + l + 4 := flo_set_offs _ _ (by omega)
  split
  · split
    · exact ⟨⟨h.method, h.uri, Or.inr (by rw [hver]; exact hsi), h.statusCode, h.reason⟩,
        FlPend.of_idle (Or.inr (Or.inr (Or.inr rfl)))⟩
    · exact flRplReason_lo b _ s _ rfl
        ⟨h.method, h.uri, Or.inr (by rw [hver]; exact hsi), Or.inr (by rw [hsc]; omega), Or.inr (by rw [hre]; omega)⟩
        (by rw [hre]; omega)
  · exact ⟨⟨h.method, h.uri, Or.inr (by rw [hver]; exact hsi), h.statusCode, h.reason⟩,
      FlPend.of_idle (Or.inr (Or.inr (Or.inr rfl)))⟩

/-- **(1) first line, lower bound** (buffers within the 65,535-byte limit): a call of ParseFLine at an offset `o ≥ s`
    keeps the lower-bound invariant, whatever the verdict; in particular, starting from the zero object at `s`, every
    non-empty first-line field starts at or after `s` -/
theorem parseFLine_lo (b : Buf) (o s : Nat) (pl : PFLine) (hfit : b.size ≤ 65535) (hs : s ≤ o) (h : FlLo s pl) :
    FlLo s (parseFLine b o pl).2.2 := by
  unfold parseFLine
  cases hst : pl.state <;> simp only
  case init =>
    split
    · exact h
    · rename_i hlen
      split
      · rename_i l hm
        have hl8 : l = 8 := by
          have hsz : (b.extract o (o + 8)).toList.length = 8 := by simp; omega
          unfold bcPrefix at hm
          have hle : sipVerSP.length ≤ (b.extract o (o + 8)).toList.length := by rw [hsz]; decide
          rw [if_neg (by omega)] at hm
          have := prefixAux_true sipVerSP _ 0 l hle hm
          simpa [sipVerSP] using this
        subst hl8
        exact flReply_lo b o 8 s pl hfit hs (by omega) h.1
      · have hso : (PField.set o o).offs = o := flo_set_offs _ _ (by omega)
        exact flReqMethod_lo b o s _ hfit hs rfl
          ⟨Or.inr (by rw [hso]; exact hs), h.1.uri, h.1.version, h.1.statusCode, h.1.reason⟩ (by rw [hso]; exact hs)
  case reqMethod => exact flReqMethod_lo b o s pl hfit hs hst h.1 (h.2.1 hst)
  case reqURI => exact flReqURI_lo b o s pl hfit hs hst h.1 (h.2.2.1 hst)
  case reqVer => exact flReqVer_lo b o s pl hst h.1 (h.2.2.2.1 hst)
  case crlf => exact flCRLF_lo b o s pl hst h.1
  case rplReason => exact flRplReason_lo b o s pl hst h.1 (h.2.2.2.2 hst)
  all_goals exact ⟨⟨h.1.method, h.1.uri, h.1.version, h.1.statusCode, h.1.reason⟩, FlPend.of_idle (Or.inr (Or.inl rfl))⟩

/-! #### first-line order: whenever ParseFLine says OK (from the initial state) -/

theorem flo_extend_end (p : PField) (j : Nat) (h1 : p.offs ≤ j) (h2 : j < 65536) :
    (p.extend j).offs = p.offs ∧ (p.extend j).offs + (p.extend j).len = j := by
  refine ⟨rfl, ?_⟩
  show p.offs + (trunc16 j + 65536 - p.offs) % 65536 = j
  unfold trunc16
  omega

theorem flo_set_end (a e : Nat) (h1 : a ≤ e) (h2 : e < 65536) :
    (PField.set a e).offs = a ∧ (PField.set a e).offs + (PField.set a e).len = e := by
  show trunc16 a = a ∧ trunc16 a + trunc16 (e - a) = e
  unfold trunc16
  omega

/-- the request line as reported: method, URI, version, in this order, separated, none empty; the method starts at
    `o` and the version ends before the returned offset `o'` -/
structure FlOrdReq (o o' : Nat) (pl : PFLine) : Prop where
  mO : pl.method.offs = o
  mNE : 0 < pl.method.len
  mu : pl.method.offs + pl.method.len < pl.uri.offs
  uNE : 0 < pl.uri.len
  uv : pl.uri.offs + pl.uri.len < pl.version.offs
  vNE : 0 < pl.version.len
  vE : pl.version.offs + pl.version.len < o'

/-- the status line as reported: version, status code, reason, in this order, separated; the version starts at `o`
    and the reason ends before the returned offset `o'` -/
structure FlOrdRpl (o o' : Nat) (pl : PFLine) : Prop where
  vO : pl.version.offs = o
  vNE : 0 < pl.version.len
  vs : pl.version.offs + pl.version.len < pl.statusCode.offs
  sNE : 0 < pl.statusCode.len
  sr : pl.statusCode.offs + pl.statusCode.len < pl.reason.offs
  rE : pl.reason.offs + pl.reason.len < o'

theorem flo_isEmpty_pos {f : PField} (h : ¬ f.isEmpty = true) : 0 < f.len := by
  unfold PField.isEmpty at h
  simp at h
  omega

theorem flCRLF_ok_ord (b : Buf) (i : Nat) (pl : PFLine) {o' : Nat} {pl' : PFLine}
    (hr : flCRLF b i pl = (o', .ok, pl')) :
    i < o' ∧ pl'.method = pl.method ∧ pl'.uri = pl.uri ∧ pl'.version = pl.version := by
  unfold flCRLF at hr
  rcases hs : skipCRLF b i with ⟨n, crl, e⟩
  rw [hs] at hr
  cases e <;> simp only [Prod.mk.injEq] at hr
  case ok => obtain ⟨rfl, _, rfl⟩ := hr; exact ⟨skipCRLF_ok_gt hs, rfl, rfl, rfl⟩
  all_goals exact absurd hr.2.1 (by decide)

theorem flReqVer_ok_ord (b : Buf) (i : Nat) (pl : PFLine) (hfit : b.size ≤ 65535) (hv : pl.version.offs ≤ i)
    {o' : Nat} {pl' : PFLine} (hr : flReqVer b i pl = (o', .ok, pl')) :
    pl'.version.offs = pl.version.offs ∧ 0 < pl'.version.len ∧ pl'.version.offs + pl'.version.len < o' ∧
    pl'.method = pl.method ∧ pl'.uri = pl.uri := by
  unfold flReqVer at hr
  have hge := skipToken_ge b i
  simp only at hr
  split at hr
  · cases hr
  · rename_i c hc
    have hlt := get?_lt hc
    split at hr
    · cases hr
    · split at hr
      · cases hr
      · rename_i hne
        obtain ⟨h1, h2, h3, h4⟩ := flCRLF_ok_ord _ _ _ hr
        obtain ⟨e1, e2⟩ := flo_extend_end pl.version (skipToken b i) (by omega) (by omega)
        rw [h4]
        exact ⟨e1, flo_isEmpty_pos hne, by show (pl.version.extend _).offs + (pl.version.extend _).len < o'; omega, h2, h3⟩

theorem flReqURI_ok_ord (b : Buf) (i : Nat) (pl : PFLine) (hfit : b.size ≤ 65535) (hv : pl.uri.offs ≤ i)
    {o' : Nat} {pl' : PFLine} (hr : flReqURI b i pl = (o', .ok, pl')) :
    pl'.uri.offs = pl.uri.offs ∧ 0 < pl'.uri.len ∧ pl'.uri.offs + pl'.uri.len < pl'.version.offs ∧
    0 < pl'.version.len ∧ pl'.version.offs + pl'.version.len < o' ∧ pl'.method = pl.method := by
  unfold flReqURI at hr
  have hge := skipToken_ge b i
  simp only at hr
  split at hr
  · cases hr
  · rename_i c hc
    have hlt := get?_lt hc
    split at hr
    · cases hr
    · split at hr
      · cases hr
      · rename_i hne
        have hso : (PField.set (skipToken b i + 1) (skipToken b i + 1)).offs = skipToken b i + 1 :=
          flo_set_offs _ _ (by omega)
        obtain ⟨h1, h2, h3, h4, h5⟩ := flReqVer_ok_ord b _ _ hfit (by rw [hso]; exact Nat.le_refl _) hr
        obtain ⟨e1, e2⟩ := flo_extend_end pl.uri (skipToken b i) (by omega) (by omega)
        have h1' : pl'.version.offs = skipToken b i + 1 := by rw [h1]; exact hso
        rw [h5]
        exact ⟨e1, flo_isEmpty_pos hne,
          by show (pl.uri.extend _).offs + (pl.uri.extend _).len < pl'.version.offs; omega, h2, h3, h4⟩

theorem flReqMethod_ok_ord (b : Buf) (i : Nat) (pl : PFLine) (hfit : b.size ≤ 65535) (hv : pl.method.offs ≤ i)
    {o' : Nat} {pl' : PFLine} (hr : flReqMethod b i pl = (o', .ok, pl')) : FlOrdReq pl.method.offs o' pl' := by
  unfold flReqMethod at hr
  have hge := skipToken_ge b i
  simp only at hr
  split at hr
  · cases hr
  · rename_i c hc
    have hlt := get?_lt hc
    split at hr
    · cases hr
    · split at hr
      · cases hr
      · rename_i hne
        split at hr
        · cases hr
        · have hso : (PField.set (skipToken b i + 1) (skipToken b i + 1)).offs = skipToken b i + 1 :=
            flo_set_offs _ _ (by omega)
          obtain ⟨h1, h2, h3, h4, h5, h6⟩ := flReqURI_ok_ord b _ _ hfit (by rw [hso]; exact Nat.le_refl _) hr
          obtain ⟨e1, e2⟩ := flo_extend_end pl.method (skipToken b i) (by omega) (by omega)
          have h1' : pl'.uri.offs = skipToken b i + 1 := by rw [h1]; exact hso
          refine ⟨by rw [h6]; exact e1, by rw [h6]; exact flo_isEmpty_pos hne, ?_, h2, h3, h4, h5⟩
          rw [h6]
          show (pl.method.extend _).offs + (pl.method.extend _).len < pl'.uri.offs
          omega

theorem flRplReason_ok_ord (b : Buf) (i : Nat) (pl : PFLine) (hfit : b.size ≤ 65535) (hv : pl.reason.offs ≤ i)
    {o' : Nat} {pl' : PFLine} (hr : flRplReason b i pl = (o', .ok, pl')) :
    pl'.reason.offs = pl.reason.offs ∧ pl'.reason.offs + pl'.reason.len < o' ∧ pl'.version = pl.version ∧
    pl'.statusCode = pl.statusCode := by
  unfold flRplReason skipLine at hr
  have hge := skipToEOL_ge b i
  rcases hs : skipCRLF b (skipToEOL b i) with ⟨n, crl, e⟩
  rw [hs] at hr
  have hrg := skipCRLF_range hs
  cases e <;> simp only [Prod.mk.injEq] at hr
  case ok =>
    obtain ⟨rfl, _, rfl⟩ := hr
    have h3 := hrg.2.2.1 rfl
    obtain ⟨e1, e2⟩ := flo_extend_end pl.reason (n - crl) (by omega) (by omega)
    exact ⟨e1, by show (pl.reason.extend _).offs + (pl.reason.extend _).len < n; omega, rfl, rfl⟩
  all_goals exact absurd hr.2.1 (by decide)

theorem flReply_ok_ord (b : Buf) (i0 : Nat) (pl : PFLine) (hfit : b.size ≤ 65535) (hlen : i0 + 14 ≤ b.size)
    {o' : Nat} {pl' : PFLine} (hr : flReply b i0 8 pl = (o', .ok, pl')) : FlOrdRpl i0 o' pl' := by
  unfold flReply at hr
  simp only at hr
  split at hr
  · split at hr
    · cases hr
    · obtain ⟨v1, v2⟩ := flo_set_end i0 (i0 + 8 - 1) (by omega) (by omega)
      obtain ⟨s1, s2⟩ := flo_set_end (i0 + 8) (i0 + 8 + 3) (by omega) (by omega)
      obtain ⟨r1, r2⟩ := flo_set_end (i0 + 8 + 4) (i0 + 8 + 4) (by omega) (by omega)
      obtain ⟨h1, h2, h3, h4⟩ := flRplReason_ok_ord b _ _ hfit (by rw [r1]; exact Nat.le_refl _) hr
      have h1' : pl'.reason.offs = i0 + 8 + 4 := by rw [h1]; exact r1
      refine ⟨by rw [h3]; exact v1, ?_, ?_, ?_, ?_, h2⟩
      · rw [h3]; show 0 < (PField.set i0 (i0 + 8 - 1)).len; omega
      · rw [h3, h4]
        show (PField.set i0 (i0 + 8 - 1)).offs + (PField.set i0 (i0 + 8 - 1)).len < (PField.set (i0 + 8) (i0 + 8 + 3)).offs
        omega
      · rw [h4]; show 0 < (PField.set (i0 + 8) (i0 + 8 + 3)).len; omega
      · rw [h4]
        show (PField.set (i0 + 8) (i0 + 8 + 3)).offs + (PField.set (i0 + 8) (i0 + 8 + 3)).len < pl'.reason.offs
        omega
  · cases hr

/-- **(1) first-line order, for every input** (buffers within the 65,535-byte limit): whenever ParseFLine, called
    at `o` on an object in its initial state, says OK, the reported fields are those of a request line — method
    (starting at `o`), URI, version, one after the other, separated, none empty — or those of a status line —
    version (starting at `o`), status code, reason —, and the last one ends before the returned offset -/
theorem parseFLine_order (b : Buf) (o : Nat) (pl : PFLine) (hfit : b.size ≤ 65535) (hst : pl.state = .init)
    {o' : Nat} {pl' : PFLine} (hr : parseFLine b o pl = (o', .ok, pl')) : FlOrdReq o o' pl' ∨ FlOrdRpl o o' pl' := by
  unfold parseFLine at hr
  rw [hst] at hr
  simp only at hr
  split at hr
  · cases hr
  · rename_i hlen
    split at hr
    · rename_i l hm
      have hl8 : l = 8 := by
        have hsz : (b.extract o (o + 8)).toList.length = 8 := by simp; omega
        unfold bcPrefix at hm
        have hle : sipVerSP.length ≤ (b.extract o (o + 8)).toList.length := by rw [hsz]; decide
        rw [if_neg (by omega)] at hm
        have := prefixAux_true sipVerSP _ 0 l hle hm
        simpa [sipVerSP] using this
      subst hl8
      exact Or.inr (flReply_ok_ord b o pl hfit (by omega) hr)
    · have hso : (PField.set o o).offs = o := flo_set_offs _ _ (by omega)
      have := flReqMethod_ok_ord b o _ hfit (by show (PField.set o o).offs ≤ o; rw [hso]; exact Nat.le_refl _) hr
      rw [show ({ pl with state := FLState.reqMethod, method := PField.set o o } : PFLine).method.offs = o from hso] at this
      exact Or.inl this

/-! ### (2a) header values: Call-ID, unsigned integers, CSeq -/

/-- lower-bound invariant of the Call-ID object at loop position `i`: the saved start (`found`) resp. the reported
    field (`fend`, `fin`) lies at or after `lo` -/
def CiLoI (lo i : Nat) (st : PCallIDBody) : Prop :=
  (st.state = .found → lo ≤ st.soffs ∧ st.soffs ≤ i) ∧ (st.state = .fend ∨ st.state = .fin → lo ≤ st.callID.offs)

theorem CiLoI.mono {lo i j : Nat} {st : PCallIDBody} (h : CiLoI lo i st) (hij : i ≤ j) : CiLoI lo j st :=
  ⟨fun hs => ⟨(h.1 hs).1, by have := (h.1 hs).2; omega⟩, h.2⟩

theorem CiLoI_init (lo i : Nat) (st : PCallIDBody) (h : st.state = .init) : CiLoI lo i st :=
  ⟨(fun hh => by rw [h] at hh; cases hh), (fun hh => by rw [h] at hh; rcases hh with hh | hh <;> cases hh)⟩

theorem ciEOH_lo (lo i n crl : Nat) (st : PCallIDBody) (hi : i < 65536) (h : CiLoI lo i st)
    (hok : (ciEOH st i n crl).2.1 = .ok) : lo ≤ (ciEOH st i n crl).2.2.callID.offs := by
  unfold ciEOH at hok ⊢
  cases hst : st.state <;> rw [hst] at hok <;> simp only at hok ⊢
  · cases hok
  · have := h.1 hst
    show lo ≤ (PField.set st.soffs i).offs
    rw [flo_set_offs _ _ (by omega)]; exact this.1
  · exact h.2 (Or.inl hst)
  · cases hok

/-- what a finishing step of a value parser must establish: on OK, the post-condition `R` -/
def LoT {σ : Type} (R : σ → Prop) : Nat → Err → σ → Prop := fun _ e s => e = .ok → R s

theorem LoT.err {σ : Type} {R : σ → Prop} {n : Nat} {e : Err} {s : σ} (h : e ≠ .ok) : LoT R n e s := fun hh => absurd hh h

theorem ciStep_lo (b : Buf) (i lo : Nat) (c : UInt8) (st : PCallIDBody) (hfit : b.size ≤ 65535) (hb : b[i]? = some c)
    (hlo : lo ≤ i) (h : CiLoI lo i st) :
    StepAll2 (fun j s => lo ≤ j ∧ CiLoI lo j s) (LoT fun s => lo ≤ s.callID.offs) (ciStep b i c st) := by
  have hlt := get?_lt hb
  have key : ∀ s1 : PCallIDBody, CiLoI lo i s1 →
      StepAll2 (fun j s => lo ≤ j ∧ CiLoI lo j s) (LoT fun s => lo ≤ s.callID.offs) (lwsStd b i s1 ciEOH id) := by
    intro s1 h1
    exact lwsStd_all2 b i s1 ciEOH id _ _ (by omega) (fun n a1 _ => ⟨by omega, h1.mono a1⟩)
      (fun n _ _ hh => by cases hh) (fun n _ _ hh => by cases hh)
      (fun n crl _ _ _ => ciEOH_lo lo i n crl s1 (by omega) h1)
  unfold ciStep
  by_cases hl : isLWSch c = true
  · rw [if_pos hl]
    cases hst : st.state <;> simp only
    · exact key _ h
    · refine key _ ⟨(fun hh => by cases hh), fun _ => ?_⟩
      have := h.1 hst
      show lo ≤ (PField.set st.soffs i).offs
      rw [flo_set_offs _ _ (by omega)]; exact this.1
    · exact key _ h
    · exact ⟨by omega, h.mono (by omega)⟩
  · rw [if_neg hl]
    cases hst : st.state <;> simp only
    · exact ⟨by omega, (fun _ => ⟨hlo, by show i ≤ i + 1; omega⟩), (fun hh => by rcases hh with hh | hh <;> cases hh)⟩
    · exact ⟨by omega, h.mono (by omega)⟩
    · exact (fun hh => by cases hh)
    · exact ⟨by omega, h.mono (by omega)⟩

/-- **Call-ID, lower bound**: after OK the reported Call-ID starts at or after `lo` (`≤` the offset at which the
    parse of the value started, resp. for which the invariant held) -/
theorem parseCallIDVal_lo (b : Buf) (o lo : Nat) (st : PCallIDBody) (hfit : b.size ≤ 65535) (hlo : lo ≤ o)
    (h : CiLoI lo o st) {o' : Nat} {st' : PCallIDBody} (hr : parseCallIDVal b o st = (o', .ok, st')) :
    lo ≤ st'.callID.offs := by
  unfold parseCallIDVal at hr
  split at hr
  · rename_i hf; cases hr; exact h.2 (Or.inr hf)
  · have := runLoop_safe2 ciMachine b (fun j s => lo ≤ j ∧ CiLoI lo j s) (LoT fun s => lo ≤ s.callID.offs) ci_progress
      (fun i c s hb hs => ciStep_lo b i lo c s hfit hb hs.1 hs.2) (fun i s _ hh => by cases hh) o st ⟨hlo, h⟩
    rw [hr] at this
    exact this rfl

/-! #### unsigned integers -/

def ClLoI (lo i : Nat) (st : PUIntBody) : Prop :=
  (st.state = .found → lo ≤ st.soffs ∧ st.soffs ≤ i) ∧ (st.state = .fend ∨ st.state = .fin → lo ≤ st.sVal.offs)

theorem ClLoI.mono {lo i j : Nat} {st : PUIntBody} (h : ClLoI lo i st) (hij : i ≤ j) : ClLoI lo j st :=
  ⟨fun hs => ⟨(h.1 hs).1, by have := (h.1 hs).2; omega⟩, h.2⟩

theorem ClLoI_init (lo i : Nat) (st : PUIntBody) (h : st.state = .init) : ClLoI lo i st :=
  ⟨(fun hh => by rw [h] at hh; cases hh), (fun hh => by rw [h] at hh; rcases hh with hh | hh <;> cases hh)⟩

theorem clEOH_lo (lo i n crl : Nat) (st : PUIntBody) (hi : i < 65536) (h : ClLoI lo i st)
    (hok : (clEOH st i n crl).2.1 = .ok) : lo ≤ (clEOH st i n crl).2.2.sVal.offs := by
  unfold clEOH at hok ⊢
  cases hst : st.state <;> rw [hst] at hok <;> simp only at hok ⊢
  · cases hok
  · have := h.1 hst
    show lo ≤ (PField.set st.soffs i).offs
    rw [flo_set_offs _ _ (by omega)]; exact this.1
  · exact h.2 (Or.inl hst)
  · cases hok

theorem clStep_lo (b : Buf) (i lo : Nat) (c : UInt8) (st : PUIntBody) (hfit : b.size ≤ 65535) (hb : b[i]? = some c)
    (hlo : lo ≤ i) (h : ClLoI lo i st) :
    StepAll2 (fun j s => lo ≤ j ∧ ClLoI lo j s) (LoT fun s => lo ≤ s.sVal.offs) (clStep b i c st) := by
  have hlt := get?_lt hb
  have key : ∀ s1 : PUIntBody, ClLoI lo i s1 →
      StepAll2 (fun j s => lo ≤ j ∧ ClLoI lo j s) (LoT fun s => lo ≤ s.sVal.offs) (lwsStd b i s1 clEOH id) := by
    intro s1 h1
    exact lwsStd_all2 b i s1 clEOH id _ _ (by omega) (fun n a1 _ => ⟨by omega, h1.mono a1⟩)
      (fun n _ _ hh => by cases hh) (fun n _ _ hh => by cases hh)
      (fun n crl _ _ _ => clEOH_lo lo i n crl s1 (by omega) h1)
  unfold clStep
  by_cases hl : isLWSch c = true
  · rw [if_pos hl]
    cases hst : st.state <;> simp only
    · exact key _ h
    · refine key _ ⟨(fun hh => by cases hh), fun _ => ?_⟩
      have := h.1 hst
      show lo ≤ (PField.set st.soffs i).offs
      rw [flo_set_offs _ _ (by omega)]; exact this.1
    · exact key _ h
    · exact ⟨by omega, h.mono (by omega)⟩
  · rw [if_neg hl]
    by_cases hd : isDigit c = true
    · rw [if_pos hd]
      cases hst : st.state <;> simp only
      · exact ⟨by omega, (fun _ => ⟨hlo, by show i ≤ i + 1; omega⟩), (fun hh => by rcases hh with hh | hh <;> cases hh)⟩
      · split
        · exact (fun hh => by cases hh)
        · have := h.1 hst
          exact ⟨by omega, (fun _ => ⟨this.1, by show st.soffs ≤ i + 1; omega⟩),
            (fun hh => by rcases hh with hh | hh <;> cases hh)⟩
      · exact (fun hh => by cases hh)
      · exact ⟨by omega, h.mono (by omega)⟩
    · rw [if_neg hd]; exact (fun hh => by cases hh)

/-- **Expires, lower bound** -/
theorem parseUIntVal_lo (b : Buf) (o lo : Nat) (st : PUIntBody) (hfit : b.size ≤ 65535) (hlo : lo ≤ o)
    (h : ClLoI lo o st) {o' : Nat} {st' : PUIntBody} (hr : parseUIntVal b o st = (o', .ok, st')) :
    lo ≤ st'.sVal.offs := by
  unfold parseUIntVal at hr
  split at hr
  · rename_i hf; cases hr; exact h.2 (Or.inr hf)
  · have := runLoop_safe2 clMachine b (fun j s => lo ≤ j ∧ ClLoI lo j s) (LoT fun s => lo ≤ s.sVal.offs) cl_progress
      (fun i c s hb hs => clStep_lo b i lo c s hfit hb hs.1 hs.2) (fun i s _ hh => by cases hh) o st ⟨hlo, h⟩
    rw [hr] at this
    exact this rfl

/-- **Content-Length, lower bound** -/
theorem parseCLenVal_lo (b : Buf) (o lo : Nat) (st : PUIntBody) (hfit : b.size ≤ 65535) (hlo : lo ≤ o)
    (h : ClLoI lo o st) {o' : Nat} {st' : PUIntBody} (hr : parseCLenVal b o st = (o', .ok, st')) :
    lo ≤ st'.sVal.offs := by
  unfold parseCLenVal at hr
  rcases hp : parseUIntVal b o st with ⟨o1, e1, s1⟩
  rw [hp] at hr
  cases e1 <;> simp only at hr <;> try (cases hr; done)
  split at hr
  · cases hr
  · cases hr; exact parseUIntVal_lo b o lo st hfit hlo h hp

/-! #### CSeq: lower bound and nesting (5) -/

/-- **CSeq nesting**: the value starts at or after `lo`; the number starts where the value starts and ends at or
    before the start of the method; the method ends where the value ends -/
structure CsNest (lo : Nat) (st : PCSeqBody) : Prop where
  lo : lo ≤ st.v.offs
  cseqO : st.cseq.offs = st.v.offs
  order : st.cseq.offs + st.cseq.len ≤ st.method.offs
  methE : st.method.offs + st.method.len = st.v.offs + st.v.len

def CsLoI (lo i : Nat) (st : PCSeqBody) : Prop :=
  (st.state = .foundDigit → lo ≤ st.soffs ∧ st.soffs ≤ i) ∧
  (st.state = .endDigit → lo ≤ st.v.offs ∧ st.cseq = st.v ∧ st.v.offs + st.v.len ≤ i) ∧
  (st.state = .foundMethod →
    lo ≤ st.v.offs ∧ st.cseq.offs = st.v.offs ∧ st.cseq.offs + st.cseq.len ≤ st.soffs ∧ st.soffs ≤ i) ∧
  (st.state = .fend ∨ st.state = .fin → CsNest lo st)

theorem CsLoI.mono {lo i j : Nat} {st : PCSeqBody} (h : CsLoI lo i st) (hij : i ≤ j) : CsLoI lo j st :=
  ⟨fun hs => ⟨(h.1 hs).1, by have := (h.1 hs).2; omega⟩,
   fun hs => ⟨(h.2.1 hs).1, (h.2.1 hs).2.1, by have := (h.2.1 hs).2.2; omega⟩,
   fun hs => ⟨(h.2.2.1 hs).1, (h.2.2.1 hs).2.1, (h.2.2.1 hs).2.2.1, by have := (h.2.2.1 hs).2.2.2; omega⟩, h.2.2.2⟩

theorem CsLoI_init (lo i : Nat) (st : PCSeqBody) (h : st.state = .init) : CsLoI lo i st :=
  ⟨(fun hh => by rw [h] at hh; cases hh), (fun hh => by rw [h] at hh; cases hh), (fun hh => by rw [h] at hh; cases hh),
   (fun hh => by rw [h] at hh; rcases hh with hh | hh <;> cases hh)⟩

theorem csSetMethod_nest (lo i : Nat) (st : PCSeqBody) (hi : i < 65536) (h1 : lo ≤ st.v.offs)
    (h2 : st.cseq.offs = st.v.offs) (h3 : st.cseq.offs + st.cseq.len ≤ st.soffs) (h4 : st.soffs ≤ i) :
    CsNest lo (csSetMethod st i) := by
  refine ⟨?_, ?_, ?_, ?_⟩ <;> simp only [csSetMethod, PField.set, PField.extend, trunc16] <;> omega

theorem csFinish_lo (lo : Nat) (st : PCSeqBody) (b : Buf) (n crl : Nat) (h : CsNest lo st)
    (hok : (csFinish st b n crl).2.1 = .ok) : CsNest lo (csFinish st b n crl).2.2 := by
  unfold csFinish at hok ⊢
  simp only at hok ⊢
  split
  · rename_i hc; rw [if_pos hc] at hok; cases hok
  · split <;> exact ⟨h.lo, h.cseqO, h.order, h.methE⟩

theorem csEOH_lo (b : Buf) (lo i n crl : Nat) (st : PCSeqBody) (hi : i < 65536) (h : CsLoI lo i st)
    (hok : (csEOH b st i n crl).2.1 = .ok) : CsNest lo (csEOH b st i n crl).2.2 := by
  unfold csEOH at hok ⊢
  cases hst : st.state <;> rw [hst] at hok <;> simp only at hok ⊢
  · cases hok
  · cases hok
  · cases hok
  · obtain ⟨a1, a2, a3, a4⟩ := h.2.2.1 hst
    exact csFinish_lo lo _ b n crl (csSetMethod_nest lo i st hi a1 a2 a3 a4) hok
  · exact csFinish_lo lo _ b n crl (h.2.2.2 (Or.inl hst)) hok
  · cases hok

theorem csStep_lo (b : Buf) (i lo : Nat) (c : UInt8) (st : PCSeqBody) (hfit : b.size ≤ 65535) (hb : b[i]? = some c)
    (hlo : lo ≤ i) (h : CsLoI lo i st) :
    StepAll2 (fun j s => lo ≤ j ∧ CsLoI lo j s) (LoT (CsNest lo)) (csStep b i c st) := by
  have hlt := get?_lt hb
  have key : ∀ s1 : PCSeqBody, CsLoI lo i s1 →
      StepAll2 (fun j s => lo ≤ j ∧ CsLoI lo j s) (LoT (CsNest lo)) (lwsStd b i s1 (csEOH b) id) := by
    intro s1 h1
    exact lwsStd_all2 b i s1 (csEOH b) id _ _ (by omega) (fun n a1 _ => ⟨by omega, h1.mono a1⟩)
      (fun n _ _ hh => by cases hh) (fun n _ _ hh => by cases hh)
      (fun n crl _ _ _ => csEOH_lo b lo i n crl s1 (by omega) h1)
  -- the step `endDigit → foundMethod` (first byte of the method)
  have hmeth : st.state = .endDigit →
      lo ≤ i + 1 ∧ CsLoI lo (i + 1) { st with state := .foundMethod, soffs := i } := by
    intro hst
    obtain ⟨a1, a2, a3⟩ := h.2.1 hst
    refine ⟨by omega, (fun hh => by cases hh), (fun hh => by cases hh), (fun _ => ⟨a1, ?_, ?_, ?_⟩),
      (fun hh => by rcases hh with hh | hh <;> cases hh)⟩
    · show st.cseq.offs = st.v.offs
      rw [a2]
    · show st.cseq.offs + st.cseq.len ≤ i
      rw [a2]; exact a3
    · show i ≤ i + 1
      omega
  unfold csStep
  by_cases hl : isLWSch c = true
  · rw [if_pos hl]
    cases hst : st.state <;> simp only
    · exact key _ h
    · obtain ⟨a1, a2⟩ := h.1 hst
      have hso : (PField.set st.soffs i).offs = st.soffs := flo_set_offs _ _ (by omega)
      refine key _ ⟨(fun hh => by cases hh), (fun _ => ⟨?_, rfl, ?_⟩), (fun hh => by cases hh),
        (fun hh => by rcases hh with hh | hh <;> cases hh)⟩
      · show lo ≤ (PField.set st.soffs i).offs
        rw [hso]; exact a1
      · exact set_inside st.soffs i i a2 (Nat.le_refl _)
    · exact key _ h
    · obtain ⟨a1, a2, a3, a4⟩ := h.2.2.1 hst
      have hn := csSetMethod_nest lo i st (by omega) a1 a2 a3 a4
      exact key _ ⟨(fun hh => by cases hh), (fun hh => by cases hh), (fun hh => by cases hh),
        (fun _ => ⟨hn.lo, hn.cseqO, hn.order, hn.methE⟩)⟩
    · exact key _ h
    · exact ⟨by omega, h.mono (by omega)⟩
  · rw [if_neg hl]
    by_cases hd : isDigit c = true
    · rw [if_pos hd]
      cases hst : st.state <;> simp only
      · exact ⟨by omega, (fun _ => ⟨hlo, by show i ≤ i + 1; omega⟩), (fun hh => by cases hh), (fun hh => by cases hh),
          (fun hh => by rcases hh with hh | hh <;> cases hh)⟩
      · split
        · exact (fun hh => by cases hh)
        · have := h.1 hst
          exact ⟨by omega, (fun _ => ⟨this.1, by show st.soffs ≤ i + 1; omega⟩), (fun hh => by cases hh),
            (fun hh => by cases hh), (fun hh => by rcases hh with hh | hh <;> cases hh)⟩
      · exact hmeth hst
      · exact ⟨by omega, h.mono (by omega)⟩
      · exact (fun hh => by cases hh)
      · exact ⟨by omega, h.mono (by omega)⟩
    · rw [if_neg hd]
      cases hst : st.state <;> simp only
      · exact (fun hh => by cases hh)
      · exact (fun hh => by cases hh)
      · exact hmeth hst
      · exact ⟨by omega, h.mono (by omega)⟩
      · exact (fun hh => by cases hh)
      · exact ⟨by omega, h.mono (by omega)⟩

/-- **CSeq, lower bound and nesting (5)**: after OK the CSeq value starts at or after `lo`, the number starts where
    the value starts and ends at or before the method, and the method ends where the value ends -/
theorem parseCSeqVal_lo (b : Buf) (o lo : Nat) (st : PCSeqBody) (hfit : b.size ≤ 65535) (hlo : lo ≤ o)
    (h : CsLoI lo o st) {o' : Nat} {st' : PCSeqBody} (hr : parseCSeqVal b o st = (o', .ok, st')) :
    CsNest lo st' := by
  unfold parseCSeqVal at hr
  split at hr
  · rename_i hf; cases hr; exact h.2.2.2 (Or.inr hf)
  · have := runLoop_safe2 csMachine b (fun j s => lo ≤ j ∧ CsLoI lo j s) (LoT (CsNest lo)) cs_progress
      (fun i c s hb hs => csStep_lo b i lo c s hfit hb hs.1 hs.2) (fun i s _ hh => by cases hh) o st ⟨hlo, h⟩
    rw [hr] at this
    exact this rfl

/-! #### Contact / P-Asserted-Identity value lists -/

/-- lower bounds of a contact list: the running extent of the header value starts at or after `lo` (the start of
    the value of the current header line) unless it is empty; every stored value starts at or after `s` -/
structure CtLo (lo s : Nat) (c : PContacts) : Prop where
  lhv : FLo lo c.lastHVal
  stored : ∀ k, k < c.n → k < c.vals.size → s ≤ c.vals[k]!.v.offs

theorem flo_account (lo : Nat) (c : PContacts) (pf : PFromBody) (hl : FLo lo c.lastHVal) (hv : lo ≤ pf.v.offs) :
    FLo lo (c.account pf).lastHVal := by
  rw [account_lhv]
  split
  · exact Or.inr hv
  · rename_i he
    rcases hl with h0 | h0
    · exfalso; apply he; simp [PField.isEmpty, h0]
    · exact Or.inr h0

theorem contactsLoop_lo (b : Buf) (offs lo s : Nat) (c : PContacts) (hfit : b.size ≤ 65535) (hs : s ≤ lo)
    (hlo : lo ≤ offs) (hcl : CtClean c) (hcur : c.cur = {}) (h : CtLo lo s c) :
    CtLo lo s (contactsLoop b offs c).2.2 := by
  induction hk : b.size - offs using Nat.strongRecOn generalizing offs c with
  | _ k ih =>
    rw [contactsLoop]
    rcases hp : parseOneContact b offs c.cur with ⟨next, e1, pf⟩
    have hvd : VDone offs e1 pf :=
      parseNameAddrPVal_vlo HdrContact b offs offs c.cur hfit (Nat.le_refl _) (by rw [hcur]; decide)
        (Or.inl (by rw [hcur])) hp
    have s1 := setCur_scalars c pf
    have hset : CtLo lo s (c.setCur pf) :=
      ⟨by rw [s1.2.2.2.1]; exact h.lhv, fun k hk hsz => by
        rw [setCur_n] at hk; rw [setCur_size] at hsz
        rw [setCur_vals_ne c pf k (by omega)]; exact h.stored k hk hsz⟩
    have hacc : Err.complete e1 → CtLo lo s ((c.setCur pf).account pf) := by
      intro hc
      have hv := hvd.1 hc
      refine ⟨flo_account lo _ pf hset.lhv (by omega), ?_⟩
      intro k hk hsz
      rw [account_n, setCur_n] at hk
      rw [account_vals, setCur_size] at hsz
      rw [account_vals]
      exact setCur_storedP (fun p => s ≤ p.v.offs) c pf h.stored (by omega) k hk hsz
    cases e1 <;> simp only
    case ok => exact hacc (Or.inl rfl)
    case moreValues =>
      have hnx : (if c.n < c.vals.size then (c.setCur pf).account pf
          else { (c.setCur pf).account pf with last := {} }) = c.next pf := rfl
      rw [hnx]
      have hcl' := next_clean c pf hcl
      have hL : CtLo lo s (c.next pf) := by
        have := hacc (Or.inr rfl)
        unfold PContacts.next; split
        · exact this
        · exact ⟨this.lhv, this.stored⟩
      by_cases hg : offs < next ∧ next ≤ b.size
      · rw [if_pos hg]
        exact ih (b.size - next) (by omega) next (c.next pf) (by omega) hcl'.1 hcl'.2 hL rfl
      · rw [if_neg hg]; exact hL
    case moreBytes => exact hset
    all_goals
      split
      · exact hset
      · exact ⟨h.lhv, h.stored⟩

/-- **Contact, lower bounds**: parsing the value list of a new Contact header line at offset `o`: the reported
    extent of the header value is empty or starts at or after `o`; stored values keep their lower bound `s ≤ o` -/
theorem parseAllContactValues_new_lo (b : Buf) (o s : Nat) (c : PContacts) (k : Nat) (hfit : b.size ≤ 65535)
    (hs : s ≤ o) (hI : CtIdle b c) (hst : ∀ j, j < c.n → j < c.vals.size → s ≤ c.vals[j]!.v.offs) :
    CtLo o s (parseAllContactValues b o { c with hNo := k, lastHVal := {} }).2.2 := by
  rw [parseAllContactValues_eq_wrap, bump_wrap]
  obtain ⟨a1, a2, _⟩ := wrap_scalars c
  exact contactsLoop_lo b o o s _ hfit hs (Nat.le_refl _) hI.clean hI.cur
    ⟨FLo_zero o, fun j hj hsz => by
      have hj' : j < c.wrap.n := hj
      have hsz' : j < c.wrap.vals.size := hsz
      rw [a1] at hj'; rw [a2] at hsz'
      show s ≤ c.wrap.vals[j]!.v.offs
      rw [a2]; exact hst j hj' hsz'⟩

structure PaLo (lo s : Nat) (c : PPAIs) : Prop where
  lhv : FLo lo c.lastHVal
  stored : ∀ k, k < c.n → k < c.vals.size → s ≤ c.vals[k]!.v.offs

theorem flo_paAccount (lo : Nat) (c : PPAIs) (pf : PFromBody) (hl : FLo lo c.lastHVal) (hv : lo ≤ pf.v.offs) :
    FLo lo (c.account pf).lastHVal := by
  rw [paAccount_lhv]
  split
  · exact Or.inr hv
  · rename_i he
    rcases hl with h0 | h0
    · exfalso; apply he; simp [PField.isEmpty, h0]
    · exact Or.inr h0

theorem paisLoop_lo (b : Buf) (offs lo s : Nat) (c : PPAIs) (hfit : b.size ≤ 65535) (hs : s ≤ lo)
    (hlo : lo ≤ offs) (hcl : PaClean c) (hcur : c.cur = {}) (h : PaLo lo s c) :
    PaLo lo s (paisLoop b offs c).2.2 := by
  induction hk : b.size - offs using Nat.strongRecOn generalizing offs c with
  | _ k ih =>
    rw [paisLoop]
    rcases hp : parseOnePAI b offs c.cur with ⟨next, e1, pf⟩
    obtain ⟨e0, hp0, hok0, hmv0, _⟩ := parseOnePAI_under b offs c.cur hp
    have hvd : VDone offs e0 pf :=
      parseNameAddrPVal_vlo HdrPAI b offs offs c.cur hfit (Nat.le_refl _) (by rw [hcur]; decide)
        (Or.inl (by rw [hcur])) hp0
    have s1 := paSetCur_scalars c pf
    have hset : PaLo lo s (c.setCur pf) :=
      ⟨by rw [s1.2.1]; exact h.lhv, fun k hk hsz => by
        rw [paSetCur_n] at hk; rw [paSetCur_size] at hsz
        rw [paSetCur_vals_ne c pf k (by omega)]; exact h.stored k hk hsz⟩
    have hacc : Err.complete e0 → PaLo lo s ((c.setCur pf).account pf) := by
      intro hc
      have hv := hvd.1 hc
      refine ⟨flo_paAccount lo _ pf hset.lhv (by omega), ?_⟩
      intro k hk hsz
      rw [paAccount_n, paSetCur_n] at hk
      rw [paAccount_vals, paSetCur_size] at hsz
      rw [paAccount_vals]
      exact paSetCur_storedP (fun p => s ≤ p.v.offs) c pf h.stored (by omega) k hk hsz
    cases e1 <;> simp only
    case ok => exact hacc (Or.inl (hok0 rfl))
    case moreValues =>
      have hnx : (if c.n < c.vals.size then (c.setCur pf).account pf
          else { (c.setCur pf).account pf with last := {} }) = c.next pf := rfl
      rw [hnx]
      have hcl' := paNext_clean c pf hcl
      have hL : PaLo lo s (c.next pf) := by
        have := hacc (Or.inr (hmv0 rfl))
        unfold PPAIs.next; split
        · exact this
        · exact ⟨this.lhv, this.stored⟩
      by_cases hg : offs < next ∧ next ≤ b.size
      · rw [if_pos hg]
        exact ih (b.size - next) (by omega) next (c.next pf) (by omega) hcl'.1 hcl'.2 hL rfl
      · rw [if_neg hg]; exact hL
    case moreBytes => exact hset
    all_goals
      split
      · exact hset
      · exact ⟨h.lhv, h.stored⟩

/-- **P-Asserted-Identity, lower bounds** -/
theorem parseAllPAIValues_new_lo (b : Buf) (o s : Nat) (c : PPAIs) (k : Nat) (hfit : b.size ≤ 65535)
    (hs : s ≤ o) (hI : PaIdle b c) (hst : ∀ j, j < c.n → j < c.vals.size → s ≤ c.vals[j]!.v.offs) :
    PaLo o s (parseAllPAIValues b o { c with hNo := k, lastHVal := {} }).2.2 := by
  rw [parseAllPAIValues_eq_wrap, paBump_wrap]
  obtain ⟨a1, a2, _⟩ := paWrap_scalars c
  exact paisLoop_lo b o o s _ hfit hs (Nat.le_refl _) hI.clean hI.cur
    ⟨FLo_zero o, fun j hj hsz => by
      have hj' : j < c.wrap.n := hj
      have hsz' : j < c.wrap.vals.size := hsz
      rw [a1] at hj'; rw [a2] at hsz'
      show s ≤ c.wrap.vals[j]!.v.offs
      rw [a2]; exact hst j hj' hsz'⟩

/-! ### (2b) the header-value dispatch -/

/-- **lower bounds of the header-values object between header lines** of a one-shot parse that started at `s` from a
    fresh object: every value object is untouched or finished; what was reported starts at or after `s`; the CSeq
    fields nest -/
structure HvLo (s : Nat) (hv : PHdrVals) : Prop where
  fromQ : hv.from_.state = .init ∨ hv.from_.state = .fin
  fromL : VLo s hv.from_
  toQ : hv.to.state = .init ∨ hv.to.state = .fin
  toL : VLo s hv.to
  callidQ : hv.callid.state = .init ∨ hv.callid.state = .fin
  callidL : hv.callid.state = .fin → s ≤ hv.callid.callID.offs
  cseqQ : hv.cseq.state = .init ∨ hv.cseq.state = .fin
  cseqL : hv.cseq.state = .fin → CsNest s hv.cseq
  clenQ : hv.clen.state = .init ∨ hv.clen.state = .fin
  clenL : hv.clen.state = .fin → s ≤ hv.clen.sVal.offs
  expiresQ : hv.expires.state = .init ∨ hv.expires.state = .fin
  expiresL : hv.expires.state = .fin → s ≤ hv.expires.sVal.offs
  ct : CtLo s s hv.contacts
  pa : PaLo s s hv.pais

theorem flo_beq_ok : (Err.ok == Err.ok) = true := by decide

theorem CsNest.mono {lo lo' : Nat} {st : PCSeqBody} (h : CsNest lo st) (hl : lo' ≤ lo) : CsNest lo' st :=
  ⟨by have := h.lo; omega, h.cseqO, h.order, h.methE⟩

/-- what the lower-bound proof needs to know about the result of the header-value dispatch (`o` = first byte after
    the colon, `s ≤ o` = start of the message) -/
def PbLo (o s : Nat) (h : Hdr) (hv : PHdrVals) (e : Err) (h2 : Hdr) (hb2 : Option PHdrVals) : Prop :=
  ∃ hv2, hb2 = some hv2 ∧ h2.name = h.name ∧ (h2.state = .bodyStart → e = .ok ∧ h2.val = h.val ∧ hv2 = hv) ∧
    (e = .ok → HvLo s hv2 ∧ (h2.state ≠ .bodyStart → FLo o h2.val))

theorem parseBody_lo (b : Buf) (o s : Nat) (h : Hdr) (hv : PHdrVals) (hfit : b.size ≤ 65535) (hso : s ≤ o)
    (ho : o ≤ b.size) (hst : h.state = .bodyStart) (L : HvLo s hv) (hct : CtIdle b hv.contacts)
    (hpa : PaIdle b hv.pais) {n : Nat} {e : Err} {h2 : Hdr} {hb2 : Option PHdrVals}
    (hr : parseBody b o h (some hv) = (n, e, h2, hb2)) : PbLo o s h hv e h2 hb2 := by
  have hskip : ∀ {n : Nat} {e : Err} {h2 : Hdr} {hb2 : Option PHdrVals},
      (o, Err.ok, h, some hv) = (n, e, h2, hb2) → PbLo o s h hv e h2 hb2 := by
    intro n e h2 hb2 hh
    simp only [Prod.mk.injEq] at hh
    obtain ⟨rfl, rfl, rfl, rfl⟩ := hh
    exact ⟨hv, rfl, rfl, (fun _ => ⟨rfl, rfl, rfl⟩), fun _ => ⟨L, fun hn => absurd hst hn⟩⟩
  unfold parseBody parseFromVal at hr
  simp only at hr
  by_cases h_from_ : (h.type == HdrFrom) = true
  · simp only [h_from_, ↓reduceIte] at hr
    by_cases hp : (!hv.from_.parsed) = true
    · simp only [hp, ↓reduceIte] at hr
      rcases hq : parseNameAddrPVal HdrFrom b o hv.from_ with ⟨n1, e1, f1⟩
      rw [hq] at hr; simp only [Prod.mk.injEq] at hr
      obtain ⟨rfl, rfl, rfl, rfl⟩ := hr
      refine ⟨_, rfl, rfl, (fun hh => by cases hh), fun he => ?_⟩
      subst he
      simp only [flo_beq_ok, ↓reduceIte]
      have hnf : hv.from_.state ≠ .fin := by simpa [PFromBody.parsed] using hp
      have hi : hv.from_.state = .init := by rcases L.fromQ with q | q; exact q; exact absurd q hnf
      have hvd := parseNameAddrPVal_vlo HdrFrom b o o hv.from_ hfit (Nat.le_refl _) hnf (Or.inl hi) hq
      have hfin := (parseNameAddrPVal_post HdrFrom b o hv.from_ hq (Or.inl rfl)).1
      have hv1 := hvd.1 (Or.inl rfl)
      exact ⟨{ L with fromQ := Or.inr hfin, fromL := Or.inr (Nat.le_trans hso hv1) }, fun _ => Or.inr hv1⟩
    · simp only [hp, Bool.false_eq_true, ↓reduceIte] at hr
      exact hskip hr
  simp only [h_from_, Bool.false_eq_true, ↓reduceIte] at hr
  by_cases h_to : (h.type == HdrTo) = true
  · simp only [h_to, ↓reduceIte] at hr
    by_cases hp : (!hv.to.parsed) = true
    · simp only [hp, ↓reduceIte] at hr
      rcases hq : parseNameAddrPVal HdrTo b o hv.to with ⟨n1, e1, f1⟩
      rw [hq] at hr; simp only [Prod.mk.injEq] at hr
      obtain ⟨rfl, rfl, rfl, rfl⟩ := hr
      refine ⟨_, rfl, rfl, (fun hh => by cases hh), fun he => ?_⟩
      subst he
      simp only [flo_beq_ok, ↓reduceIte]
      have hnf : hv.to.state ≠ .fin := by simpa [PFromBody.parsed] using hp
      have hi : hv.to.state = .init := by rcases L.toQ with q | q; exact q; exact absurd q hnf
      have hvd := parseNameAddrPVal_vlo HdrTo b o o hv.to hfit (Nat.le_refl _) hnf (Or.inl hi) hq
      have hfin := (parseNameAddrPVal_post HdrTo b o hv.to hq (Or.inl rfl)).1
      have hv1 := hvd.1 (Or.inl rfl)
      exact ⟨{ L with toQ := Or.inr hfin, toL := Or.inr (Nat.le_trans hso hv1) }, fun _ => Or.inr hv1⟩
    · simp only [hp, Bool.false_eq_true, ↓reduceIte] at hr
      exact hskip hr
  simp only [h_to, Bool.false_eq_true, ↓reduceIte] at hr
  by_cases h_callid : (h.type == HdrCallID) = true
  · simp only [h_callid, ↓reduceIte] at hr
    by_cases hp : (!hv.callid.parsed) = true
    · simp only [hp, ↓reduceIte] at hr
      rcases hq : parseCallIDVal b o hv.callid with ⟨n1, e1, f1⟩
      rw [hq] at hr; simp only [Prod.mk.injEq] at hr
      obtain ⟨rfl, rfl, rfl, rfl⟩ := hr
      refine ⟨_, rfl, rfl, (fun hh => by cases hh), fun he => ?_⟩
      subst he
      simp only [flo_beq_ok, ↓reduceIte]
      have hnf : hv.callid.state ≠ .fin := by simpa [PCallIDBody.parsed] using hp
      have hi : hv.callid.state = .init := by rcases L.callidQ with q | q; exact q; exact absurd q hnf
      have hv1 := parseCallIDVal_lo b o o hv.callid hfit (Nat.le_refl _) (CiLoI_init o o _ hi) hq
      have hfin := (parseCallIDVal_post b o hv.callid ho hq).2.2.1
      exact ⟨{ L with callidQ := Or.inr hfin, callidL := fun _ => Nat.le_trans hso hv1 }, fun _ => Or.inr hv1⟩
    · simp only [hp, Bool.false_eq_true, ↓reduceIte] at hr
      exact hskip hr
  simp only [h_callid, Bool.false_eq_true, ↓reduceIte] at hr
  by_cases h_cseq : (h.type == HdrCSeq) = true
  · simp only [h_cseq, ↓reduceIte] at hr
    by_cases hp : (!hv.cseq.parsed) = true
    · simp only [hp, ↓reduceIte] at hr
      rcases hq : parseCSeqVal b o hv.cseq with ⟨n1, e1, f1⟩
      rw [hq] at hr; simp only [Prod.mk.injEq] at hr
      obtain ⟨rfl, rfl, rfl, rfl⟩ := hr
      refine ⟨_, rfl, rfl, (fun hh => by cases hh), fun he => ?_⟩
      subst he
      simp only [flo_beq_ok, ↓reduceIte]
      have hnf : hv.cseq.state ≠ .fin := by simpa [PCSeqBody.parsed] using hp
      have hi : hv.cseq.state = .init := by rcases L.cseqQ with q | q; exact q; exact absurd q hnf
      have hv1 := parseCSeqVal_lo b o o hv.cseq hfit (Nat.le_refl _) (CsLoI_init o o _ hi) hq
      have hfin := (parseCSeqVal_post b o hv.cseq ho hq).2.2.1
      exact ⟨{ L with cseqQ := Or.inr hfin, cseqL := fun _ => hv1.mono hso }, fun _ => Or.inr hv1.lo⟩
    · simp only [hp, Bool.false_eq_true, ↓reduceIte] at hr
      exact hskip hr
  simp only [h_cseq, Bool.false_eq_true, ↓reduceIte] at hr
  by_cases h_clen : (h.type == HdrCLen) = true
  · simp only [h_clen, ↓reduceIte] at hr
    by_cases hp : (!hv.clen.parsed) = true
    · simp only [hp, ↓reduceIte] at hr
      rcases hq : parseCLenVal b o hv.clen with ⟨n1, e1, f1⟩
      rw [hq] at hr; simp only [Prod.mk.injEq] at hr
      obtain ⟨rfl, rfl, rfl, rfl⟩ := hr
      refine ⟨_, rfl, rfl, (fun hh => by cases hh), fun he => ?_⟩
      subst he
      simp only [flo_beq_ok, ↓reduceIte]
      have hnf : hv.clen.state ≠ .fin := by simpa [PUIntBody.parsed] using hp
      have hi : hv.clen.state = .init := by rcases L.clenQ with q | q; exact q; exact absurd q hnf
      have hv1 := parseCLenVal_lo b o o hv.clen hfit (Nat.le_refl _) (ClLoI_init o o _ hi) hq
      have hfin := (parseCLenVal_post b o hv.clen ho hq).2.2.1
      exact ⟨{ L with clenQ := Or.inr hfin, clenL := fun _ => Nat.le_trans hso hv1 }, fun _ => Or.inr hv1⟩
    · simp only [hp, Bool.false_eq_true, ↓reduceIte] at hr
      exact hskip hr
  simp only [h_clen, Bool.false_eq_true, ↓reduceIte] at hr
  by_cases h_contacts : (h.type == HdrContact) = true
  · simp only [h_contacts, ↓reduceIte] at hr
    have hc0 : (if h.state != .hContact then { hv.contacts with hNo := hv.contacts.hNo + 1, lastHVal := {} } else hv.contacts) =
        { hv.contacts with hNo := hv.contacts.hNo + 1, lastHVal := {} } := by rw [hst]; rfl
    rw [hc0] at hr
    have hS := parseAllContactValues_new_lo b o s hv.contacts (hv.contacts.hNo + 1) hfit hso hct L.ct.stored
    rcases hq : parseAllContactValues b o { hv.contacts with hNo := hv.contacts.hNo + 1, lastHVal := {} } with ⟨n1, e1, f1⟩
    rw [hq] at hr hS; simp only [Prod.mk.injEq] at hr
    obtain ⟨rfl, rfl, rfl, rfl⟩ := hr
    refine ⟨_, rfl, rfl, (fun hh => by cases hh), fun he => ?_⟩
    subst he
    simp only [flo_beq_ok, ↓reduceIte]
    exact ⟨{ L with ct := ⟨hS.lhv.mono hso, hS.stored⟩ }, fun _ => hS.lhv⟩
  simp only [h_contacts, Bool.false_eq_true, ↓reduceIte] at hr
  by_cases h_expires : (h.type == HdrExpires) = true
  · simp only [h_expires, ↓reduceIte] at hr
    by_cases hp : (!hv.expires.parsed) = true
    · simp only [hp, ↓reduceIte] at hr
      rcases hq : parseUIntVal b o hv.expires with ⟨n1, e1, f1⟩
      rw [hq] at hr; simp only [Prod.mk.injEq] at hr
      obtain ⟨rfl, rfl, rfl, rfl⟩ := hr
      refine ⟨_, rfl, rfl, (fun hh => by cases hh), fun he => ?_⟩
      subst he
      simp only [flo_beq_ok, ↓reduceIte]
      have hnf : hv.expires.state ≠ .fin := by simpa [PUIntBody.parsed] using hp
      have hi : hv.expires.state = .init := by rcases L.expiresQ with q | q; exact q; exact absurd q hnf
      have hv1 := parseUIntVal_lo b o o hv.expires hfit (Nat.le_refl _) (ClLoI_init o o _ hi) hq
      have hfin := (parseUIntVal_post b o hv.expires ho hq).2.2.1
      exact ⟨{ L with expiresQ := Or.inr hfin, expiresL := fun _ => Nat.le_trans hso hv1 }, fun _ => Or.inr hv1⟩
    · simp only [hp, Bool.false_eq_true, ↓reduceIte] at hr
      exact hskip hr
  simp only [h_expires, Bool.false_eq_true, ↓reduceIte] at hr
  by_cases h_pais : (h.type == HdrPAI) = true
  · simp only [h_pais, ↓reduceIte] at hr
    have hc0 : (if h.state != .hPAI then { hv.pais with hNo := hv.pais.hNo + 1, lastHVal := {} } else hv.pais) =
        { hv.pais with hNo := hv.pais.hNo + 1, lastHVal := {} } := by rw [hst]; rfl
    rw [hc0] at hr
    have hS := parseAllPAIValues_new_lo b o s hv.pais (hv.pais.hNo + 1) hfit hso hpa L.pa.stored
    rcases hq : parseAllPAIValues b o { hv.pais with hNo := hv.pais.hNo + 1, lastHVal := {} } with ⟨n1, e1, f1⟩
    rw [hq] at hr hS; simp only [Prod.mk.injEq] at hr
    obtain ⟨rfl, rfl, rfl, rfl⟩ := hr
    refine ⟨_, rfl, rfl, (fun hh => by cases hh), fun he => ?_⟩
    subst he
    simp only [flo_beq_ok, ↓reduceIte]
    exact ⟨{ L with pa := ⟨hS.lhv.mono hso, hS.stored⟩ }, fun _ => hS.lhv⟩
  simp only [h_pais, Bool.false_eq_true, ↓reduceIte] at hr
  exact hskip hr

/-! ### (2c) the header line -/

/-- **a header lies in its own line, which starts at `o`**: the name starts exactly at `o` and is not empty; the
    value is empty (unset values are `⟨0,0⟩`) or starts after the end of the name -/
structure HdrLo (o : Nat) (h : Hdr) : Prop where
  nameO : h.name.offs = o
  nameNE : 0 < h.name.len
  nv : h.val.len = 0 ∨ h.name.offs + h.name.len < h.val.offs

/-- what the lower-bound proof assumes about the header values passed to ParseHdrLine for a new line -/
def HbLo (b : Buf) (s : Nat) (hb : Option PHdrVals) : Prop :=
  ∀ hv, hb = some hv → HvLo s hv ∧ CtIdle b hv.contacts ∧ PaIdle b hv.pais

/-- loop invariant of ParseHdrLine for a line that starts at `o` (one-shot: from the initial state) -/
structure HlLoI (b : Buf) (o s i : Nat) (st : HLσ) : Prop where
  oi : o ≤ i
  hb : HbLo b s st.2
  gen : st.1.state = .init ∨ st.1.state = .name ∨ st.1.state = .nameEnd ∨ st.1.state = .bodyStart ∨
    st.1.state = .val ∨ st.1.state = .valEnd
  ini : st.1.state = .init → i = o ∧ st.1.val.len = 0
  nam : st.1.state = .name → st.1.name.offs = o ∧ st.1.val.len = 0
  col : st.1.state = .nameEnd ∨ st.1.state = .bodyStart →
    st.1.name.offs = o ∧ 0 < st.1.name.len ∧ st.1.name.offs + st.1.name.len < i ∧ st.1.val.len = 0
  vl : st.1.state = .val ∨ st.1.state = .valEnd →
    st.1.name.offs = o ∧ 0 < st.1.name.len ∧ st.1.name.offs + st.1.name.len < st.1.val.offs

def HlLoQ (o s : Nat) : Nat → Err → HLσ → Prop := fun _ e st =>
  (e = .ok → HdrLo o st.1) ∧ (e = .ok ∨ e = .empty → ∀ hv, st.2 = some hv → HvLo s hv)

theorem HlLoQ.err {o s n : Nat} {e : Err} {st : HLσ} (h1 : e ≠ .ok) (h2 : e ≠ .empty) : HlLoQ o s n e st :=
  ⟨fun hh => absurd hh h1, fun hh => by rcases hh with hh | hh; exact absurd hh h1; exact absurd hh h2⟩

theorem hlQ_err {S : Nat → HLσ → Prop} {o s n : Nat} {e : Err} {st : HLσ} (h1 : e ≠ .ok) (h2 : e ≠ .empty) :
    StepAll2 S (HlLoQ o s) (.done n e st) := HlLoQ.err (n := n) h1 h2

theorem HbLo.hv {b : Buf} {s : Nat} {hb : Option PHdrVals} (h : HbLo b s hb) : ∀ hv, hb = some hv → HvLo s hv :=
  fun hv hh => (h hv hh).1

theorem hlAfterColon_lo (b : Buf) (i o s : Nat) (h : Hdr) (hb : Option PHdrVals) (hfit : b.size ≤ 65535)
    (hso : s ≤ o) (hoi : o ≤ i) (hi : i ≤ b.size) (hst : h.state = .bodyStart)
    (hn : h.name.offs = o ∧ 0 < h.name.len ∧ h.name.offs + h.name.len < i ∧ h.val.len = 0) (hH : HbLo b s hb) :
    StepAll2 (HlLoI b o s) (HlLoQ o s) (hlAfterColon b i h hb) := by
  unfold hlAfterColon
  split
  · exact hlQ_err (by decide) (by decide)
  · rename_i nm _
    simp only
    cases hb with
    | none =>
      have : parseBody b i { h with type := getHdrType nm } none = (i, .ok, { h with type := getHdrType nm }, none) := by
        unfold parseBody; rfl
      rw [this]
      have hne : ((({ h with type := getHdrType nm } : Hdr).state != HState.bodyStart) = true) = False := by
        show ((h.state != HState.bodyStart) = true) = False
        rw [hst]; simp
      simp only [hne, ↓reduceIte]
      exact ⟨hoi, hH, Or.inr (Or.inr (Or.inr (Or.inl hst))), (fun hh => by rw [show ({ h with type := getHdrType nm } : Hdr).state = h.state from rfl, hst] at hh; cases hh),
        (fun hh => by rw [show ({ h with type := getHdrType nm } : Hdr).state = h.state from rfl, hst] at hh; cases hh),
        (fun _ => hn),
        (fun hh => by rw [show ({ h with type := getHdrType nm } : Hdr).state = h.state from rfl, hst] at hh; rcases hh with hh | hh <;> cases hh)⟩
    | some hv =>
      obtain ⟨L, hct, hpa⟩ := hH hv rfl
      rcases hp : parseBody b i { h with type := getHdrType nm } (some hv) with ⟨n, e, h2, hb2⟩
      obtain ⟨hv2, rfl, hname2, hskip, hok⟩ :=
        parseBody_lo b i s { h with type := getHdrType nm } hv hfit (by omega) hi hst L hct hpa hp
      have hname2' : h2.name = h.name := hname2
      simp only
      by_cases hs2 : h2.state = .bodyStart
      · obtain ⟨rfl, hval2, rfl⟩ := hskip hs2
        have hval2' : h2.val = h.val := hval2
        have hne : ((h2.state != HState.bodyStart) = true) = False := by rw [hs2]; simp
        simp only [hne, ↓reduceIte]
        exact ⟨hoi, hH, Or.inr (Or.inr (Or.inr (Or.inl hs2))), (fun hh => by rw [hs2] at hh; cases hh),
          (fun hh => by rw [hs2] at hh; cases hh), (fun _ => by rw [hname2', hval2']; exact hn),
          (fun hh => by rw [hs2] at hh; rcases hh with hh | hh <;> cases hh)⟩
      · have hne1 : (h2.state != HState.bodyStart) = true := by simpa using hs2
        simp only [hne1, ↓reduceIte]
        have hne : e ≠ .empty := by
          have := parseBody_ne_empty b i { h with type := getHdrType nm } (some hv)
          rw [hp] at this; exact this
        refine ⟨fun he => ?_, fun he => ?_⟩
        · subst he
          simp only [flo_beq_ok, ↓reduceIte]
          have hfl := (hok rfl).2 hs2
          refine ⟨by show h2.name.offs = o; rw [hname2']; exact hn.1, by show 0 < h2.name.len; rw [hname2']; exact hn.2.1, ?_⟩
          show h2.val.len = 0 ∨ h2.name.offs + h2.name.len < h2.val.offs
          rw [hname2']
          rcases hfl with h0 | h0
          · exact Or.inl h0
          · exact Or.inr (by have := hn.2.2.1; omega)
        · rcases he with he | he
          · intro hv' hh; cases hh; exact (hok he).1
          · exact absurd he hne

theorem hlName_lo (b : Buf) (i o s : Nat) (h : Hdr) (hb : Option PHdrVals) (hfit : b.size ≤ 65535)
    (hso : s ≤ o) (hoi : o ≤ i) (hn : h.name.offs = o) (hval : h.val.len = 0) (hH : HbLo b s hb) :
    StepAll2 (HlLoI b o s) (HlLoQ o s) (hlName b i h hb) := by
  have hge := skipTokenDelim_ge b i 58
  unfold hlName
  simp only
  split
  · exact hlQ_err (by decide) (by decide)
  · rename_i c hj
    have hjl := get?_lt hj
    have hins : (h.name.extend (skipTokenDelim b i 58)).inside (skipTokenDelim b i 58) :=
      extend_inside h.name _ _ (by omega) (Nat.le_refl _)
    have hend : (h.name.extend (skipTokenDelim b i 58)).offs + (h.name.extend (skipTokenDelim b i 58)).len
        < skipTokenDelim b i 58 + 1 := by
      have : (h.name.extend (skipTokenDelim b i 58)).offs + (h.name.extend (skipTokenDelim b i 58)).len ≤
          skipTokenDelim b i 58 := hins
      omega
    split
    · split
      · exact hlQ_err (by decide) (by decide)
      · rename_i hne
        exact ⟨by omega, hH, Or.inr (Or.inr (Or.inl rfl)), (fun hh => by cases hh), (fun hh => by cases hh),
          (fun _ => ⟨hn, flo_isEmpty_pos hne, hend, hval⟩), (fun hh => by rcases hh with hh | hh <;> cases hh)⟩
    · split
      · split
        · exact hlQ_err (by decide) (by decide)
        · rename_i hne
          exact hlAfterColon_lo b _ o s _ hb hfit hso (by omega) (by omega) rfl ⟨hn, flo_isEmpty_pos hne, hend, hval⟩ hH
      · exact hlQ_err (by decide) (by decide)

theorem hlValEnd_lo (b : Buf) (i o s : Nat) (h : Hdr) (hb : Option PHdrVals) (hoi : o ≤ i)
    (hd : h.name.offs = o ∧ 0 < h.name.len ∧ h.name.offs + h.name.len < h.val.offs) (hH : HbLo b s hb) :
    StepAll2 (HlLoI b o s) (HlLoQ o s) (hlValEnd b i h hb) := by
  unfold hlValEnd
  rcases hsk : skipLWS b i 0 with ⟨n, crl, e⟩
  have hr := skipLWS_range b i 0 hsk
  cases e <;> simp only
  case ok =>
    exact ⟨by omega, hH, Or.inr (Or.inr (Or.inr (Or.inr (Or.inl rfl)))), (fun hh => by cases hh), (fun hh => by cases hh),
      (fun hh => by rcases hh with hh | hh <;> cases hh), (fun _ => hd)⟩
  case eoh => exact ⟨fun _ => ⟨hd.1, hd.2.1, Or.inr hd.2.2⟩, fun _ => hH.hv⟩
  all_goals exact ⟨(fun hh => by cases hh), fun _ => hH.hv⟩

theorem hlStep_lo (b : Buf) (i o s : Nat) (c : UInt8) (st : HLσ) (hfit : b.size ≤ 65535) (hso : s ≤ o)
    (hb : b[i]? = some c) (H : HlLoI b o s i st) : StepAll2 (HlLoI b o s) (HlLoQ o s) (hlStep b i c st) := by
  obtain ⟨h, hv⟩ := st
  have hlt := get?_lt hb
  have hoi : o ≤ i := H.oi
  have hH : HbLo b s hv := H.hb
  have hempty : ∀ n, HlLoQ o s n .empty ({ h with state := .fin }, hv) :=
    fun n => ⟨(fun hh => by cases hh), fun _ => hH.hv⟩
  unfold hlStep
  simp only
  cases hst : h.state <;> simp only
  case init =>
    obtain ⟨hio, hval⟩ : i = o ∧ h.val.len = 0 := H.ini hst
    split
    · split
      · exact hlQ_err (by decide) (by decide)
      · split
        · exact hempty 0
        · exact hempty 0
    · split
      · exact hempty 0
      · exact hlName_lo b i o s _ hv hfit hso hoi (by rw [← hio]; exact flo_set_offs i i (by omega)) hval hH
  case name =>
    obtain ⟨hn, hval⟩ : h.name.offs = o ∧ h.val.len = 0 := H.nam hst
    exact hlName_lo b i o s h hv hfit hso hoi hn hval hH
  case nameEnd =>
    obtain ⟨a1, a2, a3, a4⟩ : h.name.offs = o ∧ 0 < h.name.len ∧ h.name.offs + h.name.len < i ∧ h.val.len = 0 :=
      H.col (Or.inl hst)
    have hge := skipWS_ge b i
    split
    · exact hlQ_err (by decide) (by decide)
    · rename_i c1 hj
      have hjl := get?_lt hj
      split
      · exact hlAfterColon_lo b _ o s _ hv hfit hso (by omega) (by omega) rfl ⟨a1, a2, by show h.name.offs + h.name.len < _; omega, a4⟩ hH
      · exact hlQ_err (by decide) (by decide)
  case bodyStart =>
    obtain ⟨a1, a2, a3, a4⟩ : h.name.offs = o ∧ 0 < h.name.len ∧ h.name.offs + h.name.len < i ∧ h.val.len = 0 :=
      H.col (Or.inr hst)
    rcases hsk : skipLWS b i 0 with ⟨n, crl, e⟩
    have hr := skipLWS_range b i 0 hsk
    cases e <;> simp only
    case ok =>
      obtain ⟨_, c', hc, _⟩ := skipLWS_ok b i 0 hsk
      have h1 := get?_lt hc
      have hso' : (PField.set n n).offs = n := flo_set_offs n n (by omega)
      exact ⟨by omega, hH, Or.inr (Or.inr (Or.inr (Or.inr (Or.inl rfl)))), (fun hh => by cases hh), (fun hh => by cases hh),
        (fun hh => by rcases hh with hh | hh <;> cases hh),
        (fun _ => ⟨a1, a2, by show h.name.offs + h.name.len < (PField.set n n).offs; rw [hso']; omega⟩)⟩
    case eoh => exact ⟨fun _ => ⟨a1, a2, Or.inl a4⟩, fun _ => hH.hv⟩
    all_goals exact ⟨(fun hh => by cases hh), fun _ => hH.hv⟩
  case val =>
    obtain ⟨a1, a2, a3⟩ : h.name.offs = o ∧ 0 < h.name.len ∧ h.name.offs + h.name.len < h.val.offs := H.vl (Or.inl hst)
    have hge := skipToken_ge b i
    split
    · exact hlQ_err (by decide) (by decide)
    · exact hlValEnd_lo b _ o s _ hv (by omega) ⟨a1, a2, a3⟩ hH
  case valEnd =>
    obtain ⟨a1, a2, a3⟩ : h.name.offs = o ∧ 0 < h.name.len ∧ h.name.offs + h.name.len < h.val.offs := H.vl (Or.inr hst)
    exact hlValEnd_lo b i o s h hv hoi ⟨a1, a2, a3⟩ hH
  all_goals
    (exfalso
     have := H.gen
     simp only [hst] at this
     rcases this with hh | hh | hh | hh | hh | hh <;> cases hh)

/-- **(2) header line** (buffers within the 65,535-byte limit): ParseHdrLine on a new header (initial state, no value
    yet) at line offset `o`: on OK the name starts exactly at `o`, is not empty, and the value — if one was set —
    starts after the end of the name; on OK / "empty line" the header values keep their lower bounds `≥ s` (`s ≤ o`
    = start of the message), the CSeq fields nest. (The value ends at or before the returned offset:
    `parseHdrLine_safe`.) -/
theorem parseHdrLine_lo (b : Buf) (o s : Nat) (h : Hdr) (hb : Option PHdrVals) (hfit : b.size ≤ 65535) (hso : s ≤ o)
    (hst : h.state = .init) (hval : h.val.len = 0) (hH : HbLo b s hb)
    {o' : Nat} {e : Err} {h' : Hdr} {hb' : Option PHdrVals} (hr : parseHdrLine b o h hb = (o', e, h', hb')) :
    (e = .ok → HdrLo o h') ∧ (e = .ok ∨ e = .empty → ∀ hv, hb' = some hv → HvLo s hv) := by
  unfold parseHdrLine at hr
  rcases hrl : runLoop hlMachine b o (h, hb) with ⟨o1, e1, h1, hb1⟩
  rw [hrl] at hr
  simp only [Prod.mk.injEq] at hr
  obtain ⟨rfl, rfl, rfl, rfl⟩ := hr
  have := runLoop_safe2 hlMachine b (HlLoI b o s) (HlLoQ o s) hl_progress
    (fun i c st hb' hS => hlStep_lo b i o s c st hfit hso hb' hS)
    (fun i st _ => ⟨(fun hh => by cases hh), (fun hh => by rcases hh with hh | hh <;> cases hh)⟩) o (h, hb)
    ⟨Nat.le_refl _, hH, Or.inl hst, (fun _ => ⟨rfl, hval⟩), (fun hh => by rw [hst] at hh; cases hh),
     (fun hh => by rw [hst] at hh; rcases hh with hh | hh <;> cases hh),
     (fun hh => by rw [hst] at hh; rcases hh with hh | hh <;> cases hh)⟩
  rw [hrl] at this
  exact this

/-! ### (3) the header block -/

/-- per-header facts relative to the start `s` of the message: the name starts at or after `s` and is not empty; the
    value is empty or starts after the end of the name -/
def HdrSp (s : Nat) (h : Hdr) : Prop :=
  s ≤ h.name.offs ∧ 0 < h.name.len ∧ (h.val.len = 0 ∨ h.name.offs + h.name.len < h.val.offs)

/-- **lower bounds and order of the stored headers**: every stored header (and every first-of-type shortcut that is
    set) satisfies `HdrSp s`; stored headers appear in message order without overlap: for `j < k` the name and the
    value of header `j` end at or before the start of the name of header `k` -/
structure HlsLo (s : Nat) (hl : HdrLst) : Prop where
  stored : ∀ k, k < hl.n → k < hl.hdrs.size → HdrSp s hl.hdrs[k]!
  order : ∀ j k, j < k → k < hl.n → k < hl.hdrs.size → HdrBefore hl.hdrs[k]!.name.offs hl.hdrs[j]!
  short : ∀ j, j < hl.h.size → hl.h[j]! = {} ∨ HdrSp s hl.h[j]!

theorem HlsLo.next {s offs : Nat} {hl : HdrLst} (L : HlsLo s hl) (hin : HlsIn offs hl) (g : Hdr) (hg : HdrLo offs g)
    (hso : s ≤ offs) : HlsLo s ((hl.setCur g).accept g) := by
  have hn : ((hl.setCur g).accept g).n = hl.n + 1 := by rw [accept_n, hlSetCur_n]
  have hs : ((hl.setCur g).accept g).hdrs.size = hl.hdrs.size := by rw [accept_hdrs, hlSetCur_size]
  have hgs : HdrSp s g := ⟨by rw [hg.nameO]; exact hso, hg.nameNE, hg.nv⟩
  refine ⟨fun k h1 h2 => ?_, fun j k hjk h1 h2 => ?_, ?_⟩
  · rw [hn] at h1; rw [hs] at h2; rw [accept_hdrs]
    by_cases hkn : hl.n = k
    · subst hkn; rw [hlSetCur_get_n hl g h2]; exact hgs
    · rw [hlSetCur_ne hl g k hkn]; exact L.stored k (by omega) h2
  · rw [hn] at h1; rw [hs] at h2; rw [accept_hdrs]
    have hj2 : j < hl.hdrs.size := by omega
    rw [hlSetCur_ne hl g j (by omega)]
    by_cases hkn : hl.n = k
    · subst hkn; rw [hlSetCur_get_n hl g h2, hg.nameO]; exact hin.stored j hjk hj2
    · rw [hlSetCur_ne hl g k hkn]; exact L.order j k hjk (by omega) h2
  · exact accept_allP (fun h => h = {} ∨ HdrSp s h) _ g (Or.inr hgs) (by rw [(hlSetCur_scalars hl g).2]; exact L.short)

theorem HlsLo.setCur {s : Nat} {hl : HdrLst} (L : HlsLo s hl) (g : Hdr) : HlsLo s (hl.setCur g) := by
  refine ⟨fun k h1 h2 => ?_, fun j k hjk h1 h2 => ?_, by rw [(hlSetCur_scalars hl g).2]; exact L.short⟩
  · rw [hlSetCur_n] at h1; rw [hlSetCur_size] at h2
    rw [hlSetCur_ne hl g k (by omega)]; exact L.stored k h1 h2
  · rw [hlSetCur_n] at h1; rw [hlSetCur_size] at h2
    rw [hlSetCur_ne hl g k (by omega), hlSetCur_ne hl g j (by omega)]; exact L.order j k hjk h1 h2

theorem flo_next_cur (hl : HdrLst) (g : Hdr) (hc : HlsClean hl) : ((hl.setCur g).accept g).cur = {} := by
  have hn : ((hl.setCur g).accept g).n = hl.n + 1 := by rw [accept_n, hlSetCur_n]
  have hs : ((hl.setCur g).accept g).hdrs.size = hl.hdrs.size := by rw [accept_hdrs, hlSetCur_size]
  have hk : ∀ k, hl.n < k → k < hl.hdrs.size → ((hl.setCur g).accept g).hdrs[k]! = {} := by
    intro k h1 h2; rw [accept_hdrs, hlSetCur_ne hl g k (by omega)]; exact hc.1 k h1 h2
  have hh : ((hl.setCur g).accept g).hdr = {} := by
    rw [accept_hdr, hlSetCur_n, hlSetCur_size]
    split
    · rename_i hin; rw [hlSetCur_hdr_in hl g hin]; exact hc.2 hin
    · rfl
  unfold HdrLst.cur
  rw [hn, hs]
  split
  · rename_i hin; exact hk _ (by omega) hin
  · exact hh

/-- **(3) header block** (buffers within the 65,535-byte limit): ParseHeaders, one call from a list whose current slot
    is fresh, at an offset `≥ s`: on OK the stored headers keep / get their lower bounds and their order, and the
    header values keep / get their lower bounds -/
theorem parseHeaders_lo (b : Buf) (offs s : Nat) (hl : HdrLst) (hb : Option PHdrVals) (hfit : b.size ≤ 65535)
    (hok1 : hlsOK b hl) (hok2 : hbOK b offs hb) (hpe : hlsPend hl hb) (ho : offs ≤ b.size)
    (H : HlsSafe b offs hl hb) (hso : s ≤ offs) (hcur : hl.cur = {}) (L : HlsLo s hl)
    (LV : ∀ hv, hb = some hv → HvLo s hv) :
    (parseHeaders b offs hl hb).2.1 = .ok →
      HlsLo s (parseHeaders b offs hl hb).2.2.1 ∧ ∀ hv, (parseHeaders b offs hl hb).2.2.2 = some hv → HvLo s hv := by
  induction hk : b.size - offs using Nat.strongRecOn generalizing offs hl hb with
  | _ k ih =>
    rw [parseHeaders.eq_1 b offs hl hb]
    by_cases hlt : offs < b.size
    · rw [if_pos hlt]
      have hI : hlOK b offs hl.cur hb := ⟨by omega, hlsOK_cur hok1, hok2⟩
      rcases hp1 : parseHdrLine b offs hl.cur hb with ⟨n1, e1, g1, v1⟩
      obtain ⟨hO, hS, hF, hN, hE⟩ := parseHdrLine_safe b offs hl.cur hb hfit H.cur hI hp1
      have hHb : HbLo b s hb := by
        intro hv hh
        have Hv := H.cur.hv hv hh
        rw [hcur] at Hv
        exact ⟨LV hv hh, Hv.ctI (fun hq => by cases hq), Hv.paI (fun hq => by cases hq)⟩
      obtain ⟨lo1, lo2⟩ := parseHdrLine_lo b offs s hl.cur hb hfit hso (by rw [hcur]) (by rw [hcur]) hHb hp1
      cases e1 <;> simp only
      case ok =>
        have hpost := parseHdrLine_post b offs hl.cur hb hI hp1 (Or.inl rfl)
        have hg : offs < n1 := parseHdrLine_ok_gt b offs hl.cur hb hI hpe.1 hp1
        rw [if_pos hg]
        exact ih (b.size - n1) (by omega) n1 _ v1 (hlsOK_next g1 hok1) hpost.2
          (hlsPend_next g1 v1 hpe) hpost.1 (H.next g1 (hS (Or.inl rfl)) (hF rfl) (by omega)) (by omega)
          (flo_next_cur hl g1 H.clean) (L.next H.inn g1 (lo1 rfl) hso) (lo2 (Or.inl rfl)) rfl
      case empty =>
        split
        · intro _; exact ⟨L.setCur g1, lo2 (Or.inr rfl)⟩
        · intro hh; cases hh
      all_goals (intro hh; cases hh)
    · rw [if_neg hlt]
      intro hh; cases hh

/-! ### (4) the whole message -/

/-- **lower bounds, order and nesting of everything ParseSIPMsg reports, relative to the start offset `s`**:
    first line (`FlLo`), stored headers and shortcuts (`HlsLo`), header values (`HvLo`) -/
structure MsgLo (s : Nat) (m : PSIPMsg) : Prop where
  fl : FlLo s m.fl
  hl : HlsLo s m.hl
  pv : HvLo s m.pv

theorem flo_msgErr_ne_ok (m : PSIPMsg) (o : Nat) (e : Err) (flags : Nat) (he : e ≠ .ok) :
    (msgErr m o e flags).2.1 ≠ .ok := by
  unfold msgErr
  split
  · exact he
  · split
    · intro hh; cases hh
    · exact he

theorem flo_msgBody_keeps (b : Buf) (o : Nat) (m : PSIPMsg) (flags : Nat) :
    (msgBody b o m flags).2.2.fl = m.fl ∧ (msgBody b o m flags).2.2.hl = m.hl ∧ (msgBody b o m flags).2.2.pv = m.pv := by
  unfold msgBody msgEnd PSIPMsg.setBufs
  simp only
  repeat' split
  all_goals exact ⟨rfl, rfl, rfl⟩

/-- **(4) message, one call from the initial state**: after a successful ParseSIPMsg on a legitimate object in its
    initial state whose lists are fresh, everything reported has its lower bound `≥ o` (the offset given to the
    call), the stored headers are in message order without overlap, and the CSeq fields nest -/
theorem parseSIPMsg_lo (b : Buf) (o : Nat) (m : PSIPMsg) (flags : Nat) (hfit : b.size ≤ 65535)
    (hok : msgOK2 b o m) (H : MsgSafe b o m) (hst : m.state = .init) (hcur : m.hl.cur = {}) (L : MsgLo o m)
    {o' : Nat} {m' : PSIPMsg} (hr : parseSIPMsg b o m flags = (o', .ok, m')) : MsgLo o m' := by
  obtain ⟨ho, _, hrest⟩ := hok
  obtain ⟨hls, hvs, hpe⟩ := hrest (by rw [hst]; decide)
  have h1 : parseSIPMsg b o m flags = msgFLine b o { m with offs := o, state := .fline } flags := by
    unfold parseSIPMsg; rw [hst]
  rw [h1] at hr
  unfold msgFLine at hr
  simp only at hr
  have hF := parseFLine_safe b o m.fl hfit (H.flS (Or.inl hst))
  have hge := parseFLine_ge b o m.fl
  have hFl := parseFLine_lo b o o m.fl hfit (Nat.le_refl _) L.fl
  rcases hp : parseFLine b o m.fl with ⟨o1, e1, fl1⟩
  rw [hp] at hr hF hge hFl
  simp only at hF hge hFl
  cases e1 <;> simp only at hr
  case ok =>
    rw [msgHeaders_eq] at hr
    simp only at hr
    have hHls : HlsSafe b o1 m.hl (some m.pv) := (H.hls (Or.inl hst)).mono hge hF.ho
    have hLo := parseHeaders_lo b o1 o m.hl (some m.pv) hfit hls (hvOK_mono hvs hge hF.ho) hpe hF.ho hHls hge hcur L.hl
      (fun hv hh => by cases hh; exact L.pv)
    have hsome := parseHeaders_isSome b o1 m.hl m.pv
    rcases hp2 : parseHeaders b o1 m.hl (some m.pv) with ⟨o2, e2, hl2, hb2⟩
    rw [hp2] at hr hLo hsome
    cases hb2 with
    | none => cases hsome
    | some pv2 =>
      unfold afterHeaders at hr
      cases e2 <;> simp only [Option.getD_some] at hr
      case ok =>
        obtain ⟨k1, k2, k3⟩ := flo_msgBody_keeps b o2 { m with offs := o, fl := fl1, hl := hl2, pv := pv2, state := .body } flags
        rw [hr] at k1 k2 k3
        obtain ⟨q1, q2⟩ := hLo rfl
        exact ⟨by rw [k1]; exact hFl, by rw [k2]; exact q1, by rw [k3]; exact q2 pv2 rfl⟩
      all_goals (exfalso; have hq := congrArg (fun r => r.2.1) hr; simp only at hq; exact flo_msgErr_ne_ok _ _ _ _ (by decide) hq)
  all_goals (exfalso; have hq := congrArg (fun r => r.2.1) hr; simp only at hq; exact flo_msgErr_ne_ok _ _ _ _ (by decide) hq)

/-! #### objects produced by Init; chunk schedules -/

theorem HvLo_new (s k : Nat) : HvLo s ({ contacts := { vals := Array.replicate k {} } } : PHdrVals) :=
  ⟨Or.inl rfl, Or.inl rfl, Or.inl rfl, Or.inl rfl, Or.inl rfl, (fun hh => by cases hh), Or.inl rfl,
   (fun hh => by cases hh), Or.inl rfl, (fun hh => by cases hh), Or.inl rfl, (fun hh => by cases hh),
   ⟨FLo_zero s, (fun j hj _ => by cases hj)⟩, ⟨FLo_zero s, (fun j hj _ => by cases hj)⟩⟩

theorem HlsLo_new (s k : Nat) : HlsLo s ({ hdrs := Array.replicate k {} } : HdrLst) := by
  refine ⟨(fun j hj _ => by cases hj), (fun j k _ hk _ => by cases hk), fun j hj => Or.inl ?_⟩
  have hj' : j < 13 := by simpa using hj
  show (Array.replicate 13 ({} : Hdr))[j]! = {}
  simp [hj']

theorem flo_cur_new (k : Nat) : (({ hdrs := Array.replicate k {} } : HdrLst)).cur = {} := by
  unfold HdrLst.cur
  split
  · rename_i hin
    have hin' : 0 < k := by simpa using hin
    show (Array.replicate k ({} : Hdr))[0]! = {}
    simp [hin']
  · rfl

theorem MsgLo_init (s : Nat) (m : PSIPMsg) (len kh kc : Nat) (hdrs : Option Unit) (cts : Option Unit) :
    let m1 := m.init len (hdrs.map fun _ => Array.replicate kh {}) (cts.map fun _ => Array.replicate kc {})
    MsgLo s m1 ∧ m1.hl.cur = {} ∧ m1.state = .init := by
  have key : ∀ k k', MsgLo s (initObj len k k') ∧ (initObj len k k').hl.cur = {} ∧ (initObj len k k').state = .init :=
    fun k k' => ⟨⟨FlLo_new s, HlsLo_new s k, HvLo_new s k'⟩, flo_cur_new k, rfl⟩
  cases hdrs <;> cases cts
  · exact key 10 10
  · exact key 10 kc
  · exact key kh 10
  · exact key kh kc

/-- **(4) one call on an object produced by Init** (any previous contents, caller arrays of any capacity or none) -/
theorem parseSIPMsg_lo_init (b : Buf) (o : Nat) (m0 : PSIPMsg) (len kh kc : Nat) (hdrs cts : Option Unit) (flags : Nat)
    (hfit : b.size ≤ 65535) (ho : o ≤ b.size) {o' : Nat} {m' : PSIPMsg}
    (hr : parseSIPMsg b o (m0.init len (hdrs.map fun _ => Array.replicate kh {}) (cts.map fun _ => Array.replicate kc {}))
      flags = (o', .ok, m')) : MsgLo o m' := by
  obtain ⟨q1, q2, q3⟩ := MsgLo_init o m0 len kh kc hdrs cts
  exact parseSIPMsg_lo b o _ flags hfit (msgOK2_init b o ho m0 len kh kc hdrs cts)
    (MsgSafe_init b o ho m0 len kh kc hdrs cts) q3 q2 q1 hr

theorem flo_oneShotRun_mem {σ : Type} (P : Parser σ) (o : Nat) (st : σ) (l : List Buf) (hne : l ≠ []) :
    ∃ b ∈ l, oneShotRun P o st l = P b o st := by
  induction l with
  | nil => exact absurd rfl hne
  | cons b rest ih =>
    cases rest with
    | nil => exact ⟨b, List.mem_cons_self, rfl⟩
    | cons b' rest' =>
      simp only [oneShotRun]
      rcases hp : P b o st with ⟨o1, e1, s1⟩
      have hdone : e1 ≠ .moreBytes → ∃ x ∈ b :: b' :: rest', (o1, e1, s1) = P x o st :=
        fun _ => ⟨b, List.mem_cons_self, hp.symm⟩
      cases e1 <;> simp only <;> try exact hdone (by decide)
      obtain ⟨x, hx, hq⟩ := ih (by simp)
      exact ⟨x, List.mem_cons_of_mem _ hx, hq⟩

/-- a chain of resumed calls from Init that ends with OK ends with what ONE call on one of the buffers returns
    (`C01.schedule_msg_init`) -/
theorem flo_schedule_init (flags : Nat) (o : Nat) (m0 : PSIPMsg) (len kh kc : Nat) (hdrs cts : Option Unit)
    (l : List Buf) (hg : Growing l) (hfit : ∀ x ∈ l, x.size ≤ 65535) (hne : l ≠ []) (ho : ∀ b ∈ l, o ≤ b.size)
    {o' : Nat} {m' : PSIPMsg}
    (hr : resumeRun (C01.msgP flags) o
      (m0.init len (hdrs.map fun _ => Array.replicate kh {}) (cts.map fun _ => Array.replicate kc {})) l = (o', .ok, m')) :
    ∃ b ∈ l, parseSIPMsg b o
      (m0.init len (hdrs.map fun _ => Array.replicate kh {}) (cts.map fun _ => Array.replicate kc {})) flags = (o', .ok, m') := by
  have h0 : ∀ b ∈ l.head?, o ≤ b.size := by
    intro b hb
    cases l with
    | nil => cases hb
    | cons x xs => simp at hb; subst hb; exact ho _ List.mem_cons_self
  have hrr := C01.schedule_msg_init flags o m0 len kh kc hdrs cts l hg hfit h0
  simp only at hrr
  have hv : (oneShotRun (C01.msgP flags) o
      (m0.init len (hdrs.map fun _ => Array.replicate kh {}) (cts.map fun _ => Array.replicate kc {})) l).2.1 = .ok := by
    rw [← hrr.2.1, hr]
  have heq := hrr.eq (Or.inl hv)
  obtain ⟨b, hb, hone⟩ := flo_oneShotRun_mem (C01.msgP flags) o
    (m0.init len (hdrs.map fun _ => Array.replicate kh {}) (cts.map fun _ => Array.replicate kc {})) l hne
  rw [heq, hone] at hr
  exact ⟨b, hb, hr⟩

/-- **(4) under every chunk schedule, from Init**: if the chain of resumed calls over growing prefixes ends with OK,
    the final object has all lower bounds relative to the offset the first call was given, the stored headers are in
    message order without overlap, and the CSeq fields nest -/
theorem parseSIPMsg_lo_schedule_init (flags : Nat) (o : Nat) (m0 : PSIPMsg) (len kh kc : Nat) (hdrs cts : Option Unit)
    (l : List Buf) (hg : Growing l) (hfit : ∀ x ∈ l, x.size ≤ 65535) (hne : l ≠ []) (ho : ∀ b ∈ l, o ≤ b.size)
    {o' : Nat} {m' : PSIPMsg}
    (hr : resumeRun (C01.msgP flags) o
      (m0.init len (hdrs.map fun _ => Array.replicate kh {}) (cts.map fun _ => Array.replicate kc {})) l = (o', .ok, m')) :
    MsgLo o m' := by
  obtain ⟨b, hb, h⟩ := flo_schedule_init flags o m0 len kh kc hdrs cts l hg hfit hne ho hr
  exact parseSIPMsg_lo_init b o m0 len kh kc hdrs cts flags (hfit b hb) (ho b hb) h

/-! #### the first line lies before every header -/

/-- **order of the whole message**: the first line is a request line or a status line whose fields are in order from
    the start offset `o` and end before `o1`; every stored header, every shortcut and every header value starts at or
    after `o1` (and the stored headers are in order, `HlsLo`) -/
def MsgOrd (o : Nat) (m : PSIPMsg) : Prop :=
  ∃ o1, o ≤ o1 ∧ (FlOrdReq o o1 m.fl ∨ FlOrdRpl o o1 m.fl) ∧ HlsLo o1 m.hl ∧ HvLo o1 m.pv

/-- **(4) message order, one call from the initial state** on an object whose first line, header list and header
    values are fresh (as after Init) -/
theorem parseSIPMsg_ord (b : Buf) (o : Nat) (m : PSIPMsg) (flags : Nat) (hfit : b.size ≤ 65535)
    (hok : msgOK2 b o m) (H : MsgSafe b o m) (hst : m.state = .init) (hcur : m.hl.cur = {})
    (hfl : m.fl.state = .init) (Lh : ∀ s, HlsLo s m.hl) (Lv : ∀ s, HvLo s m.pv)
    {o' : Nat} {m' : PSIPMsg} (hr : parseSIPMsg b o m flags = (o', .ok, m')) : MsgOrd o m' := by
  obtain ⟨ho, _, hrest⟩ := hok
  obtain ⟨hls, hvs, hpe⟩ := hrest (by rw [hst]; decide)
  have h1 : parseSIPMsg b o m flags = msgFLine b o { m with offs := o, state := .fline } flags := by
    unfold parseSIPMsg; rw [hst]
  rw [h1] at hr
  unfold msgFLine at hr
  simp only at hr
  have hF := parseFLine_safe b o m.fl hfit (H.flS (Or.inl hst))
  have hge := parseFLine_ge b o m.fl
  rcases hp : parseFLine b o m.fl with ⟨o1, e1, fl1⟩
  rw [hp] at hr hF hge
  simp only at hF hge
  cases e1 <;> simp only at hr
  case ok =>
    have hOrd := parseFLine_order b o m.fl hfit hfl hp
    rw [msgHeaders_eq] at hr
    simp only at hr
    have hHls : HlsSafe b o1 m.hl (some m.pv) := (H.hls (Or.inl hst)).mono hge hF.ho
    have hLo := parseHeaders_lo b o1 o1 m.hl (some m.pv) hfit hls (hvOK_mono hvs hge hF.ho) hpe hF.ho hHls
      (Nat.le_refl _) hcur (Lh o1) (fun hv hh => by cases hh; exact Lv o1)
    have hsome := parseHeaders_isSome b o1 m.hl m.pv
    rcases hp2 : parseHeaders b o1 m.hl (some m.pv) with ⟨o2, e2, hl2, hb2⟩
    rw [hp2] at hr hLo hsome
    cases hb2 with
    | none => cases hsome
    | some pv2 =>
      unfold afterHeaders at hr
      cases e2 <;> simp only [Option.getD_some] at hr
      case ok =>
        obtain ⟨k1, k2, k3⟩ := flo_msgBody_keeps b o2 { m with offs := o, fl := fl1, hl := hl2, pv := pv2, state := .body } flags
        rw [hr] at k1 k2 k3
        obtain ⟨q1, q2⟩ := hLo rfl
        exact ⟨o1, hge, by rw [k1]; exact hOrd, by rw [k2]; exact q1, by rw [k3]; exact q2 pv2 rfl⟩
      all_goals (exfalso; have hq := congrArg (fun r => r.2.1) hr; simp only at hq; exact flo_msgErr_ne_ok _ _ _ _ (by decide) hq)
  all_goals (exfalso; have hq := congrArg (fun r => r.2.1) hr; simp only at hq; exact flo_msgErr_ne_ok _ _ _ _ (by decide) hq)

/-- … on an object produced by Init -/
theorem parseSIPMsg_ord_init (b : Buf) (o : Nat) (m0 : PSIPMsg) (len kh kc : Nat) (hdrs cts : Option Unit) (flags : Nat)
    (hfit : b.size ≤ 65535) (ho : o ≤ b.size) {o' : Nat} {m' : PSIPMsg}
    (hr : parseSIPMsg b o (m0.init len (hdrs.map fun _ => Array.replicate kh {}) (cts.map fun _ => Array.replicate kc {}))
      flags = (o', .ok, m')) : MsgOrd o m' := by
  have key : ∀ k k', (initObj len k k').hl.cur = {} ∧ (initObj len k k').state = .init ∧
      (initObj len k k').fl.state = .init ∧ (∀ s, HlsLo s (initObj len k k').hl) ∧ (∀ s, HvLo s (initObj len k k').pv) :=
    fun k k' => ⟨flo_cur_new k, rfl, rfl, fun s => HlsLo_new s k, fun s => HvLo_new s k'⟩
  have hall : (m0.init len (hdrs.map fun _ => Array.replicate kh {}) (cts.map fun _ => Array.replicate kc {})).hl.cur = {} ∧
      (m0.init len (hdrs.map fun _ => Array.replicate kh {}) (cts.map fun _ => Array.replicate kc {})).state = .init ∧
      (m0.init len (hdrs.map fun _ => Array.replicate kh {}) (cts.map fun _ => Array.replicate kc {})).fl.state = .init ∧
      (∀ s, HlsLo s (m0.init len (hdrs.map fun _ => Array.replicate kh {}) (cts.map fun _ => Array.replicate kc {})).hl) ∧
      (∀ s, HvLo s (m0.init len (hdrs.map fun _ => Array.replicate kh {}) (cts.map fun _ => Array.replicate kc {})).pv) := by
    cases hdrs <;> cases cts
    · exact key 10 10
    · exact key 10 kc
    · exact key kh 10
    · exact key kh kc
  obtain ⟨q1, q2, q3, q4, q5⟩ := hall
  exact parseSIPMsg_ord b o _ flags hfit (msgOK2_init b o ho m0 len kh kc hdrs cts)
    (MsgSafe_init b o ho m0 len kh kc hdrs cts) q2 q1 q3 q4 q5 hr

/-- … and under every chunk schedule, from Init -/
theorem parseSIPMsg_ord_schedule_init (flags : Nat) (o : Nat) (m0 : PSIPMsg) (len kh kc : Nat) (hdrs cts : Option Unit)
    (l : List Buf) (hg : Growing l) (hfit : ∀ x ∈ l, x.size ≤ 65535) (hne : l ≠ []) (ho : ∀ b ∈ l, o ≤ b.size)
    {o' : Nat} {m' : PSIPMsg}
    (hr : resumeRun (C01.msgP flags) o
      (m0.init len (hdrs.map fun _ => Array.replicate kh {}) (cts.map fun _ => Array.replicate kc {})) l = (o', .ok, m')) :
    MsgOrd o m' := by
  obtain ⟨b, hb, h⟩ := flo_schedule_init flags o m0 len kh kc hdrs cts l hg hfit hne ho hr
  exact parseSIPMsg_ord_init b o m0 len kh kc hdrs cts flags (hfit b hb) (ho b hb) h

/-! #### the first line and the header block lie before the body -/

theorem flo_msgBody_body (b : Buf) (o : Nat) (m : PSIPMsg) (flags : Nat) :
    (msgBody b o m flags).2.2.body.offs = trunc16 o := by
  unfold msgBody msgEnd PSIPMsg.setBufs
  simp only
  repeat' split
  all_goals rfl

/-- **(4) everything reported about the first line and the headers ends at or before the start of the body**: after
    a successful ParseSIPMsg (one call from the initial state) the body starts at an offset `≥ o` and every first-line
    field, every stored header, every shortcut and every header value (`MsgRelIn`) ends at or before it -/
theorem parseSIPMsg_before_body (b : Buf) (o : Nat) (m : PSIPMsg) (flags : Nat) (hfit : b.size ≤ 65535)
    (hok : msgOK2 b o m) (H : MsgSafe b o m) (hst : m.state = .init)
    {o' : Nat} {m' : PSIPMsg} (hr : parseSIPMsg b o m flags = (o', .ok, m')) :
    o ≤ m'.body.offs ∧ MsgRelIn b m'.body.offs m' := by
  obtain ⟨ho, _, hrest⟩ := hok
  obtain ⟨hls, hvs, hpe⟩ := hrest (by rw [hst]; decide)
  have h1 : parseSIPMsg b o m flags = msgFLine b o { m with offs := o, state := .fline } flags := by
    unfold parseSIPMsg; rw [hst]
  rw [h1] at hr
  unfold msgFLine at hr
  simp only at hr
  have hF := parseFLine_safe b o m.fl hfit (H.flS (Or.inl hst))
  have hge := parseFLine_ge b o m.fl
  rcases hp : parseFLine b o m.fl with ⟨o1, e1, fl1⟩
  rw [hp] at hr hF hge
  simp only at hF hge
  cases e1 <;> simp only at hr
  case ok =>
    rw [msgHeaders_eq] at hr
    simp only at hr
    have hHls : HlsSafe b o1 m.hl (some m.pv) := (H.hls (Or.inl hst)).mono hge hF.ho
    have hS := parseHeaders_safe b o1 m.hl (some m.pv) hfit hls (hvOK_mono hvs hge hF.ho) hpe hF.ho hHls
    have hsome := parseHeaders_isSome b o1 m.hl m.pv
    rcases hp2 : parseHeaders b o1 m.hl (some m.pv) with ⟨o2, e2, hl2, hb2⟩
    rw [hp2] at hr hS hsome
    cases hb2 with
    | none => cases hsome
    | some pv2 =>
      obtain ⟨_, _, hM, hR, _⟩ := hS
      simp only at hM hR
      unfold afterHeaders at hr
      cases e2 <;> simp only [Option.getD_some] at hr
      case ok =>
        obtain ⟨k1, k2, k3⟩ := flo_msgBody_keeps b o2 { m with offs := o, fl := fl1, hl := hl2, pv := pv2, state := .body } flags
        have k4 := flo_msgBody_body b o2 { m with offs := o, fl := fl1, hl := hl2, pv := pv2, state := .body } flags
        rw [hr] at k1 k2 k3 k4
        simp only at k4
        have hHS := hM (Or.inr rfl)
        have hrg := hR (Or.inl rfl)
        have hb : m'.body.offs = o2 := by rw [k4]; exact trunc16_of_lt (by omega)
        rw [hb]
        exact ⟨by omega, ⟨by rw [k1]; exact hF.mono hrg.1 hrg.2, by rw [k2]; exact hHS.inn,
          by rw [k3]; exact (hHS.cur.hv pv2 rfl).inn⟩⟩
      all_goals (exfalso; have hq := congrArg (fun r => r.2.1) hr; simp only at hq; exact flo_msgErr_ne_ok _ _ _ _ (by decide) hq)
  all_goals (exfalso; have hq := congrArg (fun r => r.2.1) hr; simp only at hq; exact flo_msgErr_ne_ok _ _ _ _ (by decide) hq)

/-- … on an object produced by Init, one call or any chain of resumed calls -/
theorem parseSIPMsg_before_body_schedule_init (flags : Nat) (o : Nat) (m0 : PSIPMsg) (len kh kc : Nat)
    (hdrs cts : Option Unit) (l : List Buf) (hg : Growing l) (hfit : ∀ x ∈ l, x.size ≤ 65535) (hne : l ≠ [])
    (ho : ∀ b ∈ l, o ≤ b.size) {o' : Nat} {m' : PSIPMsg}
    (hr : resumeRun (C01.msgP flags) o
      (m0.init len (hdrs.map fun _ => Array.replicate kh {}) (cts.map fun _ => Array.replicate kc {})) l = (o', .ok, m')) :
    ∃ b ∈ l, o ≤ m'.body.offs ∧ MsgRelIn b m'.body.offs m' := by
  obtain ⟨b, hb, h⟩ := flo_schedule_init flags o m0 len kh kc hdrs cts l hg hfit hne ho hr
  exact ⟨b, hb, parseSIPMsg_before_body b o _ flags (hfit b hb) (msgOK2_init b o (ho b hb) m0 len kh kc hdrs cts)
    (MsgSafe_init b o (ho b hb) m0 len kh kc hdrs cts) (MsgLo_init o m0 len kh kc hdrs cts).2.2 h⟩

/-! #### what the records say, field by field -/

/-- **(2) a header lies inside its own line**: ParseHdrLine on a new header at line offset `o`, OK with returned
    offset `o'`: `o = name.offs`, the name is not empty and ends at or before `o'`, the value (if set) starts after
    the end of the name and ends at or before `o'` -/
theorem parseHdrLine_own_line (b : Buf) (o s : Nat) (h : Hdr) (hb : Option PHdrVals) (hfit : b.size ≤ 65535)
    (hso : s ≤ o) (hst : h.state = .init) (hval : h.val.len = 0) (hH : HbLo b s hb)
    (H : HlSafe b o (h, hb)) (hI : hlOK b o h hb)
    {o' : Nat} {h' : Hdr} {hb' : Option PHdrVals} (hr : parseHdrLine b o h hb = (o', .ok, h', hb')) :
    h'.name.offs = o ∧ 0 < h'.name.len ∧ h'.name.offs + h'.name.len ≤ o' ∧
    (h'.val.len = 0 ∨ h'.name.offs + h'.name.len < h'.val.offs) ∧ h'.val.offs + h'.val.len ≤ o' ∧ o' ≤ b.size := by
  have h1 := (parseHdrLine_lo b o s h hb hfit hso hst hval hH hr).1 rfl
  have h2 := (parseHdrLine_safe b o h hb hfit H hI hr).2.1 (Or.inl rfl)
  exact ⟨h1.nameO, h1.nameNE, h2.nameIn, h1.nv, h2.valIn, h2.hi⟩

/-- what `MsgLo s m` says, field by field -/
theorem MsgLo.meaning {s : Nat} {m : PSIPMsg} (h : MsgLo s m) :
    (FLo s m.fl.method ∧ FLo s m.fl.uri ∧ FLo s m.fl.version ∧ FLo s m.fl.statusCode ∧ FLo s m.fl.reason) ∧
    (∀ k, k < m.hl.n → k < m.hl.hdrs.size →
      s ≤ m.hl.hdrs[k]!.name.offs ∧ 0 < m.hl.hdrs[k]!.name.len ∧
      (m.hl.hdrs[k]!.val.len = 0 ∨ m.hl.hdrs[k]!.name.offs + m.hl.hdrs[k]!.name.len < m.hl.hdrs[k]!.val.offs)) ∧
    (∀ j k, j < k → k < m.hl.n → k < m.hl.hdrs.size →
      m.hl.hdrs[j]!.name.offs + m.hl.hdrs[j]!.name.len ≤ m.hl.hdrs[k]!.name.offs ∧
      m.hl.hdrs[j]!.val.offs + m.hl.hdrs[j]!.val.len ≤ m.hl.hdrs[k]!.name.offs) ∧
    (∀ j, j < m.hl.h.size → m.hl.h[j]! = {} ∨
      (s ≤ m.hl.h[j]!.name.offs ∧ 0 < m.hl.h[j]!.name.len ∧
       (m.hl.h[j]!.val.len = 0 ∨ m.hl.h[j]!.name.offs + m.hl.h[j]!.name.len < m.hl.h[j]!.val.offs))) ∧
    (m.pv.from_.state = .fin → s ≤ m.pv.from_.v.offs) ∧ (m.pv.to.state = .fin → s ≤ m.pv.to.v.offs) ∧
    (m.pv.callid.state = .fin → s ≤ m.pv.callid.callID.offs) ∧
    (m.pv.cseq.state = .fin → s ≤ m.pv.cseq.v.offs ∧ m.pv.cseq.cseq.offs = m.pv.cseq.v.offs ∧
      m.pv.cseq.cseq.offs + m.pv.cseq.cseq.len ≤ m.pv.cseq.method.offs ∧
      m.pv.cseq.method.offs + m.pv.cseq.method.len = m.pv.cseq.v.offs + m.pv.cseq.v.len) ∧
    (m.pv.clen.state = .fin → s ≤ m.pv.clen.sVal.offs) ∧ (m.pv.expires.state = .fin → s ≤ m.pv.expires.sVal.offs) ∧
    FLo s m.pv.contacts.lastHVal ∧
    (∀ k, k < m.pv.contacts.n → k < m.pv.contacts.vals.size → s ≤ m.pv.contacts.vals[k]!.v.offs) ∧
    FLo s m.pv.pais.lastHVal ∧
    (∀ k, k < m.pv.pais.n → k < m.pv.pais.vals.size → s ≤ m.pv.pais.vals[k]!.v.offs) := by
  refine ⟨⟨h.fl.1.method, h.fl.1.uri, h.fl.1.version, h.fl.1.statusCode, h.fl.1.reason⟩, h.hl.stored, h.hl.order,
    h.hl.short, ?_, ?_, h.pv.callidL, ?_, h.pv.clenL, h.pv.expiresL, h.pv.ct.lhv, h.pv.ct.stored, h.pv.pa.lhv,
    h.pv.pa.stored⟩
  · intro hf
    rcases h.pv.fromL with h0 | h0
    · rw [hf] at h0; cases h0
    · exact h0
  · intro hf
    rcases h.pv.toL with h0 | h0
    · rw [hf] at h0; cases h0
    · exact h0
  · intro hf
    have := h.pv.cseqL hf
    exact ⟨this.lo, this.cseqO, this.order, this.methE⟩

/-- consecutive stored headers: header `k` (name and value) ends at or before the start of the name of header `k+1` -/
theorem HlsLo.consecutive {s : Nat} {hl : HdrLst} (h : HlsLo s hl) (k : Nat) (h1 : k + 1 < hl.n)
    (h2 : k + 1 < hl.hdrs.size) :
    hl.hdrs[k]!.name.offs + hl.hdrs[k]!.name.len ≤ hl.hdrs[k + 1]!.name.offs ∧
    hl.hdrs[k]!.val.offs + hl.hdrs[k]!.val.len ≤ hl.hdrs[k + 1]!.name.offs :=
  h.order k (k + 1) (Nat.lt_succ_self k) h1 h2

/-! ### non-vacuity (tests: closed computations on the model) -/

/-- a buffer with two bytes before the message of `C01.exMsg`; the parse starts at offset 2 -/
def floExBuf : Buf := "ab".toUTF8.data ++ C01.exMsg

example : (parseSIPMsg floExBuf 2 C01.exInit 0).2.1 = Err.ok := by decide +kernel

/-- the hypotheses of `parseSIPMsg_lo_init` are met by a concrete message at a non-zero offset -/
example : MsgLo 2 (parseSIPMsg floExBuf 2 C01.exInit 0).2.2 := by
  have hv : (parseSIPMsg floExBuf 2 C01.exInit 0).2.1 = Err.ok := by decide +kernel
  have hr : parseSIPMsg floExBuf 2 C01.exInit 0 =
      ((parseSIPMsg floExBuf 2 C01.exInit 0).1, .ok, (parseSIPMsg floExBuf 2 C01.exInit 0).2.2) := by rw [← hv]
  exact parseSIPMsg_lo_init floExBuf 2 {} 0 0 0 none none 0 (by decide +kernel) (by decide +kernel) hr

/-- test: the same for the order of the whole message -/
example : MsgOrd 2 (parseSIPMsg floExBuf 2 C01.exInit 0).2.2 := by
  have hv : (parseSIPMsg floExBuf 2 C01.exInit 0).2.1 = Err.ok := by decide +kernel
  have hr : parseSIPMsg floExBuf 2 C01.exInit 0 =
      ((parseSIPMsg floExBuf 2 C01.exInit 0).1, .ok, (parseSIPMsg floExBuf 2 C01.exInit 0).2.2) := by rw [← hv]
  exact parseSIPMsg_ord_init floExBuf 2 {} 0 0 0 none none 0 (by decide +kernel) (by decide +kernel) hr

/-- … and the object really has stored headers, so the order statement is not vacuous -/
example : (parseSIPMsg floExBuf 2 C01.exInit 0).2.2.hl.n = 5 := by decide +kernel

end Sipsp
