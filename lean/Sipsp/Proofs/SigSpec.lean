/-
  Sipsp.Proofs.SigSpec — the message signature (`getMsgSigCore`, msg_sig.go) factors through a small "view" of the
  stored headers: lemmas for property C19.
-/
import Sipsp.Model.Sig
import Sipsp.Proofs.HdrSpec

namespace Sipsp

/-! ### the 16-bit `seen` flag word -/

/-- the flag bit the loop uses for a header type (`1 << t` in a uint16) -/
def sigBit (t : Nat) : Nat := (1 <<< t) % 65536

theorem sigBit_lt (t : Nat) (h : t < 16) : sigBit t = 2 ^ t := by
  unfold sigBit
  rw [Nat.one_shiftLeft]
  exact Nat.mod_eq_of_lt (by
    have : 2 ^ t < 2 ^ 16 := Nat.pow_lt_pow_right (by decide) h
    simpa using this)

theorem sigBit_ge (t : Nat) (h : 16 ≤ t) : sigBit t = 0 := by
  unfold sigBit
  rw [Nat.one_shiftLeft]
  have : (2:Nat) ^ t = 2 ^ 16 * 2 ^ (t - 16) := by rw [← Nat.pow_add]; congr 1; omega
  rw [this]; exact Nat.mul_mod_right _ _

theorem and_two_pow_eq_zero (s t : Nat) : (s &&& 2 ^ t = 0) ↔ s.testBit t = false := by
  constructor
  · intro h
    have := Nat.testBit_and s (2 ^ t) t
    rw [h, Nat.zero_testBit, Nat.testBit_two_pow] at this
    simpa using this.symm
  · intro h
    apply Nat.eq_of_testBit_eq
    intro i
    rw [Nat.testBit_and, Nat.testBit_two_pow, Nat.zero_testBit]
    by_cases e : t = i
    · subst e; simp [h]
    · simp [e]

/-- the loop's "not seen yet" test, for a type below 16 -/
theorem unseen_iff (s t : Nat) (ht : t < 16) : ((s &&& sigBit t == 0) = true) ↔ s.testBit t = false := by
  rw [sigBit_lt t ht, beq_iff_eq]; exact and_two_pow_eq_zero s t

theorem testBit_or_sigBit (s t u : Nat) (ht : t < 16) :
    (s ||| sigBit t).testBit u = (s.testBit u || decide (t = u)) := by
  rw [sigBit_lt t ht, Nat.testBit_or, Nat.testBit_two_pow]

theorem testBit_or_sigBit_mono (s t u : Nat) (h : s.testBit u = true) : (s ||| sigBit t).testBit u = true := by
  rw [Nat.testBit_or, h]; rfl

/-! ### fingerprinted header types -/

/-- the type is one of the eight fingerprinted ones (`sigHdrs`) -/
def isSigType (t : Nat) : Bool := Gen.sigHdrs.contains t

theorem hdr2SigId_eq (t : Nat) :
    (hdr2SigId t != 255) = isSigType t ∧ (isSigType t = true → hdr2SigId t < 8 ∧ t < 15) := by
  unfold hdr2SigId isSigType
  simp only [Gen.sigHdrs, List.findIdx?_cons, List.findIdx?_nil, List.contains_cons, List.contains_nil]
  by_cases h3 : t = 3
  · subst h3; decide
  by_cases h8 : t = 8
  · subst h8; decide
  by_cases h4 : t = 4
  · subst h4; decide
  by_cases h1 : t = 1
  · subst h1; decide
  by_cases h6 : t = 6
  · subst h6; decide
  by_cases h2 : t = 2
  · subst h2; decide
  by_cases h5 : t = 5
  · subst h5; decide
  by_cases h10 : t = 10
  · subst h10; decide
  have e3 : (3 == t) = false := by simp; omega
  have e8 : (8 == t) = false := by simp; omega
  have e4 : (4 == t) = false := by simp; omega
  have e1 : (1 == t) = false := by simp; omega
  have e6 : (6 == t) = false := by simp; omega
  have e2 : (2 == t) = false := by simp; omega
  have e5 : (5 == t) = false := by simp; omega
  have e10 : (10 == t) = false := by simp; omega
  have f3 : (t == 3) = false := by simp; omega
  have f8 : (t == 8) = false := by simp; omega
  have f4 : (t == 4) = false := by simp; omega
  have f1 : (t == 1) = false := by simp; omega
  have f6 : (t == 6) = false := by simp; omega
  have f2 : (t == 2) = false := by simp; omega
  have f5 : (t == 5) = false := by simp; omega
  have f10 : (t == 10) = false := by simp; omega
  simp [e3, e8, e4, e1, e6, e2, e5, e10, f3, f8, f4, f1, f6, f2, f5, f10]

theorem isSigType_lt (t : Nat) (h : isSigType t = true) : t < 15 := ((hdr2SigId_eq t).2 h).2

theorem isSigType_via : isSigType HdrVia = true := by decide

theorem isSigType_iff (t : Nat) : isSigType t = true ↔ t ∈ Gen.sigHdrs := by
  unfold isSigType; exact List.contains_iff_mem

/-- the entry `GetHdrSigId` produces for a fingerprinted type: position in `sigHdrs`, plus 8 for a
    one-letter (compact) name -/
def sigEntry (t : Nat) (compact : Bool) : Nat :=
  if compact then HdrSigIdCMask ||| hdr2SigId t else hdr2SigId t

theorem sigEntry_lt (t : Nat) (c : Bool) (h : isSigType t = true) : sigEntry t c < 16 := by
  have h8 := ((hdr2SigId_eq t).2 h).1
  unfold sigEntry HdrSigIdCMask
  cases c
  · simp only [Bool.false_eq_true, ↓reduceIte]; omega
  · simp only [↓reduceIte]
    have : 8 ||| hdr2SigId t < 2 ^ 4 := Nat.or_lt_two_pow (by decide) (by omega)
    simpa using this

theorem getHdrSigId_eq (h : Hdr) :
    getHdrSigId h = if isSigType h.type then (sigEntry h.type (h.name.len == 1), Err.ok)
                    else (255, if h.type ≥ HdrOther + 1 then Err.bug else Err.bad) := by
  have H := hdr2SigId_eq h.type
  unfold getHdrSigId sigEntry
  by_cases hs : isSigType h.type = true
  · have h15 : ¬ h.type ≥ HdrOther + 1 := by have := (H.2 hs).2; simp only [HdrOther]; omega
    have hne : (hdr2SigId h.type != 255) = true := by rw [H.1]; exact hs
    simp only [h15, ↓reduceIte, hne, hs]
    by_cases hc : (h.name.len == 1) = true
    · simp only [hc, ↓reduceIte]
    · simp only [hc, Bool.false_eq_true, ↓reduceIte]
  · have hne : (hdr2SigId h.type != 255) = false := by rw [H.1]; simpa using hs
    simp only [hs, Bool.false_eq_true, ↓reduceIte, hne]
    by_cases h15 : h.type ≥ HdrOther + 1
    · simp only [h15, ↓reduceIte]
    · simp only [h15, ↓reduceIte]

/-! ### the view of one stored header, and one loop iteration in terms of it -/

/-- what the signature loop reads of one stored header -/
structure SigKey where
  /-- header type -/
  type : Nat
  /-- the name is one byte long (compact form) -/
  compact : Bool
  /-- for a Via header: the bytes of its value (`some none`: the field lies outside the buffer, Go panics);
      `none` for every other type -/
  viaVal : Option (Option Buf)

def hdrKey (mbuf : Buf) (h : Hdr) : SigKey :=
  { type := h.type, compact := h.name.len == 1,
    viaVal := if h.type == HdrVia then some (h.val.get? mbuf) else none }

def SigKey.viaSig (k : SigKey) (old : Nat) : Nat :=
  if k.type == HdrVia then
    match k.viaVal with
    | some (some v) => (getViaBrSig v).1
    | _ => old
  else old

def SigKey.viaPnc (k : SigKey) : Bool :=
  if k.type == HdrVia then
    match k.viaVal with
    | some (some v) => (getViaBrSig v).2.2
    | some none => true
    | none => false
  else false

/-- the header contributes an entry: fingerprinted type, Contact only for INVITE -/
def SigKey.counted (k : SigKey) (method : Nat) : Bool :=
  isSigType k.type && (k.type != HdrContact || method == MInvite)

def SigKey.entry (k : SigKey) (method : Nat) : List Nat :=
  if k.counted method then [sigEntry k.type k.compact] else []

def stepSig (k : SigKey) (s : MsgSig) : MsgSig :=
  { method := s.method, cidSLen := s.cidSLen, cidSig := s.cidSig, fromSig := s.fromSig,
    viaBSig := k.viaSig s.viaBSig, hdrSig := s.hdrSig ++ k.entry s.method }

/-- the state after visiting a header whose type was not seen before -/
def sigStep (k : SigKey) (st : SigLoopSt) : SigLoopSt :=
  { sig := stepSig k st.sig, seen := st.seen ||| sigBit k.type, pnc := st.pnc || k.viaPnc }

/-- one iteration of `msgSigLoop` -/
theorem msgSigLoop_cons (mbuf : Buf) (pf : Nat) (h : Hdr) (rest : List Hdr) (st : SigLoopSt) :
    msgSigLoop mbuf pf (h :: rest) st =
      if st.seen &&& sigBit h.type == 0 then
        if ((hdrKey mbuf h).counted st.sig.method &&
            decide ((sigStep (hdrKey mbuf h) st).sig.hdrSig.length ≥ 8)) = true then
          (sigStep (hdrKey mbuf h) st, true)
        else if pf &&& sigHdrsFlags == (sigStep (hdrKey mbuf h) st).seen then (sigStep (hdrKey mbuf h) st, true)
        else msgSigLoop mbuf pf rest (sigStep (hdrKey mbuf h) st)
      else msgSigLoop mbuf pf rest st := by
  rw [msgSigLoop]
  unfold sigBit
  by_cases hseen : (st.seen &&& 1 <<< h.type % 65536 == 0) = true
  · simp only [hseen, ↓reduceIte]
    rw [getHdrSigId_eq]
    have hne : ((if h.type ≥ HdrOther + 1 then Err.bug else Err.bad) == Err.ok) = false := by
      split <;> rfl
    by_cases hv : (h.type == HdrVia) = true
    · cases hg : h.val.get? mbuf with
      | none =>
        by_cases hs : isSigType h.type = true
        · by_cases hc : (h.type != HdrContact || st.sig.method == MInvite) = true
          · simp [hv, hg, hs, hc, sigStep, stepSig, hdrKey, SigKey.counted, SigKey.entry, SigKey.viaSig,
              SigKey.viaPnc, sigBit, Gen.C.NoSigHdrs]
          · simp [hv, hg, hs, hc, sigStep, stepSig, hdrKey, SigKey.counted, SigKey.entry, SigKey.viaSig,
              SigKey.viaPnc, sigBit]
        · simp [hv, hg, hs, hne, sigStep, stepSig, hdrKey, SigKey.counted, SigKey.entry, SigKey.viaSig,
            SigKey.viaPnc, sigBit]
      | some v =>
        by_cases hs : isSigType h.type = true
        · by_cases hc : (h.type != HdrContact || st.sig.method == MInvite) = true
          · simp [hv, hg, hs, hc, sigStep, stepSig, hdrKey, SigKey.counted, SigKey.entry, SigKey.viaSig,
              SigKey.viaPnc, sigBit, Gen.C.NoSigHdrs]
          · simp [hv, hg, hs, hc, sigStep, stepSig, hdrKey, SigKey.counted, SigKey.entry, SigKey.viaSig,
              SigKey.viaPnc, sigBit]
        · simp [hv, hg, hs, hne, sigStep, stepSig, hdrKey, SigKey.counted, SigKey.entry, SigKey.viaSig,
            SigKey.viaPnc, sigBit]
    · have hv' : (h.type == HdrVia) = false := by simpa using hv
      by_cases hs : isSigType h.type = true
      · by_cases hc : (h.type != HdrContact || st.sig.method == MInvite) = true
        · simp [hv', hs, hc, sigStep, stepSig, hdrKey, SigKey.counted, SigKey.entry, SigKey.viaSig,
            SigKey.viaPnc, sigBit, Gen.C.NoSigHdrs]
        · simp [hv', hs, hc, sigStep, stepSig, hdrKey, SigKey.counted, SigKey.entry, SigKey.viaSig,
            SigKey.viaPnc, sigBit]
      · simp [hv', hs, hne, sigStep, stepSig, hdrKey, SigKey.counted, SigKey.entry, SigKey.viaSig,
          SigKey.viaPnc, sigBit]
  · simp only [hseen, Bool.false_eq_true, ↓reduceIte]


/-! ### (2) at most eight entries -/

theorem sigStep_len (k : SigKey) (st : SigLoopSt) :
    (sigStep k st).sig.hdrSig.length = st.sig.hdrSig.length + (if k.counted st.sig.method then 1 else 0) := by
  unfold sigStep stepSig SigKey.entry
  by_cases hc : k.counted st.sig.method = true
  · simp [hc]
  · simp [hc]

theorem msgSigLoop_len_le (mbuf : Buf) (pf : Nat) (hs : List Hdr) (st : SigLoopSt)
    (h0 : st.sig.hdrSig.length < 8) : (msgSigLoop mbuf pf hs st).1.sig.hdrSig.length ≤ 8 := by
  induction hs generalizing st with
  | nil => rw [msgSigLoop]; show st.sig.hdrSig.length ≤ 8; omega
  | cons h rest ih =>
    rw [msgSigLoop_cons]
    have hl := sigStep_len (hdrKey mbuf h) st
    by_cases hseen : (st.seen &&& sigBit h.type == 0) = true
    · simp only [hseen, ↓reduceIte]
      by_cases hfull : ((hdrKey mbuf h).counted st.sig.method &&
            decide ((sigStep (hdrKey mbuf h) st).sig.hdrSig.length ≥ 8)) = true
      · simp only [hfull, ↓reduceIte]
        show (sigStep (hdrKey mbuf h) st).sig.hdrSig.length ≤ 8
        split at hl <;> omega
      · simp only [hfull, Bool.false_eq_true, ↓reduceIte]
        have hlt : (sigStep (hdrKey mbuf h) st).sig.hdrSig.length < 8 := by
          by_cases hc : (hdrKey mbuf h).counted st.sig.method = true
          · simp only [hc, Bool.true_and, decide_eq_true_eq] at hfull; omega
          · simp only [hc, Bool.false_eq_true, ↓reduceIte] at hl; omega
        split
        · show (sigStep (hdrKey mbuf h) st).sig.hdrSig.length ≤ 8
          omega
        · exact ih _ hlt
    · simp only [hseen, Bool.false_eq_true, ↓reduceIte]
      exact ih st h0

/-! ### counting the fingerprinted types not seen yet -/

theorem filter_length_le_of_imp {α : Type} (p q : α → Bool) (L : List α)
    (h : ∀ x ∈ L, q x = true → p x = true) : (L.filter q).length ≤ (L.filter p).length := by
  induction L with
  | nil => exact Nat.le_refl _
  | cons a L ih =>
    have ih' := ih (fun x hx => h x (List.mem_cons_of_mem a hx))
    have ha := h a List.mem_cons_self
    simp only [List.filter_cons]
    cases hq : q a
    · cases hp : p a
      · simpa using ih'
      · simp only [Bool.false_eq_true, ↓reduceIte, List.length_cons]; omega
    · rw [ha hq]; simpa using ih'

theorem filter_length_lt_of_imp {α : Type} (p q : α → Bool) (L : List α)
    (h : ∀ x ∈ L, q x = true → p x = true) (t : α) (ht : t ∈ L) (hp : p t = true) (hq : q t = false) :
    (L.filter q).length < (L.filter p).length := by
  induction L with
  | nil => cases ht
  | cons a L ih =>
    have hL : ∀ x ∈ L, q x = true → p x = true := fun x hx => h x (List.mem_cons_of_mem a hx)
    have hle := filter_length_le_of_imp p q L hL
    have ha := h a List.mem_cons_self
    simp only [List.filter_cons]
    rcases List.mem_cons.mp ht with e | hin
    · subst e
      simp only [hp, hq, ↓reduceIte, Bool.false_eq_true, List.length_cons]; omega
    · have ih' := ih hL hin
      cases hqa : q a
      · cases hpa : p a
        · simpa using ih'
        · simp only [Bool.false_eq_true, ↓reduceIte, List.length_cons]; omega
      · rw [ha hqa]; simpa using ih'

/-- number of fingerprinted types whose bit is not set in `seen` -/
def unseenCount (seen : Nat) : Nat := (Gen.sigHdrs.filter (fun t => !seen.testBit t)).length

theorem unseenCount_zero_init : unseenCount 0 = 8 := by decide

theorem unseenCount_or_le (s t : Nat) : unseenCount (s ||| sigBit t) ≤ unseenCount s := by
  unfold unseenCount
  apply filter_length_le_of_imp
  intro x _ hx
  cases hb : s.testBit x
  · rfl
  · rw [testBit_or_sigBit_mono s t x hb] at hx; cases hx

theorem unseenCount_or_lt (s t : Nat) (hs : isSigType t = true) (hb : s.testBit t = false) :
    unseenCount (s ||| sigBit t) + 1 ≤ unseenCount s := by
  unfold unseenCount
  apply filter_length_lt_of_imp _ _ _ _ t ((isSigType_iff t).mp hs)
  · simp [hb]
  · have ht : t < 16 := by have := isSigType_lt t hs; omega
    rw [testBit_or_sigBit s t t ht]; simp
  · intro x _ hx
    cases hbx : s.testBit x
    · rfl
    · rw [testBit_or_sigBit_mono s t x hbx] at hx; cases hx

theorem unseenCount_eq_zero (s : Nat) (h : unseenCount s = 0) (t : Nat) (ht : isSigType t = true) :
    s.testBit t = true := by
  unfold unseenCount at h
  have hnil := List.eq_nil_of_length_eq_zero h
  have := (List.filter_eq_nil_iff.mp hnil) t ((isSigType_iff t).mp ht)
  simpa using this

theorem sigHdrsFlags_testBit (t : Nat) (ht : isSigType t = true) : sigHdrsFlags.testBit t = true := by
  have hm := (isSigType_iff t).mp ht
  simp only [Gen.sigHdrs, List.mem_cons, List.not_mem_nil, or_false] at hm
  rcases hm with e | e | e | e | e | e | e | e <;> subst e <;> decide

/-! ### the loop without its two early exits, over the view -/

def sigWalk : List SigKey → SigLoopSt → SigLoopSt
  | [], st => st
  | k :: rest, st => if st.seen &&& sigBit k.type == 0 then sigWalk rest (sigStep k st) else sigWalk rest st

theorem stepSig_nosig (k : SigKey) (s : MsgSig) (h : isSigType k.type = false) : stepSig k s = s := by
  have hv : (k.type == HdrVia) = false := by
    cases hq : k.type == HdrVia
    · rfl
    · rw [beq_iff_eq.mp hq, isSigType_via] at h; cases h
  cases s
  simp [stepSig, SigKey.entry, SigKey.counted, SigKey.viaSig, h, hv]

theorem viaPnc_nosig (k : SigKey) (h : isSigType k.type = false) : k.viaPnc = false := by
  have hv : (k.type == HdrVia) = false := by
    cases hq : k.type == HdrVia
    · rfl
    · rw [beq_iff_eq.mp hq, isSigType_via] at h; cases h
  simp [SigKey.viaPnc, hv]

/-- once every fingerprinted type occurring in the rest has been seen, the rest changes nothing -/
theorem sigWalk_dead (ks : List SigKey) (st : SigLoopSt)
    (h : ∀ k ∈ ks, isSigType k.type = true → st.seen.testBit k.type = true) :
    (sigWalk ks st).sig = st.sig ∧ (sigWalk ks st).pnc = st.pnc := by
  induction ks generalizing st with
  | nil => exact ⟨rfl, rfl⟩
  | cons k rest ih =>
    have hrest : ∀ k' ∈ rest, isSigType k'.type = true → st.seen.testBit k'.type = true :=
      fun k' hk' => h k' (List.mem_cons_of_mem k hk')
    rw [sigWalk]
    by_cases hseen : (st.seen &&& sigBit k.type == 0) = true
    · simp only [hseen, ↓reduceIte]
      have hns : isSigType k.type = false := by
        cases hq : isSigType k.type
        · rfl
        · have h16 : k.type < 16 := by have := isSigType_lt _ hq; omega
          have := h k List.mem_cons_self hq
          rw [(unseen_iff st.seen k.type h16).mp hseen] at this; cases this
      have := ih (sigStep k st) (fun k' hk' hs' => testBit_or_sigBit_mono _ _ _ (hrest k' hk' hs'))
      rw [this.1, this.2]
      refine ⟨stepSig_nosig k st.sig hns, ?_⟩
      show (st.pnc || k.viaPnc) = st.pnc
      rw [viaPnc_nosig k hns, Bool.or_false]
    · simp only [hseen, Bool.false_eq_true, ↓reduceIte]
      exact ih st hrest

/-- the fingerprinted types among the stored headers are flagged in `pflags` (what ParseHeaders guarantees:
    C07 `block_flags`) -/
def FlagsCover (pf : Nat) (hs : List Hdr) : Prop :=
  ∀ h ∈ hs, isSigType h.type = true → pf.testBit h.type = true

theorem msgSigLoop_eq_walk (mbuf : Buf) (pf : Nat) (hs : List Hdr) (st : SigLoopSt)
    (hI : st.sig.hdrSig.length + unseenCount st.seen ≤ 8) (hpf : FlagsCover pf hs) :
    (msgSigLoop mbuf pf hs st).1.sig = (sigWalk (hs.map (hdrKey mbuf)) st).sig ∧
    (msgSigLoop mbuf pf hs st).1.pnc = (sigWalk (hs.map (hdrKey mbuf)) st).pnc := by
  induction hs generalizing st with
  | nil => exact ⟨rfl, rfl⟩
  | cons h rest ih =>
    have hpf' : FlagsCover pf rest := fun h' hh' => hpf h' (List.mem_cons_of_mem h hh')
    rw [msgSigLoop_cons, List.map_cons, sigWalk]
    have hkt : (hdrKey mbuf h).type = h.type := rfl
    rw [hkt]
    have hl := sigStep_len (hdrKey mbuf h) st
    by_cases hseen : (st.seen &&& sigBit h.type == 0) = true
    · simp only [hseen, ↓reduceIte]
      have hseen' : (sigStep (hdrKey mbuf h) st).seen = st.seen ||| sigBit h.type := rfl
      by_cases hfull : ((hdrKey mbuf h).counted st.sig.method &&
            decide ((sigStep (hdrKey mbuf h) st).sig.hdrSig.length ≥ 8)) = true
      · simp only [hfull, ↓reduceIte]
        simp only [Bool.and_eq_true, decide_eq_true_eq] at hfull
        have hst : isSigType h.type = true := by
          have := hfull.1; unfold SigKey.counted at this
          simp only [Bool.and_eq_true] at this; exact this.1
        have h16 : h.type < 16 := by have := isSigType_lt _ hst; omega
        have hlt := unseenCount_or_lt st.seen h.type hst ((unseen_iff _ _ h16).mp hseen)
        simp only [hfull.1, ↓reduceIte] at hl
        have hz : unseenCount (sigStep (hdrKey mbuf h) st).seen = 0 := by rw [hseen']; omega
        have := sigWalk_dead (rest.map (hdrKey mbuf)) (sigStep (hdrKey mbuf h) st)
          (fun k _ hk => unseenCount_eq_zero _ hz k.type hk)
        exact ⟨this.1.symm, this.2.symm⟩
      · simp only [hfull, Bool.false_eq_true, ↓reduceIte]
        by_cases hall : (pf &&& sigHdrsFlags == (sigStep (hdrKey mbuf h) st).seen) = true
        · simp only [hall, ↓reduceIte]
          have hall' := beq_iff_eq.mp hall
          have := sigWalk_dead (rest.map (hdrKey mbuf)) (sigStep (hdrKey mbuf h) st) (by
            intro k hk hsk
            obtain ⟨h', hh', rfl⟩ := List.mem_map.mp hk
            rw [← hall', Nat.testBit_and, sigHdrsFlags_testBit _ hsk]
            have : pf.testBit (hdrKey mbuf h').type = true := hpf' h' hh' hsk
            rw [this]; rfl)
          exact ⟨this.1.symm, this.2.symm⟩
        · simp only [hall, Bool.false_eq_true, ↓reduceIte]
          apply ih _ _ hpf'
          rw [hseen']
          by_cases hc : (hdrKey mbuf h).counted st.sig.method = true
          · have hst : isSigType h.type = true := by
              unfold SigKey.counted at hc
              simp only [Bool.and_eq_true] at hc; exact hc.1
            have h16 : h.type < 16 := by have := isSigType_lt _ hst; omega
            have hlt := unseenCount_or_lt st.seen h.type hst ((unseen_iff _ _ h16).mp hseen)
            simp only [hc, ↓reduceIte] at hl
            omega
          · simp only [hc, Bool.false_eq_true, ↓reduceIte] at hl
            have := unseenCount_or_le st.seen h.type
            omega
    · simp only [hseen, Bool.false_eq_true, ↓reduceIte]
      exact ih st hI hpf'

/-! ### first occurrences of fingerprinted types -/

/-- the view restricted to fingerprinted types at their first occurrence (`seen`: types that occurred before) -/
def sigFirsts : List Nat → List SigKey → List SigKey
  | _, [] => []
  | seen, k :: rest =>
    if isSigType k.type && !seen.contains k.type then k :: sigFirsts (k.type :: seen) rest
    else sigFirsts seen rest

theorem sigFirsts_not_seen (L : List Nat) (ks : List SigKey) :
    ∀ k ∈ sigFirsts L ks, L.contains k.type = false := by
  induction ks generalizing L with
  | nil => intro k hk; cases hk
  | cons a rest ih =>
    intro k hk
    rw [sigFirsts] at hk
    by_cases hc : (isSigType a.type && !L.contains a.type) = true
    · simp only [hc, ↓reduceIte] at hk
      rcases List.mem_cons.mp hk with e | hin
      · subst e
        simp only [Bool.and_eq_true, Bool.not_eq_true'] at hc
        exact hc.2
      · have := ih (a.type :: L) k hin
        simp only [List.contains_cons, Bool.or_eq_false_iff] at this
        exact this.2
    · simp only [hc, Bool.false_eq_true, ↓reduceIte] at hk
      exact ih L k hk

/-- the signature as a function of the first occurrences -/
def sigApply (fs : List SigKey) (s : MsgSig) : MsgSig :=
  { method := s.method, cidSLen := s.cidSLen, cidSig := s.cidSig, fromSig := s.fromSig,
    viaBSig := match fs.find? (fun k => k.type == HdrVia) with
               | some k => k.viaSig s.viaBSig
               | none => s.viaBSig,
    hdrSig := s.hdrSig ++ fs.flatMap (fun k => k.entry s.method) }

theorem sigApply_nil (s : MsgSig) : sigApply [] s = s := by
  cases s; simp [sigApply]

theorem viaSig_nonvia (k : SigKey) (old : Nat) (h : (k.type == HdrVia) = false) : k.viaSig old = old := by
  simp [SigKey.viaSig, h]

theorem viaPnc_nonvia (k : SigKey) (h : (k.type == HdrVia) = false) : k.viaPnc = false := by
  simp [SigKey.viaPnc, h]

theorem sigApply_cons (k : SigKey) (fs : List SigKey) (s : MsgSig)
    (h : (k.type == HdrVia) = true → ∀ k' ∈ fs, (k'.type == HdrVia) = false) :
    sigApply (k :: fs) s = sigApply fs (stepSig k s) := by
  unfold sigApply stepSig
  simp only [List.flatMap_cons, List.append_assoc, List.find?_cons, MsgSig.mk.injEq, true_and, and_true]
  by_cases hv : (k.type == HdrVia) = true
  · have hnone : fs.find? (fun k => k.type == HdrVia) = none := by
      rw [List.find?_eq_none]; intro k' hk'; have := h hv k' hk'; simp [this]
    simp only [hv, hnone]
  · have hv' : (k.type == HdrVia) = false := by simpa using hv
    simp only [hv', viaSig_nonvia k _ hv']

/-- how a list of already seen types mirrors the flag word: they agree on fingerprinted types -/
def SeenRel (L : List Nat) (seen : Nat) : Prop := ∀ t, isSigType t = true → seen.testBit t = L.contains t

theorem SeenRel.init : SeenRel [] 0 := by
  intro t _; simp

theorem sigWalk_spec (ks : List SigKey) (L : List Nat) (st : SigLoopSt) (hR : SeenRel L st.seen) :
    (sigWalk ks st).sig = sigApply (sigFirsts L ks) st.sig ∧
    (sigWalk ks st).pnc = (st.pnc || (sigFirsts L ks).any (fun k => k.viaPnc)) := by
  induction ks generalizing L st with
  | nil =>
    rw [sigWalk, sigFirsts, sigApply_nil]; simp
  | cons k rest ih =>
    rw [sigWalk, sigFirsts]
    by_cases hs : isSigType k.type = true
    · have h16 : k.type < 16 := by have := isSigType_lt _ hs; omega
      have hrel := hR k.type hs
      by_cases hin : L.contains k.type = true
      · have hseen : ¬ (st.seen &&& sigBit k.type == 0) = true := by
          intro hc; rw [(unseen_iff _ _ h16).mp hc, hin] at hrel; cases hrel
        simp only [hseen, Bool.false_eq_true, ↓reduceIte, hs, hin, Bool.not_true, Bool.and_false]
        exact ih L st hR
      · have hin' : L.contains k.type = false := by simpa using hin
        rw [hin'] at hrel
        have hseen : (st.seen &&& sigBit k.type == 0) = true := (unseen_iff _ _ h16).mpr hrel
        simp only [hseen, ↓reduceIte, hs, hin', Bool.not_false, Bool.and_true]
        have hR' : SeenRel (k.type :: L) (sigStep k st).seen := by
          intro t ht
          show (st.seen ||| sigBit k.type).testBit t = (k.type :: L).contains t
          rw [testBit_or_sigBit _ _ _ h16, hR t ht, List.contains_cons, Bool.or_comm]
          congr 1
          by_cases e : k.type = t
          · subst e; simp
          · have : ¬ t = k.type := fun h => e h.symm
            simp [e, this]
        have := ih (k.type :: L) (sigStep k st) hR'
        rw [this.1, this.2]
        have hns := sigFirsts_not_seen (k.type :: L) rest
        constructor
        · rw [sigApply_cons]
          · rfl
          · intro hv k' hk'
            have := hns k' hk'
            simp only [List.contains_cons, Bool.or_eq_false_iff] at this
            have e1 := beq_iff_eq.mp hv
            cases hq : k'.type == HdrVia
            · rfl
            · have e2 := beq_iff_eq.mp hq
              have h3 : (k'.type == k.type) = true := by rw [e1, e2]; simp
              rw [h3] at this; cases this.1
        · show (st.pnc || k.viaPnc || _) = _
          rw [List.any_cons, Bool.or_assoc]
    · have hs' : isSigType k.type = false := by simpa using hs
      simp only [hs', Bool.false_and, Bool.false_eq_true, ↓reduceIte]
      by_cases hseen : (st.seen &&& sigBit k.type == 0) = true
      · simp only [hseen, ↓reduceIte]
        have hR' : SeenRel L (sigStep k st).seen := by
          intro t ht
          show (st.seen ||| sigBit k.type).testBit t = L.contains t
          rw [← hR t ht]
          rcases Nat.lt_or_ge k.type 16 with h16 | h16
          · rw [testBit_or_sigBit _ _ _ h16]
            have : ¬ k.type = t := by intro e; rw [e, ht] at hs'; cases hs'
            simp [this]
          · rw [sigBit_ge _ h16, Nat.or_zero]
        have := ih L (sigStep k st) hR'
        rw [this.1, this.2]
        constructor
        · show sigApply _ (stepSig k st.sig) = _
          rw [stepSig_nosig k _ hs']
        · show (st.pnc || k.viaPnc || _) = _
          rw [viaPnc_nosig k hs', Bool.or_false]
      · simp only [hseen, Bool.false_eq_true, ↓reduceIte]
        exact ih L st hR

/-! ### properties of `sigFirsts` -/

/-- only the fingerprinted entries of the view matter -/
theorem sigFirsts_filter (L : List Nat) (ks : List SigKey) :
    sigFirsts L ks = sigFirsts L (ks.filter (fun k => isSigType k.type)) := by
  induction ks generalizing L with
  | nil => rfl
  | cons k rest ih =>
    by_cases hs : isSigType k.type = true
    · rw [List.filter_cons_of_pos (by simpa using hs), sigFirsts, sigFirsts, ih, ih L]
    · have hs' : isSigType k.type = false := by simpa using hs
      rw [List.filter_cons_of_neg (by simpa using hs), sigFirsts]
      simp only [hs', Bool.false_and, Bool.false_eq_true, ↓reduceIte]
      exact ih L

/-- (3a) an entry of a type that is not fingerprinted can be inserted / removed anywhere -/
theorem sigFirsts_insert_nosig (L : List Nat) (l1 l2 : List SigKey) (x : SigKey) (hx : isSigType x.type = false) :
    sigFirsts L (l1 ++ x :: l2) = sigFirsts L (l1 ++ l2) := by
  rw [sigFirsts_filter L (l1 ++ x :: l2), sigFirsts_filter L (l1 ++ l2), List.filter_append, List.filter_append,
    List.filter_cons_of_neg (by simpa using hx)]

/-- (3b) a later occurrence of a type that occurred before can be inserted / removed -/
theorem sigFirsts_insert_repeat (L : List Nat) (l1 l2 : List SigKey) (x : SigKey)
    (hx : L.contains x.type = true ∨ ∃ k ∈ l1, k.type = x.type) :
    sigFirsts L (l1 ++ x :: l2) = sigFirsts L (l1 ++ l2) := by
  by_cases hs : isSigType x.type = true
  · induction l1 generalizing L with
    | nil =>
      rcases hx with hx | ⟨k, hk, _⟩
      · rw [List.nil_append, List.nil_append, sigFirsts]
        simp only [hx, Bool.not_true, Bool.and_false, Bool.false_eq_true, ↓reduceIte]
      · cases hk
    | cons a l1 ih =>
      rw [List.cons_append, List.cons_append, sigFirsts, sigFirsts]
      by_cases hc : (isSigType a.type && !L.contains a.type) = true
      · simp only [hc, ↓reduceIte]
        rw [ih (a.type :: L)]
        rcases hx with hx | ⟨k, hk, hkt⟩
        · left; simp only [List.contains_cons, hx, Bool.or_true]
        · rcases List.mem_cons.mp hk with e | hin
          · left; subst e; simp only [List.contains_cons, hkt, BEq.rfl, Bool.true_or]
          · right; exact ⟨k, hin, hkt⟩
      · simp only [hc, Bool.false_eq_true, ↓reduceIte]
        rw [ih L]
        rcases hx with hx | ⟨k, hk, hkt⟩
        · left; exact hx
        · rcases List.mem_cons.mp hk with e | hin
          · left; subst e
            rw [hkt] at hc
            simp only [hs, Bool.true_and, Bool.not_eq_true', Bool.not_eq_false] at hc
            exact hc
          · right; exact ⟨k, hin, hkt⟩
  · exact sigFirsts_insert_nosig L l1 l2 x (by simpa using hs)

/-- the first occurrences are a sub-sequence of the view … -/
theorem sigFirsts_sublist (L : List Nat) (ks : List SigKey) : (sigFirsts L ks).Sublist ks := by
  induction ks generalizing L with
  | nil => exact List.Sublist.slnil
  | cons k rest ih =>
    rw [sigFirsts]
    split
    · exact (ih _).cons_cons k
    · exact (ih _).cons k

/-- … all of fingerprinted type … -/
theorem sigFirsts_isSig (L : List Nat) (ks : List SigKey) : ∀ k ∈ sigFirsts L ks, isSigType k.type = true := by
  induction ks generalizing L with
  | nil => intro k hk; cases hk
  | cons a rest ih =>
    intro k hk
    rw [sigFirsts] at hk
    by_cases hc : (isSigType a.type && !L.contains a.type) = true
    · simp only [hc, ↓reduceIte] at hk
      rcases List.mem_cons.mp hk with e | hin
      · subst e; simp only [Bool.and_eq_true] at hc; exact hc.1
      · exact ih _ k hin
    · simp only [hc, Bool.false_eq_true, ↓reduceIte] at hk
      exact ih L k hk

/-- … and for every fingerprinted type they contain exactly the FIRST entry of that type in the view -/
theorem sigFirsts_find (L : List Nat) (ks : List SigKey) (t : Nat) (ht : isSigType t = true)
    (hL : L.contains t = false) :
    (sigFirsts L ks).find? (fun k => k.type == t) = ks.find? (fun k => k.type == t) := by
  induction ks generalizing L with
  | nil => rfl
  | cons a rest ih =>
    rw [sigFirsts]
    by_cases hc : (isSigType a.type && !L.contains a.type) = true
    · simp only [hc, ↓reduceIte, List.find?_cons]
      cases hq : a.type == t
      · simp only
        apply ih
        simp only [List.contains_cons, hL, Bool.or_false]
        cases hq' : t == a.type
        · rfl
        · rw [beq_iff_eq.mp hq'] at hq; simp at hq
      · rfl
    · simp only [hc, Bool.false_eq_true, ↓reduceIte, List.find?_cons]
      have hq : (a.type == t) = false := by
        cases hq : a.type == t
        · rfl
        · rw [beq_iff_eq.mp hq, ht, hL] at hc; simp at hc
      simp only [hq]
      exact ih L hL

/-- at most one entry per type: no type occurs twice -/
theorem sigFirsts_pairwise (L : List Nat) (ks : List SigKey) :
    (sigFirsts L ks).Pairwise (fun a b => a.type ≠ b.type) := by
  induction ks generalizing L with
  | nil => exact List.Pairwise.nil
  | cons a rest ih =>
    rw [sigFirsts]
    split
    · refine List.Pairwise.cons ?_ (ih _)
      intro b hb e
      have := sigFirsts_not_seen (a.type :: L) rest b hb
      simp only [List.contains_cons, Bool.or_eq_false_iff] at this
      rw [e] at this; simp at this
    · exact ih _

/-! ### `getMsgSigCore` -/

/-- the loop's start state -/
def sigInit (method : Nat) (cid tag : Buf) : SigLoopSt :=
  { sig := { method := method, cidSig := (getCallIDSig cid).1, cidSLen := (getCallIDSig cid).2.1,
             fromSig := (getStrCharsSig tag 0 0).1 },
    pnc := (getCallIDSig cid).2.2 }

theorem getMsgSig_reply (m : PSIPMsg) (b : Buf) (h : m.request = false) :
    getMsgSigCore m b = ({}, .empty, false) := by
  unfold getMsgSigCore; simp [h]

theorem getMsgSig_request (m : PSIPMsg) (b : Buf) (h : m.request = true) (cid tag : Buf)
    (hc : m.pv.callid.callID.get? (b.extract 0 m.bufLen) = some cid)
    (ht : m.pv.from_.tag.get? (b.extract 0 m.bufLen) = some tag) :
    getMsgSigCore m b =
      ((msgSigLoop (b.extract 0 m.bufLen) m.hl.pflags m.hl.hdrs.toList (sigInit m.fl.methodNo cid tag)).1.sig,
       (if (msgSigLoop (b.extract 0 m.bufLen) m.hl.pflags m.hl.hdrs.toList (sigInit m.fl.methodNo cid tag)).2 = true
        then Err.ok else if m.hl.n > m.hl.hdrs.size then Err.trunc else Err.ok),
       (msgSigLoop (b.extract 0 m.bufLen) m.hl.pflags m.hl.hdrs.toList (sigInit m.fl.methodNo cid tag)).1.pnc) := by
  unfold getMsgSigCore
  simp only [h, Bool.not_true, Bool.false_eq_true, ↓reduceIte, hc, ht]
  show (match msgSigLoop (b.extract 0 m.bufLen) m.hl.pflags m.hl.hdrs.toList (sigInit m.fl.methodNo cid tag) with
        | (st, true) => (st.sig, Err.ok, st.pnc)
        | (st, false) => if m.hl.n > m.hl.hdrs.size then (st.sig, Err.trunc, st.pnc) else (st.sig, Err.ok, st.pnc)) = _
  rcases hq : msgSigLoop (b.extract 0 m.bufLen) m.hl.pflags m.hl.hdrs.toList (sigInit m.fl.methodNo cid tag)
    with ⟨st, ex⟩
  cases ex
  · simp only [Bool.false_eq_true, ↓reduceIte]
    split <;> rfl
  · simp only [↓reduceIte]

theorem getMsgSig_outside (m : PSIPMsg) (b : Buf) (h : m.request = true)
    (hc : m.pv.callid.callID.get? (b.extract 0 m.bufLen) = none ∨
          m.pv.from_.tag.get? (b.extract 0 m.bufLen) = none) :
    getMsgSigCore m b = ({}, .ok, true) := by
  unfold getMsgSigCore
  simp only [h, Bool.not_true, Bool.false_eq_true, ↓reduceIte]
  rcases hc with hc | hc
  · rw [hc]
  · rw [hc]
    cases m.pv.callid.callID.get? (b.extract 0 m.bufLen) <;> rfl

/-- an early exit is not affected by what follows in the array -/
theorem msgSigLoop_append_exit (mbuf : Buf) (pf : Nat) (hs extra : List Hdr) (st : SigLoopSt)
    (h : (msgSigLoop mbuf pf hs st).2 = true) :
    msgSigLoop mbuf pf (hs ++ extra) st = msgSigLoop mbuf pf hs st := by
  induction hs generalizing st with
  | nil => rw [msgSigLoop] at h; cases h
  | cons a rest ih =>
    rw [List.cons_append, msgSigLoop_cons, msgSigLoop_cons]
    rw [msgSigLoop_cons] at h
    by_cases hseen : (st.seen &&& sigBit a.type == 0) = true
    · simp only [hseen, ↓reduceIte] at h ⊢
      by_cases hfull : ((hdrKey mbuf a).counted st.sig.method &&
            decide ((sigStep (hdrKey mbuf a) st).sig.hdrSig.length ≥ 8)) = true
      · simp only [hfull, ↓reduceIte]
      · simp only [hfull, Bool.false_eq_true, ↓reduceIte] at h ⊢
        by_cases hall : (pf &&& sigHdrsFlags == (sigStep (hdrKey mbuf a) st).seen) = true
        · simp only [hall, ↓reduceIte]
        · simp only [hall, Bool.false_eq_true, ↓reduceIte] at h ⊢
          exact ih _ h
    · simp only [hseen, Bool.false_eq_true, ↓reduceIte] at h ⊢
      exact ih _ h

/-! ### entries are below 16 -/

theorem msgSigLoop_entries_lt (mbuf : Buf) (pf : Nat) (hs : List Hdr) (st : SigLoopSt)
    (h0 : ∀ e ∈ st.sig.hdrSig, e < 16) : ∀ e ∈ (msgSigLoop mbuf pf hs st).1.sig.hdrSig, e < 16 := by
  induction hs generalizing st with
  | nil => rw [msgSigLoop]; exact h0
  | cons h rest ih =>
    have hstep : ∀ e ∈ (sigStep (hdrKey mbuf h) st).sig.hdrSig, e < 16 := by
      intro e he
      have he' : e ∈ st.sig.hdrSig ++ (hdrKey mbuf h).entry st.sig.method := he
      rcases List.mem_append.mp he' with h1 | h1
      · exact h0 e h1
      · unfold SigKey.entry at h1
        by_cases hc : (hdrKey mbuf h).counted st.sig.method = true
        · simp only [hc, ↓reduceIte, List.mem_singleton] at h1
          unfold SigKey.counted at hc
          simp only [Bool.and_eq_true] at hc
          rw [h1]; exact sigEntry_lt _ _ hc.1
        · simp only [hc, Bool.false_eq_true, ↓reduceIte, List.not_mem_nil] at h1
    rw [msgSigLoop_cons]
    split
    · split
      · exact hstep
      · split
        · exact hstep
        · exact ih _ hstep
    · exact ih _ h0

/-! ### (4) the text rendering -/

/-- one value as `MsgSig.String()` prints it: a hex digit, preceded by `E` when the value does not fit one -/
def sigCh (v : Nat) : List Char := (if v ≥ 16 then ['E'] else []) ++ [hexDigit (v % 16)]

/-- the fixed 17-character tail `I cccc ll F ffff V vvvv` -/
def sigTail (s : MsgSig) : List Char :=
  ['I'] ++ hex4 s.cidSig ++ [hexDigit (s.cidSLen / 16 % 16), hexDigit (s.cidSLen % 16)] ++
    ['F'] ++ hex4 s.fromSig ++ ['V'] ++ hex4 s.viaBSig

theorem sigTail_length (s : MsgSig) : (sigTail s).length = 17 := by
  simp [sigTail, hex4]

theorem foldl_append_eq {α β : Type} (f : β → List α) (L : List β) (init : List α) :
    L.foldl (fun acc h => acc ++ f h) init = init ++ L.flatMap f := by
  induction L generalizing init with
  | nil => simp
  | cons a L ih => simp [ih]

theorem toStr_empty (s : MsgSig) (h : s.method = MUndef ∧ s.hdrSig = []) : s.toStr = "" := by
  unfold MsgSig.toStr
  simp [h.1, h.2]

theorem toStr_eq (s : MsgSig) (h : ¬ (s.method = MUndef ∧ s.hdrSig = [])) :
    s.toStr = String.ofList (sigCh s.method ++ s.hdrSig.flatMap sigCh ++ sigTail s) := by
  unfold MsgSig.toStr
  have hc : (s.method == MUndef && s.hdrSig.length == 0) = false := by
    cases hq : (s.method == MUndef && s.hdrSig.length == 0)
    · rfl
    · simp only [Bool.and_eq_true, beq_iff_eq, List.length_eq_zero_iff] at hq
      exact absurd hq h
  simp only [hc, Bool.false_eq_true, ↓reduceIte]
  have hf : (s.hdrSig.foldl (fun acc h => acc ++ (if h ≥ 16 then ['E'] else []) ++ [hexDigit (h % 16)]) [])
      = s.hdrSig.flatMap sigCh := by
    have := foldl_append_eq sigCh s.hdrSig []
    simp only [List.nil_append] at this
    rw [← this]
    congr 1
    funext acc h
    simp only [sigCh, List.append_assoc]
  rw [hf]
  simp only [sigCh, sigTail, List.append_assoc]

theorem hexDigit_mem (n : Nat) : hexDigit n ∈ "0123456789abcdef".toList := by
  unfold hexDigit
  have h : n % 16 < 16 := Nat.mod_lt _ (by decide)
  generalize n % 16 = k at h
  have : ∀ k, k < 16 → "0123456789abcdef".toList.getD k '0' ∈ "0123456789abcdef".toList := by decide
  exact this k h

theorem sigCh_small (v : Nat) (h : v < 16) : sigCh v = [hexDigit v] := by
  have : ¬ v ≥ 16 := by omega
  simp only [sigCh, this, ↓reduceIte, List.nil_append, Nat.mod_eq_of_lt h]

theorem flatMap_sigCh_small (L : List Nat) (h : ∀ e ∈ L, e < 16) : L.flatMap sigCh = L.map hexDigit := by
  induction L with
  | nil => rfl
  | cons a L ih =>
    rw [List.flatMap_cons, List.map_cons, sigCh_small a (h a List.mem_cons_self),
      ih (fun e he => h e (List.mem_cons_of_mem a he))]
    rfl

theorem sigCh_length (v : Nat) : 1 ≤ (sigCh v).length ∧ (sigCh v).length ≤ 2 := by
  unfold sigCh; split <;> simp

theorem flatMap_sigCh_length (L : List Nat) :
    L.length ≤ (L.flatMap sigCh).length ∧ (L.flatMap sigCh).length ≤ 2 * L.length := by
  induction L with
  | nil => simp
  | cons a L ih =>
    have := sigCh_length a
    simp only [List.flatMap_cons, List.length_append, List.length_cons]
    omega

/-! ### the factorisation of `getMsgSigCore` -/

theorem sigInit_inv (method : Nat) (cid tag : Buf) :
    (sigInit method cid tag).sig.hdrSig.length + unseenCount (sigInit method cid tag).seen ≤ 8 := by
  show 0 + unseenCount 0 ≤ 8
  rw [unseenCount_zero_init]; decide

/-- the signature loop from its start state, as a function of the first occurrences in the view -/
theorem msgSigLoop_view (mbuf : Buf) (pf : Nat) (hs : List Hdr) (method : Nat) (cid tag : Buf)
    (hpf : FlagsCover pf hs) :
    (msgSigLoop mbuf pf hs (sigInit method cid tag)).1.sig =
      sigApply (sigFirsts [] (hs.map (hdrKey mbuf))) (sigInit method cid tag).sig ∧
    (msgSigLoop mbuf pf hs (sigInit method cid tag)).1.pnc =
      ((getCallIDSig cid).2.2 || (sigFirsts [] (hs.map (hdrKey mbuf))).any (fun k => k.viaPnc)) := by
  have h1 := msgSigLoop_eq_walk mbuf pf hs (sigInit method cid tag) (sigInit_inv method cid tag) hpf
  have h2 := sigWalk_spec (hs.map (hdrKey mbuf)) [] (sigInit method cid tag) SeenRel.init
  exact ⟨h1.1.trans h2.1, h1.2.trans h2.2⟩

/-- several non-fingerprinted entries at once -/
theorem sigFirsts_insert_nosig_list (L : List Nat) (l1 pad l2 : List SigKey)
    (hp : ∀ x ∈ pad, isSigType x.type = false) : sigFirsts L (l1 ++ pad ++ l2) = sigFirsts L (l1 ++ l2) := by
  rw [sigFirsts_filter L (l1 ++ pad ++ l2), sigFirsts_filter L (l1 ++ l2), List.filter_append, List.filter_append,
    List.filter_append]
  have : pad.filter (fun k => isSigType k.type) = [] := by
    rw [List.filter_eq_nil_iff]; intro x hx; rw [hp x hx]; simp
  rw [this, List.append_nil]

theorem hdrKey_congr (mbuf : Buf) (x x' : Hdr) (ht : x'.type = x.type)
    (hn : (x'.name.len == 1) = (x.name.len == 1))
    (hv : x.type = HdrVia → x'.val.get? mbuf = x.val.get? mbuf) : hdrKey mbuf x' = hdrKey mbuf x := by
  unfold hdrKey
  rw [ht, hn]
  by_cases h : (x.type == HdrVia) = true
  · simp only [h, ↓reduceIte, hv (beq_iff_eq.mp h)]
  · simp only [h, Bool.false_eq_true, ↓reduceIte]

/-- the loop reads nothing of the stored headers but their keys (no hypothesis on the flag word) -/
theorem msgSigLoop_congr_keys (mbuf mbuf' : Buf) (pf : Nat) (hs hs' : List Hdr) (st : SigLoopSt)
    (h : hs.map (hdrKey mbuf) = hs'.map (hdrKey mbuf')) :
    msgSigLoop mbuf pf hs st = msgSigLoop mbuf' pf hs' st := by
  induction hs generalizing hs' st with
  | nil =>
    cases hs' with
    | nil => rw [msgSigLoop, msgSigLoop]
    | cons a' r' => simp at h
  | cons a r ih =>
    cases hs' with
    | nil => simp at h
    | cons a' r' =>
      rw [List.map_cons, List.map_cons] at h
      injection h with hk htail
      have ht : a.type = a'.type := congrArg SigKey.type hk
      rw [msgSigLoop_cons, msgSigLoop_cons, ht, hk]
      split
      · split
        · rfl
        · split
          · rfl
          · exact ih _ _ htail
      · exact ih _ _ htail

/-! ### the flag word covers the stored headers: an invariant of ParseHeaders' bookkeeping -/

theorem acceptAll_clean (hl : HdrLst) (hs : List Hdr) (hc : HlsClean hl) : HlsClean (hl.acceptAll hs) := by
  induction hs generalizing hl with
  | nil => exact hc
  | cons h hs ih => rw [acceptAll_cons]; exact ih _ (accept_clean hl h hc).1

/-- the bookkeeping of ParseHeaders keeps the flag word covering the stored headers: accepting any sequence of
    headers into an empty, clean list and closing it with the end-of-block entry gives a covered list -/
theorem acceptAll_covered (hl : HdrLst) (hs : List Hdr) (h0 : hl.n = 0) (hp : hl.pflags < 65536)
    (hc : HlsClean hl) :
    FlagsCover ((hl.acceptAll hs).setCur { state := .fin }).pflags
      ((hl.acceptAll hs).setCur { state := .fin }).hdrs.toList := by
  intro h hh hsig
  rw [(hlSetCur_scalars _ _).1]
  have ht15 := isSigType_lt _ hsig
  rw [acceptAll_pflags hl hs h.type (by omega) hp]
  have hA := acceptAll_clean hl hs hc
  have hn : (hl.acceptAll hs).n = hs.length := by rw [acceptAll_n, h0]; omega
  have hsz := acceptAll_size hl hs
  obtain ⟨j, hj, hje⟩ := List.mem_iff_getElem.mp hh
  rw [Array.length_toList, hlSetCur_size] at hj
  have hje' : ((hl.acceptAll hs).setCur { state := .fin }).hdrs[j]! = h := by
    rw [← hje, Array.getElem_toList]
    exact getElem!_pos _ j (by rw [hlSetCur_size]; exact hj)
  rcases Nat.lt_trichotomy j (hl.acceptAll hs).n with hlt | heq | hgt
  · rw [hlSetCur_ne _ _ j (by omega)] at hje'
    have := acceptAll_stored hl hs j (by omega) (by rw [h0, ← hsz]; omega)
    rw [h0, Nat.zero_add] at this
    rw [this] at hje'
    have : hs.any (fun x => x.type == h.type) = true := by
      rw [List.any_eq_true]
      exact ⟨hs[j]'(by omega), List.getElem_mem _, by rw [hje']; simp⟩
    rw [this, Bool.or_true]
  · subst heq
    rw [hlSetCur_get_n _ _ hj] at hje'
    rw [← hje'] at hsig; cases hsig
  · rw [hlSetCur_ne _ _ j (by omega), hA.1 j hgt hj] at hje'
    rw [← hje'] at hsig; cases hsig

end Sipsp
