/-
  Sipsp.Proofs.MsgL2 — L2 (resumption) for ParseSIPMsg.
-/
import Sipsp.Proofs.HeadersL2
import Sipsp.Proofs.MsgL1

namespace Sipsp

/-! ### ParseFLine never returns an offset before its start -/

def FlGe (i : Nat) (r : Nat × Err × PFLine) : Prop := i ≤ r.1

theorem flCRLF_ge (b : Buf) (i : Nat) (pl : PFLine) : FlGe i (flCRLF b i pl) := by
  unfold flCRLF FlGe
  rcases hs : skipCRLF b i with ⟨n, crl, e⟩
  have := skipCRLF_range hs
  cases e <;> simp only <;> exact this.1

theorem flReqVer_ge (b : Buf) (i : Nat) (pl : PFLine) : FlGe i (flReqVer b i pl) := by
  unfold flReqVer
  have hge := skipToken_ge b i
  simp only
  split
  · exact hge
  · split
    · exact hge
    · split
      · exact hge
      · exact Nat.le_trans hge (flCRLF_ge b _ _)

theorem flReqURI_ge (b : Buf) (i : Nat) (pl : PFLine) : FlGe i (flReqURI b i pl) := by
  unfold flReqURI
  have hge := skipToken_ge b i
  simp only
  split
  · exact hge
  · split
    · exact hge
    · split
      · exact hge
      · exact Nat.le_trans (Nat.le_succ_of_le hge) (flReqVer_ge b _ _)

theorem flReqMethod_ge (b : Buf) (i : Nat) (pl : PFLine) : FlGe i (flReqMethod b i pl) := by
  unfold flReqMethod
  have hge := skipToken_ge b i
  simp only
  split
  · exact hge
  · split
    · exact hge
    · split
      · exact hge
      · split
        · exact hge
        · exact Nat.le_trans (Nat.le_succ_of_le hge) (flReqURI_ge b _ _)

theorem flRplReason_ge (b : Buf) (i : Nat) (pl : PFLine) : FlGe i (flRplReason b i pl) := by
  unfold flRplReason skipLine FlGe
  have hge := skipToEOL_ge b i
  rcases hs : skipCRLF b (skipToEOL b i) with ⟨n, crl, e⟩
  have := skipCRLF_range hs
  cases e <;> simp only <;> omega

theorem flReply_ge (b : Buf) (i0 l : Nat) (pl : PFLine) : FlGe i0 (flReply b i0 l pl) := by
  unfold flReply
  simp only
  split
  · split
    · unfold FlGe; simp only; omega
    · exact Nat.le_trans (by omega) (flRplReason_ge b (i0 + l + 4) _)
  · unfold FlGe; simp only; omega

theorem parseFLine_ge (b : Buf) (o : Nat) (pl : PFLine) : o ≤ (parseFLine b o pl).1 := by
  unfold parseFLine
  cases pl.state <;> simp only
  case init =>
    split
    · exact Nat.le_refl _
    · split
      · exact flReply_ge b o _ pl
      · exact flReqMethod_ge b o _
  case reqMethod => exact flReqMethod_ge b o pl
  case reqURI => exact flReqURI_ge b o pl
  case reqVer => exact flReqVer_ge b o pl
  case crlf => exact flCRLF_ge b o pl
  case rplReason => exact flRplReason_ge b o pl
  all_goals exact Nat.le_refl _

/-! ### a values object that is passed in is passed back -/

theorem parseBody_isSome (b : Buf) (o : Nat) (h : Hdr) (hv : PHdrVals) :
    (parseBody b o h (some hv)).2.2.2.isSome = true := by
  unfold parseBody
  simp only
  by_cases h_from_ : (h.type == HdrFrom) = true
  · simp only [h_from_, ↓reduceIte]
    split <;> rfl
  simp only [h_from_, Bool.false_eq_true, ↓reduceIte]
  by_cases h_to : (h.type == HdrTo) = true
  · simp only [h_to, ↓reduceIte]
    split <;> rfl
  simp only [h_to, Bool.false_eq_true, ↓reduceIte]
  by_cases h_callid : (h.type == HdrCallID) = true
  · simp only [h_callid, ↓reduceIte]
    split <;> rfl
  simp only [h_callid, Bool.false_eq_true, ↓reduceIte]
  by_cases h_cseq : (h.type == HdrCSeq) = true
  · simp only [h_cseq, ↓reduceIte]
    split <;> rfl
  simp only [h_cseq, Bool.false_eq_true, ↓reduceIte]
  by_cases h_clen : (h.type == HdrCLen) = true
  · simp only [h_clen, ↓reduceIte]
    split <;> rfl
  simp only [h_clen, Bool.false_eq_true, ↓reduceIte]
  by_cases h_contacts : (h.type == HdrContact) = true
  · simp only [h_contacts, ↓reduceIte]
    rfl
  simp only [h_contacts, Bool.false_eq_true, ↓reduceIte]
  by_cases h_expires : (h.type == HdrExpires) = true
  · simp only [h_expires, ↓reduceIte]
    split <;> rfl
  simp only [h_expires, Bool.false_eq_true, ↓reduceIte]
  by_cases h_pais : (h.type == HdrPAI) = true
  · simp only [h_pais, ↓reduceIte]
    rfl
  simp only [h_pais, Bool.false_eq_true, ↓reduceIte]
  rfl

def StepSome : Step HLσ → Prop
  | .cont _ st => st.2.isSome = true
  | .done _ _ st => st.2.isSome = true

theorem hlAfterColon_isSome (b : Buf) (i : Nat) (h : Hdr) (hv : PHdrVals) : StepSome (hlAfterColon b i h (some hv)) := by
  unfold hlAfterColon
  split
  · rfl
  · rename_i nm _
    have := parseBody_isSome b i { h with type := getHdrType nm } hv
    rcases hp : parseBody b i { h with type := getHdrType nm } (some hv) with ⟨n, e, h2, hb2⟩
    rw [hp] at this
    simp only [hp]
    split <;> exact this

theorem hlValEnd_isSome (b : Buf) (i : Nat) (h : Hdr) (hv : PHdrVals) : StepSome (hlValEnd b i h (some hv)) := by
  unfold hlValEnd
  rcases skipLWS b i 0 with ⟨n, crl, e⟩
  cases e <;> rfl

theorem hlName_isSome (b : Buf) (i : Nat) (h : Hdr) (hv : PHdrVals) : StepSome (hlName b i h (some hv)) := by
  unfold hlName
  simp only
  split
  · rfl
  · split
    · split <;> rfl
    · split
      · split
        · rfl
        · exact hlAfterColon_isSome b _ _ hv
      · rfl

theorem hlCont_isSome (b : Buf) (i : Nat) (h : Hdr) (hv : PHdrVals) : StepSome (hlCont b i h (some hv)) := by
  unfold hlCont
  simp only
  cases h.state <;> rfl

theorem hlStep_isSome (b : Buf) (i : Nat) (c : UInt8) (h : Hdr) (hv : PHdrVals) :
    StepSome (hlStep b i c (h, some hv)) := by
  unfold hlStep
  simp only
  cases hst : h.state <;> simp only
  case init =>
    split
    · split
      · rfl
      · split <;> rfl
    · split
      · rfl
      · exact hlName_isSome b i _ hv
  case name => exact hlName_isSome b i h hv
  case nameEnd =>
    split
    · rfl
    · split
      · exact hlAfterColon_isSome b _ _ hv
      · rfl
  case bodyStart =>
    rcases skipLWS b i 0 with ⟨n, crl, e⟩
    cases e <;> rfl
  case val =>
    split
    · rfl
    · exact hlValEnd_isSome b _ _ hv
  case valEnd => exact hlValEnd_isSome b i h hv
  case fin => rfl
  all_goals exact hlCont_isSome b i h hv

theorem parseHdrLine_isSome (b : Buf) (o : Nat) (h : Hdr) (hv : PHdrVals) :
    (parseHdrLine b o h (some hv)).2.2.2.isSome = true := by
  unfold parseHdrLine
  have := runLoop_inv hlMachine b (fun _ st => st.2.isSome = true) (fun r => r.2.2.2.isSome = true)
    (by
      intro i c st i' st' _ hP hs
      obtain ⟨h1, hb1⟩ := st
      cases hb1 with
      | none => cases hP
      | some v =>
        have := hlStep_isSome b i c h1 v
        change hlStep b i c (h1, some v) = .cont i' st' at hs
        rw [hs] at this
        exact ⟨fun _ => this, fun _ => this⟩)
    (by
      intro i c st o2 e2 st2 _ hP hs
      obtain ⟨h1, hb1⟩ := st
      cases hb1 with
      | none => cases hP
      | some v =>
        have := hlStep_isSome b i c h1 v
        change hlStep b i c (h1, some v) = .done o2 e2 st2 at hs
        rw [hs] at this
        exact this)
    (by intro i st _ hP; exact hP)
    o (h, some hv) rfl
  rcases hrl : runLoop hlMachine b o (h, some hv) with ⟨o1, e1, h1, hb1⟩
  rw [hrl] at this
  exact this

theorem parseHeaders_isSome (b : Buf) (offs : Nat) (hl : HdrLst) (hv : PHdrVals) :
    (parseHeaders b offs hl (some hv)).2.2.2.isSome = true := by
  induction hk : b.size - offs using Nat.strongRecOn generalizing offs hl hv with
  | _ k ih =>
    rw [parseHeaders]
    split
    · rename_i hlt
      have := parseHdrLine_isSome b offs hl.cur hv
      rcases hp : parseHdrLine b offs hl.cur (some hv) with ⟨n, e1, h, hb1⟩
      rw [hp] at this
      cases hb1 with
      | none => cases this
      | some v =>
        cases e1 <;> simp only <;> try rfl
        · split
          · rename_i hg; exact ih (b.size - n) (by omega) n _ v rfl
          · rfl
        · split <;> rfl
    · rfl

/-! ### the message parser -/

/-- what a caller can read of a message object -/
def msgObs (m : PSIPMsg) : PSIPMsg := { m with pv := m.pv.obs }

/-- legitimacy for resumption: `msgOK` and no stale suspended header in the slots still to be filled (once the
    body section is reached only the offset matters) -/
def msgOK2 (b : Buf) (o : Nat) (m : PSIPMsg) : Prop :=
  o ≤ b.size ∧ (m.state = .init ∨ m.state = .fline → flOK m.fl) ∧
  (m.state ≠ .body → hlsOK b m.hl ∧ hvOK b o m.pv ∧ hlsPend m.hl (some m.pv))

theorem msgBody_resume (b s : Buf) (o : Nat) (m : PSIPMsg) (flags flags' : Nat)
    {o' : Nat} {m' : PSIPMsg} (hr : msgBody b o m flags = (o', Err.moreBytes, m')) :
    o' = o ∧ m' = { m with body := PField.set o o } ∧
      msgBody (b ++ s) o m' flags' = msgBody (b ++ s) o m flags' := by
  unfold msgBody at hr
  simp only at hr
  have key : ∀ x : Nat × Err × PSIPMsg, x = (o', Err.moreBytes, m') →
      (x = (o, Err.moreBytes, { m with body := PField.set o o }) ∨ x.2.1 ≠ .moreBytes) →
      o' = o ∧ m' = { m with body := PField.set o o } := by
    intro x hx hc
    rcases hc with hc | hc
    · rw [hc] at hx; simp only [Prod.mk.injEq, true_and] at hx; exact ⟨hx.1.symm, hx.2.symm⟩
    · rw [hx] at hc; exact absurd rfl hc
  have := key _ hr (by
    repeat' split
    all_goals first
      | exact Or.inl rfl
      | (right; simp [msgEnd, PSIPMsg.setBufs]))
  refine ⟨this.1, this.2, ?_⟩
  rw [this.2]
  unfold msgBody
  rfl

theorem msgErr_more_inv (m : PSIPMsg) (o : Nat) (e : Err) (flags : Nat) {o' : Nat} {m' : PSIPMsg}
    (h : msgErr m o e flags = (o', Err.moreBytes, m')) : e = .moreBytes ∧ o' = o ∧ m' = m := by
  unfold msgErr at h
  split at h
  · rename_i hne
    simp only [Prod.mk.injEq] at h
    have : e = .moreBytes := h.2.1
    subst this; simp at hne
  · split at h
    · simp only [Prod.mk.injEq] at h; exact absurd h.2.1 (by decide)
    · rename_i hne _
      simp only [Prod.mk.injEq] at h
      exact ⟨h.2.1, h.1.symm, h.2.2.symm⟩

/-- what the message parser does with the result of ParseHeaders -/
def afterHeaders (B : Buf) (m : PSIPMsg) (flags : Nat) (r : Nat × Err × HdrLst × Option PHdrVals) :
    Nat × Err × PSIPMsg :=
  match r with
  | (o', .ok, hl, hb) => msgBody B o' { m with hl := hl, pv := hb.getD m.pv, state := .body } flags
  | (o', e, hl, hb) => msgErr { m with hl := hl, pv := hb.getD m.pv } o' e flags

theorem msgHeaders_eq (B : Buf) (o : Nat) (m : PSIPMsg) (flags : Nat) :
    msgHeaders B o m flags = afterHeaders B m flags (parseHeaders B o m.hl (some m.pv)) := by
  unfold msgHeaders afterHeaders
  rcases parseHeaders B o m.hl (some m.pv) with ⟨o1, e1, hl1, hb1⟩
  cases e1 <;> rfl

theorem afterHeaders_rr (B : Buf) (mB : PSIPMsg) (hlX : HdrLst) (pvX : PHdrVals) (flags : Nat)
    (rA rB : Nat × Err × HdrLst × Option PHdrVals)
    (hsA : rA.2.2.2.isSome = true) (hsB : rB.2.2.2.isSome = true)
    (hrr : RR hdrsObs rA rB) :
    RR msgObs (afterHeaders B { mB with hl := hlX, pv := pvX } flags rA) (afterHeaders B mB flags rB) := by
  obtain ⟨oA, eA, hlA, hbA⟩ := rA
  obtain ⟨oB, eB, hlB, hbB⟩ := rB
  obtain ⟨hn, he, hg, ho⟩ := hrr
  simp only at hn he hg ho hsA hsB
  subst hn; subst he
  cases hbA with
  | none => cases hsA
  | some vA =>
  cases hbB with
  | none => cases hsB
  | some vB =>
  by_cases hgo : Err.goesOn eA
  · have := hg hgo
    simp only [Prod.mk.injEq, Option.some.injEq] at this
    obtain ⟨rfl, rfl⟩ := this
    apply RR.of_eq
    unfold afterHeaders
    cases eA <;> simp only [Option.getD_some]
  · have hk1 : eA ≠ .ok := fun h => hgo (Or.inl h)
    have hk2 : eA ≠ .moreBytes := fun h => hgo (Or.inr (Or.inl h))
    simp only [hdrsObs, Prod.mk.injEq, Option.map_some, Option.some.injEq] at ho
    obtain ⟨rfl, hov⟩ := ho
    unfold afterHeaders
    cases eA <;> first | exact absurd rfl hk1 | exact absurd rfl hk2 | skip
    all_goals
      simp only [Option.getD_some]
      rw [msgErr_stable _ _ _ _ (by decide), msgErr_stable _ _ _ _ (by decide)]
      refine ⟨rfl, rfl, fun hh => absurd hh hgo, ?_⟩
      simp only [msgObs, hov]

theorem parseSIPMsg_headers (B : Buf) (o : Nat) (m : PSIPMsg) (flags : Nat) (hst : m.state = .headers) :
    parseSIPMsg B o m flags = msgHeaders B o m flags := by
  unfold parseSIPMsg; rw [hst]

theorem parseSIPMsg_body (B : Buf) (o : Nat) (m : PSIPMsg) (flags : Nat) (hst : m.state = .body) :
    parseSIPMsg B o m flags = msgBody B o m flags := by
  unfold parseSIPMsg; rw [hst]

theorem parseSIPMsg_fline (B : Buf) (o : Nat) (m : PSIPMsg) (flags : Nat) (hst : m.state = .fline) :
    parseSIPMsg B o m flags = msgFLine B o m flags := by
  unfold parseSIPMsg; rw [hst]

theorem msgHeaders_resume (b s : Buf) (o : Nat) (m : PSIPMsg) (flags flags' : Nat) (hst : m.state = .headers)
    (hok : msgOK2 b o m) {o' : Nat} {m' : PSIPMsg}
    (hr : msgHeaders b o m flags = (o', Err.moreBytes, m')) :
    RR msgObs (parseSIPMsg (b ++ s) o' m' flags') (msgHeaders (b ++ s) o m flags') ∧
      msgOK2 (b ++ s) o' m' ∧ o' ≤ b.size := by
  obtain ⟨ho, _, hrest⟩ := hok
  obtain ⟨hls, hvs, hpe⟩ := hrest (by rw [hst]; decide)
  rw [msgHeaders_eq] at hr
  have hsome := parseHeaders_isSome b o m.hl m.pv
  rcases hp : parseHeaders b o m.hl (some m.pv) with ⟨o1, e1, hl1, hb1⟩
  rw [hp] at hr hsome
  simp only at hsome
  cases hb1 with
  | none => cases hsome
  | some v1 =>
  unfold afterHeaders at hr
  by_cases hok1 : e1 = .ok
  · subst hok1
    simp only [Option.getD_some] at hr
    obtain ⟨rfl, rfl, hbe⟩ := msgBody_resume b s o1 _ flags flags' hr
    have hpost := parseHeaders_post b o m.hl (some m.pv) hls hvs hp
    refine ⟨?_, ⟨by rw [Array.size_append]; omega, (fun hh => by rcases hh with hh | hh <;> cases hh),
      fun hne => absurd rfl hne⟩, hpost.1⟩
    apply RR.of_eq
    have hB := parseHeaders_stable b s o m.hl (some m.pv) hls hvs hp (by decide)
    rw [msgHeaders_eq, hB]
    rw [parseSIPMsg_body _ _ _ _ rfl]
    unfold afterHeaders
    simp only [Option.getD_some]
    exact hbe
  · have hmore : e1 = .moreBytes := by
      cases e1 <;> first | rfl | exact absurd rfl hok1 | (simp only at hr; exact (msgErr_more_inv _ _ _ _ hr).1)
    subst hmore
    simp only [Option.getD_some] at hr
    obtain ⟨_, rfl, rfl⟩ := msgErr_more_inv _ _ _ _ hr
    obtain ⟨hrr, h1, h2, h3, h4, h5⟩ := parseHeaders_resume b s o m.hl (some m.pv) hls hvs hpe ho hp
    refine ⟨?_, ⟨by rw [Array.size_append]; omega,
      (fun hh => by rcases hh with hh | hh <;> (rw [show ({ m with hl := hl1, pv := v1 } : PSIPMsg).state = m.state from rfl, hst] at hh; cases hh)),
      fun _ => ⟨h1, h2, h3⟩⟩, h5⟩
    rw [parseSIPMsg_headers _ _ _ _ (show ({ m with hl := hl1, pv := v1 } : PSIPMsg).state = .headers from hst)]
    rw [msgHeaders_eq, msgHeaders_eq]
    exact afterHeaders_rr (b ++ s) m hl1 v1 flags' _ _ (parseHeaders_isSome _ _ _ _) (parseHeaders_isSome _ _ _ _) hrr

theorem msgFLine_resume (b s : Buf) (o : Nat) (m : PSIPMsg) (flags flags' : Nat) (hst : m.state = .fline)
    (hok : msgOK2 b o m) (hfit : b.size ≤ 65535) {o' : Nat} {m' : PSIPMsg}
    (hr : msgFLine b o m flags = (o', Err.moreBytes, m')) :
    RR msgObs (parseSIPMsg (b ++ s) o' m' flags') (msgFLine (b ++ s) o m flags') ∧
      msgOK2 (b ++ s) o' m' ∧ o' ≤ b.size := by
  obtain ⟨ho, hfl, hrest⟩ := hok
  have hfl := hfl (Or.inr hst)
  obtain ⟨hls, hvs, hpe⟩ := hrest (by rw [hst]; decide)
  unfold msgFLine at hr
  have hge := parseFLine_ge b o m.fl
  rcases hp : parseFLine b o m.fl with ⟨o1, e1, fl1⟩
  rw [hp] at hr hge
  simp only at hge
  by_cases hok1 : e1 = .ok
  · subst hok1
    simp only at hr
    have hrg := parseFLine_range b o m.fl ho
    rw [hp] at hrg
    have hrg' := hrg rfl
    have := msgHeaders_resume b s o1 { m with fl := fl1, state := .headers } flags flags' rfl
      ⟨hrg'.2, (fun hh => by rcases hh with hh | hh <;> cases hh), fun _ => ⟨hls, hvOK_mono hvs hrg'.1 hrg'.2, hpe⟩⟩ hr
    refine ⟨?_, this.2.1, this.2.2⟩
    unfold msgFLine
    rw [parseFLine_stable b s o m.fl hfl hfit hp (by decide)]
    exact this.1
  · have hmore : e1 = .moreBytes := by
      cases e1 <;> first | rfl | exact absurd rfl hok1 | (simp only at hr; exact (msgErr_more_inv _ _ _ _ hr).1)
    subst hmore
    simp only at hr
    obtain ⟨_, rfl, rfl⟩ := msgErr_more_inv _ _ _ _ hr
    obtain ⟨hex, hfl', hle⟩ := parseFLine_resume b s o m.fl ho hfl hfit hp
    refine ⟨?_, ⟨by rw [Array.size_append]; omega, fun _ => hfl',
      fun _ => ⟨hlsOK_grows s hls, hvOK_mono (hvOK_grows s hvs) hge (by rw [Array.size_append]; omega), hpe⟩⟩, hle⟩
    apply RR.of_eq
    rw [parseSIPMsg_fline _ _ _ _ (show ({ m with fl := fl1 } : PSIPMsg).state = .fline from hst)]
    unfold msgFLine
    simp only
    rw [hex]

/-- **L2 for ParseSIPMsg**: after MoreBytes, a call on ANY extension of the buffer, with the returned offset
    and the same message object — and with any flags — returns the offset and verdict of a fresh call with
    those flags on that extension; the message object is the same whenever the verdict is not an error, and the
    same up to the name-addr parsers' unexported saved restart offset after an error. The legitimacy condition
    is re-established, so the statement applies again to the next chunk. -/
theorem parseSIPMsg_resume (b s : Buf) (o : Nat) (m : PSIPMsg) (flags flags' : Nat)
    (hok : msgOK2 b o m) (hfit : b.size ≤ 65535) {o' : Nat} {m' : PSIPMsg}
    (hr : parseSIPMsg b o m flags = (o', Err.moreBytes, m')) :
    RR msgObs (parseSIPMsg (b ++ s) o' m' flags') (parseSIPMsg (b ++ s) o m flags') ∧
      msgOK2 (b ++ s) o' m' ∧ o' ≤ b.size := by
  cases hst : m.state
  case init =>
    have hr' : msgFLine b o { m with offs := o, state := .fline } flags = (o', Err.moreBytes, m') := by
      unfold parseSIPMsg at hr; rw [hst] at hr; exact hr
    have := msgFLine_resume b s o { m with offs := o, state := .fline } flags flags' rfl
      ⟨hok.1, fun _ => hok.2.1 (Or.inl hst), fun _ => hok.2.2 (by rw [hst]; decide)⟩ hfit hr'
    refine ⟨?_, this.2⟩
    have : parseSIPMsg (b ++ s) o m flags' = msgFLine (b ++ s) o { m with offs := o, state := .fline } flags' := by
      unfold parseSIPMsg; rw [hst]
    rw [this]; exact ‹_ ∧ _›.1
  case fline =>
    rw [parseSIPMsg_fline _ _ _ _ hst] at hr
    have := msgFLine_resume b s o m flags flags' hst hok hfit hr
    rw [parseSIPMsg_fline (b ++ s) o m flags' hst]
    exact this
  case headers =>
    rw [parseSIPMsg_headers _ _ _ _ hst] at hr
    have := msgHeaders_resume b s o m flags flags' hst hok hr
    rw [parseSIPMsg_headers (b ++ s) o m flags' hst]
    exact this
  case body =>
    rw [parseSIPMsg_body _ _ _ _ hst] at hr
    obtain ⟨rfl, rfl, hbe⟩ := msgBody_resume b s o m flags flags' hr
    refine ⟨?_, ⟨by rw [Array.size_append]; have := hok.1; omega,
      (fun hh => by rcases hh with hh | hh <;> (rw [show ({ m with body := PField.set o' o' } : PSIPMsg).state = m.state from rfl, hst] at hh; cases hh)),
      fun hne => absurd hst hne⟩, hok.1⟩
    rw [parseSIPMsg_body (b ++ s) o' m flags' hst, parseSIPMsg_body _ _ _ _ (show ({ m with body := PField.set o' o' } : PSIPMsg).state = .body from hst)]
    exact RR.of_eq hbe
  all_goals
    (exfalso
     unfold parseSIPMsg at hr
     rw [hst] at hr
     simp only at hr
     have := (msgErr_more_inv _ _ _ _ hr).1
     cases this)

/-- every object produced by Init (any previous contents, caller arrays of any capacity or none) is legitimate
    for resumption -/
theorem msgOK2_init (b : Buf) (o : Nat) (ho : o ≤ b.size) (m : PSIPMsg) (len kh kc : Nat)
    (hdrs : Option Unit) (cts : Option Unit) :
    msgOK2 b o (m.init len (hdrs.map fun _ => Array.replicate kh {}) (cts.map fun _ => Array.replicate kc {})) := by
  have hm := msgOK_init b o ho m len kh kc hdrs cts
  refine ⟨ho, fun _ => hm.2.1, fun _ => ⟨hm.2.2.1, hm.2.2.2, ?_⟩⟩
  have hrep : ∀ n k, k < (Array.replicate n ({} : Hdr)).size → ¬ (Array.replicate n ({} : Hdr))[k]!.state.isVal := by
    intro n k hk; simp at hk; simp [hk, HState.isVal]
  have key : ∀ H : Array Hdr, (∀ k, k < H.size → ¬ H[k]!.state.isVal) →
      hlsPend ({ hdrs := H } : HdrLst) (some (m.init len (hdrs.map fun _ => Array.replicate kh {})
        (cts.map fun _ => Array.replicate kc {})).pv) := by
    intro H hH
    refine ⟨?_, fun k _ hk => hH k hk, fun _ => by simp [HState.isVal]⟩
    apply hlPending_of_not_isVal
    unfold HdrLst.cur
    split
    · rename_i hin; exact hH _ hin
    · simp [HState.isVal]
  cases hdrs with
  | none => exact key _ (hrep 10)
  | some _ => exact key _ (hrep kh)

end Sipsp
