/-
  Sipsp.Proofs.SafeMsg — ParseSIPMsg never panics (65,535-byte limit), returns offsets inside the buffer (not before
  the offset passed in on OK / MoreBytes), and every field it reports — first line, stored headers, shortcuts, header
  values, contacts, body — can be dereferenced, whatever the verdict; after MoreBytes the object is again legitimate.
-/
import Sipsp.Proofs.SafeGrow
import Sipsp.Proofs.MsgL2

namespace Sipsp

/-- nothing panicked; every reported field lies inside the buffer; the raw-message view lies inside `Buf` -/
structure MsgFine (b : Buf) (m : PSIPMsg) : Prop where
  pnc : m.pnc = false
  fl : FlSafe b b.size m.fl
  hl : HlsOut b m.hl
  pv : HvFine b m.pv
  body : m.body.inside b.size

/-- every field of the header values lies before the offset `o` -/
structure HvIn (b : Buf) (o : Nat) (hv : PHdrVals) : Prop where
  from_ : NaOut b o hv.from_
  to : NaOut b o hv.to
  callid : hv.callid.callID.inside o
  cseq : hv.cseq.cseq.inside o ∧ hv.cseq.method.inside o ∧ hv.cseq.v.inside o
  clen : hv.clen.sVal.inside o
  expires : hv.expires.sVal.inside o
  contacts : CtIn b o hv.contacts
  pais : PaIn b o hv.pais

theorem NaEntry.naOut {b : Buf} {o : Nat} {pf : PFromBody} (h : NaEntry b o pf) : NaOut b o pf := by
  rcases h with h | h
  · exact h.2
  · have := h.2.out
    exact ⟨this.ho, this.name, this.uri, this.tag, this.params, this.v, this.pnc⟩

theorem HvSafe.inn {b : Buf} {o : Nat} {st : HState} {hv : PHdrVals} (h : HvSafe b o st hv) : HvIn b o hv :=
  ⟨h.from_.naOut, h.to.naOut, h.callid.fld, ⟨h.cseq.cseq, h.cseq.method, h.cseq.v⟩, h.clen.fld, h.expires.fld,
   h.ctIn, h.paIn⟩

theorem HvIn.mono {b : Buf} {o o' : Nat} {hv : PHdrVals} (h : HvIn b o hv) (h1 : o ≤ o') (h2 : o' ≤ b.size) :
    HvIn b o' hv :=
  ⟨h.from_.mono h1 h2, h.to.mono h1 h2, PField.inside_mono h.callid h1,
   ⟨PField.inside_mono h.cseq.1 h1, PField.inside_mono h.cseq.2.1 h1, PField.inside_mono h.cseq.2.2 h1⟩,
   PField.inside_mono h.clen h1, PField.inside_mono h.expires h1, h.contacts.mono h1 h2, h.pais.mono h1 h2⟩

theorem HvIn.grow {b b' : Buf} {o : Nat} {hv : PHdrVals} (h : HvIn b o hv) (hs : b.size ≤ b'.size) : HvIn b' o hv :=
  ⟨h.from_.grow hs, h.to.grow hs, h.callid, h.cseq, h.clen, h.expires, h.contacts.grow hs, h.pais.grow hs⟩

/-- **every reported field lies before the offset `o`** (first line, stored headers, shortcuts, header values) -/
structure MsgRelIn (b : Buf) (o : Nat) (m : PSIPMsg) : Prop where
  fl : FlSafe b o m.fl
  hl : HlsIn o m.hl
  pv : HvIn b o m.pv

theorem MsgRelIn.mono {b : Buf} {o o' : Nat} {m : PSIPMsg} (h : MsgRelIn b o m) (h1 : o ≤ o') (h2 : o' ≤ b.size) :
    MsgRelIn b o' m := ⟨h.fl.mono h1 h2, h.hl.mono h1, h.pv.mono h1 h2⟩

theorem MsgRelIn.grow {b b' : Buf} {o : Nat} {m : PSIPMsg} (h : MsgRelIn b o m) (hs : b.size ≤ b'.size) :
    MsgRelIn b' o m := ⟨h.fl.grow hs, h.hl, h.pv.grow hs⟩

/-- legitimacy of a message object for panic-freedom -/
structure MsgSafe (b : Buf) (o : Nat) (m : PSIPMsg) : Prop extends MsgFine b m where
  ho : o ≤ b.size
  offs : m.state ≠ .init → m.offs ≤ o
  flS : (m.state = .init ∨ m.state = .fline) → FlSafe b o m.fl
  hls : (m.state = .init ∨ m.state = .fline ∨ m.state = .headers) → HlsSafe b o m.hl (some m.pv)
  inn : MsgRelIn b o m

theorem MsgFine.grow {b b' : Buf} {m : PSIPMsg} (h : MsgFine b m) (hs : b.size ≤ b'.size) : MsgFine b' m :=
  ⟨h.pnc, (h.fl.grow hs).mono hs (Nat.le_refl _), h.hl.grow hs, h.pv.grow hs, PField.inside_mono h.body hs⟩

theorem MsgSafe.grow {b b' : Buf} {o : Nat} {m : PSIPMsg} (h : MsgSafe b o m) (hs : b.size ≤ b'.size) :
    MsgSafe b' o m :=
  ⟨h.toMsgFine.grow hs, by have := h.ho; omega, h.offs, fun hh => (h.flS hh).grow hs, fun hh => (h.hls hh).grow hs,
   h.inn.grow hs⟩

theorem HlsSafe.mono {b : Buf} {o o' : Nat} {hl : HdrLst} {hb : Option PHdrVals} (h : HlsSafe b o hl hb)
    (h1 : o ≤ o') (h2 : o' ≤ b.size) : HlsSafe b o' hl hb :=
  ⟨h.cur.mono h1 h2, h.clean, h.stored, h.hF, h.inn.mono h1⟩

/-- what a call guarantees about its result -/
structure MsgT (b : Buf) (o : Nat) (r : Nat × Err × PSIPMsg) : Prop where
  out : MsgFine b r.2.2
  le : r.1 ≤ b.size
  ge : r.2.1 = .ok ∨ r.2.1 = .moreBytes → o ≤ r.1
  more : r.2.1 = .moreBytes → MsgSafe b r.1 r.2.2
  inn : r.2.1 = .ok → MsgRelIn b r.1 r.2.2 ∧ r.2.2.body.inside r.1

theorem msgErr_T (b : Buf) (o o' : Nat) (m : PSIPMsg) (e : Err) (flags : Nat) (hO : MsgFine b m) (hle : o' ≤ b.size)
    (hne : e ≠ .ok) (hge : e = .moreBytes → o ≤ o') (hS : e = .moreBytes → MsgSafe b o' m) :
    MsgT b o (msgErr m o' e flags) := by
  unfold msgErr
  have hO' : MsgFine b { m with state := .err } := ⟨hO.pnc, hO.fl, hO.hl, hO.pv, hO.body⟩
  split
  · rename_i h1
    have : e ≠ .moreBytes := by simpa using h1
    exact ⟨hO', hle, (fun hh => by rcases hh with hh | hh; exact absurd hh hne; exact absurd hh this),
      (fun hh => absurd hh this), (fun hh => absurd hh hne)⟩
  · rename_i h1
    have he : e = .moreBytes := by simpa using h1
    split
    · exact ⟨hO', hle, (fun hh => by rcases hh with hh | hh <;> cases hh), (fun hh => by cases hh),
        (fun hh => by cases hh)⟩
    · exact ⟨hO, hle, (fun _ => hge he), (fun _ => hS he), (fun hh => absurd hh hne)⟩

theorem msgEnd_T (b : Buf) (o o' : Nat) (m : PSIPMsg) (hO : MsgFine b m) (hoo : o ≤ o') (hle : o' ≤ b.size)
    (hb : m.body.offs ≤ o') (hoffs : m.offs ≤ o') (hI : MsgRelIn b o' m) : MsgT b o (msgEnd m b o') := by
  unfold msgEnd PSIPMsg.setBufs
  refine ⟨⟨?_, hO.fl, hO.hl, hO.pv, extend_inside m.body o' b.size hb hle⟩, hle, (fun _ => hoo), (fun hh => by cases hh),
    (fun _ => ⟨⟨hI.fl, hI.hl, hI.pv⟩, extend_inside m.body o' o' hb (Nat.le_refl _)⟩)⟩
  show (((m.pnc || m.body.extendPanics o') || decide (o' > b.size)) || decide (m.offs > o')) = false
  rw [hO.pnc, extendPanics_false m.body o' hb]
  simp only [Bool.or_self, Bool.false_or, Bool.or_eq_false_iff, decide_eq_false_iff_not, Nat.not_lt, gt_iff_lt]
  exact ⟨hle, hoffs⟩

theorem msgBody_T (b : Buf) (o : Nat) (m : PSIPMsg) (flags : Nat) (hO : MsgFine b m) (ho : o ≤ b.size)
    (hoffs : m.offs ≤ o) (hst : m.state = .body) (hI : MsgRelIn b o m) : MsgT b o (msgBody b o m flags) := by
  have hI1 : ∀ n, o ≤ n → n ≤ b.size → MsgRelIn b n { m with body := PField.set o o } :=
    fun n h1 h2 => ⟨hI.fl.mono h1 h2, hI.hl.mono h1, hI.pv.mono h1 h2⟩
  have hI2 : MsgRelIn b o { m with body := PField.set o o, state := .fin } := ⟨hI.fl, hI.hl, hI.pv⟩
  have hset : (PField.set o o).offs ≤ o := by unfold PField.set trunc16; exact Nat.mod_le _ _
  have hins : (PField.set o o).inside b.size := set_inside o o b.size (Nat.le_refl _) ho
  have hO1 : MsgFine b { m with body := PField.set o o } := ⟨hO.pnc, hO.fl, hO.hl, hO.pv, hins⟩
  have hO2 : MsgFine b { m with body := PField.set o o, state := .fin } := ⟨hO.pnc, hO.fl, hO.hl, hO.pv, hins⟩
  unfold msgBody
  simp only
  split
  · split
    · refine ⟨⟨?_, hO.fl, hO.hl, hO.pv, hins⟩, ho, (fun hh => by rcases hh with hh | hh <;> cases hh),
        (fun hh => by cases hh), (fun hh => by cases hh)⟩
      show ((m.pnc || decide (o > b.size)) || decide (m.offs > o)) = false
      rw [hO.pnc]
      simp only [Bool.false_or, Bool.or_eq_false_iff, decide_eq_false_iff_not, Nat.not_lt, gt_iff_lt]
      exact ⟨ho, hoffs⟩
    · exact msgEnd_T b o o _ hO2 (Nat.le_refl _) ho hset hoffs hI2
  · split
    · split
      · split
        · exact msgEnd_T b o b.size _ hO1 ho (Nat.le_refl _) (by show (PField.set o o).offs ≤ b.size; omega) (by show m.offs ≤ b.size; omega)
            (hI1 _ ho (Nat.le_refl _))
        · exact ⟨hO1, ho, (fun _ => Nat.le_refl _), fun _ =>
            ⟨hO1, ho, (fun _ => hoffs), (fun hh => by rcases hh with hh | hh <;> (rw [hst] at hh; cases hh)),
             (fun hh => by rcases hh with hh | hh | hh <;> (rw [hst] at hh; cases hh)), hI1 o (Nat.le_refl _) ho⟩,
            (fun hh => by cases hh)⟩
      · rename_i hfit
        exact msgEnd_T b o _ _ hO1 (Nat.le_add_right _ _) (by show o + m.pv.clen.uiVal ≤ b.size; omega)
          (by show (PField.set o o).offs ≤ _; omega) (by show m.offs ≤ _; omega)
          (hI1 _ (Nat.le_add_right _ _) (by show o + m.pv.clen.uiVal ≤ b.size; omega))
    · split
      · exact msgEnd_T b o o _ hO1 (Nat.le_refl _) ho hset hoffs (hI1 o (Nat.le_refl _) ho)
      · exact msgEnd_T b o b.size _ hO1 ho (Nat.le_refl _) (by show (PField.set o o).offs ≤ b.size; omega) (by show m.offs ≤ b.size; omega)
          (hI1 _ ho (Nat.le_refl _))

theorem MsgT.weaken {b : Buf} {o o1 : Nat} {r : Nat × Err × PSIPMsg} (h : MsgT b o1 r) (h1 : o ≤ o1) : MsgT b o r :=
  ⟨h.out, h.le, (fun hh => by have := h.ge hh; omega), h.more, h.inn⟩

theorem msgHeaders_T (b : Buf) (o : Nat) (m : PSIPMsg) (flags : Nat) (hfit : b.size ≤ 65535)
    (hst : m.state = .headers) (hok : msgOK2 b o m) (H : MsgSafe b o m) : MsgT b o (msgHeaders b o m flags) := by
  obtain ⟨ho, _, hrest⟩ := hok
  obtain ⟨hls, hvs, hpe⟩ := hrest (by rw [hst]; decide)
  have hoffs : m.offs ≤ o := H.offs (by rw [hst]; decide)
  rw [msgHeaders_eq]
  have hS := parseHeaders_safe b o m.hl (some m.pv) hfit hls hvs hpe ho (H.hls (Or.inr (Or.inr hst)))
  have hsome := parseHeaders_isSome b o m.hl m.pv
  rcases hp : parseHeaders b o m.hl (some m.pv) with ⟨o1, e1, hl1, hb1⟩
  rw [hp] at hS hsome
  cases hb1 with
  | none => cases hsome
  | some pv1 =>
    obtain ⟨hO, hV, hM, hR, hN⟩ := hS
    simp only at hO hV hM hR hN
    have hfine : MsgFine b { m with hl := hl1, pv := pv1 } := ⟨H.pnc, H.fl, hO, hV pv1 rfl, H.body⟩
    have herr : ∀ e : Err, e ≠ .ok → (e = .moreBytes → e1 = .moreBytes) →
        MsgT b o (msgErr { m with hl := hl1, pv := pv1 } o1 e flags) := by
      intro e hne hmb
      refine msgErr_T b o o1 _ e flags hfine hN hne (fun hh => (hR (Or.inr (hmb hh))).1) (fun hh => ?_)
      have h1 := hR (Or.inr (hmb hh))
      exact ⟨hfine, hN, (fun _ => by show m.offs ≤ o1; omega),
        (fun hq => by rcases hq with hq | hq <;> (rw [show ({ m with hl := hl1, pv := pv1 } : PSIPMsg).state = m.state from rfl, hst] at hq; cases hq)),
        (fun _ => hM (Or.inl (hmb hh))),
        ⟨H.inn.fl.mono (by omega) hN, (hM (Or.inl (hmb hh))).inn, ((hM (Or.inl (hmb hh))).cur.hv pv1 rfl).inn⟩⟩
    unfold afterHeaders
    cases e1 <;> simp only [Option.getD_some]
    case ok =>
      have h1 := hR (Or.inl rfl)
      have hfineB : MsgFine b { m with hl := hl1, pv := pv1, state := .body } := ⟨H.pnc, H.fl, hO, hV pv1 rfl, H.body⟩
      have hHS := hM (Or.inr rfl)
      exact (msgBody_T b o1 _ flags hfineB hN (by show m.offs ≤ o1; omega) rfl
        ⟨H.inn.fl.mono h1.1 hN, hHS.inn, (hHS.cur.hv pv1 rfl).inn⟩).weaken h1.1
    all_goals exact herr _ (by decide) (fun hh => by first | exact hh | cases hh)

theorem msgFLine_T (b : Buf) (o : Nat) (m : PSIPMsg) (flags : Nat) (hfit : b.size ≤ 65535)
    (hst : m.state = .fline) (hok : msgOK2 b o m) (H : MsgSafe b o m) : MsgT b o (msgFLine b o m flags) := by
  obtain ⟨ho, _, hrest⟩ := hok
  obtain ⟨hls, hvs, hpe⟩ := hrest (by rw [hst]; decide)
  have hoffs : m.offs ≤ o := H.offs (by rw [hst]; decide)
  have hF := parseFLine_safe b o m.fl hfit (H.flS (Or.inr hst))
  have hge := parseFLine_ge b o m.fl
  unfold msgFLine
  rcases hp : parseFLine b o m.fl with ⟨o1, e1, fl1⟩
  rw [hp] at hF hge
  simp only at hF hge
  have hfine : MsgFine b { m with fl := fl1 } := ⟨H.pnc, hF.mono hF.ho (Nat.le_refl _), H.hl, H.pv, H.body⟩
  have hHls : HlsSafe b o1 m.hl (some m.pv) := (H.hls (Or.inr (Or.inl hst))).mono hge hF.ho
  have herr : ∀ e : Err, e ≠ .ok → MsgT b o (msgErr { m with fl := fl1 } o1 e flags) := by
    intro e hne
    refine msgErr_T b o o1 _ e flags hfine hF.ho hne (fun _ => hge) (fun _ => ?_)
    exact ⟨hfine, hF.ho, (fun _ => by show m.offs ≤ o1; omega), (fun _ => hF), (fun _ => hHls),
      ⟨hF, H.inn.hl.mono hge, H.inn.pv.mono hge hF.ho⟩⟩
  cases e1 <;> simp only
  case ok =>
    refine (msgHeaders_T b o1 _ flags hfit rfl ?_ ?_).weaken hge
    · exact ⟨hF.ho, (fun hh => by rcases hh with hh | hh <;> cases hh), fun _ => ⟨hls, hvOK_mono hvs hge hF.ho, hpe⟩⟩
    · exact ⟨⟨H.pnc, hF.mono hF.ho (Nat.le_refl _), H.hl, H.pv, H.body⟩, hF.ho, (fun _ => by show m.offs ≤ o1; omega),
        (fun hh => by rcases hh with hh | hh <;> cases hh), (fun _ => hHls),
        ⟨hF, H.inn.hl.mono hge, H.inn.pv.mono hge hF.ho⟩⟩
  all_goals exact herr _ (by decide)

/-- **ParseSIPMsg never panics** (buffers up to the documented 65,535-byte limit; every flag combination; any
    legitimate message object): the returned offset lies inside the buffer — and not before the offset passed in when
    the verdict is OK or MoreBytes —, no panic was recorded and every reported field can be dereferenced whatever the
    verdict; after MoreBytes the object is again legitimate at the returned offset. -/
theorem parseSIPMsg_safe (b : Buf) (o : Nat) (m : PSIPMsg) (flags : Nat) (hfit : b.size ≤ 65535)
    (hok : msgOK2 b o m) (H : MsgSafe b o m) : MsgT b o (parseSIPMsg b o m flags) := by
  cases hst : m.state
  case init =>
    have : parseSIPMsg b o m flags = msgFLine b o { m with offs := o, state := .fline } flags := by
      unfold parseSIPMsg; rw [hst]
    rw [this]
    exact msgFLine_T b o _ flags hfit rfl
      ⟨hok.1, fun _ => hok.2.1 (Or.inl hst), fun _ => hok.2.2 (by rw [hst]; decide)⟩
      ⟨⟨H.pnc, H.fl, H.hl, H.pv, H.body⟩, H.ho, (fun _ => Nat.le_refl _), (fun _ => H.flS (Or.inl hst)),
        (fun _ => H.hls (Or.inl hst)), ⟨H.inn.fl, H.inn.hl, H.inn.pv⟩⟩
  case fline => rw [parseSIPMsg_fline b o m flags hst]; exact msgFLine_T b o m flags hfit hst hok H
  case headers => rw [parseSIPMsg_headers b o m flags hst]; exact msgHeaders_T b o m flags hfit hst hok H
  case body =>
    rw [parseSIPMsg_body b o m flags hst]
    exact msgBody_T b o m flags H.toMsgFine H.ho (H.offs (by rw [hst]; decide)) hst H.inn
  all_goals
    (have : parseSIPMsg b o m flags = msgErr m o .bug flags := by unfold parseSIPMsg; rw [hst]
     rw [this]
     exact msgErr_T b o o m .bug flags H.toMsgFine H.ho (by decide) (fun hh => by cases hh) (fun hh => by cases hh))

/-! ### objects produced by Init -/

theorem HlsSafe_new (b : Buf) (o : Nat) (ho : o ≤ b.size) (k kc : Nat) :
    HlsSafe b o ({ hdrs := Array.replicate k {} } : HdrLst)
      (some ({ contacts := { vals := Array.replicate kc {} } } : PHdrVals)) := by
  have hrep : ∀ j, j < (Array.replicate k ({} : Hdr)).size → (Array.replicate k ({} : Hdr))[j]! = {} := by
    intro j hj; simp at hj; simp [hj]
  have hcur : (({ hdrs := Array.replicate k {} } : HdrLst)).cur = {} := by
    unfold HdrLst.cur
    split
    · rename_i hin; exact hrep _ hin
    · rfl
  refine ⟨?_, ⟨fun j _ hj => hrep j hj, fun _ => rfl⟩, (fun j hj _ => by cases hj), (fun j hj => ?_),
    ⟨(fun j hj _ => by cases hj), fun j hj => ?_⟩⟩
  · rw [hcur]
    exact HlSafe_new b o _ ho (fun hv hh => by cases hh; exact HvSafe_new b o ho kc)
  · have hj' : j < 13 := by simpa using hj
    have : (Array.replicate 13 ({} : Hdr))[j]! = {} := by simp [hj']
    show HdrFine b (Array.replicate 13 ({} : Hdr))[j]!
    rw [this]; exact HdrFine_new b
  · have hj' : j < 13 := by simpa using hj
    have : (Array.replicate 13 ({} : Hdr))[j]! = {} := by simp [hj']
    show HdrBefore o (Array.replicate 13 ({} : Hdr))[j]!
    rw [this]; exact HdrBefore_new o

/-- what `Init` builds (header array of capacity `k`, contact array of capacity `k'`) -/
def initObj (len k k' : Nat) : PSIPMsg :=
  { hl := { hdrs := Array.replicate k {} }, pv := { contacts := { vals := Array.replicate k' {} } }, bufLen := len }

theorem MsgSafe_init (b : Buf) (o : Nat) (ho : o ≤ b.size) (m : PSIPMsg) (len kh kc : Nat)
    (hdrs : Option Unit) (cts : Option Unit) :
    MsgSafe b o (m.init len (hdrs.map fun _ => Array.replicate kh {}) (cts.map fun _ => Array.replicate kc {})) := by
  have key : ∀ k k', MsgSafe b o (initObj len k k') := by
    intro k k'
    have hS := HlsSafe_new b o ho k k'
    exact ⟨⟨rfl, FlSafe_new b b.size (Nat.le_refl _), hS.out, (HvSafe_new b o ho k').fine, PField.inside_zero _⟩, ho,
      (fun hh => absurd rfl hh), (fun _ => FlSafe_new b o ho), (fun _ => hS),
      ⟨FlSafe_new b o ho, hS.inn, (HvSafe_new b o ho k').inn⟩⟩
  cases hdrs <;> cases cts
  · exact key 10 10
  · exact key 10 kc
  · exact key kh 10
  · exact key kh kc

/-! ### every chunk schedule -/

/-- a post-condition established by every single call (from a legitimate state) holds of the caller's loop over any
    growing sequence of buffers: the result satisfies it relative to the buffer of the call that produced it and to
    the offset the loop started from -/
theorem resumeRun_post {σ : Type} (P : Parser σ) (Inv : Buf → Nat → σ → Prop)
    (Q : Buf → Nat → Nat × Err × σ → Prop) (C : Buf → Prop)
    (hP : ∀ b o st, C b → Inv b o st → Q b o (P b o st) ∧
      ((P b o st).2.1 = .moreBytes → o ≤ (P b o st).1 ∧ ∀ s, Inv (b ++ s) (P b o st).1 (P b o st).2.2))
    (hQ : ∀ b o o' r, o ≤ o' → Q b o' r → Q b o r)
    (o : Nat) (st : σ) (l : List Buf) (hg : Growing l) (hC : ∀ x ∈ l, C x) (hne : l ≠ [])
    (h0 : ∀ b ∈ l.head?, Inv b o st) : ∃ b ∈ l, Q b o (resumeRun P o st l) := by
  induction l generalizing o st with
  | nil => exact absurd rfl hne
  | cons b rest ih =>
    have hI : Inv b o st := h0 b (by simp)
    have hCb : C b := hC b List.mem_cons_self
    have hb := hP b o st hCb hI
    cases rest with
    | nil => exact ⟨b, List.mem_cons_self, hb.1⟩
    | cons b' rest' =>
      simp only [resumeRun]
      rcases hp : P b o st with ⟨o1, e1, s1⟩
      rw [hp] at hb
      have hdone : e1 ≠ .moreBytes → ∃ x ∈ b :: b' :: rest', Q x o (o1, e1, s1) :=
        fun _ => ⟨b, List.mem_cons_self, hb.1⟩
      cases e1 <;> simp only <;> try exact hdone (by decide)
      obtain ⟨hge, hinv⟩ := hb.2 rfl
      obtain ⟨s', hs'⟩ := growing_ext hg b' List.mem_cons_self
      obtain ⟨x, hx, hq⟩ := ih o1 s1 (growing_tail hg) (fun x hx => hC x (List.mem_cons_of_mem _ hx)) (by simp)
        (by intro x hx; simp at hx; subst hx; rw [hs']; exact hinv s')
      exact ⟨x, List.mem_cons_of_mem _ hx, hQ x o o1 _ hge hq⟩

/-- the caller-visible guarantee of one ParseSIPMsg call / of a whole chain of resumed calls -/
structure MsgQ (b : Buf) (o : Nat) (r : Nat × Err × PSIPMsg) : Prop where
  fine : MsgFine b r.2.2
  le : r.1 ≤ b.size
  ge : r.2.1 = .ok ∨ r.2.1 = .moreBytes → o ≤ r.1

/-- **ParseSIPMsg under every chunk schedule** (each buffer within the 65,535-byte limit, flags fixed per run): the
    chain of resumed calls never panics, the final offset lies inside the buffer of the last call made — not before the
    offset the first call was given when the verdict is OK or MoreBytes — and every field of the final object can be
    dereferenced against that buffer, whatever the verdict. -/
theorem parseSIPMsg_schedule_safe (flags : Nat) (o : Nat) (m : PSIPMsg) (l : List Buf) (hg : Growing l)
    (hfit : ∀ x ∈ l, x.size ≤ 65535) (hne : l ≠ [])
    (h0 : ∀ b ∈ l.head?, msgOK2 b o m ∧ MsgSafe b o m) :
    ∃ b ∈ l, MsgQ b o (resumeRun (fun b o m => parseSIPMsg b o m flags) o m l) := by
  refine resumeRun_post (fun b o m => parseSIPMsg b o m flags) (fun b o m => msgOK2 b o m ∧ MsgSafe b o m) MsgQ
    (fun b => b.size ≤ 65535) ?_ (fun b o o' r h q => ⟨q.fine, q.le, fun hh => by have := q.ge hh; omega⟩)
    o m l hg hfit hne h0
  intro b o m hfit hI
  have hT := parseSIPMsg_safe b o m flags hfit hI.1 hI.2
  refine ⟨⟨hT.out, hT.le, hT.ge⟩, fun hmb => ⟨hT.ge (Or.inr hmb), fun s => ?_⟩⟩
  rcases hp : parseSIPMsg b o m flags with ⟨o1, e1, m1⟩
  rw [hp] at hmb hT
  simp only at hmb
  subst hmb
  have hr := parseSIPMsg_resume b s o m flags flags hI.1 hfit hp
  exact ⟨hr.2.1, (hT.more rfl).grow (by rw [Array.size_append]; omega)⟩

end Sipsp
