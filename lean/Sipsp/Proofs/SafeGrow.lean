/-
  Sipsp.Proofs.SafeGrow — the safety invariants mention the buffer only through its length: they survive the arrival
  of more bytes.
-/
import Sipsp.Proofs.SafeHeaders

namespace Sipsp

variable {b b' : Buf}

theorem NaOut.grow {o : Nat} {pf : PFromBody} (h : NaOut b o pf) (hs : b.size ≤ b'.size) : NaOut b' o pf :=
  ⟨by have := h.ho; omega, h.name, h.uri, h.tag, h.params, h.v, h.pnc⟩

theorem NaFine.grow {pf : PFromBody} (h : NaFine b pf) (hs : b.size ≤ b'.size) : NaFine b' pf :=
  ⟨Nat.le_refl _, PField.inside_mono h.name hs, PField.inside_mono h.uri hs, PField.inside_mono h.tag hs,
   PField.inside_mono h.params hs, PField.inside_mono h.v hs, h.pnc⟩

theorem NaSafe.grow {o : Nat} {pf : PFromBody} (h : NaSafe b o pf) (hs : b.size ≤ b'.size) : NaSafe b' o pf :=
  ⟨⟨by have := h.hi; omega, h.pend, h.vend, h.s, h.name, h.uri, h.tag, h.params, h.v, h.pnc⟩, h.endP, h.endV⟩

theorem NaEntry.grow {o : Nat} {pf : PFromBody} (h : NaEntry b o pf) (hs : b.size ≤ b'.size) : NaEntry b' o pf := by
  rcases h with h | h
  · exact Or.inl ⟨h.1, h.2.grow hs⟩
  · exact Or.inr ⟨h.1, h.2.grow hs⟩

theorem CiSafe.grow {o : Nat} {st : PCallIDBody} (h : CiSafe b o st) (hs : b.size ≤ b'.size) : CiSafe b' o st :=
  ⟨by have := h.hi; omega, h.soffs, h.fld, h.pnc⟩

theorem ClSafe.grow {o : Nat} {st : PUIntBody} (h : ClSafe b o st) (hs : b.size ≤ b'.size) : ClSafe b' o st :=
  ⟨by have := h.hi; omega, h.soffs, h.fld, h.pnc⟩

theorem ClOut.grow {st : PUIntBody} (h : ClOut b st) (hs : b.size ≤ b'.size) : ClOut b' st :=
  ⟨PField.inside_mono h.1 hs, h.2⟩

theorem CsSafe.grow {o : Nat} {st : PCSeqBody} (h : CsSafe b o st) (hs : b.size ≤ b'.size) : CsSafe b' o st :=
  ⟨by have := h.hi; omega, h.soffs, h.cseq, h.method, h.v, h.pnc⟩

theorem CsOut.grow {st : PCSeqBody} (h : CsOut b st) (hs : b.size ≤ b'.size) : CsOut b' st :=
  ⟨PField.inside_mono h.1 hs, PField.inside_mono h.2.1 hs, PField.inside_mono h.2.2.1 hs, h.2.2.2⟩

theorem CtOut.grow {c : PContacts} (h : CtOut b c) (hs : b.size ≤ b'.size) : CtOut b' c :=
  ⟨PField.inside_mono h.lhv hs, fun k h1 h2 => (h.stored k h1 h2).grow hs, h.lastF.grow hs, h.firstF.grow hs, h.pnc⟩

theorem CtIdle.grow {c : PContacts} (h : CtIdle b c) (hs : b.size ≤ b'.size) : CtIdle b' c :=
  ⟨h.out.grow hs, h.clean, h.cur⟩

theorem CtIn.grow {o : Nat} {c : PContacts} (h : CtIn b o c) (hs : b.size ≤ b'.size) : CtIn b' o c :=
  ⟨h.lhv, fun k h1 h2 => (h.stored k h1 h2).grow hs, h.lastI.grow hs, h.firstI.grow hs⟩

theorem PaIn.grow {o : Nat} {c : PPAIs} (h : PaIn b o c) (hs : b.size ≤ b'.size) : PaIn b' o c :=
  ⟨h.lhv, fun k h1 h2 => (h.stored k h1 h2).grow hs, h.lastI.grow hs⟩

theorem CtSafe.grow {o : Nat} {c : PContacts} (h : CtSafe b o c) (hs : b.size ≤ b'.size) : CtSafe b' o c :=
  ⟨by have := h.ho; omega, h.cur.grow hs, h.clean, h.lo, fun k h1 h2 => (h.stored k h1 h2).grow hs, h.lastF.grow hs,
   h.firstF.grow hs, h.pnc, h.inn.grow hs⟩

theorem PaOut.grow {c : PPAIs} (h : PaOut b c) (hs : b.size ≤ b'.size) : PaOut b' c :=
  ⟨PField.inside_mono h.lhv hs, fun k h1 h2 => (h.stored k h1 h2).grow hs, h.lastF.grow hs, h.pnc⟩

theorem PaIdle.grow {c : PPAIs} (h : PaIdle b c) (hs : b.size ≤ b'.size) : PaIdle b' c :=
  ⟨h.out.grow hs, h.clean, h.cur⟩

theorem PaSafe.grow {o : Nat} {c : PPAIs} (h : PaSafe b o c) (hs : b.size ≤ b'.size) : PaSafe b' o c :=
  ⟨by have := h.ho; omega, h.cur.grow hs, h.clean, h.lo, fun k h1 h2 => (h.stored k h1 h2).grow hs, h.lastF.grow hs,
   h.pnc, h.inn.grow hs⟩

theorem HvSafe.grow {o : Nat} {st : HState} {hv : PHdrVals} (h : HvSafe b o st hv) (hs : b.size ≤ b'.size) :
    HvSafe b' o st hv :=
  ⟨h.from_.grow hs, h.to.grow hs, h.callid.grow hs, h.cseq.grow hs, h.clen.grow hs, h.expires.grow hs,
   fun hh => (h.ctS hh).grow hs, fun hh => (h.ctI hh).grow hs, fun hh => (h.paS hh).grow hs,
   fun hh => (h.paI hh).grow hs, h.ctIn.grow hs, h.paIn.grow hs⟩

theorem HvFine.grow {hv : PHdrVals} (h : HvFine b hv) (hs : b.size ≤ b'.size) : HvFine b' hv :=
  ⟨h.from_.grow hs, h.to.grow hs, ⟨PField.inside_mono h.callid.1 hs, h.callid.2⟩, h.cseq.grow hs, h.clen.grow hs,
   h.expires.grow hs, h.contacts.grow hs, h.pais.grow hs⟩

theorem HlSafe.grow {o : Nat} {st : HLσ} (h : HlSafe b o st) (hs : b.size ≤ b'.size) : HlSafe b' o st :=
  ⟨by have := h.hi; omega, h.pnc, PField.inside_mono h.nameF hs, h.nameI, PField.inside_mono h.valF hs, h.valI, h.nn,
   fun hv hh => (h.hv hv hh).grow hs, h.nameIn, h.valIn⟩

theorem HdrFine.grow {h : Hdr} (hf : HdrFine b h) (hs : b.size ≤ b'.size) : HdrFine b' h :=
  ⟨hf.1, PField.inside_mono hf.2.1 hs, PField.inside_mono hf.2.2 hs⟩

theorem HlsOut.grow {hl : HdrLst} (h : HlsOut b hl) (hs : b.size ≤ b'.size) : HlsOut b' hl :=
  ⟨fun k hk => (h.all k hk).grow hs, h.hdr.grow hs, fun j hj => (h.hF j hj).grow hs⟩

theorem HlsSafe.grow {o : Nat} {hl : HdrLst} {hb : Option PHdrVals} (h : HlsSafe b o hl hb) (hs : b.size ≤ b'.size) :
    HlsSafe b' o hl hb :=
  ⟨h.cur.grow hs, h.clean, fun k h1 h2 => (h.stored k h1 h2).grow hs, fun j hj => (h.hF j hj).grow hs, h.inn⟩

theorem FlSafe.grow {o : Nat} {pl : PFLine} (h : FlSafe b o pl) (hs : b.size ≤ b'.size) : FlSafe b' o pl :=
  ⟨by have := h.ho; omega, h.method, h.uri, h.version, h.statusCode, h.reason, h.pnc⟩

end Sipsp
