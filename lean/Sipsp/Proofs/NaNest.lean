/-
  Sipsp.Proofs.NaNest — nesting and order of the sub-fields of a name-addr value (From / To / Contact /
  P-Asserted-Identity), for EVERY input (property C05, "header-specific sub-fields nest").

  Proved (all buffers within the 65,535-byte limit, all offsets, all header kinds, all inputs):
  * `parseNameAddrPVal_nest`: a parse of one value that started at `lo` on a new object — in one call, or continued
    over the objects returned with MoreBytes (`NnEntry`, `NnEntry_new`, `NnEntry.grow`) — and ends with OK or
    MoreValues leaves a nested value (`NaNest`) that starts at or after `lo`; after MoreBytes the object is again a
    legitimate argument at the returned offset.  `parseNameAddrPVal_nest_new`: the one-call form.
  * `NaNest` / `NaNest.meaning` (unset fields are `{}` = `⟨0,0⟩`): the URI field always lies inside the
    value `v` (for `*` it is `v` itself); the display name, if reported, starts inside `v` and ends at or before the
    start of the URI; the parameter span, if reported, starts at or after the end of the URI and ends exactly where
    `v` ends; the tag, if reported, lies inside the parameter span (which is then reported), hence inside `v`.
  * message level: `parseSIPMsg_nn` (one call from the initial state), `parseSIPMsg_nn_init` (object produced by
    Init), `parseSIPMsg_nn_schedule_init` (any chain of resumed calls from Init): after a successful ParseSIPMsg,
    From and To are untouched (`{}`) or finished and nested, and every stored Contact and P-Asserted-Identity value is
    nested (`HvNn`, `HvNn.meaning`); with the levels below: `parseAllContactValues_new_nn`,
    `parseAllPAIValues_new_nn`, `parseBody_nn`, `parseHdrLine_nn`, `parseHeaders_nn`.
  The proof is a loop invariant (`NnSt`, one clause per parser state; `na_nnCont`, `naStep_nndone`, `naEOH_nn`) over
  the generic `runLoop` driver, carried along with the bounds invariant `NaSafe` of SafeNA.lean.

  NOT proved here: that the reported spans are trimmed of white space (they are not always: the display name
  includes the white space in front of "<"; after `;name=` + white space + "," the value and the parameter span include
  that white space); the nesting of the fields of the value a suspended Contact / PAI *list* parse is working on
  (message level is stated for successful parses; the chunked case goes through the one-shot equivalence
  `C01.schedule_msg_init`); anything about the scalar results (LR, Q, Expires).
-/
import Sipsp.Proofs.SafeNALo
import Sipsp.Proofs.FieldsLo

namespace Sipsp

/-! ### the finished value -/

/-- **nesting and order of the fields of a finished name-addr value.** Unset fields are `⟨0,0⟩`.
    The URI field of a finished value always lies inside the value (for `*` it is the value itself). -/
structure NaNest (pf : PFromBody) : Prop where
  /-- the URI lies inside the value -/
  uriL : pf.v.offs ≤ pf.uri.offs
  uriU : pf.uri.offs + pf.uri.len ≤ pf.v.offs + pf.v.len
  /-- the display name, if any, starts inside the value … -/
  nameL : (pf.name.offs = 0 ∧ pf.name.len = 0) ∨ pf.v.offs ≤ pf.name.offs
  /-- … and ends at or before the start of the URI (an unset name has end 0) -/
  nameU : pf.name.offs + pf.name.len ≤ pf.uri.offs
  /-- the parameter span, if any, starts at or after the end of the URI and runs to the end of the value -/
  parL : (pf.params.offs = 0 ∧ pf.params.len = 0) ∨
    (pf.uri.offs + pf.uri.len ≤ pf.params.offs ∧ pf.params.offs + pf.params.len = pf.v.offs + pf.v.len)
  /-- the tag, if any, lies inside the parameter span (which is then set) -/
  tagL : (pf.tag.offs = 0 ∧ pf.tag.len = 0) ∨
    (pf.params.offs ≠ 0 ∧ pf.params.offs ≤ pf.tag.offs ∧ pf.tag.offs + pf.tag.len ≤ pf.params.offs + pf.params.len)

/-! ### the loop invariant -/

/-- head of the value is in place: URI inside the value, name before the URI and inside the value -/
def NnU (pf : PFromBody) : Prop :=
  pf.v.offs ≤ pf.uri.offs ∧ pf.name.offs + pf.name.len ≤ pf.uri.offs ∧
  pf.uri.offs + pf.uri.len ≤ pf.v.offs + pf.v.len ∧
  ((pf.name.offs = 0 ∧ pf.name.len = 0) ∨ pf.v.offs ≤ pf.name.offs)

/-- the parameter span has been opened after the URI; the tag, if any, starts inside it -/
def NnP (pf : PFromBody) : Prop :=
  pf.params.offs ≠ 0 ∧ pf.v.offs ≤ pf.params.offs ∧ pf.uri.offs + pf.uri.len ≤ pf.params.offs ∧
  ((pf.tag.offs = 0 ∧ pf.tag.len = 0) ∨ pf.params.offs ≤ pf.tag.offs)

/-- nothing but (perhaps) the URI has been reported yet; no parameter value is pending -/
def NnE (pf : PFromBody) : Prop :=
  pf.name.offs = 0 ∧ pf.name.len = 0 ∧ pf.params.offs = 0 ∧ pf.tag.offs = 0 ∧ pf.tag.len = 0 ∧
  pf.vstart = 0 ∧ pf.vend = 0

/-- the invariant, by parser state (`lo` = offset at which the parse of this value began) -/
def NnSt (lo : Nat) (pf : PFromBody) : FBState → Prop
  | .init => pf.uri.offs = 0 ∧ pf.uri.len = 0 ∧ NnE pf
  | .quoted | .name | .nameOrURI =>
    lo ≤ pf.v.offs ∧ pf.uri.offs = 0 ∧ pf.uri.len = 0 ∧ NnE pf ∧ pf.v.offs ≤ pf.s
  | .nameOrURIEnd => lo ≤ pf.v.offs ∧ NnE pf ∧ pf.v.offs ≤ pf.s ∧ NnU pf
  | .star => lo ≤ pf.v.offs ∧ NnE pf
  | .uri =>
    lo ≤ pf.v.offs ∧ pf.uri.offs = 0 ∧ pf.uri.len = 0 ∧ pf.params.offs = 0 ∧ pf.tag.offs = 0 ∧ pf.tag.len = 0 ∧
    pf.vstart = 0 ∧ pf.vend = 0 ∧ pf.v.offs ≤ pf.s ∧ pf.name.offs + pf.name.len ≤ pf.s ∧
    ((pf.name.offs = 0 ∧ pf.name.len = 0) ∨ pf.v.offs ≤ pf.name.offs)
  | .uriFound =>
    lo ≤ pf.v.offs ∧ NnU pf ∧ pf.params.offs = 0 ∧ pf.tag.offs = 0 ∧ pf.tag.len = 0 ∧ pf.vstart = 0 ∧ pf.vend = 0
  | .newParam | .newPossibleParam =>
    lo ≤ pf.v.offs ∧ NnU pf ∧ pf.vstart = 0 ∧ pf.vend = 0 ∧
    ((pf.params.offs = 0 ∧ pf.tag.offs = 0 ∧ pf.tag.len = 0) ∨ NnP pf)
  | .paramName | .possibleParamName => lo ≤ pf.v.offs ∧ NnU pf ∧ pf.vstart = 0 ∧ pf.vend = 0 ∧ NnP pf
  | .paramNameEnd | .possibleParamNameEnd =>
    lo ≤ pf.v.offs ∧ NnU pf ∧ pf.vstart = 0 ∧ pf.vend = 0 ∧ NnP pf ∧ pf.tag.offs + pf.tag.len ≤ pf.pend
  | .newParamVal | .newPossibleVal | .paramVal | .possibleVal | .quotedVal | .quotedPossibleVal =>
    lo ≤ pf.v.offs ∧ NnU pf ∧ NnP pf ∧ pf.params.offs ≤ pf.vstart
  | .paramValEnd | .possibleValEnd =>
    lo ≤ pf.v.offs ∧ NnU pf ∧ NnP pf ∧ pf.params.offs ≤ pf.vstart ∧ pf.tag.offs + pf.tag.len ≤ pf.vend
  | _ => True

/-- the loop invariant of the nesting proof -/
def NnInv (lo : Nat) (pf : PFromBody) : Prop := NnSt lo pf pf.state

/-! ### storing a parameter value -/

/-- what `setFromParamVal` does to the positional fields: only the tag can change, and only to the pending
    value span -/
theorem setFromParamVal_nn (b : Buf) (pf : PFromBody) :
    (setFromParamVal b pf).name = pf.name ∧ (setFromParamVal b pf).uri = pf.uri ∧
    (setFromParamVal b pf).v = pf.v ∧ (setFromParamVal b pf).params = pf.params ∧
    (setFromParamVal b pf).vstart = 0 ∧ (setFromParamVal b pf).vend = 0 ∧
    ((setFromParamVal b pf).tag = pf.tag ∨
      (pf.vstart < pf.vend ∧ (setFromParamVal b pf).tag = PField.set pf.vstart pf.vend)) := by
  unfold setFromParamVal
  have hq := fun val => setQ_same pf val
  by_cases c1 : (decide (pf.pstart < pf.pend) && decide (pf.vstart < pf.vend)) = true
  · rw [if_pos c1]
    simp only [Bool.and_eq_true, decide_eq_true_eq] at c1
    repeat' split
    all_goals
      refine ⟨?_, ?_, ?_, ?_, ?_, ?_, ?_⟩ <;> first
        | rfl
        | exact Or.inr ⟨c1.2, rfl⟩
        | exact Or.inl rfl
        | (simp only [PFromBody.clearPV]
           first | exact (hq _).1 | exact (hq _).2.1 | exact (hq _).2.2.2.2.1 | exact (hq _).2.2.2.1
                 | exact Or.inl (hq _).2.2.1)
  · rw [if_neg c1]
    repeat' split
    all_goals
      refine ⟨?_, ?_, ?_, ?_, ?_, ?_, ?_⟩ <;> first
        | rfl
        | exact Or.inl rfl

/-! ### continuing steps -/

/-- unfolds the field updates and the invariant clauses, then arithmetic -/
macro "nn_arith" : tactic =>
  `(tactic| (simp only [NnSt, NnU, NnP, NnE, PFromBody.setURI, PFromBody.setName, PFromBody.setV, PFromBody.extV,
               PFromBody.extParams, PFromBody.resetUPT, PFromBody.saveS, PField.inside, PField.set, PField.extend,
               trunc16] at *
             repeat' (apply And.intro)
             all_goals first | trivial | omega))

/-- closes `NnSt lo X X.state` for the object `X` built by a continuing step -/
macro "nn_step" hI:ident hg:ident : tactic =>
  `(tactic| (try dsimp only
             first
               | (rw [$hg:ident]; exact $hI:ident)
               | nn_arith))

/-- simp set that decides the tests on a known parser state -/
macro "nn_state" hg:ident " at " hs:ident : tactic =>
  `(tactic| simp only [$hg:ident, beq_iff_eq, bne_iff_ne, ne_eq, reduceCtorEq, not_true_eq_false, not_false_eq_true,
      or_false, false_or, or_true, true_or, or_self, Bool.or_eq_true, ↓reduceIte] at $hs:ident)

theorem naLWS_nn (h : Nat) (b : Buf) (i lo : Nat) (pf : PFromBody) (hI : NnInv lo pf)
    {i' : Nat} {st' : PFromBody} (hs : naLWS h b i pf = .cont i' st') : NnInv lo st' := by
  unfold naLWS at hs
  rw [lwsStd_cont_state b i pf _ _ hs]; exact hI

theorem naStepA_nn (h : Nat) (b : Buf) (i lo : Nat) (c : UInt8) (pf : PFromBody) (hfit : i < 65535) (hlo : lo ≤ i)
    (hS : NaSafe b i pf)
    (hg : pf.state = .init ∨ pf.state = .name ∨ pf.state = .nameOrURI ∨ pf.state = .nameOrURIEnd) (hI : NnInv lo pf)
    {i' : Nat} {st' : PFromBody} (hs : naStepA h b i c pf = .cont i' st') : NnInv lo st' := by
  obtain ⟨⟨h1, h2, h3, h4, h5, h6, h7, h8, h9, h10⟩, h11, h12⟩ := hS
  have hI0 := hI
  unfold NnInv at hI
  rcases hg with hg | hg | hg | hg <;> rw [hg] at hI <;> unfold naStepA at hs <;>
    (nn_state hg at hs) <;>
    (repeat' (split at hs)) <;>
    first
      | exact naLWS_nn h b i lo _ hI0 hs
      | (refine naLWS_nn h b i lo _ ?_ hs
         unfold NnInv
         nn_step hI hg)
      | exact absurd hs (naMoreValues_not_cont h b _ i)
      | (cases hs; unfold NnInv; nn_step hI hg)
      | cases hs

theorem naStepQ_nn (h : Nat) (b : Buf) (i lo : Nat) (c : UInt8) (pf : PFromBody)
    (hg : pf.state = .quoted ∨ pf.state = .quotedVal ∨ pf.state = .quotedPossibleVal) (hI : NnInv lo pf)
    {i' : Nat} {st' : PFromBody} (hs : naStepQ h b i c pf = .cont i' st') : NnInv lo st' := by
  have hI0 := hI
  unfold NnInv at hI
  rcases hg with hg | hg | hg <;> rw [hg] at hI <;> unfold naStepQ at hs <;>
    (nn_state hg at hs) <;>
    (repeat' (split at hs)) <;>
    first
      | exact naLWS_nn h b i lo _ hI0 hs
      | (cases hs; exact hI0)
      | (cases hs; unfold NnInv; exact hI)
      | cases hs

theorem naStepU_nn (b : Buf) (i lo : Nat) (c : UInt8) (pf : PFromBody) (hfit : i < 65535)
    (hS : NaSafe b i pf) (hg : pf.state = .uri) (hI : NnInv lo pf)
    {i' : Nat} {st' : PFromBody} (hs : naStepU i c pf = .cont i' st') : NnInv lo st' := by
  obtain ⟨⟨h1, h2, h3, h4, h5, h6, h7, h8, h9, h10⟩, h11, h12⟩ := hS
  unfold NnInv at hI ⊢
  rw [hg] at hI
  unfold naStepU at hs
  repeat' (split at hs)
  all_goals first
    | (cases hs; nn_step hI hg)
    | cases hs

theorem naStepUF_nn (h : Nat) (b : Buf) (i lo : Nat) (c : UInt8) (pf : PFromBody)
    (hg : pf.state = .uriFound) (hI : NnInv lo pf)
    {i' : Nat} {st' : PFromBody} (hs : naStepUF h b i c pf = .cont i' st') : NnInv lo st' := by
  have hI0 := hI
  unfold NnInv at hI
  rw [hg] at hI
  unfold naStepUF at hs
  repeat' (split at hs)
  all_goals first
    | exact naLWS_nn h b i lo _ hI0 hs
    | exact absurd hs (naMoreValues_not_cont h b _ i)
    | (cases hs; exact hI0)
    | (cases hs; unfold NnInv; nn_step hI hg)
    | cases hs

theorem naStepStar_nn (h : Nat) (b : Buf) (i lo : Nat) (c : UInt8) (pf : PFromBody) (hI : NnInv lo pf)
    {i' : Nat} {st' : PFromBody} (hs : naStepStar h b i c pf = .cont i' st') : NnInv lo st' := by
  unfold naStepStar at hs
  split at hs
  · exact naLWS_nn h b i lo _ hI hs
  · cases hs

/-- a completed parameter is stored: back to "new parameter" -/
theorem nn_sfp (b : Buf) (lo : Nat) (pf : PFromBody)
    (hst : pf.state = .newParam ∨ pf.state = .newPossibleParam) (hlo : lo ≤ pf.v.offs) (hU : NnU pf) (hP : NnP pf)
    (hv : pf.vstart < pf.vend → pf.params.offs ≤ pf.vstart ∧ pf.vend < 65536) :
    NnInv lo (setFromParamVal b pf) := by
  obtain ⟨e1, e2, e3, e4, e5, e6, e7⟩ := setFromParamVal_nn b pf
  unfold NnInv
  rw [setFromParamVal_state]
  have key : lo ≤ (setFromParamVal b pf).v.offs ∧ NnU (setFromParamVal b pf) ∧ (setFromParamVal b pf).vstart = 0 ∧
      (setFromParamVal b pf).vend = 0 ∧
      (((setFromParamVal b pf).params.offs = 0 ∧ (setFromParamVal b pf).tag.offs = 0 ∧ (setFromParamVal b pf).tag.len = 0) ∨
        NnP (setFromParamVal b pf)) := by
    refine ⟨by rw [e3]; exact hlo, ?_, e5, e6, Or.inr ?_⟩
    · unfold NnU at hU ⊢; rw [e1, e2, e3]; exact hU
    · unfold NnP at hP ⊢
      rw [e2, e3, e4]
      rcases e7 with e7 | ⟨hlt, e7⟩
      · rw [e7]; exact hP
      · have := hv hlt
        rw [e7]
        simp only [PField.set, trunc16]
        omega
  rcases hst with hst | hst <;> rw [hst] <;> exact key

theorem naNameWS_nn (b : Buf) (i lo : Nat) (pf : PFromBody) (hS : NaSafe b i pf)
    (hg : pf.state = .newParam ∨ pf.state = .newPossibleParam ∨ pf.state = .paramName ∨ pf.state = .possibleParamName)
    (hI : NnInv lo pf) : NnInv lo (naNameWS pf i) := by
  obtain ⟨⟨h1, h2, h3, h4, h5, h6, h7, h8, h9, h10⟩, h11, h12⟩ := hS
  have hI0 := hI
  unfold NnInv at hI
  rcases hg with hg | hg | hg | hg <;> rw [hg] at hI <;> unfold naNameWS <;>
    simp only [hg, beq_iff_eq, reduceCtorEq, ↓reduceIte] <;>
    first
      | exact hI0
      | (unfold NnInv; nn_step hI hg)

theorem naParam_nn (b : Buf) (i lo : Nat) (pf : PFromBody) (hfit : i < 65535) (h0 : 0 < i) (hS : NaSafe b i pf)
    (hg : pf.state = .newParam ∨ pf.state = .newPossibleParam ∨ pf.state = .paramName ∨ pf.state = .possibleParamName)
    (hI : NnInv lo pf) : NnInv lo (naParamsOffs (naParamStart pf i) i) := by
  obtain ⟨⟨h1, h2, h3, h4, h5, h6, h7, h8, h9, h10⟩, h11, h12⟩ := hS
  have hI0 := hI
  unfold NnInv at hI
  rcases hg with hg | hg | hg | hg <;> rw [hg] at hI <;> unfold naParamsOffs naParamStart <;>
    simp only [hg, beq_iff_eq, reduceCtorEq, ↓reduceIte] <;>
    split <;>
    first
      | exact hI0
      | (unfold NnInv; nn_step hI hg)

theorem naStepP_nn (h : Nat) (b : Buf) (i lo : Nat) (c : UInt8) (pf : PFromBody) (hfit : i < 65535) (h0 : 0 < i)
    (hS : NaSafe b i pf)
    (hg : pf.state = .newParam ∨ pf.state = .newPossibleParam ∨ pf.state = .paramName ∨ pf.state = .possibleParamName)
    (hI : NnInv lo pf) {i' : Nat} {st' : PFromBody} (hs : naStepP h b i c pf = .cont i' st') : NnInv lo st' := by
  have hS0 := hS
  obtain ⟨⟨h1, h2, h3, h4, h5, h6, h7, h8, h9, h10⟩, h11, h12⟩ := hS
  have hI0 := hI
  have hg0 := hg
  unfold naStepP at hs
  split at hs
  · rcases hsk : skipLWS b i 0 with ⟨n, crl, e⟩
    rw [hsk] at hs
    cases e <;> simp only at hs <;> cases hs
    exact naNameWS_nn b i lo pf hS0 hg hI
  · unfold NnInv at hI
    rcases hg with hg | hg | hg | hg <;> rw [hg] at hI <;>
      (nn_state hg at hs) <;>
      (repeat' (split at hs)) <;>
      first
        | exact absurd hs (naMoreValues_not_cont h b _ i)
        | (cases hs; exact naParam_nn b i lo pf hfit h0 hS0 hg0 hI0)
        | (cases hs; exact hI0)
        | (cases hs
           refine nn_sfp b lo _ (by first | exact Or.inl rfl | exact Or.inr rfl) hI.1 hI.2.1 hI.2.2.2.2 ?_
           intro hlt
           have e1 := hI.2.2.1
           have e2 := hI.2.2.2.1
           dsimp only at hlt
           omega)
        | (cases hs; unfold NnInv; nn_step hI hg)
        | cases hs

theorem naStepPE_nn (h : Nat) (b : Buf) (i lo : Nat) (c : UInt8) (pf : PFromBody)
    (hS : NaSafe b i pf)
    (hg : pf.state = .paramNameEnd ∨ pf.state = .possibleParamNameEnd)
    (hI : NnInv lo pf) {i' : Nat} {st' : PFromBody} (hs : naStepPE h b i c pf = .cont i' st') : NnInv lo st' := by
  obtain ⟨⟨h1, h2, h3, h4, h5, h6, h7, h8, h9, h10⟩, h11, h12⟩ := hS
  unfold NnInv at hI
  unfold naStepPE at hs
  rcases hg with hg | hg <;> rw [hg] at hI <;>
    (nn_state hg at hs) <;>
    (repeat' (split at hs)) <;>
    first
      | exact absurd hs (naCommaAfterWS_not_cont h b _ i _)
      | (cases hs
         refine nn_sfp b lo _ (by first | exact Or.inl rfl | exact Or.inr rfl) hI.1 hI.2.1 hI.2.2.2.2.1 ?_
         intro hlt
         have e1 := hI.2.2.1
         have e2 := hI.2.2.2.1
         dsimp only at hlt
         omega)
      | (cases hs; unfold NnInv; nn_step hI hg)
      | cases hs


theorem naValWS_nn (b : Buf) (i n lo : Nat) (pf : PFromBody) (hS : NaSafe b i pf) (hin : i ≤ n)
    (hg : pf.state = .newParamVal ∨ pf.state = .newPossibleVal ∨ pf.state = .paramVal ∨ pf.state = .possibleVal)
    (hI : NnInv lo pf) : NnInv lo (naValWS pf i n true) := by
  obtain ⟨⟨h1, h2, h3, h4, h5, h6, h7, h8, h9, h10⟩, h11, h12⟩ := hS
  unfold NnInv at hI
  rcases hg with hg | hg | hg | hg <;> rw [hg] at hI <;> unfold naValWS <;>
    simp only [hg, ↓reduceIte] <;>
    (unfold NnInv; nn_step hI hg)

theorem naStepV_nn (h : Nat) (b : Buf) (i lo : Nat) (c : UInt8) (pf : PFromBody) (hfit : i < 65535)
    (hS : NaSafe b i pf)
    (hg : pf.state = .newParamVal ∨ pf.state = .newPossibleVal ∨ pf.state = .paramVal ∨ pf.state = .possibleVal)
    (hI : NnInv lo pf) {i' : Nat} {st' : PFromBody} (hs : naStepV h b i c pf = .cont i' st') : NnInv lo st' := by
  have hS0 := hS
  obtain ⟨⟨h1, h2, h3, h4, h5, h6, h7, h8, h9, h10⟩, h11, h12⟩ := hS
  have hI0 := hI
  unfold naStepV at hs
  split at hs
  · rcases hsk : skipLWS b i 0 with ⟨n, crl, e⟩
    rw [hsk] at hs
    cases e <;> simp only at hs <;> cases hs
    exact naValWS_nn b i _ lo pf hS0 (skipLWS_range b i 0 hsk).1 hg hI
  · unfold NnInv at hI
    rcases hg with hg | hg | hg | hg <;> rw [hg] at hI <;>
      (nn_state hg at hs) <;>
      (repeat' (split at hs)) <;>
      first
        | exact absurd hs (naMoreValues_not_cont h b _ i)
        | (cases hs; exact hI0)
        | (cases hs
           refine nn_sfp b lo _ (by first | exact Or.inl rfl | exact Or.inr rfl) hI.1 hI.2.1 hI.2.2.1 ?_
           intro hlt
           have e1 := hI.2.2.2
           dsimp only at hlt ⊢
           omega)
        | (cases hs; unfold NnInv; nn_step hI hg)
        | cases hs

theorem naStepVE_nn (h : Nat) (b : Buf) (i lo : Nat) (c : UInt8) (pf : PFromBody) (hfit : i < 65535)
    (hS : NaSafe b i pf)
    (hg : pf.state = .paramValEnd ∨ pf.state = .possibleValEnd)
    (hI : NnInv lo pf) {i' : Nat} {st' : PFromBody} (hs : naStepVE h b i c pf = .cont i' st') : NnInv lo st' := by
  obtain ⟨⟨h1, h2, h3, h4, h5, h6, h7, h8, h9, h10⟩, h11, h12⟩ := hS
  unfold NnInv at hI
  unfold naStepVE at hs
  rcases hg with hg | hg <;> rw [hg] at hI <;>
    (nn_state hg at hs) <;>
    (repeat' (split at hs)) <;>
    first
      | exact absurd hs (naCommaAfterWS_not_cont h b _ i _)
      | (cases hs
         refine nn_sfp b lo _ (by first | exact Or.inl rfl | exact Or.inr rfl) hI.1 hI.2.1 hI.2.2.1 ?_
         intro hlt
         have e1 := hI.2.2.2.1
         dsimp only at hlt ⊢
         omega)
      | (cases hs; unfold NnInv; nn_step hI hg)
      | cases hs

/-- **the nesting invariant is preserved by every continuing step** (positions within the 16-bit range) -/
theorem na_nnCont (h : Nat) (b : Buf) (i lo : Nat) (c : UInt8) (pf : PFromBody) (hfit : i < 65535) (hlo : lo ≤ i)
    (h0 : pf.state = .init ∨ 0 < i) (hS : NaSafe b i pf) (hI : NnInv lo pf)
    {i' : Nat} {st' : PFromBody} (hs : naStep h b i c pf = .cont i' st') : NnInv lo st' := by
  have hpos : pf.state ≠ .init → 0 < i := fun hn => by rcases h0 with h0 | h0; exact absurd h0 hn; exact h0
  unfold naStep at hs
  split at hs
  all_goals first
    | exact naStepA_nn h b i lo c pf hfit hlo hS (by simp [*]) hI hs
    | exact naStepQ_nn h b i lo c pf (by simp [*]) hI hs
    | exact naStepU_nn b i lo c pf hfit hS (by assumption) hI hs
    | exact naStepUF_nn h b i lo c pf (by assumption) hI hs
    | exact naStepP_nn h b i lo c pf hfit (hpos (by simp [*])) hS (by simp [*]) hI hs
    | exact naStepPE_nn h b i lo c pf hS (by simp [*]) hI hs
    | exact naStepV_nn h b i lo c pf hfit hS (by simp [*]) hI hs
    | exact naStepVE_nn h b i lo c pf hfit hS (by simp [*]) hI hs
    | exact naStepStar_nn h b i lo c pf hI hs
    | (cases hs; exact hI)

/-! ### the end of the value -/

/-- closing a value at `e`: `r` is `pf` with the value (and the parameter span, if open) extended to `e` and
    possibly a last tag `[a, z)` stored -/
theorem nn_close (pf r : PFromBody) (e : Nat) (he : e < 65536) (hn : r.name = pf.name) (hu : r.uri = pf.uri)
    (hv : r.v = pf.v.extend e)
    (hp : (pf.params.offs = 0 ∧ r.params = pf.params) ∨ (pf.params.offs ≠ 0 ∧ r.params = pf.params.extend e))
    (ht : r.tag = pf.tag ∨
      ∃ a z, a < z ∧ z ≤ e ∧ pf.params.offs ≠ 0 ∧ pf.params.offs ≤ a ∧ r.tag = PField.set a z)
    (hU : NnU pf) (hP : (pf.params.offs = 0 ∧ pf.tag.offs = 0 ∧ pf.tag.len = 0) ∨ NnP pf)
    (hl : pf.params.len = 0) (h1 : pf.v.offs ≤ e) (h2 : pf.params.offs ≤ e) (h3 : pf.uri.offs + pf.uri.len ≤ e)
    (h4 : pf.tag.offs + pf.tag.len ≤ e) : NaNest r := by
  unfold NnU at hU
  unfold NnP at hP
  have hve : r.v.offs = pf.v.offs ∧ r.v.len = e - pf.v.offs := by
    rw [hv]; dsimp only [PField.extend, trunc16]; omega
  have hpe : (pf.params.offs = 0 ∧ r.params.offs = 0 ∧ r.params.len = 0) ∨
      (pf.params.offs ≠ 0 ∧ r.params.offs = pf.params.offs ∧ r.params.len = e - pf.params.offs) := by
    rcases hp with ⟨p0, hp⟩ | ⟨p0, hp⟩
    · left; rw [hp]; exact ⟨p0, p0, hl⟩
    · right; rw [hp]; dsimp only [PField.extend, trunc16]; omega
  have hte : (r.tag.offs = pf.tag.offs ∧ r.tag.len = pf.tag.len) ∨
      (pf.params.offs ≠ 0 ∧ pf.params.offs ≤ r.tag.offs ∧ r.tag.offs + r.tag.len ≤ e) := by
    rcases ht with ht | ⟨a, z, h5, h6, h7, h8, ht⟩
    · left; rw [ht]; exact ⟨rfl, rfl⟩
    · right; rw [ht]; dsimp only [PField.set, trunc16]; omega
  refine ⟨?_, ?_, ?_, ?_, ?_, ?_⟩
  · rw [hu]; omega
  · rw [hu]; omega
  · rw [hn]; omega
  · rw [hn, hu]; omega
  · rw [hu]; omega
  · omega

/-- what the end-of-value code of the parameter-name states reports (no value pending) -/
theorem naEOHParamName_nn (b : Buf) (pf : PFromBody) (e : Nat) (hv : pf.vstart = 0 ∧ pf.vend = 0) :
    (naEOHParamName b pf e).name = pf.name ∧ (naEOHParamName b pf e).uri = pf.uri ∧
    (naEOHParamName b pf e).tag = pf.tag ∧ (naEOHParamName b pf e).v = pf.v.extend e ∧
    ((pf.params.offs = 0 ∧ (naEOHParamName b pf e).params = pf.params) ∨
      (pf.params.offs ≠ 0 ∧ (naEOHParamName b pf e).params = pf.params.extend e)) := by
  unfold naEOHParamName
  have h1 : (if pf.state == .paramName || pf.state == .possibleParamName then { pf with pend := e } else pf).name = pf.name ∧
      (if pf.state == .paramName || pf.state == .possibleParamName then { pf with pend := e } else pf).uri = pf.uri ∧
      (if pf.state == .paramName || pf.state == .possibleParamName then { pf with pend := e } else pf).tag = pf.tag ∧
      (if pf.state == .paramName || pf.state == .possibleParamName then { pf with pend := e } else pf).v = pf.v ∧
      (if pf.state == .paramName || pf.state == .possibleParamName then { pf with pend := e } else pf).params = pf.params ∧
      (if pf.state == .paramName || pf.state == .possibleParamName then { pf with pend := e } else pf).vstart = 0 ∧
      (if pf.state == .paramName || pf.state == .possibleParamName then { pf with pend := e } else pf).vend = 0 := by
    split
    · exact ⟨rfl, rfl, rfl, rfl, rfl, hv.1, hv.2⟩
    · exact ⟨rfl, rfl, rfl, rfl, rfl, hv.1, hv.2⟩
  simp only
  generalize (if pf.state == .paramName || pf.state == .possibleParamName then { pf with pend := e } else pf) = pf1 at h1 ⊢
  obtain ⟨a1, a2, a3, a4, a5, a6, a7⟩ := h1
  have h2 : (if pf1.pstart < pf1.pend then setFromParamVal b pf1 else pf1).name = pf.name ∧
      (if pf1.pstart < pf1.pend then setFromParamVal b pf1 else pf1).uri = pf.uri ∧
      (if pf1.pstart < pf1.pend then setFromParamVal b pf1 else pf1).tag = pf.tag ∧
      (if pf1.pstart < pf1.pend then setFromParamVal b pf1 else pf1).v = pf.v ∧
      (if pf1.pstart < pf1.pend then setFromParamVal b pf1 else pf1).params = pf.params := by
    split
    · obtain ⟨e1, e2, e3, e4, _, _, e7⟩ := setFromParamVal_nn b pf1
      refine ⟨by rw [e1, a1], by rw [e2, a2], ?_, by rw [e3, a4], by rw [e4, a5]⟩
      rcases e7 with e7 | ⟨hlt, _⟩
      · rw [e7, a3]
      · omega
    · exact ⟨a1, a2, a3, a4, a5⟩
  generalize (if pf1.pstart < pf1.pend then setFromParamVal b pf1 else pf1) = pf2 at h2 ⊢
  obtain ⟨c1, c2, c3, c4, c5⟩ := h2
  by_cases p0 : pf.params.offs = 0
  · have : (pf2.params.offs != 0) = false := by rw [c5, p0]; rfl
    simp only [this, Bool.false_eq_true, ↓reduceIte]
    exact ⟨c1, c2, c3, by show pf2.v.extend e = _; rw [c4], Or.inl ⟨p0, c5⟩⟩
  · have : (pf2.params.offs != 0) = true := by rw [c5]; simpa using p0
    simp only [this, ↓reduceIte]
    exact ⟨c1, c2, c3, by show pf2.v.extend e = _; rw [c4], Or.inr ⟨p0, by show pf2.params.extend e = _; rw [c5]⟩⟩

/-- what the end-of-value code of the parameter-value states reports: the pending value `[vstart, e)` may
    have become the tag -/
theorem naEOHVal_nn (b : Buf) (pf : PFromBody) (e : Nat) :
    (naEOHVal b pf e).name = pf.name ∧ (naEOHVal b pf e).uri = pf.uri ∧
    (naEOHVal b pf e).v = pf.v.extend e ∧ (naEOHVal b pf e).params = pf.params.extend e ∧
    ((naEOHVal b pf e).tag = pf.tag ∨ (pf.vstart < e ∧ (naEOHVal b pf e).tag = PField.set pf.vstart e)) := by
  unfold naEOHVal
  obtain ⟨e1, e2, e3, e4, _, _, e7⟩ := setFromParamVal_nn b { pf with vend := e }
  refine ⟨e1, e2, ?_, ?_, e7⟩
  · show (setFromParamVal b _).v.extend e = _; rw [e3]
  · show (setFromParamVal b _).params.extend e = _; rw [e4]

theorem naEOHVal_voffs (b : Buf) (pf : PFromBody) (e : Nat) : (naEOHVal b pf e).v.offs = pf.v.offs := by
  rw [(naEOHVal_nn b pf e).2.2.1]; rfl

theorem NaNest.fin {p : PFromBody} (h : Nat) (hN : NaNest p) :
    NaNest { p with state := .fin, soffs := 0, type := h } :=
  ⟨hN.uriL, hN.uriU, hN.nameL, hN.nameU, hN.parL, hN.tagL⟩

theorem NaNest.congr {p q : PFromBody} (hn : q.name = p.name) (hu : q.uri = p.uri) (ht : q.tag = p.tag)
    (hp : q.params = p.params) (hv : q.v = p.v) (h : NaNest p) : NaNest q := by
  obtain ⟨a1, a2, a3, a4, a5, a6⟩ := h
  refine ⟨?_, ?_, ?_, ?_, ?_, ?_⟩ <;> simp only [hn, hu, ht, hp, hv] <;> assumption

/-- proves `NaNest X` for an object built with the field setters, from arithmetic facts in the context -/
macro "nn_nest" : tactic =>
  `(tactic| (refine ⟨?_, ?_, ?_, ?_, ?_, ?_⟩ <;>
      (simp only [NnU, NnP, NnE, PFromBody.setURI, PFromBody.extV, PFromBody.extParams, PField.inside, PField.set,
         PField.extend, trunc16] at *
       omega)))

/-- end of the value right after `=` (empty parameter value): nothing is stored -/
theorem nn_newVal (b : Buf) (pf X : PFromBody) (e : Nat) (he : e < 65536)
    (hX : X.name = pf.name ∧ X.uri = pf.uri ∧ X.tag = pf.tag ∧ X.params = pf.params ∧ X.v = pf.v ∧ X.vstart = e)
    (hU : NnU pf) (hP : NnP pf) (hl : pf.params.len = 0) (h1 : pf.v.offs ≤ e) (h2 : pf.params.offs ≤ e)
    (h3 : pf.uri.offs + pf.uri.len ≤ e) (h4 : pf.tag.offs + pf.tag.len ≤ e) : NaNest (naEOHVal b X e) := by
  obtain ⟨x1, x2, x3, x4, x5, x6⟩ := hX
  obtain ⟨c1, c2, c3, c4, c5⟩ := naEOHVal_nn b X e
  refine nn_close pf _ e he (by rw [c1, x1]) (by rw [c2, x2]) (by rw [c3, x5]) (Or.inr ⟨hP.1, by rw [c4, x4]⟩)
    (Or.inl ?_) hU (Or.inr hP) hl h1 h2 h3 h4
  rcases c5 with c5 | ⟨hlt, _⟩
  · rw [c5, x3]
  · omega

/-- **the end-of-value code produces a nested value**: `e` is the end of the value (the current position `i`, or
    the position before trailing white space) -/
theorem naEOH_nn (h : Nat) (b : Buf) (lo : Nat) (pf : PFromBody) (i e n crl : Nat) (r : Err) (hfit : i < 65536)
    (hC : NaCore b i pf) (hI : NnInv lo pf) (he : e ≤ i) (hs : pf.state = .nameOrURI → pf.s ≤ e)
    (hv : pf.v.offs ≤ e) (hp : pf.params.offs ≤ e) (hu : pf.uri.offs + pf.uri.len ≤ e)
    (ht : pf.tag.offs + pf.tag.len ≤ e)
    (hve : pf.state = .paramValEnd ∨ pf.state = .possibleValEnd → pf.vend ≤ e)
    (hc : Err.complete (naEOH h b pf e n crl r).2.1) :
    NaNest (naEOH h b pf e n crl r).2.2 ∧ lo ≤ (naEOH h b pf e n crl r).2.2.v.offs := by
  obtain ⟨h1, h2, h3, h4, h5, h6, h7, h8, h9, h10⟩ := hC
  unfold NnInv at hI
  unfold naEOH at hc ⊢
  cases hst : pf.state <;> rw [hst] at hI <;> simp only [hst, naFinish] at hc ⊢ <;> simp only [NnSt] at hI
  case init | name | quoted | uri | quotedVal | quotedPossibleVal | tagT | tagA | tagG | tagEq | tagVal | pTagT | pTagA
      | pTagG | pTagEq | pTagVal | fin =>
    exfalso; rcases hc with hc | hc <;> cases hc
  case uriFound | nameOrURIEnd =>
    refine ⟨NaNest.congr (p := pf) rfl rfl rfl rfl rfl ?_, hI.1⟩
    nn_nest
  case nameOrURI =>
    have hs' := hs hst
    refine ⟨NaNest.congr (p := (pf.setURI pf.s e).extV e) rfl rfl rfl rfl rfl ?_, hI.1⟩
    nn_nest
  case star =>
    refine ⟨NaNest.congr (p := { pf with uri := pf.v }) rfl rfl rfl rfl rfl ?_, hI.1⟩
    nn_nest
  case newParam | newPossibleParam =>
    obtain ⟨c1, c2, c3, c4, c5⟩ := naEOHParamName_nn b pf e ⟨hI.2.2.1, hI.2.2.2.1⟩
    refine ⟨NaNest.congr (p := naEOHParamName b pf e) rfl rfl rfl rfl rfl ?_, ?_⟩
    · exact nn_close pf _ e (by omega) c1 c2 c4 c5 (Or.inl c3) hI.2.1 hI.2.2.2.2 h8.2 hv hp hu ht
    · show (naEOHParamName b pf e).v.offs ≥ lo
      rw [c4]; exact hI.1
  case paramName | possibleParamName =>
    obtain ⟨c1, c2, c3, c4, c5⟩ := naEOHParamName_nn b pf e ⟨hI.2.2.1, hI.2.2.2.1⟩
    refine ⟨NaNest.congr (p := naEOHParamName b pf e) rfl rfl rfl rfl rfl ?_, ?_⟩
    · exact nn_close pf _ e (by omega) c1 c2 c4 c5 (Or.inl c3) hI.2.1 (Or.inr hI.2.2.2.2) h8.2 hv hp hu ht
    · show (naEOHParamName b pf e).v.offs ≥ lo
      rw [c4]; exact hI.1
  case paramNameEnd | possibleParamNameEnd =>
    obtain ⟨c1, c2, c3, c4, c5⟩ := naEOHParamName_nn b pf e ⟨hI.2.2.1, hI.2.2.2.1⟩
    refine ⟨NaNest.congr (p := naEOHParamName b pf e) rfl rfl rfl rfl rfl ?_, ?_⟩
    · exact nn_close pf _ e (by omega) c1 c2 c4 c5 (Or.inl c3) hI.2.1 (Or.inr hI.2.2.2.2.1) h8.2 hv hp hu ht
    · show (naEOHParamName b pf e).v.offs ≥ lo
      rw [c4]; exact hI.1
  case newParamVal | newPossibleVal =>
    refine ⟨NaNest.congr (p := naEOHVal b _ e) rfl rfl rfl rfl rfl ?_, ?_⟩
    · exact nn_newVal b pf _ e (by omega) ⟨rfl, rfl, rfl, rfl, rfl, rfl⟩ hI.2.1 hI.2.2.1 h8.2 hv hp hu ht
    · show lo ≤ (naEOHVal b _ e).v.offs
      rw [naEOHVal_voffs]; exact hI.1
  case paramVal | possibleVal =>
    obtain ⟨c1, c2, c3, c4, c5⟩ := naEOHVal_nn b pf e
    refine ⟨NaNest.congr (p := naEOHVal b pf e) rfl rfl rfl rfl rfl ?_, ?_⟩
    · refine nn_close pf _ e (by omega) c1 c2 c3 (Or.inr ⟨hI.2.2.1.1, c4⟩) ?_ hI.2.1 (Or.inr hI.2.2.1) h8.2 hv hp hu ht
      rcases c5 with c5 | ⟨hlt, c5⟩
      · exact Or.inl c5
      · exact Or.inr ⟨pf.vstart, e, hlt, Nat.le_refl _, hI.2.2.1.1, hI.2.2.2, c5⟩
    · show (naEOHVal b pf e).v.offs ≥ lo
      rw [c3]; exact hI.1
  case paramValEnd | possibleValEnd =>
    obtain ⟨c1, c2, c3, c4, _, _, c7⟩ := setFromParamVal_nn b pf
    have hve' := hve (by first | exact Or.inl hst | exact Or.inr hst)
    refine ⟨NaNest.congr (p := ((setFromParamVal b pf).extParams e).extV e) rfl rfl rfl rfl rfl ?_, ?_⟩
    · refine nn_close pf _ e (by omega) c1 c2 (by show (setFromParamVal b pf).v.extend e = _; rw [c3])
        (Or.inr ⟨hI.2.2.1.1, by show (setFromParamVal b pf).params.extend e = _; rw [c4]⟩) ?_ hI.2.1 (Or.inr hI.2.2.1)
        h8.2 hv hp hu ht
      rcases c7 with c7 | ⟨hlt, c7⟩
      · exact Or.inl c7
      · exact Or.inr ⟨pf.vstart, pf.vend, hlt, hve', hI.2.2.1.1, hI.2.2.2.1, c7⟩
    · show (setFromParamVal b pf).v.offs ≥ lo
      rw [c3]; exact hI.1

/-! ### every exit of the loop body -/

/-- what holds of a finishing step: a complete value is nested and starts at or after `lo`; after MoreBytes the
    invariant is carried on -/
def NnDone (lo : Nat) (e : Err) (st' : PFromBody) : Prop :=
  (Err.complete e → NaNest st' ∧ lo ≤ st'.v.offs) ∧ (e = .moreBytes → NnInv lo st')

theorem NnDone.err {lo : Nat} {e : Err} {st' : PFromBody} (h1 : e ≠ .ok) (h2 : e ≠ .moreValues) (h3 : e ≠ .moreBytes) :
    NnDone lo e st' :=
  ⟨(fun hc => by rcases hc with hc | hc; exact absurd hc h1; exact absurd hc h2), fun hh => absurd hh h3⟩

theorem NnInv.saveS {lo : Nat} {pf : PFromBody} (h : NnInv lo pf) : NnInv lo pf.saveS := by
  unfold NnInv at h ⊢
  show NnSt lo pf.saveS pf.state
  cases hst : pf.state <;> rw [hst] at h <;> exact h

theorem NnDone.more {lo : Nat} {st' : PFromBody} (h : NnInv lo st') : NnDone lo .moreBytes st' :=
  ⟨(fun hc => by rcases hc with hc | hc <;> cases hc), fun _ => h⟩

/-- the end-of-value code run with an explicit value end `e ≤ i` -/
theorem naEOH_nndone (h : Nat) (b : Buf) (lo : Nat) (pf : PFromBody) (i e n crl : Nat) (r : Err) (hr : r ≠ .moreBytes)
    (hfit : i < 65536) (hC : NaCore b i pf) (hI : NnInv lo pf) (he : e ≤ i) (hs : pf.state = .nameOrURI → pf.s ≤ e)
    (hv : pf.v.offs ≤ e) (hp : pf.params.offs ≤ e) (hu : pf.uri.offs + pf.uri.len ≤ e)
    (ht : pf.tag.offs + pf.tag.len ≤ e)
    (hve : pf.state = .paramValEnd ∨ pf.state = .possibleValEnd → pf.vend ≤ e) :
    NnDone lo (naEOH h b pf e n crl r).2.1 (naEOH h b pf e n crl r).2.2 :=
  ⟨naEOH_nn h b lo pf i e n crl r hfit hC hI he hs hv hp hu ht hve,
   fun hh => absurd hh (naEOH_ne_more h b pf e n crl r hr)⟩

/-- … with the value ending at the current position -/
theorem naEOH_nndone_at (h : Nat) (b : Buf) (lo : Nat) (pf : PFromBody) (i n crl : Nat) (r : Err) (hr : r ≠ .moreBytes)
    (hfit : i < 65536) (hS : NaSafe b i pf) (hI : NnInv lo pf) :
    NnDone lo (naEOH h b pf i n crl r).2.1 (naEOH h b pf i n crl r).2.2 :=
  naEOH_nndone h b lo pf i i n crl r hr hfit hS.toNaCore hI (Nat.le_refl _) (fun _ => hS.s) hS.toNaCore.voffs
    hS.params.1 hS.uri hS.tag (fun _ => hS.vend)

theorem naLWS_nndone (h : Nat) (b : Buf) (i lo : Nat) (pf : PFromBody) (hfit : i < 65536) (hS : NaSafe b i pf)
    (hI : NnInv lo pf) {o : Nat} {e : Err} {st' : PFromBody} (hs : naLWS h b i pf = .done o e st') :
    NnDone lo e st' := by
  unfold naLWS lwsStd at hs
  rcases hsk : skipLWS b i 0 with ⟨n, crl, e1⟩
  rw [hsk] at hs
  have hv := skipLWS_verdicts b i 0 hsk
  rcases hv with rfl | rfl | rfl | rfl <;> simp only at hs
  · cases hs
  · simp only [Step.done.injEq] at hs
    obtain ⟨rfl, rfl, rfl⟩ := hs
    exact naEOH_nndone_at h b lo pf i n crl .ok (by decide) hfit hS hI
  · cases hs; exact NnDone.err (by decide) (by decide) (by decide)
  · cases hs; exact NnDone.more hI.saveS

theorem naMoreValues_nndone (h : Nat) (b : Buf) (lo : Nat) (pf : PFromBody) (i : Nat) (hfit : i < 65536)
    (hS : NaSafe b i pf) (hI : NnInv lo pf)
    {o : Nat} {e : Err} {st' : PFromBody} (hs : naMoreValues h b pf i = .done o e st') : NnDone lo e st' := by
  unfold naMoreValues at hs
  simp only [Step.done.injEq] at hs
  obtain ⟨rfl, rfl, rfl⟩ := hs
  exact naEOH_nndone_at h b lo pf i i 1 .moreValues (by decide) hfit hS hI

theorem naCommaAfterWS_nndone (h : Nat) (b : Buf) (lo : Nat) (pf : PFromBody) (i e : Nat) (hfit : i < 65536)
    (hS : NaSafe b i pf) (hI : NnInv lo pf) (he : e ≤ i) (hst : pf.state ≠ .nameOrURI)
    (hv : pf.v.offs ≤ e) (hp : pf.params.offs ≤ e) (hu : pf.uri.offs + pf.uri.len ≤ e)
    (ht : pf.tag.offs + pf.tag.len ≤ e)
    (hve : pf.state = .paramValEnd ∨ pf.state = .possibleValEnd → pf.vend ≤ e)
    {o : Nat} {e' : Err} {st' : PFromBody} (hs : naCommaAfterWS h b pf i e = .done o e' st') : NnDone lo e' st' := by
  unfold naCommaAfterWS at hs
  split at hs
  · simp only [Step.done.injEq] at hs
    obtain ⟨rfl, rfl, rfl⟩ := hs
    exact naEOH_nndone h b lo pf i e i 1 .moreValues (by decide) hfit hS.toNaCore hI he (fun hh => absurd hh hst)
      hv hp hu ht hve
  · cases hs; exact NnDone.err (by decide) (by decide) (by decide)

theorem naStepA_nndone (h : Nat) (b : Buf) (i lo : Nat) (c : UInt8) (pf : PFromBody) (hfit : i < 65535) (hlo : lo ≤ i)
    (hS : NaSafe b i pf)
    (hg : pf.state = .init ∨ pf.state = .name ∨ pf.state = .nameOrURI ∨ pf.state = .nameOrURIEnd) (hI : NnInv lo pf)
    {o : Nat} {e : Err} {st' : PFromBody} (hs : naStepA h b i c pf = .done o e st') : NnDone lo e st' := by
  have hlo' : lo ≤ i := hlo
  have hS0 := hS
  obtain ⟨⟨h1, h2, h3, h4, h5, h6, h7, h8, h9, h10⟩, h11, h12⟩ := hS
  have hI0 := hI
  unfold NnInv at hI
  rcases hg with hg | hg | hg | hg <;> rw [hg] at hI <;> unfold naStepA at hs <;>
    (nn_state hg at hs) <;>
    (repeat' (split at hs)) <;>
    first
      | exact naLWS_nndone h b i lo _ (by omega) hS0 hI0 hs
      | (refine naLWS_nndone h b i lo _ (by omega) ?_ ?_ hs
         · refine ⟨⟨?_, ?_, ?_, ?_, ?_, ?_, ?_, ?_, ?_, ?_⟩, ?_, ?_⟩ <;> na_fld
         · unfold NnInv
           nn_step hI hg)
      | exact naMoreValues_nndone h b lo _ i (by omega) hS0 hI0 hs
      | (cases hs <;> exact NnDone.err (by decide) (by decide) (by decide))

theorem naStepQ_nndone (h : Nat) (b : Buf) (i lo : Nat) (c : UInt8) (pf : PFromBody) (hfit : i < 65535)
    (hS : NaSafe b i pf) (hI : NnInv lo pf)
    {o : Nat} {e : Err} {st' : PFromBody} (hs : naStepQ h b i c pf = .done o e st') : NnDone lo e st' := by
  unfold naStepQ at hs
  repeat' (split at hs)
  all_goals first
    | exact naLWS_nndone h b i lo _ (by omega) hS hI hs
    | (cases hs; exact NnDone.more hI.saveS)
    | (cases hs <;> exact NnDone.err (by decide) (by decide) (by decide))

theorem naStepU_nndone (i lo : Nat) (c : UInt8) (pf : PFromBody)
    {o : Nat} {e : Err} {st' : PFromBody} (hs : naStepU i c pf = .done o e st') : NnDone lo e st' := by
  unfold naStepU at hs
  repeat' (split at hs)
  all_goals (cases hs <;> exact NnDone.err (by decide) (by decide) (by decide))

theorem naStepUF_nndone (h : Nat) (b : Buf) (i lo : Nat) (c : UInt8) (pf : PFromBody) (hfit : i < 65535)
    (hS : NaSafe b i pf) (hI : NnInv lo pf)
    {o : Nat} {e : Err} {st' : PFromBody} (hs : naStepUF h b i c pf = .done o e st') : NnDone lo e st' := by
  unfold naStepUF at hs
  repeat' (split at hs)
  all_goals first
    | exact naLWS_nndone h b i lo _ (by omega) hS hI hs
    | exact naMoreValues_nndone h b lo _ i (by omega) hS hI hs
    | (cases hs <;> exact NnDone.err (by decide) (by decide) (by decide))

theorem naStepStar_nndone (h : Nat) (b : Buf) (i lo : Nat) (c : UInt8) (pf : PFromBody) (hfit : i < 65535)
    (hS : NaSafe b i pf) (hI : NnInv lo pf)
    {o : Nat} {e : Err} {st' : PFromBody} (hs : naStepStar h b i c pf = .done o e st') : NnDone lo e st' := by
  unfold naStepStar at hs
  split at hs
  · exact naLWS_nndone h b i lo _ (by omega) hS hI hs
  · cases hs; exact NnDone.err (by decide) (by decide) (by decide)

theorem naStepP_nndone (h : Nat) (b : Buf) (i lo : Nat) (c : UInt8) (pf : PFromBody) (hfit : i < 65535)
    (hS : NaSafe b i pf)
    (hg : pf.state = .newParam ∨ pf.state = .newPossibleParam ∨ pf.state = .paramName ∨ pf.state = .possibleParamName)
    (hI : NnInv lo pf)
    {o : Nat} {e : Err} {st' : PFromBody} (hs : naStepP h b i c pf = .done o e st') : NnDone lo e st' := by
  unfold naStepP at hs
  split at hs
  · rcases hsk : skipLWS b i 0 with ⟨n, crl, e1⟩
    rw [hsk] at hs
    have hv := skipLWS_verdicts b i 0 hsk
    have hX := naNameWS_safe b i i pf hS (Nat.le_refl _) hS.hi
    rcases hv with rfl | rfl | rfl | rfl <;> simp only at hs
    · cases hs
    · simp only [Step.done.injEq] at hs
      obtain ⟨rfl, rfl, rfl⟩ := hs
      exact naEOH_nndone_at h b lo _ i n crl .ok (by decide) (by omega) hX (naNameWS_nn b i lo pf hS hg hI)
    · cases hs; exact NnDone.err (by decide) (by decide) (by decide)
    · cases hs; exact NnDone.more hI.saveS
  · repeat' (split at hs)
    all_goals first
      | exact naMoreValues_nndone h b lo _ i (by omega) hS hI hs
      | (cases hs <;> exact NnDone.err (by decide) (by decide) (by decide))

theorem naValWS_nn_false (b : Buf) (i n lo : Nat) (pf : PFromBody) (hS : NaSafe b i pf)
    (hg : pf.state = .newParamVal ∨ pf.state = .newPossibleVal ∨ pf.state = .paramVal ∨ pf.state = .possibleVal)
    (hI : NnInv lo pf) : NnInv lo (naValWS pf i n false) := by
  obtain ⟨⟨h1, h2, h3, h4, h5, h6, h7, h8, h9, h10⟩, h11, h12⟩ := hS
  have hI0 := hI
  unfold NnInv at hI
  rcases hg with hg | hg | hg | hg <;> rw [hg] at hI <;> unfold naValWS <;>
    simp only [hg, Bool.false_eq_true, ↓reduceIte] <;>
    first
      | exact hI0
      | (unfold NnInv; nn_step hI hg)

theorem naStepV_nndone (h : Nat) (b : Buf) (i lo : Nat) (c : UInt8) (pf : PFromBody) (hfit : i < 65535)
    (hS : NaSafe b i pf)
    (hg : pf.state = .newParamVal ∨ pf.state = .newPossibleVal ∨ pf.state = .paramVal ∨ pf.state = .possibleVal)
    (hI : NnInv lo pf)
    {o : Nat} {e : Err} {st' : PFromBody} (hs : naStepV h b i c pf = .done o e st') : NnDone lo e st' := by
  unfold naStepV at hs
  split at hs
  · rcases hsk : skipLWS b i 0 with ⟨n, crl, e1⟩
    rw [hsk] at hs
    have hv := skipLWS_verdicts b i 0 hsk
    have hX := naValWS_safe b i i pf false hS (Nat.le_refl _) hS.hi
    rw [← naValWS_false pf i n] at hX
    rcases hv with rfl | rfl | rfl | rfl <;> simp only at hs
    · cases hs
    · simp only [Step.done.injEq] at hs
      obtain ⟨rfl, rfl, rfl⟩ := hs
      exact naEOH_nndone_at h b lo _ i n crl .ok (by decide) (by omega) hX (naValWS_nn_false b i n lo pf hS hg hI)
    · cases hs; exact NnDone.err (by decide) (by decide) (by decide)
    · cases hs; exact NnDone.more hI.saveS
  · repeat' (split at hs)
    all_goals first
      | exact naMoreValues_nndone h b lo _ i (by omega) hS hI hs
      | (cases hs <;> exact NnDone.err (by decide) (by decide) (by decide))

theorem naStepPE_nndone (h : Nat) (b : Buf) (i lo : Nat) (c : UInt8) (pf : PFromBody) (hfit : i < 65535)
    (hS : NaSafe b i pf) (hg : pf.state = .paramNameEnd ∨ pf.state = .possibleParamNameEnd) (hI : NnInv lo pf)
    {o : Nat} {e : Err} {st' : PFromBody} (hs : naStepPE h b i c pf = .done o e st') : NnDone lo e st' := by
  have hE := hS.endP hg
  have hK : pf.uri.offs + pf.uri.len ≤ pf.pend ∧ pf.tag.offs + pf.tag.len ≤ pf.pend := by
    have hI' := hI
    unfold NnInv at hI'
    rcases hg with g | g <;> rw [g] at hI' <;> simp only [NnSt, NnP] at hI' <;> omega
  unfold naStepPE at hs
  repeat' (split at hs)
  all_goals first
    | exact naCommaAfterWS_nndone h b lo pf i pf.pend (by omega) hS hI hS.pend
        (by rcases hg with g | g <;> rw [g] <;> decide) hE.1 hE.2 hK.1 hK.2
        (fun hh => by rcases hg with g | g <;> rw [g] at hh <;> rcases hh with hh | hh <;> cases hh) hs
    | (cases hs <;> exact NnDone.err (by decide) (by decide) (by decide))

theorem naStepVE_nndone (h : Nat) (b : Buf) (i lo : Nat) (c : UInt8) (pf : PFromBody) (hfit : i < 65535)
    (hS : NaSafe b i pf) (hg : pf.state = .paramValEnd ∨ pf.state = .possibleValEnd) (hI : NnInv lo pf)
    {o : Nat} {e : Err} {st' : PFromBody} (hs : naStepVE h b i c pf = .done o e st') : NnDone lo e st' := by
  have hE := hS.endV hg
  have hK : pf.uri.offs + pf.uri.len ≤ pf.vend ∧ pf.tag.offs + pf.tag.len ≤ pf.vend := by
    have hI' := hI
    unfold NnInv at hI'
    rcases hg with g | g <;> rw [g] at hI' <;> simp only [NnSt, NnP] at hI' <;> omega
  unfold naStepVE at hs
  repeat' (split at hs)
  all_goals first
    | exact naCommaAfterWS_nndone h b lo pf i pf.vend (by omega) hS hI hS.vend
        (by rcases hg with g | g <;> rw [g] <;> decide) hE.1 hE.2 hK.1 hK.2 (fun _ => Nat.le_refl _) hs
    | (cases hs <;> exact NnDone.err (by decide) (by decide) (by decide))

/-- **every exit of the loop body: a complete value is nested** -/
theorem naStep_nndone (h : Nat) (b : Buf) (i lo : Nat) (c : UInt8) (pf : PFromBody) (hfit : i < 65535) (hlo : lo ≤ i)
    (hS : NaSafe b i pf) (hI : NnInv lo pf)
    {o : Nat} {e : Err} {st' : PFromBody} (hs : naStep h b i c pf = .done o e st') : NnDone lo e st' := by
  unfold naStep at hs
  split at hs
  all_goals first
    | exact naStepA_nndone h b i lo c pf hfit hlo hS (by simp [*]) hI hs
    | exact naStepQ_nndone h b i lo c pf hfit hS hI hs
    | exact naStepU_nndone i lo c pf hs
    | exact naStepUF_nndone h b i lo c pf hfit hS hI hs
    | exact naStepP_nndone h b i lo c pf hfit hS (by simp [*]) hI hs
    | exact naStepPE_nndone h b i lo c pf hfit hS (by simp [*]) hI hs
    | exact naStepV_nndone h b i lo c pf hfit hS (by simp [*]) hI hs
    | exact naStepVE_nndone h b i lo c pf hfit hS (by simp [*]) hI hs
    | exact naStepStar_nndone h b i lo c pf hfit hS hI hs
    | cases hs

/-! ### ParseNameAddrPVal -/

theorem NnInv.soffs {lo : Nat} {pf : PFromBody} (k : Nat) (h : NnInv lo pf) : NnInv lo { pf with soffs := k } := by
  unfold NnInv at h ⊢
  show NnSt lo { pf with soffs := k } pf.state
  cases hst : pf.state <;> rw [hst] at h <;> exact h

/-- a step that suspends in the initial state leaves the initial state -/
theorem naStep_more_init (h : Nat) (b : Buf) (i : Nat) (c : UInt8) (pf : PFromBody) (hi : pf.state = .init)
    {o : Nat} {st' : PFromBody} (hs : naStep h b i c pf = .done o .moreBytes st') : st'.state = .init := by
  unfold naStep at hs
  rw [hi] at hs
  simp only at hs
  unfold naStepA at hs
  nn_state hi at hs
  repeat' (split at hs)
  all_goals first
    | (unfold naLWS at hs
       rw [lwsStd_more_state b i pf _ _ (fun s j n crl => naEOH_ne_more h b s j n crl .ok (by decide)) hs]
       exact hi)
    | exact absurd hs (naMoreValues_ne_more h b _ i)
    | cases hs

/-- a suspended run that has left the initial state has consumed at least one byte: the returned offset is
    positive -/
theorem na_more_pos (h : Nat) (b : Buf) (i : Nat) (pf : PFromBody) (h0 : pf.state = .init ∨ 0 < i)
    {o : Nat} {st' : PFromBody} (hr : runLoop (naMachine h) b i pf = (o, Err.moreBytes, st')) :
    st'.state = .init ∨ 0 < o := by
  have key := runLoop_inv (naMachine h) b (fun j st => st.state = .init ∨ 0 < j)
    (fun r => r.2.1 = .moreBytes → (r.2.2.state = .init ∨ 0 < r.1))
    (by
      intro j c st j' st' _ _ _
      exact ⟨fun hlt => Or.inr (by omega), fun _ hq => by cases hq⟩)
    (by
      intro j c st o2 e2 st2 hb hP hs hq
      subst hq
      change naStep h b j c st = .done o2 .moreBytes st2 at hs
      rcases hP with hP | hP
      · exact Or.inl (naStep_more_init h b j c st hP hs)
      · right
        rcases naStep_suspend h b j c st hs with ⟨rfl, _⟩ | ⟨_, st1, _, _, h3, _⟩
        · exact hP
        · unfold naLWS lwsStd at h3
          rcases hsk : skipLWS b j 0 with ⟨n, crl, e⟩
          rw [hsk] at h3
          have hrg := skipLWS_range b j 0 hsk
          cases e <;> simp only at h3
          case moreBytes => simp only [Step.done.injEq] at h3; omega
          case eoh =>
            exfalso
            have hne := naEOH_ne_more h b st1 j n crl .ok (by simp)
            simp only [Step.done.injEq] at h3
            exact hne h3.2.1
          all_goals cases h3)
    (by
      intro j st _ hP _
      simp only [naMachine]; exact hP)
    i pf h0
  rw [hr] at key
  exact key rfl

/-- what a caller may pass to have the nesting theorem: an object that is new, or was returned with MoreBytes by
    an earlier call of the same value parse (which started at `lo`), at an offset `o ≥ lo` -/
def NnEntry (b : Buf) (o lo : Nat) (pf : PFromBody) : Prop :=
  lo ≤ o ∧ pf.state ≠ .fin ∧ (pf.state = .init ∨ 0 < o) ∧
  NaSafe b o { pf with s := pf.soffs, soffs := 0 } ∧ NnInv lo { pf with s := pf.soffs, soffs := 0 }

theorem NnEntry_new (b : Buf) (o : Nat) (ho : o ≤ b.size) : NnEntry b o o {} := by
  refine ⟨Nat.le_refl _, by decide, Or.inl rfl, ?_, ?_⟩
  · rcases NaEntry_new b o ho with hE | hE
    · exact absurd hE.1 (by decide)
    · exact hE.2
  · unfold NnInv
    show NnSt o _ FBState.init
    simp only [NnSt, NnE]
    decide

/-- the entry condition does not depend on the bytes, only on the buffer being long enough -/
theorem NnEntry.grow {b b' : Buf} {o lo : Nat} {pf : PFromBody} (h : NnEntry b o lo pf) (hb : o ≤ b'.size) :
    NnEntry b' o lo pf := by
  obtain ⟨h1, h2, h3, h4, h5⟩ := h
  exact ⟨h1, h2, h3, ⟨⟨hb, h4.pend, h4.vend, h4.s, h4.name, h4.uri, h4.tag, h4.params, h4.v, h4.pnc⟩, h4.endP, h4.endV⟩, h5⟩

/-- **nesting theorem for ParseNameAddrPVal** (any header kind; buffers within the 65,535-byte limit): a parse of one
    value that started at `lo` on a new object — in one call, or continued over the objects returned with MoreBytes —
    and ends with OK or MoreValues leaves a value whose sub-fields are nested and ordered (`NaNest`) and which
    starts at or after `lo`; after MoreBytes the object is again a legitimate argument at the returned offset. -/
theorem parseNameAddrPVal_nest (h : Nat) (b : Buf) (o lo : Nat) (pf : PFromBody) (hfit : b.size ≤ 65535)
    (hE : NnEntry b o lo pf) {o' : Nat} {e : Err} {pf' : PFromBody}
    (hr : parseNameAddrPVal h b o pf = (o', e, pf')) :
    (Err.complete e → NaNest pf' ∧ lo ≤ pf'.v.offs) ∧ (e = .moreBytes → NnEntry b o' lo pf') := by
  obtain ⟨hlo, hnf, hpos, hS, hI⟩ := hE
  have hsafe := parseNameAddrPVal_safe h b o pf (Or.inr ⟨hnf, hS⟩) hr
  have hok : naOK b o pf := Or.inr ⟨hS.hi, hS.pend, hS.vend⟩
  have hr0 := hr
  unfold parseNameAddrPVal at hr
  rw [if_neg hnf] at hr
  simp only [Prod.mk.injEq] at hr
  have key := runLoop_inv (naMachine h) b
    (fun i st => lo ≤ i ∧ (st.state = .init ∨ 0 < i) ∧ NaSafe b i st ∧ NnInv lo st)
    (fun r => NnDone lo r.2.1 r.2.2)
    (by
      intro i c st i' st' hb hP hs
      have hlt := get?_lt hb
      refine ⟨fun hlt' => ⟨by omega, Or.inr (by omega), na_safeCont h b i c st i' st' hb hP.2.2.1 hs hlt',
        na_nnCont h b i lo c st (by omega) hP.1 hP.2.1 hP.2.2.1 hP.2.2.2 hs⟩, fun _ => ?_⟩
      exact NnDone.err (by intro hh; cases hh) (by intro hh; cases hh) (by intro hh; cases hh))
    (by
      intro i c st o1 e1 st1 hb hP hs
      have hlt := get?_lt hb
      exact naStep_nndone h b i lo c st (by omega) hP.1 hP.2.2.1 hP.2.2.2 hs)
    (by
      intro i st _ hP
      exact NnDone.more hP.2.2.2.saveS)
    o { pf with s := pf.soffs, soffs := 0 } ⟨hlo, hpos, hS, hI⟩
  rcases hrl : runLoop (naMachine h) b o { pf with s := pf.soffs, soffs := 0 } with ⟨o1, e1, p1⟩
  rw [hrl] at key hr
  simp only at key hr
  obtain ⟨rfl, rfl, rfl⟩ := hr
  refine ⟨fun hc => ?_, fun hm => ?_⟩
  · have hk := key.1 hc
    have hx : naExit pf.soffs e1 p1 = { p1 with s := 0 } := by
      unfold naExit
      rcases hc with hc | hc <;> rw [hc] <;> rfl
    rw [hx]
    exact ⟨NaNest.congr (p := p1) rfl rfl rfl rfl rfl hk.1, hk.2⟩
  · subst hm
    have hk := key.2 rfl
    have hI2 : naInv2 b o { pf with s := pf.soffs, soffs := 0 } := ⟨⟨hS.hi, hS.pend, hS.vend⟩, rfl⟩
    have hmi := na_more_inv h b o _ hI2 hnf hrl
    have hps := na_more_pos h b o { pf with s := pf.soffs, soffs := 0 } hpos hrl
    have hrg := parseNameAddrPVal_more_range h b o pf hok hr0
    have hEn := hsafe.2 rfl
    have hx : ({ naExit pf.soffs Err.moreBytes p1 with s := (naExit pf.soffs Err.moreBytes p1).soffs, soffs := 0 } : PFromBody) =
        { p1 with soffs := 0 } := by
      show ({ p1 with s := p1.soffs, soffs := 0 } : PFromBody) = { p1 with soffs := 0 }
      rw [hmi.2.2]
    refine ⟨by omega, hmi.2.1, hps, ?_, ?_⟩
    · rcases hEn with hEn | hEn
      · exact absurd hEn.1 hmi.2.1
      · exact hEn.2
    · rw [hx]; exact hk.soffs 0

/-! ### what `NaNest` says -/

theorem nn_unset {f : PField} (h : f.offs = 0 ∧ f.len = 0) : f = {} := by
  rcases f with ⟨a, l⟩
  obtain ⟨h1, h2⟩ := h
  simp only at h1 h2
  subst h1; subst h2; rfl

/-- **`NaNest`, spelled out** (a field `[offs, offs+len)`; an unset field is `{}` = `⟨0,0⟩`):
    * the URI lies inside the value;
    * the display name, if reported, starts inside the value and ends at or before the start of the URI;
    * the parameter span, if reported, starts at or after the end of the URI, inside the value, and ends exactly
      where the value ends;
    * the tag, if reported, lies inside the parameter span (which is then reported), hence inside the value. -/
theorem NaNest.meaning {pf : PFromBody} (h : NaNest pf) :
    (pf.v.offs ≤ pf.uri.offs ∧ pf.uri.offs + pf.uri.len ≤ pf.v.offs + pf.v.len) ∧
    (pf.name = {} ∨
      (pf.v.offs ≤ pf.name.offs ∧ pf.name.offs + pf.name.len ≤ pf.uri.offs ∧
       pf.name.offs + pf.name.len ≤ pf.v.offs + pf.v.len)) ∧
    (pf.params = {} ∨
      (pf.v.offs ≤ pf.params.offs ∧ pf.uri.offs + pf.uri.len ≤ pf.params.offs ∧
       pf.params.offs + pf.params.len = pf.v.offs + pf.v.len)) ∧
    (pf.tag = {} ∨
      (pf.params ≠ {} ∧ pf.params.offs ≤ pf.tag.offs ∧
       pf.tag.offs + pf.tag.len ≤ pf.params.offs + pf.params.len ∧
       pf.v.offs ≤ pf.tag.offs ∧ pf.tag.offs + pf.tag.len ≤ pf.v.offs + pf.v.len)) := by
  obtain ⟨a1, a2, a3, a4, a5, a6⟩ := h
  refine ⟨⟨a1, a2⟩, ?_, ?_, ?_⟩
  · rcases a3 with a3 | a3
    · exact Or.inl (nn_unset a3)
    · exact Or.inr ⟨a3, a4, by omega⟩
  · rcases a5 with a5 | a5
    · exact Or.inl (nn_unset a5)
    · exact Or.inr ⟨by omega, a5.1, a5.2⟩
  · rcases a6 with a6 | a6
    · exact Or.inl (nn_unset a6)
    · refine Or.inr ⟨?_, a6.2.1, a6.2.2, ?_, ?_⟩
      · intro hp
        have : pf.params.offs = 0 := by rw [hp]
        exact a6.1 this
      · rcases a5 with a5 | a5 <;> omega
      · rcases a5 with a5 | a5 <;> omega

/-- one call on a new object (the form used by the callers that parse a value in one go) -/
theorem parseNameAddrPVal_nest_new (h : Nat) (b : Buf) (o : Nat) (hfit : b.size ≤ 65535) (ho : o ≤ b.size)
    {o' : Nat} {e : Err} {pf' : PFromBody} (hr : parseNameAddrPVal h b o {} = (o', e, pf'))
    (hc : Err.complete e) : NaNest pf' ∧ o ≤ pf'.v.offs :=
  (parseNameAddrPVal_nest h b o o {} hfit (NnEntry_new b o ho) hr).1 hc

/-! ### non-vacuity (tests: closed computations on the model) -/

/-- test input: quoted display name with an escaped quote, URI with its own parameter, three header parameters
    (the tag in the middle), parsed from offset 2 -/
def nnExBuf : Buf := "xx\"Bob \\\" x\" <sip:a@b;x=y>;a=b;tag=xyz;c\r\n\r\n".toUTF8.data

example : (parseNameAddrPVal HdrFrom nnExBuf 2 {}).2.1 = Err.ok := by decide +kernel
example : (parseNameAddrPVal HdrFrom nnExBuf 2 {}).2.2.name = ⟨2, 11⟩ ∧
    (parseNameAddrPVal HdrFrom nnExBuf 2 {}).2.2.uri = ⟨14, 11⟩ ∧
    (parseNameAddrPVal HdrFrom nnExBuf 2 {}).2.2.params = ⟨27, 13⟩ ∧
    (parseNameAddrPVal HdrFrom nnExBuf 2 {}).2.2.tag = ⟨35, 3⟩ ∧
    (parseNameAddrPVal HdrFrom nnExBuf 2 {}).2.2.v = ⟨2, 38⟩ := by decide +kernel

/-- the theorem applies to it (its hypotheses are satisfiable on a non-trivial input) -/
example : NaNest (parseNameAddrPVal HdrFrom nnExBuf 2 {}).2.2 :=
  (parseNameAddrPVal_nest_new HdrFrom nnExBuf 2 (by decide +kernel) (by decide +kernel) rfl
    (Or.inl (by decide +kernel))).1

/-- test: a bare URI with parameters after white space, closed by a comma (MoreValues) -/
example : (parseNameAddrPVal HdrContact "sip:a@b ;tag=1 , <sip:c>\r\n\r\n".toUTF8.data 0 {}).2.1 = Err.moreValues ∧
    (parseNameAddrPVal HdrContact "sip:a@b ;tag=1 , <sip:c>\r\n\r\n".toUTF8.data 0 {}).2.2.params = ⟨9, 5⟩ ∧
    (parseNameAddrPVal HdrContact "sip:a@b ;tag=1 , <sip:c>\r\n\r\n".toUTF8.data 0 {}).2.2.tag = ⟨13, 1⟩ ∧
    (parseNameAddrPVal HdrContact "sip:a@b ;tag=1 , <sip:c>\r\n\r\n".toUTF8.data 0 {}).2.2.v = ⟨0, 14⟩ := by
  decide +kernel

/-- test (behaviour of the code, not a theorem about trimming): after `;tag=` + white space + "," the value and the
    parameter span run up to the comma, i.e. include the white space (byte 18); the empty second `tag` keeps the first -/
example : (parseNameAddrPVal HdrContact "sip:a@b;tag=1;tag= ,x\r\n\r\n".toUTF8.data 0 {}).2.1 = Err.moreValues ∧
    (parseNameAddrPVal HdrContact "sip:a@b;tag=1;tag= ,x\r\n\r\n".toUTF8.data 0 {}).2.2.v = ⟨0, 19⟩ ∧
    (parseNameAddrPVal HdrContact "sip:a@b;tag=1;tag= ,x\r\n\r\n".toUTF8.data 0 {}).2.2.params = ⟨8, 11⟩ ∧
    (parseNameAddrPVal HdrContact "sip:a@b;tag=1;tag= ,x\r\n\r\n".toUTF8.data 0 {}).2.2.tag = ⟨12, 1⟩ := by
  decide +kernel

/-- test: `*` — the URI field is the value itself -/
example : (parseNameAddrPVal HdrContact " * \r\n\r\n".toUTF8.data 0 {}).2.1 = Err.ok ∧
    (parseNameAddrPVal HdrContact " * \r\n\r\n".toUTF8.data 0 {}).2.2.uri = ⟨1, 1⟩ ∧
    (parseNameAddrPVal HdrContact " * \r\n\r\n".toUTF8.data 0 {}).2.2.v = ⟨1, 1⟩ := by decide +kernel


/-! ### Contact / P-Asserted-Identity value lists: every stored value is nested -/

/-- every stored value of a contact list is nested -/
def CtNn (c : PContacts) : Prop := ∀ k, k < c.n → k < c.vals.size → NaNest c.vals[k]!

theorem contactsLoop_nn (b : Buf) (offs : Nat) (c : PContacts) (hfit : b.size ≤ 65535) (ho : offs ≤ b.size)
    (hcl : CtClean c) (hcur : c.cur = {}) (h : CtNn c) : CtNn (contactsLoop b offs c).2.2 := by
  induction hk : b.size - offs using Nat.strongRecOn generalizing offs c with
  | _ k ih =>
    rw [contactsLoop]
    rcases hp : parseOneContact b offs c.cur with ⟨next, e1, pf⟩
    have hvd : Err.complete e1 → NaNest pf := fun hc =>
      (parseNameAddrPVal_nest_new HdrContact b offs hfit ho (by rw [hcur] at hp; exact hp) hc).1
    have hset : CtNn (c.setCur pf) := fun k hk hsz => by
      rw [setCur_n] at hk; rw [setCur_size] at hsz
      rw [setCur_vals_ne c pf k (by omega)]; exact h k hk hsz
    have hacc : Err.complete e1 → CtNn ((c.setCur pf).account pf) := by
      intro hc k hk hsz
      rw [account_n, setCur_n] at hk
      rw [account_vals, setCur_size] at hsz
      rw [account_vals]
      exact setCur_storedP NaNest c pf h (hvd hc) k hk hsz
    cases e1 <;> simp only
    case ok => exact hacc (Or.inl rfl)
    case moreValues =>
      have hnx : (if c.n < c.vals.size then (c.setCur pf).account pf
          else { (c.setCur pf).account pf with last := {} }) = c.next pf := rfl
      rw [hnx]
      have hcl' := next_clean c pf hcl
      have hL : CtNn (c.next pf) := by
        have := hacc (Or.inr rfl)
        unfold PContacts.next; split
        · exact this
        · exact this
      by_cases hg : offs < next ∧ next ≤ b.size
      · rw [if_pos hg]
        exact ih (b.size - next) (by omega) next (c.next pf) hg.2 hcl'.1 hcl'.2 hL rfl
      · rw [if_neg hg]; exact hL
    case moreBytes => exact hset
    all_goals
      split
      · exact hset
      · exact h

/-- **Contact**: parsing the value list of a new Contact header line keeps / makes every stored value nested -/
theorem parseAllContactValues_new_nn (b : Buf) (o : Nat) (c : PContacts) (k : Nat) (hfit : b.size ≤ 65535)
    (ho : o ≤ b.size) (hI : CtIdle b c) (hst : CtNn c) :
    CtNn (parseAllContactValues b o { c with hNo := k, lastHVal := {} }).2.2 := by
  rw [parseAllContactValues_eq_wrap, bump_wrap]
  obtain ⟨a1, a2, _⟩ := wrap_scalars c
  exact contactsLoop_nn b o _ hfit ho hI.clean hI.cur (fun j hj hsz => by
      have hj' : j < c.wrap.n := hj
      have hsz' : j < c.wrap.vals.size := hsz
      rw [a1] at hj'; rw [a2] at hsz'
      show NaNest c.wrap.vals[j]!
      rw [a2]; exact hst j hj' hsz')

/-- every stored identity is nested -/
def PaNn (c : PPAIs) : Prop := ∀ k, k < c.n → k < c.vals.size → NaNest c.vals[k]!

theorem paisLoop_nn (b : Buf) (offs : Nat) (c : PPAIs) (hfit : b.size ≤ 65535) (ho : offs ≤ b.size)
    (hcl : PaClean c) (hcur : c.cur = {}) (h : PaNn c) : PaNn (paisLoop b offs c).2.2 := by
  induction hk : b.size - offs using Nat.strongRecOn generalizing offs c with
  | _ k ih =>
    rw [paisLoop]
    rcases hp : parseOnePAI b offs c.cur with ⟨next, e1, pf⟩
    obtain ⟨e0, hp0, hok0, hmv0, _⟩ := parseOnePAI_under b offs c.cur hp
    have hvd : Err.complete e0 → NaNest pf := fun hc =>
      (parseNameAddrPVal_nest_new HdrPAI b offs hfit ho (by rw [hcur] at hp0; exact hp0) hc).1
    have hset : PaNn (c.setCur pf) := fun k hk hsz => by
      rw [paSetCur_n] at hk; rw [paSetCur_size] at hsz
      rw [paSetCur_vals_ne c pf k (by omega)]; exact h k hk hsz
    have hacc : Err.complete e0 → PaNn ((c.setCur pf).account pf) := by
      intro hc k hk hsz
      rw [paAccount_n, paSetCur_n] at hk
      rw [paAccount_vals, paSetCur_size] at hsz
      rw [paAccount_vals]
      exact paSetCur_storedP NaNest c pf h (hvd hc) k hk hsz
    cases e1 <;> simp only
    case ok => exact hacc (Or.inl (hok0 rfl))
    case moreValues =>
      have hnx : (if c.n < c.vals.size then (c.setCur pf).account pf
          else { (c.setCur pf).account pf with last := {} }) = c.next pf := rfl
      rw [hnx]
      have hcl' := paNext_clean c pf hcl
      have hL : PaNn (c.next pf) := by
        have := hacc (Or.inr (hmv0 rfl))
        unfold PPAIs.next; split
        · exact this
        · exact this
      by_cases hg : offs < next ∧ next ≤ b.size
      · rw [if_pos hg]
        exact ih (b.size - next) (by omega) next (c.next pf) hg.2 hcl'.1 hcl'.2 hL rfl
      · rw [if_neg hg]; exact hL
    case moreBytes => exact hset
    all_goals
      split
      · exact hset
      · exact h

/-- **P-Asserted-Identity** -/
theorem parseAllPAIValues_new_nn (b : Buf) (o : Nat) (c : PPAIs) (k : Nat) (hfit : b.size ≤ 65535)
    (ho : o ≤ b.size) (hI : PaIdle b c) (hst : PaNn c) :
    PaNn (parseAllPAIValues b o { c with hNo := k, lastHVal := {} }).2.2 := by
  rw [parseAllPAIValues_eq_wrap, paBump_wrap]
  obtain ⟨a1, a2, _⟩ := paWrap_scalars c
  exact paisLoop_nn b o _ hfit ho hI.clean hI.cur (fun j hj hsz => by
      have hj' : j < c.wrap.n := hj
      have hsz' : j < c.wrap.vals.size := hsz
      rw [a1] at hj'; rw [a2] at hsz'
      show NaNest c.wrap.vals[j]!
      rw [a2]; exact hst j hj' hsz')

/-! ### the header-value dispatch, the header line, the header block, the message -/

/-- **nesting of the name-addr header values of a message**: From and To are untouched (`{}`: no such header yet) or
    finished and nested (`NaNest`); every stored Contact and P-Asserted-Identity value is nested -/
structure HvNn (hv : PHdrVals) : Prop where
  from_ : hv.from_ = {} ∨ (hv.from_.state = .fin ∧ NaNest hv.from_)
  to : hv.to = {} ∨ (hv.to.state = .fin ∧ NaNest hv.to)
  ct : CtNn hv.contacts
  pa : PaNn hv.pais

def HbNn (hb : Option PHdrVals) : Prop := ∀ hv, hb = some hv → HvNn hv

theorem parseBody_nn (b : Buf) (o : Nat) (h : Hdr) (hv : PHdrVals) (hfit : b.size ≤ 65535)
    (ho : o ≤ b.size) (hst : h.state = .bodyStart) (hct : CtIdle b hv.contacts)
    (hpa : PaIdle b hv.pais) (N : HvNn hv) {n : Nat} {e : Err} {h2 : Hdr} {hb2 : Option PHdrVals}
    (hr : parseBody b o h (some hv) = (n, e, h2, hb2)) : e = .ok → HbNn hb2 := by
  have hskip : ∀ {n : Nat} {e : Err} {h2 : Hdr} {hb2 : Option PHdrVals},
      (o, Err.ok, h, some hv) = (n, e, h2, hb2) → e = .ok → HbNn hb2 := by
    intro n e h2 hb2 hh _
    simp only [Prod.mk.injEq] at hh
    obtain ⟨rfl, rfl, rfl, rfl⟩ := hh
    intro hv' hq; cases hq; exact N
  unfold parseBody parseFromVal at hr
  simp only at hr
  by_cases h_from_ : (h.type == HdrFrom) = true
  · simp only [h_from_, ↓reduceIte] at hr
    by_cases hp : (!hv.from_.parsed) = true
    · simp only [hp, ↓reduceIte] at hr
      rcases hq : parseNameAddrPVal HdrFrom b o hv.from_ with ⟨n1, e1, f1⟩
      rw [hq] at hr; simp only [Prod.mk.injEq] at hr
      obtain ⟨rfl, rfl, rfl, rfl⟩ := hr
      intro he hv' hh; cases hh
      subst he
      have hnf : hv.from_.state ≠ .fin := by simpa [PFromBody.parsed] using hp
      have h0 : hv.from_ = {} := by rcases N.from_ with q | q; exact q; exact absurd q.1 hnf
      rw [h0] at hq
      have hN := (parseNameAddrPVal_nest_new HdrFrom b o hfit ho hq (Or.inl rfl)).1
      have hfin := (parseNameAddrPVal_post HdrFrom b o {} hq (Or.inl rfl)).1
      exact ⟨Or.inr ⟨hfin, hN⟩, N.to, N.ct, N.pa⟩
    · simp only [hp, Bool.false_eq_true, ↓reduceIte] at hr
      exact hskip hr
  simp only [h_from_, Bool.false_eq_true, ↓reduceIte] at hr
  by_cases h_to : (h.type == HdrTo) = true
  · simp only [h_to, ↓reduceIte] at hr
    by_cases hp : (!hv.to.parsed) = true
    · simp only [hp, ↓reduceIte] at hr
      rcases hq : parseNameAddrPVal HdrTo b o hv.to with ⟨n1, e1, f1⟩
      rw [hq] at hr; simp only [Prod.mk.injEq] at hr
      obtain ⟨rfl, rfl, rfl, rfl⟩ := hr
      intro he hv' hh; cases hh
      subst he
      have hnf : hv.to.state ≠ .fin := by simpa [PFromBody.parsed] using hp
      have h0 : hv.to = {} := by rcases N.to with q | q; exact q; exact absurd q.1 hnf
      rw [h0] at hq
      have hN := (parseNameAddrPVal_nest_new HdrTo b o hfit ho hq (Or.inl rfl)).1
      have hfin := (parseNameAddrPVal_post HdrTo b o {} hq (Or.inl rfl)).1
      exact ⟨N.from_, Or.inr ⟨hfin, hN⟩, N.ct, N.pa⟩
    · simp only [hp, Bool.false_eq_true, ↓reduceIte] at hr
      exact hskip hr
  simp only [h_to, Bool.false_eq_true, ↓reduceIte] at hr
  by_cases h_callid : (h.type == HdrCallID) = true
  · simp only [h_callid, ↓reduceIte] at hr
    by_cases hp : (!hv.callid.parsed) = true
    · simp only [hp, ↓reduceIte] at hr
      rcases hq : parseCallIDVal b o hv.callid with ⟨n1, e1, f1⟩
      rw [hq] at hr; simp only [Prod.mk.injEq] at hr
      obtain ⟨rfl, rfl, rfl, rfl⟩ := hr
      intro _ hv' hh; cases hh
      exact ⟨N.from_, N.to, N.ct, N.pa⟩
    · simp only [hp, Bool.false_eq_true, ↓reduceIte] at hr
      exact hskip hr
  simp only [h_callid, Bool.false_eq_true, ↓reduceIte] at hr
  by_cases h_cseq : (h.type == HdrCSeq) = true
  · simp only [h_cseq, ↓reduceIte] at hr
    by_cases hp : (!hv.cseq.parsed) = true
    · simp only [hp, ↓reduceIte] at hr
      rcases hq : parseCSeqVal b o hv.cseq with ⟨n1, e1, f1⟩
      rw [hq] at hr; simp only [Prod.mk.injEq] at hr
      obtain ⟨rfl, rfl, rfl, rfl⟩ := hr
      intro _ hv' hh; cases hh
      exact ⟨N.from_, N.to, N.ct, N.pa⟩
    · simp only [hp, Bool.false_eq_true, ↓reduceIte] at hr
      exact hskip hr
  simp only [h_cseq, Bool.false_eq_true, ↓reduceIte] at hr
  by_cases h_clen : (h.type == HdrCLen) = true
  · simp only [h_clen, ↓reduceIte] at hr
    by_cases hp : (!hv.clen.parsed) = true
    · simp only [hp, ↓reduceIte] at hr
      rcases hq : parseCLenVal b o hv.clen with ⟨n1, e1, f1⟩
      rw [hq] at hr; simp only [Prod.mk.injEq] at hr
      obtain ⟨rfl, rfl, rfl, rfl⟩ := hr
      intro _ hv' hh; cases hh
      exact ⟨N.from_, N.to, N.ct, N.pa⟩
    · simp only [hp, Bool.false_eq_true, ↓reduceIte] at hr
      exact hskip hr
  simp only [h_clen, Bool.false_eq_true, ↓reduceIte] at hr
  by_cases h_contacts : (h.type == HdrContact) = true
  · simp only [h_contacts, ↓reduceIte] at hr
    have hc0 : (if h.state != .hContact then { hv.contacts with hNo := hv.contacts.hNo + 1, lastHVal := {} } else hv.contacts) =
        { hv.contacts with hNo := hv.contacts.hNo + 1, lastHVal := {} } := by rw [hst]; rfl
    rw [hc0] at hr
    have hS := parseAllContactValues_new_nn b o hv.contacts (hv.contacts.hNo + 1) hfit ho hct N.ct
    rcases hq : parseAllContactValues b o { hv.contacts with hNo := hv.contacts.hNo + 1, lastHVal := {} } with ⟨n1, e1, f1⟩
    rw [hq] at hr hS; simp only [Prod.mk.injEq] at hr
    obtain ⟨rfl, rfl, rfl, rfl⟩ := hr
    intro _ hv' hh; cases hh
    exact ⟨N.from_, N.to, hS, N.pa⟩
  simp only [h_contacts, Bool.false_eq_true, ↓reduceIte] at hr
  by_cases h_expires : (h.type == HdrExpires) = true
  · simp only [h_expires, ↓reduceIte] at hr
    by_cases hp : (!hv.expires.parsed) = true
    · simp only [hp, ↓reduceIte] at hr
      rcases hq : parseUIntVal b o hv.expires with ⟨n1, e1, f1⟩
      rw [hq] at hr; simp only [Prod.mk.injEq] at hr
      obtain ⟨rfl, rfl, rfl, rfl⟩ := hr
      intro _ hv' hh; cases hh
      exact ⟨N.from_, N.to, N.ct, N.pa⟩
    · simp only [hp, Bool.false_eq_true, ↓reduceIte] at hr
      exact hskip hr
  simp only [h_expires, Bool.false_eq_true, ↓reduceIte] at hr
  by_cases h_pais : (h.type == HdrPAI) = true
  · simp only [h_pais, ↓reduceIte] at hr
    have hc0 : (if h.state != .hPAI then { hv.pais with hNo := hv.pais.hNo + 1, lastHVal := {} } else hv.pais) =
        { hv.pais with hNo := hv.pais.hNo + 1, lastHVal := {} } := by rw [hst]; rfl
    rw [hc0] at hr
    have hS := parseAllPAIValues_new_nn b o hv.pais (hv.pais.hNo + 1) hfit ho hpa N.pa
    rcases hq : parseAllPAIValues b o { hv.pais with hNo := hv.pais.hNo + 1, lastHVal := {} } with ⟨n1, e1, f1⟩
    rw [hq] at hr hS; simp only [Prod.mk.injEq] at hr
    obtain ⟨rfl, rfl, rfl, rfl⟩ := hr
    intro _ hv' hh; cases hh
    exact ⟨N.from_, N.to, N.ct, hS⟩
  simp only [h_pais, Bool.false_eq_true, ↓reduceIte] at hr
  exact hskip hr

/-- the two halves of the header-line invariant used here: the header values are nested (`S`); a line that ends
    with OK or "empty line" leaves them nested (`T`) -/
def HlNnS : Nat → HLσ → Prop := fun _ st => HbNn st.2
def HlNnT : Nat → Err → HLσ → Prop := fun _ e st => e = .ok ∨ e = .empty → HbNn st.2

theorem HlNnT.err {n : Nat} {e : Err} {st : HLσ} (h1 : e ≠ .ok) (h2 : e ≠ .empty) : HlNnT n e st :=
  fun hh => by rcases hh with hh | hh; exact absurd hh h1; exact absurd hh h2

theorem hlAfterColon_nn (b : Buf) (i s : Nat) (h : Hdr) (hb : Option PHdrVals) (hfit : b.size ≤ 65535)
    (hsi : s ≤ i) (hi : i ≤ b.size) (hst : h.state = .bodyStart) (hH : HbLo b s hb) (G : HbNn hb) :
    StepAll2 HlNnS HlNnT (hlAfterColon b i h hb) := by
  unfold hlAfterColon
  split
  · exact HlNnT.err (n := i) (by decide) (by decide)
  · rename_i nm _
    simp only
    cases hb with
    | none =>
      have : parseBody b i { h with type := getHdrType nm } none = (i, .ok, { h with type := getHdrType nm }, none) := by
        unfold parseBody; rfl
      rw [this]
      have hne : ((({ h with type := getHdrType nm } : Hdr).state != HState.bodyStart) = true) = False := by
        show ((h.state != HState.bodyStart) = true) = False
        rw [hst]; simp
      simp only [hne, ↓reduceIte]
      exact G
    | some hv =>
      obtain ⟨L, hct, hpa⟩ := hH hv rfl
      rcases hp : parseBody b i { h with type := getHdrType nm } (some hv) with ⟨n, e, h2, hb2⟩
      obtain ⟨hv2, rfl, _, hskip, _⟩ :=
        parseBody_lo b i s { h with type := getHdrType nm } hv hfit hsi hi hst L hct hpa hp
      have hN := parseBody_nn b i { h with type := getHdrType nm } hv hfit hi hst hct hpa (G hv rfl) hp
      simp only
      by_cases hs2 : h2.state = .bodyStart
      · obtain ⟨rfl, _, _⟩ := hskip hs2
        have hne : ((h2.state != HState.bodyStart) = true) = False := by rw [hs2]; simp
        simp only [hne, ↓reduceIte]
        exact hN rfl
      · have hne1 : (h2.state != HState.bodyStart) = true := by simpa using hs2
        simp only [hne1, ↓reduceIte]
        have hne : e ≠ .empty := by
          have := parseBody_ne_empty b i { h with type := getHdrType nm } (some hv)
          rw [hp] at this; exact this
        intro he
        rcases he with he | he
        · exact hN he
        · exact absurd he hne

theorem hlName_nn (b : Buf) (i s : Nat) (h : Hdr) (hb : Option PHdrVals) (hfit : b.size ≤ 65535)
    (hsi : s ≤ i) (hH : HbLo b s hb) (G : HbNn hb) : StepAll2 HlNnS HlNnT (hlName b i h hb) := by
  have hge := skipTokenDelim_ge b i 58
  unfold hlName
  simp only
  split
  · exact HlNnT.err (n := 0) (by decide) (by decide)
  · rename_i c hj
    have hjl := get?_lt hj
    split
    · split
      · exact HlNnT.err (n := 0) (by decide) (by decide)
      · exact G
    · split
      · split
        · exact HlNnT.err (n := 0) (by decide) (by decide)
        · exact hlAfterColon_nn b _ s _ hb hfit (by omega) (by omega) rfl hH G
      · exact HlNnT.err (n := 0) (by decide) (by decide)

theorem hlValEnd_nn (b : Buf) (i : Nat) (h : Hdr) (hb : Option PHdrVals) (G : HbNn hb) :
    StepAll2 HlNnS HlNnT (hlValEnd b i h hb) := by
  unfold hlValEnd
  rcases hsk : skipLWS b i 0 with ⟨n, crl, e⟩
  cases e <;> simp only
  case ok => exact G
  all_goals exact fun _ => G

theorem hlStep_nn (b : Buf) (i o s : Nat) (c : UInt8) (st : HLσ) (hfit : b.size ≤ 65535) (hso : s ≤ o)
    (hb : b[i]? = some c) (H : HlLoI b o s i st) (G : HbNn st.2) : StepAll2 HlNnS HlNnT (hlStep b i c st) := by
  obtain ⟨h, hv⟩ := st
  have hlt := get?_lt hb
  have hoi : o ≤ i := H.oi
  have hH : HbLo b s hv := H.hb
  have hempty : ∀ n, HlNnT n .empty ({ h with state := .fin }, hv) := fun n _ => G
  unfold hlStep
  simp only
  cases hst : h.state <;> simp only
  case init =>
    split
    · split
      · exact HlNnT.err (n := 0) (by decide) (by decide)
      · split
        · exact hempty 0
        · exact hempty 0
    · split
      · exact hempty 0
      · exact hlName_nn b i s _ hv hfit (by omega) hH G
  case name => exact hlName_nn b i s h hv hfit (by omega) hH G
  case nameEnd =>
    have hge := skipWS_ge b i
    split
    · exact HlNnT.err (n := 0) (by decide) (by decide)
    · rename_i c1 hj
      have hjl := get?_lt hj
      split
      · exact hlAfterColon_nn b _ s _ hv hfit (by omega) (by omega) rfl hH G
      · exact HlNnT.err (n := 0) (by decide) (by decide)
  case bodyStart =>
    rcases hsk : skipLWS b i 0 with ⟨n, crl, e⟩
    cases e <;> simp only
    case ok => exact G
    all_goals exact fun _ => G
  case val =>
    split
    · exact HlNnT.err (n := 0) (by decide) (by decide)
    · exact hlValEnd_nn b _ _ hv G
  case valEnd => exact hlValEnd_nn b i h hv G
  all_goals
    (exfalso
     have := H.gen
     simp only [hst] at this
     rcases this with hh | hh | hh | hh | hh | hh <;> cases hh)

theorem StepAll2.and {σ : Type} {S1 S2 : Nat → σ → Prop} {T1 T2 : Nat → Err → σ → Prop} {r : Step σ}
    (h1 : StepAll2 S1 T1 r) (h2 : StepAll2 S2 T2 r) :
    StepAll2 (fun i st => S1 i st ∧ S2 i st) (fun n e st => T1 n e st ∧ T2 n e st) r := by
  cases r with
  | cont i st => exact ⟨h1, h2⟩
  | done o e st => exact ⟨h1, h2⟩

/-- **header line**: ParseHdrLine on a new header keeps / makes the name-addr header values nested (same
    hypotheses as `parseHdrLine_lo`) -/
theorem parseHdrLine_nn (b : Buf) (o s : Nat) (h : Hdr) (hb : Option PHdrVals) (hfit : b.size ≤ 65535) (hso : s ≤ o)
    (hst : h.state = .init) (hval : h.val.len = 0) (hH : HbLo b s hb) (G : HbNn hb)
    {o' : Nat} {e : Err} {h' : Hdr} {hb' : Option PHdrVals} (hr : parseHdrLine b o h hb = (o', e, h', hb')) :
    e = .ok ∨ e = .empty → HbNn hb' := by
  unfold parseHdrLine at hr
  rcases hrl : runLoop hlMachine b o (h, hb) with ⟨o1, e1, h1, hb1⟩
  rw [hrl] at hr
  simp only [Prod.mk.injEq] at hr
  obtain ⟨rfl, rfl, rfl, rfl⟩ := hr
  have := runLoop_safe2 hlMachine b (fun i st => HlLoI b o s i st ∧ HlNnS i st)
    (fun n e st => HlLoQ o s n e st ∧ HlNnT n e st) hl_progress
    (fun i c st hb' hS => (hlStep_lo b i o s c st hfit hso hb' hS.1).and (hlStep_nn b i o s c st hfit hso hb' hS.1 hS.2))
    (fun i st _ => ⟨⟨(fun hh => by cases hh), (fun hh => by rcases hh with hh | hh <;> cases hh)⟩,
      (fun hh => by rcases hh with hh | hh <;> cases hh)⟩) o (h, hb)
    ⟨⟨Nat.le_refl _, hH, Or.inl hst, (fun _ => ⟨rfl, hval⟩), (fun hh => by rw [hst] at hh; cases hh),
     (fun hh => by rw [hst] at hh; rcases hh with hh | hh <;> cases hh),
     (fun hh => by rw [hst] at hh; rcases hh with hh | hh <;> cases hh)⟩, G⟩
  rw [hrl] at this
  exact this.2

/-- **header block**: ParseHeaders (same hypotheses as `parseHeaders_lo`) keeps / makes the name-addr header values
    nested -/
theorem parseHeaders_nn (b : Buf) (offs s : Nat) (hl : HdrLst) (hb : Option PHdrVals) (hfit : b.size ≤ 65535)
    (hok1 : hlsOK b hl) (hok2 : hbOK b offs hb) (hpe : hlsPend hl hb) (ho : offs ≤ b.size)
    (H : HlsSafe b offs hl hb) (hso : s ≤ offs) (hcur : hl.cur = {}) (L : HlsLo s hl)
    (LV : ∀ hv, hb = some hv → HvLo s hv) (G : HbNn hb) :
    (parseHeaders b offs hl hb).2.1 = .ok → HbNn (parseHeaders b offs hl hb).2.2.2 := by
  induction hk : b.size - offs using Nat.strongRecOn generalizing offs hl hb with
  | _ k ih =>
    rw [parseHeaders.eq_1 b offs hl hb]
    by_cases hlt : offs < b.size
    · rw [if_pos hlt]
      have hI : hlOK b offs hl.cur hb := ⟨by omega, hlsOK_cur hok1, hok2⟩
      rcases hp1 : parseHdrLine b offs hl.cur hb with ⟨n1, e1, g1, v1⟩
      obtain ⟨hO, hS, hF, hN, hE⟩ := parseHdrLine_safe b offs hl.cur hb hfit H.cur hI hp1
      have hHb : HbLo b s hb := by
        intro hv hh
        have Hv := H.cur.hv hv hh
        rw [hcur] at Hv
        exact ⟨LV hv hh, Hv.ctI (fun hq => by cases hq), Hv.paI (fun hq => by cases hq)⟩
      obtain ⟨lo1, lo2⟩ := parseHdrLine_lo b offs s hl.cur hb hfit hso (by rw [hcur]) (by rw [hcur]) hHb hp1
      have nn2 := parseHdrLine_nn b offs s hl.cur hb hfit hso (by rw [hcur]) (by rw [hcur]) hHb G hp1
      cases e1 <;> simp only
      case ok =>
        have hpost := parseHdrLine_post b offs hl.cur hb hI hp1 (Or.inl rfl)
        have hg : offs < n1 := parseHdrLine_ok_gt b offs hl.cur hb hI hpe.1 hp1
        rw [if_pos hg]
        exact ih (b.size - n1) (by omega) n1 _ v1 (hlsOK_next g1 hok1) hpost.2
          (hlsPend_next g1 v1 hpe) hpost.1 (H.next g1 (hS (Or.inl rfl)) (hF rfl) (by omega)) (by omega)
          (flo_next_cur hl g1 H.clean) (L.next H.inn g1 (lo1 rfl) hso) (lo2 (Or.inl rfl)) (nn2 (Or.inl rfl)) rfl
      case empty =>
        split
        · intro _; exact nn2 (Or.inr rfl)
        · intro hh; cases hh
      all_goals (intro hh; cases hh)
    · rw [if_neg hlt]
      intro hh; cases hh

/-- **message, one call from the initial state** (same hypotheses as `parseSIPMsg_lo`): after a successful
    ParseSIPMsg the From and To values (if such headers were seen) and every stored Contact and
    P-Asserted-Identity value are nested -/
theorem parseSIPMsg_nn (b : Buf) (o : Nat) (m : PSIPMsg) (flags : Nat) (hfit : b.size ≤ 65535)
    (hok : msgOK2 b o m) (H : MsgSafe b o m) (hst : m.state = .init) (hcur : m.hl.cur = {}) (L : MsgLo o m)
    (G : HvNn m.pv) {o' : Nat} {m' : PSIPMsg} (hr : parseSIPMsg b o m flags = (o', .ok, m')) : HvNn m'.pv := by
  obtain ⟨ho, _, hrest⟩ := hok
  obtain ⟨hls, hvs, hpe⟩ := hrest (by rw [hst]; decide)
  have h1 : parseSIPMsg b o m flags = msgFLine b o { m with offs := o, state := .fline } flags := by
    unfold parseSIPMsg; rw [hst]
  rw [h1] at hr
  unfold msgFLine at hr
  simp only at hr
  have hF := parseFLine_safe b o m.fl hfit (H.flS (Or.inl hst))
  have hge := parseFLine_ge b o m.fl
  rcases hp : parseFLine b o m.fl with ⟨o1, e1, fl1⟩
  rw [hp] at hr hF hge
  simp only at hF hge
  cases e1 <;> simp only at hr
  case ok =>
    rw [msgHeaders_eq] at hr
    simp only at hr
    have hHls : HlsSafe b o1 m.hl (some m.pv) := (H.hls (Or.inl hst)).mono hge hF.ho
    have hNn := parseHeaders_nn b o1 o m.hl (some m.pv) hfit hls (hvOK_mono hvs hge hF.ho) hpe hF.ho hHls hge hcur L.hl
      (fun hv hh => by cases hh; exact L.pv) (fun hv hh => by cases hh; exact G)
    have hsome := parseHeaders_isSome b o1 m.hl m.pv
    rcases hp2 : parseHeaders b o1 m.hl (some m.pv) with ⟨o2, e2, hl2, hb2⟩
    rw [hp2] at hr hNn hsome
    cases hb2 with
    | none => cases hsome
    | some pv2 =>
      unfold afterHeaders at hr
      cases e2 <;> simp only [Option.getD_some] at hr
      case ok =>
        obtain ⟨k1, k2, k3⟩ := flo_msgBody_keeps b o2 { m with offs := o, fl := fl1, hl := hl2, pv := pv2, state := .body } flags
        rw [hr] at k1 k2 k3
        rw [k3]; exact hNn rfl pv2 rfl
      all_goals (exfalso; have hq := congrArg (fun r => r.2.1) hr; simp only at hq; exact flo_msgErr_ne_ok _ _ _ _ (by decide) hq)
  all_goals (exfalso; have hq := congrArg (fun r => r.2.1) hr; simp only at hq; exact flo_msgErr_ne_ok _ _ _ _ (by decide) hq)

theorem HvNn_new (k : Nat) : HvNn ({ contacts := { vals := Array.replicate k {} } } : PHdrVals) :=
  ⟨Or.inl rfl, Or.inl rfl, (fun j hj _ => by cases hj), (fun j hj _ => by cases hj)⟩

theorem HvNn_init (m : PSIPMsg) (len kh kc : Nat) (hdrs : Option Unit) (cts : Option Unit) :
    HvNn (m.init len (hdrs.map fun _ => Array.replicate kh {}) (cts.map fun _ => Array.replicate kc {})).pv := by
  have key : ∀ k k', HvNn (initObj len k k').pv := fun k k' => HvNn_new k'
  cases hdrs <;> cases cts
  · exact key 10 10
  · exact key 10 kc
  · exact key kh 10
  · exact key kh kc

/-- **message, one call on an object produced by Init** (any previous contents, caller arrays of any capacity or
    none; buffers within the 65,535-byte limit) -/
theorem parseSIPMsg_nn_init (b : Buf) (o : Nat) (m0 : PSIPMsg) (len kh kc : Nat) (hdrs cts : Option Unit) (flags : Nat)
    (hfit : b.size ≤ 65535) (ho : o ≤ b.size) {o' : Nat} {m' : PSIPMsg}
    (hr : parseSIPMsg b o (m0.init len (hdrs.map fun _ => Array.replicate kh {}) (cts.map fun _ => Array.replicate kc {}))
      flags = (o', .ok, m')) : HvNn m'.pv := by
  obtain ⟨q1, q2, q3⟩ := MsgLo_init o m0 len kh kc hdrs cts
  exact parseSIPMsg_nn b o _ flags hfit (msgOK2_init b o ho m0 len kh kc hdrs cts)
    (MsgSafe_init b o ho m0 len kh kc hdrs cts) q3 q2 q1 (HvNn_init m0 len kh kc hdrs cts) hr

/-- **message, under every chunk schedule, from Init**: if the chain of resumed calls over growing prefixes ends
    with OK, the name-addr header values of the final object are nested -/
theorem parseSIPMsg_nn_schedule_init (flags : Nat) (o : Nat) (m0 : PSIPMsg) (len kh kc : Nat) (hdrs cts : Option Unit)
    (l : List Buf) (hg : Growing l) (hfit : ∀ x ∈ l, x.size ≤ 65535) (hne : l ≠ []) (ho : ∀ b ∈ l, o ≤ b.size)
    {o' : Nat} {m' : PSIPMsg}
    (hr : resumeRun (C01.msgP flags) o
      (m0.init len (hdrs.map fun _ => Array.replicate kh {}) (cts.map fun _ => Array.replicate kc {})) l = (o', .ok, m')) :
    HvNn m'.pv := by
  obtain ⟨b, hb, h⟩ := flo_schedule_init flags o m0 len kh kc hdrs cts l hg hfit hne ho hr
  exact parseSIPMsg_nn_init b o m0 len kh kc hdrs cts flags (hfit b hb) (ho b hb) h

/-- **`HvNn`, spelled out** with `NaNest.meaning`: for From, To (unless untouched) and each stored Contact /
    P-Asserted-Identity value `p`: URI inside `p.v`; display name (if any) inside `p.v` and before the URI; parameter
    span (if any) after the URI, inside `p.v`, ending where `p.v` ends; tag (if any) inside the parameter span -/
theorem HvNn.meaning {hv : PHdrVals} (h : HvNn hv) :
    (hv.from_ = {} ∨ NaNest hv.from_) ∧ (hv.to = {} ∨ NaNest hv.to) ∧
    (∀ k, k < hv.contacts.n → k < hv.contacts.vals.size → NaNest hv.contacts.vals[k]!) ∧
    (∀ k, k < hv.pais.n → k < hv.pais.vals.size → NaNest hv.pais.vals[k]!) :=
  ⟨h.from_.imp id (fun q => q.2), h.to.imp id (fun q => q.2), h.ct, h.pa⟩

/-! #### non-vacuity at the message level (tests: closed computations on the model) -/

/-- test message, parsed from offset 2: quoted display name with an escaped quote, URI parameter, three From
    parameters (tag in the middle), bare-URI To with a parameter after white space, a Contact line with two values,
    one identity -/
def nnExMsg : Buf := "xxINVITE sip:a@b SIP/2.0\r\nFrom: \"A \\\" b\" <sip:a@b;x=1>;p=q;tag=1a;z\r\nTo: sip:c@d ;tag=zz\r\nCall-ID: x\r\nCSeq: 1 INVITE\r\nContact: <sip:u@h>;expires=5 , \"N\" <sip:v@h>;q=0.5\r\nP-Asserted-Identity: <sip:i@h>\r\nContent-Length: 0\r\n\r\n".toUTF8.data

example : (parseSIPMsg nnExMsg 2 C01.exInit 0).2.1 = Err.ok ∧
    (parseSIPMsg nnExMsg 2 C01.exInit 0).2.2.pv.contacts.n = 2 ∧
    (parseSIPMsg nnExMsg 2 C01.exInit 0).2.2.pv.pais.n = 1 ∧
    (parseSIPMsg nnExMsg 2 C01.exInit 0).2.2.pv.from_.v = ⟨32, 35⟩ ∧
    (parseSIPMsg nnExMsg 2 C01.exInit 0).2.2.pv.from_.params = ⟨55, 12⟩ ∧
    (parseSIPMsg nnExMsg 2 C01.exInit 0).2.2.pv.from_.tag = ⟨63, 2⟩ := by decide +kernel

/-- the hypotheses of `parseSIPMsg_nn_init` are met by this message -/
example : HvNn (parseSIPMsg nnExMsg 2 C01.exInit 0).2.2.pv := by
  have hv : (parseSIPMsg nnExMsg 2 C01.exInit 0).2.1 = Err.ok := by decide +kernel
  have hr : parseSIPMsg nnExMsg 2 C01.exInit 0 =
      ((parseSIPMsg nnExMsg 2 C01.exInit 0).1, .ok, (parseSIPMsg nnExMsg 2 C01.exInit 0).2.2) := by rw [← hv]
  exact parseSIPMsg_nn_init nnExMsg 2 {} 0 0 0 none none 0 (by decide +kernel) (by decide +kernel) hr

end Sipsp
