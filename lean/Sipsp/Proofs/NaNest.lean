/-
  Sipsp.Proofs.NaNest — nesting and order of the sub-fields of a name-addr value (From / To / Contact /
  P-Asserted-Identity), for EVERY input: after ParseNameAddrPVal says OK or MoreValues the display name, the URI,
  the parameter span and the tag lie inside the value `v`, in this order, the tag inside the parameter span.

  The proof is a loop invariant (`NnSt`, one clause per parser state) over the generic `runLoop` driver, carried
  along with the bounds invariant `NaSafe` of SafeNA.lean.
-/
import Sipsp.Proofs.SafeNALo

namespace Sipsp

/-! ### the finished value -/

/-- **nesting and order of the fields of a finished name-addr value.** Unset fields are `⟨0,0⟩`.
    A finished value always has its URI field set (for `*` it is the value itself). -/
structure NaNest (pf : PFromBody) : Prop where
  /-- the URI lies inside the value -/
  uriL : pf.v.offs ≤ pf.uri.offs
  uriU : pf.uri.offs + pf.uri.len ≤ pf.v.offs + pf.v.len
  /-- the display name, if any, starts inside the value … -/
  nameL : (pf.name.offs = 0 ∧ pf.name.len = 0) ∨ pf.v.offs ≤ pf.name.offs
  /-- … and ends at or before the start of the URI (an unset name has end 0) -/
  nameU : pf.name.offs + pf.name.len ≤ pf.uri.offs
  /-- the parameter span, if any, starts at or after the end of the URI and runs to the end of the value -/
  parL : (pf.params.offs = 0 ∧ pf.params.len = 0) ∨
    (pf.uri.offs + pf.uri.len ≤ pf.params.offs ∧ pf.params.offs + pf.params.len = pf.v.offs + pf.v.len)
  /-- the tag, if any, lies inside the parameter span (which is then set) -/
  tagL : (pf.tag.offs = 0 ∧ pf.tag.len = 0) ∨
    (pf.params.offs ≠ 0 ∧ pf.params.offs ≤ pf.tag.offs ∧ pf.tag.offs + pf.tag.len ≤ pf.params.offs + pf.params.len)

/-! ### the loop invariant -/

/-- head of the value is in place: URI inside the value, name before the URI and inside the value -/
def NnU (pf : PFromBody) : Prop :=
  pf.v.offs ≤ pf.uri.offs ∧ pf.name.offs + pf.name.len ≤ pf.uri.offs ∧
  pf.uri.offs + pf.uri.len ≤ pf.v.offs + pf.v.len ∧
  ((pf.name.offs = 0 ∧ pf.name.len = 0) ∨ pf.v.offs ≤ pf.name.offs)

/-- the parameter span has been opened after the URI; the tag, if any, starts inside it -/
def NnP (pf : PFromBody) : Prop :=
  pf.params.offs ≠ 0 ∧ pf.v.offs ≤ pf.params.offs ∧ pf.uri.offs + pf.uri.len ≤ pf.params.offs ∧
  ((pf.tag.offs = 0 ∧ pf.tag.len = 0) ∨ pf.params.offs ≤ pf.tag.offs)

/-- nothing but (perhaps) the URI has been reported yet; no parameter value is pending -/
def NnE (pf : PFromBody) : Prop :=
  pf.name.offs = 0 ∧ pf.name.len = 0 ∧ pf.params.offs = 0 ∧ pf.tag.offs = 0 ∧ pf.tag.len = 0 ∧
  pf.vstart = 0 ∧ pf.vend = 0

/-- the invariant, by parser state (`lo` = offset at which the parse of this value began) -/
def NnSt (lo : Nat) (pf : PFromBody) : FBState → Prop
  | .init => pf.uri.offs = 0 ∧ pf.uri.len = 0 ∧ NnE pf
  | .quoted | .name | .nameOrURI =>
    lo ≤ pf.v.offs ∧ pf.uri.offs = 0 ∧ pf.uri.len = 0 ∧ NnE pf ∧ pf.v.offs ≤ pf.s
  | .nameOrURIEnd => lo ≤ pf.v.offs ∧ NnE pf ∧ pf.v.offs ≤ pf.s ∧ NnU pf
  | .star => lo ≤ pf.v.offs ∧ NnE pf
  | .uri =>
    lo ≤ pf.v.offs ∧ pf.uri.offs = 0 ∧ pf.uri.len = 0 ∧ pf.params.offs = 0 ∧ pf.tag.offs = 0 ∧ pf.tag.len = 0 ∧
    pf.vstart = 0 ∧ pf.vend = 0 ∧ pf.v.offs ≤ pf.s ∧ pf.name.offs + pf.name.len ≤ pf.s ∧
    ((pf.name.offs = 0 ∧ pf.name.len = 0) ∨ pf.v.offs ≤ pf.name.offs)
  | .uriFound =>
    lo ≤ pf.v.offs ∧ NnU pf ∧ pf.params.offs = 0 ∧ pf.tag.offs = 0 ∧ pf.tag.len = 0 ∧ pf.vstart = 0 ∧ pf.vend = 0
  | .newParam | .newPossibleParam =>
    lo ≤ pf.v.offs ∧ NnU pf ∧ pf.vstart = 0 ∧ pf.vend = 0 ∧
    ((pf.params.offs = 0 ∧ pf.tag.offs = 0 ∧ pf.tag.len = 0) ∨ NnP pf)
  | .paramName | .possibleParamName => lo ≤ pf.v.offs ∧ NnU pf ∧ pf.vstart = 0 ∧ pf.vend = 0 ∧ NnP pf
  | .paramNameEnd | .possibleParamNameEnd =>
    lo ≤ pf.v.offs ∧ NnU pf ∧ pf.vstart = 0 ∧ pf.vend = 0 ∧ NnP pf ∧ pf.tag.offs + pf.tag.len ≤ pf.pend
  | .newParamVal | .newPossibleVal | .paramVal | .possibleVal | .quotedVal | .quotedPossibleVal =>
    lo ≤ pf.v.offs ∧ NnU pf ∧ NnP pf ∧ pf.params.offs ≤ pf.vstart
  | .paramValEnd | .possibleValEnd =>
    lo ≤ pf.v.offs ∧ NnU pf ∧ NnP pf ∧ pf.params.offs ≤ pf.vstart ∧ pf.tag.offs + pf.tag.len ≤ pf.vend
  | _ => True

/-- the loop invariant of the nesting proof -/
def NnInv (lo : Nat) (pf : PFromBody) : Prop := NnSt lo pf pf.state

/-! ### storing a parameter value -/

/-- what `setFromParamVal` does to the positional fields: only the tag can change, and only to the pending
    value span -/
theorem setFromParamVal_nn (b : Buf) (pf : PFromBody) :
    (setFromParamVal b pf).name = pf.name ∧ (setFromParamVal b pf).uri = pf.uri ∧
    (setFromParamVal b pf).v = pf.v ∧ (setFromParamVal b pf).params = pf.params ∧
    (setFromParamVal b pf).vstart = 0 ∧ (setFromParamVal b pf).vend = 0 ∧
    ((setFromParamVal b pf).tag = pf.tag ∨
      (pf.vstart < pf.vend ∧ (setFromParamVal b pf).tag = PField.set pf.vstart pf.vend)) := by
  unfold setFromParamVal
  have hq := fun val => setQ_same pf val
  by_cases c1 : (decide (pf.pstart < pf.pend) && decide (pf.vstart < pf.vend)) = true
  · rw [if_pos c1]
    simp only [Bool.and_eq_true, decide_eq_true_eq] at c1
    repeat' split
    all_goals
      refine ⟨?_, ?_, ?_, ?_, ?_, ?_, ?_⟩ <;> first
        | rfl
        | exact Or.inr ⟨c1.2, rfl⟩
        | exact Or.inl rfl
        | (simp only [PFromBody.clearPV]
           first | exact (hq _).1 | exact (hq _).2.1 | exact (hq _).2.2.2.2.1 | exact (hq _).2.2.2.1
                 | exact Or.inl (hq _).2.2.1)
  · rw [if_neg c1]
    repeat' split
    all_goals
      refine ⟨?_, ?_, ?_, ?_, ?_, ?_, ?_⟩ <;> first
        | rfl
        | exact Or.inl rfl

/-! ### continuing steps -/

/-- unfolds the field updates and the invariant clauses, then arithmetic -/
macro "nn_arith" : tactic =>
  `(tactic| (simp only [NnSt, NnU, NnP, NnE, PFromBody.setURI, PFromBody.setName, PFromBody.setV, PFromBody.extV,
               PFromBody.extParams, PFromBody.resetUPT, PFromBody.saveS, PField.inside, PField.set, PField.extend,
               trunc16] at *
             repeat' (apply And.intro)
             all_goals first | trivial | omega))

/-- closes `NnSt lo X X.state` for the object `X` built by a continuing step -/
macro "nn_step" hI:ident hg:ident : tactic =>
  `(tactic| (try dsimp only
             first
               | (rw [$hg:ident]; exact $hI:ident)
               | nn_arith))

/-- simp set that decides the tests on a known parser state -/
macro "nn_state" hg:ident " at " hs:ident : tactic =>
  `(tactic| simp only [$hg:ident, beq_iff_eq, bne_iff_ne, ne_eq, reduceCtorEq, not_true_eq_false, not_false_eq_true,
      or_false, false_or, or_true, true_or, or_self, Bool.or_eq_true, ↓reduceIte] at $hs:ident)

theorem naLWS_nn (h : Nat) (b : Buf) (i lo : Nat) (pf : PFromBody) (hI : NnInv lo pf)
    {i' : Nat} {st' : PFromBody} (hs : naLWS h b i pf = .cont i' st') : NnInv lo st' := by
  unfold naLWS at hs
  rw [lwsStd_cont_state b i pf _ _ hs]; exact hI

theorem naStepA_nn (h : Nat) (b : Buf) (i lo : Nat) (c : UInt8) (pf : PFromBody) (hfit : i < 65535) (hlo : lo ≤ i)
    (hS : NaSafe b i pf)
    (hg : pf.state = .init ∨ pf.state = .name ∨ pf.state = .nameOrURI ∨ pf.state = .nameOrURIEnd) (hI : NnInv lo pf)
    {i' : Nat} {st' : PFromBody} (hs : naStepA h b i c pf = .cont i' st') : NnInv lo st' := by
  obtain ⟨⟨h1, h2, h3, h4, h5, h6, h7, h8, h9, h10⟩, h11, h12⟩ := hS
  have hI0 := hI
  unfold NnInv at hI
  rcases hg with hg | hg | hg | hg <;> rw [hg] at hI <;> unfold naStepA at hs <;>
    (nn_state hg at hs) <;>
    (repeat' (split at hs)) <;>
    first
      | exact naLWS_nn h b i lo _ hI0 hs
      | (refine naLWS_nn h b i lo _ ?_ hs
         unfold NnInv
         nn_step hI hg)
      | exact absurd hs (naMoreValues_not_cont h b _ i)
      | (cases hs; unfold NnInv; nn_step hI hg)
      | cases hs

theorem naStepQ_nn (h : Nat) (b : Buf) (i lo : Nat) (c : UInt8) (pf : PFromBody)
    (hg : pf.state = .quoted ∨ pf.state = .quotedVal ∨ pf.state = .quotedPossibleVal) (hI : NnInv lo pf)
    {i' : Nat} {st' : PFromBody} (hs : naStepQ h b i c pf = .cont i' st') : NnInv lo st' := by
  have hI0 := hI
  unfold NnInv at hI
  rcases hg with hg | hg | hg <;> rw [hg] at hI <;> unfold naStepQ at hs <;>
    (nn_state hg at hs) <;>
    (repeat' (split at hs)) <;>
    first
      | exact naLWS_nn h b i lo _ hI0 hs
      | (cases hs; exact hI0)
      | (cases hs; unfold NnInv; exact hI)
      | cases hs

theorem naStepU_nn (b : Buf) (i lo : Nat) (c : UInt8) (pf : PFromBody) (hfit : i < 65535)
    (hS : NaSafe b i pf) (hg : pf.state = .uri) (hI : NnInv lo pf)
    {i' : Nat} {st' : PFromBody} (hs : naStepU i c pf = .cont i' st') : NnInv lo st' := by
  obtain ⟨⟨h1, h2, h3, h4, h5, h6, h7, h8, h9, h10⟩, h11, h12⟩ := hS
  unfold NnInv at hI ⊢
  rw [hg] at hI
  unfold naStepU at hs
  repeat' (split at hs)
  all_goals first
    | (cases hs; nn_step hI hg)
    | cases hs

theorem naStepUF_nn (h : Nat) (b : Buf) (i lo : Nat) (c : UInt8) (pf : PFromBody)
    (hg : pf.state = .uriFound) (hI : NnInv lo pf)
    {i' : Nat} {st' : PFromBody} (hs : naStepUF h b i c pf = .cont i' st') : NnInv lo st' := by
  have hI0 := hI
  unfold NnInv at hI
  rw [hg] at hI
  unfold naStepUF at hs
  repeat' (split at hs)
  all_goals first
    | exact naLWS_nn h b i lo _ hI0 hs
    | exact absurd hs (naMoreValues_not_cont h b _ i)
    | (cases hs; exact hI0)
    | (cases hs; unfold NnInv; nn_step hI hg)
    | cases hs

theorem naStepStar_nn (h : Nat) (b : Buf) (i lo : Nat) (c : UInt8) (pf : PFromBody) (hI : NnInv lo pf)
    {i' : Nat} {st' : PFromBody} (hs : naStepStar h b i c pf = .cont i' st') : NnInv lo st' := by
  unfold naStepStar at hs
  split at hs
  · exact naLWS_nn h b i lo _ hI hs
  · cases hs

/-- a completed parameter is stored: back to "new parameter" -/
theorem nn_sfp (b : Buf) (lo : Nat) (pf : PFromBody)
    (hst : pf.state = .newParam ∨ pf.state = .newPossibleParam) (hlo : lo ≤ pf.v.offs) (hU : NnU pf) (hP : NnP pf)
    (hv : pf.vstart < pf.vend → pf.params.offs ≤ pf.vstart ∧ pf.vend < 65536) :
    NnInv lo (setFromParamVal b pf) := by
  obtain ⟨e1, e2, e3, e4, e5, e6, e7⟩ := setFromParamVal_nn b pf
  unfold NnInv
  rw [setFromParamVal_state]
  have key : lo ≤ (setFromParamVal b pf).v.offs ∧ NnU (setFromParamVal b pf) ∧ (setFromParamVal b pf).vstart = 0 ∧
      (setFromParamVal b pf).vend = 0 ∧
      (((setFromParamVal b pf).params.offs = 0 ∧ (setFromParamVal b pf).tag.offs = 0 ∧ (setFromParamVal b pf).tag.len = 0) ∨
        NnP (setFromParamVal b pf)) := by
    refine ⟨by rw [e3]; exact hlo, ?_, e5, e6, Or.inr ?_⟩
    · unfold NnU at hU ⊢; rw [e1, e2, e3]; exact hU
    · unfold NnP at hP ⊢
      rw [e2, e3, e4]
      rcases e7 with e7 | ⟨hlt, e7⟩
      · rw [e7]; exact hP
      · have := hv hlt
        rw [e7]
        simp only [PField.set, trunc16]
        omega
  rcases hst with hst | hst <;> rw [hst] <;> exact key

theorem naNameWS_nn (b : Buf) (i lo : Nat) (pf : PFromBody) (hS : NaSafe b i pf)
    (hg : pf.state = .newParam ∨ pf.state = .newPossibleParam ∨ pf.state = .paramName ∨ pf.state = .possibleParamName)
    (hI : NnInv lo pf) : NnInv lo (naNameWS pf i) := by
  obtain ⟨⟨h1, h2, h3, h4, h5, h6, h7, h8, h9, h10⟩, h11, h12⟩ := hS
  have hI0 := hI
  unfold NnInv at hI
  rcases hg with hg | hg | hg | hg <;> rw [hg] at hI <;> unfold naNameWS <;>
    simp only [hg, beq_iff_eq, reduceCtorEq, ↓reduceIte] <;>
    first
      | exact hI0
      | (unfold NnInv; nn_step hI hg)

theorem naParam_nn (b : Buf) (i lo : Nat) (pf : PFromBody) (hfit : i < 65535) (h0 : 0 < i) (hS : NaSafe b i pf)
    (hg : pf.state = .newParam ∨ pf.state = .newPossibleParam ∨ pf.state = .paramName ∨ pf.state = .possibleParamName)
    (hI : NnInv lo pf) : NnInv lo (naParamsOffs (naParamStart pf i) i) := by
  obtain ⟨⟨h1, h2, h3, h4, h5, h6, h7, h8, h9, h10⟩, h11, h12⟩ := hS
  have hI0 := hI
  unfold NnInv at hI
  rcases hg with hg | hg | hg | hg <;> rw [hg] at hI <;> unfold naParamsOffs naParamStart <;>
    simp only [hg, beq_iff_eq, reduceCtorEq, ↓reduceIte] <;>
    split <;>
    first
      | exact hI0
      | (unfold NnInv; nn_step hI hg)

theorem naStepP_nn (h : Nat) (b : Buf) (i lo : Nat) (c : UInt8) (pf : PFromBody) (hfit : i < 65535) (h0 : 0 < i)
    (hS : NaSafe b i pf)
    (hg : pf.state = .newParam ∨ pf.state = .newPossibleParam ∨ pf.state = .paramName ∨ pf.state = .possibleParamName)
    (hI : NnInv lo pf) {i' : Nat} {st' : PFromBody} (hs : naStepP h b i c pf = .cont i' st') : NnInv lo st' := by
  have hS0 := hS
  obtain ⟨⟨h1, h2, h3, h4, h5, h6, h7, h8, h9, h10⟩, h11, h12⟩ := hS
  have hI0 := hI
  have hg0 := hg
  unfold naStepP at hs
  split at hs
  · rcases hsk : skipLWS b i 0 with ⟨n, crl, e⟩
    rw [hsk] at hs
    cases e <;> simp only at hs <;> cases hs
    exact naNameWS_nn b i lo pf hS0 hg hI
  · unfold NnInv at hI
    rcases hg with hg | hg | hg | hg <;> rw [hg] at hI <;>
      (nn_state hg at hs) <;>
      (repeat' (split at hs)) <;>
      first
        | exact absurd hs (naMoreValues_not_cont h b _ i)
        | (cases hs; exact naParam_nn b i lo pf hfit h0 hS0 hg0 hI0)
        | (cases hs; exact hI0)
        | (cases hs
           refine nn_sfp b lo _ (by first | exact Or.inl rfl | exact Or.inr rfl) hI.1 hI.2.1 hI.2.2.2.2 ?_
           intro hlt
           have e1 := hI.2.2.1
           have e2 := hI.2.2.2.1
           dsimp only at hlt
           omega)
        | (cases hs; unfold NnInv; nn_step hI hg)
        | cases hs

theorem naStepPE_nn (h : Nat) (b : Buf) (i lo : Nat) (c : UInt8) (pf : PFromBody)
    (hS : NaSafe b i pf)
    (hg : pf.state = .paramNameEnd ∨ pf.state = .possibleParamNameEnd)
    (hI : NnInv lo pf) {i' : Nat} {st' : PFromBody} (hs : naStepPE h b i c pf = .cont i' st') : NnInv lo st' := by
  obtain ⟨⟨h1, h2, h3, h4, h5, h6, h7, h8, h9, h10⟩, h11, h12⟩ := hS
  unfold NnInv at hI
  unfold naStepPE at hs
  rcases hg with hg | hg <;> rw [hg] at hI <;>
    (nn_state hg at hs) <;>
    (repeat' (split at hs)) <;>
    first
      | exact absurd hs (naCommaAfterWS_not_cont h b _ i _)
      | (cases hs
         refine nn_sfp b lo _ (by first | exact Or.inl rfl | exact Or.inr rfl) hI.1 hI.2.1 hI.2.2.2.2.1 ?_
         intro hlt
         have e1 := hI.2.2.1
         have e2 := hI.2.2.2.1
         dsimp only at hlt
         omega)
      | (cases hs; unfold NnInv; nn_step hI hg)
      | cases hs


theorem naValWS_nn (b : Buf) (i n lo : Nat) (pf : PFromBody) (hS : NaSafe b i pf) (hin : i ≤ n)
    (hg : pf.state = .newParamVal ∨ pf.state = .newPossibleVal ∨ pf.state = .paramVal ∨ pf.state = .possibleVal)
    (hI : NnInv lo pf) : NnInv lo (naValWS pf i n true) := by
  obtain ⟨⟨h1, h2, h3, h4, h5, h6, h7, h8, h9, h10⟩, h11, h12⟩ := hS
  unfold NnInv at hI
  rcases hg with hg | hg | hg | hg <;> rw [hg] at hI <;> unfold naValWS <;>
    simp only [hg, ↓reduceIte] <;>
    (unfold NnInv; nn_step hI hg)

theorem naStepV_nn (h : Nat) (b : Buf) (i lo : Nat) (c : UInt8) (pf : PFromBody) (hfit : i < 65535)
    (hS : NaSafe b i pf)
    (hg : pf.state = .newParamVal ∨ pf.state = .newPossibleVal ∨ pf.state = .paramVal ∨ pf.state = .possibleVal)
    (hI : NnInv lo pf) {i' : Nat} {st' : PFromBody} (hs : naStepV h b i c pf = .cont i' st') : NnInv lo st' := by
  have hS0 := hS
  obtain ⟨⟨h1, h2, h3, h4, h5, h6, h7, h8, h9, h10⟩, h11, h12⟩ := hS
  have hI0 := hI
  unfold naStepV at hs
  split at hs
  · rcases hsk : skipLWS b i 0 with ⟨n, crl, e⟩
    rw [hsk] at hs
    cases e <;> simp only at hs <;> cases hs
    exact naValWS_nn b i _ lo pf hS0 (skipLWS_range b i 0 hsk).1 hg hI
  · unfold NnInv at hI
    rcases hg with hg | hg | hg | hg <;> rw [hg] at hI <;>
      (nn_state hg at hs) <;>
      (repeat' (split at hs)) <;>
      first
        | exact absurd hs (naMoreValues_not_cont h b _ i)
        | (cases hs; exact hI0)
        | (cases hs
           refine nn_sfp b lo _ (by first | exact Or.inl rfl | exact Or.inr rfl) hI.1 hI.2.1 hI.2.2.1 ?_
           intro hlt
           have e1 := hI.2.2.2
           dsimp only at hlt ⊢
           omega)
        | (cases hs; unfold NnInv; nn_step hI hg)
        | cases hs

theorem naStepVE_nn (h : Nat) (b : Buf) (i lo : Nat) (c : UInt8) (pf : PFromBody) (hfit : i < 65535)
    (hS : NaSafe b i pf)
    (hg : pf.state = .paramValEnd ∨ pf.state = .possibleValEnd)
    (hI : NnInv lo pf) {i' : Nat} {st' : PFromBody} (hs : naStepVE h b i c pf = .cont i' st') : NnInv lo st' := by
  obtain ⟨⟨h1, h2, h3, h4, h5, h6, h7, h8, h9, h10⟩, h11, h12⟩ := hS
  unfold NnInv at hI
  unfold naStepVE at hs
  rcases hg with hg | hg <;> rw [hg] at hI <;>
    (nn_state hg at hs) <;>
    (repeat' (split at hs)) <;>
    first
      | exact absurd hs (naCommaAfterWS_not_cont h b _ i _)
      | (cases hs
         refine nn_sfp b lo _ (by first | exact Or.inl rfl | exact Or.inr rfl) hI.1 hI.2.1 hI.2.2.1 ?_
         intro hlt
         have e1 := hI.2.2.2.1
         dsimp only at hlt ⊢
         omega)
      | (cases hs; unfold NnInv; nn_step hI hg)
      | cases hs

/-- **the nesting invariant is preserved by every continuing step** (positions within the 16-bit range) -/
theorem na_nnCont (h : Nat) (b : Buf) (i lo : Nat) (c : UInt8) (pf : PFromBody) (hfit : i < 65535) (hlo : lo ≤ i)
    (h0 : pf.state = .init ∨ 0 < i) (hS : NaSafe b i pf) (hI : NnInv lo pf)
    {i' : Nat} {st' : PFromBody} (hs : naStep h b i c pf = .cont i' st') : NnInv lo st' := by
  have hpos : pf.state ≠ .init → 0 < i := fun hn => by rcases h0 with h0 | h0; exact absurd h0 hn; exact h0
  unfold naStep at hs
  split at hs
  all_goals first
    | exact naStepA_nn h b i lo c pf hfit hlo hS (by simp [*]) hI hs
    | exact naStepQ_nn h b i lo c pf (by simp [*]) hI hs
    | exact naStepU_nn b i lo c pf hfit hS (by assumption) hI hs
    | exact naStepUF_nn h b i lo c pf (by assumption) hI hs
    | exact naStepP_nn h b i lo c pf hfit (hpos (by simp [*])) hS (by simp [*]) hI hs
    | exact naStepPE_nn h b i lo c pf hS (by simp [*]) hI hs
    | exact naStepV_nn h b i lo c pf hfit hS (by simp [*]) hI hs
    | exact naStepVE_nn h b i lo c pf hfit hS (by simp [*]) hI hs
    | exact naStepStar_nn h b i lo c pf hI hs
    | (cases hs; exact hI)

/-! ### the end of the value -/

/-- closing a value at `e`: `r` is `pf` with the value (and the parameter span, if open) extended to `e` and
    possibly a last tag `[a, z)` stored -/
theorem nn_close (pf r : PFromBody) (e : Nat) (he : e < 65536) (hn : r.name = pf.name) (hu : r.uri = pf.uri)
    (hv : r.v = pf.v.extend e)
    (hp : (pf.params.offs = 0 ∧ r.params = pf.params) ∨ (pf.params.offs ≠ 0 ∧ r.params = pf.params.extend e))
    (ht : r.tag = pf.tag ∨
      ∃ a z, a < z ∧ z ≤ e ∧ pf.params.offs ≠ 0 ∧ pf.params.offs ≤ a ∧ r.tag = PField.set a z)
    (hU : NnU pf) (hP : (pf.params.offs = 0 ∧ pf.tag.offs = 0 ∧ pf.tag.len = 0) ∨ NnP pf)
    (hl : pf.params.len = 0) (h1 : pf.v.offs ≤ e) (h2 : pf.params.offs ≤ e) (h3 : pf.uri.offs + pf.uri.len ≤ e)
    (h4 : pf.tag.offs + pf.tag.len ≤ e) : NaNest r := by
  unfold NnU at hU
  unfold NnP at hP
  have hve : r.v.offs = pf.v.offs ∧ r.v.len = e - pf.v.offs := by
    rw [hv]; dsimp only [PField.extend, trunc16]; omega
  have hpe : (pf.params.offs = 0 ∧ r.params.offs = 0 ∧ r.params.len = 0) ∨
      (pf.params.offs ≠ 0 ∧ r.params.offs = pf.params.offs ∧ r.params.len = e - pf.params.offs) := by
    rcases hp with ⟨p0, hp⟩ | ⟨p0, hp⟩
    · left; rw [hp]; exact ⟨p0, p0, hl⟩
    · right; rw [hp]; dsimp only [PField.extend, trunc16]; omega
  have hte : (r.tag.offs = pf.tag.offs ∧ r.tag.len = pf.tag.len) ∨
      (pf.params.offs ≠ 0 ∧ pf.params.offs ≤ r.tag.offs ∧ r.tag.offs + r.tag.len ≤ e) := by
    rcases ht with ht | ⟨a, z, h5, h6, h7, h8, ht⟩
    · left; rw [ht]; exact ⟨rfl, rfl⟩
    · right; rw [ht]; dsimp only [PField.set, trunc16]; omega
  refine ⟨?_, ?_, ?_, ?_, ?_, ?_⟩
  · rw [hu]; omega
  · rw [hu]; omega
  · rw [hn]; omega
  · rw [hn, hu]; omega
  · rw [hu]; omega
  · omega

/-- what the end-of-value code of the parameter-name states reports (no value pending) -/
theorem naEOHParamName_nn (b : Buf) (pf : PFromBody) (e : Nat) (hv : pf.vstart = 0 ∧ pf.vend = 0) :
    (naEOHParamName b pf e).name = pf.name ∧ (naEOHParamName b pf e).uri = pf.uri ∧
    (naEOHParamName b pf e).tag = pf.tag ∧ (naEOHParamName b pf e).v = pf.v.extend e ∧
    ((pf.params.offs = 0 ∧ (naEOHParamName b pf e).params = pf.params) ∨
      (pf.params.offs ≠ 0 ∧ (naEOHParamName b pf e).params = pf.params.extend e)) := by
  unfold naEOHParamName
  have h1 : (if pf.state == .paramName || pf.state == .possibleParamName then { pf with pend := e } else pf).name = pf.name ∧
      (if pf.state == .paramName || pf.state == .possibleParamName then { pf with pend := e } else pf).uri = pf.uri ∧
      (if pf.state == .paramName || pf.state == .possibleParamName then { pf with pend := e } else pf).tag = pf.tag ∧
      (if pf.state == .paramName || pf.state == .possibleParamName then { pf with pend := e } else pf).v = pf.v ∧
      (if pf.state == .paramName || pf.state == .possibleParamName then { pf with pend := e } else pf).params = pf.params ∧
      (if pf.state == .paramName || pf.state == .possibleParamName then { pf with pend := e } else pf).vstart = 0 ∧
      (if pf.state == .paramName || pf.state == .possibleParamName then { pf with pend := e } else pf).vend = 0 := by
    split
    · exact ⟨rfl, rfl, rfl, rfl, rfl, hv.1, hv.2⟩
    · exact ⟨rfl, rfl, rfl, rfl, rfl, hv.1, hv.2⟩
  simp only
  generalize (if pf.state == .paramName || pf.state == .possibleParamName then { pf with pend := e } else pf) = pf1 at h1 ⊢
  obtain ⟨a1, a2, a3, a4, a5, a6, a7⟩ := h1
  have h2 : (if pf1.pstart < pf1.pend then setFromParamVal b pf1 else pf1).name = pf.name ∧
      (if pf1.pstart < pf1.pend then setFromParamVal b pf1 else pf1).uri = pf.uri ∧
      (if pf1.pstart < pf1.pend then setFromParamVal b pf1 else pf1).tag = pf.tag ∧
      (if pf1.pstart < pf1.pend then setFromParamVal b pf1 else pf1).v = pf.v ∧
      (if pf1.pstart < pf1.pend then setFromParamVal b pf1 else pf1).params = pf.params := by
    split
    · obtain ⟨e1, e2, e3, e4, _, _, e7⟩ := setFromParamVal_nn b pf1
      refine ⟨by rw [e1, a1], by rw [e2, a2], ?_, by rw [e3, a4], by rw [e4, a5]⟩
      rcases e7 with e7 | ⟨hlt, _⟩
      · rw [e7, a3]
      · omega
    · exact ⟨a1, a2, a3, a4, a5⟩
  generalize (if pf1.pstart < pf1.pend then setFromParamVal b pf1 else pf1) = pf2 at h2 ⊢
  obtain ⟨c1, c2, c3, c4, c5⟩ := h2
  by_cases p0 : pf.params.offs = 0
  · have : (pf2.params.offs != 0) = false := by rw [c5, p0]; rfl
    simp only [this, Bool.false_eq_true, ↓reduceIte]
    exact ⟨c1, c2, c3, by show pf2.v.extend e = _; rw [c4], Or.inl ⟨p0, c5⟩⟩
  · have : (pf2.params.offs != 0) = true := by rw [c5]; simpa using p0
    simp only [this, ↓reduceIte]
    exact ⟨c1, c2, c3, by show pf2.v.extend e = _; rw [c4], Or.inr ⟨p0, by show pf2.params.extend e = _; rw [c5]⟩⟩

/-- what the end-of-value code of the parameter-value states reports: the pending value `[vstart, e)` may
    have become the tag -/
theorem naEOHVal_nn (b : Buf) (pf : PFromBody) (e : Nat) :
    (naEOHVal b pf e).name = pf.name ∧ (naEOHVal b pf e).uri = pf.uri ∧
    (naEOHVal b pf e).v = pf.v.extend e ∧ (naEOHVal b pf e).params = pf.params.extend e ∧
    ((naEOHVal b pf e).tag = pf.tag ∨ (pf.vstart < e ∧ (naEOHVal b pf e).tag = PField.set pf.vstart e)) := by
  unfold naEOHVal
  obtain ⟨e1, e2, e3, e4, _, _, e7⟩ := setFromParamVal_nn b { pf with vend := e }
  refine ⟨e1, e2, ?_, ?_, e7⟩
  · show (setFromParamVal b _).v.extend e = _; rw [e3]
  · show (setFromParamVal b _).params.extend e = _; rw [e4]

theorem naEOHVal_voffs (b : Buf) (pf : PFromBody) (e : Nat) : (naEOHVal b pf e).v.offs = pf.v.offs := by
  rw [(naEOHVal_nn b pf e).2.2.1]; rfl

theorem NaNest.fin {p : PFromBody} (h : Nat) (hN : NaNest p) :
    NaNest { p with state := .fin, soffs := 0, type := h } :=
  ⟨hN.uriL, hN.uriU, hN.nameL, hN.nameU, hN.parL, hN.tagL⟩

theorem NaNest.congr {p q : PFromBody} (hn : q.name = p.name) (hu : q.uri = p.uri) (ht : q.tag = p.tag)
    (hp : q.params = p.params) (hv : q.v = p.v) (h : NaNest p) : NaNest q := by
  obtain ⟨a1, a2, a3, a4, a5, a6⟩ := h
  refine ⟨?_, ?_, ?_, ?_, ?_, ?_⟩ <;> simp only [hn, hu, ht, hp, hv] <;> assumption

/-- proves `NaNest X` for an object built with the field setters, from arithmetic facts in the context -/
macro "nn_nest" : tactic =>
  `(tactic| (refine ⟨?_, ?_, ?_, ?_, ?_, ?_⟩ <;>
      (simp only [NnU, NnP, NnE, PFromBody.setURI, PFromBody.extV, PFromBody.extParams, PField.inside, PField.set,
         PField.extend, trunc16] at *
       omega)))

/-- end of the value right after `=` (empty parameter value): nothing is stored -/
theorem nn_newVal (b : Buf) (pf X : PFromBody) (e : Nat) (he : e < 65536)
    (hX : X.name = pf.name ∧ X.uri = pf.uri ∧ X.tag = pf.tag ∧ X.params = pf.params ∧ X.v = pf.v ∧ X.vstart = e)
    (hU : NnU pf) (hP : NnP pf) (hl : pf.params.len = 0) (h1 : pf.v.offs ≤ e) (h2 : pf.params.offs ≤ e)
    (h3 : pf.uri.offs + pf.uri.len ≤ e) (h4 : pf.tag.offs + pf.tag.len ≤ e) : NaNest (naEOHVal b X e) := by
  obtain ⟨x1, x2, x3, x4, x5, x6⟩ := hX
  obtain ⟨c1, c2, c3, c4, c5⟩ := naEOHVal_nn b X e
  refine nn_close pf _ e he (by rw [c1, x1]) (by rw [c2, x2]) (by rw [c3, x5]) (Or.inr ⟨hP.1, by rw [c4, x4]⟩)
    (Or.inl ?_) hU (Or.inr hP) hl h1 h2 h3 h4
  rcases c5 with c5 | ⟨hlt, _⟩
  · rw [c5, x3]
  · omega

/-- **the end-of-value code produces a nested value**: `e` is the end of the value (the current position `i`, or
    the position before trailing white space) -/
theorem naEOH_nn (h : Nat) (b : Buf) (lo : Nat) (pf : PFromBody) (i e n crl : Nat) (r : Err) (hfit : i < 65536)
    (hC : NaCore b i pf) (hI : NnInv lo pf) (he : e ≤ i) (hs : pf.state = .nameOrURI → pf.s ≤ e)
    (hv : pf.v.offs ≤ e) (hp : pf.params.offs ≤ e) (hu : pf.uri.offs + pf.uri.len ≤ e)
    (ht : pf.tag.offs + pf.tag.len ≤ e)
    (hve : pf.state = .paramValEnd ∨ pf.state = .possibleValEnd → pf.vend ≤ e)
    (hc : Err.complete (naEOH h b pf e n crl r).2.1) :
    NaNest (naEOH h b pf e n crl r).2.2 ∧ lo ≤ (naEOH h b pf e n crl r).2.2.v.offs := by
  obtain ⟨h1, h2, h3, h4, h5, h6, h7, h8, h9, h10⟩ := hC
  unfold NnInv at hI
  unfold naEOH at hc ⊢
  cases hst : pf.state <;> rw [hst] at hI <;> simp only [hst, naFinish] at hc ⊢ <;> simp only [NnSt] at hI
  case init | name | quoted | uri | quotedVal | quotedPossibleVal | tagT | tagA | tagG | tagEq | tagVal | pTagT | pTagA
      | pTagG | pTagEq | pTagVal | fin =>
    exfalso; rcases hc with hc | hc <;> cases hc
  case uriFound | nameOrURIEnd =>
    refine ⟨NaNest.congr (p := pf) rfl rfl rfl rfl rfl ?_, hI.1⟩
    nn_nest
  case nameOrURI =>
    have hs' := hs hst
    refine ⟨NaNest.congr (p := (pf.setURI pf.s e).extV e) rfl rfl rfl rfl rfl ?_, hI.1⟩
    nn_nest
  case star =>
    refine ⟨NaNest.congr (p := { pf with uri := pf.v }) rfl rfl rfl rfl rfl ?_, hI.1⟩
    nn_nest
  case newParam | newPossibleParam =>
    obtain ⟨c1, c2, c3, c4, c5⟩ := naEOHParamName_nn b pf e ⟨hI.2.2.1, hI.2.2.2.1⟩
    refine ⟨NaNest.congr (p := naEOHParamName b pf e) rfl rfl rfl rfl rfl ?_, ?_⟩
    · exact nn_close pf _ e (by omega) c1 c2 c4 c5 (Or.inl c3) hI.2.1 hI.2.2.2.2 h8.2 hv hp hu ht
    · show (naEOHParamName b pf e).v.offs ≥ lo
      rw [c4]; exact hI.1
  case paramName | possibleParamName =>
    obtain ⟨c1, c2, c3, c4, c5⟩ := naEOHParamName_nn b pf e ⟨hI.2.2.1, hI.2.2.2.1⟩
    refine ⟨NaNest.congr (p := naEOHParamName b pf e) rfl rfl rfl rfl rfl ?_, ?_⟩
    · exact nn_close pf _ e (by omega) c1 c2 c4 c5 (Or.inl c3) hI.2.1 (Or.inr hI.2.2.2.2) h8.2 hv hp hu ht
    · show (naEOHParamName b pf e).v.offs ≥ lo
      rw [c4]; exact hI.1
  case paramNameEnd | possibleParamNameEnd =>
    obtain ⟨c1, c2, c3, c4, c5⟩ := naEOHParamName_nn b pf e ⟨hI.2.2.1, hI.2.2.2.1⟩
    refine ⟨NaNest.congr (p := naEOHParamName b pf e) rfl rfl rfl rfl rfl ?_, ?_⟩
    · exact nn_close pf _ e (by omega) c1 c2 c4 c5 (Or.inl c3) hI.2.1 (Or.inr hI.2.2.2.2.1) h8.2 hv hp hu ht
    · show (naEOHParamName b pf e).v.offs ≥ lo
      rw [c4]; exact hI.1
  case newParamVal | newPossibleVal =>
    refine ⟨NaNest.congr (p := naEOHVal b _ e) rfl rfl rfl rfl rfl ?_, ?_⟩
    · exact nn_newVal b pf _ e (by omega) ⟨rfl, rfl, rfl, rfl, rfl, rfl⟩ hI.2.1 hI.2.2.1 h8.2 hv hp hu ht
    · show lo ≤ (naEOHVal b _ e).v.offs
      rw [naEOHVal_voffs]; exact hI.1
  case paramVal | possibleVal =>
    obtain ⟨c1, c2, c3, c4, c5⟩ := naEOHVal_nn b pf e
    refine ⟨NaNest.congr (p := naEOHVal b pf e) rfl rfl rfl rfl rfl ?_, ?_⟩
    · refine nn_close pf _ e (by omega) c1 c2 c3 (Or.inr ⟨hI.2.2.1.1, c4⟩) ?_ hI.2.1 (Or.inr hI.2.2.1) h8.2 hv hp hu ht
      rcases c5 with c5 | ⟨hlt, c5⟩
      · exact Or.inl c5
      · exact Or.inr ⟨pf.vstart, e, hlt, Nat.le_refl _, hI.2.2.1.1, hI.2.2.2, c5⟩
    · show (naEOHVal b pf e).v.offs ≥ lo
      rw [c3]; exact hI.1
  case paramValEnd | possibleValEnd =>
    obtain ⟨c1, c2, c3, c4, _, _, c7⟩ := setFromParamVal_nn b pf
    have hve' := hve (by first | exact Or.inl hst | exact Or.inr hst)
    refine ⟨NaNest.congr (p := ((setFromParamVal b pf).extParams e).extV e) rfl rfl rfl rfl rfl ?_, ?_⟩
    · refine nn_close pf _ e (by omega) c1 c2 (by show (setFromParamVal b pf).v.extend e = _; rw [c3])
        (Or.inr ⟨hI.2.2.1.1, by show (setFromParamVal b pf).params.extend e = _; rw [c4]⟩) ?_ hI.2.1 (Or.inr hI.2.2.1)
        h8.2 hv hp hu ht
      rcases c7 with c7 | ⟨hlt, c7⟩
      · exact Or.inl c7
      · exact Or.inr ⟨pf.vstart, pf.vend, hlt, hve', hI.2.2.1.1, hI.2.2.2.1, c7⟩
    · show (setFromParamVal b pf).v.offs ≥ lo
      rw [c3]; exact hI.1

/-! ### every exit of the loop body -/

/-- what holds of a finishing step: a complete value is nested and starts at or after `lo`; after MoreBytes the
    invariant is carried on -/
def NnDone (lo : Nat) (e : Err) (st' : PFromBody) : Prop :=
  (Err.complete e → NaNest st' ∧ lo ≤ st'.v.offs) ∧ (e = .moreBytes → NnInv lo st')

theorem NnDone.err {lo : Nat} {e : Err} {st' : PFromBody} (h1 : e ≠ .ok) (h2 : e ≠ .moreValues) (h3 : e ≠ .moreBytes) :
    NnDone lo e st' :=
  ⟨(fun hc => by rcases hc with hc | hc; exact absurd hc h1; exact absurd hc h2), fun hh => absurd hh h3⟩

theorem NnInv.saveS {lo : Nat} {pf : PFromBody} (h : NnInv lo pf) : NnInv lo pf.saveS := by
  unfold NnInv at h ⊢
  show NnSt lo pf.saveS pf.state
  cases hst : pf.state <;> rw [hst] at h <;> exact h

theorem NnDone.more {lo : Nat} {st' : PFromBody} (h : NnInv lo st') : NnDone lo .moreBytes st' :=
  ⟨(fun hc => by rcases hc with hc | hc <;> cases hc), fun _ => h⟩

/-- the end-of-value code run with an explicit value end `e ≤ i` -/
theorem naEOH_nndone (h : Nat) (b : Buf) (lo : Nat) (pf : PFromBody) (i e n crl : Nat) (r : Err) (hr : r ≠ .moreBytes)
    (hfit : i < 65536) (hC : NaCore b i pf) (hI : NnInv lo pf) (he : e ≤ i) (hs : pf.state = .nameOrURI → pf.s ≤ e)
    (hv : pf.v.offs ≤ e) (hp : pf.params.offs ≤ e) (hu : pf.uri.offs + pf.uri.len ≤ e)
    (ht : pf.tag.offs + pf.tag.len ≤ e)
    (hve : pf.state = .paramValEnd ∨ pf.state = .possibleValEnd → pf.vend ≤ e) :
    NnDone lo (naEOH h b pf e n crl r).2.1 (naEOH h b pf e n crl r).2.2 :=
  ⟨naEOH_nn h b lo pf i e n crl r hfit hC hI he hs hv hp hu ht hve,
   fun hh => absurd hh (naEOH_ne_more h b pf e n crl r hr)⟩

/-- … with the value ending at the current position -/
theorem naEOH_nndone_at (h : Nat) (b : Buf) (lo : Nat) (pf : PFromBody) (i n crl : Nat) (r : Err) (hr : r ≠ .moreBytes)
    (hfit : i < 65536) (hS : NaSafe b i pf) (hI : NnInv lo pf) :
    NnDone lo (naEOH h b pf i n crl r).2.1 (naEOH h b pf i n crl r).2.2 :=
  naEOH_nndone h b lo pf i i n crl r hr hfit hS.toNaCore hI (Nat.le_refl _) (fun _ => hS.s) hS.toNaCore.voffs
    hS.params.1 hS.uri hS.tag (fun _ => hS.vend)

theorem naLWS_nndone (h : Nat) (b : Buf) (i lo : Nat) (pf : PFromBody) (hfit : i < 65536) (hS : NaSafe b i pf)
    (hI : NnInv lo pf) {o : Nat} {e : Err} {st' : PFromBody} (hs : naLWS h b i pf = .done o e st') :
    NnDone lo e st' := by
  unfold naLWS lwsStd at hs
  rcases hsk : skipLWS b i 0 with ⟨n, crl, e1⟩
  rw [hsk] at hs
  have hv := skipLWS_verdicts b i 0 hsk
  rcases hv with rfl | rfl | rfl | rfl <;> simp only at hs
  · cases hs
  · simp only [Step.done.injEq] at hs
    obtain ⟨rfl, rfl, rfl⟩ := hs
    exact naEOH_nndone_at h b lo pf i n crl .ok (by decide) hfit hS hI
  · cases hs; exact NnDone.err (by decide) (by decide) (by decide)
  · cases hs; exact NnDone.more hI.saveS

theorem naMoreValues_nndone (h : Nat) (b : Buf) (lo : Nat) (pf : PFromBody) (i : Nat) (hfit : i < 65536)
    (hS : NaSafe b i pf) (hI : NnInv lo pf)
    {o : Nat} {e : Err} {st' : PFromBody} (hs : naMoreValues h b pf i = .done o e st') : NnDone lo e st' := by
  unfold naMoreValues at hs
  simp only [Step.done.injEq] at hs
  obtain ⟨rfl, rfl, rfl⟩ := hs
  exact naEOH_nndone_at h b lo pf i i 1 .moreValues (by decide) hfit hS hI

theorem naCommaAfterWS_nndone (h : Nat) (b : Buf) (lo : Nat) (pf : PFromBody) (i e : Nat) (hfit : i < 65536)
    (hS : NaSafe b i pf) (hI : NnInv lo pf) (he : e ≤ i) (hst : pf.state ≠ .nameOrURI)
    (hv : pf.v.offs ≤ e) (hp : pf.params.offs ≤ e) (hu : pf.uri.offs + pf.uri.len ≤ e)
    (ht : pf.tag.offs + pf.tag.len ≤ e)
    (hve : pf.state = .paramValEnd ∨ pf.state = .possibleValEnd → pf.vend ≤ e)
    {o : Nat} {e' : Err} {st' : PFromBody} (hs : naCommaAfterWS h b pf i e = .done o e' st') : NnDone lo e' st' := by
  unfold naCommaAfterWS at hs
  split at hs
  · simp only [Step.done.injEq] at hs
    obtain ⟨rfl, rfl, rfl⟩ := hs
    exact naEOH_nndone h b lo pf i e i 1 .moreValues (by decide) hfit hS.toNaCore hI he (fun hh => absurd hh hst)
      hv hp hu ht hve
  · cases hs; exact NnDone.err (by decide) (by decide) (by decide)

theorem naStepA_nndone (h : Nat) (b : Buf) (i lo : Nat) (c : UInt8) (pf : PFromBody) (hfit : i < 65535) (hlo : lo ≤ i)
    (hS : NaSafe b i pf)
    (hg : pf.state = .init ∨ pf.state = .name ∨ pf.state = .nameOrURI ∨ pf.state = .nameOrURIEnd) (hI : NnInv lo pf)
    {o : Nat} {e : Err} {st' : PFromBody} (hs : naStepA h b i c pf = .done o e st') : NnDone lo e st' := by
  have hS0 := hS
  obtain ⟨⟨h1, h2, h3, h4, h5, h6, h7, h8, h9, h10⟩, h11, h12⟩ := hS
  have hI0 := hI
  unfold NnInv at hI
  rcases hg with hg | hg | hg | hg <;> rw [hg] at hI <;> unfold naStepA at hs <;>
    (nn_state hg at hs) <;>
    (repeat' (split at hs)) <;>
    first
      | exact naLWS_nndone h b i lo _ (by omega) hS0 hI0 hs
      | (refine naLWS_nndone h b i lo _ (by omega) ?_ ?_ hs
         · refine ⟨⟨?_, ?_, ?_, ?_, ?_, ?_, ?_, ?_, ?_, ?_⟩, ?_, ?_⟩ <;> na_fld
         · unfold NnInv
           nn_step hI hg)
      | exact naMoreValues_nndone h b lo _ i (by omega) hS0 hI0 hs
      | (cases hs <;> exact NnDone.err (by decide) (by decide) (by decide))

theorem naStepQ_nndone (h : Nat) (b : Buf) (i lo : Nat) (c : UInt8) (pf : PFromBody) (hfit : i < 65535)
    (hS : NaSafe b i pf) (hI : NnInv lo pf)
    {o : Nat} {e : Err} {st' : PFromBody} (hs : naStepQ h b i c pf = .done o e st') : NnDone lo e st' := by
  unfold naStepQ at hs
  repeat' (split at hs)
  all_goals first
    | exact naLWS_nndone h b i lo _ (by omega) hS hI hs
    | (cases hs; exact NnDone.more hI.saveS)
    | (cases hs <;> exact NnDone.err (by decide) (by decide) (by decide))

theorem naStepU_nndone (i lo : Nat) (c : UInt8) (pf : PFromBody)
    {o : Nat} {e : Err} {st' : PFromBody} (hs : naStepU i c pf = .done o e st') : NnDone lo e st' := by
  unfold naStepU at hs
  repeat' (split at hs)
  all_goals (cases hs <;> exact NnDone.err (by decide) (by decide) (by decide))

theorem naStepUF_nndone (h : Nat) (b : Buf) (i lo : Nat) (c : UInt8) (pf : PFromBody) (hfit : i < 65535)
    (hS : NaSafe b i pf) (hI : NnInv lo pf)
    {o : Nat} {e : Err} {st' : PFromBody} (hs : naStepUF h b i c pf = .done o e st') : NnDone lo e st' := by
  unfold naStepUF at hs
  repeat' (split at hs)
  all_goals first
    | exact naLWS_nndone h b i lo _ (by omega) hS hI hs
    | exact naMoreValues_nndone h b lo _ i (by omega) hS hI hs
    | (cases hs <;> exact NnDone.err (by decide) (by decide) (by decide))

theorem naStepStar_nndone (h : Nat) (b : Buf) (i lo : Nat) (c : UInt8) (pf : PFromBody) (hfit : i < 65535)
    (hS : NaSafe b i pf) (hI : NnInv lo pf)
    {o : Nat} {e : Err} {st' : PFromBody} (hs : naStepStar h b i c pf = .done o e st') : NnDone lo e st' := by
  unfold naStepStar at hs
  split at hs
  · exact naLWS_nndone h b i lo _ (by omega) hS hI hs
  · cases hs; exact NnDone.err (by decide) (by decide) (by decide)

theorem naStepP_nndone (h : Nat) (b : Buf) (i lo : Nat) (c : UInt8) (pf : PFromBody) (hfit : i < 65535)
    (hS : NaSafe b i pf)
    (hg : pf.state = .newParam ∨ pf.state = .newPossibleParam ∨ pf.state = .paramName ∨ pf.state = .possibleParamName)
    (hI : NnInv lo pf)
    {o : Nat} {e : Err} {st' : PFromBody} (hs : naStepP h b i c pf = .done o e st') : NnDone lo e st' := by
  unfold naStepP at hs
  split at hs
  · rcases hsk : skipLWS b i 0 with ⟨n, crl, e1⟩
    rw [hsk] at hs
    have hv := skipLWS_verdicts b i 0 hsk
    have hX := naNameWS_safe b i i pf hS (Nat.le_refl _) hS.hi
    rcases hv with rfl | rfl | rfl | rfl <;> simp only at hs
    · cases hs
    · simp only [Step.done.injEq] at hs
      obtain ⟨rfl, rfl, rfl⟩ := hs
      exact naEOH_nndone_at h b lo _ i n crl .ok (by decide) (by omega) hX (naNameWS_nn b i lo pf hS hg hI)
    · cases hs; exact NnDone.err (by decide) (by decide) (by decide)
    · cases hs; exact NnDone.more hI.saveS
  · repeat' (split at hs)
    all_goals first
      | exact naMoreValues_nndone h b lo _ i (by omega) hS hI hs
      | (cases hs <;> exact NnDone.err (by decide) (by decide) (by decide))

theorem naValWS_nn_false (b : Buf) (i n lo : Nat) (pf : PFromBody) (hS : NaSafe b i pf)
    (hg : pf.state = .newParamVal ∨ pf.state = .newPossibleVal ∨ pf.state = .paramVal ∨ pf.state = .possibleVal)
    (hI : NnInv lo pf) : NnInv lo (naValWS pf i n false) := by
  obtain ⟨⟨h1, h2, h3, h4, h5, h6, h7, h8, h9, h10⟩, h11, h12⟩ := hS
  have hI0 := hI
  unfold NnInv at hI
  rcases hg with hg | hg | hg | hg <;> rw [hg] at hI <;> unfold naValWS <;>
    simp only [hg, Bool.false_eq_true, ↓reduceIte] <;>
    first
      | exact hI0
      | (unfold NnInv; nn_step hI hg)

theorem naStepV_nndone (h : Nat) (b : Buf) (i lo : Nat) (c : UInt8) (pf : PFromBody) (hfit : i < 65535)
    (hS : NaSafe b i pf)
    (hg : pf.state = .newParamVal ∨ pf.state = .newPossibleVal ∨ pf.state = .paramVal ∨ pf.state = .possibleVal)
    (hI : NnInv lo pf)
    {o : Nat} {e : Err} {st' : PFromBody} (hs : naStepV h b i c pf = .done o e st') : NnDone lo e st' := by
  unfold naStepV at hs
  split at hs
  · rcases hsk : skipLWS b i 0 with ⟨n, crl, e1⟩
    rw [hsk] at hs
    have hv := skipLWS_verdicts b i 0 hsk
    have hX := naValWS_safe b i i pf false hS (Nat.le_refl _) hS.hi
    rw [← naValWS_false pf i n] at hX
    rcases hv with rfl | rfl | rfl | rfl <;> simp only at hs
    · cases hs
    · simp only [Step.done.injEq] at hs
      obtain ⟨rfl, rfl, rfl⟩ := hs
      exact naEOH_nndone_at h b lo _ i n crl .ok (by decide) (by omega) hX (naValWS_nn_false b i n lo pf hS hg hI)
    · cases hs; exact NnDone.err (by decide) (by decide) (by decide)
    · cases hs; exact NnDone.more hI.saveS
  · repeat' (split at hs)
    all_goals first
      | exact naMoreValues_nndone h b lo _ i (by omega) hS hI hs
      | (cases hs <;> exact NnDone.err (by decide) (by decide) (by decide))

theorem naStepPE_nndone (h : Nat) (b : Buf) (i lo : Nat) (c : UInt8) (pf : PFromBody) (hfit : i < 65535)
    (hS : NaSafe b i pf) (hg : pf.state = .paramNameEnd ∨ pf.state = .possibleParamNameEnd) (hI : NnInv lo pf)
    {o : Nat} {e : Err} {st' : PFromBody} (hs : naStepPE h b i c pf = .done o e st') : NnDone lo e st' := by
  have hE := hS.endP hg
  have hK : pf.uri.offs + pf.uri.len ≤ pf.pend ∧ pf.tag.offs + pf.tag.len ≤ pf.pend := by
    have hI' := hI
    unfold NnInv at hI'
    rcases hg with g | g <;> rw [g] at hI' <;> simp only [NnSt, NnP] at hI' <;> omega
  unfold naStepPE at hs
  repeat' (split at hs)
  all_goals first
    | exact naCommaAfterWS_nndone h b lo pf i pf.pend (by omega) hS hI hS.pend
        (by rcases hg with g | g <;> rw [g] <;> decide) hE.1 hE.2 hK.1 hK.2
        (fun hh => by rcases hg with g | g <;> rw [g] at hh <;> rcases hh with hh | hh <;> cases hh) hs
    | (cases hs <;> exact NnDone.err (by decide) (by decide) (by decide))

theorem naStepVE_nndone (h : Nat) (b : Buf) (i lo : Nat) (c : UInt8) (pf : PFromBody) (hfit : i < 65535)
    (hS : NaSafe b i pf) (hg : pf.state = .paramValEnd ∨ pf.state = .possibleValEnd) (hI : NnInv lo pf)
    {o : Nat} {e : Err} {st' : PFromBody} (hs : naStepVE h b i c pf = .done o e st') : NnDone lo e st' := by
  have hE := hS.endV hg
  have hK : pf.uri.offs + pf.uri.len ≤ pf.vend ∧ pf.tag.offs + pf.tag.len ≤ pf.vend := by
    have hI' := hI
    unfold NnInv at hI'
    rcases hg with g | g <;> rw [g] at hI' <;> simp only [NnSt, NnP] at hI' <;> omega
  unfold naStepVE at hs
  repeat' (split at hs)
  all_goals first
    | exact naCommaAfterWS_nndone h b lo pf i pf.vend (by omega) hS hI hS.vend
        (by rcases hg with g | g <;> rw [g] <;> decide) hE.1 hE.2 hK.1 hK.2 (fun _ => Nat.le_refl _) hs
    | (cases hs <;> exact NnDone.err (by decide) (by decide) (by decide))

/-- **every exit of the loop body: a complete value is nested** -/
theorem naStep_nndone (h : Nat) (b : Buf) (i lo : Nat) (c : UInt8) (pf : PFromBody) (hfit : i < 65535) (hlo : lo ≤ i)
    (hS : NaSafe b i pf) (hI : NnInv lo pf)
    {o : Nat} {e : Err} {st' : PFromBody} (hs : naStep h b i c pf = .done o e st') : NnDone lo e st' := by
  unfold naStep at hs
  split at hs
  all_goals first
    | exact naStepA_nndone h b i lo c pf hfit hlo hS (by simp [*]) hI hs
    | exact naStepQ_nndone h b i lo c pf hfit hS hI hs
    | exact naStepU_nndone i lo c pf hs
    | exact naStepUF_nndone h b i lo c pf hfit hS hI hs
    | exact naStepP_nndone h b i lo c pf hfit hS (by simp [*]) hI hs
    | exact naStepPE_nndone h b i lo c pf hfit hS (by simp [*]) hI hs
    | exact naStepV_nndone h b i lo c pf hfit hS (by simp [*]) hI hs
    | exact naStepVE_nndone h b i lo c pf hfit hS (by simp [*]) hI hs
    | exact naStepStar_nndone h b i lo c pf hfit hS hI hs
    | cases hs

/-! ### ParseNameAddrPVal -/

theorem NnInv.soffs {lo : Nat} {pf : PFromBody} (k : Nat) (h : NnInv lo pf) : NnInv lo { pf with soffs := k } := by
  unfold NnInv at h ⊢
  show NnSt lo { pf with soffs := k } pf.state
  cases hst : pf.state <;> rw [hst] at h <;> exact h

/-- a step that suspends in the initial state leaves the initial state -/
theorem naStep_more_init (h : Nat) (b : Buf) (i : Nat) (c : UInt8) (pf : PFromBody) (hi : pf.state = .init)
    {o : Nat} {st' : PFromBody} (hs : naStep h b i c pf = .done o .moreBytes st') : st'.state = .init := by
  unfold naStep at hs
  rw [hi] at hs
  simp only at hs
  unfold naStepA at hs
  nn_state hi at hs
  repeat' (split at hs)
  all_goals first
    | (unfold naLWS at hs
       rw [lwsStd_more_state b i pf _ _ (fun s j n crl => naEOH_ne_more h b s j n crl .ok (by decide)) hs]
       exact hi)
    | exact absurd hs (naMoreValues_ne_more h b _ i)
    | cases hs

/-- a suspended run that has left the initial state has consumed at least one byte: the returned offset is
    positive -/
theorem na_more_pos (h : Nat) (b : Buf) (i : Nat) (pf : PFromBody) (h0 : pf.state = .init ∨ 0 < i)
    {o : Nat} {st' : PFromBody} (hr : runLoop (naMachine h) b i pf = (o, Err.moreBytes, st')) :
    st'.state = .init ∨ 0 < o := by
  have key := runLoop_inv (naMachine h) b (fun j st => st.state = .init ∨ 0 < j)
    (fun r => r.2.1 = .moreBytes → (r.2.2.state = .init ∨ 0 < r.1))
    (by
      intro j c st j' st' _ _ _
      exact ⟨fun hlt => Or.inr (by omega), fun _ hq => by cases hq⟩)
    (by
      intro j c st o2 e2 st2 hb hP hs hq
      subst hq
      change naStep h b j c st = .done o2 .moreBytes st2 at hs
      rcases hP with hP | hP
      · exact Or.inl (naStep_more_init h b j c st hP hs)
      · right
        rcases naStep_suspend h b j c st hs with ⟨rfl, _⟩ | ⟨_, st1, _, _, h3, _⟩
        · exact hP
        · unfold naLWS lwsStd at h3
          rcases hsk : skipLWS b j 0 with ⟨n, crl, e⟩
          rw [hsk] at h3
          have hrg := skipLWS_range b j 0 hsk
          cases e <;> simp only at h3
          case moreBytes => simp only [Step.done.injEq] at h3; omega
          case eoh =>
            exfalso
            have hne := naEOH_ne_more h b st1 j n crl .ok (by simp)
            simp only [Step.done.injEq] at h3
            exact hne h3.2.1
          all_goals cases h3)
    (by
      intro j st _ hP _
      simp only [naMachine]; exact hP)
    i pf h0
  rw [hr] at key
  exact key rfl

/-- what a caller may pass to have the nesting theorem: an object that is new, or was returned with MoreBytes by
    an earlier call of the same value parse (which started at `lo`), at an offset `o ≥ lo` -/
def NnEntry (b : Buf) (o lo : Nat) (pf : PFromBody) : Prop :=
  lo ≤ o ∧ pf.state ≠ .fin ∧ (pf.state = .init ∨ 0 < o) ∧
  NaSafe b o { pf with s := pf.soffs, soffs := 0 } ∧ NnInv lo { pf with s := pf.soffs, soffs := 0 }

theorem NnEntry_new (b : Buf) (o : Nat) (ho : o ≤ b.size) : NnEntry b o o {} := by
  refine ⟨Nat.le_refl _, by decide, Or.inl rfl, ?_, ?_⟩
  · rcases NaEntry_new b o ho with hE | hE
    · exact absurd hE.1 (by decide)
    · exact hE.2
  · unfold NnInv
    show NnSt o _ FBState.init
    simp only [NnSt, NnE]
    decide

/-- the entry condition does not depend on the bytes, only on the buffer being long enough -/
theorem NnEntry.grow {b b' : Buf} {o lo : Nat} {pf : PFromBody} (h : NnEntry b o lo pf) (hb : o ≤ b'.size) :
    NnEntry b' o lo pf := by
  obtain ⟨h1, h2, h3, h4, h5⟩ := h
  exact ⟨h1, h2, h3, ⟨⟨hb, h4.pend, h4.vend, h4.s, h4.name, h4.uri, h4.tag, h4.params, h4.v, h4.pnc⟩, h4.endP, h4.endV⟩, h5⟩

/-- **nesting theorem for ParseNameAddrPVal** (any header kind; buffers within the 65,535-byte limit): a parse of one
    value that started at `lo` on a new object — in one call, or continued over the objects returned with MoreBytes —
    and ends with OK or MoreValues leaves a value whose sub-fields are nested and ordered (`NaNest`) and which
    starts at or after `lo`; after MoreBytes the object is again a legitimate argument at the returned offset. -/
theorem parseNameAddrPVal_nest (h : Nat) (b : Buf) (o lo : Nat) (pf : PFromBody) (hfit : b.size ≤ 65535)
    (hE : NnEntry b o lo pf) {o' : Nat} {e : Err} {pf' : PFromBody}
    (hr : parseNameAddrPVal h b o pf = (o', e, pf')) :
    (Err.complete e → NaNest pf' ∧ lo ≤ pf'.v.offs) ∧ (e = .moreBytes → NnEntry b o' lo pf') := by
  obtain ⟨hlo, hnf, hpos, hS, hI⟩ := hE
  have hsafe := parseNameAddrPVal_safe h b o pf (Or.inr ⟨hnf, hS⟩) hr
  have hok : naOK b o pf := Or.inr ⟨hS.hi, hS.pend, hS.vend⟩
  have hr0 := hr
  unfold parseNameAddrPVal at hr
  rw [if_neg hnf] at hr
  simp only [Prod.mk.injEq] at hr
  have key := runLoop_inv (naMachine h) b
    (fun i st => lo ≤ i ∧ (st.state = .init ∨ 0 < i) ∧ NaSafe b i st ∧ NnInv lo st)
    (fun r => NnDone lo r.2.1 r.2.2)
    (by
      intro i c st i' st' hb hP hs
      have hlt := get?_lt hb
      refine ⟨fun hlt' => ⟨by omega, Or.inr (by omega), na_safeCont h b i c st i' st' hb hP.2.2.1 hs hlt',
        na_nnCont h b i lo c st (by omega) hP.1 hP.2.1 hP.2.2.1 hP.2.2.2 hs⟩, fun _ => ?_⟩
      exact NnDone.err (by intro hh; cases hh) (by intro hh; cases hh) (by intro hh; cases hh))
    (by
      intro i c st o1 e1 st1 hb hP hs
      have hlt := get?_lt hb
      exact naStep_nndone h b i lo c st (by omega) hP.1 hP.2.2.1 hP.2.2.2 hs)
    (by
      intro i st _ hP
      exact NnDone.more hP.2.2.2.saveS)
    o { pf with s := pf.soffs, soffs := 0 } ⟨hlo, hpos, hS, hI⟩
  rcases hrl : runLoop (naMachine h) b o { pf with s := pf.soffs, soffs := 0 } with ⟨o1, e1, p1⟩
  rw [hrl] at key hr
  simp only at key hr
  obtain ⟨rfl, rfl, rfl⟩ := hr
  refine ⟨fun hc => ?_, fun hm => ?_⟩
  · have hk := key.1 hc
    have hx : naExit pf.soffs e1 p1 = { p1 with s := 0 } := by
      unfold naExit
      rcases hc with hc | hc <;> rw [hc] <;> rfl
    rw [hx]
    exact ⟨NaNest.congr (p := p1) rfl rfl rfl rfl rfl hk.1, hk.2⟩
  · subst hm
    have hk := key.2 rfl
    have hI2 : naInv2 b o { pf with s := pf.soffs, soffs := 0 } := ⟨⟨hS.hi, hS.pend, hS.vend⟩, rfl⟩
    have hmi := na_more_inv h b o _ hI2 hnf hrl
    have hps := na_more_pos h b o { pf with s := pf.soffs, soffs := 0 } hpos hrl
    have hrg := parseNameAddrPVal_more_range h b o pf hok hr0
    have hEn := hsafe.2 rfl
    have hx : ({ naExit pf.soffs Err.moreBytes p1 with s := (naExit pf.soffs Err.moreBytes p1).soffs, soffs := 0 } : PFromBody) =
        { p1 with soffs := 0 } := by
      show ({ p1 with s := p1.soffs, soffs := 0 } : PFromBody) = { p1 with soffs := 0 }
      rw [hmi.2.2]
    refine ⟨by omega, hmi.2.1, hps, ?_, ?_⟩
    · rcases hEn with hEn | hEn
      · exact absurd hEn.1 hmi.2.1
      · exact hEn.2
    · rw [hx]; exact hk.soffs 0

/-! ### what `NaNest` says -/

theorem nn_unset {f : PField} (h : f.offs = 0 ∧ f.len = 0) : f = {} := by
  rcases f with ⟨a, l⟩
  obtain ⟨h1, h2⟩ := h
  simp only at h1 h2
  subst h1; subst h2; rfl

/-- **`NaNest`, spelled out** (a field `[offs, offs+len)`; an unset field is `{}` = `⟨0,0⟩`):
    * the URI lies inside the value;
    * the display name, if reported, starts inside the value and ends at or before the start of the URI;
    * the parameter span, if reported, starts at or after the end of the URI, inside the value, and ends exactly
      where the value ends;
    * the tag, if reported, lies inside the parameter span (which is then reported), hence inside the value. -/
theorem NaNest.meaning {pf : PFromBody} (h : NaNest pf) :
    (pf.v.offs ≤ pf.uri.offs ∧ pf.uri.offs + pf.uri.len ≤ pf.v.offs + pf.v.len) ∧
    (pf.name = {} ∨
      (pf.v.offs ≤ pf.name.offs ∧ pf.name.offs + pf.name.len ≤ pf.uri.offs ∧
       pf.name.offs + pf.name.len ≤ pf.v.offs + pf.v.len)) ∧
    (pf.params = {} ∨
      (pf.v.offs ≤ pf.params.offs ∧ pf.uri.offs + pf.uri.len ≤ pf.params.offs ∧
       pf.params.offs + pf.params.len = pf.v.offs + pf.v.len)) ∧
    (pf.tag = {} ∨
      (pf.params ≠ {} ∧ pf.params.offs ≤ pf.tag.offs ∧
       pf.tag.offs + pf.tag.len ≤ pf.params.offs + pf.params.len ∧
       pf.v.offs ≤ pf.tag.offs ∧ pf.tag.offs + pf.tag.len ≤ pf.v.offs + pf.v.len)) := by
  obtain ⟨a1, a2, a3, a4, a5, a6⟩ := h
  refine ⟨⟨a1, a2⟩, ?_, ?_, ?_⟩
  · rcases a3 with a3 | a3
    · exact Or.inl (nn_unset a3)
    · exact Or.inr ⟨a3, a4, by omega⟩
  · rcases a5 with a5 | a5
    · exact Or.inl (nn_unset a5)
    · exact Or.inr ⟨by omega, a5.1, a5.2⟩
  · rcases a6 with a6 | a6
    · exact Or.inl (nn_unset a6)
    · refine Or.inr ⟨?_, a6.2.1, a6.2.2, ?_, ?_⟩
      · intro hp
        have : pf.params.offs = 0 := by rw [hp]
        exact a6.1 this
      · rcases a5 with a5 | a5 <;> omega
      · rcases a5 with a5 | a5 <;> omega

/-- one call on a new object (the form used by the callers that parse a value in one go) -/
theorem parseNameAddrPVal_nest_new (h : Nat) (b : Buf) (o : Nat) (hfit : b.size ≤ 65535) (ho : o ≤ b.size)
    {o' : Nat} {e : Err} {pf' : PFromBody} (hr : parseNameAddrPVal h b o {} = (o', e, pf'))
    (hc : Err.complete e) : NaNest pf' ∧ o ≤ pf'.v.offs :=
  (parseNameAddrPVal_nest h b o o {} hfit (NnEntry_new b o ho) hr).1 hc

/-! ### non-vacuity (tests: closed computations on the model) -/

/-- test input: quoted display name with an escaped quote, URI with its own parameter, three header parameters
    (the tag in the middle), parsed from offset 2 -/
def nnExBuf : Buf := "xx\"Bob \\\" x\" <sip:a@b;x=y>;a=b;tag=xyz;c\r\n\r\n".toUTF8.data

example : (parseNameAddrPVal HdrFrom nnExBuf 2 {}).2.1 = Err.ok := by decide +kernel
example : (parseNameAddrPVal HdrFrom nnExBuf 2 {}).2.2.name = ⟨2, 11⟩ ∧
    (parseNameAddrPVal HdrFrom nnExBuf 2 {}).2.2.uri = ⟨14, 11⟩ ∧
    (parseNameAddrPVal HdrFrom nnExBuf 2 {}).2.2.params = ⟨27, 13⟩ ∧
    (parseNameAddrPVal HdrFrom nnExBuf 2 {}).2.2.tag = ⟨35, 3⟩ ∧
    (parseNameAddrPVal HdrFrom nnExBuf 2 {}).2.2.v = ⟨2, 38⟩ := by decide +kernel

/-- the theorem applies to it (its hypotheses are satisfiable on a non-trivial input) -/
example : NaNest (parseNameAddrPVal HdrFrom nnExBuf 2 {}).2.2 :=
  (parseNameAddrPVal_nest_new HdrFrom nnExBuf 2 (by decide +kernel) (by decide +kernel) rfl
    (Or.inl (by decide +kernel))).1

/-- test: a bare URI with parameters after white space, closed by a comma (MoreValues) -/
example : (parseNameAddrPVal HdrContact "sip:a@b ;tag=1 , <sip:c>\r\n\r\n".toUTF8.data 0 {}).2.1 = Err.moreValues ∧
    (parseNameAddrPVal HdrContact "sip:a@b ;tag=1 , <sip:c>\r\n\r\n".toUTF8.data 0 {}).2.2.params = ⟨9, 5⟩ ∧
    (parseNameAddrPVal HdrContact "sip:a@b ;tag=1 , <sip:c>\r\n\r\n".toUTF8.data 0 {}).2.2.tag = ⟨13, 1⟩ ∧
    (parseNameAddrPVal HdrContact "sip:a@b ;tag=1 , <sip:c>\r\n\r\n".toUTF8.data 0 {}).2.2.v = ⟨0, 14⟩ := by
  decide +kernel

/-- test: `*` — the URI field is the value itself -/
example : (parseNameAddrPVal HdrContact " * \r\n\r\n".toUTF8.data 0 {}).2.1 = Err.ok ∧
    (parseNameAddrPVal HdrContact " * \r\n\r\n".toUTF8.data 0 {}).2.2.uri = ⟨1, 1⟩ ∧
    (parseNameAddrPVal HdrContact " * \r\n\r\n".toUTF8.data 0 {}).2.2.v = ⟨1, 1⟩ := by decide +kernel

end Sipsp
