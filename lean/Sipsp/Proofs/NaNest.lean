/-
  Sipsp.Proofs.NaNest — nesting and order of the sub-fields of a name-addr value (From / To / Contact /
  P-Asserted-Identity), for EVERY input: after ParseNameAddrPVal says OK or MoreValues the display name, the URI,
  the parameter span and the tag lie inside the value `v`, in this order, the tag inside the parameter span.

  The proof is a loop invariant (`NnSt`, one clause per parser state) over the generic `runLoop` driver, carried
  along with the bounds invariant `NaSafe` of SafeNA.lean.
-/
import Sipsp.Proofs.SafeNALo

namespace Sipsp

/-! ### the finished value -/

/-- **nesting and order of the fields of a finished name-addr value.** Unset fields are `⟨0,0⟩`.
    A finished value always has its URI field set (for `*` it is the value itself). -/
structure NaNest (pf : PFromBody) : Prop where
  /-- the URI lies inside the value -/
  uriL : pf.v.offs ≤ pf.uri.offs
  uriU : pf.uri.offs + pf.uri.len ≤ pf.v.offs + pf.v.len
  /-- the display name, if any, starts inside the value … -/
  nameL : (pf.name.offs = 0 ∧ pf.name.len = 0) ∨ pf.v.offs ≤ pf.name.offs
  /-- … and ends at or before the start of the URI (an unset name has end 0) -/
  nameU : pf.name.offs + pf.name.len ≤ pf.uri.offs
  /-- the parameter span, if any, starts at or after the end of the URI and runs to the end of the value -/
  parL : (pf.params.offs = 0 ∧ pf.params.len = 0) ∨
    (pf.uri.offs + pf.uri.len ≤ pf.params.offs ∧ pf.params.offs + pf.params.len = pf.v.offs + pf.v.len)
  /-- the tag, if any, lies inside the parameter span (which is then set) -/
  tagL : (pf.tag.offs = 0 ∧ pf.tag.len = 0) ∨
    (pf.params.offs ≠ 0 ∧ pf.params.offs ≤ pf.tag.offs ∧ pf.tag.offs + pf.tag.len ≤ pf.params.offs + pf.params.len)

/-! ### the loop invariant -/

/-- head of the value is in place: URI inside the value, name before the URI and inside the value -/
def NnU (pf : PFromBody) : Prop :=
  pf.v.offs ≤ pf.uri.offs ∧ pf.name.offs + pf.name.len ≤ pf.uri.offs ∧
  pf.uri.offs + pf.uri.len ≤ pf.v.offs + pf.v.len ∧
  ((pf.name.offs = 0 ∧ pf.name.len = 0) ∨ pf.v.offs ≤ pf.name.offs)

/-- the parameter span has been opened after the URI; the tag, if any, starts inside it -/
def NnP (pf : PFromBody) : Prop :=
  pf.params.offs ≠ 0 ∧ pf.v.offs ≤ pf.params.offs ∧ pf.uri.offs + pf.uri.len ≤ pf.params.offs ∧
  ((pf.tag.offs = 0 ∧ pf.tag.len = 0) ∨ pf.params.offs ≤ pf.tag.offs)

/-- nothing but (perhaps) the URI has been reported yet; no parameter value is pending -/
def NnE (pf : PFromBody) : Prop :=
  pf.name.offs = 0 ∧ pf.name.len = 0 ∧ pf.params.offs = 0 ∧ pf.tag.offs = 0 ∧ pf.tag.len = 0 ∧
  pf.vstart = 0 ∧ pf.vend = 0

/-- the invariant, by parser state (`lo` = offset at which the parse of this value began) -/
def NnSt (lo : Nat) (pf : PFromBody) : FBState → Prop
  | .init => pf.uri.offs = 0 ∧ pf.uri.len = 0 ∧ NnE pf
  | .quoted | .name | .nameOrURI =>
    lo ≤ pf.v.offs ∧ pf.uri.offs = 0 ∧ pf.uri.len = 0 ∧ NnE pf ∧ pf.v.offs ≤ pf.s
  | .nameOrURIEnd => lo ≤ pf.v.offs ∧ NnE pf ∧ pf.v.offs ≤ pf.s ∧ NnU pf
  | .star => lo ≤ pf.v.offs ∧ NnE pf
  | .uri =>
    lo ≤ pf.v.offs ∧ pf.uri.offs = 0 ∧ pf.uri.len = 0 ∧ pf.params.offs = 0 ∧ pf.tag.offs = 0 ∧ pf.tag.len = 0 ∧
    pf.vstart = 0 ∧ pf.vend = 0 ∧ pf.v.offs ≤ pf.s ∧ pf.name.offs + pf.name.len ≤ pf.s ∧
    ((pf.name.offs = 0 ∧ pf.name.len = 0) ∨ pf.v.offs ≤ pf.name.offs)
  | .uriFound =>
    lo ≤ pf.v.offs ∧ NnU pf ∧ pf.params.offs = 0 ∧ pf.tag.offs = 0 ∧ pf.tag.len = 0 ∧ pf.vstart = 0 ∧ pf.vend = 0
  | .newParam | .newPossibleParam =>
    lo ≤ pf.v.offs ∧ NnU pf ∧ pf.vstart = 0 ∧ pf.vend = 0 ∧
    ((pf.params.offs = 0 ∧ pf.tag.offs = 0 ∧ pf.tag.len = 0) ∨ NnP pf)
  | .paramName | .possibleParamName => lo ≤ pf.v.offs ∧ NnU pf ∧ pf.vstart = 0 ∧ pf.vend = 0 ∧ NnP pf
  | .paramNameEnd | .possibleParamNameEnd =>
    lo ≤ pf.v.offs ∧ NnU pf ∧ pf.vstart = 0 ∧ pf.vend = 0 ∧ NnP pf ∧ pf.tag.offs + pf.tag.len ≤ pf.pend
  | .newParamVal | .newPossibleVal | .paramVal | .possibleVal | .quotedVal | .quotedPossibleVal =>
    lo ≤ pf.v.offs ∧ NnU pf ∧ NnP pf ∧ pf.params.offs ≤ pf.vstart
  | .paramValEnd | .possibleValEnd =>
    lo ≤ pf.v.offs ∧ NnU pf ∧ NnP pf ∧ pf.params.offs ≤ pf.vstart ∧ pf.tag.offs + pf.tag.len ≤ pf.vend
  | _ => True

/-- the loop invariant of the nesting proof -/
def NnInv (lo : Nat) (pf : PFromBody) : Prop := NnSt lo pf pf.state

/-! ### storing a parameter value -/

/-- what `setFromParamVal` does to the positional fields: only the tag can change, and only to the pending
    value span -/
theorem setFromParamVal_nn (b : Buf) (pf : PFromBody) :
    (setFromParamVal b pf).name = pf.name ∧ (setFromParamVal b pf).uri = pf.uri ∧
    (setFromParamVal b pf).v = pf.v ∧ (setFromParamVal b pf).params = pf.params ∧
    (setFromParamVal b pf).vstart = 0 ∧ (setFromParamVal b pf).vend = 0 ∧
    ((setFromParamVal b pf).tag = pf.tag ∨
      (pf.vstart < pf.vend ∧ (setFromParamVal b pf).tag = PField.set pf.vstart pf.vend)) := by
  unfold setFromParamVal
  have hq := fun val => setQ_same pf val
  by_cases c1 : (decide (pf.pstart < pf.pend) && decide (pf.vstart < pf.vend)) = true
  · rw [if_pos c1]
    simp only [Bool.and_eq_true, decide_eq_true_eq] at c1
    repeat' split
    all_goals
      refine ⟨?_, ?_, ?_, ?_, ?_, ?_, ?_⟩ <;> first
        | rfl
        | exact Or.inr ⟨c1.2, rfl⟩
        | exact Or.inl rfl
        | (simp only [PFromBody.clearPV]
           first | exact (hq _).1 | exact (hq _).2.1 | exact (hq _).2.2.2.2.1 | exact (hq _).2.2.2.1
                 | exact Or.inl (hq _).2.2.1)
  · rw [if_neg c1]
    repeat' split
    all_goals
      refine ⟨?_, ?_, ?_, ?_, ?_, ?_, ?_⟩ <;> first
        | rfl
        | exact Or.inl rfl

end Sipsp
