/-
  Sipsp.Proofs.Leftovers2 — small leftover statements (lemma file; names prefixed `lo2_`).

  (1) C13 / C04 — the accessors of the list objects for EVERY index.
        `lo2_getContact_cases`      complete case table of `GetContact(k)` (total function: never a panic)
        `lo2_getContact_isSome_iff` non-nil ⇔ k < VNo, or N > 0 and k is the first (0) or the last (N-1) index
        `lo2_getContact_none_of_ge` k ≥ N ⇒ nil
        `lo2_getPAI_none_iff`, `lo2_getPAI_cases`    `GetPAI(k)` nil ⇔ k ≥ VNo; otherwise the k-th stored value
        `lo2_getHdr_cases`, `lo2_getHdr_none_iff`    `GetHdr(t)` nil ⇔ t = HdrNone ∨ t ≥ HdrOther (table of 13 slots)
        `lo2_parseSIPMsg_hsize`, `lo2_run_hsize`     the table keeps its 13 slots through Init / ParseSIPMsg / schedules
        `lo2_first_last_reference`  after a successful run from Init (any schedule, any capacity incl. 0 / none)
                                    `GetContact(0)` / `GetContact(N-1)` are the values a reference run whose array holds
                                    everything stores at index 0 / N-1.
-/
import Sipsp.Proofs.CapacityExtra
import Sipsp.Proofs.HdrSpec

namespace Sipsp

/-! ## (1) accessors for every index -/

/-- complete case table of `GetContact(k)`, every `k` -/
theorem lo2_getContact_cases (c : PContacts) (k : Nat) :
    (k < c.vNo → c.getContact k = some c.vals[k]!) ∧
    (c.vNo ≤ k → c.n = 0 → c.getContact k = none) ∧
    (c.vNo ≤ k → c.n = k + 1 → c.getContact k = some c.last) ∧
    (c.vNo ≤ k → c.n ≠ 0 → c.n ≠ k + 1 → k = 0 → c.getContact k = some c.first) ∧
    (c.vNo ≤ k → c.n ≠ k + 1 → k ≠ 0 → c.getContact k = none) := by
  refine ⟨getContact_stored c k, ?_, ?_, ?_, ?_⟩
  · intro hv hn
    unfold PContacts.getContact PContacts.isEmpty
    rw [if_neg (by omega)]
    simp [hn]
  · intro hv hn
    unfold PContacts.getContact PContacts.isEmpty
    rw [if_neg (by omega)]
    simp [hn]
  · intro hv hn hn1 hk
    unfold PContacts.getContact PContacts.isEmpty
    subst hk
    rw [if_neg (by omega)]
    have e1 : (c.n == 0) = false := by simpa using hn
    have e2 : (c.n == 0 + 1) = false := by simpa using hn1
    simp only [e1, e2, Bool.false_eq_true, ↓reduceIte, beq_self_eq_true]
  · intro hv hn1 hk
    unfold PContacts.getContact PContacts.isEmpty
    rw [if_neg (by omega)]
    simp [hn1, hk]

/-- `GetContact(k)` is non-nil exactly for a stored index, or — when at least one value was parsed — for the first
    and the last index (scratch slots) -/
theorem lo2_getContact_isSome_iff (c : PContacts) (k : Nat) :
    (c.getContact k).isSome = true ↔ k < c.vNo ∨ (c.n > 0 ∧ (k = 0 ∨ k + 1 = c.n)) := by
  obtain ⟨h1, h2, h3, h4, h5⟩ := lo2_getContact_cases c k
  by_cases hv : k < c.vNo
  · rw [h1 hv]; simp [hv]
  · have hv' : c.vNo ≤ k := by omega
    by_cases hn : c.n = 0
    · rw [h2 hv' hn]; simp; omega
    · by_cases hl : c.n = k + 1
      · rw [h3 hv' hl]; simp; omega
      · by_cases hk : k = 0
        · rw [h4 hv' hn hl hk]; simp; omega
        · rw [h5 hv' hl hk]; simp; omega

/-- an index at or beyond the number of parsed values gives nil -/
theorem lo2_getContact_none_of_ge (c : PContacts) (k : Nat) (hk : c.n ≤ k) : c.getContact k = none := by
  have h := lo2_getContact_isSome_iff c k
  have hv := vNo_eq_min c
  cases hg : c.getContact k with
  | none => rfl
  | some x =>
    rw [hg] at h
    have := h.mp rfl
    omega

/-- `GetPAI(k)`: nil exactly outside `[0, VNo)` -/
theorem lo2_getPAI_none_iff (c : PPAIs) (k : Nat) : c.getPAI k = none ↔ c.vNo ≤ k := by
  constructor
  · intro h
    apply Nat.le_of_not_lt
    intro hk
    rw [getPAI_stored c k hk] at h
    cases h
  · exact getPAI_dropped c k

theorem lo2_getPAI_cases (c : PPAIs) (k : Nat) :
    (k < c.vNo → c.getPAI k = some c.vals[k]!) ∧ (c.vNo ≤ k → c.getPAI k = none) :=
  ⟨getPAI_stored c k, getPAI_dropped c k⟩

/-- `GetHdr(t)` for every `t`: the slot `t-1` of the first-of-type table for a known type, nil otherwise -/
theorem lo2_getHdr_cases (hl : HdrLst) (t : Nat) (hsz : hl.h.size = 13) :
    (HdrNone < t → t < HdrOther → hl.getHdr t = some hl.h[t - 1]!) ∧
    (t = HdrNone ∨ HdrOther ≤ t → hl.getHdr t = none) := by
  unfold HdrLst.getHdr
  constructor
  · intro h1 h2
    have hlt : t - 1 < hl.h.size := by unfold HdrOther at h2; omega
    simp [h1, h2, hlt]
  · intro h
    have : ¬ (HdrNone < t ∧ t < HdrOther) := by unfold HdrNone at *; omega
    simp only [gt_iff_lt, Bool.and_eq_true, decide_eq_true_eq, this, ↓reduceIte]

theorem lo2_getHdr_none_iff (hl : HdrLst) (t : Nat) (hsz : hl.h.size = 13) :
    hl.getHdr t = none ↔ (t = HdrNone ∨ HdrOther ≤ t) := by
  constructor
  · intro h
    apply Classical.byContradiction
    intro hn
    have h1 : HdrNone < t := by unfold HdrNone at *; omega
    have h2 : t < HdrOther := by omega
    rw [(lo2_getHdr_cases hl t hsz).1 h1 h2] at h
    cases h
  · exact (lo2_getHdr_cases hl t hsz).2

/-! ### the first-of-type table keeps its 13 slots -/

theorem lo2_setCur_h (hl : HdrLst) (x : Hdr) : (hl.setCur x).h = hl.h := by
  unfold HdrLst.setCur; split <;> rfl

theorem lo2_accept_hsize (hl : HdrLst) (x : Hdr) : (hl.accept x).h.size = hl.h.size := by
  unfold HdrLst.accept
  dsimp only
  split
  · simp only [setHdr_h_size]
  · simp only [setHdr_h_size]

theorem lo2_parseHeaders_hsize (b : Buf) (o : Nat) (hl : HdrLst) (hb : Option PHdrVals) :
    (parseHeaders b o hl hb).2.2.1.h.size = hl.h.size := by
  fun_induction parseHeaders b o hl hb with
  | case1 offs hl hb _ n h hb' _ hl' _ ih =>
    rw [ih]; show ((hl.setCur h).accept h).h.size = _; rw [lo2_accept_hsize, lo2_setCur_h]
  | case2 offs hl hb _ n h hb' _ hl' _ =>
    show ((hl.setCur h).accept h).h.size = _; rw [lo2_accept_hsize, lo2_setCur_h]
  | case3 => simp only [lo2_setCur_h]
  | case4 => simp only [lo2_setCur_h]
  | case5 => simp only [lo2_setCur_h]
  | case6 => rfl

theorem lo2_msgErr_hl (m : PSIPMsg) (o : Nat) (e : Err) (flags : Nat) : (msgErr m o e flags).2.2.hl = m.hl := by
  unfold msgErr; split
  · rfl
  · split <;> rfl

theorem lo2_msgBody_hl (b : Buf) (o : Nat) (m : PSIPMsg) (flags : Nat) : (msgBody b o m flags).2.2.hl = m.hl := by
  unfold msgBody msgEnd PSIPMsg.setBufs
  dsimp only
  repeat' split
  all_goals rfl

theorem lo2_msgHeaders_hsize (b : Buf) (o : Nat) (m : PSIPMsg) (flags : Nat) :
    (msgHeaders b o m flags).2.2.hl.h.size = m.hl.h.size := by
  have h := lo2_parseHeaders_hsize b o m.hl (some m.pv)
  unfold msgHeaders
  split
  · next o' hl' hb' heq => rw [lo2_msgBody_hl]; rw [heq] at h; exact h
  · next o' e hl' hb' _ heq => rw [lo2_msgErr_hl]; rw [heq] at h; exact h

theorem lo2_msgFLine_hsize (b : Buf) (o : Nat) (m : PSIPMsg) (flags : Nat) :
    (msgFLine b o m flags).2.2.hl.h.size = m.hl.h.size := by
  unfold msgFLine
  split
  · rw [lo2_msgHeaders_hsize]
  · rw [lo2_msgErr_hl]

/-- one ParseSIPMsg call never changes the number of slots of the first-of-type table -/
theorem lo2_parseSIPMsg_hsize (b : Buf) (o : Nat) (m : PSIPMsg) (flags : Nat) :
    (parseSIPMsg b o m flags).2.2.hl.h.size = m.hl.h.size := by
  unfold parseSIPMsg
  split
  · rw [lo2_msgFLine_hsize]
  · rw [lo2_msgFLine_hsize]
  · rw [lo2_msgHeaders_hsize]
  · rw [lo2_msgBody_hl]
  · rw [lo2_msgErr_hl]

theorem lo2_init_hsize (m : PSIPMsg) (len : Nat) (hd : Option (Array Hdr)) (ct : Option (Array PFromBody)) :
    (m.init len hd ct).hl.h.size = 13 := by
  simp [PSIPMsg.init, PSIPMsg.reset]

/-- … nor does a chain of resumed calls -/
theorem lo2_run_hsize (flags : Nat) (o : Nat) (m : PSIPMsg) (l : List Buf) :
    (resumeRun (fun b o m => parseSIPMsg b o m flags) o m l).2.2.hl.h.size = m.hl.h.size := by
  induction l generalizing o m with
  | nil => rfl
  | cons b rest ih =>
    cases rest with
    | nil => exact lo2_parseSIPMsg_hsize b o m flags
    | cons b' rest' =>
      simp only [resumeRun]
      have h1 := lo2_parseSIPMsg_hsize b o m flags
      rcases hp : parseSIPMsg b o m flags with ⟨o1, e1, s1⟩
      rw [hp] at h1
      by_cases hm : e1 = .moreBytes
      · subst hm
        simp only
        rw [ih o1 s1]; exact h1
      · cases e1 <;> first | exact absurd rfl hm | exact h1

/-- **`GetHdr` after Init and any chain of ParseSIPMsg calls**: total, nil exactly for `HdrNone`, `HdrOther` and
    unknown type numbers, otherwise the slot of that type -/
theorem lo2_getHdr_after_run (flags : Nat) (o : Nat) (m0 : PSIPMsg) (len : Nat) (hd : Option (Array Hdr))
    (ct : Option (Array PFromBody)) (l : List Buf) (t : Nat) :
    let m := (resumeRun (fun b o m => parseSIPMsg b o m flags) o (m0.init len hd ct) l).2.2
    (m.hl.getHdr t = none ↔ (t = HdrNone ∨ HdrOther ≤ t)) ∧
    (HdrNone < t → t < HdrOther → m.hl.getHdr t = some m.hl.h[t - 1]!) := by
  intro m
  have hsz : m.hl.h.size = 13 := by
    rw [lo2_run_hsize]; exact lo2_init_hsize m0 len hd ct
  exact ⟨lo2_getHdr_none_iff _ t hsz, (lo2_getHdr_cases _ t hsz).1⟩

/-! ### first / last contact = what a reference run with a large enough array stores -/

/-- `m2` plays the reference run: if its array holds index 0 (resp. all `N` values), then `GetContact(0)`
    (resp. `GetContact(N-1)`) of `m1` — whatever the capacity of `m1`, zero included — is that stored element -/
theorem lo2_MsgDoneX_reference {m1 m2 : PSIPMsg} (h : MsgDoneX m1 m2) (hn : m1.pv.contacts.n > 0) :
    (0 < m2.pv.contacts.vals.size → m1.pv.contacts.getContact 0 = some m2.pv.contacts.vals[0]!) ∧
    (m2.pv.contacts.n ≤ m2.pv.contacts.vals.size →
      m1.pv.contacts.getContact (m1.pv.contacts.n - 1) = some m2.pv.contacts.vals[m2.pv.contacts.n - 1]!) := by
  obtain ⟨hN, f, l, h1, h2, h3, h4⟩ := h.first_last hn
  have hv := vNo_eq_min m2.pv.contacts
  constructor
  · intro hs
    rw [h1, ← h2]
    exact getContact_stored _ 0 (by omega)
  · intro hs
    rw [h3, ← h4]
    exact getContact_stored _ _ (by omega)

/-- **from Init, every chunk schedule, every capacity (zero / none included)**: after OK with at least one contact,
    `GetContact(0)` is the element a reference run stores at index 0 and `GetContact(N-1)` the element it stores at
    index N-1 (reference = any run whose array has room for them) -/
theorem lo2_first_last_reference (flags : Nat) (o : Nat) (m0 m0' : PSIPMsg) (len kh1 kc1 kh2 kc2 : Nat)
    (hd1 ct1 hd2 ct2 : Option Unit) (l : List Buf) (hg : Growing l) (hfit : ∀ x ∈ l, x.size ≤ 65535)
    (ho : ∀ b ∈ l.head?, o ≤ b.size) (hne : l ≠ []) :
    let r1 := resumeRun (fun b o m => parseSIPMsg b o m flags) o
        (m0.init len (hd1.map fun _ => Array.replicate kh1 {}) (ct1.map fun _ => Array.replicate kc1 {})) l
    let r2 := resumeRun (fun b o m => parseSIPMsg b o m flags) o
        (m0'.init len (hd2.map fun _ => Array.replicate kh2 {}) (ct2.map fun _ => Array.replicate kc2 {})) l
    r1.2.1 = .ok → r1.2.2.pv.contacts.n > 0 →
      r2.2.1 = .ok ∧ r1.2.2.pv.contacts.n = r2.2.2.pv.contacts.n ∧
      (0 < r2.2.2.pv.contacts.vals.size →
        r1.2.2.pv.contacts.getContact 0 = some r2.2.2.pv.contacts.vals[0]!) ∧
      (r2.2.2.pv.contacts.n ≤ r2.2.2.pv.contacts.vals.size →
        r1.2.2.pv.contacts.getContact (r1.2.2.pv.contacts.n - 1) =
          some r2.2.2.pv.contacts.vals[r2.2.2.pv.contacts.n - 1]!) := by
  intro r1 r2 hok hn
  have hX : MsgOutX r1 r2 :=
    capacity_from_initX flags o m0 m0' len kh1 kc1 kh2 kc2 hd1 ct1 hd2 ct2 l hg hfit ho hne
  have hD := hX.2.2.2 hok
  have hr := lo2_MsgDoneX_reference hD hn
  exact ⟨by rw [← hX.2.1]; exact hok, hD.1.contacts_n, hr.1, hr.2⟩

/-! tests / non-vacuity for (1) (closed computations) -/

-- test: the case table on an object with capacity 1 that saw 3 values
example : let c : PContacts := { vals := #[{ expires := 1 }], n := 3, last := { expires := 3 }, first := { expires := 9 } }
    c.getContact 0 = some { expires := 1 } ∧ c.getContact 1 = none ∧ c.getContact 2 = some { expires := 3 } ∧
    c.getContact 3 = none ∧ c.getContact 1000 = none := by decide +kernel
-- test: capacity 0: the `first` slot
example : let c : PContacts := { vals := #[], n := 3, last := { expires := 3 }, first := { expires := 9 } }
    c.getContact 0 = some { expires := 9 } ∧ c.getContact 1 = none ∧ c.getContact 2 = some { expires := 3 } := by
  decide +kernel
-- test: GetHdr on a fresh object
example : (({} : PSIPMsg).init 0 none none).hl.getHdr 0 = none ∧ (({} : PSIPMsg).init 0 none none).hl.getHdr 14 = none ∧
    (({} : PSIPMsg).init 0 none none).hl.getHdr 99 = none ∧
    ((({} : PSIPMsg).init 0 none none).hl.getHdr 13).isSome = true := by decide +kernel
/-- non-vacuity of `lo2_MsgDoneX_reference`: the capacity-0 run of `CapacityExtra.exRun` against the capacity-5 run -/
example : (exRun 0 0).2.2.pv.contacts.getContact 0 = some (exRun 7 5).2.2.pv.contacts.vals[0]! ∧
    (exRun 0 0).2.2.pv.contacts.getContact 2 = some (exRun 7 5).2.2.pv.contacts.vals[2]! := by
  have hD := exRun_related.2.2.2 exRun_0_0.1
  have hn : (exRun 0 0).2.2.pv.contacts.n = 3 := exRun_0_0.2.1
  have hn2 : (exRun 7 5).2.2.pv.contacts.n = 3 := by rw [← hD.1.contacts_n]; exact hn
  have hs : (exRun 7 5).2.2.pv.contacts.vals.size = 5 := by decide +kernel
  have hr := lo2_MsgDoneX_reference hD (by omega)
  rw [hn, hn2, hs] at hr
  exact ⟨hr.1 (by omega), hr.2 (by omega)⟩

end Sipsp
