/-
  Sipsp.Proofs.Leftovers2 — small leftover statements (lemma file; names prefixed `lo2_`).

  (1) C13 / C04 — the accessors of the list objects for EVERY index.
        `lo2_getContact_cases`      complete case table of `GetContact(k)` (total function: never a panic)
        `lo2_getContact_isSome_iff` non-nil ⇔ k < VNo, or N > 0 and k is the first (0) or the last (N-1) index
        `lo2_getContact_none_of_ge` k ≥ N ⇒ nil
        `lo2_getPAI_none_iff`, `lo2_getPAI_cases`    `GetPAI(k)` nil ⇔ k ≥ VNo; otherwise the k-th stored value
        `lo2_getHdr_cases`, `lo2_getHdr_none_iff`    `GetHdr(t)` nil ⇔ t = HdrNone ∨ t ≥ HdrOther (table of 13 slots)
        `lo2_parseSIPMsg_hsize`, `lo2_run_hsize`     the table keeps its 13 slots through Init / ParseSIPMsg / schedules
        `lo2_first_last_reference`  after a successful run from Init (any schedule, any capacity incl. 0 / none)
                                    `GetContact(0)` / `GetContact(N-1)` are the values a reference run whose array holds
                                    everything stores at index 0 / N-1.
  (2) C05 — uniqueness of the per-line counts of `AfcAssoc` (AuditFixC).
        `lo2_counts_unique`          `val` spans of the lines in order without overlap (`lo2Apart`) and every counted
                                     value stored (`n ≤ vals.size`) ⇒ two count lists satisfying `AfcBlocks` are equal
        `lo2Apart_of_stored`         `lo2Apart` follows from `HlsLo` (FieldsLo) when every accepted line is stored
        `lo2_msg_counts_unique`      message level, contacts and identities
        `lo2_contact_counts_exists_unique_init`  one ParseSIPMsg call from Init: exactly one count list
      NOT claimed: uniqueness when contact VALUES were dropped (false: with capacity 0 every count list fits) or when
      header lines were dropped (the order of lines that are not stored is not derived).
  (3) C07 — `lo2_block_verdicts_in`, `lo2_block_verdicts_schedule_in`: the verdict list with the generic-treatment
      hypothesis restricted to the line starts below a bound `e'` chosen by the caller: verdict ∈ {OK, empty, MoreBytes,
      BadChar} or the text holds well-formed header lines from `o` up to a line start ≥ `e'` (`lo2Lines`).  This is the
      weaker form; the form with `e'` = the returned offset of a rejected block (needs: the returned offset of an
      error verdict is at or after the start of the rejected line, for typed lines as well) is NOT proved.
  (4) IPv6 — `lo2_i6_contains_first`: ContainsIP6 reports the first accepted candidate in the order of trial
      (`lo2I6Found`).  NOT proved: that the accepted prefix at a position is the longest scanner text there.
-/
import Sipsp.Proofs.CapacityExtra
import Sipsp.Proofs.HdrSpec
import Sipsp.Proofs.AuditFixC
import Sipsp.Proofs.FieldsLo
import Sipsp.Proofs.IP6Spec

namespace Sipsp

/-! ## (1) accessors for every index -/

/-- complete case table of `GetContact(k)`, every `k` -/
theorem lo2_getContact_cases (c : PContacts) (k : Nat) :
    (k < c.vNo → c.getContact k = some c.vals[k]!) ∧
    (c.vNo ≤ k → c.n = 0 → c.getContact k = none) ∧
    (c.vNo ≤ k → c.n = k + 1 → c.getContact k = some c.last) ∧
    (c.vNo ≤ k → c.n ≠ 0 → c.n ≠ k + 1 → k = 0 → c.getContact k = some c.first) ∧
    (c.vNo ≤ k → c.n ≠ k + 1 → k ≠ 0 → c.getContact k = none) := by
  refine ⟨getContact_stored c k, ?_, ?_, ?_, ?_⟩
  · intro hv hn
    unfold PContacts.getContact PContacts.isEmpty
    rw [if_neg (by omega)]
    simp [hn]
  · intro hv hn
    unfold PContacts.getContact PContacts.isEmpty
    rw [if_neg (by omega)]
    simp [hn]
  · intro hv hn hn1 hk
    unfold PContacts.getContact PContacts.isEmpty
    subst hk
    rw [if_neg (by omega)]
    have e1 : (c.n == 0) = false := by simpa using hn
    have e2 : (c.n == 0 + 1) = false := by simpa using hn1
    simp only [e1, e2, Bool.false_eq_true, ↓reduceIte, beq_self_eq_true]
  · intro hv hn1 hk
    unfold PContacts.getContact PContacts.isEmpty
    rw [if_neg (by omega)]
    simp [hn1, hk]

/-- `GetContact(k)` is non-nil exactly for a stored index, or — when at least one value was parsed — for the first
    and the last index (scratch slots) -/
theorem lo2_getContact_isSome_iff (c : PContacts) (k : Nat) :
    (c.getContact k).isSome = true ↔ k < c.vNo ∨ (c.n > 0 ∧ (k = 0 ∨ k + 1 = c.n)) := by
  obtain ⟨h1, h2, h3, h4, h5⟩ := lo2_getContact_cases c k
  by_cases hv : k < c.vNo
  · rw [h1 hv]; simp [hv]
  · have hv' : c.vNo ≤ k := by omega
    by_cases hn : c.n = 0
    · rw [h2 hv' hn]; simp; omega
    · by_cases hl : c.n = k + 1
      · rw [h3 hv' hl]; simp; omega
      · by_cases hk : k = 0
        · rw [h4 hv' hn hl hk]; simp; omega
        · rw [h5 hv' hl hk]; simp; omega

/-- an index at or beyond the number of parsed values gives nil -/
theorem lo2_getContact_none_of_ge (c : PContacts) (k : Nat) (hk : c.n ≤ k) : c.getContact k = none := by
  have h := lo2_getContact_isSome_iff c k
  have hv := vNo_eq_min c
  cases hg : c.getContact k with
  | none => rfl
  | some x =>
    rw [hg] at h
    have := h.mp rfl
    omega

/-- `GetPAI(k)`: nil exactly outside `[0, VNo)` -/
theorem lo2_getPAI_none_iff (c : PPAIs) (k : Nat) : c.getPAI k = none ↔ c.vNo ≤ k := by
  constructor
  · intro h
    apply Nat.le_of_not_lt
    intro hk
    rw [getPAI_stored c k hk] at h
    cases h
  · exact getPAI_dropped c k

theorem lo2_getPAI_cases (c : PPAIs) (k : Nat) :
    (k < c.vNo → c.getPAI k = some c.vals[k]!) ∧ (c.vNo ≤ k → c.getPAI k = none) :=
  ⟨getPAI_stored c k, getPAI_dropped c k⟩

/-- `GetHdr(t)` for every `t`: the slot `t-1` of the first-of-type table for a known type, nil otherwise -/
theorem lo2_getHdr_cases (hl : HdrLst) (t : Nat) (hsz : hl.h.size = 13) :
    (HdrNone < t → t < HdrOther → hl.getHdr t = some hl.h[t - 1]!) ∧
    (t = HdrNone ∨ HdrOther ≤ t → hl.getHdr t = none) := by
  unfold HdrLst.getHdr
  constructor
  · intro h1 h2
    have hlt : t - 1 < hl.h.size := by unfold HdrOther at h2; omega
    simp [h1, h2, hlt]
  · intro h
    have : ¬ (HdrNone < t ∧ t < HdrOther) := by unfold HdrNone at *; omega
    simp only [gt_iff_lt, Bool.and_eq_true, decide_eq_true_eq, this, ↓reduceIte]

theorem lo2_getHdr_none_iff (hl : HdrLst) (t : Nat) (hsz : hl.h.size = 13) :
    hl.getHdr t = none ↔ (t = HdrNone ∨ HdrOther ≤ t) := by
  constructor
  · intro h
    apply Classical.byContradiction
    intro hn
    have h1 : HdrNone < t := by unfold HdrNone at *; omega
    have h2 : t < HdrOther := by omega
    rw [(lo2_getHdr_cases hl t hsz).1 h1 h2] at h
    cases h
  · exact (lo2_getHdr_cases hl t hsz).2

/-! ### the first-of-type table keeps its 13 slots -/

theorem lo2_setCur_h (hl : HdrLst) (x : Hdr) : (hl.setCur x).h = hl.h := by
  unfold HdrLst.setCur; split <;> rfl

theorem lo2_accept_hsize (hl : HdrLst) (x : Hdr) : (hl.accept x).h.size = hl.h.size := by
  unfold HdrLst.accept
  dsimp only
  split
  · simp only [setHdr_h_size]
  · simp only [setHdr_h_size]

theorem lo2_parseHeaders_hsize (b : Buf) (o : Nat) (hl : HdrLst) (hb : Option PHdrVals) :
    (parseHeaders b o hl hb).2.2.1.h.size = hl.h.size := by
  fun_induction parseHeaders b o hl hb with
  | case1 offs hl hb _ n h hb' _ hl' _ ih =>
    rw [ih]; show ((hl.setCur h).accept h).h.size = _; rw [lo2_accept_hsize, lo2_setCur_h]
  | case2 offs hl hb _ n h hb' _ hl' _ =>
    show ((hl.setCur h).accept h).h.size = _; rw [lo2_accept_hsize, lo2_setCur_h]
  | case3 => simp only [lo2_setCur_h]
  | case4 => simp only [lo2_setCur_h]
  | case5 => simp only [lo2_setCur_h]
  | case6 => rfl

theorem lo2_msgErr_hl (m : PSIPMsg) (o : Nat) (e : Err) (flags : Nat) : (msgErr m o e flags).2.2.hl = m.hl := by
  unfold msgErr; split
  · rfl
  · split <;> rfl

theorem lo2_msgBody_hl (b : Buf) (o : Nat) (m : PSIPMsg) (flags : Nat) : (msgBody b o m flags).2.2.hl = m.hl := by
  unfold msgBody msgEnd PSIPMsg.setBufs
  dsimp only
  repeat' split
  all_goals rfl

theorem lo2_msgHeaders_hsize (b : Buf) (o : Nat) (m : PSIPMsg) (flags : Nat) :
    (msgHeaders b o m flags).2.2.hl.h.size = m.hl.h.size := by
  have h := lo2_parseHeaders_hsize b o m.hl (some m.pv)
  unfold msgHeaders
  split
  · next o' hl' hb' heq => rw [lo2_msgBody_hl]; rw [heq] at h; exact h
  · next o' e hl' hb' _ heq => rw [lo2_msgErr_hl]; rw [heq] at h; exact h

theorem lo2_msgFLine_hsize (b : Buf) (o : Nat) (m : PSIPMsg) (flags : Nat) :
    (msgFLine b o m flags).2.2.hl.h.size = m.hl.h.size := by
  unfold msgFLine
  split
  · rw [lo2_msgHeaders_hsize]
  · rw [lo2_msgErr_hl]

/-- one ParseSIPMsg call never changes the number of slots of the first-of-type table -/
theorem lo2_parseSIPMsg_hsize (b : Buf) (o : Nat) (m : PSIPMsg) (flags : Nat) :
    (parseSIPMsg b o m flags).2.2.hl.h.size = m.hl.h.size := by
  unfold parseSIPMsg
  split
  · rw [lo2_msgFLine_hsize]
  · rw [lo2_msgFLine_hsize]
  · rw [lo2_msgHeaders_hsize]
  · rw [lo2_msgBody_hl]
  · rw [lo2_msgErr_hl]

theorem lo2_init_hsize (m : PSIPMsg) (len : Nat) (hd : Option (Array Hdr)) (ct : Option (Array PFromBody)) :
    (m.init len hd ct).hl.h.size = 13 := by
  simp [PSIPMsg.init, PSIPMsg.reset]

/-- … nor does a chain of resumed calls -/
theorem lo2_run_hsize (flags : Nat) (o : Nat) (m : PSIPMsg) (l : List Buf) :
    (resumeRun (fun b o m => parseSIPMsg b o m flags) o m l).2.2.hl.h.size = m.hl.h.size := by
  induction l generalizing o m with
  | nil => rfl
  | cons b rest ih =>
    cases rest with
    | nil => exact lo2_parseSIPMsg_hsize b o m flags
    | cons b' rest' =>
      simp only [resumeRun]
      have h1 := lo2_parseSIPMsg_hsize b o m flags
      rcases hp : parseSIPMsg b o m flags with ⟨o1, e1, s1⟩
      rw [hp] at h1
      by_cases hm : e1 = .moreBytes
      · subst hm
        simp only
        rw [ih o1 s1]; exact h1
      · cases e1 <;> first | exact absurd rfl hm | exact h1

/-- **`GetHdr` after Init and any chain of ParseSIPMsg calls**: total, nil exactly for `HdrNone`, `HdrOther` and
    unknown type numbers, otherwise the slot of that type -/
theorem lo2_getHdr_after_run (flags : Nat) (o : Nat) (m0 : PSIPMsg) (len : Nat) (hd : Option (Array Hdr))
    (ct : Option (Array PFromBody)) (l : List Buf) (t : Nat) :
    let m := (resumeRun (fun b o m => parseSIPMsg b o m flags) o (m0.init len hd ct) l).2.2
    (m.hl.getHdr t = none ↔ (t = HdrNone ∨ HdrOther ≤ t)) ∧
    (HdrNone < t → t < HdrOther → m.hl.getHdr t = some m.hl.h[t - 1]!) := by
  intro m
  have hsz : m.hl.h.size = 13 := by
    rw [lo2_run_hsize]; exact lo2_init_hsize m0 len hd ct
  exact ⟨lo2_getHdr_none_iff _ t hsz, (lo2_getHdr_cases _ t hsz).1⟩

/-! ### first / last contact = what a reference run with a large enough array stores -/

/-- `m2` plays the reference run: if its array holds index 0 (resp. all `N` values), then `GetContact(0)`
    (resp. `GetContact(N-1)`) of `m1` — whatever the capacity of `m1`, zero included — is that stored element -/
theorem lo2_MsgDoneX_reference {m1 m2 : PSIPMsg} (h : MsgDoneX m1 m2) (hn : m1.pv.contacts.n > 0) :
    (0 < m2.pv.contacts.vals.size → m1.pv.contacts.getContact 0 = some m2.pv.contacts.vals[0]!) ∧
    (m2.pv.contacts.n ≤ m2.pv.contacts.vals.size →
      m1.pv.contacts.getContact (m1.pv.contacts.n - 1) = some m2.pv.contacts.vals[m2.pv.contacts.n - 1]!) := by
  obtain ⟨hN, f, l, h1, h2, h3, h4⟩ := h.first_last hn
  have hv := vNo_eq_min m2.pv.contacts
  constructor
  · intro hs
    rw [h1, ← h2]
    exact getContact_stored _ 0 (by omega)
  · intro hs
    rw [h3, ← h4]
    exact getContact_stored _ _ (by omega)

/-- **from Init, every chunk schedule, every capacity (zero / none included)**: after OK with at least one contact,
    `GetContact(0)` is the element a reference run stores at index 0 and `GetContact(N-1)` the element it stores at
    index N-1 (reference = any run whose array has room for them) -/
theorem lo2_first_last_reference (flags : Nat) (o : Nat) (m0 m0' : PSIPMsg) (len kh1 kc1 kh2 kc2 : Nat)
    (hd1 ct1 hd2 ct2 : Option Unit) (l : List Buf) (hg : Growing l) (hfit : ∀ x ∈ l, x.size ≤ 65535)
    (ho : ∀ b ∈ l.head?, o ≤ b.size) (hne : l ≠ []) :
    let r1 := resumeRun (fun b o m => parseSIPMsg b o m flags) o
        (m0.init len (hd1.map fun _ => Array.replicate kh1 {}) (ct1.map fun _ => Array.replicate kc1 {})) l
    let r2 := resumeRun (fun b o m => parseSIPMsg b o m flags) o
        (m0'.init len (hd2.map fun _ => Array.replicate kh2 {}) (ct2.map fun _ => Array.replicate kc2 {})) l
    r1.2.1 = .ok → r1.2.2.pv.contacts.n > 0 →
      r2.2.1 = .ok ∧ r1.2.2.pv.contacts.n = r2.2.2.pv.contacts.n ∧
      (0 < r2.2.2.pv.contacts.vals.size →
        r1.2.2.pv.contacts.getContact 0 = some r2.2.2.pv.contacts.vals[0]!) ∧
      (r2.2.2.pv.contacts.n ≤ r2.2.2.pv.contacts.vals.size →
        r1.2.2.pv.contacts.getContact (r1.2.2.pv.contacts.n - 1) =
          some r2.2.2.pv.contacts.vals[r2.2.2.pv.contacts.n - 1]!) := by
  intro r1 r2 hok hn
  have hX : MsgOutX r1 r2 :=
    capacity_from_initX flags o m0 m0' len kh1 kc1 kh2 kc2 hd1 ct1 hd2 ct2 l hg hfit ho hne
  have hD := hX.2.2.2 hok
  have hr := lo2_MsgDoneX_reference hD hn
  exact ⟨by rw [← hX.2.1]; exact hok, hD.1.contacts_n, hr.1, hr.2⟩

/-! tests / non-vacuity for (1) (closed computations) -/

-- test: the case table on an object with capacity 1 that saw 3 values
example : let c : PContacts := { vals := #[{ expires := 1 }], n := 3, last := { expires := 3 }, first := { expires := 9 } }
    c.getContact 0 = some { expires := 1 } ∧ c.getContact 1 = none ∧ c.getContact 2 = some { expires := 3 } ∧
    c.getContact 3 = none ∧ c.getContact 1000 = none := by decide +kernel
-- test: capacity 0: the `first` slot
example : let c : PContacts := { vals := #[], n := 3, last := { expires := 3 }, first := { expires := 9 } }
    c.getContact 0 = some { expires := 9 } ∧ c.getContact 1 = none ∧ c.getContact 2 = some { expires := 3 } := by
  decide +kernel
-- test: GetHdr on a fresh object
example : (({} : PSIPMsg).init 0 none none).hl.getHdr 0 = none ∧ (({} : PSIPMsg).init 0 none none).hl.getHdr 14 = none ∧
    (({} : PSIPMsg).init 0 none none).hl.getHdr 99 = none ∧
    ((({} : PSIPMsg).init 0 none none).hl.getHdr 13).isSome = true := by decide +kernel
/-- non-vacuity of `lo2_MsgDoneX_reference`: the capacity-0 run of `CapacityExtra.exRun` against the capacity-5 run -/
example : (exRun 0 0).2.2.pv.contacts.getContact 0 = some (exRun 7 5).2.2.pv.contacts.vals[0]! ∧
    (exRun 0 0).2.2.pv.contacts.getContact 2 = some (exRun 7 5).2.2.pv.contacts.vals[2]! := by
  have hD := exRun_related.2.2.2 exRun_0_0.1
  have hn : (exRun 0 0).2.2.pv.contacts.n = 3 := exRun_0_0.2.1
  have hn2 : (exRun 7 5).2.2.pv.contacts.n = 3 := by rw [← hD.1.contacts_n]; exact hn
  have hs : (exRun 7 5).2.2.pv.contacts.vals.size = 5 := by decide +kernel
  have hr := lo2_MsgDoneX_reference hD (by omega)
  rw [hn, hn2, hs] at hr
  exact ⟨hr.1 (by omega), hr.2 (by omega)⟩

/-! ## (2) C05: the per-line counts of `AfcAssoc` are unique when every line and every value is stored -/

theorem lo2_start_succ (cnt : List Nat) (i : Nat) (h : i < cnt.length) :
    hxStart cnt (i + 1) = hxStart cnt i + cnt[i] := by
  unfold hxStart
  rw [List.take_add_one, List.sum_append]
  simp [h]

/-- two lists with the same length and the same cumulative sums are equal -/
theorem lo2_eq_of_starts (cnt cnt' : List Nat) (hl : cnt.length = cnt'.length)
    (hs : ∀ i, i ≤ cnt.length → hxStart cnt i = hxStart cnt' i) : cnt = cnt' := by
  apply List.ext_getElem hl
  intro i h1 h2
  have a := lo2_start_succ cnt i h1
  have b := lo2_start_succ cnt' i h2
  have c := hs i (by omega)
  have d := hs (i + 1) (by omega)
  omega

/-- abstract core: `P i k` = "value `k` lies in line `i`"; if no value lies in two consecutive lines, the block
    decomposition (positive counts, same total) is unique -/
theorem lo2_counts_unique_core (P : Nat → Nat → Prop) (H n : Nat) (cnt cnt' : List Nat)
    (l1 : cnt.length = H) (l2 : cnt'.length = H) (p1 : ∀ c ∈ cnt, 0 < c) (p2 : ∀ c ∈ cnt', 0 < c)
    (s1 : cnt.sum = n) (s2 : cnt'.sum = n)
    (B1 : ∀ i, i < H → ∀ k, hxStart cnt i ≤ k → k < hxStart cnt (i + 1) → P i k)
    (B2 : ∀ i, i < H → ∀ k, hxStart cnt' i ≤ k → k < hxStart cnt' (i + 1) → P i k)
    (D : ∀ i k, P i k → ¬ P (i + 1) k) : cnt = cnt' := by
  apply lo2_eq_of_starts cnt cnt' (by omega)
  intro i
  induction i with
  | zero => intro _; rfl
  | succ i ih =>
    intro hi
    have e := ih (by omega)
    have hi1 : i < cnt.length := by omega
    have hi2 : i < cnt'.length := by omega
    have a := lo2_start_succ cnt i hi1
    have b := lo2_start_succ cnt' i hi2
    have pa : 0 < cnt[i] := p1 _ (List.getElem_mem hi1)
    have pb : 0 < cnt'[i] := p2 _ (List.getElem_mem hi2)
    have t1 : hxStart cnt (i + 1) ≤ n := by rw [← s1]; exact hxStart_le cnt (i + 1)
    have t2 : hxStart cnt' (i + 1) ≤ n := by rw [← s2]; exact hxStart_le cnt' (i + 1)
    have f1 : hxStart cnt cnt.length = n := by rw [hxStart_length]; exact s1
    have f2 : hxStart cnt' cnt'.length = n := by rw [hxStart_length]; exact s2
    rcases Nat.lt_trichotomy cnt[i] cnt'[i] with hlt | heq | hgt
    · -- the value `k = start (i+1)` of `cnt` is in block `i` of `cnt'` and in block `i+1` of `cnt`
      exfalso
      have hi3 : i + 1 < cnt.length := by
        apply Nat.lt_of_le_of_ne hi
        intro h; rw [h] at a; omega
      have a' := lo2_start_succ cnt (i + 1) hi3
      have pa' : 0 < cnt[i + 1] := p1 _ (List.getElem_mem hi3)
      exact D i (hxStart cnt (i + 1)) (B2 i (by omega) _ (by omega) (by omega))
        (B1 (i + 1) (by omega) _ (Nat.le_refl _) (by omega))
    · omega
    · exfalso
      have hi3 : i + 1 < cnt'.length := by
        apply Nat.lt_of_le_of_ne (by omega)
        intro h; rw [h] at b; omega
      have b' := lo2_start_succ cnt' (i + 1) hi3
      have pb' : 0 < cnt'[i + 1] := p2 _ (List.getElem_mem hi3)
      exact D i (hxStart cnt' (i + 1)) (B1 i (by omega) _ (by omega) (by omega))
        (B2 (i + 1) (by omega) _ (Nat.le_refl _) (by omega))

/-- the `val` spans of the accepted lines are in buffer order without overlap (a later line has an empty `val` or its
    `val` starts at or after the end of the `val` of every earlier line) -/
def lo2Apart (gs : List Hdr) : Prop :=
  ∀ j k, j < k → k < gs.length → gs[k]!.val.len = 0 ∨ gs[j]!.val.offs + gs[j]!.val.len ≤ gs[k]!.val.offs

/-- no non-empty value lies inside the `val` of two different lines -/
theorem lo2Apart.disjoint {gs : List Hdr} (A : lo2Apart gs) {j k : Nat} (hjk : j < k) (hk : k < gs.length)
    {v : PField} (h1 : PlIn gs[j]!.val v) (h2 : PlIn gs[k]!.val v) : False := by
  obtain ⟨a1, a2, a3⟩ := h1
  obtain ⟨_, b2, b3⟩ := h2
  rcases A j k hjk hk with h | h <;> omega

theorem lo2_hxIdx_sorted (ty : Nat) (tyOf : Nat → Nat) (N : Nat) : (hxIdx ty tyOf N).Pairwise (· < ·) := by
  unfold hxIdx
  exact List.Pairwise.filter _ List.pairwise_lt_range

theorem lo2_afcIdx_lt_succ {ty : Nat} {gs : List Hdr} {i j j' : Nat} (h1 : (afcIdx ty gs)[i]? = some j)
    (h2 : (afcIdx ty gs)[i + 1]? = some j') : j < j' := by
  have hs := lo2_hxIdx_sorted ty (fun j => gs[j]!.type) gs.length
  rw [List.pairwise_iff_getElem] at hs
  obtain ⟨a1, a2⟩ := List.getElem?_eq_some_iff.1 h1
  obtain ⟨b1, b2⟩ := List.getElem?_eq_some_iff.1 h2
  have := hs i (i + 1) a1 b1 (by omega)
  unfold afcIdx at a2 b2
  rw [a2, b2] at this
  exact this

/-- **the counts of `AfcAssoc` are unique** when the `val` spans of the lines do not overlap and every value counted is
    stored (`n ≤ vals.size`): two count lists that satisfy the conjuncts of `AfcAssoc` for the same object are equal -/
theorem lo2_counts_unique {ty : Nat} {gs : List Hdr} {vals : Array PFromBody} {n hNo : Nat} (A : lo2Apart gs)
    (hall : n ≤ vals.size) (hidx : (afcIdx ty gs).length = hNo) (cnt cnt' : List Nat)
    (l1 : cnt.length = hNo) (l2 : cnt'.length = hNo) (p1 : ∀ c ∈ cnt, 0 < c) (p2 : ∀ c ∈ cnt', 0 < c)
    (s1 : cnt.sum = n) (s2 : cnt'.sum = n) (B1 : AfcBlocks ty gs vals cnt) (B2 : AfcBlocks ty gs vals cnt') :
    cnt = cnt' := by
  apply lo2_counts_unique_core
    (fun i k => ∃ j, (afcIdx ty gs)[i]? = some j ∧ PlIn gs[j]!.val vals[k]!.v) hNo n cnt cnt' l1 l2 p1 p2 s1 s2
  · intro i hi k h1 h2
    have hj : i < (afcIdx ty gs).length := by omega
    refine ⟨(afcIdx ty gs)[i], List.getElem?_eq_getElem hj, ?_⟩
    have : hxStart cnt (i + 1) ≤ n := by rw [← s1]; exact hxStart_le cnt (i + 1)
    exact B1 i _ (List.getElem?_eq_getElem hj) k h1 h2 (by omega)
  · intro i hi k h1 h2
    have hj : i < (afcIdx ty gs).length := by omega
    refine ⟨(afcIdx ty gs)[i], List.getElem?_eq_getElem hj, ?_⟩
    have : hxStart cnt' (i + 1) ≤ n := by rw [← s2]; exact hxStart_le cnt' (i + 1)
    exact B2 i _ (List.getElem?_eq_getElem hj) k h1 h2 (by omega)
  · rintro i k ⟨j, hj, hp⟩ ⟨j', hj', hp'⟩
    exact A.disjoint (lo2_afcIdx_lt_succ hj hj') (afcIdx_lt hj').1 hp hp'

/-- the order hypothesis follows from the order of the STORED headers (`HlsLo`, FieldsLo) when every accepted line is
    stored -/
theorem lo2Apart_of_stored {gs : List Hdr} {hl : HdrLst} {s : Nat} (S : AfcStored gs hl) (L : HlsLo s hl)
    (hall : hl.n ≤ hl.hdrs.size) : lo2Apart gs := by
  intro j k hjk hk
  obtain ⟨e, hst⟩ := S
  rw [e] at hk
  have hk2 : k < hl.hdrs.size := by omega
  rw [← hst k hk hk2, ← hst j (by omega) (by omega)]
  have ho := (L.order j k hjk hk hk2).2
  have hsp := (L.stored k hk hk2).2.2
  have ho' : hl.hdrs[j]!.val.offs + hl.hdrs[j]!.val.len ≤ hl.hdrs[k]!.name.offs := ho
  rcases hsp with h | h
  · exact Or.inl h
  · exact Or.inr (by omega)

/-- **message level**: for an object that satisfies the pinned statement `AfcMsg gs m` and the order facts `HlsLo`
    (both proved for every successful ParseSIPMsg from Init: `afc_values_pinned_init`, `parseSIPMsg_lo_init`), with every
    accepted header line stored and every contact (resp. identity) value stored, the per-line counts are determined -/
theorem lo2_msg_counts_unique {gs : List Hdr} {m : PSIPMsg} {s : Nat} (M : AfcMsg gs m) (L : HlsLo s m.hl)
    (hall : m.hl.n ≤ m.hl.hdrs.size) :
    (m.pv.contacts.n ≤ m.pv.contacts.vals.size → ∀ cnt cnt' : List Nat,
      (cnt.length = m.pv.contacts.hNo ∧ (∀ c ∈ cnt, 0 < c) ∧ cnt.sum = m.pv.contacts.n ∧
        AfcBlocks HdrContact gs m.pv.contacts.vals cnt) →
      (cnt'.length = m.pv.contacts.hNo ∧ (∀ c ∈ cnt', 0 < c) ∧ cnt'.sum = m.pv.contacts.n ∧
        AfcBlocks HdrContact gs m.pv.contacts.vals cnt') → cnt = cnt') ∧
    (m.pv.pais.n ≤ m.pv.pais.vals.size → ∀ cnt cnt' : List Nat,
      (cnt.length = m.pv.pais.hNo ∧ (∀ c ∈ cnt, 0 < c) ∧ cnt.sum = m.pv.pais.n ∧
        AfcBlocks HdrPAI gs m.pv.pais.vals cnt) →
      (cnt'.length = m.pv.pais.hNo ∧ (∀ c ∈ cnt', 0 < c) ∧ cnt'.sum = m.pv.pais.n ∧
        AfcBlocks HdrPAI gs m.pv.pais.vals cnt') → cnt = cnt') := by
  have A := lo2Apart_of_stored M.stored L hall
  obtain ⟨_, hc, _⟩ := M.contacts
  obtain ⟨_, hp, _⟩ := M.pais
  exact ⟨fun hn cnt cnt' ⟨a1, a2, a3, a4⟩ ⟨b1, b2, b3, b4⟩ =>
      lo2_counts_unique A hn hc cnt cnt' a1 b1 a2 b2 a3 b3 a4 b4,
    fun hn cnt cnt' ⟨a1, a2, a3, a4⟩ ⟨b1, b2, b3, b4⟩ =>
      lo2_counts_unique A hn hp cnt cnt' a1 b1 a2 b2 a3 b3 a4 b4⟩

/-- **one ParseSIPMsg call from Init, OK, nothing dropped from the header array nor from the contact array**: there is
    EXACTLY ONE list of per-line counts for the contact values (existence: `afc_values_pinned_init`) -/
theorem lo2_contact_counts_exists_unique_init (b : Buf) (o : Nat) (m0 : PSIPMsg) (len kh kc : Nat)
    (hdrs cts : Option Unit) (flags : Nat) (hfit : b.size ≤ 65535) (ho : o ≤ b.size) {o' : Nat} {m' : PSIPMsg}
    (hr : parseSIPMsg b o (m0.init len (hdrs.map fun _ => Array.replicate kh {}) (cts.map fun _ => Array.replicate kc {}))
      flags = (o', .ok, m'))
    (hallH : m'.hl.n ≤ m'.hl.hdrs.size) (hallC : m'.pv.contacts.n ≤ m'.pv.contacts.vals.size) :
    let gs := afcMsgLines b o (m0.init len (hdrs.map fun _ => Array.replicate kh {}) (cts.map fun _ => Array.replicate kc {}))
    ∃ cnt : List Nat,
      (cnt.length = m'.pv.contacts.hNo ∧ (∀ c ∈ cnt, 0 < c) ∧ cnt.sum = m'.pv.contacts.n ∧
        AfcBlocks HdrContact gs m'.pv.contacts.vals cnt) ∧
      ∀ cnt' : List Nat, (cnt'.length = m'.pv.contacts.hNo ∧ (∀ c ∈ cnt', 0 < c) ∧ cnt'.sum = m'.pv.contacts.n ∧
        AfcBlocks HdrContact gs m'.pv.contacts.vals cnt') → cnt' = cnt := by
  intro gs
  have M := afc_values_pinned_init b o m0 len kh kc hdrs cts flags hfit ho hr
  have L := (parseSIPMsg_lo_init b o m0 len kh kc hdrs cts flags hfit ho hr).hl
  obtain ⟨cnt, c1, c2, c3, c4, c5⟩ := M.contacts
  exact ⟨cnt, ⟨c2, c3, c4, c5⟩, fun cnt' h' => (lo2_msg_counts_unique M L hallH).1 hallC cnt' cnt h' ⟨c2, c3, c4, c5⟩⟩

/-! tests / non-vacuity for (2): the message of `CapacityExtra.exMsg` (two Contact lines with 2 + 1 values) parsed in
    one call into arrays of 7 headers / 5 contacts: the hypotheses hold -/
def lo2ExM : Nat × Err × PSIPMsg :=
  parseSIPMsg exMsg 0 (({} : PSIPMsg).init 0 ((some ()).map fun _ => Array.replicate 7 {})
    ((some ()).map fun _ => Array.replicate 5 {})) 0

theorem lo2ExM_facts : lo2ExM.2.1 = Err.ok ∧ lo2ExM.2.2.hl.n ≤ lo2ExM.2.2.hl.hdrs.size ∧
    lo2ExM.2.2.pv.contacts.n ≤ lo2ExM.2.2.pv.contacts.vals.size ∧ lo2ExM.2.2.pv.contacts.n = 3 ∧
    lo2ExM.2.2.pv.contacts.hNo = 2 := by decide +kernel

example : ∃ cnt : List Nat, cnt.length = 2 ∧ cnt.sum = 3 ∧
    ∀ cnt' : List Nat, (cnt'.length = lo2ExM.2.2.pv.contacts.hNo ∧ (∀ c ∈ cnt', 0 < c) ∧
      cnt'.sum = lo2ExM.2.2.pv.contacts.n ∧
      AfcBlocks HdrContact (afcMsgLines exMsg 0 (({} : PSIPMsg).init 0 ((some ()).map fun _ => Array.replicate 7 {})
        ((some ()).map fun _ => Array.replicate 5 {}))) lo2ExM.2.2.pv.contacts.vals cnt') → cnt' = cnt := by
  have hr0 : lo2ExM = (lo2ExM.1, .ok, lo2ExM.2.2) := by
    rw [← lo2ExM_facts.1]
  have hr : parseSIPMsg exMsg 0 (({} : PSIPMsg).init 0 ((some ()).map fun _ => Array.replicate 7 {})
      ((some ()).map fun _ => Array.replicate 5 {})) 0 = (lo2ExM.1, .ok, lo2ExM.2.2) := hr0
  obtain ⟨cnt, ⟨a1, _, a3, _⟩, hu⟩ := lo2_contact_counts_exists_unique_init exMsg 0 {} 0 7 5 (some ()) (some ()) 0
    exMsg_fits.2 (Nat.zero_le _) hr lo2ExM_facts.2.1 lo2ExM_facts.2.2.1
  exact ⟨cnt, by rw [a1]; exact lo2ExM_facts.2.2.2.2, by rw [a3]; exact lo2ExM_facts.2.2.2.1, hu⟩

/-! ## (3) C07: the verdict list with the generic-treatment hypothesis restricted to a region `[o, e')`

  The weaker form that needs no offset-monotonicity fact: `e'` is ANY bound chosen by the caller (not the returned
  offset).  Either the verdict is one of the four, or the text from `o` consists of well-formed header lines up to a
  line start `o' ≥ e'` (the parser has left the region for which the hypothesis was made). -/

/-- header lines of the grammar one after the other from `o` to the line start `e` (no closing empty line) -/
inductive lo2Lines (b : Buf) : Nat → List Hdr → Nat → Prop
  | nil (o : Nat) : lo2Lines b o [] o
  | cons (o e1 e : Nat) (h : Hdr) (hs : List Hdr) : HdrLineAt b o e1 h → lo2Lines b e1 hs e → lo2Lines b o (h :: hs) e

theorem lo2_block_verdicts_core (b : Buf) (hb : Option PHdrVals) (hfit : b.size ≤ 65535) (e' : Nat) :
    ∀ (k o : Nat) (hl : HdrLst), b.size - o = k → HlsClean hl → hl.cur = {} → AfcGenericIn b o e' hb →
      ((parseHeaders b o hl hb).2.1 = .ok ∨ (parseHeaders b o hl hb).2.1 = .empty ∨
        (parseHeaders b o hl hb).2.1 = .moreBytes ∨ (parseHeaders b o hl hb).2.1 = .badChar) ∨
      (∃ hs o', lo2Lines b o hs o' ∧ e' ≤ o') := by
  intro k
  induction k using Nat.strongRecOn with
  | _ k ih =>
    intro o hl hk hc hcur hg
    by_cases hoe : o < e'
    · have hhere : hb = none ∨ IsOther (getHdrType (b.extract o (skipTokenDelim b o 58))) := by
        rcases hg with h | h
        · exact Or.inl h
        · exact Or.inr (h o (Or.inl rfl) hoe)
      rw [parseHeaders]
      by_cases hlt : o < b.size
      · rw [if_pos hlt, hcur]
        have hcases := hs_parseHdrLine_cases b o hb hfit hhere
        rcases hp : parseHdrLine b o {} hb with ⟨n, e1, h, hb1⟩
        rw [hp] at hcases
        rcases hcases with ⟨h1, hline, h2⟩ | ⟨h1, hempty, _, _⟩ | h1 | h1
        · have h1' : e1 = .ok := h1
          have h2' : hb1 = hb := h2
          subst h1' h2'
          have hgt := hline.gt
          simp only
          rw [if_pos hgt.1]
          have hcl := accept_clean hl h hc
          rcases ih (b.size - n) (by omega) n _ rfl hcl.1 hcl.2 (hg.next hline) with hv | ⟨hs, o', hch, hle⟩
          · exact Or.inl hv
          · exact Or.inr ⟨h :: hs, o', lo2Lines.cons o n o' h hs hline hch, hle⟩
        · have h1' : e1 = .empty := h1
          subst h1'
          simp only
          left
          split
          · exact Or.inl rfl
          · exact Or.inr (Or.inl rfl)
        · have h1' : e1 = .moreBytes := h1
          subst h1'
          exact Or.inl (Or.inr (Or.inr (Or.inl rfl)))
        · have h1' : e1 = .badChar := h1
          subst h1'
          exact Or.inl (Or.inr (Or.inr (Or.inr rfl)))
      · rw [if_neg hlt]
        exact Or.inl (Or.inr (Or.inr (Or.inl rfl)))
    · exact Or.inr ⟨[], o, lo2Lines.nil o, by omega⟩

/-- **one ParseHeaders call** (list object in the state of a new one), hypothesis restricted to the line starts below
    `e'`: the verdict is OK / empty / MoreBytes / BadChar, or the text holds header lines of the grammar from `o` up
    to a line start at or beyond `e'` -/
theorem lo2_block_verdicts_in (b : Buf) (o : Nat) (hl : HdrLst) (hb : Option PHdrVals) (hfit : b.size ≤ 65535)
    (hc : HlsClean hl) (hcur : hl.cur = {}) (e' : Nat) (hg : AfcGenericIn b o e' hb) :
    ((parseHeaders b o hl hb).2.1 = .ok ∨ (parseHeaders b o hl hb).2.1 = .empty ∨
      (parseHeaders b o hl hb).2.1 = .moreBytes ∨ (parseHeaders b o hl hb).2.1 = .badChar) ∨
    (∃ hs o', lo2Lines b o hs o' ∧ e' ≤ o') :=
  lo2_block_verdicts_core b hb hfit e' (b.size - o) o hl rfl hc hcur hg

/-- **every chunk schedule** (restricted form of `rc_block_verdicts_schedule`; `B` the last buffer) -/
theorem lo2_block_verdicts_schedule_in (o kh kc : Nat) (nil : Bool) (l : List Buf) (hg : Growing l) (B : Buf)
    (hB : l.getLast? = some B) (hfit : B.size ≤ 65535) (h0 : ∀ b ∈ l.head?, o ≤ b.size) (e' : Nat)
    (hgen : AfcGenericIn B o e' (rcHb nil kc)) :
    ((resumeRun afbHeadersP o (hsNew kh, rcHb nil kc) l).2.1 = .ok ∨
      (resumeRun afbHeadersP o (hsNew kh, rcHb nil kc) l).2.1 = .empty ∨
      (resumeRun afbHeadersP o (hsNew kh, rcHb nil kc) l).2.1 = .moreBytes ∨
      (resumeRun afbHeadersP o (hsNew kh, rcHb nil kc) l).2.1 = .badChar) ∨
    (∃ hs o', lo2Lines B o hs o' ∧ e' ≤ o') := by
  rw [(rc_headers_verdict_from o kh _ l hg B hB (rc_hbOK_all o kc nil hg h0)).2]
  exact lo2_block_verdicts_in B o (hsNew kh) _ hfit (hsNew_ok kh).1 (hsNew_ok kh).2 e' hgen

/-- non-vacuity of `lo2_block_verdicts_schedule_in`: the text `afcExG` of AuditFixC (a block `[0, 12)` followed by a body
    line that starts with `From`, so `HsGeneric` FAILS: `afcExG_not_generic`), values object present, four chunks, with
    the hypothesis for the line starts below 12 only -/
example : ((resumeRun afbHeadersP 0 (hsNew 1, rcHb false 0) afcExGCuts).2.1 = .ok ∨
      (resumeRun afbHeadersP 0 (hsNew 1, rcHb false 0) afcExGCuts).2.1 = .empty ∨
      (resumeRun afbHeadersP 0 (hsNew 1, rcHb false 0) afcExGCuts).2.1 = .moreBytes ∨
      (resumeRun afbHeadersP 0 (hsNew 1, rcHb false 0) afcExGCuts).2.1 = .badChar) ∨
    (∃ hs o', lo2Lines afcExG 0 hs o' ∧ 12 ≤ o') := by
  have hg : Growing afcExGCuts :=
    ⟨⟨afcExG.extract 2 7, by decide +kernel⟩, ⟨afcExG.extract 7 11, by decide +kernel⟩,
     ⟨afcExG.extract 11 afcExG.size, by decide +kernel⟩, trivial⟩
  exact lo2_block_verdicts_schedule_in 0 1 0 false afcExGCuts hg afcExG rfl (by decide +kernel)
    (fun _ _ => Nat.zero_le _) 12 (afcExG_generic_in _)
-- test: here the first alternative is the one that holds
example : (resumeRun afbHeadersP 0 (hsNew 1, rcHb false 0) afcExGCuts).2.1 = .ok := by decide +kernel

/-! ## (4) IPv6: ContainsIP6 reports the FIRST accepted candidate in the order in which it tries positions

  Order of the tried positions, made explicit by `lo2I6Found b i d p`: the search (re)started at `i` goes from colon to
  colon (`indexByteFrom`); for the colon at `d0` it tries the window `[d0-5, d0)` (or `[i, d0)` when `d0 < 5`) in
  ascending order; if every position of the window is rejected it restarts at `d0 + 1`.  `p` is reported for the colon
  `d` when every window before was rejected entirely and `p` is the least accepted position of the window of `d`.
  (Windows of successive colons can overlap, and a later window can reach further LEFT than an earlier reported
  position would: the statement is about the order of trial, not about the smallest position of the whole buffer.) -/

/-- first position of the window tried for the colon at `d` when the search was (re)started at `i` -/
def lo2I6Win (i d : Nat) : Nat := if d ≥ 5 then d - 5 else i

inductive lo2I6Found (b : Buf) : Nat → Nat → Nat → Prop
  | here (i d p : Nat) : i < b.size → indexByteFrom b i 58 = some d → lo2I6Win i d ≤ p → p < d →
      (ip6PrefixAt b p).1 = true → (∀ k, lo2I6Win i d ≤ k → k < p → (ip6PrefixAt b k).1 = false) → lo2I6Found b i d p
  | later (i d0 d p : Nat) : i < b.size → indexByteFrom b i 58 = some d0 →
      (∀ k, lo2I6Win i d0 ≤ k → k < d0 → (ip6PrefixAt b k).1 = false) → lo2I6Found b (d0 + 1) d p →
      lo2I6Found b i d p

theorem lo2_i6_loop_first (b : Buf) (i : Nat) {r : Nat × Nat × Array Nat × Bool}
    (h : containsIP6Loop b i = some r) : ∃ d, lo2I6Found b i d r.1 := by
  fun_induction containsIP6Loop b i with
  | case1 i hlt hidx => cases h
  | case2 i hlt dOffs hidx offs r' htry =>
    cases h
    obtain ⟨h1, h2, _, ⟨e, h4⟩, h5⟩ := i6_try_some b offs dOffs htry
    exact ⟨dOffs, lo2I6Found.here i dOffs r.1 hlt hidx h1 h2 (by rw [h4]) h5⟩
  | case3 i hlt dOffs hidx offs htry hg ih =>
    obtain ⟨d, hf⟩ := ih h
    exact ⟨d, lo2I6Found.later i dOffs d r.1 hlt hidx (i6_try_none b offs dOffs htry) hf⟩
  | case4 i hlt dOffs hidx offs htry hg => cases h
  | case5 i hlt => cases h

/-- **ContainsIP6 reports the first accepted candidate in trial order** -/
theorem lo2_i6_contains_first (b : Buf) {r : Nat × Nat × Array Nat × Bool} (h : containsIP6 b = some r) :
    ∃ d, lo2I6Found b 0 d r.1 := lo2_i6_loop_first b 0 h

/-! test / non-vacuity for (4): in "ab 1::2" the colon at 4 gives the window [0, 4); positions 0, 1, 2 are rejected,
    position 3 is reported -/
def lo2Ex6 : Buf := "ab 1::2".toUTF8.data
theorem lo2Ex6_pos : (containsIP6 lo2Ex6).map (·.1) = some 3 := by decide +kernel
example : ∃ d, lo2I6Found lo2Ex6 0 d 3 := by
  have hp := lo2Ex6_pos
  rcases hc : containsIP6 lo2Ex6 with _ | r
  · rw [hc] at hp; cases hp
  · rw [hc] at hp
    have h3 : r.1 = 3 := by simpa using hp
    rw [← h3]
    exact lo2_i6_contains_first lo2Ex6 hc

end Sipsp
