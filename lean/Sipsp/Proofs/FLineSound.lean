/-
  Sipsp.Proofs.FLineSound — SOUNDNESS of ParseFLine: whenever the verdict is OK on a new object, the consumed
  text is a line of the request / reply grammar and the reported fields are exactly its components.
  (Converse of Sipsp.Proofs.FLineSpec.)
-/
import Sipsp.Proofs.FLineSpec
import Sipsp.Proofs.EqFold

namespace Sipsp

/-! ### the scanners, read backwards: what lies between the start and the stop position -/

theorem fs_skipToken_ge (b : Buf) (i : Nat) : i ≤ skipToken b i := by
  fun_induction skipToken b i with
  | case1 i hb => exact Nat.le_refl _
  | case2 i c hb hl => exact Nat.le_refl _
  | case3 i c hb hl ih => omega

theorem fs_skipToEOL_ge (b : Buf) (i : Nat) : i ≤ skipToEOL b i := by
  fun_induction skipToEOL b i with
  | case1 i hb => exact Nat.le_refl _
  | case2 i c hb hl => exact Nat.le_refl _
  | case3 i c hb hl ih => omega

/-- everything `skipToken` skipped is a present byte other than SP / HT / CR / LF -/
theorem fs_skipToken_run (b : Buf) (i : Nat) : TokenRun b i (skipToken b i) := by
  fun_induction skipToken b i with
  | case1 i hb => intro k h1 h2; omega
  | case2 i c hb hl => intro k h1 h2; omega
  | case3 i c hb hl ih =>
    intro k h1 h2
    rcases Nat.eq_or_lt_of_le h1 with h | h
    · subst h; exact ⟨c, hb, by simpa using hl⟩
    · exact ih k (by omega) h2

/-- everything `skipToEOL` skipped is a present byte other than CR / LF -/
theorem fs_skipToEOL_run (b : Buf) (i : Nat) : LineRun b i (skipToEOL b i) := by
  fun_induction skipToEOL b i with
  | case1 i hb => intro k h1 h2; omega
  | case2 i c hb hl => intro k h1 h2; omega
  | case3 i c hb hl ih =>
    intro k h1 h2
    rcases Nat.eq_or_lt_of_le h1 with h | h
    · subst h; exact ⟨c, hb, by simpa using hl⟩
    · exact ih k (by omega) h2

/-- `skipCRLF` says OK only on a CR or LF -/
theorem fs_skipCRLF_ok {b : Buf} {i e crl : Nat} (h : skipCRLF b i = (e, crl, Err.ok)) :
    ∃ c, b[i]? = some c ∧ (c = 13 ∨ c = 10) := by
  unfold skipCRLF at h
  split at h
  · split at h
    · split at h <;> cases h
    · cases h
  · split at h
    · cases h
    · rename_i c0 h0
      refine ⟨c0, h0, ?_⟩
      by_cases h13 : (c0 == 13) = true
      · left; simpa using h13
      · rw [if_neg h13] at h
        by_cases h10 : (c0 == 10) = true
        · right; simpa using h10
        · rw [if_neg h10] at h; cases h

end Sipsp
