/-
  Sipsp.Proofs.FLineSound — SOUNDNESS of ParseFLine (property C08, the "rejected rather than mis-split" clause):
  the converse of Sipsp.Proofs.FLineSpec, for EVERY buffer of at most 65,535 bytes, every offset, a new object.

  Grammar (predicates, all positions explicit):
    * `FsReqLine b o m u v e`     : `b[o,m) SP b[m+1,u) SP b[u+1,v) EOL`, three non-empty runs of bytes other than
                                    SP / HT / CR / LF, the line end at `v`, the next line at `e`, the first eight bytes
                                    not `SIP/2.0 SP` in any letter case (`fs_ver_iff`), 14 bytes available;
    * `FsStatusLine b o v e d0 d1 d2` : `SIP/2.0` (any letter case) `SP d0 d1 d2 SP b[o+12,v) EOL`, three digits, a
                                    reason without CR / LF (possibly empty);
    * `fsReqObj`, `fsRplObj`      : the objects reported for them.
  Proved:
    * `parseFLine_sound`          : `parseFLine b o {} = (e, OK, st)` → the text at `o` is a request line and
                                    `st = fsReqObj …` (method / uri / version spans, `methodNo = getMethodNo (method
                                    text)`), or a status line and `st = fsRplObj …` (status = value of the digits);
    * `fline_ok_iff`, `fline_ok_iff_at`, `fline_reject` : OK iff the text at `o` is a line of one of the two grammars;
    * `fs_short`                  : fewer than 14 bytes available: `(o, MoreBytes, {})`, never OK;
    * `fline_never_missplit`      : after OK the reported spans tile the line: each next span starts one byte (an SP)
                                    after the previous one, no SP / HT / CR / LF inside (reason: no CR / LF), the line
                                    end directly after the last span, the fields of the other shape untouched;
    * `fs_req_unique`, `fs_status_unique`, `fs_req_not_status`, `fs_req_positions` : there is one way to read a line;
    * `fline_request_iff`, `fline_reply_of_status`, `fs_status_value` : `Request()` (status = 0) vs reply; the status
                                    is 100·d0 + 10·d1 + d2 ≤ 999 and is 0 only for `000`;
    * `fs_req_texts`, `fs_rpl_texts` : the reported fields read back (`Get`) exactly the tokens / digits / reason;
    * `fs_skipCRLF_ok_shape`      : the accepted line ends (CR LF; CR + other byte; LF + any byte);
    * `fs_verdicts`, `fs_more_at_end`, `fline_classify` : the only verdicts are OK / MoreBytes / BadChar (never NoCR);
                                    MoreBytes only when the buffer is exhausted; BadChar iff a decided non-line;
    * `fs_reject_after_version`   : SP / HT after the version (e.g. a fourth token): BadChar at that byte;
    * `parseFLine_sound_resumed`, `fs_resumed_eq`, `fs_resumed_oneshot` : the same for objects resumed after any number
                                    of MoreBytes rounds (`FsResumed`), by the L2 theorem `parseFLine_resume`.
  Behaviour of the model worth knowing (tests at the end of the file; the Go source does the same):
    * `SIP/2.0 000 x` is accepted as a reply with status 0; `Request()` is false for it since the repair 07883de
      (`fline_request_iff`, `fline_reply_iff`);
    * tokens are runs of ANY bytes other than SP / HT / CR / LF (NUL, control and 8-bit bytes included) and the version
      of a request is not compared with `SIP/2.0` — this is the grammar as stated, nothing more is checked.
  Not proved here: nothing of the task is left open; objects in an arbitrary (not reached by resuming) state are
  outside the statements.
-/
import Sipsp.Proofs.FLineSpec
import Sipsp.Proofs.EqFold

namespace Sipsp

/-! ### the scanners, read backwards: what lies between the start and the stop position -/

theorem fs_skipToken_ge (b : Buf) (i : Nat) : i ≤ skipToken b i := by
  fun_induction skipToken b i with
  | case1 i hb => exact Nat.le_refl _
  | case2 i c hb hl => exact Nat.le_refl _
  | case3 i c hb hl ih => omega

theorem fs_skipToEOL_ge (b : Buf) (i : Nat) : i ≤ skipToEOL b i := by
  fun_induction skipToEOL b i with
  | case1 i hb => exact Nat.le_refl _
  | case2 i c hb hl => exact Nat.le_refl _
  | case3 i c hb hl ih => omega

/-- everything `skipToken` skipped is a present byte other than SP / HT / CR / LF -/
theorem fs_skipToken_run (b : Buf) (i : Nat) : TokenRun b i (skipToken b i) := by
  fun_induction skipToken b i with
  | case1 i hb => intro k h1 h2; omega
  | case2 i c hb hl => intro k h1 h2; omega
  | case3 i c hb hl ih =>
    intro k h1 h2
    rcases Nat.eq_or_lt_of_le h1 with h | h
    · subst h; exact ⟨c, hb, by simpa using hl⟩
    · exact ih k (by omega) h2

/-- everything `skipToEOL` skipped is a present byte other than CR / LF -/
theorem fs_skipToEOL_run (b : Buf) (i : Nat) : LineRun b i (skipToEOL b i) := by
  fun_induction skipToEOL b i with
  | case1 i hb => intro k h1 h2; omega
  | case2 i c hb hl => intro k h1 h2; omega
  | case3 i c hb hl ih =>
    intro k h1 h2
    rcases Nat.eq_or_lt_of_le h1 with h | h
    · subst h; exact ⟨c, hb, by simpa using hl⟩
    · exact ih k (by omega) h2

/-- `skipCRLF` says OK only on a CR or LF -/
theorem fs_skipCRLF_ok {b : Buf} {i e crl : Nat} (h : skipCRLF b i = (e, crl, Err.ok)) :
    ∃ c, b[i]? = some c ∧ (c = 13 ∨ c = 10) := by
  unfold skipCRLF at h
  split at h
  · split at h
    · split at h <;> cases h
    · cases h
  · split at h
    · cases h
    · rename_i c0 h0
      refine ⟨c0, h0, ?_⟩
      by_cases h13 : (c0 == 13) = true
      · left; simpa using h13
      · rw [if_neg h13] at h
        by_cases h10 : (c0 == 10) = true
        · right; simpa using h10
        · rw [if_neg h10] at h; cases h

/-! ### the request branch, read backwards -/

theorem fs_flCRLF_ok (b : Buf) (i : Nat) (pl : PFLine) {e : Nat} {st : PFLine}
    (h : flCRLF b i pl = (e, Err.ok, st)) : ∃ crl, skipCRLF b i = (e, crl, Err.ok) := by
  unfold flCRLF at h
  rcases hs : skipCRLF b i with ⟨n, crl, er⟩
  rw [hs] at h
  cases er <;> simp only at h <;> cases h
  exact ⟨crl, rfl⟩

theorem fs_flReqVer_ok (b : Buf) (i : Nat) (pl : PFLine) (hfit : b.size ≤ 65535)
    (hv : pl.version = PField.set i i) {e : Nat} {st : PFLine} (h : flReqVer b i pl = (e, Err.ok, st)) :
    i < skipToken b i ∧ (∃ c, b[skipToken b i]? = some c ∧ (c = 13 ∨ c = 10)) ∧
      ∃ crl, skipCRLF b (skipToken b i) = (e, crl, Err.ok) := by
  have hge := fs_skipToken_ge b i
  unfold flReqVer at h
  simp only at h
  cases hj : b[skipToken b i]? with
  | none => rw [hj] at h; simp only at h; cases h
  | some c =>
    rw [hj] at h; simp only at h
    have hjl := get?_lt hj
    by_cases hc : (c != 13 && c != 10) = true
    · rw [if_pos hc] at h; cases h
    · rw [if_neg hc] at h
      rw [hv, set_extend i _ hge (by omega)] at h
      by_cases hem : (PField.isEmpty ⟨i, skipToken b i - i⟩) = true
      · rw [if_pos hem] at h; cases h
      · rw [if_neg hem] at h
        refine ⟨?_, ⟨c, rfl, ?_⟩, fs_flCRLF_ok b _ _ h⟩
        · unfold PField.isEmpty at hem
          simp only [beq_iff_eq] at hem
          omega
        · simp only [Bool.and_eq_true, bne_iff_ne, ne_eq, not_and, Decidable.not_not] at hc
          by_cases h13 : c = 13
          · exact Or.inl h13
          · exact Or.inr (hc h13)

theorem fs_flReqURI_ok (b : Buf) (i : Nat) (pl : PFLine) (hfit : b.size ≤ 65535)
    (hv : pl.uri = PField.set i i) {e : Nat} {st : PFLine} (h : flReqURI b i pl = (e, Err.ok, st)) :
    i < skipToken b i ∧ b[skipToken b i]? = some 32 ∧
      ∃ pl1, pl1.version = PField.set (skipToken b i + 1) (skipToken b i + 1) ∧
        flReqVer b (skipToken b i + 1) pl1 = (e, Err.ok, st) := by
  have hge := fs_skipToken_ge b i
  unfold flReqURI at h
  simp only at h
  cases hj : b[skipToken b i]? with
  | none => rw [hj] at h; simp only at h; cases h
  | some c =>
    rw [hj] at h; simp only at h
    have hjl := get?_lt hj
    by_cases hc : (c != 32) = true
    · rw [if_pos hc] at h; cases h
    · rw [if_neg hc] at h
      rw [hv, set_extend i _ hge (by omega)] at h
      by_cases hem : (PField.isEmpty ⟨i, skipToken b i - i⟩) = true
      · rw [if_pos hem] at h; cases h
      · rw [if_neg hem] at h
        refine ⟨?_, ?_, _, ?_, h⟩
        · unfold PField.isEmpty at hem
          simp only [beq_iff_eq] at hem
          omega
        · simp only [bne_iff_ne, ne_eq, Decidable.not_not] at hc
          rw [hc]
        · rfl

theorem fs_flReqMethod_ok (b : Buf) (i : Nat) (pl : PFLine) (hfit : b.size ≤ 65535)
    (hv : pl.method = PField.set i i) {e : Nat} {st : PFLine} (h : flReqMethod b i pl = (e, Err.ok, st)) :
    i < skipToken b i ∧ b[skipToken b i]? = some 32 ∧
      ∃ pl1, pl1.uri = PField.set (skipToken b i + 1) (skipToken b i + 1) ∧
        flReqURI b (skipToken b i + 1) pl1 = (e, Err.ok, st) := by
  have hge := fs_skipToken_ge b i
  unfold flReqMethod at h
  simp only at h
  cases hj : b[skipToken b i]? with
  | none => rw [hj] at h; simp only at h; cases h
  | some c =>
    rw [hj] at h; simp only at h
    have hjl := get?_lt hj
    by_cases hc : (c != 32) = true
    · rw [if_pos hc] at h; cases h
    · rw [if_neg hc] at h
      rw [hv, set_extend i _ hge (by omega)] at h
      by_cases hem : (PField.isEmpty ⟨i, skipToken b i - i⟩) = true
      · rw [if_pos hem] at h; cases h
      · rw [if_neg hem] at h
        rw [field_get? b i (skipToken b i - i) (by omega) hfit] at h
        simp only at h
        refine ⟨?_, ?_, _, ?_, h⟩
        · unfold PField.isEmpty at hem
          simp only [beq_iff_eq] at hem
          omega
        · simp only [bne_iff_ne, ne_eq, Decidable.not_not] at hc
          rw [hc]
        · rfl

/-! ### the reply branch, read backwards -/

theorem fs_prefix_len (b : Buf) (o l : Nat) (hsz : o + 8 ≤ b.size)
    (hpre : bcPrefix sipVerSP (b.extract o (o + 8)).toList = (l, true)) : l = 8 := by
  have hsz : (b.extract o (o + 8)).toList.length = 8 := by simp; omega
  unfold bcPrefix at hpre
  have hle : sipVerSP.length ≤ (b.extract o (o + 8)).toList.length := by rw [hsz]; decide
  rw [if_neg (by omega)] at hpre
  have := prefixAux_true sipVerSP _ 0 l hle hpre
  simpa [sipVerSP] using this

theorem fs_flRplReason_ok (b : Buf) (i : Nat) (pl : PFLine) {e : Nat} {st : PFLine}
    (h : flRplReason b i pl = (e, Err.ok, st)) : ∃ crl, skipCRLF b (skipToEOL b i) = (e, crl, Err.ok) := by
  unfold flRplReason skipLine at h
  rcases hs : skipCRLF b (skipToEOL b i) with ⟨n, crl, er⟩
  rw [hs] at h
  cases er <;> simp only at h <;> cases h
  exact ⟨crl, rfl⟩

theorem fs_flReply_ok (b : Buf) (o : Nat) (pl : PFLine) {e : Nat} {st : PFLine}
    (h : flReply b o 8 pl = (e, Err.ok, st)) :
    ∃ d0 d1 d2, b[o + 8]? = some d0 ∧ b[o + 9]? = some d1 ∧ b[o + 10]? = some d2 ∧
      isDigit d0 = true ∧ isDigit d1 = true ∧ isDigit d2 = true ∧ b[o + 11]? = some 32 ∧
      ∃ crl, skipCRLF b (skipToEOL b (o + 12)) = (e, crl, Err.ok) := by
  unfold flReply at h
  simp only at h
  rw [show o + 8 + 1 = o + 9 from rfl, show o + 8 + 2 = o + 10 from rfl, show o + 8 + 3 = o + 11 from rfl,
    show o + 8 + 4 = o + 12 from rfl] at h
  cases h0 : b[o + 8]? with
  | none => rw [h0] at h; simp only at h; cases h
  | some d0 =>
    cases h1 : b[o + 9]? with
    | none => rw [h0, h1] at h; simp only at h; cases h
    | some d1 =>
      cases h2 : b[o + 10]? with
      | none => rw [h0, h1, h2] at h; simp only at h; cases h
      | some d2 =>
        cases h3 : b[o + 11]? with
        | none => rw [h0, h1, h2, h3] at h; simp only at h; cases h
        | some sp =>
          rw [h0, h1, h2, h3] at h; simp only at h
          by_cases hc : (sp != 32 || !(isDigit d0 && isDigit d1 && isDigit d2)) = true
          · rw [if_pos hc] at h; cases h
          · rw [if_neg hc] at h
            simp only [Bool.or_eq_true, bne_iff_ne, ne_eq, Bool.not_eq_true', Bool.and_eq_false_iff, not_or,
              Decidable.not_not, Bool.not_eq_false] at hc
            obtain ⟨hsp, ⟨hd0, hd1⟩, hd2⟩ := hc
            subst hsp
            exact ⟨d0, d1, d2, rfl, rfl, rfl, hd0, hd1, hd2, rfl, fs_flRplReason_ok b _ _ h⟩

/-! ### the version test: `SIP/2.0 SP` in any letter case -/

theorem fs_prefixAux_iff (p s : List UInt8) (i : Nat) (hl : p.length = s.length) :
    (prefixAux p s i).2 = true ↔ lowerL s = lowerL p := by
  induction p generalizing s i with
  | nil =>
    cases s with
    | nil => simp [prefixAux, lowerL]
    | cons v vs => simp at hl
  | cons x xs ih =>
    cases s with
    | nil => simp at hl
    | cons v vs =>
      simp only [prefixAux, eqFold_iff]
      by_cases hx : lowerB v = lowerB x
      · simp only [hx, beq_self_eq_true, ↓reduceIte]
        rw [ih vs (i + 1) (by simpa using hl)]
        simp [lowerL, hx]
      · have : (lowerB v == lowerB x) = false := by simpa using hx
        simp only [this, Bool.false_eq_true, ↓reduceIte]
        simp [lowerL, hx]

theorem fs_extract_get (b : Buf) (o n k : Nat) (hk : k < n) :
    (b.extract o (o + n)).toList[k]? = b[o + k]? := by
  simp [hk]

/-- the version test of ParseFLine succeeds iff the eight bytes at `o`, ASCII-lower-cased, read `sip/2.0 ` -/
theorem fs_ver_iff (b : Buf) (o : Nat) (hsz : o + 8 ≤ b.size) :
    (bcPrefix sipVerSP (b.extract o (o + 8)).toList).2 = true ↔
      lowerL (b.extract o (o + 8)).toList = lowerL sipVerSP := by
  have hlen : (b.extract o (o + 8)).toList.length = 8 := by simp; omega
  unfold bcPrefix
  rw [if_neg (by rw [hlen]; decide)]
  exact fs_prefixAux_iff _ _ 0 (by rw [hlen]; rfl)

/-- … and fails iff they do not -/
theorem fs_notver_iff (b : Buf) (o : Nat) (hsz : o + 8 ≤ b.size) :
    (bcPrefix sipVerSP (b.extract o (o + 8)).toList).2 = false ↔
      lowerL (b.extract o (o + 8)).toList ≠ lowerL sipVerSP := by
  have h := fs_ver_iff b o hsz
  constructor
  · intro hf ht
    rw [h.2 ht] at hf
    cases hf
  · intro hne
    cases hb : (bcPrefix sipVerSP (b.extract o (o + 8)).toList).2
    · rfl
    · exact (hne (h.1 hb)).elim

theorem fs_lower_lws : ∀ a, a < 256 → isLWSch (lowerB (UInt8.ofNat a)) = isLWSch (UInt8.ofNat a) := by
  decide +kernel

theorem fs_lower_lws' (c : UInt8) : isLWSch (lowerB c) = isLWSch c := by
  have := fs_lower_lws c.toNat (UInt8.toNat_lt c)
  simpa using this

theorem fs_lower_sp : ∀ a, a < 256 → lowerB (UInt8.ofNat a) = 32 → UInt8.ofNat a = 32 := by
  decide +kernel

theorem fs_lower_sp' (c : UInt8) (h : lowerB c = 32) : c = 32 := by
  have := fs_lower_sp c.toNat (UInt8.toNat_lt c)
  simp at this
  exact this h

theorem fs_ver_byte (b : Buf) (o : Nat) (h : lowerL (b.extract o (o + 8)).toList = lowerL sipVerSP) (k : Nat) (hk : k < 8) :
    ∃ c, b[o + k]? = some c ∧ some (lowerB c) = (lowerL sipVerSP)[k]? := by
  have h1 := congrArg (fun l => l[k]?) h
  simp only [lowerL, List.getElem?_map, fs_extract_get b o 8 k hk] at h1
  cases hc : b[o + k]? with
  | none =>
    rw [hc] at h1
    exfalso
    rcases k with _ | _ | _ | _ | _ | _ | _ | _ | k <;> first | omega | (simp [sipVerSP] at h1)
  | some c =>
    rw [hc] at h1
    exact ⟨c, rfl, by simpa [lowerL] using h1⟩

theorem fs_lower_ver : lowerL sipVerSP = [115, 105, 112, 47, 50, 46, 48, 32] := by decide

theorem fs_ver_shape (b : Buf) (o : Nat) (h : lowerL (b.extract o (o + 8)).toList = lowerL sipVerSP) :
    TokenRun b o (o + 7) ∧ b[o + 7]? = some 32 := by
  constructor
  · intro j hj1 hj2
    obtain ⟨c, hc, hl⟩ := fs_ver_byte b o h (j - o) (by omega)
    rw [show o + (j - o) = j by omega] at hc
    refine ⟨c, hc, ?_⟩
    rw [← fs_lower_lws']
    rw [fs_lower_ver] at hl
    have hk : j - o < 7 := by omega
    revert hl hk
    generalize j - o = k
    intro hl hk
    rcases k with _ | _ | _ | _ | _ | _ | _ | k <;> first | omega | (simp at hl; rw [hl]; decide)
  · obtain ⟨c, hc, hl⟩ := fs_ver_byte b o h 7 (by omega)
    rw [fs_lower_ver] at hl
    simp at hl
    rw [hc, fs_lower_sp' c hl]

/-! ### the two grammars and the objects they produce -/

/-- the text at `o` is a request line `method SP uri SP version EOL`: the three tokens are `[o, m)`, `[m+1, u)`,
    `[u+1, v)`, each non-empty and free of SP / HT / CR / LF, separated by exactly one SP; the line end starts at
    `v` and the next line at `e`; the first eight bytes are not `SIP/2.0 SP` in any letter case; ParseFLine's own
    look-ahead rule (14 bytes available) is part of the predicate -/
structure FsReqLine (b : Buf) (o m u v e : Nat) : Prop where
  look : ¬ b.size - o < 14
  notVer : (bcPrefix sipVerSP (b.extract o (o + 8)).toList).2 = false
  mRun : TokenRun b o m
  mNe : o < m
  sp1 : b[m]? = some 32
  uRun : TokenRun b (m + 1) u
  uNe : m + 1 < u
  sp2 : b[u]? = some 32
  vRun : TokenRun b (u + 1) v
  vNe : u + 1 < v
  eolc : ∃ c, b[v]? = some c ∧ (c = 13 ∨ c = 10)
  eol : ∃ crl, skipCRLF b v = (e, crl, Err.ok)

/-- the text at `o` is a status line `SIP/2.0 SP d0 d1 d2 SP reason EOL` (version in any letter case): the reason is
    `[o+12, v)`, possibly empty, free of CR / LF; the line end starts at `v` and the next line at `e` -/
structure FsStatusLine (b : Buf) (o v e : Nat) (d0 d1 d2 : UInt8) : Prop where
  look : ¬ b.size - o < 14
  ver : (bcPrefix sipVerSP (b.extract o (o + 8)).toList).2 = true
  c0 : b[o + 8]? = some d0
  c1 : b[o + 9]? = some d1
  c2 : b[o + 10]? = some d2
  dig0 : isDigit d0 = true
  dig1 : isDigit d1 = true
  dig2 : isDigit d2 = true
  sp : b[o + 11]? = some 32
  rRun : LineRun b (o + 12) v
  rGe : o + 12 ≤ v
  eolc : ∃ c, b[v]? = some c ∧ (c = 13 ∨ c = 10)
  eol : ∃ crl, skipCRLF b v = (e, crl, Err.ok)

/-- what ParseFLine reports for a request line -/
def fsReqObj (b : Buf) (o m u v : Nat) : PFLine :=
  { method := ⟨o, m - o⟩, uri := ⟨m + 1, u - (m + 1)⟩, version := ⟨u + 1, v - (u + 1)⟩, methodNo := getMethodNo (b.extract o m), state := .fin }

/-- what ParseFLine reports for a status line -/
def fsRplObj (o v : Nat) (d0 d1 d2 : UInt8) : PFLine :=
  { version := ⟨o, 7⟩, statusCode := ⟨o + 8, 3⟩, status := (d0.toNat - 48) * 100 + (d1.toNat - 48) * 10 + (d2.toNat - 48), reason := ⟨o + 12, v - (o + 12)⟩, state := .fin }

/-- completeness, restated over the predicates (from `parseFLine_request`) -/
theorem fs_complete_req (b : Buf) (o m u v e : Nat) (hfit : b.size ≤ 65535) (hg : FsReqLine b o m u v e) :
    parseFLine b o {} = (e, Err.ok, fsReqObj b o m u v) := by
  obtain ⟨c, hc1, hc2⟩ := hg.eolc
  obtain ⟨crl, hcrl⟩ := hg.eol
  exact parseFLine_request b o m u v e crl hfit hg.look hg.notVer hg.mRun hg.mNe hg.sp1 hg.uRun hg.uNe hg.sp2
    hg.vRun hg.vNe hc1 hc2 hcrl

/-- completeness, restated over the predicates (from `parseFLine_reply`) -/
theorem fs_complete_rpl (b : Buf) (o v e : Nat) (d0 d1 d2 : UInt8) (hfit : b.size ≤ 65535)
    (hg : FsStatusLine b o v e d0 d1 d2) : parseFLine b o {} = (e, Err.ok, fsRplObj o v d0 d1 d2) := by
  obtain ⟨c, hc1, hc2⟩ := hg.eolc
  obtain ⟨crl, hcrl⟩ := hg.eol
  rcases hp : bcPrefix sipVerSP (b.extract o (o + 8)).toList with ⟨l, ok⟩
  have hv := hg.ver
  rw [hp] at hv
  simp only at hv
  subst hv
  exact parseFLine_reply b o v e crl l hfit hg.look hp hg.c0 hg.c1 hg.c2 hg.dig0 hg.dig1 hg.dig2 hg.sp hg.rRun hg.rGe
    hc1 hc2 hcrl

/-! ### soundness -/

/-- **soundness, grammar part**: an OK verdict on a new object means the text at `o` is a request line or a status
    line; the positions are the ones the scanners stop at -/
theorem fs_sound_grammar (b : Buf) (o e : Nat) (st : PFLine) (hfit : b.size ≤ 65535)
    (h : parseFLine b o {} = (e, Err.ok, st)) :
    (∃ m u v, FsReqLine b o m u v e) ∨ (∃ v d0 d1 d2, FsStatusLine b o v e d0 d1 d2) := by
  unfold parseFLine at h
  simp only at h
  by_cases hlen : b.size - o < 14
  · rw [if_pos hlen] at h; cases h
  · rw [if_neg hlen] at h
    rcases hp : bcPrefix sipVerSP (b.extract o (o + 8)).toList with ⟨l, ok⟩
    rw [hp] at h
    cases ok
    · -- request
      simp only at h
      left
      obtain ⟨hm0, hsp1, pl1, hpl1, h1⟩ := fs_flReqMethod_ok b o _ hfit rfl h
      obtain ⟨hu0, hsp2, pl2, hpl2, h2⟩ := fs_flReqURI_ok b _ pl1 hfit hpl1 h1
      obtain ⟨hv0, hc, hcrl⟩ := fs_flReqVer_ok b _ pl2 hfit hpl2 h2
      exact ⟨skipToken b o, skipToken b (skipToken b o + 1), skipToken b (skipToken b (skipToken b o + 1) + 1),
        { look := hlen, notVer := by rw [hp], mRun := fs_skipToken_run b o, mNe := hm0, sp1 := hsp1,
          uRun := fs_skipToken_run b _, uNe := hu0, sp2 := hsp2, vRun := fs_skipToken_run b _, vNe := hv0,
          eolc := hc, eol := hcrl }⟩
    · -- reply
      simp only at h
      right
      have hl := fs_prefix_len b o l (by omega) hp
      subst hl
      obtain ⟨d0, d1, d2, h0, h1, h2, hd0, hd1, hd2, hsp, crl, hcrl⟩ := fs_flReply_ok b o _ h
      exact ⟨skipToEOL b (o + 12), d0, d1, d2,
        { look := hlen, ver := by rw [hp], c0 := h0, c1 := h1, c2 := h2, dig0 := hd0, dig1 := hd1, dig2 := hd2,
          sp := hsp, rRun := fs_skipToEOL_run b _, rGe := fs_skipToEOL_ge b _, eolc := fs_skipCRLF_ok hcrl,
          eol := ⟨crl, hcrl⟩ }⟩

/-- **soundness (C08, converse of `parseFLine_request` / `parseFLine_reply`)**: if ParseFLine says OK on a new object
    then the consumed text `b[o, e)` is an instance of one of the two grammars and the reported object is exactly
    the one made of its components -/
theorem parseFLine_sound (b : Buf) (o e : Nat) (st : PFLine) (hfit : b.size ≤ 65535)
    (h : parseFLine b o {} = (e, Err.ok, st)) :
    (∃ m u v, FsReqLine b o m u v e ∧ st = fsReqObj b o m u v) ∨
      (∃ v d0 d1 d2, FsStatusLine b o v e d0 d1 d2 ∧ st = fsRplObj o v d0 d1 d2) := by
  rcases fs_sound_grammar b o e st hfit h with ⟨m, u, v, hg⟩ | ⟨v, d0, d1, d2, hg⟩
  · left
    refine ⟨m, u, v, hg, ?_⟩
    have := fs_complete_req b o m u v e hfit hg
    rw [h] at this
    cases this; rfl
  · right
    refine ⟨v, d0, d1, d2, hg, ?_⟩
    have := fs_complete_rpl b o v e d0 d1 d2 hfit hg
    rw [h] at this
    cases this; rfl

/-! ### corollaries in the words of the property -/

/-- fewer than 14 bytes available: MoreBytes, never OK, nothing touched -/
theorem fs_short (b : Buf) (o : Nat) (h : b.size - o < 14) : parseFLine b o {} = (o, Err.moreBytes, {}) := by
  unfold parseFLine
  simp only
  rw [if_pos h]

/-- **OK iff grammar**: on a new object ParseFLine returns OK with next-line offset `e` iff the text at `o` is a request
    line or a status line ending at `e` (both predicates contain the 14-byte look-ahead rule) -/
theorem fline_ok_iff_at (b : Buf) (o e : Nat) (hfit : b.size ≤ 65535) :
    (∃ st, parseFLine b o {} = (e, Err.ok, st)) ↔
      ((∃ m u v, FsReqLine b o m u v e) ∨ (∃ v d0 d1 d2, FsStatusLine b o v e d0 d1 d2)) := by
  constructor
  · rintro ⟨st, h⟩
    exact fs_sound_grammar b o e st hfit h
  · rintro (⟨m, u, v, hg⟩ | ⟨v, d0, d1, d2, hg⟩)
    · exact ⟨_, fs_complete_req b o m u v e hfit hg⟩
    · exact ⟨_, fs_complete_rpl b o v e d0 d1 d2 hfit hg⟩

/-- **OK iff grammar**, verdict only -/
theorem fline_ok_iff (b : Buf) (o : Nat) (hfit : b.size ≤ 65535) :
    (parseFLine b o {}).2.1 = Err.ok ↔
      ((∃ m u v e, FsReqLine b o m u v e) ∨ (∃ v e d0 d1 d2, FsStatusLine b o v e d0 d1 d2)) := by
  constructor
  · intro h
    rcases hp : parseFLine b o {} with ⟨e, er, st⟩
    rw [hp] at h
    simp only at h
    subst h
    rcases fs_sound_grammar b o e st hfit hp with ⟨m, u, v, hg⟩ | ⟨v, d0, d1, d2, hg⟩
    · exact Or.inl ⟨m, u, v, e, hg⟩
    · exact Or.inr ⟨v, e, d0, d1, d2, hg⟩
  · rintro (⟨m, u, v, e, hg⟩ | ⟨v, e, d0, d1, d2, hg⟩)
    · rw [fs_complete_req b o m u v e hfit hg]
    · rw [fs_complete_rpl b o v e d0 d1 d2 hfit hg]

/-- a text that is neither a request line nor a status line is never accepted -/
theorem fline_reject (b : Buf) (o : Nat) (hfit : b.size ≤ 65535)
    (hnr : ¬ ∃ m u v e, FsReqLine b o m u v e) (hns : ¬ ∃ v e d0 d1 d2, FsStatusLine b o v e d0 d1 d2) :
    (parseFLine b o {}).2.1 ≠ Err.ok := by
  intro h
  rcases (fline_ok_iff b o hfit).1 h with h1 | h1
  · exact hnr h1
  · exact hns h1

/-! ### the decomposition is unique -/

/-- the two grammars exclude each other -/
theorem fs_req_not_status (b : Buf) (o m u v e v' e' : Nat) (d0 d1 d2 : UInt8) (hr : FsReqLine b o m u v e)
    (hs : FsStatusLine b o v' e' d0 d1 d2) : False := by
  have h1 := hr.notVer
  rw [hs.ver] at h1
  cases h1

/-- the positions of a request line are the stop positions of the token scanner: there is one way to read it -/
theorem fs_req_positions (b : Buf) (o m u v e : Nat) (hg : FsReqLine b o m u v e) :
    m = skipToken b o ∧ u = skipToken b (m + 1) ∧ v = skipToken b (u + 1) := by
  have h32 : isLWSch (32 : UInt8) = true := by decide
  obtain ⟨c, hc1, hc2⟩ := hg.eolc
  have hcl : isLWSch c = true := by rcases hc2 with rfl | rfl <;> decide
  refine ⟨?_, ?_, ?_⟩
  · exact (skipToken_run b o m (Nat.le_of_lt hg.mNe) hg.mRun hg.sp1 h32).symm
  · exact (skipToken_run b (m + 1) u (Nat.le_of_lt hg.uNe) hg.uRun hg.sp2 h32).symm
  · exact (skipToken_run b (u + 1) v (Nat.le_of_lt hg.vNe) hg.vRun hc1 hcl).symm

theorem fs_req_unique (b : Buf) (o m u v e m' u' v' e' : Nat) (hg : FsReqLine b o m u v e)
    (hg' : FsReqLine b o m' u' v' e') : m = m' ∧ u = u' ∧ v = v' ∧ e = e' := by
  obtain ⟨h1, h2, h3⟩ := fs_req_positions b o m u v e hg
  obtain ⟨h1', h2', h3'⟩ := fs_req_positions b o m' u' v' e' hg'
  have hm : m = m' := by rw [h1, h1']
  subst hm
  have hu : u = u' := by rw [h2, h2']
  subst hu
  have hv : v = v' := by rw [h3, h3']
  subst hv
  obtain ⟨crl, hc⟩ := hg.eol
  obtain ⟨crl', hc'⟩ := hg'.eol
  rw [hc] at hc'
  cases hc'
  exact ⟨rfl, rfl, rfl, rfl⟩

theorem fs_status_unique (b : Buf) (o v e v' e' : Nat) (d0 d1 d2 d0' d1' d2' : UInt8)
    (hg : FsStatusLine b o v e d0 d1 d2) (hg' : FsStatusLine b o v' e' d0' d1' d2') :
    v = v' ∧ e = e' ∧ d0 = d0' ∧ d1 = d1' ∧ d2 = d2' := by
  have hv : ∀ v e d0 d1 d2, FsStatusLine b o v e d0 d1 d2 → v = skipToEOL b (o + 12) := by
    intro v e d0 d1 d2 hg
    obtain ⟨c, hc1, hc2⟩ := hg.eolc
    have hcl : isCRLFch c = true := by rcases hc2 with rfl | rfl <;> decide
    exact (skipToEOL_run b (o + 12) v hg.rGe hg.rRun hc1 hcl).symm
  have h1 := hv v e d0 d1 d2 hg
  have h1' := hv v' e' d0' d1' d2' hg'
  have hvv : v = v' := by rw [h1, h1']
  subst hvv
  obtain ⟨crl, hc⟩ := hg.eol
  obtain ⟨crl', hc'⟩ := hg'.eol
  rw [hc] at hc'
  cases hc'
  have e0 := hg.c0; rw [hg'.c0] at e0; cases e0
  have e1 := hg.c1; rw [hg'.c1] at e1; cases e1
  have e2 := hg.c2; rw [hg'.c2] at e2; cases e2
  exact ⟨rfl, rfl, rfl, rfl, rfl⟩

/-! ### the line end -/

/-- what `skipCRLF` accepts as a line end: CR LF, a CR followed by a byte other than LF, or an LF followed by any
    byte (one byte of look-ahead is always required) -/
theorem fs_skipCRLF_ok_shape {b : Buf} {i e crl : Nat} (h : skipCRLF b i = (e, crl, Err.ok)) :
    (b[i]? = some 13 ∧ b[i + 1]? = some 10 ∧ e = i + 2 ∧ crl = 2) ∨
    (b[i]? = some 13 ∧ (∃ c1, b[i + 1]? = some c1 ∧ c1 ≠ 10) ∧ e = i + 1 ∧ crl = 1) ∨
    (b[i]? = some 10 ∧ (∃ c1, b[i + 1]? = some c1) ∧ e = i + 1 ∧ crl = 1) := by
  unfold skipCRLF at h
  cases h1 : b[i + 1]? with
  | none =>
    rw [h1] at h; simp only at h
    split at h
    · split at h <;> cases h
    · cases h
  | some c1 =>
    rw [h1] at h; simp only at h
    cases h0 : b[i]? with
    | none => rw [h0] at h; simp only at h; cases h
    | some c0 =>
      rw [h0] at h; simp only at h
      by_cases h13 : (c0 == 13) = true
      · rw [if_pos h13] at h
        have e13 : c0 = 13 := by simpa using h13
        subst e13
        by_cases h10 : (c1 == 10) = true
        · rw [if_pos h10] at h
          have e10 : c1 = 10 := by simpa using h10
          subst e10
          cases h
          exact Or.inl ⟨rfl, rfl, rfl, rfl⟩
        · rw [if_neg h10] at h
          cases h
          exact Or.inr (Or.inl ⟨rfl, ⟨c1, rfl, by simpa using h10⟩, rfl, rfl⟩)
      · rw [if_neg h13] at h
        by_cases h10 : (c0 == 10) = true
        · rw [if_pos h10] at h
          have e10 : c0 = 10 := by simpa using h10
          subst e10
          cases h
          exact Or.inr (Or.inr ⟨rfl, ⟨c1, rfl⟩, rfl, rfl⟩)
        · rw [if_neg h10] at h; cases h

/-! ### never mis-split, in terms of the reported object alone -/

/-- **never mis-split**: whenever the verdict is OK on a new object, the reported spans tile the line.
    Request shape: method, uri, version are three non-empty spans without SP / HT / CR / LF, the method starts at
    `o`, each next span starts exactly one byte (an SP) after the previous one, the line end follows the version
    directly, and the reply fields stay untouched.
    Reply shape: the version is the 7 bytes at `o` (no SP / HT / CR / LF) followed by one SP, the status code is
    three digits followed by one SP, the reason is a possibly empty span without CR / LF directly followed by the
    line end, and the request fields stay untouched. -/
theorem fline_never_missplit (b : Buf) (o e : Nat) (st : PFLine) (hfit : b.size ≤ 65535)
    (h : parseFLine b o {} = (e, Err.ok, st)) :
    (st.method.offs = o ∧ 0 < st.method.len ∧ TokenRun b st.method.offs (st.method.offs + st.method.len) ∧
      b[st.method.offs + st.method.len]? = some 32 ∧
      st.uri.offs = st.method.offs + st.method.len + 1 ∧ 0 < st.uri.len ∧
      TokenRun b st.uri.offs (st.uri.offs + st.uri.len) ∧
      b[st.uri.offs + st.uri.len]? = some 32 ∧
      st.version.offs = st.uri.offs + st.uri.len + 1 ∧ 0 < st.version.len ∧
      TokenRun b st.version.offs (st.version.offs + st.version.len) ∧
      (∃ crl, skipCRLF b (st.version.offs + st.version.len) = (e, crl, Err.ok)) ∧
      st.statusCode = {} ∧ st.reason = {} ∧ st.status = 0 ∧ st.state = .fin ∧ st.pnc = false)
    ∨
    (st.version = ⟨o, 7⟩ ∧ TokenRun b o (o + 7) ∧ b[o + 7]? = some 32 ∧
      st.statusCode = ⟨o + 8, 3⟩ ∧ (∀ k, k < 3 → ∃ d, b[o + 8 + k]? = some d ∧ isDigit d = true) ∧
      b[o + 11]? = some 32 ∧
      st.reason.offs = o + 12 ∧ LineRun b st.reason.offs (st.reason.offs + st.reason.len) ∧
      (∃ crl, skipCRLF b (st.reason.offs + st.reason.len) = (e, crl, Err.ok)) ∧
      st.method = {} ∧ st.uri = {} ∧ st.methodNo = 0 ∧ st.state = .fin ∧ st.pnc = false) := by
  rcases parseFLine_sound b o e st hfit h with ⟨m, u, v, hg, rfl⟩ | ⟨v, d0, d1, d2, hg, rfl⟩
  · left
    have hm := hg.mNe
    have hu := hg.uNe
    have hv := hg.vNe
    unfold fsReqObj
    simp only
    have e1 : o + (m - o) = m := by omega
    have e2 : m + 1 + (u - (m + 1)) = u := by omega
    have e3 : u + 1 + (v - (u + 1)) = v := by omega
    rw [e1, e2, e3]
    exact ⟨trivial, by omega, hg.mRun, hg.sp1, rfl, by omega, hg.uRun, hg.sp2, rfl, by omega, hg.vRun, hg.eol,
      trivial, trivial, trivial, trivial, trivial⟩
  · right
    have hv := hg.rGe
    have hsz : o + 8 ≤ b.size := by have := hg.look; omega
    obtain ⟨t1, t2⟩ := fs_ver_shape b o ((fs_ver_iff b o hsz).1 hg.ver)
    unfold fsRplObj
    simp only
    have e1 : o + 12 + (v - (o + 12)) = v := by omega
    rw [e1]
    refine ⟨trivial, t1, t2, trivial, ?_, hg.sp, trivial, hg.rRun, hg.eol, trivial, trivial, trivial, trivial, trivial⟩
    intro k hk
    rcases k with _ | _ | _ | k
    · exact ⟨d0, hg.c0, hg.dig0⟩
    · exact ⟨d1, hg.c1, hg.dig1⟩
    · exact ⟨d2, hg.c2, hg.dig2⟩
    · omega

/-! ### request vs reply, the numeric status -/

theorem fs_digit_range {d : UInt8} (h : isDigit d = true) : 48 ≤ d.toNat ∧ d.toNat ≤ 57 := by
  unfold isDigit at h
  simp only [Bool.and_eq_true, decide_eq_true_eq] at h
  have h1 : (48 : UInt8).toNat ≤ d.toNat := UInt8.le_iff_toNat_le.mp h.1
  have h2 : d.toNat ≤ (57 : UInt8).toNat := UInt8.le_iff_toNat_le.mp h.2
  exact ⟨h1, h2⟩

/-- the reported status is the decimal value of the three digits: between 0 and 999, and 0 only for `000` -/
theorem fs_status_value (o v : Nat) (d0 d1 d2 : UInt8) (h0 : isDigit d0 = true) (h1 : isDigit d1 = true)
    (h2 : isDigit d2 = true) :
    (fsRplObj o v d0 d1 d2).status = 100 * (d0.toNat - 48) + 10 * (d1.toNat - 48) + (d2.toNat - 48) ∧
      d0.toNat - 48 ≤ 9 ∧ d1.toNat - 48 ≤ 9 ∧ d2.toNat - 48 ≤ 9 ∧ (fsRplObj o v d0 d1 d2).status ≤ 999 ∧
      ((fsRplObj o v d0 d1 d2).status = 0 ↔ d0 = 48 ∧ d1 = 48 ∧ d2 = 48) := by
  have r0 := fs_digit_range h0
  have r1 := fs_digit_range h1
  have r2 := fs_digit_range h2
  have hs : (fsRplObj o v d0 d1 d2).status = (d0.toNat - 48) * 100 + (d1.toNat - 48) * 10 + (d2.toNat - 48) := rfl
  rw [hs]
  refine ⟨by omega, by omega, by omega, by omega, by omega, ?_⟩
  constructor
  · intro hz
    have z0 : d0.toNat = 48 := by omega
    have z1 : d1.toNat = 48 := by omega
    have z2 : d2.toNat = 48 := by omega
    exact ⟨UInt8.toNat_inj.mp z0, UInt8.toNat_inj.mp z1, UInt8.toNat_inj.mp z2⟩
  · rintro ⟨rfl, rfl, rfl⟩
    rfl

/-- **request vs reply**: after an OK verdict on a new object `Request()` is true EXACTLY for the request lines — also
    the status line with code `000` (status 0) is reported as a reply, because a reply always carries its three status
    digits (`statusCode`), which `Request()` looks at since the repair 07883de of the library (before it, `Request()` was
    `Status == 0` and answered true for `SIP/2.0 000 x`). -/
theorem fline_request_iff (b : Buf) (o e : Nat) (st : PFLine) (hfit : b.size ≤ 65535)
    (h : parseFLine b o {} = (e, Err.ok, st)) :
    st.request = true ↔ (∃ m u v, FsReqLine b o m u v e) := by
  rcases parseFLine_sound b o e st hfit h with ⟨m, u, v, hg, rfl⟩ | ⟨v, d0, d1, d2, hg, rfl⟩
  · constructor
    · intro _; exact ⟨m, u, v, hg⟩
    · intro _; rfl
  · constructor
    · intro hr
      have hf : (fsRplObj o v d0 d1 d2).request = false := by
        unfold PFLine.request fsRplObj
        simp
      rw [hf] at hr
      cases hr
    · rintro ⟨m, u, v', hr⟩
      exact (fs_req_not_status b o m u v' e v e d0 d1 d2 hr hg).elim

/-- … and `Request()` is false exactly for the status lines, whatever their code (000 included) -/
theorem fline_reply_iff (b : Buf) (o e : Nat) (st : PFLine) (hfit : b.size ≤ 65535)
    (h : parseFLine b o {} = (e, Err.ok, st)) :
    st.request = false ↔ (∃ v d0 d1 d2, FsStatusLine b o v e d0 d1 d2) := by
  rcases parseFLine_sound b o e st hfit h with ⟨m, u, v, hg, rfl⟩ | ⟨v, d0, d1, d2, hg, rfl⟩
  · constructor
    · intro hr
      have ht : (fsReqObj b o m u v).request = true := rfl
      rw [ht] at hr
      cases hr
    · rintro ⟨v', d0, d1, d2, hs⟩
      exact (fs_req_not_status b o m u v e v' e d0 d1 d2 hg hs).elim
  · constructor
    · intro _; exact ⟨v, d0, d1, d2, hg⟩
    · intro _
      unfold PFLine.request fsRplObj
      simp

/-- a non-zero status means a status line, and the status is the value of its digits -/
theorem fline_reply_of_status (b : Buf) (o e : Nat) (st : PFLine) (hfit : b.size ≤ 65535)
    (h : parseFLine b o {} = (e, Err.ok, st)) (hs : st.status ≠ 0) :
    ∃ v d0 d1 d2, FsStatusLine b o v e d0 d1 d2 ∧ st = fsRplObj o v d0 d1 d2 ∧
      st.status = 100 * (d0.toNat - 48) + 10 * (d1.toNat - 48) + (d2.toNat - 48) := by
  rcases parseFLine_sound b o e st hfit h with ⟨m, u, v, hg, rfl⟩ | ⟨v, d0, d1, d2, hg, rfl⟩
  · exact (hs rfl).elim
  · exact ⟨v, d0, d1, d2, hg, rfl, (fs_status_value o v d0 d1 d2 hg.dig0 hg.dig1 hg.dig2).1⟩

/-! ### the reported spans, as texts -/

/-- for a request line the three reported fields read back (Go `Get(buf)`) the three tokens, and the numeric method
    is `GetMethodNo` of the method token -/
theorem fs_req_texts (b : Buf) (o m u v e : Nat) (hfit : b.size ≤ 65535) (hg : FsReqLine b o m u v e) :
    (fsReqObj b o m u v).method.get? b = some (b.extract o m) ∧
      (fsReqObj b o m u v).uri.get? b = some (b.extract (m + 1) u) ∧
      (fsReqObj b o m u v).version.get? b = some (b.extract (u + 1) v) ∧
      (fsReqObj b o m u v).methodNo = getMethodNo (b.extract o m) := by
  obtain ⟨c, hc1, _⟩ := hg.eolc
  have hvlt := get?_lt hc1
  have hm := hg.mNe
  have hu := hg.uNe
  have hv := hg.vNe
  have g1 := field_get? b o (m - o) (by omega) hfit
  have g2 := field_get? b (m + 1) (u - (m + 1)) (by omega) hfit
  have g3 := field_get? b (u + 1) (v - (u + 1)) (by omega) hfit
  rw [show o + (m - o) = m by omega] at g1
  rw [show m + 1 + (u - (m + 1)) = u by omega] at g2
  rw [show u + 1 + (v - (u + 1)) = v by omega] at g3
  exact ⟨g1, g2, g3, rfl⟩

/-- for a status line: the version is the seven bytes at `o`, the status code the three digits, the reason the rest
    of the line without the terminator -/
theorem fs_rpl_texts (b : Buf) (o v e : Nat) (d0 d1 d2 : UInt8) (hfit : b.size ≤ 65535)
    (hg : FsStatusLine b o v e d0 d1 d2) :
    (fsRplObj o v d0 d1 d2).version.get? b = some (b.extract o (o + 7)) ∧
      (fsRplObj o v d0 d1 d2).statusCode.get? b = some (b.extract (o + 8) (o + 11)) ∧
      (fsRplObj o v d0 d1 d2).reason.get? b = some (b.extract (o + 12) v) := by
  obtain ⟨c, hc1, _⟩ := hg.eolc
  have hvlt := get?_lt hc1
  have hv := hg.rGe
  have g1 := field_get? b o 7 (by omega) hfit
  have g2 := field_get? b (o + 8) 3 (by omega) hfit
  have g3 := field_get? b (o + 12) (v - (o + 12)) (by omega) hfit
  rw [show o + 12 + (v - (o + 12)) = v by omega] at g3
  exact ⟨g1, g2, g3⟩

/-! ### objects that were suspended and resumed -/

/-- `(b, o', pl)` is what a caller holds after starting with a new object at offset `o` and going through any number
    of rounds "MoreBytes verdict, more input appended, call again at the returned offset with the same object" -/
inductive FsResumed (o : Nat) : Buf → Nat → PFLine → Prop
  | new (b : Buf) (ho : o ≤ b.size) : FsResumed o b o {}
  | more (b s : Buf) (o1 o2 : Nat) (pl1 pl2 : PFLine) (hfit : b.size ≤ 65535) (hr : FsResumed o b o1 pl1)
      (hm : parseFLine b o1 pl1 = (o2, Err.moreBytes, pl2)) : FsResumed o (b ++ s) o2 pl2

/-- resuming gives what a single call on the whole buffer gives (from the L2 theorem `parseFLine_resume`) -/
theorem fs_resumed_eq {o : Nat} {b : Buf} {o1 : Nat} {pl1 : PFLine} (hr : FsResumed o b o1 pl1) :
    parseFLine b o1 pl1 = parseFLine b o {} ∧ o ≤ b.size := by
  induction hr with
  | new b ho => exact ⟨rfl, ho⟩
  | more b s o1 o2 pl1 pl2 hfit hr hm ih =>
    obtain ⟨ih1, ih2⟩ := ih
    rw [ih1] at hm
    have hok : flOK {} := by unfold flOK; decide
    refine ⟨(parseFLine_resume b s o {} ih2 hok hfit hm).1, ?_⟩
    have : (b ++ s).size = b.size + s.size := by simp
    omega

/-- **soundness for resumed objects**: an OK verdict — also when it comes after any number of MoreBytes rounds — means
    that the text at the original offset `o` of the final buffer is a line of one of the two grammars, and the
    object holds exactly its components -/
theorem parseFLine_sound_resumed (b : Buf) (o o1 e : Nat) (pl1 st : PFLine) (hfit : b.size ≤ 65535)
    (hr : FsResumed o b o1 pl1) (h : parseFLine b o1 pl1 = (e, Err.ok, st)) :
    (∃ m u v, FsReqLine b o m u v e ∧ st = fsReqObj b o m u v) ∨
      (∃ v d0 d1 d2, FsStatusLine b o v e d0 d1 d2 ∧ st = fsRplObj o v d0 d1 d2) := by
  rw [(fs_resumed_eq hr).1] at h
  exact parseFLine_sound b o e st hfit h

/-- … so every one-shot theorem (`fline_never_missplit`, `fline_request_iff`, …) applies to the resumed call -/
theorem fs_resumed_oneshot (b : Buf) (o o1 e : Nat) (pl1 st : PFLine)
    (hr : FsResumed o b o1 pl1) (h : parseFLine b o1 pl1 = (e, Err.ok, st)) :
    parseFLine b o {} = (e, Err.ok, st) := by
  rw [(fs_resumed_eq hr).1] at h
  exact h

/-! ### one more rejection shape, with its verdict: a fourth token / trailing blank after the version -/

/-- `method SP uri SP version` followed by SP or HT instead of the line end (e.g. a fourth space-separated token):
    BadChar at that byte -/
theorem fs_reject_after_version (b : Buf) (o m u v : Nat) (hfit : b.size ≤ 65535) (hlen : ¬ b.size - o < 14)
    (hnr : (bcPrefix sipVerSP (b.extract o (o + 8)).toList).2 = false)
    (hm : TokenRun b o m) (hm0 : o < m) (hsp1 : b[m]? = some 32)
    (hu : TokenRun b (m + 1) u) (hu0 : m + 1 < u) (hsp2 : b[u]? = some 32)
    (hv : TokenRun b (u + 1) v) (hv0 : u + 1 ≤ v) {c : UInt8} (hend : b[v]? = some c) (hc : c = 32 ∨ c = 9) :
    (parseFLine b o {}).2.1 = Err.badChar ∧ (parseFLine b o {}).1 = v := by
  have hvlt := get?_lt hend
  have hcl : isLWSch c = true := by rcases hc with rfl | rfl <;> decide
  have h32 : isLWSch (32 : UInt8) = true := by decide
  unfold parseFLine
  simp only
  rw [if_neg hlen]
  rcases hbp : bcPrefix sipVerSP (b.extract o (o + 8)).toList with ⟨l, ok⟩
  rw [hbp] at hnr
  simp only at hnr
  subst hnr
  simp only
  unfold flReqMethod
  simp only
  rw [skipToken_run b o m (by omega) hm hsp1 h32, hsp1]
  simp only [show ((32 : UInt8) != 32) = false from rfl, Bool.false_eq_true, ↓reduceIte]
  rw [set_extend o m (by omega) (by omega), set_extendPanics o m (by omega) (by omega)]
  have hne1 : (PField.isEmpty ⟨o, m - o⟩) = false := by unfold PField.isEmpty; simp; omega
  simp only [hne1, Bool.false_eq_true, ↓reduceIte, Bool.or_false]
  rw [field_get? b o (m - o) (by omega) hfit]
  simp only
  unfold flReqURI
  simp only
  rw [skipToken_run b (m + 1) u (by omega) hu hsp2 h32, hsp2]
  simp only [show ((32 : UInt8) != 32) = false from rfl, Bool.false_eq_true, ↓reduceIte]
  rw [set_extend (m + 1) u (by omega) (by omega), set_extendPanics (m + 1) u (by omega) (by omega)]
  have hne2 : (PField.isEmpty ⟨m + 1, u - (m + 1)⟩) = false := by unfold PField.isEmpty; simp; omega
  simp only [hne2, Bool.false_eq_true, ↓reduceIte, Bool.or_false]
  unfold flReqVer
  simp only
  rw [skipToken_run b (u + 1) v hv0 hv hend hcl, hend]
  have hcc : (c != 13 && c != 10) = true := by rcases hc with rfl | rfl <;> decide
  simp only [hcc, ↓reduceIte, and_self]

/-! ### the other verdicts: only OK / MoreBytes / BadChar; MoreBytes only at the end of the buffer -/

/-- the verdicts ParseFLine can give on a new object -/
def FsVerdict (e : Err) : Prop := e = Err.ok ∨ e = Err.moreBytes ∨ e = Err.badChar

/-- at a CR / LF, or at the end of the buffer, `skipCRLF` never says NoCR -/
theorem fs_skipCRLF_at_eol {b : Buf} {i n crl : Nat} {e : Err} (h : skipCRLF b i = (n, crl, e))
    (hc : ∀ c, b[i]? = some c → isCRLFch c = true) : e = Err.ok ∨ e = Err.moreBytes := by
  unfold skipCRLF at h
  split at h
  · split at h
    · rename_i c h0
      have := hc c h0
      split at h
      · rename_i hne
        exfalso
        simp only [isCRLFch, Bool.or_eq_true, beq_iff_eq] at this
        simp only [Bool.and_eq_true, bne_iff_ne, ne_eq] at hne
        rcases this with h1 | h1
        · exact hne.1 h1
        · exact hne.2 h1
      · cases h; exact Or.inr rfl
    · cases h; exact Or.inr rfl
  · split at h
    · rename_i h1 h0
      have := get?_lt ‹_›
      have := get?_none_ge h0
      omega
    · rename_i c0 h0
      have := hc c0 h0
      split at h
      · split at h <;> (cases h; exact Or.inl rfl)
      · split at h
        · cases h; exact Or.inl rfl
        · rename_i h13 h10
          exfalso
          simp only [isCRLFch, Bool.or_eq_true] at this
          rcases this with h1 | h1
          · exact h13 h1
          · exact h10 h1

theorem fs_flCRLF_verdict (b : Buf) (i : Nat) (pl : PFLine) (hc : ∀ c, b[i]? = some c → isCRLFch c = true) :
    FsVerdict (flCRLF b i pl).2.1 := by
  unfold flCRLF
  rcases hs : skipCRLF b i with ⟨n, crl, er⟩
  rcases fs_skipCRLF_at_eol hs hc with rfl | rfl <;> simp [FsVerdict]

theorem fs_flReqVer_verdict (b : Buf) (i : Nat) (pl : PFLine) : FsVerdict (flReqVer b i pl).2.1 := by
  unfold flReqVer
  simp only
  cases hj : b[skipToken b i]? with
  | none => simp [FsVerdict]
  | some c =>
    simp only
    split
    · simp [FsVerdict]
    · rename_i hne
      split
      · simp [FsVerdict]
      · apply fs_flCRLF_verdict
        intro c' hc'
        rw [hj] at hc'
        cases hc'
        simp only [Bool.and_eq_true, bne_iff_ne, ne_eq, not_and, Decidable.not_not] at hne
        unfold isCRLFch
        by_cases h13 : c = 13
        · simp [h13]
        · simp [hne h13]

theorem fs_flReqURI_verdict (b : Buf) (i : Nat) (pl : PFLine) : FsVerdict (flReqURI b i pl).2.1 := by
  unfold flReqURI
  simp only
  split
  · simp [FsVerdict]
  · split
    · simp [FsVerdict]
    · split
      · simp [FsVerdict]
      · exact fs_flReqVer_verdict b _ _

theorem fs_flReqMethod_verdict (b : Buf) (i : Nat) (pl : PFLine) : FsVerdict (flReqMethod b i pl).2.1 := by
  unfold flReqMethod
  simp only
  split
  · simp [FsVerdict]
  · split
    · simp [FsVerdict]
    · split
      · simp [FsVerdict]
      · split
        · simp [FsVerdict]
        · exact fs_flReqURI_verdict b _ _

theorem fs_flRplReason_verdict (b : Buf) (i : Nat) (pl : PFLine) : FsVerdict (flRplReason b i pl).2.1 := by
  unfold flRplReason skipLine
  rcases hs : skipCRLF b (skipToEOL b i) with ⟨n, crl, er⟩
  rcases fs_skipCRLF_at_eol hs (skipToEOL_stop b i) with rfl | rfl <;> simp [FsVerdict]

theorem fs_flReply_verdict (b : Buf) (i l : Nat) (pl : PFLine) : FsVerdict (flReply b i l pl).2.1 := by
  unfold flReply
  simp only
  split
  · split
    · simp [FsVerdict]
    · exact fs_flRplReason_verdict b _ _
  · simp [FsVerdict]

/-- on a new object ParseFLine answers OK, MoreBytes or BadChar, nothing else (in particular never NoCR: the line
    end is only looked for at a CR / LF or at the end of the buffer) -/
theorem fs_verdicts (b : Buf) (o : Nat) : FsVerdict (parseFLine b o {}).2.1 := by
  unfold parseFLine
  simp only
  split
  · simp [FsVerdict]
  · split
    · exact fs_flReply_verdict b _ _ _
    · exact fs_flReqMethod_verdict b _ _

theorem fs_flCRLF_more (b : Buf) (i : Nat) (pl : PFLine) {n : Nat} {st : PFLine}
    (h : flCRLF b i pl = (n, Err.moreBytes, st)) : b.size ≤ n + 1 := by
  unfold flCRLF at h
  rcases hs : skipCRLF b i with ⟨n', crl, er⟩
  rw [hs] at h
  cases er <;> simp only at h <;> cases h
  have := skipCRLF_moreBytes_pos hs
  omega

theorem fs_flReqVer_more (b : Buf) (i : Nat) (pl : PFLine) {n : Nat} {st : PFLine}
    (h : flReqVer b i pl = (n, Err.moreBytes, st)) : b.size ≤ n + 1 := by
  unfold flReqVer at h
  simp only at h
  cases hj : b[skipToken b i]? with
  | none =>
    rw [hj] at h; simp only at h; cases h
    have := get?_none_ge hj; omega
  | some c =>
    rw [hj] at h; simp only at h
    split at h
    · cases h
    · split at h
      · cases h
      · exact fs_flCRLF_more b _ _ h

theorem fs_flReqURI_more (b : Buf) (i : Nat) (pl : PFLine) {n : Nat} {st : PFLine}
    (h : flReqURI b i pl = (n, Err.moreBytes, st)) : b.size ≤ n + 1 := by
  unfold flReqURI at h
  simp only at h
  cases hj : b[skipToken b i]? with
  | none =>
    rw [hj] at h; simp only at h; cases h
    have := get?_none_ge hj; omega
  | some c =>
    rw [hj] at h; simp only at h
    split at h
    · cases h
    · split at h
      · cases h
      · exact fs_flReqVer_more b _ _ h

theorem fs_flReqMethod_more (b : Buf) (i : Nat) (pl : PFLine) {n : Nat} {st : PFLine}
    (h : flReqMethod b i pl = (n, Err.moreBytes, st)) : b.size ≤ n + 1 := by
  unfold flReqMethod at h
  simp only at h
  cases hj : b[skipToken b i]? with
  | none =>
    rw [hj] at h; simp only at h; cases h
    have := get?_none_ge hj; omega
  | some c =>
    rw [hj] at h; simp only at h
    split at h
    · cases h
    · split at h
      · cases h
      · split at h
        · cases h
        · exact fs_flReqURI_more b _ _ h

theorem fs_flRplReason_more (b : Buf) (i : Nat) (pl : PFLine) {n : Nat} {st : PFLine}
    (h : flRplReason b i pl = (n, Err.moreBytes, st)) : b.size ≤ n + 1 := by
  unfold flRplReason skipLine at h
  rcases hs : skipCRLF b (skipToEOL b i) with ⟨n', crl, er⟩
  rw [hs] at h
  cases er <;> simp only at h <;> cases h
  have := skipCRLF_moreBytes_pos hs
  omega

theorem fs_flReply_more (b : Buf) (i l : Nat) (pl : PFLine) {n : Nat} {st : PFLine}
    (h : flReply b i l pl = (n, Err.moreBytes, st)) : b.size ≤ n + 1 := by
  unfold flReply at h
  simp only at h
  split at h
  · split at h
    · cases h
    · exact fs_flRplReason_more b _ _ h
  · cases h

/-- MoreBytes is only answered when fewer than 14 bytes are available or the scan ran into the end of the buffer
    (the returned continue point is the last byte or the end): a complete wrong line is not kept waiting -/
theorem fs_more_at_end (b : Buf) (o n : Nat) (st : PFLine) (h : parseFLine b o {} = (n, Err.moreBytes, st)) :
    b.size - o < 14 ∨ b.size ≤ n + 1 := by
  unfold parseFLine at h
  simp only at h
  split at h
  · rename_i hl; exact Or.inl hl
  · right
    split at h
    · exact fs_flReply_more b _ _ _ h
    · exact fs_flReqMethod_more b _ _ h

/-- **classification**: on a new object, for every buffer and offset, exactly these three things can happen —
    OK and the text at `o` is a line of the grammar; MoreBytes and the buffer was exhausted (or is shorter than the
    14-byte look-ahead); BadChar and the text at `o` is not a line of the grammar -/
theorem fline_classify (b : Buf) (o : Nat) (hfit : b.size ≤ 65535) :
    ((parseFLine b o {}).2.1 = Err.ok ∧
        ((∃ m u v e, FsReqLine b o m u v e) ∨ (∃ v e d0 d1 d2, FsStatusLine b o v e d0 d1 d2))) ∨
      ((parseFLine b o {}).2.1 = Err.moreBytes ∧ (b.size - o < 14 ∨ b.size ≤ (parseFLine b o {}).1 + 1)) ∨
      ((parseFLine b o {}).2.1 = Err.badChar ∧
        ¬ ((∃ m u v e, FsReqLine b o m u v e) ∨ (∃ v e d0 d1 d2, FsStatusLine b o v e d0 d1 d2))) := by
  rcases fs_verdicts b o with h | h | h
  · exact Or.inl ⟨h, (fline_ok_iff b o hfit).1 h⟩
  · refine Or.inr (Or.inl ⟨h, ?_⟩)
    rcases hp : parseFLine b o {} with ⟨n, er, st⟩
    rw [hp] at h
    simp only at h
    subst h
    exact fs_more_at_end b o n st hp
  · refine Or.inr (Or.inr ⟨h, ?_⟩)
    intro hg
    have := (fline_ok_iff b o hfit).2 hg
    rw [h] at this
    cases this

/-! ### tests / non-vacuity (closed computations by `decide +kernel`; not part of the general claims) -/

/-- test: the hypothesis of `parseFLine_sound` is met by a request line at a non-zero offset, with the object the
    theorem predicts -/
example : parseFLine "xxINVITE sip:a@b SIP/2.0\r\nX".toUTF8.data 2 {} =
    (26, Err.ok, fsReqObj "xxINVITE sip:a@b SIP/2.0\r\nX".toUTF8.data 2 8 16 24) := by decide +kernel

/-- test: … and by a status line (lower-case version, lone LF as line end) -/
example : parseFLine "sIp/2.0 486 Busy Here\nX".toUTF8.data 0 {} = (22, Err.ok, fsRplObj 0 21 52 56 54) := by
  decide +kernel

/-- non-vacuity: `FsReqLine` is satisfiable -/
example : ∃ m u v, FsReqLine "INVITE sip:a@b SIP/2.0\r\nX".toUTF8.data 0 m u v 24 := by
  have h : parseFLine "INVITE sip:a@b SIP/2.0\r\nX".toUTF8.data 0 {} =
      (24, Err.ok, fsReqObj "INVITE sip:a@b SIP/2.0\r\nX".toUTF8.data 0 6 14 22) := by decide +kernel
  rcases fs_sound_grammar _ 0 24 _ (by decide +kernel) h with hr | ⟨v, d0, d1, d2, hs⟩
  · exact hr
  · exact absurd hs.ver (by decide +kernel)

/-- non-vacuity: `FsStatusLine` is satisfiable, with an empty reason -/
example : ∃ v d0 d1 d2, FsStatusLine "SIP/2.0 200 \nXX".toUTF8.data 0 v 13 d0 d1 d2 := by
  have h : parseFLine "SIP/2.0 200 \nXX".toUTF8.data 0 {} = (13, Err.ok, fsRplObj 0 12 50 48 48) := by
    decide +kernel
  rcases fs_sound_grammar _ 0 13 _ (by decide +kernel) h with ⟨m, u, v, hr⟩ | hs
  · exact absurd hr.notVer (by decide +kernel)
  · exact hs

/-- test: the status line with code `000` is accepted with status 0 and reported as a REPLY (`Request()` false) -/
example : (parseFLine "SIP/2.0 000 x\r\nX".toUTF8.data 0 {}).2.1 = Err.ok ∧
    (parseFLine "SIP/2.0 000 x\r\nX".toUTF8.data 0 {}).2.2.status = 0 ∧
    (parseFLine "SIP/2.0 000 x\r\nX".toUTF8.data 0 {}).2.2.request = false := by decide +kernel

/-- test (model behaviour worth knowing): "tokens" are runs of ANY bytes other than SP / HT / CR / LF — here NUL,
    0x01, 0x02 — the version is not compared with `SIP/2.0`, and a lone CR followed by any byte ends the line -/
example : (parseFLine "\x00 \x01 \x02\rXXXXXXXXXXXXXXX".toUTF8.data 0 {}).2.1 = Err.ok ∧
    (parseFLine "\x00 \x01 \x02\rXXXXXXXXXXXXXXX".toUTF8.data 0 {}).1 = 6 := by decide +kernel

/-- test: a fourth token after the version is rejected (`fs_reject_after_version`) -/
example : (parseFLine "INVITE sip:a@b SIP/2.0 x\r\nX".toUTF8.data 0 {}).2.1 = Err.badChar ∧
    (parseFLine "INVITE sip:a@b SIP/2.0 x\r\nX".toUTF8.data 0 {}).1 = 22 := by decide +kernel

/-- test: a complete short line with fewer than 14 bytes available gets MoreBytes (`fs_short`) -/
example : (parseFLine "A b c\r\nXXXXXX".toUTF8.data 0 {}).2.1 = Err.moreBytes := by decide +kernel

/-- non-vacuity: `FsResumed` with one MoreBytes round in the middle of the version token, then OK -/
example : ∃ pl, FsResumed 0 ("INVITE sip:a@b SI".toUTF8.data ++ "P/2.0\r\nX".toUTF8.data) 17 pl ∧
    (parseFLine ("INVITE sip:a@b SI".toUTF8.data ++ "P/2.0\r\nX".toUTF8.data) 17 pl).2.1 = Err.ok := by
  refine ⟨{ methodNo := 2, method := ⟨0, 6⟩, uri := ⟨7, 7⟩, version := ⟨15, 0⟩, state := .reqVer }, ?_, ?_⟩
  · exact FsResumed.more _ _ 0 17 {} _ (by decide +kernel) (FsResumed.new _ (by decide +kernel)) (by decide +kernel)
  · decide +kernel

end Sipsp
