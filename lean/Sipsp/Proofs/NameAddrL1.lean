/-
  Sipsp.Proofs.NameAddrL1 — L1 (no premature verdict) for ParseNameAddrPVal: loop invariant, its
  preservation, and step stability.
-/
import Sipsp.Proofs.FLine
import Sipsp.Proofs.ProgressNA

namespace Sipsp

theorem slice?_app (b s : Buf) (lo hi : Nat) (h : hi ≤ b.size) : slice? (b ++ s) lo hi = slice? b lo hi := by
  unfold slice?
  have hs : (b ++ s).size = b.size + s.size := by simp
  by_cases h1 : lo ≤ hi
  · rw [if_pos ⟨h1, by omega⟩, if_pos ⟨h1, h⟩, extract_app b s lo hi h]
  · rw [if_neg (fun hh => h1 hh.1), if_neg (fun hh => h1 hh.1)]

theorem setFromParamVal_app (b s : Buf) (pf : PFromBody) (h1 : pf.pend ≤ b.size) (h2 : pf.vend ≤ b.size) :
    setFromParamVal (b ++ s) pf = setFromParamVal b pf := by
  unfold setFromParamVal
  rw [slice?_app b s _ _ h1, slice?_app b s _ _ h2]

/-- loop invariant: the saved parameter name / value ends lie inside the part of the buffer already seen -/
def naInv (b : Buf) (i : Nat) (pf : PFromBody) : Prop := i ≤ b.size ∧ pf.pend ≤ i ∧ pf.vend ≤ i

theorem setFromParamVal_pv (b : Buf) (pf : PFromBody) :
    (setFromParamVal b pf).pend = 0 ∧ (setFromParamVal b pf).vend = 0 := by
  unfold setFromParamVal
  repeat' split
  all_goals simp [PFromBody.clearPV, setExpires, setQ]
  all_goals (repeat' split) <;> simp

theorem naEOH_app (h : Nat) (b s : Buf) (pf : PFromBody) (i n crl : Nat) (r : Err)
    (hi : i ≤ b.size) (h1 : pf.pend ≤ b.size) (h2 : pf.vend ≤ b.size) :
    naEOH h (b ++ s) pf i n crl r = naEOH h b pf i n crl r := by
  unfold naEOH
  cases hst : pf.state <;> simp only
  all_goals first
    | rfl
    | (unfold naEOHParamName
       simp only
       split <;> split <;>
         first
           | rfl
           | (rw [setFromParamVal_app b s _ (by simp; omega) (by simpa using h2)])
           | (rw [setFromParamVal_app b s _ (by simpa using h1) (by simpa using h2)]))
    | (rw [setFromParamVal_app b s _ h1 h2])
    | (unfold naEOHVal; rw [setFromParamVal_app b s _ (by simpa using h1) (by simp; omega)])

end Sipsp

namespace Sipsp

@[simp] theorem setURI_pend (pf : PFromBody) (a c : Nat) : (pf.setURI a c).pend = pf.pend := rfl
@[simp] theorem setURI_vend (pf : PFromBody) (a c : Nat) : (pf.setURI a c).vend = pf.vend := rfl
@[simp] theorem setName_pend (pf : PFromBody) (a c : Nat) : (pf.setName a c).pend = pf.pend := rfl
@[simp] theorem setName_vend (pf : PFromBody) (a c : Nat) : (pf.setName a c).vend = pf.vend := rfl
@[simp] theorem setV_pend (pf : PFromBody) (a c : Nat) : (pf.setV a c).pend = pf.pend := rfl
@[simp] theorem setV_vend (pf : PFromBody) (a c : Nat) : (pf.setV a c).vend = pf.vend := rfl
@[simp] theorem extV_pend (pf : PFromBody) (a : Nat) : (pf.extV a).pend = pf.pend := rfl
@[simp] theorem extV_vend (pf : PFromBody) (a : Nat) : (pf.extV a).vend = pf.vend := rfl
@[simp] theorem extParams_pend (pf : PFromBody) (a : Nat) : (pf.extParams a).pend = pf.pend := rfl
@[simp] theorem extParams_vend (pf : PFromBody) (a : Nat) : (pf.extParams a).vend = pf.vend := rfl
@[simp] theorem resetUPT_pend (pf : PFromBody) : pf.resetUPT.pend = pf.pend := rfl
@[simp] theorem resetUPT_vend (pf : PFromBody) : pf.resetUPT.vend = pf.vend := rfl
@[simp] theorem saveS_pend (pf : PFromBody) : pf.saveS.pend = pf.pend := rfl
@[simp] theorem saveS_vend (pf : PFromBody) : pf.saveS.vend = pf.vend := rfl

/-- a `lwsStd` continuation keeps the invariant when the carried state satisfies it at `i` -/
theorem naLWS_inv (h : Nat) (b : Buf) (i : Nat) (pf : PFromBody) (hI : naInv b i pf)
    {i' : Nat} {st' : PFromBody} (hs : naLWS h b i pf = .cont i' st') : naInv b i' st' := by
  unfold naLWS lwsStd at hs
  rcases hsk : skipLWS b i 0 with ⟨n, crl, e⟩
  rw [hsk] at hs
  cases e <;> simp only at hs <;> cases hs
  have hr := skipLWS_range b i 0 hsk
  exact ⟨hr.2 hI.1, by have := hI.2.1; omega, by have := hI.2.2; omega⟩

theorem naStepA_inv (h : Nat) (b : Buf) (i : Nat) (c : UInt8) (pf : PFromBody) (hb : b[i]? = some c)
    (hI : naInv b i pf) {i' : Nat} {st' : PFromBody} (hs : naStepA h b i c pf = .cont i' st') :
    naInv b i' st' := by
  have hib := get?_lt hb
  obtain ⟨h1, h2, h3⟩ := hI
  unfold naStepA at hs
  repeat' (split at hs)
  all_goals first
    | exact naLWS_inv h b i _ ⟨h1, by simpa using h2, by simpa using h3⟩ hs
    | exact absurd hs (naMoreValues_not_cont h b _ i)
    | (cases hs; exact ⟨by omega, by first | omega | (dsimp only; omega) | (simp; omega), by first | omega | (dsimp only; omega) | (simp; omega)⟩)
    | cases hs

theorem naStepQ_inv (h : Nat) (b : Buf) (i : Nat) (c : UInt8) (pf : PFromBody) (hb : b[i]? = some c)
    (hI : naInv b i pf) {i' : Nat} {st' : PFromBody} (hs : naStepQ h b i c pf = .cont i' st') :
    naInv b i' st' := by
  have hib := get?_lt hb
  obtain ⟨h1, h2, h3⟩ := hI
  unfold naStepQ at hs
  repeat' (split at hs)
  all_goals first
    | exact naLWS_inv h b i _ ⟨h1, by simpa using h2, by simpa using h3⟩ hs
    | (cases hs; rename_i hb1 _; have := get?_lt hb1; exact ⟨by omega, by omega, by omega⟩)
    | (cases hs; exact ⟨by omega, by first | omega | (dsimp only; omega) | (simp; omega), by first | omega | (dsimp only; omega) | (simp; omega)⟩)
    | cases hs

theorem naStepU_inv (b : Buf) (i : Nat) (c : UInt8) (pf : PFromBody) (hb : b[i]? = some c)
    (hI : naInv b i pf) {i' : Nat} {st' : PFromBody} (hs : naStepU i c pf = .cont i' st') :
    naInv b i' st' := by
  have hib := get?_lt hb
  obtain ⟨h1, h2, h3⟩ := hI
  unfold naStepU at hs
  repeat' (split at hs)
  all_goals first
    | (cases hs; exact ⟨by omega, by first | omega | (dsimp only; omega) | (simp; omega), by first | omega | (dsimp only; omega) | (simp; omega)⟩)
    | cases hs

theorem naStepUF_inv (h : Nat) (b : Buf) (i : Nat) (c : UInt8) (pf : PFromBody) (hb : b[i]? = some c)
    (hI : naInv b i pf) {i' : Nat} {st' : PFromBody} (hs : naStepUF h b i c pf = .cont i' st') :
    naInv b i' st' := by
  have hib := get?_lt hb
  obtain ⟨h1, h2, h3⟩ := hI
  unfold naStepUF at hs
  repeat' (split at hs)
  all_goals first
    | exact naLWS_inv h b i _ ⟨h1, by simpa using h2, by simpa using h3⟩ hs
    | exact absurd hs (naMoreValues_not_cont h b _ i)
    | (cases hs; exact ⟨by omega, by first | omega | (dsimp only; omega) | (simp; omega), by first | omega | (dsimp only; omega) | (simp; omega)⟩)
    | cases hs

theorem naStepStar_inv (h : Nat) (b : Buf) (i : Nat) (c : UInt8) (pf : PFromBody) (hb : b[i]? = some c)
    (hI : naInv b i pf) {i' : Nat} {st' : PFromBody} (hs : naStepStar h b i c pf = .cont i' st') :
    naInv b i' st' := by
  unfold naStepStar at hs
  split at hs
  · exact naLWS_inv h b i _ hI hs
  · cases hs

end Sipsp

namespace Sipsp

theorem naInv_sfp (b : Buf) (pf : PFromBody) (i : Nat) (hi : i ≤ b.size) : naInv b i (setFromParamVal b pf) := by
  have hp := setFromParamVal_pv b pf
  exact ⟨hi, by rw [hp.1]; omega, by rw [hp.2]; omega⟩

theorem naNameWS_pv (pf : PFromBody) (i : Nat) :
    ((naNameWS pf i).pend = pf.pend ∨ (naNameWS pf i).pend = i) ∧ (naNameWS pf i).vend = pf.vend := by
  unfold naNameWS; repeat' split
  all_goals simp

theorem naValWS_pv (pf : PFromBody) (i n : Nat) (ok : Bool) :
    (naValWS pf i n ok).pend = pf.pend ∧ ((naValWS pf i n ok).vend = pf.vend ∨ (naValWS pf i n ok).vend = i) := by
  unfold naValWS; repeat' split
  all_goals simp

theorem naParam_pv (pf : PFromBody) (i : Nat) :
    (naParamsOffs (naParamStart pf i) i).pend = pf.pend ∧ (naParamsOffs (naParamStart pf i) i).vend = pf.vend := by
  unfold naParamsOffs naParamStart; repeat' split
  all_goals simp

theorem naStepP_inv (h : Nat) (b : Buf) (i : Nat) (c : UInt8) (pf : PFromBody) (hb : b[i]? = some c)
    (hI : naInv b i pf) {i' : Nat} {st' : PFromBody} (hs : naStepP h b i c pf = .cont i' st') :
    naInv b i' st' := by
  have hib := get?_lt hb
  obtain ⟨h1, h2, h3⟩ := hI
  unfold naStepP at hs
  split at hs
  · rcases hsk : skipLWS b i 0 with ⟨n, crl, e⟩
    rw [hsk] at hs
    cases e <;> simp only at hs <;> cases hs
    have hr := skipLWS_range b i 0 hsk
    have hp := naNameWS_pv pf i
    refine ⟨hr.2 h1, ?_, by rw [hp.2]; omega⟩
    rcases hp.1 with hh | hh <;> rw [hh] <;> omega
  · repeat' (split at hs)
    all_goals first
      | exact absurd hs (naMoreValues_not_cont h b _ i)
      | (cases hs; exact naInv_sfp b _ _ (by omega))
      | (cases hs; have hp := naParam_pv pf i; exact ⟨by omega, by rw [hp.1]; omega, by rw [hp.2]; omega⟩)
      | (cases hs; exact ⟨by omega, by first | omega | (dsimp only; omega) | (simp; omega), by first | omega | (dsimp only; omega) | (simp; omega)⟩)
      | cases hs

theorem naStepPE_inv (h : Nat) (b : Buf) (i : Nat) (c : UInt8) (pf : PFromBody) (hb : b[i]? = some c)
    (hI : naInv b i pf) {i' : Nat} {st' : PFromBody} (hs : naStepPE h b i c pf = .cont i' st') :
    naInv b i' st' := by
  have hib := get?_lt hb
  obtain ⟨h1, h2, h3⟩ := hI
  unfold naStepPE at hs
  repeat' (split at hs)
  all_goals first
    | exact absurd hs (naCommaAfterWS_not_cont h b _ i _)
    | (cases hs; exact naInv_sfp b _ _ (by omega))
    | (cases hs; exact ⟨by omega, by first | omega | (dsimp only; omega) | (simp; omega), by first | omega | (dsimp only; omega) | (simp; omega)⟩)
    | cases hs

theorem naStepV_inv (h : Nat) (b : Buf) (i : Nat) (c : UInt8) (pf : PFromBody) (hb : b[i]? = some c)
    (hI : naInv b i pf) {i' : Nat} {st' : PFromBody} (hs : naStepV h b i c pf = .cont i' st') :
    naInv b i' st' := by
  have hib := get?_lt hb
  obtain ⟨h1, h2, h3⟩ := hI
  unfold naStepV at hs
  split at hs
  · rcases hsk : skipLWS b i 0 with ⟨n, crl, e⟩
    rw [hsk] at hs
    cases e <;> simp only at hs <;> cases hs
    have hr := skipLWS_range b i 0 hsk
    have hp := naValWS_pv pf i i' true
    refine ⟨hr.2 h1, by rw [hp.1]; omega, ?_⟩
    rcases hp.2 with hh | hh <;> rw [hh] <;> omega
  · repeat' (split at hs)
    all_goals first
      | exact absurd hs (naMoreValues_not_cont h b _ i)
      | (cases hs; exact naInv_sfp b _ _ (by omega))
      | (cases hs; exact ⟨by omega, by first | omega | (dsimp only; omega) | (simp; omega), by first | omega | (dsimp only; omega) | (simp; omega)⟩)
      | cases hs

theorem naStepVE_inv (h : Nat) (b : Buf) (i : Nat) (c : UInt8) (pf : PFromBody) (hb : b[i]? = some c)
    (hI : naInv b i pf) {i' : Nat} {st' : PFromBody} (hs : naStepVE h b i c pf = .cont i' st') :
    naInv b i' st' := by
  have hib := get?_lt hb
  obtain ⟨h1, h2, h3⟩ := hI
  unfold naStepVE at hs
  repeat' (split at hs)
  all_goals first
    | exact absurd hs (naCommaAfterWS_not_cont h b _ i _)
    | (cases hs; exact naInv_sfp b _ _ (by omega))
    | (cases hs; exact ⟨by omega, by first | omega | (dsimp only; omega) | (simp; omega), by first | omega | (dsimp only; omega) | (simp; omega)⟩)
    | cases hs

theorem na_invCont (h : Nat) (b : Buf) : InvCont (naMachine h) b (naInv b) := by
  intro i c pf i' st' hb hI hs _
  change naStep h b i c pf = .cont i' st' at hs
  unfold naStep at hs
  split at hs
  all_goals first
    | exact naStepA_inv h b i c pf hb hI hs
    | exact naStepQ_inv h b i c pf hb hI hs
    | exact naStepU_inv b i c pf hb hI hs
    | exact naStepUF_inv h b i c pf hb hI hs
    | exact naStepP_inv h b i c pf hb hI hs
    | exact naStepPE_inv h b i c pf hb hI hs
    | exact naStepV_inv h b i c pf hb hI hs
    | exact naStepVE_inv h b i c pf hb hI hs
    | exact naStepStar_inv h b i c pf hb hI hs
    | (cases hs; have := get?_lt hb; exact ⟨by omega, by have := hI.2.1; omega, by have := hI.2.2; omega⟩)

end Sipsp
