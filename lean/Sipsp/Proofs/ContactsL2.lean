/-
  Sipsp.Proofs.ContactsL2 — L2 (resumption) for ParseAllContactValues and ParseAllPAIValues.
-/
import Sipsp.Proofs.NameAddrRR
import Sipsp.Proofs.Post

namespace Sipsp

/-! ### Contact -/

/-- what a caller can read of a contacts object -/
def PContacts.obs (c : PContacts) : PContacts :=
  { c with vals := c.vals.map PFromBody.obs, last := c.last.obs, first := c.first.obs }

theorem setCur_cur (c : PContacts) (pf : PFromBody) : (c.setCur pf).cur = pf := by
  unfold PContacts.setCur PContacts.cur
  split
  · rename_i h
    have h' : c.n < (c.vals.set! c.n pf).size := by simpa using h
    simp only [h', ↓reduceIte]
    simp [h]
  · rename_i h; simp only [h, ↓reduceIte]

theorem setCur_setCur (c : PContacts) (p q : PFromBody) : (c.setCur p).setCur q = c.setCur q := by
  unfold PContacts.setCur
  split
  · rename_i h
    have h' : c.n < (c.vals.set! c.n p).size := by simpa using h
    simp only [h', ↓reduceIte]
    simp [Array.setIfInBounds_setIfInBounds]
  · rename_i h; simp only [h, ↓reduceIte]

theorem setCur_obs (c : PContacts) (p q : PFromBody) (h : p.obs = q.obs) : (c.setCur p).obs = (c.setCur q).obs := by
  unfold PContacts.setCur PContacts.obs
  split
  · simp only [Array.set!_eq_setIfInBounds, Array.map_setIfInBounds, h]
  · simp only [h]

theorem setCur_out_clear (c : PContacts) (p : PFromBody) (h : ¬ c.n < c.vals.size) :
    ({ c.setCur p with last := {} } : PContacts) = { c with last := {} } := by
  unfold PContacts.setCur; rw [if_neg h]

theorem ctOK_setCur {b : Buf} {o : Nat} {c : PContacts} (pf : PFromBody) (h : ctOK b o c) (hp : naOK b o pf) :
    ctOK b o (c.setCur pf) := by
  refine ⟨fun k hk hk' => ?_, ?_⟩
  · rw [setCur_n] at hk
    rw [setCur_size] at hk'
    by_cases hkn : c.n = k
    · subst hkn
      have : (c.setCur pf).cur = pf := setCur_cur c pf
      unfold PContacts.cur at this
      rw [setCur_n, setCur_size, if_pos hk'] at this
      rw [this]; exact hp
    · rw [setCur_vals_ne c pf k hkn]; exact h.1 k hk hk'
  · by_cases hin : c.n < c.vals.size
    · rw [setCur_last_in c pf hin]; exact h.2
    · rw [setCur_last_out c pf hin]; exact hp

theorem clear_setCur_out (c : PContacts) (p : PFromBody) (h : ¬ c.n < c.vals.size) :
    ({ c.setCur p with last := {} } : PContacts) = { c with last := {} } := by
  unfold PContacts.setCur; rw [if_neg h]

/-- re-entering the loop with the suspended element in place: the first value-parser call decides -/
theorem contactsLoop_reenter (B : Buf) (o' offs : Nat) (c : PContacts) (pf : PFromBody)
    (hnf : pf.state ≠ .fin) (hle : offs ≤ o')
    (hrr : RR PFromBody.obs (parseOneContact B o' pf) (parseOneContact B offs c.cur)) :
    RR PContacts.obs (contactsLoop B o' (c.setCur pf)) (contactsLoop B offs c) := by
  rw [contactsLoop.eq_1 B o' (c.setCur pf), contactsLoop.eq_1 B offs c]
  rw [setCur_cur, setCur_n, setCur_size]
  rcases h1 : parseOneContact B o' pf with ⟨n1, e1, p1⟩
  rcases h2 : parseOneContact B offs c.cur with ⟨n2, e2, p2⟩
  rw [h1, h2] at hrr
  obtain ⟨hn, he, hg, ho⟩ := hrr
  simp only at hn he hg ho
  subst hn; subst he
  by_cases hgo : Err.goesOn e1
  · have := hg hgo
    subst this
    apply RR.of_eq
    rcases hgo with rfl | rfl | rfl | rfl <;> simp only [setCur_setCur]
    · -- MoreValues: both guards hold, the value parser has moved forward
      have hpost := (parseNameAddrPVal_post HdrContact B o' pf h1 (Or.inr rfl)).2 hnf
      have g1 : o' < n1 ∧ n1 ≤ B.size := hpost
      have g2 : offs < n1 ∧ n1 ≤ B.size := ⟨by omega, hpost.2⟩
      rw [if_pos g1, if_pos g2]
    · split
      · rfl
      · rename_i hin
        unfold PContacts.setCur; simp only [hin, ↓reduceIte]
  · have h1 : e1 ≠ .ok := fun h => hgo (Or.inl h)
    have h2 : e1 ≠ .moreBytes := fun h => hgo (Or.inr (Or.inl h))
    have h3 : e1 ≠ .moreValues := fun h => hgo (Or.inr (Or.inr (Or.inl h)))
    cases e1 <;> first | exact absurd rfl h1 | exact absurd rfl h2 | exact absurd rfl h3 | skip
    all_goals
      simp only [setCur_setCur]
      refine ⟨rfl, rfl, fun hh => absurd hh hgo, ?_⟩
      simp only
      split
      · exact setCur_obs c _ _ ho
      · rename_i hin
        unfold PContacts.setCur; simp only [hin, ↓reduceIte]

/-- **L2 for the contact-values loop** -/
theorem contactsLoop_resume (b s : Buf) (offs : Nat) (c : PContacts) (hok : ctOK b offs c) (ho : offs ≤ b.size)
    {o' : Nat} {c' : PContacts} (hr : contactsLoop b offs c = (o', Err.moreBytes, c')) :
    RR PContacts.obs (contactsLoop (b ++ s) o' c') (contactsLoop (b ++ s) offs c) ∧
      ctOK (b ++ s) o' c' ∧ offs ≤ o' ∧ o' ≤ b.size ∧ c'.cur.state ≠ .fin := by
  induction hk : b.size - offs using Nat.strongRecOn generalizing offs c with
  | _ k ih =>
    rw [contactsLoop] at hr
    rcases hp : parseOneContact b offs c.cur with ⟨next, e1, pf⟩
    rw [hp] at hr
    have hcur := ctOK_cur hok
    cases e1 <;> simp only at hr <;> try (cases hr; done)
    case moreBytes =>
      simp only [Prod.mk.injEq, true_and] at hr
      obtain ⟨rfl, rfl⟩ := hr
      obtain ⟨hrr, hok', hnf⟩ := parseNameAddrPVal_resumeR HdrContact b s offs c.cur hcur hp
      have hrg := parseNameAddrPVal_more_range HdrContact b offs c.cur hcur hp
      refine ⟨contactsLoop_reenter (b ++ s) next offs c pf hnf hrg.1 hrr, ?_, hrg.1, hrg.2, ?_⟩
      · exact ctOK_setCur pf (ctOK_mono (ctOK_grows s hok) hrg.1 (by rw [Array.size_append]; omega)) hok'
      · rw [setCur_cur]; exact hnf
    case moreValues =>
      have hpB := parseOneContact_stable b s offs c.cur hcur hp (by decide)
      obtain ⟨hf, h1, h2⟩ := naPVal_ok_range HdrContact b offs c.cur ho hp (Or.inr rfl)
      have hnf : c.cur.state ≠ .fin := by
        intro hf'
        have : parseOneContact b offs c.cur = (offs, .ok, c.cur) := by
          unfold parseOneContact parseNameAddrPVal; rw [if_pos hf']
        rw [this] at hp; cases hp
      have hlt := ((parseNameAddrPVal_post HdrContact b offs c.cur hp (Or.inr rfl)).2 hnf).1
      have hg : offs < next ∧ next ≤ b.size := ⟨hlt, h2⟩
      have hgB : offs < next ∧ next ≤ (b ++ s).size := ⟨hlt, by rw [Array.size_append]; omega⟩
      rw [if_pos hg] at hr
      have := ih (b.size - next) (by omega) next _ (ctOK_next pf hok h1 h2) h2 hr rfl
      refine ⟨?_, this.2.1, by omega, this.2.2.2.1, this.2.2.2.2⟩
      rw [contactsLoop.eq_1 (b ++ s) offs c, hpB]
      simp only
      rw [if_pos hgB]
      exact this.1

/-- **L2 for ParseAllContactValues** -/
theorem parseAllContactValues_resume (b s : Buf) (offs : Nat) (c : PContacts) (hok : ctOK b offs c)
    (ho : offs ≤ b.size) {o' : Nat} {c' : PContacts}
    (hr : parseAllContactValues b offs c = (o', Err.moreBytes, c')) :
    RR PContacts.obs (parseAllContactValues (b ++ s) o' c') (parseAllContactValues (b ++ s) offs c) ∧
      ctOK (b ++ s) o' c' ∧ c'.cur.state ≠ .fin ∧ offs ≤ o' ∧ o' ≤ b.size := by
  unfold parseAllContactValues at hr ⊢
  have := contactsLoop_resume b s offs _ (ctOK_entry hok ho) ho hr
  refine ⟨?_, this.2.1, this.2.2.2.2, this.2.2.1, this.2.2.2.1⟩
  -- the suspended element is not "parsed", so the wrapper leaves the object as it is
  have hnf := this.2.2.2.2
  have hc : (if c'.n ≥ c'.vals.size && c'.last.parsed then { c' with last := {} } else c') = c' := by
    split
    · rename_i hcond
      exfalso
      simp only [Bool.and_eq_true, decide_eq_true_eq] at hcond
      have hcur : c'.cur = c'.last := by unfold PContacts.cur; rw [if_neg (by omega)]
      rw [hcur] at hnf
      exact hnf (by simpa [PFromBody.parsed] using hcond.2)
    · rfl
  rw [hc]
  exact this.1

/-! ### P-Asserted-Identity -/

/-- what a caller can read of a identities object -/
def PPAIs.obs (c : PPAIs) : PPAIs :=
  { c with vals := c.vals.map PFromBody.obs, last := c.last.obs }

theorem paSetCur_cur (c : PPAIs) (pf : PFromBody) : (c.setCur pf).cur = pf := by
  unfold PPAIs.setCur PPAIs.cur
  split
  · rename_i h
    have h' : c.n < (c.vals.set! c.n pf).size := by simpa using h
    simp only [h', ↓reduceIte]
    simp [h]
  · rename_i h; simp only [h, ↓reduceIte]

theorem paSetCur_setCur (c : PPAIs) (p q : PFromBody) : (c.setCur p).setCur q = c.setCur q := by
  unfold PPAIs.setCur
  split
  · rename_i h
    have h' : c.n < (c.vals.set! c.n p).size := by simpa using h
    simp only [h', ↓reduceIte]
    simp [Array.setIfInBounds_setIfInBounds]
  · rename_i h; simp only [h, ↓reduceIte]

theorem paSetCur_obs (c : PPAIs) (p q : PFromBody) (h : p.obs = q.obs) : (c.setCur p).obs = (c.setCur q).obs := by
  unfold PPAIs.setCur PPAIs.obs
  split
  · simp only [Array.set!_eq_setIfInBounds, Array.map_setIfInBounds, h]
  · simp only [h]

theorem paSetCur_out_clear (c : PPAIs) (p : PFromBody) (h : ¬ c.n < c.vals.size) :
    ({ c.setCur p with last := {} } : PPAIs) = { c with last := {} } := by
  unfold PPAIs.setCur; rw [if_neg h]

theorem paOK_setCur {b : Buf} {o : Nat} {c : PPAIs} (pf : PFromBody) (h : paOK b o c) (hp : naOK b o pf) :
    paOK b o (c.setCur pf) := by
  refine ⟨fun k hk hk' => ?_, ?_⟩
  · rw [paSetCur_n] at hk
    rw [paSetCur_size] at hk'
    by_cases hkn : c.n = k
    · subst hkn
      have : (c.setCur pf).cur = pf := paSetCur_cur c pf
      unfold PPAIs.cur at this
      rw [paSetCur_n, paSetCur_size, if_pos hk'] at this
      rw [this]; exact hp
    · rw [paSetCur_vals_ne c pf k hkn]; exact h.1 k hk hk'
  · by_cases hin : c.n < c.vals.size
    · rw [paSetCur_last_in c pf hin]; exact h.2
    · rw [paSetCur_last_out c pf hin]; exact hp

theorem clear_paSetCur_out (c : PPAIs) (p : PFromBody) (h : ¬ c.n < c.vals.size) :
    ({ c.setCur p with last := {} } : PPAIs) = { c with last := {} } := by
  unfold PPAIs.setCur; rw [if_neg h]

/-- the resumption law of ParseOnePAI (ParseNameAddrPVal + the "*" check) -/
theorem parseOnePAI_resumeR (b s : Buf) (o : Nat) (pf : PFromBody) (hok : naOK b o pf)
    {o' : Nat} {pf' : PFromBody} (hr : parseOnePAI b o pf = (o', Err.moreBytes, pf')) :
    RR PFromBody.obs (parseOnePAI (b ++ s) o' pf') (parseOnePAI (b ++ s) o pf) ∧
      naOK (b ++ s) o' pf' ∧ pf'.state ≠ .fin ∧ o ≤ o' ∧ o' ≤ b.size := by
  obtain ⟨e0, h0, he0⟩ := parseOnePAI_inv hr
  have he0' : e0 = .moreBytes := by
    split at he0
    · cases he0
    · exact he0.symm
  subst he0'
  obtain ⟨hrr, hok', hnf⟩ := parseNameAddrPVal_resumeR HdrPAI b s o pf hok h0
  have hrg := parseNameAddrPVal_more_range HdrPAI b o pf hok h0
  refine ⟨?_, hok', hnf, hrg.1, hrg.2⟩
  unfold parseOnePAI
  rcases h1 : parseNameAddrPVal HdrPAI (b ++ s) o' pf' with ⟨n1, e1, p1⟩
  rcases h2 : parseNameAddrPVal HdrPAI (b ++ s) o pf with ⟨n2, e2, p2⟩
  rw [h1, h2] at hrr
  obtain ⟨hn, he, hg, ho⟩ := hrr
  simp only at hn he hg ho
  subst hn; subst he
  simp only
  by_cases hgo : Err.goesOn e1
  · have := hg hgo; subst this; exact RR.refl _ _
  · have h1' : e1 ≠ .ok := fun h => hgo (Or.inl h)
    have h3' : e1 ≠ .moreValues := fun h => hgo (Or.inr (Or.inr (Or.inl h)))
    have hc : ∀ p : PFromBody, ((e1 == .ok || e1 == .moreValues) && p.star) = false := by
      intro p; simp [h1', h3']
    rw [hc p1, hc p2]
    exact ⟨rfl, rfl, fun hh => absurd hh hgo, ho⟩

/-- re-entering the loop with the suspended element in place: the first value-parser call decides -/
theorem paisLoop_reenter (B : Buf) (o' offs : Nat) (c : PPAIs) (pf : PFromBody)
    (hnf : pf.state ≠ .fin) (hle : offs ≤ o')
    (hrr : RR PFromBody.obs (parseOnePAI B o' pf) (parseOnePAI B offs c.cur)) :
    RR PPAIs.obs (paisLoop B o' (c.setCur pf)) (paisLoop B offs c) := by
  rw [paisLoop.eq_1 B o' (c.setCur pf), paisLoop.eq_1 B offs c]
  rw [paSetCur_cur, paSetCur_n, paSetCur_size]
  rcases h1 : parseOnePAI B o' pf with ⟨n1, e1, p1⟩
  rcases h2 : parseOnePAI B offs c.cur with ⟨n2, e2, p2⟩
  rw [h1, h2] at hrr
  obtain ⟨hn, he, hg, ho⟩ := hrr
  simp only at hn he hg ho
  subst hn; subst he
  by_cases hgo : Err.goesOn e1
  · have := hg hgo
    subst this
    apply RR.of_eq
    rcases hgo with rfl | rfl | rfl | rfl <;> simp only [paSetCur_setCur]
    · -- MoreValues: both guards hold, the value parser has moved forward
      obtain ⟨e0, h0, he0⟩ := parseOnePAI_inv h1
      have he0' : e0 = .moreValues := by
        split at he0
        · cases he0
        · exact he0.symm
      subst he0'
      have hpost := (parseNameAddrPVal_post HdrPAI B o' pf h0 (Or.inr rfl)).2 hnf
      have g1 : o' < n1 ∧ n1 ≤ B.size := hpost
      have g2 : offs < n1 ∧ n1 ≤ B.size := ⟨by omega, hpost.2⟩
      rw [if_pos g1, if_pos g2]
    · split
      · rfl
      · rename_i hin
        unfold PPAIs.setCur; simp only [hin, ↓reduceIte]
  · have h1 : e1 ≠ .ok := fun h => hgo (Or.inl h)
    have h2 : e1 ≠ .moreBytes := fun h => hgo (Or.inr (Or.inl h))
    have h3 : e1 ≠ .moreValues := fun h => hgo (Or.inr (Or.inr (Or.inl h)))
    cases e1 <;> first | exact absurd rfl h1 | exact absurd rfl h2 | exact absurd rfl h3 | skip
    all_goals
      simp only [paSetCur_setCur]
      refine ⟨rfl, rfl, fun hh => absurd hh hgo, ?_⟩
      simp only
      split
      · exact paSetCur_obs c _ _ ho
      · rename_i hin
        unfold PPAIs.setCur; simp only [hin, ↓reduceIte]

/-- **L2 for the identity-values loop** -/
theorem paisLoop_resume (b s : Buf) (offs : Nat) (c : PPAIs) (hok : paOK b offs c) (ho : offs ≤ b.size)
    {o' : Nat} {c' : PPAIs} (hr : paisLoop b offs c = (o', Err.moreBytes, c')) :
    RR PPAIs.obs (paisLoop (b ++ s) o' c') (paisLoop (b ++ s) offs c) ∧
      paOK (b ++ s) o' c' ∧ offs ≤ o' ∧ o' ≤ b.size ∧ c'.cur.state ≠ .fin := by
  induction hk : b.size - offs using Nat.strongRecOn generalizing offs c with
  | _ k ih =>
    rw [paisLoop] at hr
    rcases hp : parseOnePAI b offs c.cur with ⟨next, e1, pf⟩
    rw [hp] at hr
    have hcur := paOK_cur hok
    cases e1 <;> simp only at hr <;> try (cases hr; done)
    case moreBytes =>
      simp only [Prod.mk.injEq, true_and] at hr
      obtain ⟨rfl, rfl⟩ := hr
      obtain ⟨hrr, hok', hnf, hrg⟩ := parseOnePAI_resumeR b s offs c.cur hcur hp
      refine ⟨paisLoop_reenter (b ++ s) next offs c pf hnf hrg.1 hrr, ?_, hrg.1, hrg.2, ?_⟩
      · exact paOK_setCur pf (paOK_mono (paOK_grows s hok) hrg.1 (by rw [Array.size_append]; omega)) hok'
      · rw [paSetCur_cur]; exact hnf
    case moreValues =>
      have hpB := parseOnePAI_stable b s offs c.cur hcur hp (by decide)
      obtain ⟨e0, h0, he0⟩ := parseOnePAI_inv hp
      have he0' : e0 = .moreValues := by
        split at he0
        · cases he0
        · exact he0.symm
      subst he0'
      obtain ⟨hf, h1, h2⟩ := naPVal_ok_range HdrPAI b offs c.cur ho h0 (Or.inr rfl)
      have hnf : c.cur.state ≠ .fin := by
        intro hf'
        have : parseNameAddrPVal HdrPAI b offs c.cur = (offs, .ok, c.cur) := by
          unfold parseNameAddrPVal; rw [if_pos hf']
        rw [this] at h0; cases h0
      have hlt := ((parseNameAddrPVal_post HdrPAI b offs c.cur h0 (Or.inr rfl)).2 hnf).1
      have hg : offs < next ∧ next ≤ b.size := ⟨hlt, h2⟩
      have hgB : offs < next ∧ next ≤ (b ++ s).size := ⟨hlt, by rw [Array.size_append]; omega⟩
      rw [if_pos hg] at hr
      have := ih (b.size - next) (by omega) next _ (paOK_next pf hok h1 h2) h2 hr rfl
      refine ⟨?_, this.2.1, by omega, this.2.2.2.1, this.2.2.2.2⟩
      rw [paisLoop.eq_1 (b ++ s) offs c, hpB]
      simp only
      rw [if_pos hgB]
      exact this.1

/-- **L2 for ParseAllPAIValues** -/
theorem parseAllPAIValues_resume (b s : Buf) (offs : Nat) (c : PPAIs) (hok : paOK b offs c)
    (ho : offs ≤ b.size) {o' : Nat} {c' : PPAIs}
    (hr : parseAllPAIValues b offs c = (o', Err.moreBytes, c')) :
    RR PPAIs.obs (parseAllPAIValues (b ++ s) o' c') (parseAllPAIValues (b ++ s) offs c) ∧
      paOK (b ++ s) o' c' ∧ c'.cur.state ≠ .fin ∧ offs ≤ o' ∧ o' ≤ b.size := by
  unfold parseAllPAIValues at hr ⊢
  have := paisLoop_resume b s offs _ (paOK_entry hok ho) ho hr
  refine ⟨?_, this.2.1, this.2.2.2.2, this.2.2.1, this.2.2.2.1⟩
  -- the suspended element is not "parsed", so the wrapper leaves the object as it is
  have hnf := this.2.2.2.2
  have hc : (if c'.n ≥ c'.vals.size && c'.last.parsed then { c' with last := {} } else c') = c' := by
    split
    · rename_i hcond
      exfalso
      simp only [Bool.and_eq_true, decide_eq_true_eq] at hcond
      have hcur : c'.cur = c'.last := by unfold PPAIs.cur; rw [if_neg (by omega)]
      rw [hcur] at hnf
      exact hnf (by simpa [PFromBody.parsed] using hcond.2)
    · rfl
  rw [hc]
  exact this.1

end Sipsp
