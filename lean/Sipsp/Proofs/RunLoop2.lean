/-
  Sipsp.Proofs.RunLoop2 — the generic L1/L2 theorems relative to a loop invariant, and with an arbitrary
  relation `Q` between the resumed and the fresh result (needed where a write-only internal field may
  differ after an error verdict).
-/
import Sipsp.Proofs.LwsSite

namespace Sipsp

variable {σ : Type}

/-- `Inv` is preserved by the continuing steps of `m` on buffer `b` -/
def InvCont (m : Machine σ) (b : Buf) (Inv : Nat → σ → Prop) : Prop :=
  ∀ i c st i' st', b[i]? = some c → Inv i st → m.step b i c st = .cont i' st' → i < i' → Inv i' st'

/-- step stability relative to an invariant -/
def StepStableI (m : Machine σ) (b s : Buf) (Inv : Nat → σ → Prop) : Prop :=
  ∀ i c st, b[i]? = some c → Inv i st → (∀ o st', m.step b i c st ≠ .done o .moreBytes st') →
    m.step (b ++ s) i c st = m.step b i c st

/-- **L1 (generic, with invariant)** -/
theorem runLoop_stableI (m : Machine σ) (b s : Buf) (Inv : Nat → σ → Prop) (hic : InvCont m b Inv)
    (hst : StepStableI m b s Inv) (heob : EobMore m b) (i : Nat) (st : σ) (h0 : Inv i st)
    {o : Nat} {e : Err} {st' : σ}
    (h : runLoop m b i st = (o, e, st')) (he : e ≠ .moreBytes) : runLoop m (b ++ s) i st = (o, e, st') := by
  induction hk : b.size - i using Nat.strongRecOn generalizing i st with
  | _ k ih =>
    cases hb : b[i]? with
    | none =>
      rw [runLoop_none m st hb] at h
      have := heob i st; rw [h] at this; exact absurd this he
    | some c =>
      cases hs : m.step b i c st with
      | done o1 e1 st1 =>
        rw [runLoop_done m hb hs] at h; cases h
        have := hst i c st hb h0 (by intro o' s' hh; rw [hs] at hh; cases hh; exact he rfl)
        exact runLoop_done m (get?_app hb) (this.trans hs)
      | cont i' st1 =>
        rw [runLoop_cont m hb hs] at h
        have hsB := (hst i c st hb h0 (by intro o' s' hh; rw [hs] at hh; cases hh)).trans hs
        rw [runLoop_cont m (get?_app hb) hsB]
        split at h
        · rename_i hlt
          rw [if_pos hlt]
          have := get?_lt hb
          exact ih (b.size - i') (by omega) i' st1 (hic i c st i' st1 hb h0 hs hlt) h rfl
        · rename_i hnl; rw [if_neg hnl]; exact h

/-- **L2 (generic, with invariant and result relation `Q`)**: `Q (resumed result) (fresh result)`. -/
theorem runLoop_resumeI (m : Machine σ) (b s : Buf) (Inv : Nat → σ → Prop) (Q : Nat × Err × σ → Nat × Err × σ → Prop)
    (hic : InvCont m b Inv) (hst : StepStableI m b s Inv)
    (hre : ∀ i c st o st', b[i]? = some c → Inv i st → m.step b i c st = .done o .moreBytes st' →
      Q (runLoop m (b ++ s) o st') (runLoop m (b ++ s) i st))
    (hee : ∀ i st o st', b[i]? = none → Inv i st → m.eob b i st = (o, Err.moreBytes, st') →
      Q (runLoop m (b ++ s) o st') (runLoop m (b ++ s) i st))
    (i : Nat) (st : σ) (h0 : Inv i st) {o : Nat} {st' : σ}
    (h : runLoop m b i st = (o, Err.moreBytes, st')) :
    Q (runLoop m (b ++ s) o st') (runLoop m (b ++ s) i st) := by
  induction hk : b.size - i using Nat.strongRecOn generalizing i st with
  | _ k ih =>
    cases hb : b[i]? with
    | none =>
      rw [runLoop_none m st hb] at h
      exact hee i st o st' hb h0 h
    | some c =>
      cases hs : m.step b i c st with
      | done o1 e1 st1 =>
        rw [runLoop_done m hb hs] at h; cases h
        exact hre i c st o st' hb h0 hs
      | cont i' st1 =>
        rw [runLoop_cont m hb hs] at h
        have hsB := (hst i c st hb h0 (by intro o' s' hh; rw [hs] at hh; cases hh)).trans hs
        rw [runLoop_cont m (get?_app hb) hsB]
        split at h
        · rename_i hlt
          rw [if_pos hlt]
          have := get?_lt hb
          exact ih (b.size - i') (by omega) i' st1 (hic i c st i' st1 hb h0 hs hlt) h rfl
        · cases h

/-- an invariant holds at every suspension: the state returned with `MoreBytes` satisfies `J` -/
theorem runLoop_moreI (m : Machine σ) (b : Buf) (Inv : Nat → σ → Prop) (J : Nat → σ → Prop)
    (hic : InvCont m b Inv)
    (hd : ∀ i c st o st', b[i]? = some c → Inv i st → m.step b i c st = .done o .moreBytes st' → J o st')
    (he : ∀ i st o st', b[i]? = none → Inv i st → m.eob b i st = (o, Err.moreBytes, st') → J o st')
    (i : Nat) (st : σ) (h0 : Inv i st) {o : Nat} {st' : σ}
    (h : runLoop m b i st = (o, Err.moreBytes, st')) : J o st' := by
  induction hk : b.size - i using Nat.strongRecOn generalizing i st with
  | _ k ih =>
    cases hb : b[i]? with
    | none => rw [runLoop_none m st hb] at h; exact he i st o st' hb h0 h
    | some c =>
      cases hs : m.step b i c st with
      | done o1 e1 st1 => rw [runLoop_done m hb hs] at h; cases h; exact hd i c st o st' hb h0 hs
      | cont i' st1 =>
        rw [runLoop_cont m hb hs] at h
        split at h
        · rename_i hlt
          have := get?_lt hb
          exact ih (b.size - i') (by omega) i' st1 (hic i c st i' st1 hb h0 hs hlt) h rfl
        · cases h

end Sipsp

namespace Sipsp

variable {σ : Type}

/-- **L2 (generic, with a re-entry map)**: the caller re-enters with `g st'` (e.g. a write-only bookkeeping
    field cleared); the resumed run equals the fresh run. -/
theorem runLoop_resumeG (m : Machine σ) (b s : Buf) (Inv : Nat → σ → Prop) (g : σ → σ)
    (hic : InvCont m b Inv) (hst : StepStableI m b s Inv)
    (hre : ∀ i c st o st', b[i]? = some c → Inv i st → m.step b i c st = .done o .moreBytes st' →
      runLoop m (b ++ s) o (g st') = runLoop m (b ++ s) i st)
    (hee : ∀ i st o st', b[i]? = none → Inv i st → m.eob b i st = (o, Err.moreBytes, st') →
      runLoop m (b ++ s) o (g st') = runLoop m (b ++ s) i st)
    (i : Nat) (st : σ) (h0 : Inv i st) {o : Nat} {st' : σ}
    (h : runLoop m b i st = (o, Err.moreBytes, st')) :
    runLoop m (b ++ s) o (g st') = runLoop m (b ++ s) i st := by
  induction hk : b.size - i using Nat.strongRecOn generalizing i st with
  | _ k ih =>
    cases hb : b[i]? with
    | none =>
      rw [runLoop_none m st hb] at h
      exact hee i st o st' hb h0 h
    | some c =>
      cases hs : m.step b i c st with
      | done o1 e1 st1 =>
        rw [runLoop_done m hb hs] at h; cases h
        exact hre i c st o st' hb h0 hs
      | cont i' st1 =>
        rw [runLoop_cont m hb hs] at h
        have hsB := (hst i c st hb h0 (by intro o' s' hh; rw [hs] at hh; cases hh)).trans hs
        rw [runLoop_cont m (get?_app hb) hsB]
        split at h
        · rename_i hlt
          rw [if_pos hlt]
          have := get?_lt hb
          exact ih (b.size - i') (by omega) i' st1 (hic i c st i' st1 hb h0 hs hlt) h rfl
        · cases h

/-- **L2 (generic, relational)**: as `runLoop_resumeG`, for any relation `R` between the resumed and the
    fresh result (e.g. equality up to write-only bookkeeping of a nested parser on error verdicts). -/
theorem runLoop_resumeR (m : Machine σ) (b s : Buf) (Inv : Nat → σ → Prop) (g : σ → σ)
    (R : Nat × Err × σ → Nat × Err × σ → Prop)
    (hic : InvCont m b Inv) (hst : StepStableI m b s Inv)
    (hre : ∀ i c st o st', b[i]? = some c → Inv i st → m.step b i c st = .done o .moreBytes st' →
      R (runLoop m (b ++ s) o (g st')) (runLoop m (b ++ s) i st))
    (hee : ∀ i st o st', b[i]? = none → Inv i st → m.eob b i st = (o, Err.moreBytes, st') →
      R (runLoop m (b ++ s) o (g st')) (runLoop m (b ++ s) i st))
    (i : Nat) (st : σ) (h0 : Inv i st) {o : Nat} {st' : σ}
    (h : runLoop m b i st = (o, Err.moreBytes, st')) :
    R (runLoop m (b ++ s) o (g st')) (runLoop m (b ++ s) i st) := by
  induction hk : b.size - i using Nat.strongRecOn generalizing i st with
  | _ k ih =>
    cases hb : b[i]? with
    | none =>
      rw [runLoop_none m st hb] at h
      exact hee i st o st' hb h0 h
    | some c =>
      cases hs : m.step b i c st with
      | done o1 e1 st1 =>
        rw [runLoop_done m hb hs] at h; cases h
        exact hre i c st o st' hb h0 hs
      | cont i' st1 =>
        rw [runLoop_cont m hb hs] at h
        have hsB := (hst i c st hb h0 (by intro o' s' hh; rw [hs] at hh; cases hh)).trans hs
        rw [runLoop_cont m (get?_app hb) hsB]
        split at h
        · rename_i hlt
          rw [if_pos hlt]
          have := get?_lt hb
          exact ih (b.size - i') (by omega) i' st1 (hic i c st i' st1 hb h0 hs hlt) h rfl
        · cases h

end Sipsp
