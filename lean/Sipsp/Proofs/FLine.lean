/-
  Sipsp.Proofs.FLine — L1 / L2 for ParseFLine (straight-line code over skipToken / skipLine / skipCRLF).
-/
import Sipsp.Proofs.CSeq
import Sipsp.Model.FLine

namespace Sipsp

/-! ### token / line scanners: stability and restart -/

theorem skipToken_eq_self {b : Buf} {i : Nat} {c : UInt8} (hb : b[i]? = some c) (hl : isLWSch c = true) :
    skipToken b i = i := by
  rw [skipToken]; split
  · rename_i h; rw [hb] at h
  · rename_i c' h; rw [hb] at h; cases h; rw [if_pos hl]

theorem skipToken_step {b : Buf} {i : Nat} {c : UInt8} (hb : b[i]? = some c) (hl : isLWSch c = false) :
    skipToken b i = skipToken b (i + 1) := by
  conv => lhs; rw [skipToken]
  split
  · rename_i h; rw [hb] at h; cases h
  · rename_i c' h; rw [hb] at h; cases h; simp [hl]

theorem skipToken_none {b : Buf} {i : Nat} (hb : b[i]? = none) : skipToken b i = i := by
  rw [skipToken]; split
  · rfl
  · rename_i c' h; rw [hb] at h; cases h

theorem skipToEOL_eq_self {b : Buf} {i : Nat} {c : UInt8} (hb : b[i]? = some c) (hl : isCRLFch c = true) :
    skipToEOL b i = i := by
  rw [skipToEOL]; split
  · rename_i h; rw [hb] at h
  · rename_i c' h; rw [hb] at h; cases h; rw [if_pos hl]

theorem skipToEOL_step {b : Buf} {i : Nat} {c : UInt8} (hb : b[i]? = some c) (hl : isCRLFch c = false) :
    skipToEOL b i = skipToEOL b (i + 1) := by
  conv => lhs; rw [skipToEOL]
  split
  · rename_i h; rw [hb] at h; cases h
  · rename_i c' h; rw [hb] at h; cases h; simp [hl]

theorem skipToEOL_none {b : Buf} {i : Nat} (hb : b[i]? = none) : skipToEOL b i = i := by
  rw [skipToEOL]; split
  · rfl
  · rename_i c' h; rw [hb] at h; cases h

/-- the scan stops on a white space / line end byte, or at the end of the buffer -/
theorem skipToken_stop (b : Buf) (i : Nat) :
    ∀ c, b[skipToken b i]? = some c → isLWSch c = true := by
  fun_induction skipToken b i with
  | case1 i hb => intro c h; rw [hb] at h; cases h
  | case2 i c hb hl => intro c' h; rw [hb] at h; cases h; exact hl
  | case3 i c hb hl ih => exact ih

/-- if the scan stopped on a byte of `b`, it stops there on every extension -/
theorem skipToken_stable (b s : Buf) (i : Nat) {c : UInt8} (h : b[skipToken b i]? = some c) :
    skipToken (b ++ s) i = skipToken b i := by
  fun_induction skipToken b i with
  | case1 i hb => rw [hb] at h; cases h
  | case2 i c' hb hl => exact skipToken_eq_self (get?_app hb) hl
  | case3 i c' hb hl ih =>
    rw [skipToken_step (get?_app hb) (by simpa using hl)]
    exact ih h

/-- if the scan ran into the end of `b`, scanning the extension from there continues the same scan -/
theorem skipToken_restart (b s : Buf) (i : Nat) (h : b[skipToken b i]? = none) (hi : i ≤ b.size) :
    skipToken (b ++ s) (skipToken b i) = skipToken (b ++ s) i ∧ skipToken b i = b.size := by
  fun_induction skipToken b i with
  | case1 i hb => exact ⟨rfl, by have := get?_none_ge hb; omega⟩
  | case2 i c' hb hl => rw [hb] at h; cases h
  | case3 i c' hb hl ih =>
    have := get?_lt hb
    have ih' := ih h (by omega)
    refine ⟨?_, ih'.2⟩
    rw [ih'.1, skipToken_step (get?_app hb) (by simpa using hl)]

theorem skipToEOL_stop (b : Buf) (i : Nat) : ∀ c, b[skipToEOL b i]? = some c → isCRLFch c = true := by
  fun_induction skipToEOL b i with
  | case1 i hb => intro c h; rw [hb] at h; cases h
  | case2 i c hb hl => intro c' h; rw [hb] at h; cases h; exact hl
  | case3 i c hb hl ih => exact ih

theorem skipToEOL_stable (b s : Buf) (i : Nat) {c : UInt8} (h : b[skipToEOL b i]? = some c) :
    skipToEOL (b ++ s) i = skipToEOL b i := by
  fun_induction skipToEOL b i with
  | case1 i hb => rw [hb] at h; cases h
  | case2 i c' hb hl => exact skipToEOL_eq_self (get?_app hb) hl
  | case3 i c' hb hl ih =>
    rw [skipToEOL_step (get?_app hb) (by simpa using hl)]
    exact ih h

theorem skipToEOL_restart (b s : Buf) (i : Nat) (h : b[skipToEOL b i]? = none) (hi : i ≤ b.size) :
    skipToEOL (b ++ s) (skipToEOL b i) = skipToEOL (b ++ s) i ∧ skipToEOL b i = b.size := by
  fun_induction skipToEOL b i with
  | case1 i hb => exact ⟨rfl, by have := get?_none_ge hb; omega⟩
  | case2 i c' hb hl => rw [hb] at h; cases h
  | case3 i c' hb hl ih =>
    have := get?_lt hb
    have ih' := ih h (by omega)
    refine ⟨?_, ih'.2⟩
    rw [ih'.1, skipToEOL_step (get?_app hb) (by simpa using hl)]

theorem skipToEOL_ge' (b : Buf) (i : Nat) : i ≤ skipToEOL b i := skipToEOL_ge b i

/-- `skipLine`: a definitive result is stable -/
theorem skipLine_stable (b s : Buf) (i : Nat) {n crl : Nat} {e : Err}
    (h : skipLine b i = (n, crl, e)) (he : e ≠ .moreBytes) : skipLine (b ++ s) i = (n, crl, e) := by
  unfold skipLine at h ⊢
  cases hj : b[skipToEOL b i]? with
  | none =>
    -- skipCRLF at the end of the buffer asks for more bytes
    exfalso
    have hge := get?_none_ge hj
    unfold skipCRLF at h
    have h1 : b[skipToEOL b i + 1]? = none := by
      apply Array.getElem?_eq_none; omega
    rw [h1, hj] at h
    simp only at h
    cases h; exact he rfl
  | some c =>
    rw [skipToEOL_stable b s i hj]
    exact skipCRLF_stable b s _ h he

/-- `skipLine`: after MoreBytes the returned offset restarts the scan -/
theorem skipLine_restart (b s : Buf) (i : Nat) (hi : i ≤ b.size) {n crl : Nat}
    (h : skipLine b i = (n, crl, Err.moreBytes)) : skipLine (b ++ s) n = skipLine (b ++ s) i := by
  unfold skipLine at h ⊢
  have hm := skipCRLF_moreBytes_pos h
  rw [hm.1]
  cases hj : b[skipToEOL b i]? with
  | none =>
    have := skipToEOL_restart b s i hj hi
    rw [this.1]
  | some c =>
    -- stopped on a CR/LF of b that lacks look-ahead: the scan from there stays there
    rw [skipToEOL_stable b s i hj]
    have hc : isCRLFch c = true := skipToEOL_stop b i c hj
    rw [skipToEOL_eq_self (get?_app hj) hc]

end Sipsp

namespace Sipsp

/-! ### ParseFLine: L1 -/

theorem extend_endT (p : PField) (j : Nat) (hp : p.offs < 65536) (hj : j < 65536) : (p.extend j).endT = j := by
  unfold PField.extend PField.endT trunc16
  simp only
  have h1 : j % 65536 = j := Nat.mod_eq_of_lt hj
  rw [h1]
  by_cases h : p.offs ≤ j
  · have : (j + 65536 - p.offs) % 65536 = j - p.offs := by
      have : j + 65536 - p.offs = (j - p.offs) + 65536 := by omega
      rw [this, Nat.add_mod_right]; exact Nat.mod_eq_of_lt (by omega)
    rw [this]; have : p.offs + (j - p.offs) = j := by omega
    rw [this]; exact h1
  · have : (j + 65536 - p.offs) % 65536 = j + 65536 - p.offs := Nat.mod_eq_of_lt (by omega)
    rw [this]; have : p.offs + (j + 65536 - p.offs) = j + 65536 := by omega
    rw [this, Nat.add_mod_right]; exact h1

theorem flCRLF_stable (b s : Buf) (i : Nat) (pl : PFLine) {o : Nat} {e : Err} {pl' : PFLine}
    (h : flCRLF b i pl = (o, e, pl')) (he : e ≠ .moreBytes) : flCRLF (b ++ s) i pl = (o, e, pl') := by
  unfold flCRLF at h ⊢
  rcases hs : skipCRLF b i with ⟨n, crl, e1⟩
  rw [hs] at h
  have he1 : e1 ≠ .moreBytes := by
    intro hh; subst hh; simp only at h; cases h; exact he rfl
  rw [skipCRLF_stable b s i hs he1]; exact h

theorem flReqVer_stable (b s : Buf) (i : Nat) (pl : PFLine) {o : Nat} {e : Err} {pl' : PFLine}
    (h : flReqVer b i pl = (o, e, pl')) (he : e ≠ .moreBytes) : flReqVer (b ++ s) i pl = (o, e, pl') := by
  unfold flReqVer at h ⊢
  simp only at h ⊢
  cases hj : b[skipToken b i]? with
  | none => rw [hj] at h; simp only at h; cases h; exact absurd rfl he
  | some c =>
    rw [hj] at h
    rw [skipToken_stable b s i hj, get?_app hj]
    simp only at h ⊢
    split
    · rename_i hc; rw [if_pos hc] at h; exact h
    · rename_i hc; rw [if_neg hc] at h
      split
      · rename_i hem; rw [if_pos hem] at h; exact h
      · rename_i hem; rw [if_neg hem] at h
        exact flCRLF_stable b s _ _ h he

theorem flReqURI_stable (b s : Buf) (i : Nat) (pl : PFLine) {o : Nat} {e : Err} {pl' : PFLine}
    (h : flReqURI b i pl = (o, e, pl')) (he : e ≠ .moreBytes) : flReqURI (b ++ s) i pl = (o, e, pl') := by
  unfold flReqURI at h ⊢
  simp only at h ⊢
  cases hj : b[skipToken b i]? with
  | none => rw [hj] at h; simp only at h; cases h; exact absurd rfl he
  | some c =>
    rw [hj] at h
    rw [skipToken_stable b s i hj, get?_app hj]
    simp only at h ⊢
    split
    · rename_i hc; rw [if_pos hc] at h; exact h
    · rename_i hc; rw [if_neg hc] at h
      split
      · rename_i hem; rw [if_pos hem] at h; exact h
      · rename_i hem; rw [if_neg hem] at h
        exact flReqVer_stable b s _ _ h he

/-- the objects ParseFLine can be given: field offsets are 16-bit values (true of every field ever
    produced by the library) -/
def flOK (pl : PFLine) : Prop := pl.method.offs < 65536

theorem flReqMethod_stable (b s : Buf) (i : Nat) (pl : PFLine) (hok : flOK pl) (hfit : b.size ≤ 65535)
    {o : Nat} {e : Err} {pl' : PFLine}
    (h : flReqMethod b i pl = (o, e, pl')) (he : e ≠ .moreBytes) : flReqMethod (b ++ s) i pl = (o, e, pl') := by
  unfold flReqMethod at h ⊢
  simp only at h ⊢
  cases hj : b[skipToken b i]? with
  | none => rw [hj] at h; simp only at h; cases h; exact absurd rfl he
  | some c =>
    rw [hj] at h
    rw [skipToken_stable b s i hj, get?_app hj]
    simp only at h ⊢
    have hjl := get?_lt hj
    split
    · rename_i hc; rw [if_pos hc] at h; exact h
    · rename_i hc; rw [if_neg hc] at h
      split
      · rename_i hem; rw [if_pos hem] at h; exact h
      · rename_i hem; rw [if_neg hem] at h
        have hend : (pl.method.extend (skipToken b i)).endT ≤ b.size := by
          rw [extend_endT _ _ hok (by omega)]; omega
        rw [PField.get?_app _ b s hend]
        split
        · rename_i hg; rw [hg] at h; exact h
        · rename_i nm hg; rw [hg] at h; simp only at h
          exact flReqURI_stable b s _ _ h he

theorem flRplReason_stable (b s : Buf) (i : Nat) (pl : PFLine) {o : Nat} {e : Err} {pl' : PFLine}
    (h : flRplReason b i pl = (o, e, pl')) (he : e ≠ .moreBytes) : flRplReason (b ++ s) i pl = (o, e, pl') := by
  unfold flRplReason at h ⊢
  rcases hs : skipLine b i with ⟨n, crl, e1⟩
  rw [hs] at h
  have he1 : e1 ≠ .moreBytes := by
    intro hh; subst hh; simp only at h; cases h; exact he rfl
  rw [skipLine_stable b s i hs he1]; exact h

theorem extract_app (b s : Buf) (lo hi : Nat) (h : hi ≤ b.size) : (b ++ s).extract lo hi = b.extract lo hi := by
  apply Array.ext
  · simp; omega
  · intro k h1 h2
    simp only [Array.getElem_extract]
    rw [Array.getElem_append_left]

theorem prefixAux_true (p s : List UInt8) (i l : Nat) (hlen : p.length ≤ s.length)
    (h : prefixAux p s i = (l, true)) : l = i + p.length := by
  induction p generalizing s i with
  | nil => simp only [prefixAux, Prod.mk.injEq, and_true] at h; simp only [List.length_nil]; omega
  | cons x xs ih =>
    cases s with
    | nil => simp at hlen
    | cons v vs =>
      simp only [prefixAux] at h
      split at h
      · have := ih vs (i + 1) (by simpa using hlen) h
        simp only [List.length_cons]; omega
      · cases h

theorem flReply_stable (b s : Buf) (i0 l : Nat) (pl : PFLine) (h4 : i0 + l + 3 < b.size)
    {o : Nat} {e : Err} {pl' : PFLine}
    (h : flReply b i0 l pl = (o, e, pl')) (he : e ≠ .moreBytes) : flReply (b ++ s) i0 l pl = (o, e, pl') := by
  unfold flReply at h ⊢
  simp only at h ⊢
  have g0 : b[i0 + l]? = some b[i0 + l] := Array.getElem?_eq_getElem (by omega)
  have g1 : b[i0 + l + 1]? = some b[i0 + l + 1] := Array.getElem?_eq_getElem (by omega)
  have g2 : b[i0 + l + 2]? = some b[i0 + l + 2] := Array.getElem?_eq_getElem (by omega)
  have g3 : b[i0 + l + 3]? = some b[i0 + l + 3] := Array.getElem?_eq_getElem (by omega)
  rw [g0, g1, g2, g3] at h
  rw [get?_app g0, get?_app g1, get?_app g2, get?_app g3]
  simp only at h ⊢
  split
  · rename_i hc; rw [if_pos hc] at h; exact h
  · rename_i hc; rw [if_neg hc] at h
    exact flRplReason_stable b s _ _ h he

/-- **L1 for ParseFLine** -/
theorem parseFLine_stable (b s : Buf) (o : Nat) (pl : PFLine) (hok : flOK pl) (hfit : b.size ≤ 65535)
    {o' : Nat} {e : Err} {pl' : PFLine}
    (h : parseFLine b o pl = (o', e, pl')) (he : e ≠ .moreBytes) : parseFLine (b ++ s) o pl = (o', e, pl') := by
  unfold parseFLine at h ⊢
  cases hst : pl.state <;> rw [hst] at h <;> simp only at h ⊢
  case init =>
    split at h
    · cases h; exact absurd rfl he
    · rename_i hlen
      have hlen' : ¬ ((b ++ s).size - o < 14) := by simp; omega
      rw [if_neg hlen']
      have hex : (b ++ s).extract o (o + 8) = b.extract o (o + 8) := extract_app b s _ _ (by omega)
      rw [hex]
      split
      · rename_i l hm
        rw [hm] at h; simp only at h
        -- the prefix match consumed 8 bytes
        have hl : l = 8 := by
          have hsz : (b.extract o (o + 8)).toList.length = 8 := by simp; omega
          unfold bcPrefix at hm
          have hle : sipVerSP.length ≤ (b.extract o (o + 8)).toList.length := by rw [hsz]; decide
          rw [if_neg (by omega)] at hm
          have := prefixAux_true sipVerSP _ 0 l hle hm
          simpa [sipVerSP] using this
        subst hl
        exact flReply_stable b s o 8 pl (by omega) h he
      · rename_i hm
        rw [hm] at h; simp only at h
        exact flReqMethod_stable b s o _ (by simp [flOK, PField.set, trunc16]; exact Nat.mod_lt _ (by decide)) hfit h he
  case reqMethod => exact flReqMethod_stable b s o pl hok hfit h he
  case reqURI => exact flReqURI_stable b s o pl h he
  case reqVer => exact flReqVer_stable b s o pl h he
  case crlf => exact flCRLF_stable b s o pl h he
  case rplReason => exact flRplReason_stable b s o pl h he
  all_goals exact h

end Sipsp

namespace Sipsp

/-! ### ParseFLine: L2 -/

theorem flCRLF_resume (b s : Buf) (i : Nat) (pl : PFLine) (hs : pl.state = .crlf) {o : Nat} {pl' : PFLine}
    (h : flCRLF b i pl = (o, Err.moreBytes, pl')) :
    parseFLine (b ++ s) o pl' = flCRLF (b ++ s) i pl ∧ pl' = pl ∧ o = i := by
  unfold flCRLF at h
  rcases hc : skipCRLF b i with ⟨n, crl, e⟩
  rw [hc] at h
  cases e <;> simp only at h <;> cases h
  have := skipCRLF_moreBytes_pos hc
  rw [this.1]
  refine ⟨?_, rfl, rfl⟩
  unfold parseFLine; rw [hs]

theorem flReqVer_resume (b s : Buf) (i : Nat) (pl : PFLine) (hi : i ≤ b.size) (hs : pl.state = .reqVer)
    {o : Nat} {pl' : PFLine} (h : flReqVer b i pl = (o, Err.moreBytes, pl')) :
    parseFLine (b ++ s) o pl' = flReqVer (b ++ s) i pl ∧ pl'.method = pl.method ∧ o ≤ b.size := by
  unfold flReqVer at h
  simp only at h
  cases hj : b[skipToken b i]? with
  | none =>
    rw [hj] at h; simp only at h; cases h
    have hr := skipToken_restart b s i hj hi
    refine ⟨?_, rfl, by omega⟩
    conv => lhs; unfold parseFLine; rw [hs]
    simp only
    unfold flReqVer
    simp only [hr.1]
  | some c =>
    rw [hj] at h; simp only at h
    have hjl := get?_lt hj
    split at h
    · cases h
    · split at h
      · cases h
      · rename_i hc hem
        have := flCRLF_resume b s _ _ rfl h
        obtain ⟨h1, h2, h3⟩ := this
        refine ⟨?_, by rw [h2], by omega⟩
        rw [h1]
        conv => rhs; unfold flReqVer
        simp only [skipToken_stable b s i hj, get?_app hj, if_neg hc, if_neg hem]

theorem flReqURI_resume (b s : Buf) (i : Nat) (pl : PFLine) (hi : i ≤ b.size) (hs : pl.state = .reqURI)
    {o : Nat} {pl' : PFLine} (h : flReqURI b i pl = (o, Err.moreBytes, pl')) :
    parseFLine (b ++ s) o pl' = flReqURI (b ++ s) i pl ∧ pl'.method = pl.method ∧ o ≤ b.size := by
  unfold flReqURI at h
  simp only at h
  cases hj : b[skipToken b i]? with
  | none =>
    rw [hj] at h; simp only at h; cases h
    have hr := skipToken_restart b s i hj hi
    refine ⟨?_, rfl, by omega⟩
    conv => lhs; unfold parseFLine; rw [hs]
    simp only
    unfold flReqURI
    simp only [hr.1]
  | some c =>
    rw [hj] at h; simp only at h
    have hjl := get?_lt hj
    split at h
    · cases h
    · split at h
      · cases h
      · rename_i hc hem
        obtain ⟨h1, h2, h3⟩ := flReqVer_resume b s _ _ (by omega) rfl h
        refine ⟨?_, by rw [h2], h3⟩
        rw [h1]
        conv => rhs; unfold flReqURI
        simp only [skipToken_stable b s i hj, get?_app hj, if_neg hc, if_neg hem]

theorem flReqMethod_resume (b s : Buf) (i : Nat) (pl : PFLine) (hi : i ≤ b.size) (hs : pl.state = .reqMethod)
    (hok : flOK pl) (hfit : b.size ≤ 65535)
    {o : Nat} {pl' : PFLine} (h : flReqMethod b i pl = (o, Err.moreBytes, pl')) :
    parseFLine (b ++ s) o pl' = flReqMethod (b ++ s) i pl ∧ flOK pl' ∧ o ≤ b.size := by
  unfold flReqMethod at h
  simp only at h
  cases hj : b[skipToken b i]? with
  | none =>
    rw [hj] at h; simp only at h; cases h
    have hr := skipToken_restart b s i hj hi
    refine ⟨?_, hok, by omega⟩
    conv => lhs; unfold parseFLine; rw [hs]
    simp only
    unfold flReqMethod
    simp only [hr.1]
  | some c =>
    rw [hj] at h; simp only at h
    have hjl := get?_lt hj
    split at h
    · cases h
    · split at h
      · cases h
      · rename_i hc hem
        have hend : (pl.method.extend (skipToken b i)).endT ≤ b.size := by
          rw [extend_endT _ _ hok (by omega)]; omega
        split at h
        · cases h
        · rename_i nm hg
          obtain ⟨h1, h2, h3⟩ := flReqURI_resume b s _ _ (by omega) rfl h
          refine ⟨?_, ?_, h3⟩
          · rw [h1]
            conv => rhs; unfold flReqMethod
            simp only [skipToken_stable b s i hj, get?_app hj, if_neg hc, if_neg hem,
              PField.get?_app _ b s hend, hg]
          · unfold flOK; rw [h2]
            simp only [PField.extend]; exact hok

theorem flRplReason_resume (b s : Buf) (i : Nat) (pl : PFLine) (hi : i ≤ b.size) (hs : pl.state = .rplReason)
    {o : Nat} {pl' : PFLine} (h : flRplReason b i pl = (o, Err.moreBytes, pl')) :
    parseFLine (b ++ s) o pl' = flRplReason (b ++ s) i pl ∧ pl' = pl ∧ o ≤ b.size := by
  unfold flRplReason at h
  rcases hc : skipLine b i with ⟨n, crl, e⟩
  rw [hc] at h
  cases e <;> simp only at h <;> cases h
  refine ⟨?_, rfl, ?_⟩
  · conv => lhs; unfold parseFLine; rw [hs]
    simp only
    unfold flRplReason
    rw [skipLine_restart b s i hi hc]
  · -- the restart offset of skipLine lies inside the buffer
    unfold skipLine at hc
    have hm := skipCRLF_moreBytes_pos hc
    rw [hm.1]
    cases hj : b[skipToEOL b i]? with
    | none => have := skipToEOL_restart b s i hj hi; omega
    | some c => have := get?_lt hj; omega

/-- **L2 for ParseFLine** -/
theorem parseFLine_resume (b s : Buf) (o : Nat) (pl : PFLine) (ho : o ≤ b.size) (hok : flOK pl)
    (hfit : b.size ≤ 65535) {o' : Nat} {pl' : PFLine}
    (h : parseFLine b o pl = (o', Err.moreBytes, pl')) :
    parseFLine (b ++ s) o' pl' = parseFLine (b ++ s) o pl ∧ flOK pl' ∧ o' ≤ b.size := by
  have hBs : (b ++ s).size = b.size + s.size := by simp
  cases hst : pl.state
  case init =>
    unfold parseFLine at h
    rw [hst] at h; simp only at h
    split at h
    · cases h; exact ⟨rfl, hok, ho⟩
    · rename_i hlen
      have hex : (b ++ s).extract o (o + 8) = b.extract o (o + 8) := extract_app b s _ _ (by omega)
      have hlen' : ¬ ((b ++ s).size - o < 14) := by rw [hBs]; omega
      have hrhs : parseFLine (b ++ s) o pl =
          (match bcPrefix sipVerSP (b.extract o (o + 8)).toList with
           | (l, true) => flReply (b ++ s) o l pl
           | (_, false) => flReqMethod (b ++ s) o { pl with state := .reqMethod, method := PField.set o o }) := by
        conv => lhs; unfold parseFLine
        rw [hst]; simp only [if_neg hlen', hex]
        rfl
      rw [hrhs]
      split at h
      · rename_i l hm
        rw [hm]; simp only
        have hl : l = 8 := by
          have hsz : (b.extract o (o + 8)).toList.length = 8 := by simp; omega
          unfold bcPrefix at hm
          have hle : sipVerSP.length ≤ (b.extract o (o + 8)).toList.length := by rw [hsz]; decide
          rw [if_neg (by omega)] at hm
          have := prefixAux_true sipVerSP _ 0 l hle hm
          simpa [sipVerSP] using this
        subst hl
        -- reply: only the reason line can suspend
        unfold flReply at h ⊢
        simp only at h ⊢
        have g0 : b[o + 8]? = some b[o + 8] := Array.getElem?_eq_getElem (by omega)
        have g1 : b[o + 8 + 1]? = some b[o + 8 + 1] := Array.getElem?_eq_getElem (by omega)
        have g2 : b[o + 8 + 2]? = some b[o + 8 + 2] := Array.getElem?_eq_getElem (by omega)
        have g3 : b[o + 8 + 3]? = some b[o + 8 + 3] := Array.getElem?_eq_getElem (by omega)
        rw [g0, g1, g2, g3] at h
        rw [get?_app g0, get?_app g1, get?_app g2, get?_app g3]
        simp only at h ⊢
        split at h
        · cases h
        · rename_i hc
          rw [if_neg hc]
          obtain ⟨h1, h2, h3⟩ := flRplReason_resume b s _ _ (by omega) rfl h
          exact ⟨h1, by rw [h2]; exact hok, h3⟩
      · rename_i hm
        rw [hm]; simp only
        exact flReqMethod_resume b s o _ ho rfl
          (by simp only [flOK, PField.set, trunc16]; exact Nat.mod_lt _ (by decide)) hfit h
  case reqMethod =>
    have hd : ∀ B i, parseFLine B i pl = flReqMethod B i pl := by intro B i; unfold parseFLine; rw [hst]
    rw [hd] at h ⊢; exact flReqMethod_resume b s o pl ho hst hok hfit h
  case reqURI =>
    have hd : ∀ B i, parseFLine B i pl = flReqURI B i pl := by intro B i; unfold parseFLine; rw [hst]
    rw [hd] at h ⊢
    obtain ⟨h1, h2, h3⟩ := flReqURI_resume b s o pl ho hst h
    exact ⟨h1, by unfold flOK; rw [h2]; exact hok, h3⟩
  case reqVer =>
    have hd : ∀ B i, parseFLine B i pl = flReqVer B i pl := by intro B i; unfold parseFLine; rw [hst]
    rw [hd] at h ⊢
    obtain ⟨h1, h2, h3⟩ := flReqVer_resume b s o pl ho hst h
    exact ⟨h1, by unfold flOK; rw [h2]; exact hok, h3⟩
  case crlf =>
    have hd : ∀ B i, parseFLine B i pl = flCRLF B i pl := by intro B i; unfold parseFLine; rw [hst]
    rw [hd] at h ⊢
    obtain ⟨h1, h2, h3⟩ := flCRLF_resume b s o pl hst h
    exact ⟨h1, by rw [h2]; exact hok, by omega⟩
  case rplReason =>
    have hd : ∀ B i, parseFLine B i pl = flRplReason B i pl := by intro B i; unfold parseFLine; rw [hst]
    rw [hd] at h ⊢
    obtain ⟨h1, h2, h3⟩ := flRplReason_resume b s o pl ho hst h
    exact ⟨h1, by rw [h2]; exact hok, h3⟩
  case rplStatus => unfold parseFLine at h; rw [hst] at h; cases h
  case fin => unfold parseFLine at h; rw [hst] at h; cases h

end Sipsp
