/-
  Sipsp.Proofs.CapacityExtra — what was left of the capacity property (C13). Lemma file; the theorems marked FINAL are
  meant to be re-exported in Properties/C13.lean.

  (1) first / last contact at MESSAGE level. `FinC c1 c2` = "`GetContact(0)` and `GetContact(N-1)` give the same in both
      objects"; it is carried through ParseHdrLine / ParseHeaders / ParseSIPMsg next to the existing relations
      (`parseHdrLine_fin`, `parseHeaders_fin`, `parseSIPMsg_fin`) and packaged in NEW relations `MsgRelX` / `MsgDoneX` /
      `MsgOutX` (= MsgRel / MsgDone / MsgOut plus `FinC`; `MsgOutX.toOut` forgets the extra).
        FINAL  `parseSIPMsg_relX`     one call on related objects
        FINAL  `capacity_scheduleX`   every chunk schedule (buffers ≤ 65,535 bytes, as `capacity_schedule`)
        FINAL  `capacity_from_initX`  … starting from two Init calls with any capacities (or none)
        FINAL  `MsgDoneX.first_last` / `MsgOutX.first_last`  after OK with N > 0: `GetContact(0)`, `GetContact(N-1)` are
               non-nil in both objects — every capacity, zero included — and equal in the two runs
        unary: `getContact_first_isSome`, `getContact_last_isSome` (non-nil needs no relation at all)
  (2) "more" indicators and stored prefix, with the model's accessors:
        FINAL  `MsgDone.contacts_more`   same N; VNo = min N capacity; More ⇔ N > capacity ⇔ VNo < N (values dropped)
        FINAL  `MsgDone.contacts_prefix` an index stored in both objects holds the same non-nil value
        FINAL  `MsgDone.contacts_mono`   smaller capacity ⇒ its stored values are a prefix of the larger one's; the
               larger one says "more" only if the smaller one does
        FINAL  `MsgDone.hdrs_prefix`, `MsgDone.hdrs_mono`  the same for the header list (no accessor in the library:
               "dropped" is N > len(Hdrs))
        unary: `more_iff`, `more_iff_dropped`, `not_more_iff`, `vNo_eq_min`, `getContact_stored`, `contacts_all_stored`
  (3) identity list (PPAIs):
        FINAL  `capacity_pais`, `PaW_new`, `PaDone.more_prefix`, `PaDone.mono`, `PaDone.first_last`  stand-alone
               ParseAllPAIValues with ANY two capacities (the library fixes 2)
        FINAL  `MsgDone.pais`  at message level the list is identical in both runs and its indicators mean what they say
        unary: `getPAI_dropped` — GetPAI has no scratch-slot fallback: a dropped identity is NOT retrievable, so the
               "last value retrievable whatever the capacity" statement is false for identities and is not claimed
               (`PaDone.first_last` states the true version: first if both capacities > 0, last if nothing was dropped).
  NOT claimed (because false in library and model): first / last contact while a parse is SUSPENDED (MoreBytes) inside
  a Contact header line — the scratch slot then holds the half-parsed next value; `MsgRelX` says so explicitly
  (condition `state = body ∨ cur header state ≠ hContact`).
  Not done here: URI-parameter / stand-alone header-list capacities, the signature's truncation indication.
-/
import Sipsp.Proofs.CapacityMsg
import Sipsp.Proofs.CapacityPAI

namespace Sipsp

/-! ### accessors of one contacts object (no relation involved) -/

theorem vNo_eq_min (c : PContacts) : c.vNo = min c.n c.vals.size := by
  unfold PContacts.vNo; split <;> omega

/-- the "more" indicator says exactly that values were dropped -/
theorem more_iff (c : PContacts) : c.more = true ↔ c.n > c.vals.size := by
  unfold PContacts.more; simp

theorem more_iff_dropped (c : PContacts) : c.more = true ↔ c.vNo < c.n := by
  rw [more_iff, vNo_eq_min]; omega

theorem not_more_iff (c : PContacts) : c.more = false ↔ c.vNo = c.n := by
  rw [← Bool.not_eq_true, more_iff, vNo_eq_min]; omega

/-- a stored value is retrievable -/
theorem getContact_stored (c : PContacts) (k : Nat) (hk : k < c.vNo) : c.getContact k = some c.vals[k]! := by
  have hs : k < c.vals.size := by rw [vNo_eq_min] at hk; omega
  unfold PContacts.getContact
  rw [if_pos hk]
  simp [hs]

/-- with at least one value parsed, `GetContact(0)` is never nil, whatever the capacity -/
theorem getContact_first_isSome (c : PContacts) (h : c.n > 0) : (c.getContact 0).isSome = true := by
  by_cases hv : c.vNo > 0
  · rw [getContact_stored c 0 hv]; rfl
  · unfold PContacts.getContact PContacts.isEmpty
    rw [if_neg hv]
    have h0 : (c.n == 0) = false := by simp; omega
    simp only [h0, Bool.false_eq_true, ↓reduceIte]
    split <;> rfl

/-- with at least one value parsed, `GetContact(N-1)` is never nil, whatever the capacity -/
theorem getContact_last_isSome (c : PContacts) (h : c.n > 0) : (c.getContact (c.n - 1)).isSome = true := by
  by_cases hv : c.vNo > c.n - 1
  · rw [getContact_stored c _ hv]; rfl
  · unfold PContacts.getContact PContacts.isEmpty
    rw [if_neg hv]
    have h0 : (c.n == 0) = false := by simp; omega
    have h1 : (c.n == c.n - 1 + 1) = true := by simp; omega
    simp only [h0, h1, Bool.false_eq_true, ↓reduceIte]
    rfl

/-! ### first and last contact: the relation carried through the parsers -/

/-- the first and the last contact value read with `GetContact` are the same in the two objects -/
def FinC (c1 c2 : PContacts) : Prop :=
  c1.n > 0 → c1.getContact 0 = c2.getContact 0 ∧ c1.getContact (c1.n - 1) = c2.getContact (c2.n - 1)

theorem CtDone.finC {c1 c2 : PContacts} (h : CtDone c1 c2) : FinC c1 c2 := fun hn => ⟨h.firstV hn, h.lastV hn⟩

def FinH : Option PHdrVals → Option PHdrVals → Prop
  | some a, some b => FinC a.contacts b.contacts
  | _, _ => True

/-- `FinH` is required of results with these verdicts (a line suspended inside a Contact value list has a
    half-parsed value in the scratch slot, so nothing is claimed there) -/
def FinOut (e : Err) (st : HState) (hb1 hb2 : Option PHdrVals) : Prop :=
  (e = .ok ∨ e = .empty ∨ (e = .moreBytes ∧ st ≠ .hContact)) → FinH hb1 hb2

theorem FinOut.of {e : Err} {st : HState} {hb1 hb2 : Option PHdrVals} (h : FinH hb1 hb2) : FinOut e st hb1 hb2 :=
  fun _ => h

theorem parseBody_fin (b : Buf) (o : Nat) (h : Hdr) (hb1 hb2 : Option PHdrVals) (hR : HbRel hb1 hb2)
    (hF : FinH hb1 hb2) :
    FinOut (parseBody b o h hb1).2.1 (parseBody b o h hb1).2.2.1.state (parseBody b o h hb1).2.2.2
      (parseBody b o h hb2).2.2.2 := by
  cases hb1 with
  | none =>
    cases hb2 with
    | none => exact fun _ => trivial
    | some _ => exact hR.elim
  | some hv =>
  cases hb2 with
  | none => exact hR.elim
  | some hv2 =>
  obtain ⟨c2, rfl, hc⟩ := hR
  have hF' : FinC hv.contacts c2 := hF
  unfold parseBody
  simp only
  by_cases h_from_ : (h.type == HdrFrom) = true
  · simp only [h_from_, ↓reduceIte]
    split <;> exact fun _ => hF'
  simp only [h_from_, Bool.false_eq_true, ↓reduceIte]
  by_cases h_to : (h.type == HdrTo) = true
  · simp only [h_to, ↓reduceIte]
    split <;> exact fun _ => hF'
  simp only [h_to, Bool.false_eq_true, ↓reduceIte]
  by_cases h_callid : (h.type == HdrCallID) = true
  · simp only [h_callid, ↓reduceIte]
    split <;> exact fun _ => hF'
  simp only [h_callid, Bool.false_eq_true, ↓reduceIte]
  by_cases h_cseq : (h.type == HdrCSeq) = true
  · simp only [h_cseq, ↓reduceIte]
    split <;> exact fun _ => hF'
  simp only [h_cseq, Bool.false_eq_true, ↓reduceIte]
  by_cases h_clen : (h.type == HdrCLen) = true
  · simp only [h_clen, ↓reduceIte]
    split <;> exact fun _ => hF'
  simp only [h_clen, Bool.false_eq_true, ↓reduceIte]
  by_cases h_contacts : (h.type == HdrContact) = true
  · simp only [h_contacts, ↓reduceIte]
    have hc0 : CtW (if h.state != .hContact then { hv.contacts with hNo := hv.contacts.hNo + 1, lastHVal := {} } else hv.contacts)
        (if h.state != .hContact then { c2 with hNo := c2.hNo + 1, lastHVal := {} } else c2) := by
      split
      · exact hc.bump
      · exact hc
    have hrel := parseAllContactValues_rel b o _ _ hc0
    have hne := parseAllContactValues_ne_empty b o (if h.state != .hContact then { hv.contacts with hNo := hv.contacts.hNo + 1, lastHVal := {} } else hv.contacts)
    rcases hq1 : parseAllContactValues b o (if h.state != .hContact then { hv.contacts with hNo := hv.contacts.hNo + 1, lastHVal := {} } else hv.contacts) with ⟨n1, e1, f1⟩
    rcases hq2 : parseAllContactValues b o (if h.state != .hContact then { c2 with hNo := c2.hNo + 1, lastHVal := {} } else c2) with ⟨n2, e2, f2⟩
    rw [hq1, hq2] at hrel
    rw [hq1] at hne
    obtain ⟨r1, r2, r3, r4⟩ := hrel
    simp only at r1 r2 r3 r4 hne ⊢
    intro he
    rcases he with he | he | ⟨_, he⟩
    · exact (r4 he).finC
    · exact absurd he hne
    · exact absurd rfl he
  simp only [h_contacts, Bool.false_eq_true, ↓reduceIte]
  by_cases h_expires : (h.type == HdrExpires) = true
  · simp only [h_expires, ↓reduceIte]
    split <;> exact fun _ => hF'
  simp only [h_expires, Bool.false_eq_true, ↓reduceIte]
  by_cases h_pais : (h.type == HdrPAI) = true
  · simp only [h_pais, ↓reduceIte]
    exact fun _ => hF'
  simp only [h_pais, Bool.false_eq_true, ↓reduceIte]
  exact fun _ => hF'

/-- the extra fact about the results of one iteration of the ParseHdrLine loop -/
def StepFin : Step HLσ → Step HLσ → Prop
  | .cont _ s1, .cont _ s2 => FinH s1.2 s2.2
  | .done _ e s1, .done _ _ s2 => FinOut e s1.1.state s1.2 s2.2
  | _, _ => True

theorem StepFin.same_done (o : Nat) (e : Err) (h : Hdr) {hb1 hb2 : Option PHdrVals} (hF : FinH hb1 hb2) :
    StepFin (.done o e (h, hb1)) (.done o e (h, hb2)) := fun _ => hF

theorem StepFin.same_cont (i : Nat) (h : Hdr) {hb1 hb2 : Option PHdrVals} (hF : FinH hb1 hb2) :
    StepFin (.cont i (h, hb1)) (.cont i (h, hb2)) := hF

theorem hlAfterColon_fin (b : Buf) (i : Nat) (h : Hdr) (hb1 hb2 : Option PHdrVals) (hR : HbRel hb1 hb2)
    (hF : FinH hb1 hb2) : StepFin (hlAfterColon b i h hb1) (hlAfterColon b i h hb2) := by
  unfold hlAfterColon
  cases hnm : h.name.get? b with
  | none => exact StepFin.same_done _ _ _ hF
  | some nm =>
    simp only
    have hrel := parseBody_rel b i { h with type := getHdrType nm } hb1 hb2 hR
    have hfin := parseBody_fin b i { h with type := getHdrType nm } hb1 hb2 hR hF
    rcases hp1 : parseBody b i { h with type := getHdrType nm } hb1 with ⟨n1, e1, g1, v1⟩
    rcases hp2 : parseBody b i { h with type := getHdrType nm } hb2 with ⟨n2, e2, g2, v2⟩
    rw [hp1, hp2] at hrel
    rw [hp1, hp2] at hfin
    obtain ⟨r1, r2, r3, _⟩ := hrel
    simp only at r1 r2 r3 hfin ⊢
    subst r1; subst r2; subst r3
    by_cases hst : (g1.state != HState.bodyStart) = true
    · rw [if_pos hst, if_pos hst]
      intro hc
      apply hfin
      rcases hc with hc | hc | ⟨hc, hs⟩
      · exact Or.inl hc
      · exact Or.inr (Or.inl hc)
      · subst hc
        exact Or.inr (Or.inr ⟨rfl, hs⟩)
    · rw [if_neg hst, if_neg hst]
      have hst' : g1.state = .bodyStart := by simpa using hst
      have hk := parseBody_keep b i _ hb1 hp1 hst'
      exact hfin (Or.inl hk.2.1)

theorem hlValEnd_fin (b : Buf) (i : Nat) (h : Hdr) (hb1 hb2 : Option PHdrVals) (hF : FinH hb1 hb2) :
    StepFin (hlValEnd b i h hb1) (hlValEnd b i h hb2) := by
  unfold hlValEnd
  rcases skipLWS b i 0 with ⟨n, crl, e⟩
  cases e <;> first | exact StepFin.same_cont _ _ hF | exact StepFin.same_done _ _ _ hF

theorem hlName_fin (b : Buf) (i : Nat) (h : Hdr) (hb1 hb2 : Option PHdrVals) (hR : HbRel hb1 hb2)
    (hF : FinH hb1 hb2) : StepFin (hlName b i h hb1) (hlName b i h hb2) := by
  unfold hlName
  simp only
  split
  · exact StepFin.same_done _ _ _ hF
  · split
    · split
      · exact StepFin.same_done _ _ _ hF
      · exact StepFin.same_cont _ _ hF
    · split
      · split
        · exact StepFin.same_done _ _ _ hF
        · exact hlAfterColon_fin b _ _ hb1 hb2 hR hF
      · exact StepFin.same_done _ _ _ hF

theorem hlCont_fin (b : Buf) (i : Nat) (h : Hdr) (hb1 hb2 : Option PHdrVals) (hR : HbRel hb1 hb2)
    (hF : h.state ≠ .hContact → FinH hb1 hb2) : StepFin (hlCont b i h hb1) (hlCont b i h hb2) := by
  cases hb1 with
  | none =>
    cases hb2 with
    | none => exact fun _ => trivial
    | some _ => exact hR.elim
  | some hv =>
  cases hb2 with
  | none => exact hR.elim
  | some hv2 =>
  obtain ⟨c2, rfl, hc⟩ := hR
  have hF' : h.state ≠ .hContact → FinC hv.contacts c2 := hF
  unfold hlCont
  simp only
  cases hst : h.state <;> simp only
  case hContact =>
    have hrel := parseAllContactValues_rel b i hv.contacts c2 hc
    have hne := parseAllContactValues_ne_empty b i hv.contacts
    rcases hq1 : parseAllContactValues b i hv.contacts with ⟨n1, e1, f1⟩
    rcases hq2 : parseAllContactValues b i c2 with ⟨n2, e2, f2⟩
    rw [hq1, hq2] at hrel
    rw [hq1] at hne
    obtain ⟨r1, r2, r3, r4⟩ := hrel
    simp only at r1 r2 r3 r4 hne ⊢
    subst r1; subst r2
    by_cases hok : (e1 == Err.ok) = true
    · have he : e1 = .ok := by simpa using hok
      subst he
      simp only [↓reduceIte, BEq.rfl]
      exact fun _ => (r4 rfl).finC
    · simp only [hok, Bool.false_eq_true, ↓reduceIte]
      intro he
      rcases he with he | he | ⟨_, he⟩
      · subst he; simp at hok
      · exact absurd he hne
      · exact absurd hst he
  all_goals exact fun _ => hF' (by rw [hst]; intro hh; cases hh)

theorem hlStep_fin (b : Buf) (i : Nat) (c : UInt8) (h : Hdr) (hb1 hb2 : Option PHdrVals) (hR : HbRel hb1 hb2)
    (hF : h.state ≠ .hContact → FinH hb1 hb2) : StepFin (hlStep b i c (h, hb1)) (hlStep b i c (h, hb2)) := by
  unfold hlStep
  simp only
  cases hst : h.state <;> simp only
  case init =>
    have hF' := hF (by rw [hst]; intro hh; cases hh)
    split
    · split
      · exact StepFin.same_done _ _ _ hF'
      · split <;> exact StepFin.same_done _ _ _ hF'
    · split
      · exact StepFin.same_done _ _ _ hF'
      · exact hlName_fin b i _ hb1 hb2 hR hF'
  case name => exact hlName_fin b i h hb1 hb2 hR (hF (by rw [hst]; intro hh; cases hh))
  case nameEnd =>
    have hF' := hF (by rw [hst]; intro hh; cases hh)
    split
    · exact StepFin.same_done _ _ _ hF'
    · split
      · exact hlAfterColon_fin b _ _ hb1 hb2 hR hF'
      · exact StepFin.same_done _ _ _ hF'
  case bodyStart =>
    have hF' := hF (by rw [hst]; intro hh; cases hh)
    rcases skipLWS b i 0 with ⟨n, crl, e⟩
    cases e <;> first | exact StepFin.same_cont _ _ hF' | exact StepFin.same_done _ _ _ hF'
  case val =>
    have hF' := hF (by rw [hst]; intro hh; cases hh)
    split
    · exact StepFin.same_done _ _ _ hF'
    · exact hlValEnd_fin b _ _ hb1 hb2 hF'
  case valEnd => exact hlValEnd_fin b i h hb1 hb2 (hF (by rw [hst]; intro hh; cases hh))
  case fin => exact StepFin.same_done _ _ _ (hF (by rw [hst]; intro hh; cases hh))
  all_goals exact hlCont_fin b i h hb1 hb2 hR hF

/-- **ParseHdrLine keeps the first / last contact retrievable and equal** in two runs on related values objects -/
theorem parseHdrLine_fin (b : Buf) (o : Nat) (h : Hdr) (hb1 hb2 : Option PHdrVals) (hR : HbRel hb1 hb2)
    (hF : h.state ≠ .hContact → FinH hb1 hb2) :
    FinOut (parseHdrLine b o h hb1).2.1 (parseHdrLine b o h hb1).2.2.1.state
      (parseHdrLine b o h hb1).2.2.2 (parseHdrLine b o h hb2).2.2.2 := by
  unfold parseHdrLine
  have := runLoop_rel2 hlMachine b
    (fun s1 s2 : HLσ => s1.1 = s2.1 ∧ HbRel s1.2 s2.2 ∧ (s1.1.state ≠ .hContact → FinH s1.2 s2.2))
    (fun r1 r2 => FinOut r1.2.1 r1.2.2.1.state r1.2.2.2 r2.2.2.2)
    (by
      intro i c s1 s2 _ hr
      obtain ⟨g1, v1⟩ := s1
      obtain ⟨g2, v2⟩ := s2
      obtain ⟨rfl, hv, hf⟩ := hr
      have hrel := hlStep_rel b i c g1 v1 v2 hv
      have hfin := hlStep_fin b i c g1 v1 v2 hv hf
      simp only [hlMachine]
      revert hrel hfin
      generalize hlStep b i c (g1, v1) = X1
      generalize hlStep b i c (g1, v2) = X2
      intro hrel hfin
      cases X1 <;> cases X2 <;> first | exact hrel.elim | skip
      · exact ⟨hrel.1, hrel.2.1, hrel.2.2, fun _ => hfin⟩
      · exact hfin)
    (by
      intro i s1 s2 hr hc
      rcases hc with hc | hc | ⟨_, hc⟩
      · cases hc
      · cases hc
      · exact hr.2.2 hc)
    (by
      intro i s1 s2 hr hc
      rcases hc with hc | hc | ⟨hc, _⟩ <;> cases hc)
    o (h, hb1) (h, hb2) ⟨rfl, hR, hF⟩
  rcases h1 : runLoop hlMachine b o (h, hb1) with ⟨o1, e1, g1, v1⟩
  rcases h2 : runLoop hlMachine b o (h, hb2) with ⟨o2, e2, g2, v2⟩
  rw [h1, h2] at this
  exact this

/-- **ParseHeaders keeps the first / last contact retrievable and equal** (same hypotheses as `parseHeaders_rel`) -/
theorem parseHeaders_fin (b : Buf) (offs : Nat) (l1 l2 : HdrLst) (hb1 hb2 : Option PHdrVals)
    (hR : HlsRel l1 l2) (hV : HbRel hb1 hb2) (hok1 : hlsOK b l1) (hok2 : hbOK b offs hb1) (hpe : hlsPend l1 hb1)
    (ho : offs ≤ b.size) (hF : l1.cur.state ≠ .hContact → FinH hb1 hb2) :
    ((parseHeaders b offs l1 hb1).2.1 = .ok →
      FinH (parseHeaders b offs l1 hb1).2.2.2 (parseHeaders b offs l2 hb2).2.2.2) ∧
    ((parseHeaders b offs l1 hb1).2.1 = .moreBytes → (parseHeaders b offs l1 hb1).2.2.1.cur.state ≠ .hContact →
      FinH (parseHeaders b offs l1 hb1).2.2.2 (parseHeaders b offs l2 hb2).2.2.2) := by
  induction hk : b.size - offs using Nat.strongRecOn generalizing offs l1 l2 hb1 hb2 with
  | _ k ih =>
    rw [parseHeaders.eq_1 b offs l1 hb1, parseHeaders.eq_1 b offs l2 hb2]
    by_cases hlt : offs < b.size
    · rw [if_pos hlt, if_pos hlt, ← hR.cur]
      have hrel := parseHdrLine_rel b offs l1.cur hb1 hb2 hV
      have hfin := parseHdrLine_fin b offs l1.cur hb1 hb2 hV hF
      have hI : hlOK b offs l1.cur hb1 := ⟨by omega, hlsOK_cur hok1, hok2⟩
      rcases hp1 : parseHdrLine b offs l1.cur hb1 with ⟨n1, e1, g1, v1⟩
      rcases hp2 : parseHdrLine b offs l1.cur hb2 with ⟨n2, e2, g2, v2⟩
      rw [hp1, hp2] at hrel
      rw [hp1, hp2] at hfin
      obtain ⟨r1, r2, r3, r4⟩ := hrel
      simp only at r1 r2 r3 r4 hfin
      subst r1; subst r2; subst r3
      cases e1 <;> simp only
      case ok =>
        have hpost := parseHdrLine_post b offs l1.cur hb1 hI hp1 (Or.inl rfl)
        by_cases hg : offs < n1
        · rw [if_pos hg, if_pos hg]
          exact ih (b.size - n1) (by omega) n1 _ _ v1 v2 (hR.next g1) r4.to_rel (hlsOK_next g1 hok1) hpost.2
            (hlsPend_next g1 v1 hpe) hpost.1 (fun _ => hfin (Or.inl rfl)) rfl
        · rw [if_neg hg, if_neg hg]
          exact ⟨(fun hh => by cases hh), (fun hh => by cases hh)⟩
      case empty =>
        by_cases hpos : l1.n > 0
        · rw [if_pos hpos, if_pos (by rw [← hR.n]; exact hpos)]
          exact ⟨fun _ => hfin (Or.inr (Or.inl rfl)), (fun hh => by cases hh)⟩
        · rw [if_neg hpos, if_neg (by rw [← hR.n]; exact hpos)]
          exact ⟨(fun hh => by cases hh), (fun hh => by cases hh)⟩
      case moreBytes =>
        refine ⟨(fun hh => by cases hh), fun _ hs => hfin (Or.inr (Or.inr ⟨rfl, ?_⟩))⟩
        rw [hlSetCur_cur] at hs; exact hs
      all_goals exact ⟨(fun hh => by cases hh), (fun hh => by cases hh)⟩
    · rw [if_neg hlt, if_neg hlt]
      exact ⟨(fun hh => by cases hh), fun _ hs => hF hs⟩

/-! ### the message -/

theorem msgErr_shape (m : PSIPMsg) (o : Nat) (e : Err) (flags : Nat) :
    (msgErr m o e flags).2.2.pv = m.pv ∧ (msgErr m o e flags).2.2.hl = m.hl ∧
    ((msgErr m o e flags).2.1 = .ok → e = .ok) ∧
    ((msgErr m o e flags).2.1 = .moreBytes → (msgErr m o e flags).2.2.state = m.state) := by
  unfold msgErr
  split
  · rename_i hne
    refine ⟨rfl, rfl, fun h => h, fun h => ?_⟩
    simp only at h
    subst h; simp at hne
  · split
    · exact ⟨rfl, rfl, (fun h => by cases h), (fun h => by cases h)⟩
    · exact ⟨rfl, rfl, (fun h => h), fun _ => rfl⟩

theorem msgBody_shape (b : Buf) (o : Nat) (m : PSIPMsg) (flags : Nat) :
    (msgBody b o m flags).2.2.pv = m.pv ∧ (msgBody b o m flags).2.2.hl = m.hl ∧
    ((msgBody b o m flags).2.1 = .moreBytes → (msgBody b o m flags).2.2.state = m.state) := by
  have h1 := msgBody_done_pv b o m flags
  refine ⟨h1.2, h1.1, fun hm => ?_⟩
  exact (msgBody_more_pv b o m flags (show _ = (_, Err.moreBytes, _) from Prod.ext rfl (Prod.ext hm rfl))).2.2

/-- where the values object and the header list of the result of the header section come from -/
theorem afterHeaders_shape (b : Buf) (m : PSIPMsg) (flags : Nat) (o : Nat) (e : Err) (hl : HdrLst) (v : PHdrVals) :
    (afterHeaders b m flags (o, e, hl, some v)).2.2.pv = v ∧
    (afterHeaders b m flags (o, e, hl, some v)).2.2.hl = hl ∧
    ((afterHeaders b m flags (o, e, hl, some v)).2.1 = .ok → e = .ok) ∧
    ((afterHeaders b m flags (o, e, hl, some v)).2.1 = .moreBytes →
      e = .ok ∨ (e = .moreBytes ∧ (afterHeaders b m flags (o, e, hl, some v)).2.2.state = m.state)) := by
  by_cases hok : e = .ok
  · subst hok
    have hs := msgBody_shape b o { m with hl := hl, pv := v, state := .body } flags
    exact ⟨hs.1, hs.2.1, fun _ => rfl, fun _ => Or.inl rfl⟩
  · have hs := msgErr_shape { m with hl := hl, pv := v } o e flags
    have he : afterHeaders b m flags (o, e, hl, some v) = msgErr { m with hl := hl, pv := v } o e flags := by
      unfold afterHeaders
      cases e <;> first | exact absurd rfl hok | rfl
    rw [he]
    refine ⟨hs.1, hs.2.1, hs.2.2.1, fun hm => Or.inr ⟨?_, hs.2.2.2 hm⟩⟩
    by_cases hmb : e = .moreBytes
    · exact hmb
    · exfalso
      rw [msgErr_stable _ _ _ _ hmb] at hm
      exact hmb hm

/-- the extra conclusion shared by the sections of the message parser: first / last contact equal after OK, and after
    MoreBytes unless the parse is suspended inside a Contact line -/
def MsgFinOut (r1 r2 : Nat × Err × PSIPMsg) : Prop :=
  (r1.2.1 = .ok → FinC r1.2.2.pv.contacts r2.2.2.pv.contacts) ∧
  (r1.2.1 = .moreBytes → (r1.2.2.state = .body ∨ r1.2.2.hl.cur.state ≠ .hContact) →
    FinC r1.2.2.pv.contacts r2.2.2.pv.contacts)

theorem msgHeaders_fin (b : Buf) (o : Nat) (m1 : PSIPMsg) (hl2 : HdrLst) (c2 : PContacts) (flags : Nat)
    (hH : HlsRel m1.hl hl2) (hC : CtW m1.pv.contacts c2)
    (hok1 : hlsOK b m1.hl) (hok2 : hvOK b o m1.pv) (hpe : hlsPend m1.hl (some m1.pv)) (ho : o ≤ b.size)
    (hnb : m1.state ≠ .body) (hF : m1.hl.cur.state ≠ .hContact → FinC m1.pv.contacts c2) :
    MsgFinOut (msgHeaders b o m1 flags) (msgHeaders b o (frame hl2 c2 m1) flags) := by
  rw [msgHeaders_eq, msgHeaders_eq]
  have hV : HbRel (some m1.pv) (some { m1.pv with contacts := c2 }) := ⟨c2, rfl, hC⟩
  have hfin := parseHeaders_fin b o m1.hl hl2 (some m1.pv) (some { m1.pv with contacts := c2 }) hH hV hok1 hok2 hpe ho hF
  have hsA := parseHeaders_isSome b o m1.hl m1.pv
  have hsB := parseHeaders_isSome b o hl2 { m1.pv with contacts := c2 }
  show MsgFinOut (afterHeaders b m1 flags (parseHeaders b o m1.hl (some m1.pv)))
    (afterHeaders b (frame hl2 c2 m1) flags (parseHeaders b o hl2 (some { m1.pv with contacts := c2 })))
  rcases hpA : parseHeaders b o m1.hl (some m1.pv) with ⟨oA, eA, hlA, hbA⟩
  rcases hpB : parseHeaders b o hl2 (some { m1.pv with contacts := c2 }) with ⟨oB, eB, hlB, hbB⟩
  rw [hpA] at hsA hfin
  rw [hpB] at hsB hfin
  cases hbA with
  | none => cases hsA
  | some vA =>
  cases hbB with
  | none => cases hsB
  | some vB =>
  simp only at hfin
  have sX := afterHeaders_shape b m1 flags oA eA hlA vA
  have sY := afterHeaders_shape b (frame hl2 c2 m1) flags oB eB hlB vB
  refine ⟨fun hx => ?_, fun hx hs => ?_⟩
  · rw [sX.1, sY.1]
    exact hfin.1 (sX.2.2.1 hx)
  · rw [sX.1, sY.1]
    rcases sX.2.2.2 hx with he | ⟨he, hst⟩
    · exact hfin.1 he
    · refine hfin.2 he ?_
      rcases hs with hs | hs
      · rw [hst] at hs; exact absurd hs hnb
      · rw [sX.2.1] at hs; exact hs

theorem msgErr_fin (m1 : PSIPMsg) (hl2 : HdrLst) (c2 : PContacts) (fl1 : PFLine) (o1 : Nat) (e1 : Err) (flags : Nat)
    (hok : e1 ≠ .ok) (hnb : m1.state ≠ .body) (hF : m1.hl.cur.state ≠ .hContact → FinC m1.pv.contacts c2) :
    MsgFinOut (msgErr { m1 with fl := fl1 } o1 e1 flags) (msgErr { frame hl2 c2 m1 with fl := fl1 } o1 e1 flags) := by
  have sX := msgErr_shape { m1 with fl := fl1 } o1 e1 flags
  have sY := msgErr_shape { frame hl2 c2 m1 with fl := fl1 } o1 e1 flags
  refine ⟨fun hx => absurd (sX.2.2.1 hx) hok, fun hx hs => ?_⟩
  rw [sX.1, sY.1]
  rcases hs with hs | hs
  · rw [sX.2.2.2 hx] at hs; exact absurd hs hnb
  · rw [sX.2.1] at hs; exact hF hs

theorem msgFLine_fin (b : Buf) (o : Nat) (m1 : PSIPMsg) (hl2 : HdrLst) (c2 : PContacts) (flags : Nat)
    (hH : HlsRel m1.hl hl2) (hC : CtW m1.pv.contacts c2)
    (hok1 : hlsOK b m1.hl) (hok2 : hvOK b o m1.pv) (hpe : hlsPend m1.hl (some m1.pv)) (ho : o ≤ b.size)
    (hnb : m1.state ≠ .body) (hF : m1.hl.cur.state ≠ .hContact → FinC m1.pv.contacts c2) :
    MsgFinOut (msgFLine b o m1 flags) (msgFLine b o (frame hl2 c2 m1) flags) := by
  unfold msgFLine
  show MsgFinOut _ (match parseFLine b o m1.fl with
    | (o', .ok, fl) => msgHeaders b o' { frame hl2 c2 m1 with fl := fl, state := .headers } flags
    | (o', e, fl) => msgErr { frame hl2 c2 m1 with fl := fl } o' e flags)
  have hrg := parseFLine_range b o m1.fl ho
  rcases hp : parseFLine b o m1.fl with ⟨o1, e1, fl1⟩
  rw [hp] at hrg
  by_cases hok : e1 = .ok
  · subst hok
    simp only
    have hrg' := hrg rfl
    exact msgHeaders_fin b o1 { m1 with fl := fl1, state := .headers } hl2 c2 flags hH hC hok1
      (hvOK_mono hok2 hrg'.1 hrg'.2) hpe hrg'.2 (by intro hh; cases hh) hF
  · cases e1 <;> first | exact absurd rfl hok | skip
    all_goals
      simp only
      exact msgErr_fin m1 hl2 c2 fl1 o1 _ flags (by decide) hnb hF

/-- **ParseSIPMsg keeps the first / last contact retrievable and equal**: the extra conclusion next to
    `parseSIPMsg_rel` -/
theorem parseSIPMsg_fin (b : Buf) (o : Nat) (m1 m2 : PSIPMsg) (flags : Nat) (hR : MsgRel m1 m2)
    (hok : msgOK2 b o m1)
    (hF : (m1.state = .body ∨ m1.hl.cur.state ≠ .hContact) → FinC m1.pv.contacts m2.pv.contacts) :
    MsgFinOut (parseSIPMsg b o m1 flags) (parseSIPMsg b o m2 flags) := by
  obtain ⟨hl2, c2, rfl, hH, hC⟩ := hR
  obtain ⟨ho, _, hrest⟩ := hok
  have hm2 : ({ m1 with hl := hl2, pv := { m1.pv with contacts := c2 } } : PSIPMsg) = frame hl2 c2 m1 := rfl
  rw [hm2] at hF ⊢
  have hF' : (m1.state = .body ∨ m1.hl.cur.state ≠ .hContact) → FinC m1.pv.contacts c2 := hF
  cases hst : m1.state
  case init =>
    obtain ⟨h1, h2, h3⟩ := hrest (by rw [hst]; decide)
    have hH' : HlsRel m1.hl hl2 := by
      rcases hH with hH | hH
      · exact hH
      · rw [hst] at hH; cases hH.1
    have e1 : parseSIPMsg b o m1 flags = msgFLine b o { m1 with offs := o, state := .fline } flags := by
      unfold parseSIPMsg; rw [hst]
    have e2 : parseSIPMsg b o (frame hl2 c2 m1) flags =
        msgFLine b o (frame hl2 c2 { m1 with offs := o, state := .fline }) flags := by
      unfold parseSIPMsg; rw [show (frame hl2 c2 m1).state = m1.state from rfl, hst]; rfl
    rw [e1, e2]
    exact msgFLine_fin b o _ hl2 c2 flags hH' hC h1 h2 h3 ho (by intro hh; cases hh) (fun hs => hF' (Or.inr hs))
  case fline =>
    obtain ⟨h1, h2, h3⟩ := hrest (by rw [hst]; decide)
    have hH' : HlsRel m1.hl hl2 := by
      rcases hH with hH | hH
      · exact hH
      · rw [hst] at hH; cases hH.1
    rw [parseSIPMsg_fline _ _ _ _ hst, parseSIPMsg_fline _ _ _ _ (show (frame hl2 c2 m1).state = .fline from hst)]
    exact msgFLine_fin b o m1 hl2 c2 flags hH' hC h1 h2 h3 ho (by rw [hst]; intro hh; cases hh)
      (fun hs => hF' (Or.inr hs))
  case headers =>
    obtain ⟨h1, h2, h3⟩ := hrest (by rw [hst]; decide)
    have hH' : HlsRel m1.hl hl2 := by
      rcases hH with hH | hH
      · exact hH
      · rw [hst] at hH; cases hH.1
    rw [parseSIPMsg_headers _ _ _ _ hst, parseSIPMsg_headers _ _ _ _ (show (frame hl2 c2 m1).state = .headers from hst)]
    exact msgHeaders_fin b o m1 hl2 c2 flags hH' hC h1 h2 h3 ho (by rw [hst]; intro hh; cases hh)
      (fun hs => hF' (Or.inr hs))
  case body =>
    rw [parseSIPMsg_body _ _ _ _ hst, parseSIPMsg_body _ _ _ _ (show (frame hl2 c2 m1).state = .body from hst)]
    have sX := msgBody_shape b o m1 flags
    have sY := msgBody_shape b o (frame hl2 c2 m1) flags
    have hfc := hF' (Or.inl hst)
    refine ⟨fun _ => ?_, fun _ _ => ?_⟩
    · rw [sX.1, sY.1]; exact hfc
    · rw [sX.1, sY.1]; exact hfc
  all_goals
    (have e1 : parseSIPMsg b o m1 flags = msgErr m1 o .bug flags := by unfold parseSIPMsg; rw [hst]
     rw [e1, msgErr_stable _ _ _ _ (by decide)]
     exact ⟨(fun hh => by cases hh), (fun hh => by cases hh)⟩)

/-! ### the strengthened message-level relations -/

/-- `MsgRel` plus: unless the parse is suspended inside a Contact header line, the first and the last contact read
    with `GetContact` are the same in both objects -/
def MsgRelX (m1 m2 : PSIPMsg) : Prop :=
  MsgRel m1 m2 ∧ ((m1.state = .body ∨ m1.hl.cur.state ≠ .hContact) → FinC m1.pv.contacts m2.pv.contacts)

/-- `MsgDone` plus first / last contact -/
def MsgDoneX (m1 m2 : PSIPMsg) : Prop := MsgDone m1 m2 ∧ FinC m1.pv.contacts m2.pv.contacts

def MsgOutX (r1 r2 : Nat × Err × PSIPMsg) : Prop :=
  r1.1 = r2.1 ∧ r1.2.1 = r2.2.1 ∧ (r1.2.1 = .moreBytes → MsgRelX r1.2.2 r2.2.2) ∧ (r1.2.1 = .ok → MsgDoneX r1.2.2 r2.2.2)

theorem MsgOutX.toOut {r1 r2 : Nat × Err × PSIPMsg} (h : MsgOutX r1 r2) : MsgOut r1 r2 :=
  ⟨h.1, h.2.1, fun hm => (h.2.2.1 hm).1, fun hk => (h.2.2.2 hk).1⟩

/-- **one call of ParseSIPMsg**, any two capacity choices: same offset, same verdict, related objects, and after OK
    the first / last contact are equal as well -/
theorem parseSIPMsg_relX (b : Buf) (o : Nat) (m1 m2 : PSIPMsg) (flags : Nat) (hR : MsgRelX m1 m2)
    (hok : msgOK2 b o m1) : MsgOutX (parseSIPMsg b o m1 flags) (parseSIPMsg b o m2 flags) := by
  have h1 := parseSIPMsg_rel b o m1 m2 flags hR.1 hok
  have h2 := parseSIPMsg_fin b o m1 m2 flags hR.1 hok hR.2
  exact ⟨h1.1, h1.2.1, fun hm => ⟨h1.2.2.1 hm, h2.2 hm⟩, fun hk => ⟨h1.2.2.2 hk, h2.1 hk⟩⟩

/-- two Init calls with different capacities give objects related in the strengthened sense (no contact yet) -/
theorem MsgRelX_init (m0 m0' : PSIPMsg) (len : Nat) (kh1 kc1 kh2 kc2 : Nat) (hd1 ct1 hd2 ct2 : Option Unit) :
    MsgRelX (m0.init len (hd1.map fun _ => Array.replicate kh1 {}) (ct1.map fun _ => Array.replicate kc1 {}))
      (m0'.init len (hd2.map fun _ => Array.replicate kh2 {}) (ct2.map fun _ => Array.replicate kc2 {})) := by
  refine ⟨MsgRel_init m0 m0' len kh1 kc1 kh2 kc2 hd1 ct1 hd2 ct2, fun _ hn => ?_⟩
  exact absurd hn (Nat.lt_irrefl 0)

/-- **every chunk schedule**: as `capacity_schedule`, with the first / last contact in the conclusion -/
theorem capacity_scheduleX (flags : Nat) (o : Nat) (m1 m2 : PSIPMsg) (l : List Buf) (hg : Growing l)
    (hfit : ∀ x ∈ l, x.size ≤ 65535) (hR : MsgRelX m1 m2) (h0 : ∀ b ∈ l.head?, msgOK2 b o m1) (hne : l ≠ []) :
    MsgOutX (resumeRun (fun b o m => parseSIPMsg b o m flags) o m1 l)
      (resumeRun (fun b o m => parseSIPMsg b o m flags) o m2 l) := by
  induction l generalizing o m1 m2 with
  | nil => exact absurd rfl hne
  | cons b rest ih =>
    have hI : msgOK2 b o m1 := h0 b (by simp)
    have hrel := parseSIPMsg_relX b o m1 m2 flags hR hI
    cases rest with
    | nil => exact hrel
    | cons b' rest' =>
      simp only [resumeRun]
      rcases hp1 : parseSIPMsg b o m1 flags with ⟨o1, e1, s1⟩
      rcases hp2 : parseSIPMsg b o m2 flags with ⟨o2, e2, s2⟩
      rw [hp1, hp2] at hrel
      obtain ⟨r1, r2, r3, r4⟩ := hrel
      simp only at r1 r2 r3 r4
      subst r1; subst r2
      by_cases hm : e1 = .moreBytes
      · subst hm
        simp only
        obtain ⟨s', hs'⟩ := growing_ext hg b' List.mem_cons_self
        have hres := parseSIPMsg_resume b s' o m1 flags flags hI (hfit b List.mem_cons_self) hp1
        exact ih o1 s1 s2 (growing_tail hg) (fun x hx => hfit x (List.mem_cons_of_mem _ hx)) (r3 rfl)
          (by intro x hx; simp at hx; subst hx; rw [hs']; exact hres.2.1) (by simp)
      · cases e1 <;> first | exact absurd rfl hm | exact ⟨rfl, rfl, r3, r4⟩

/-- from Init with any two capacity choices (or none), any chunk schedule -/
theorem capacity_from_initX (flags : Nat) (o : Nat) (m0 m0' : PSIPMsg) (len kh1 kc1 kh2 kc2 : Nat)
    (hd1 ct1 hd2 ct2 : Option Unit) (l : List Buf) (hg : Growing l) (hfit : ∀ x ∈ l, x.size ≤ 65535)
    (ho : ∀ b ∈ l.head?, o ≤ b.size) (hne : l ≠ []) :
    MsgOutX
      (resumeRun (fun b o m => parseSIPMsg b o m flags) o
        (m0.init len (hd1.map fun _ => Array.replicate kh1 {}) (ct1.map fun _ => Array.replicate kc1 {})) l)
      (resumeRun (fun b o m => parseSIPMsg b o m flags) o
        (m0'.init len (hd2.map fun _ => Array.replicate kh2 {}) (ct2.map fun _ => Array.replicate kc2 {})) l) :=
  capacity_scheduleX flags o _ _ l hg hfit (MsgRelX_init m0 m0' len kh1 kc1 kh2 kc2 hd1 ct1 hd2 ct2)
    (fun b hb => msgOK2_init b o (ho b hb) m0 len kh1 kc1 hd1 ct1) hne

/-! ### (1) FINAL: first / last contact at message level -/

theorem MsgDone.contacts_n {m1 m2 : PSIPMsg} (h : MsgDone m1 m2) : m1.pv.contacts.n = m2.pv.contacts.n :=
  h.observables.2.2.2.2.2.2.2.2.2.2.2.2.2.2.2.2.2.1

theorem MsgDone.contacts_agree {m1 m2 : PSIPMsg} (h : MsgDone m1 m2) :
    ∀ k, k < m1.pv.contacts.n → k < m1.pv.contacts.vals.size → k < m2.pv.contacts.vals.size →
      m1.pv.contacts.vals[k]! = m2.pv.contacts.vals[k]! :=
  h.observables.2.2.2.2.2.2.2.2.2.2.2.2.2.2.2.2.2.2.2.2.2

/-- **FINAL (1)**: after a successful parse, if any contact value was seen, `GetContact(0)` and `GetContact(N-1)` are
    non-nil in both objects (whatever their capacities, zero included) and give the same values -/
theorem MsgDoneX.first_last {m1 m2 : PSIPMsg} (h : MsgDoneX m1 m2) (hn : m1.pv.contacts.n > 0) :
    m1.pv.contacts.n = m2.pv.contacts.n ∧
    ∃ f l, m1.pv.contacts.getContact 0 = some f ∧ m2.pv.contacts.getContact 0 = some f ∧
      m1.pv.contacts.getContact (m1.pv.contacts.n - 1) = some l ∧
      m2.pv.contacts.getContact (m2.pv.contacts.n - 1) = some l := by
  obtain ⟨e0, e1⟩ := h.2 hn
  have i0 := getContact_first_isSome m1.pv.contacts hn
  have i1 := getContact_last_isSome m1.pv.contacts hn
  obtain ⟨f, hf⟩ := Option.isSome_iff_exists.mp i0
  obtain ⟨l, hl⟩ := Option.isSome_iff_exists.mp i1
  exact ⟨h.1.contacts_n, f, l, hf, by rw [← e0]; exact hf, hl, by rw [← e1]; exact hl⟩

/-- the same, read off the result of a run (single call or chunk schedule) -/
theorem MsgOutX.first_last {r1 r2 : Nat × Err × PSIPMsg} (h : MsgOutX r1 r2) (hok : r1.2.1 = .ok)
    (hn : r1.2.2.pv.contacts.n > 0) :
    r1.2.2.pv.contacts.n = r2.2.2.pv.contacts.n ∧
    ∃ f l, r1.2.2.pv.contacts.getContact 0 = some f ∧ r2.2.2.pv.contacts.getContact 0 = some f ∧
      r1.2.2.pv.contacts.getContact (r1.2.2.pv.contacts.n - 1) = some l ∧
      r2.2.2.pv.contacts.getContact (r2.2.2.pv.contacts.n - 1) = some l :=
  (h.2.2.2 hok).first_last hn

/-! ### (2) FINAL: "more" indicators and stored prefix at message level -/

/-- **FINAL (2a)**: contacts. Both objects saw the same number `n` of values; each stores `min n capacity` of them
    (`VNo`), `More()` is true exactly when `n` exceeds the capacity, i.e. exactly when values were dropped; every index
    stored in both objects holds the same (non-nil) value -/
theorem MsgDone.contacts_more {m1 m2 : PSIPMsg} (h : MsgDone m1 m2) :
    m1.pv.contacts.n = m2.pv.contacts.n ∧
    m1.pv.contacts.vNo = min m1.pv.contacts.n m1.pv.contacts.vals.size ∧
    m2.pv.contacts.vNo = min m1.pv.contacts.n m2.pv.contacts.vals.size ∧
    (m1.pv.contacts.more = true ↔ m1.pv.contacts.n > m1.pv.contacts.vals.size) ∧
    (m2.pv.contacts.more = true ↔ m1.pv.contacts.n > m2.pv.contacts.vals.size) ∧
    (m1.pv.contacts.more = true ↔ m1.pv.contacts.vNo < m1.pv.contacts.n) ∧
    (m2.pv.contacts.more = true ↔ m2.pv.contacts.vNo < m1.pv.contacts.n) := by
  have hn := h.contacts_n
  refine ⟨hn, vNo_eq_min _, by rw [hn]; exact vNo_eq_min _, more_iff _, by rw [hn]; exact more_iff _,
    more_iff_dropped _, by rw [hn]; exact more_iff_dropped _⟩

theorem MsgDone.contacts_prefix {m1 m2 : PSIPMsg} (h : MsgDone m1 m2) (k : Nat)
    (h1 : k < m1.pv.contacts.vNo) (h2 : k < m2.pv.contacts.vNo) :
    m1.pv.contacts.getContact k = m2.pv.contacts.getContact k ∧ (m1.pv.contacts.getContact k).isSome = true := by
  rw [getContact_stored _ k h1, getContact_stored _ k h2]
  have a1 := h1; have a2 := h2
  rw [vNo_eq_min] at a1 a2
  rw [h.contacts_agree k (by omega) (by omega) (by omega)]
  exact ⟨rfl, rfl⟩

/-- **FINAL (2b)**: what the smaller array holds is a prefix of what the larger array holds, and the larger one
    reports "more" only if the smaller one does -/
theorem MsgDone.contacts_mono {m1 m2 : PSIPMsg} (h : MsgDone m1 m2)
    (hle : m1.pv.contacts.vals.size ≤ m2.pv.contacts.vals.size) :
    m1.pv.contacts.vNo ≤ m2.pv.contacts.vNo ∧
    (m2.pv.contacts.more = true → m1.pv.contacts.more = true) ∧
    (∀ k, k < m1.pv.contacts.vNo → m1.pv.contacts.getContact k = m2.pv.contacts.getContact k) := by
  have hn := h.contacts_n
  have hv : m1.pv.contacts.vNo ≤ m2.pv.contacts.vNo := by rw [vNo_eq_min, vNo_eq_min]; omega
  refine ⟨hv, fun hm => ?_, fun k hk => (h.contacts_prefix k hk (by omega)).1⟩
  rw [more_iff] at hm ⊢; omega

/-- nothing dropped: every value is retrievable by index in an object whose "more" indicator is off -/
theorem contacts_all_stored (c : PContacts) (hm : c.more = false) (k : Nat) (hk : k < c.n) :
    c.getContact k = some c.vals[k]! :=
  getContact_stored c k (by rw [(not_more_iff c).mp hm]; exact hk)

theorem MsgDone.hdrs_n {m1 m2 : PSIPMsg} (h : MsgDone m1 m2) : m1.hl.n = m2.hl.n := h.observables.2.2.2.2.2.2.1

/-- **FINAL (2c)**: header list. Same total count `n` in both objects; an index below `min n capacity` of both arrays
    holds the same header (so the smaller array holds a prefix of the larger one); headers were dropped exactly
    when `n` exceeds the capacity (the library has no separate indicator: the caller compares `N` with `len(Hdrs)`) -/
theorem MsgDone.hdrs_prefix {m1 m2 : PSIPMsg} (h : MsgDone m1 m2) (k : Nat)
    (h1 : k < min m1.hl.n m1.hl.hdrs.size) (h2 : k < min m2.hl.n m2.hl.hdrs.size) :
    m1.hl.hdrs[k]? = m2.hl.hdrs[k]? ∧ (m1.hl.hdrs[k]?).isSome = true := by
  have hn := h.hdrs_n
  have s1 : k < m1.hl.hdrs.size := by omega
  have s2 : k < m2.hl.hdrs.size := by omega
  have := h.observables.2.2.2.2.2.2.2.2.2.1 k (by omega) s1 s2
  simp only [Array.getElem!_eq_getD, Array.getD_eq_getD_getElem?, Array.getElem?_eq_getElem s1,
    Array.getElem?_eq_getElem s2, Option.getD_some] at this
  rw [Array.getElem?_eq_getElem s1, Array.getElem?_eq_getElem s2, this]
  exact ⟨rfl, rfl⟩

theorem MsgDone.hdrs_mono {m1 m2 : PSIPMsg} (h : MsgDone m1 m2) (hle : m1.hl.hdrs.size ≤ m2.hl.hdrs.size) :
    min m1.hl.n m1.hl.hdrs.size ≤ min m2.hl.n m2.hl.hdrs.size ∧
    (m2.hl.n > m2.hl.hdrs.size → m1.hl.n > m1.hl.hdrs.size) ∧
    (∀ k, k < min m1.hl.n m1.hl.hdrs.size → m1.hl.hdrs[k]? = m2.hl.hdrs[k]?) := by
  have hn := h.hdrs_n
  exact ⟨by omega, fun _ => by omega, fun k hk => (h.hdrs_prefix k hk (by omega)).1⟩

/-! ### (3) the identity list -/

theorem pa_vNo_eq_min (c : PPAIs) : c.vNo = min c.n c.vals.size := by
  unfold PPAIs.vNo; split <;> omega

theorem pa_more_iff (c : PPAIs) : c.more = true ↔ c.n > c.vals.size := by
  unfold PPAIs.more; simp

theorem pa_more_iff_dropped (c : PPAIs) : c.more = true ↔ c.vNo < c.n := by
  rw [pa_more_iff, pa_vNo_eq_min]; omega

theorem getPAI_stored (c : PPAIs) (k : Nat) (hk : k < c.vNo) : c.getPAI k = some c.vals[k]! := by
  have hs : k < c.vals.size := by rw [pa_vNo_eq_min] at hk; omega
  unfold PPAIs.getPAI
  rw [if_pos hk]
  simp [hs]

/-- unlike `GetContact`, `GetPAI` has no scratch slot: a dropped identity is not retrievable -/
theorem getPAI_dropped (c : PPAIs) (k : Nat) (hk : c.vNo ≤ k) : c.getPAI k = none := by
  unfold PPAIs.getPAI
  rw [if_neg (by omega)]

/-- **FINAL (3a)**: ParseAllPAIValues with any two capacities (stand-alone; the library fixes the capacity to 2): after
    OK the same count `n` in both, `More()` ⇔ `n > capacity` ⇔ identities were dropped, and every index stored in both
    holds the same non-nil value -/
theorem PaDone.more_prefix {c1 c2 : PPAIs} (h : PaDone c1 c2) :
    c1.n = c2.n ∧ c1.vNo = min c1.n c1.vals.size ∧ c2.vNo = min c1.n c2.vals.size ∧
    (c1.more = true ↔ c1.n > c1.vals.size) ∧ (c2.more = true ↔ c1.n > c2.vals.size) ∧
    (c1.more = true ↔ c1.vNo < c1.n) ∧ (c2.more = true ↔ c2.vNo < c1.n) ∧
    (∀ k, k < c1.vNo → k < c2.vNo → c1.getPAI k = c2.getPAI k ∧ (c1.getPAI k).isSome = true) := by
  have hn := h.n
  refine ⟨hn, pa_vNo_eq_min _, by rw [hn]; exact pa_vNo_eq_min _, pa_more_iff _, by rw [hn]; exact pa_more_iff _,
    pa_more_iff_dropped _, by rw [hn]; exact pa_more_iff_dropped _, fun k h1 h2 => ?_⟩
  rw [getPAI_stored _ k h1, getPAI_stored _ k h2]
  rw [pa_vNo_eq_min] at h1 h2
  rw [h.agree k (by omega) (by omega) (by omega)]
  exact ⟨rfl, rfl⟩

/-- **FINAL (3b)**: the smaller identity array holds a prefix of the larger one -/
theorem PaDone.mono {c1 c2 : PPAIs} (h : PaDone c1 c2) (hle : c1.vals.size ≤ c2.vals.size) :
    c1.vNo ≤ c2.vNo ∧ (c2.more = true → c1.more = true) ∧ (∀ k, k < c1.vNo → c1.getPAI k = c2.getPAI k) := by
  have hn := h.n
  have hv : c1.vNo ≤ c2.vNo := by rw [pa_vNo_eq_min, pa_vNo_eq_min]; omega
  refine ⟨hv, fun hm => ?_, fun k hk => (h.more_prefix.2.2.2.2.2.2.2 k hk (by omega)).1⟩
  rw [pa_more_iff] at hm ⊢; omega

/-- first identity: retrievable and equal as soon as both capacities are positive; last identity: only when it was
    not dropped -/
theorem PaDone.first_last {c1 c2 : PPAIs} (h : PaDone c1 c2) (hn : c1.n > 0) :
    (0 < c1.vals.size → 0 < c2.vals.size → c1.getPAI 0 = c2.getPAI 0 ∧ (c1.getPAI 0).isSome = true) ∧
    (c1.more = false → c2.more = false →
      c1.getPAI (c1.n - 1) = c2.getPAI (c2.n - 1) ∧ (c1.getPAI (c1.n - 1)).isSome = true) := by
  have hp := h.more_prefix
  refine ⟨fun s1 s2 => hp.2.2.2.2.2.2.2 0 (by rw [pa_vNo_eq_min]; omega) (by rw [pa_vNo_eq_min, ← h.n]; omega),
    fun m1 m2 => ?_⟩
  have a1 : ¬ c1.n > c1.vals.size := by rw [← pa_more_iff, m1]; exact Bool.false_ne_true
  have a2 : ¬ c2.n > c2.vals.size := by rw [← pa_more_iff, m2]; exact Bool.false_ne_true
  rw [← h.n]
  exact hp.2.2.2.2.2.2.2 (c1.n - 1) (by rw [pa_vNo_eq_min]; omega) (by rw [pa_vNo_eq_min, ← h.n]; omega)

/-- new identity objects of any two capacities are related -/
theorem PaW_new (k1 k2 : Nat) :
    PaW ({ vals := Array.replicate k1 {} } : PPAIs) ({ vals := Array.replicate k2 {} } : PPAIs) := by
  have hw : ∀ k, (({ vals := Array.replicate k {} } : PPAIs)).wrap = { vals := Array.replicate k {} } := by
    intro k; unfold PPAIs.wrap; simp [PFromBody.parsed]
  unfold PaW
  rw [hw k1, hw k2]
  have hcur : ∀ k, (({ vals := Array.replicate k {} } : PPAIs)).cur = {} := by
    intro k; unfold PPAIs.cur; split
    · rename_i h; simp at h; simp [h]
    · rfl
  have hclean : ∀ k, PaClean ({ vals := Array.replicate k {} } : PPAIs) := by
    intro k
    refine ⟨fun j _ hj => ?_, fun _ => rfl⟩
    simp at hj; simp [hj]
  exact ⟨rfl, rfl, rfl, rfl, by rw [hcur k1, hcur k2], (fun k hk => by cases hk), hclean k1, hclean k2⟩

/-- **FINAL (3c)**: ParseAllPAIValues on two identity objects of ANY two capacities that went through the same
    history: same offset, same verdict, and after OK the facts of `PaDone.more_prefix` -/
theorem capacity_pais (b : Buf) (o : Nat) (c1 c2 : PPAIs) (h : PaW c1 c2) :
    (parseAllPAIValues b o c1).1 = (parseAllPAIValues b o c2).1 ∧
    (parseAllPAIValues b o c1).2.1 = (parseAllPAIValues b o c2).2.1 ∧
    ((parseAllPAIValues b o c1).2.1 = .ok → PaDone (parseAllPAIValues b o c1).2.2 (parseAllPAIValues b o c2).2.2) :=
  let r := parseAllPAIValues_rel b o c1 c2 h; ⟨r.1, r.2.1, r.2.2.2⟩

/-- **FINAL (3d)**: at message level the identity list has the library's fixed capacity in both runs and is simply
    identical; its indicators mean what they say -/
theorem MsgDone.pais {m1 m2 : PSIPMsg} (h : MsgDone m1 m2) :
    m1.pv.pais = m2.pv.pais ∧
    (m1.pv.pais.more = true ↔ m1.pv.pais.n > m1.pv.pais.vals.size) ∧
    (m1.pv.pais.more = true ↔ m1.pv.pais.vNo < m1.pv.pais.n) ∧
    (∀ k, k < m1.pv.pais.vNo → (m1.pv.pais.getPAI k).isSome = true ∧ m1.pv.pais.getPAI k = m2.pv.pais.getPAI k) := by
  have he : m1.pv.pais = m2.pv.pais := h.observables.2.2.2.2.2.2.2.2.2.2.2.2.2.2.2.2.1
  refine ⟨he, pa_more_iff _, pa_more_iff_dropped _, fun k hk => ⟨?_, by rw [he]⟩⟩
  rw [getPAI_stored _ k hk]; rfl

/-! ### tests / non-vacuity (closed computations, `decide +kernel`)
  a REGISTER with three contact values on two Contact lines and three identities, fed in two chunks (the first one ends
  inside the first contact value), into objects with capacities (headers 0, contacts 0) and (headers 7, contacts 5) -/

def exMsg : Buf := "REGISTER sip:x SIP/2.0\r\nContact: <sip:a@b>;expires=5, <sip:c@d>\r\nContact: <sip:e@f>\r\nP-Asserted-Identity: <sip:p@q>, <sip:r@s>, <sip:t@u>\r\nCSeq: 1 REGISTER\r\n\r\n".toUTF8.data

def exRun (kh kc : Nat) : Nat × Err × PSIPMsg :=
  resumeRun (fun b o m => parseSIPMsg b o m 0) 0
    (({} : PSIPMsg).init 0 ((some ()).map fun _ => Array.replicate kh {}) ((some ()).map fun _ => Array.replicate kc {}))
    [exMsg.extract 0 40, exMsg]

theorem exMsg_fits : (exMsg.extract 0 40).size ≤ 65535 ∧ exMsg.size ≤ 65535 := by decide +kernel

/-- non-vacuity: the hypotheses of `capacity_from_initX` are met by this schedule -/
theorem exRun_related : MsgOutX (exRun 0 0) (exRun 7 5) :=
  capacity_from_initX 0 0 {} {} 0 0 0 7 5 (some ()) (some ()) (some ()) (some ()) [exMsg.extract 0 40, exMsg]
    ⟨⟨exMsg.extract 40 exMsg.size, by decide +kernel⟩, trivial⟩
    (by
      intro x hx
      simp only [List.mem_cons, List.not_mem_nil, or_false] at hx
      rcases hx with hx | hx
      · rw [hx]; exact exMsg_fits.1
      · rw [hx]; exact exMsg_fits.2)
    (by intro b hb; exact Nat.zero_le _) (by simp)

-- test: the first call really is suspended inside the Contact line
example : (parseSIPMsg (exMsg.extract 0 40) 0 (({} : PSIPMsg).init 0 (some #[]) (some #[])) 0).2.1 = Err.moreBytes := by
  decide +kernel

/-- test, capacities zero: the chain ends with OK, three contacts counted, the first and the last contact are there,
    the middle one is not, "more" is on -/
theorem exRun_0_0 :
    (exRun 0 0).2.1 = Err.ok ∧ (exRun 0 0).2.2.pv.contacts.n = 3 ∧
    ((exRun 0 0).2.2.pv.contacts.getContact 0).map (·.v) = some { offs := 33, len := 19 } ∧
    ((exRun 0 0).2.2.pv.contacts.getContact 2).map (·.v) = some { offs := 74, len := 9 } ∧
    ((exRun 0 0).2.2.pv.contacts.getContact 1).isSome = false ∧
    (exRun 0 0).2.2.pv.contacts.more = true := by decide +kernel

/-- test, capacities 7 / 5: nothing dropped among the contacts; three identities into the fixed array of two -/
theorem exRun_7_5 :
    (exRun 7 5).2.2.pv.contacts.more = false ∧
    ((exRun 7 5).2.2.pv.contacts.getContact 2).map (·.v) = some { offs := 74, len := 9 } ∧
    (exRun 7 5).2.2.pv.pais.n = 3 ∧ (exRun 7 5).2.2.pv.pais.more = true ∧ (exRun 7 5).2.2.pv.pais.vNo = 2 := by
  decide +kernel

/-- the general theorem applied to the example: first and last contact of the capacity-0 run and of the
    capacity-5 run exist and coincide -/
example : ∃ f l, (exRun 0 0).2.2.pv.contacts.getContact 0 = some f ∧ (exRun 7 5).2.2.pv.contacts.getContact 0 = some f ∧
    (exRun 0 0).2.2.pv.contacts.getContact 2 = some l ∧ (exRun 7 5).2.2.pv.contacts.getContact 2 = some l := by
  have h1 : (exRun 0 0).2.2.pv.contacts.n = 3 := exRun_0_0.2.1
  have h := exRun_related.first_last exRun_0_0.1 (by rw [h1]; exact Nat.succ_pos 2)
  rw [← h.1, h1] at h
  exact h.2

end Sipsp
