/-
  Sipsp.Proofs.AuditFixB — gaps found by the sceptical audit of C10 (A), C12 (B), C02 (C).  Lemma file; the theorems
  are meant to be re-exported in Properties/C10.lean, C12.lean, C02.lean.  All statements are about the model.

  (A) C10 — the RANGE half at run level (the existing `uint_value_exact` / `cseq_value_exact` only say "the number is
      the value of the reported digit string"; `uiVal` / `cseqNo` are unbounded `Nat` in the model).
      * `afb_parseUIntVal_u32`, `afb_parseCLenVal_u32`: any buffer, offset, ANY verdict — the number of the returned
        object is ≤ 2^32-1 whenever that of the object passed in is (new object: 0); `afb_uint_ok_le` (the OK form).
      * `afb_parseCSeqVal_range`, `afb_cseq_ok_le`: the same for `cseqNo`, and after OK `cseq.len ≤ 10`
        (`afb_csFinish_ok`, `afb_csFinish_long`: the end-of-header code accepts iff ≤ 10 bytes and ≤ 2^32-1).
      * ParseCLenVal: `C10.clen_range` already IS the run-level statement (no hypothesis on the object);
        `afb_clen_exact_in_range` packages it with exactness.
      * invariants after MoreBytes: `afb_uint_more_inv`, `afb_clen_more_inv`, `afb_cseq_more_inv` — `ClNum` / `CsNum`
        hold of the returned object at the returned offset on every extension of the buffer, the offset is inside
        the buffer, the object is not finished.  Packaged: `AfbClLegit` / `AfbCsLegit` (new: `afb_ClLegit_new`,
        `afb_CsLegit_new`; re-established: `afb_uint_more_legit`, `afb_clen_more_legit`, `afb_cseq_more_legit`) and
        `afb_uint_exact_in_range`, `afb_clen_exact_in_range`, `afb_cseq_exact_in_range` (exact AND in range);
        every chunk schedule from a new object: `afb_uint_schedule`, `afb_clen_schedule`, `afb_cseq_schedule`.
      * the converse (rejection): `afb_uint_big_rejected(_ws)`, `afb_clen_big_rejected_ws`, `afb_cseq_big_rejected(_ws)` —
        new object, optional spaces / tabs, a digit string of value > 2^32-1 ⇒ NumTooBig at one of its digits,
        WHATEVER follows (no terminator needed); `afb_uint_big_resumed`, `afb_cseq_big_resumed`: the same for a call
        resumed in the middle of the number.  `afb_uint_canonical`, `afb_clen_canonical`: complete behaviour on
        "[spaces] digits CR LF non-continuation": OK with exactly the value and the field iff in range (2^32-1 resp.
        2^24 and 9 digits), NumTooBig otherwise.
      * the reply status at run level is C08 `status_value` (not repeated here).
      NOT proved: the complete canonical-input statement for CSeq (it needs the method part); a CSeq number field
      longer than 10 digits (leading zeros) is shown to be rejected at the end-of-header code (`afb_csFinish_long`) and
      never accepted (`afb_cseq_ok_le`), but no closed-form "input ⇒ NumTooBig" theorem is given for it.
  (B) C12.
      (i) `afb_msg_reset_reach`: for every `m` reachable by any history (`ScReach`), `m.reset` is literally the new
      object of the same capacities (`afbNewMsg`); `afb_msg_reset_like_new(_schedule)`: every later call (chain of
      calls) returns what it returns on the new object; `afb_msg_reset_like_new0` + `afb_parseSIPMsg_bufLen`: also
      against the new object with no retained buffer (the retained length is write-only).  Init: `afb_msg_init_any`,
      `afb_msg_init_indep`, `afb_msg_init_like_new` — for EVERY object (no reachability needed) Init's result does
      not depend on the object; it is the new object iff the arrays handed in are cleared.  `afb_hv_reset_reach`,
      `afb_hv_reset_like_new` (`AfbHvReach`), `afb_ct_reset_reach`, `afb_ct_reset_like_new` (`AfbCtReach`): the same for
      stand-alone PHdrVals / PContacts, no `TailClean` hypothesis.
      (ii) the `*x = T{}` types: the model has NO Reset function for them (only `PPAIs.reset`); the driver's op `R`
      substitutes `{}` — `afb_driver_reset_simple` (definitional, stated as such), `afb_pais_reset`,
      `afb_hdrlst_reset_slots`, `afb_clearUpTo_slots` (the per-element Resets inside the list Resets).
      (iii) `afb_contacts_init`, `afb_contacts_reset_init`, `afb_contacts_init_new_iff`, `afb_hdrvals_init_any`,
      `afb_hdrvals_init_new`, `afb_uriparams_reset_init`, `afb_urihdrs_reset_init`: Init only swaps the array; the
      result is the zero object over the GIVEN array, new iff that array is cleared (a test shows a stale entry
      being reported).  The model has no Init for the URI lists: `afbUriParamsInit` / `afbUriHdrsInit` transcribe the
      one-line Go functions here and are NOT covered by the differential check.
  (C) C02.  `afb_onePAI_resumableR`, `afb_onePAI_resume`, `afb_onePAI_stable`, `afb_onePAI_schedule(_from)`;
      `afb_fline_resumableRC`, `afb_fline_schedule(_from)` (exact equality); `afb_contacts_resumableR`,
      `afb_contacts_schedule(_from)`; `afb_pais_resumableR`, `afb_pais_schedule(_from)`; `afb_hdrline_resumableR`,
      `afb_hdrline_schedule(_from)`; `afb_headers_resumableR`, `afb_headers_schedule(_from)`; `afb_RR_use` (what `RR`
      gives a caller).  The `_from` versions start from any legitimate object, the others from new objects of any
      capacity (their hypotheses are thereby shown satisfiable).
-/
import Sipsp.Proofs.NumRun
import Sipsp.Proofs.Schedule
import Sipsp.Proofs.SigCompose
import Sipsp.Driver.Exec
import Sipsp.Proofs.ContactsL2
import Sipsp.Proofs.HeadersL2
import Sipsp.Proofs.FLine

namespace Sipsp

/-! ## (A) C10: the range half at RUN level -/

/-- 2^32 - 1 -/
def afbMaxU32 : Nat := 4294967295

/-! ### ParseUIntVal (= ParseExpiresVal): the number of the returned object never exceeds 2^32-1 -/

theorem afb_clEOH_uiVal (st : PUIntBody) (i n crl : Nat) : (clEOH st i n crl).2.2.uiVal = st.uiVal := by
  unfold clEOH
  cases st.state <;> rfl

theorem afb_clStep_u32 (b : Buf) (i : Nat) (c : UInt8) (st : PUIntBody) (hb : b[i]? = some c)
    (h : st.uiVal ≤ 4294967295) :
    StepAll2 (fun _ s => s.uiVal ≤ 4294967295) (fun _ _ s => s.uiVal ≤ 4294967295) (clStep b i c st) := by
  have hlt := get?_lt hb
  have key : ∀ s1 : PUIntBody, s1.uiVal ≤ 4294967295 →
      StepAll2 (fun _ s => s.uiVal ≤ 4294967295) (fun _ _ s => s.uiVal ≤ 4294967295) (lwsStd b i s1 clEOH id) := by
    intro s1 h1
    refine lwsStd_all2 b i s1 clEOH id _ _ (by omega) (fun _ _ _ => h1) (fun _ _ _ => h1) (fun _ _ _ => h1)
      (fun n crl _ _ _ => ?_)
    rw [afb_clEOH_uiVal]; exact h1
  unfold clStep
  by_cases hl : isLWSch c = true
  · simp only [hl, ↓reduceIte]
    cases hst : st.state <;> simp only
    case found => exact key _ h
    case fin => exact h
    all_goals exact key st h
  · simp only [hl, Bool.false_eq_true, ↓reduceIte]
    by_cases hd : isDigit c = true
    · simp only [hd, ↓reduceIte]
      cases hst : st.state <;> simp only
      case init =>
        show c.toNat - 48 ≤ 4294967295
        have := c.toNat_lt; omega
      case found =>
        split
        · exact h
        · rename_i hn
          show st.uiVal * 10 + (c.toNat - 48) ≤ 4294967295
          omega
      case fend => exact h
      case fin => exact h
    · simp only [hd, Bool.false_eq_true, ↓reduceIte]
      exact h

/-- **ParseUIntVal (= ParseExpiresVal), any buffer, any offset, ANY verdict**: if the number held by the object passed
    in fits 32 bits (a new object: 0; an object returned by an earlier call: by this very theorem), so does the number
    of the returned object.  No wrapped value is ever stored. -/
theorem afb_parseUIntVal_u32 (b : Buf) (o : Nat) (st : PUIntBody) (h : st.uiVal ≤ 4294967295) :
    (parseUIntVal b o st).2.2.uiVal ≤ 4294967295 := by
  unfold parseUIntVal
  split
  · exact h
  · exact runLoop_safe2 clMachine b (fun _ s => s.uiVal ≤ 4294967295) (fun _ _ s => s.uiVal ≤ 4294967295) cl_progress
      (fun i c s hb hs => afb_clStep_u32 b i c s hb hs) (fun _ _ hs => hs) o st h

/-- … in the form asked for: OK ⇒ `uiVal ≤ 2^32-1` -/
theorem afb_uint_ok_le (b : Buf) (o : Nat) (st : PUIntBody) (h : st.uiVal ≤ 4294967295)
    {o' : Nat} {st' : PUIntBody} (hr : parseUIntVal b o st = (o', .ok, st')) : st'.uiVal ≤ 4294967295 := by
  have := afb_parseUIntVal_u32 b o st h
  rw [hr] at this; exact this

theorem afb_parseCLenVal_u32 (b : Buf) (o : Nat) (st : PUIntBody) (h : st.uiVal ≤ 4294967295) :
    (parseCLenVal b o st).2.2.uiVal ≤ 4294967295 := by
  have := afb_parseUIntVal_u32 b o st h
  unfold parseCLenVal
  rcases hp : parseUIntVal b o st with ⟨o1, e1, s1⟩
  rw [hp] at this
  cases e1 <;> simp only
  case ok => split <;> exact this
  all_goals exact this

/-! ### ParseCSeqVal: the number never exceeds 2^32-1 and an accepted digit string has at most 10 digits -/

theorem afb_csFinish_no (st : PCSeqBody) (b : Buf) (n crl : Nat) : (csFinish st b n crl).2.2.cseqNo = st.cseqNo := by
  unfold csFinish
  simp only
  split
  · rfl
  · split <;> rfl

theorem afb_csFinish_cseq (st : PCSeqBody) (b : Buf) (n crl : Nat) : (csFinish st b n crl).2.2.cseq = st.cseq := by
  unfold csFinish
  simp only
  split
  · rfl
  · split <;> rfl

/-- the end-of-header code accepts only a number field of at most 10 bytes and a number that fits 32 bits -/
theorem afb_csFinish_ok (st : PCSeqBody) (b : Buf) (n crl : Nat) (h : (csFinish st b n crl).2.1 = .ok) :
    st.cseq.len ≤ 10 ∧ st.cseqNo ≤ 4294967295 := by
  unfold csFinish at h
  simp only at h
  split at h
  · cases h
  · rename_i hn
    simp only [MaxCSeqNValueSize, Bool.or_eq_true, decide_eq_true_eq, not_or] at hn
    have h1 : ¬ st.cseq.len > 10 := by simpa using hn.1
    have h2 := hn.2
    exact ⟨by omega, by omega⟩

theorem afb_csEOH_no (b : Buf) (st : PCSeqBody) (i n crl : Nat) : (csEOH b st i n crl).2.2.cseqNo = st.cseqNo := by
  unfold csEOH
  cases st.state <;> simp only
  case fend => exact afb_csFinish_no st b n crl
  case foundMethod => rw [afb_csFinish_no]; rfl

theorem afb_csEOH_ok (b : Buf) (st : PCSeqBody) (i n crl : Nat) (h : (csEOH b st i n crl).2.1 = .ok) :
    (csEOH b st i n crl).2.2.cseq.len ≤ 10 ∧ (csEOH b st i n crl).2.2.cseqNo ≤ 4294967295 := by
  unfold csEOH at h ⊢
  cases hst : st.state <;> simp only [hst] at h ⊢
  case fend =>
    rw [afb_csFinish_no, afb_csFinish_cseq]; exact afb_csFinish_ok st b n crl h
  case foundMethod =>
    rw [afb_csFinish_no, afb_csFinish_cseq]; exact afb_csFinish_ok _ b n crl h
  all_goals cases h

/-- what every exit of the CSeq loop guarantees -/
def AfbCsT (e : Err) (s : PCSeqBody) : Prop :=
  s.cseqNo ≤ 4294967295 ∧ (e = .ok → s.cseq.len ≤ 10)

theorem afb_csStep_u32 (b : Buf) (i : Nat) (c : UInt8) (st : PCSeqBody) (hb : b[i]? = some c)
    (h : st.cseqNo ≤ 4294967295) :
    StepAll2 (fun _ s => s.cseqNo ≤ 4294967295) (fun _ e s => AfbCsT e s) (csStep b i c st) := by
  have hlt := get?_lt hb
  have key : ∀ s1 : PCSeqBody, s1.cseqNo ≤ 4294967295 →
      StepAll2 (fun _ s => s.cseqNo ≤ 4294967295) (fun _ e s => AfbCsT e s) (lwsStd b i s1 (csEOH b) id) := by
    intro s1 h1
    refine lwsStd_all2 b i s1 (csEOH b) id _ _ (by omega) (fun _ _ _ => h1)
      (fun _ _ _ => ⟨h1, (fun hh => by cases hh)⟩) (fun _ _ _ => ⟨h1, (fun hh => by cases hh)⟩)
      (fun n crl _ _ _ => ⟨?_, fun hh => (afb_csEOH_ok b s1 i n crl hh).1⟩)
    rw [afb_csEOH_no]; exact h1
  have herr : ∀ e : Err, e ≠ .ok → AfbCsT e st := fun e he => ⟨h, fun hh => absurd hh he⟩
  unfold csStep
  by_cases hl : isLWSch c = true
  · simp only [hl, ↓reduceIte]
    cases hst : st.state <;> simp only
    case foundDigit => exact key _ h
    case foundMethod => exact key _ h
    case fin => exact h
    all_goals exact key st h
  · simp only [hl, Bool.false_eq_true, ↓reduceIte]
    by_cases hd : isDigit c = true
    · simp only [hd, ↓reduceIte]
      cases hst : st.state <;> simp only
      case init =>
        show c.toNat - 48 ≤ 4294967295
        have := c.toNat_lt; omega
      case foundDigit =>
        split
        · exact herr _ (by decide)
        · rename_i hn
          show st.cseqNo * 10 + (c.toNat - 48) ≤ 4294967295
          omega
      case endDigit => exact h
      case foundMethod => exact h
      case fend => exact herr _ (by decide)
      case fin => exact h
    · simp only [hd, Bool.false_eq_true, ↓reduceIte]
      cases hst : st.state <;> simp only
      case endDigit => exact h
      case foundMethod => exact h
      case fin => exact h
      all_goals exact herr _ (by decide)

/-- **ParseCSeqVal, any buffer, any offset, any verdict**: the number of the returned object fits 32 bits whenever the
    number of the object passed in does; and after OK the reported number field has at most 10 bytes.  The only
    hypothesis on a FINISHED object passed in again (the call then returns it unchanged) is that it has these
    properties itself — as every finished object returned by this function has. -/
theorem afb_parseCSeqVal_range (b : Buf) (o : Nat) (st : PCSeqBody) (h : st.cseqNo ≤ 4294967295)
    (hfin : st.state = .fin → st.cseq.len ≤ 10) :
    (parseCSeqVal b o st).2.2.cseqNo ≤ 4294967295 ∧
      ((parseCSeqVal b o st).2.1 = .ok → (parseCSeqVal b o st).2.2.cseq.len ≤ 10) := by
  unfold parseCSeqVal
  split
  · rename_i hf; exact ⟨h, fun _ => hfin hf⟩
  · exact runLoop_safe2 csMachine b (fun _ s => s.cseqNo ≤ 4294967295) (fun _ e s => AfbCsT e s) cs_progress
      (fun i c s hb hs => afb_csStep_u32 b i c s hb hs) (fun _ _ hs => ⟨hs, (fun hh => by cases hh)⟩) o st h

/-- … in the form asked for: OK ⇒ `cseqNo ≤ 2^32-1` and `cseq.len ≤ 10` -/
theorem afb_cseq_ok_le (b : Buf) (o : Nat) (st : PCSeqBody) (h : st.cseqNo ≤ 4294967295)
    (hfin : st.state = .fin → st.cseq.len ≤ 10)
    {o' : Nat} {st' : PCSeqBody} (hr : parseCSeqVal b o st = (o', .ok, st')) :
    st'.cseqNo ≤ 4294967295 ∧ st'.cseq.len ≤ 10 := by
  have := afb_parseCSeqVal_range b o st h hfin
  rw [hr] at this; exact ⟨this.1, this.2 rfl⟩

/-! ### the invariants `ClNum` / `CsNum` of the exactness theorems are re-established at every suspension -/

theorem afb_digitsOf_app (b s : Buf) (x e : Nat) (he : e ≤ b.size) : digitsOf (b ++ s) x e = digitsOf b x e := by
  unfold digitsOf
  rw [Array.extract_append]
  have : s.extract (x - b.size) (e - b.size) = #[] := by
    apply Array.eq_empty_of_size_eq_zero
    rw [Array.size_extract]; omega
  rw [this, Array.append_empty]

theorem afb_NumDone_app {b : Buf} {fld : PField} {v : Nat} (s : Buf) (h : NumDone b fld v) : NumDone (b ++ s) fld v := by
  obtain ⟨x, e, h1, h2, h3, h4, h5⟩ := h
  refine ⟨x, e, h1, h2, by rw [Array.size_append]; omega, ?_, ?_⟩
  · rw [afb_digitsOf_app b s x e h3]; exact h4
  · rw [afb_digitsOf_app b s x e h3]; exact h5

theorem afb_ClNum_app {b : Buf} {i : Nat} {st : PUIntBody} (s : Buf) (hi : i ≤ b.size) (h : ClNum b i st) :
    ClNum (b ++ s) i st := by
  refine ⟨fun hf => ?_, fun hd => afb_NumDone_app s (h.done hd)⟩
  rw [afb_digitsOf_app b s _ i hi]; exact h.found hf

theorem afb_CsNum_app {b : Buf} {i : Nat} {st : PCSeqBody} (s : Buf) (hi : i ≤ b.size) (h : CsNum b i st) :
    CsNum (b ++ s) i st := by
  refine ⟨fun hf => ?_, fun hd => afb_NumDone_app s (h.done hd)⟩
  rw [afb_digitsOf_app b s _ i hi]; exact h.found hf

/-- exits of the UInt loop: after OK the value is exact; after MoreBytes the invariant holds at the returned offset -/
def AfbClT (b : Buf) (n : Nat) (e : Err) (s : PUIntBody) : Prop :=
  (e = .ok → NumDone b s.sVal s.uiVal) ∧ (e = .moreBytes → n ≤ b.size ∧ ClNum b n s ∧ s.state ≠ .fin)

theorem afb_AfbClT_err {b : Buf} {n : Nat} {e : Err} {s : PUIntBody} (h1 : e ≠ .ok) (h2 : e ≠ .moreBytes) :
    AfbClT b n e s := ⟨fun h => absurd h h1, fun h => absurd h h2⟩

theorem afb_clStep_num (b : Buf) (i : Nat) (c : UInt8) (st : PUIntBody) (hfit : b.size ≤ 65535) (hb : b[i]? = some c)
    (hi : i ≤ b.size) (h : ClNum b i st) (hnf : st.state ≠ .fin) :
    StepAll2 (fun n s => n ≤ b.size ∧ ClNum b n s ∧ s.state ≠ .fin) (AfbClT b) (clStep b i c st) := by
  have hlt := get?_lt hb
  have key : ∀ s1 : PUIntBody, s1.state ≠ .found → s1.state ≠ .fin → ClNum b i s1 →
      StepAll2 (fun n s => n ≤ b.size ∧ ClNum b n s ∧ s.state ≠ .fin) (AfbClT b) (lwsStd b i s1 clEOH id) := by
    intro s1 hnf hnn h1
    have hany : ∀ n, ClNum b n s1 := fun n => ⟨(fun hh => absurd hh hnf), h1.done⟩
    refine lwsStd_all2 b i s1 clEOH id _ _ hi (fun n _ a2 => ⟨a2, hany n, hnn⟩)
      (fun n _ _ => afb_AfbClT_err (by decide) (by decide))
      (fun n _ a2 => ⟨(fun hh => by cases hh), fun _ => ⟨a2, hany n, hnn⟩⟩) (fun n crl _ _ _ => ?_)
    unfold clEOH
    cases hst : s1.state <;> simp only
    case fend => exact ⟨fun _ => h1.done (Or.inl hst), (fun hh => by cases hh)⟩
    case found => exact absurd hst hnf
    all_goals exact afb_AfbClT_err (by decide) (by decide)
  unfold clStep
  by_cases hl : isLWSch c = true
  · simp only [hl, ↓reduceIte]
    cases hst : st.state <;> simp only
    case found =>
      obtain ⟨h1, h2, h3⟩ := h.found hst
      refine key _ (fun hh => by cases hh) (fun hh => by cases hh) ⟨(fun hh => by cases hh), fun _ => ?_⟩
      show NumDone b (PField.set st.soffs i) st.uiVal
      exact ⟨st.soffs, i, pfield_set_eq _ _ (by omega) (by omega), h1, hi, h2, h3⟩
    case fin => exact absurd hst hnf
    all_goals exact key st (by rw [hst]; decide) (by rw [hst]; decide) h
  · simp only [hl, Bool.false_eq_true, ↓reduceIte]
    by_cases hd : isDigit c = true
    · simp only [hd, ↓reduceIte]
      cases hst : st.state <;> simp only
      case init =>
        refine ⟨by omega, ⟨(fun _ => ⟨by show i < i + 1; omega, ?_, ?_⟩), (fun hh => by rcases hh with hh | hh <;> cases hh)⟩, (fun hh => by cases hh)⟩
        · show AllDigits (digitsOf b i (i + 1))
          rw [digitsOf_snoc b i i c (Nat.le_refl _) hb, digitsOf_self]
          intro x hx; simp at hx; subst hx; exact isDigit_B hd
        · show c.toNat - 48 = decOf (digitsOf b i (i + 1))
          rw [digitsOf_snoc b i i c (Nat.le_refl _) hb, digitsOf_self]
          simp [decOf, decFrom, dval_def]
      case found =>
        obtain ⟨h1, h2, h3⟩ := h.found hst
        split
        · exact afb_AfbClT_err (by decide) (by decide)
        · refine ⟨by omega, ⟨(fun _ => ⟨by show st.soffs < i + 1; omega, ?_, ?_⟩), (fun hh => by rcases hh with hh | hh <;> cases hh)⟩, (fun hh => by cases hh)⟩
          · show AllDigits (digitsOf b st.soffs (i + 1))
            rw [digitsOf_snoc b st.soffs i c (by omega) hb]
            intro x hx
            rcases List.mem_append.mp hx with hx | hx
            · exact h2 x hx
            · simp at hx; subst hx; exact isDigit_B hd
          · show st.uiVal * 10 + (c.toNat - 48) = decOf (digitsOf b st.soffs (i + 1))
            rw [digitsOf_snoc b st.soffs i c (by omega) hb, decOf, decFrom_snoc, ← decOf, ← h3, dval_def]
      case fend => exact afb_AfbClT_err (by decide) (by decide)
      case fin => exact absurd hst hnf
    · simp only [hd, Bool.false_eq_true, ↓reduceIte]
      exact afb_AfbClT_err (by decide) (by decide)

/-- **ParseUIntVal suspended**: after MoreBytes the returned object satisfies `ClNum` at the returned offset — on the
    buffer that was parsed and on every extension of it — the offset lies inside the buffer and the object is not
    finished: the hypotheses of `uint_value_exact` / `clen_value_exact` for the resumed call. -/
theorem afb_uint_more_inv (b s : Buf) (o : Nat) (st : PUIntBody) (hfit : b.size ≤ 65535) (ho : o ≤ b.size)
    (h : ClNum b o st) {o' : Nat} {st' : PUIntBody} (hr : parseUIntVal b o st = (o', .moreBytes, st')) :
    ClNum (b ++ s) o' st' ∧ o' ≤ b.size ∧ st'.state ≠ .fin := by
  unfold parseUIntVal at hr
  split at hr
  · cases hr
  · rename_i hnf
    have := runLoop_safe2 clMachine b (fun n s => n ≤ b.size ∧ ClNum b n s ∧ s.state ≠ .fin) (AfbClT b) cl_progress
      (fun i c s hb hs => afb_clStep_num b i c s hfit hb hs.1 hs.2.1 hs.2.2)
      (fun i s hs => ⟨(fun hh => by cases hh), fun _ => hs⟩) o st ⟨ho, h, hnf⟩
    rw [hr] at this
    obtain ⟨a1, a2, a3⟩ := this.2 rfl
    exact ⟨afb_ClNum_app s a1 a2, a1, a3⟩

theorem afb_clen_more_inv (b s : Buf) (o : Nat) (st : PUIntBody) (hfit : b.size ≤ 65535) (ho : o ≤ b.size)
    (h : ClNum b o st) {o' : Nat} {st' : PUIntBody} (hr : parseCLenVal b o st = (o', .moreBytes, st')) :
    ClNum (b ++ s) o' st' ∧ o' ≤ b.size ∧ st'.state ≠ .fin := by
  unfold parseCLenVal at hr
  rcases hp : parseUIntVal b o st with ⟨o1, e1, s1⟩
  rw [hp] at hr
  cases e1 <;> simp only at hr
  case ok => split at hr <;> cases hr
  case moreBytes => cases hr; exact afb_uint_more_inv b s o st hfit ho h hp
  all_goals cases hr

/-- exits of the CSeq loop -/
def AfbCsNT (b : Buf) (n : Nat) (e : Err) (s : PCSeqBody) : Prop :=
  (e = .ok → NumDone b s.cseq s.cseqNo) ∧ (e = .moreBytes → n ≤ b.size ∧ CsNum b n s ∧ s.state ≠ .fin)

theorem afb_AfbCsNT_err {b : Buf} {n : Nat} {e : Err} {s : PCSeqBody} (h1 : e ≠ .ok) (h2 : e ≠ .moreBytes) :
    AfbCsNT b n e s := ⟨fun h => absurd h h1, fun h => absurd h h2⟩

theorem afb_csFinish_ne_more (st : PCSeqBody) (b : Buf) (n crl : Nat) : (csFinish st b n crl).2.1 ≠ .moreBytes := by
  unfold csFinish
  simp only
  split
  · simp
  · split <;> simp

theorem afb_csStep_num (b : Buf) (i : Nat) (c : UInt8) (st : PCSeqBody) (hfit : b.size ≤ 65535) (hb : b[i]? = some c)
    (hi : i ≤ b.size) (h : CsNum b i st) (hnf : st.state ≠ .fin) :
    StepAll2 (fun n s => n ≤ b.size ∧ CsNum b n s ∧ s.state ≠ .fin) (AfbCsNT b) (csStep b i c st) := by
  have hlt := get?_lt hb
  have key : ∀ s1 : PCSeqBody, s1.state ≠ .foundDigit → s1.state ≠ .fin → CsNum b i s1 →
      StepAll2 (fun n s => n ≤ b.size ∧ CsNum b n s ∧ s.state ≠ .fin) (AfbCsNT b) (lwsStd b i s1 (csEOH b) id) := by
    intro s1 hnd hnn h1
    have hany : ∀ n, CsNum b n s1 := fun n => ⟨(fun hh => absurd hh hnd), h1.done⟩
    refine lwsStd_all2 b i s1 (csEOH b) id _ _ hi (fun n _ a2 => ⟨a2, hany n, hnn⟩)
      (fun n _ _ => afb_AfbCsNT_err (by decide) (by decide))
      (fun n _ a2 => ⟨(fun hh => by cases hh), fun _ => ⟨a2, hany n, hnn⟩⟩) (fun n crl _ _ _ => ?_)
    unfold csEOH
    cases hst : s1.state <;> simp only
    case fend =>
      exact ⟨fun _ => csFinish_num b s1 n crl (h1.done ⟨by rw [hst]; decide, by rw [hst]; decide⟩),
        fun hh => absurd hh (afb_csFinish_ne_more _ _ _ _)⟩
    case foundMethod =>
      exact ⟨fun _ => csFinish_num b (csSetMethod s1 i) n crl (h1.done ⟨by rw [hst]; decide, by rw [hst]; decide⟩),
        fun hh => absurd hh (afb_csFinish_ne_more _ _ _ _)⟩
    all_goals exact afb_AfbCsNT_err (by decide) (by decide)
  have hkeep : ∀ x : PCSeqBody, x.cseq = st.cseq → x.cseqNo = st.cseqNo → x.state ≠ .init → x.state ≠ .foundDigit →
      (st.state ≠ .init ∧ st.state ≠ .foundDigit) → ∀ n, CsNum b n x := by
    intro x e1 e2 e3 e4 hs n
    exact ⟨fun hh => absurd hh e4, fun _ => by rw [e1, e2]; exact h.done hs⟩
  unfold csStep
  by_cases hl : isLWSch c = true
  · simp only [hl, ↓reduceIte]
    cases hst : st.state <;> simp only
    case foundDigit =>
      obtain ⟨h1, h2, h3⟩ := h.found hst
      refine key _ (fun hh => by cases hh) (fun hh => by cases hh) ⟨(fun hh => by cases hh), fun _ => ?_⟩
      show NumDone b (PField.set st.soffs i) st.cseqNo
      exact ⟨st.soffs, i, pfield_set_eq _ _ (by omega) (by omega), h1, hi, h2, h3⟩
    case foundMethod =>
      exact key { csSetMethod st i with state := .fend } (fun hh => by cases hh) (fun hh => by cases hh)
        (hkeep { csSetMethod st i with state := .fend } rfl rfl (fun hh => by cases hh) (fun hh => by cases hh)
          ⟨by rw [hst]; decide, by rw [hst]; decide⟩ i)
    case fin => exact absurd hst hnf
    all_goals exact key st (by rw [hst]; decide) (by rw [hst]; decide) h
  · simp only [hl, Bool.false_eq_true, ↓reduceIte]
    by_cases hd : isDigit c = true
    · simp only [hd, ↓reduceIte]
      cases hst : st.state <;> simp only
      case init =>
        refine ⟨by omega, ⟨(fun _ => ⟨by show i < i + 1; omega, ?_, ?_⟩), (fun hh => absurd rfl hh.2)⟩, (fun hh => by cases hh)⟩
        · show AllDigits (digitsOf b i (i + 1))
          rw [digitsOf_snoc b i i c (Nat.le_refl _) hb, digitsOf_self]
          intro x hx; simp at hx; subst hx; exact isDigit_B hd
        · show c.toNat - 48 = decOf (digitsOf b i (i + 1))
          rw [digitsOf_snoc b i i c (Nat.le_refl _) hb, digitsOf_self]
          simp [decOf, decFrom, dval_def]
      case foundDigit =>
        obtain ⟨h1, h2, h3⟩ := h.found hst
        split
        · exact afb_AfbCsNT_err (by decide) (by decide)
        · refine ⟨by omega, ⟨(fun _ => ⟨by show st.soffs < i + 1; omega, ?_, ?_⟩), (fun hh => absurd rfl hh.2)⟩, (fun hh => by cases hh)⟩
          · show AllDigits (digitsOf b st.soffs (i + 1))
            rw [digitsOf_snoc b st.soffs i c (by omega) hb]
            intro x hx
            rcases List.mem_append.mp hx with hx | hx
            · exact h2 x hx
            · simp at hx; subst hx; exact isDigit_B hd
          · show st.cseqNo * 10 + (c.toNat - 48) = decOf (digitsOf b st.soffs (i + 1))
            rw [digitsOf_snoc b st.soffs i c (by omega) hb, decOf, decFrom_snoc, ← decOf, ← h3, dval_def]
      case endDigit =>
        exact ⟨by omega, hkeep { st with state := .foundMethod, soffs := i } rfl rfl (fun hh => by cases hh)
          (fun hh => by cases hh) ⟨by rw [hst]; decide, by rw [hst]; decide⟩ _, (fun hh => by cases hh)⟩
      case foundMethod => exact ⟨by omega, ⟨(fun hh => by rw [hst] at hh; cases hh), h.done⟩, hnf⟩
      case fend => exact afb_AfbCsNT_err (by decide) (by decide)
      case fin => exact absurd hst hnf
    · simp only [hd, Bool.false_eq_true, ↓reduceIte]
      cases hst : st.state <;> simp only
      case endDigit =>
        exact ⟨by omega, hkeep { st with state := .foundMethod, soffs := i } rfl rfl (fun hh => by cases hh)
          (fun hh => by cases hh) ⟨by rw [hst]; decide, by rw [hst]; decide⟩ _, (fun hh => by cases hh)⟩
      case foundMethod => exact ⟨by omega, ⟨(fun hh => by rw [hst] at hh; cases hh), h.done⟩, hnf⟩
      case fin => exact absurd hst hnf
      all_goals exact afb_AfbCsNT_err (by decide) (by decide)

/-- **ParseCSeqVal suspended**: after MoreBytes the returned object satisfies `CsNum` at the returned offset (on the
    parsed buffer and on every extension), the offset lies inside the buffer and the object is not finished: the
    hypotheses of `cseq_value_exact` for the resumed call. -/
theorem afb_cseq_more_inv (b s : Buf) (o : Nat) (st : PCSeqBody) (hfit : b.size ≤ 65535) (ho : o ≤ b.size)
    (h : CsNum b o st) {o' : Nat} {st' : PCSeqBody} (hr : parseCSeqVal b o st = (o', .moreBytes, st')) :
    CsNum (b ++ s) o' st' ∧ o' ≤ b.size ∧ st'.state ≠ .fin := by
  unfold parseCSeqVal at hr
  split at hr
  · cases hr
  · rename_i hnf
    have := runLoop_safe2 csMachine b (fun n s => n ≤ b.size ∧ CsNum b n s ∧ s.state ≠ .fin) (AfbCsNT b) cs_progress
      (fun i c s hb hs => afb_csStep_num b i c s hfit hb hs.1 hs.2.1 hs.2.2)
      (fun i s hs => ⟨(fun hh => by cases hh), fun _ => hs⟩) o st ⟨ho, h, hnf⟩
    rw [hr] at this
    obtain ⟨a1, a2, a3⟩ := this.2 rfl
    exact ⟨afb_CsNum_app s a1 a2, a1, a3⟩

/-! ### the converse: a digit string whose value exceeds 2^32-1 is REJECTED with the number-too-big verdict -/

theorem afb_digitsOf_cons (b : Buf) (i e : Nat) (c : UInt8) (hb : b[i]? = some c) (hie : i < e) :
    digitsOf b i e = c :: digitsOf b (i + 1) e := by
  have hlt := get?_lt hb
  have hc : b[i] = c := by
    have := Array.getElem?_eq_getElem hlt
    rw [this] at hb; exact Option.some.inj hb
  unfold digitsOf
  simp only [Array.toList_extract, List.extract_eq_take_drop]
  rw [List.drop_eq_getElem_cons (by simpa using hlt)]
  have : e - i = (e - (i + 1)) + 1 := by omega
  rw [this, List.take_succ_cons]
  simp [hc]

theorem afb_decFrom_append (n : Nat) (l1 l2 : List UInt8) : decFrom n (l1 ++ l2) = decFrom (decFrom n l1) l2 := by
  induction l1 generalizing n with
  | nil => simp [decFrom_nil]
  | cons x xs ih => simp only [List.cons_append, decFrom_cons]; exact ih _

theorem afb_digitsOf_split (b : Buf) (x i e : Nat) (h1 : x ≤ i) (h2 : i ≤ e) :
    digitsOf b x e = digitsOf b x i ++ digitsOf b i e := by
  unfold digitsOf
  rw [← Array.toList_append, Array.extract_append_extract, Nat.min_eq_left h1, Nat.max_eq_right h2]

theorem afb_isDigit_of_B {c : UInt8} (h : IsDigitB c) : isDigit c = true := by
  simp only [isDigit, Bool.and_eq_true, decide_eq_true_eq, UInt8.le_iff_toNat_le]
  exact ⟨h.1, h.2⟩

theorem afb_notLWS_of_B {c : UInt8} (h : IsDigitB c) : isLWSch c = false := by
  have h1 := h.1; have h2 := h.2
  simp only [isLWSch, Bool.or_eq_false_iff, beq_eq_false_iff_ne, ne_eq]
  refine ⟨⟨⟨?_, ?_⟩, ?_⟩, ?_⟩ <;> (intro hh; rw [hh] at h1 h2; simp at h1 h2)

/-- the digit case of the UInt loop body while in the number -/
theorem afb_clStep_digit (b : Buf) (i : Nat) (c : UInt8) (st : PUIntBody) (hc : IsDigitB c) (hs : st.state = .found) :
    clStep b i c st =
      (if st.uiVal * 10 + dval c > 4294967295 then Step.done i Err.numTooBig st
       else Step.cont (i + 1) { st with uiVal := st.uiVal * 10 + dval c }) := by
  unfold clStep
  rw [afb_notLWS_of_B hc, afb_isDigit_of_B hc, hs, dval_def]
  simp only [Bool.false_eq_true, if_false, if_true]

/-- the loop inside a number: if the digits up to `e` push the value above 2^32-1 the loop stops at one of them
    with NumTooBig -/
theorem afb_cl_run_big (b : Buf) (e : Nat) :
    ∀ (k i : Nat) (st : PUIntBody), e - i = k → i ≤ e → e ≤ b.size → st.state = .found → st.uiVal ≤ 4294967295 →
      AllDigits (digitsOf b i e) → decFrom st.uiVal (digitsOf b i e) > 4294967295 →
      ∃ j st', i ≤ j ∧ j < e ∧ runLoop clMachine b i st = (j, .numTooBig, st') := by
  intro k
  induction k with
  | zero =>
    intro i st hk hie he hs hv hd hbig
    have : i = e := by omega
    subst this
    rw [digitsOf_self, decFrom_nil] at hbig
    omega
  | succ k ih =>
    intro i st hk hie he hs hv hd hbig
    have hlt : i < b.size := by omega
    have hb : b[i]? = some b[i] := Array.getElem?_eq_getElem hlt
    rw [afb_digitsOf_cons b i e b[i] hb (by omega)] at hd hbig
    have hc : IsDigitB b[i] := hd _ List.mem_cons_self
    have hstep := afb_clStep_digit b i b[i] st hc hs
    rw [decFrom_cons] at hbig
    by_cases hov : st.uiVal * 10 + dval b[i] > 4294967295
    · rw [if_pos hov] at hstep
      exact ⟨i, st, Nat.le_refl _, by omega, runLoop_done clMachine hb hstep⟩
    · rw [if_neg hov] at hstep
      have hrun := runLoop_cont clMachine hb hstep
      rw [if_pos (Nat.lt_succ_self i)] at hrun
      obtain ⟨j, st', a1, a2, a3⟩ := ih (i + 1) { st with uiVal := st.uiVal * 10 + dval b[i] } (by omega) (by omega) he
        hs (by show st.uiVal * 10 + dval b[i] ≤ 4294967295; omega)
        (fun x hx => hd x (List.mem_cons_of_mem _ hx)) hbig
      exact ⟨j, st', by omega, a2, by rw [hrun]; exact a3⟩

/-- **ParseUIntVal resumed (or called) inside a number**: the object is in the middle of a digit string that began at
    `st.soffs` (`ClNum`), the bytes `[i, e)` are further digits, and the value of the whole string `[st.soffs, e)`
    exceeds 2^32-1: the call is rejected with NumTooBig at one of these digits, whatever follows. -/
theorem afb_uint_big_resumed (b : Buf) (i e : Nat) (st : PUIntBody) (hs : st.state = .found) (h : ClNum b i st)
    (hv : st.uiVal ≤ 4294967295) (hie : i ≤ e) (he : e ≤ b.size) (hd : AllDigits (digitsOf b i e))
    (hbig : decOf (digitsOf b st.soffs e) > 4294967295) :
    ∃ j st', i ≤ j ∧ j < e ∧ parseUIntVal b i st = (j, .numTooBig, st') := by
  obtain ⟨h1, _, h3⟩ := h.found hs
  unfold parseUIntVal
  rw [if_neg (by rw [hs]; decide)]
  refine afb_cl_run_big b e (e - i) i st rfl hie he hs hv hd ?_
  rw [afb_digitsOf_split b st.soffs i e (by omega) hie, decOf, afb_decFrom_append, ← decOf, ← h3] at hbig
  exact hbig

/-- **ParseUIntVal on an object that has not met the number yet** (a new object), called at the first digit: the
    bytes `[o, e)` are digits of value above 2^32-1 ⇒ NumTooBig at one of them, whatever follows. -/
theorem afb_uint_big_rejected (b : Buf) (o e : Nat) (st : PUIntBody) (hs : st.state = .init) (hoe : o < e)
    (he : e ≤ b.size) (hd : AllDigits (digitsOf b o e)) (hbig : decOf (digitsOf b o e) > 4294967295) :
    ∃ j st', o < j ∧ j < e ∧ parseUIntVal b o st = (j, .numTooBig, st') := by
  have hlt : o < b.size := by omega
  have hb : b[o]? = some b[o] := Array.getElem?_eq_getElem hlt
  rw [afb_digitsOf_cons b o e b[o] hb hoe] at hd hbig
  have hc : IsDigitB b[o] := hd _ List.mem_cons_self
  have hstep : clStep b o b[o] st = .cont (o + 1) { st with state := .found, soffs := o, uiVal := b[o].toNat - 48 } := by
    unfold clStep
    rw [afb_notLWS_of_B hc, afb_isDigit_of_B hc, hs]
    simp only [Bool.false_eq_true, if_false, if_true]
  have hrun := runLoop_cont clMachine hb hstep
  rw [if_pos (Nat.lt_succ_self o)] at hrun
  rw [decOf, decFrom_cons, dval_def] at hbig
  have h9 := hc.2
  obtain ⟨j, st', a1, a2, a3⟩ := afb_cl_run_big b e (e - (o + 1)) (o + 1)
    { st with state := .found, soffs := o, uiVal := b[o].toNat - 48 } rfl (by omega) he rfl
    (by show b[o].toNat - 48 ≤ 4294967295; omega) (fun x hx => hd x (List.mem_cons_of_mem _ hx))
    (by simpa using hbig)
  refine ⟨j, st', by omega, a2, ?_⟩
  unfold parseUIntVal
  rw [if_neg (by rw [hs]; decide), hrun]; exact a3

/-! #### leading white space -/

/-- every byte of `[o, i)` is a space or a tab -/
def AfbWsRun (b : Buf) (o i : Nat) : Prop := ∀ k, o ≤ k → k < i → ∃ w, b[k]? = some w ∧ isWS w = true

theorem afb_skipLWS_ws_run (b : Buf) (i : Nat) (c : UInt8) (hb : b[i]? = some c) (hws : isWS c = false)
    (hcr : isCRLFch c = false) : ∀ (k o : Nat), i - o = k → o ≤ i → AfbWsRun b o i → skipLWS b o 0 = (i, 0, .ok) := by
  intro k
  induction k with
  | zero =>
    intro o hk hoi _
    have : o = i := by omega
    subst this
    exact skipLWS_other hb hws hcr
  | succ k ih =>
    intro o hk hoi hrun
    obtain ⟨w, hw, hww⟩ := hrun o (Nat.le_refl _) (by omega)
    rw [skipLWS_ws hw hww]
    exact ih (o + 1) (by omega) (by omega) (fun j h1 h2 => hrun j (by omega) h2)

theorem afb_lwsStd_ws_run {σ : Type} (b : Buf) (o i : Nat) (c : UInt8) (st : σ)
    (eoh : σ → Nat → Nat → Nat → Nat × Err × σ) (mb : σ → σ) (hb : b[i]? = some c) (hws : isWS c = false)
    (hcr : isCRLFch c = false) (hoi : o ≤ i) (hrun : AfbWsRun b o i) : lwsStd b o st eoh mb = .cont i st := by
  unfold lwsStd
  rw [afb_skipLWS_ws_run b i c hb hws hcr (i - o) o rfl hoi hrun]

theorem afb_isLWS_of_WS {w : UInt8} (h : isWS w = true) : isLWSch w = true := by
  simp only [isWS, Bool.or_eq_true, beq_iff_eq] at h
  simp only [isLWSch, Bool.or_eq_true, beq_iff_eq]
  rcases h with h | h
  · exact Or.inl (Or.inl (Or.inl h))
  · exact Or.inl (Or.inl (Or.inr h))

theorem afb_notWS_of_B {c : UInt8} (h : IsDigitB c) : isWS c = false ∧ isCRLFch c = false := by
  have := afb_notLWS_of_B h
  simp only [isLWSch, Bool.or_eq_false_iff] at this
  simp only [isWS, isCRLFch, Bool.or_eq_false_iff]
  exact ⟨⟨this.1.1.1, this.1.1.2⟩, ⟨this.1.2, this.2⟩⟩

/-- **ParseUIntVal, new object, optional leading spaces / tabs, then a digit string of value above 2^32-1**: rejected
    with NumTooBig at one of the digits, whatever follows them -/
theorem afb_uint_big_rejected_ws (b : Buf) (o i e : Nat) (st : PUIntBody) (hs : st.state = .init) (hoi : o ≤ i)
    (hws : AfbWsRun b o i) (hie : i < e) (he : e ≤ b.size) (hd : AllDigits (digitsOf b i e))
    (hbig : decOf (digitsOf b i e) > 4294967295) :
    ∃ j st', i < j ∧ j < e ∧ parseUIntVal b o st = (j, .numTooBig, st') := by
  rcases Nat.eq_or_lt_of_le hoi with heq | hlt
  · subst heq; exact afb_uint_big_rejected b o e st hs hie he hd hbig
  · have hbi : b[i]? = some b[i] := Array.getElem?_eq_getElem (by omega)
    have hci : IsDigitB b[i] := by
      rw [afb_digitsOf_cons b i e b[i] hbi hie] at hd
      exact hd _ List.mem_cons_self
    obtain ⟨w, hw, hww⟩ := hws o (Nat.le_refl _) hlt
    have hstep : clStep b o w st = .cont i st := by
      unfold clStep
      rw [afb_isLWS_of_WS hww, hs]
      simp only [if_true]
      exact afb_lwsStd_ws_run b o i b[i] st clEOH id hbi (afb_notWS_of_B hci).1 (afb_notWS_of_B hci).2 hoi hws
    have hrun := runLoop_cont clMachine hw hstep
    rw [if_pos hlt] at hrun
    obtain ⟨j, st', a1, a2, a3⟩ := afb_uint_big_rejected b i e st hs hie he hd hbig
    refine ⟨j, st', a1, a2, ?_⟩
    unfold parseUIntVal at a3 ⊢
    rw [if_neg (by rw [hs]; decide)] at a3 ⊢
    rw [hrun]; exact a3

/-- ParseCLenVal passes the verdict on -/
theorem afb_clen_big_rejected_ws (b : Buf) (o i e : Nat) (st : PUIntBody) (hs : st.state = .init) (hoi : o ≤ i)
    (hws : AfbWsRun b o i) (hie : i < e) (he : e ≤ b.size) (hd : AllDigits (digitsOf b i e))
    (hbig : decOf (digitsOf b i e) > 4294967295) :
    ∃ j st', i < j ∧ j < e ∧ parseCLenVal b o st = (j, .numTooBig, st') := by
  obtain ⟨j, st', a1, a2, a3⟩ := afb_uint_big_rejected_ws b o i e st hs hoi hws hie he hd hbig
  exact ⟨j, st', a1, a2, by unfold parseCLenVal; rw [a3]⟩

/-! #### CSeq -/

theorem afb_csStep_digit (b : Buf) (i : Nat) (c : UInt8) (st : PCSeqBody) (hc : IsDigitB c) (hs : st.state = .foundDigit) :
    csStep b i c st =
      (if st.cseqNo * 10 + dval c > 4294967295 then Step.done i Err.numTooBig st
       else Step.cont (i + 1) { st with cseqNo := st.cseqNo * 10 + dval c }) := by
  unfold csStep
  rw [afb_notLWS_of_B hc, afb_isDigit_of_B hc, hs, dval_def]
  simp only [Bool.false_eq_true, if_false, if_true]

theorem afb_cs_run_big (b : Buf) (e : Nat) :
    ∀ (k i : Nat) (st : PCSeqBody), e - i = k → i ≤ e → e ≤ b.size → st.state = .foundDigit → st.cseqNo ≤ 4294967295 →
      AllDigits (digitsOf b i e) → decFrom st.cseqNo (digitsOf b i e) > 4294967295 →
      ∃ j st', i ≤ j ∧ j < e ∧ runLoop csMachine b i st = (j, .numTooBig, st') := by
  intro k
  induction k with
  | zero =>
    intro i st hk hie he hs hv hd hbig
    have : i = e := by omega
    subst this
    rw [digitsOf_self, decFrom_nil] at hbig
    omega
  | succ k ih =>
    intro i st hk hie he hs hv hd hbig
    have hlt : i < b.size := by omega
    have hb : b[i]? = some b[i] := Array.getElem?_eq_getElem hlt
    rw [afb_digitsOf_cons b i e b[i] hb (by omega)] at hd hbig
    have hc : IsDigitB b[i] := hd _ List.mem_cons_self
    have hstep := afb_csStep_digit b i b[i] st hc hs
    rw [decFrom_cons] at hbig
    by_cases hov : st.cseqNo * 10 + dval b[i] > 4294967295
    · rw [if_pos hov] at hstep
      exact ⟨i, st, Nat.le_refl _, by omega, runLoop_done csMachine hb hstep⟩
    · rw [if_neg hov] at hstep
      have hrun := runLoop_cont csMachine hb hstep
      rw [if_pos (Nat.lt_succ_self i)] at hrun
      obtain ⟨j, st', a1, a2, a3⟩ := ih (i + 1) { st with cseqNo := st.cseqNo * 10 + dval b[i] } (by omega) (by omega) he
        hs (by show st.cseqNo * 10 + dval b[i] ≤ 4294967295; omega)
        (fun x hx => hd x (List.mem_cons_of_mem _ hx)) hbig
      exact ⟨j, st', by omega, a2, by rw [hrun]; exact a3⟩

/-- **ParseCSeqVal resumed (or called) inside the number**: see `afb_uint_big_resumed` -/
theorem afb_cseq_big_resumed (b : Buf) (i e : Nat) (st : PCSeqBody) (hs : st.state = .foundDigit) (h : CsNum b i st)
    (hv : st.cseqNo ≤ 4294967295) (hie : i ≤ e) (he : e ≤ b.size) (hd : AllDigits (digitsOf b i e))
    (hbig : decOf (digitsOf b st.soffs e) > 4294967295) :
    ∃ j st', i ≤ j ∧ j < e ∧ parseCSeqVal b i st = (j, .numTooBig, st') := by
  obtain ⟨h1, _, h3⟩ := h.found hs
  unfold parseCSeqVal
  rw [if_neg (by rw [hs]; decide)]
  refine afb_cs_run_big b e (e - i) i st rfl hie he hs hv hd ?_
  rw [afb_digitsOf_split b st.soffs i e (by omega) hie, decOf, afb_decFrom_append, ← decOf, ← h3] at hbig
  exact hbig

theorem afb_cseq_big_rejected (b : Buf) (o e : Nat) (st : PCSeqBody) (hs : st.state = .init) (hoe : o < e)
    (he : e ≤ b.size) (hd : AllDigits (digitsOf b o e)) (hbig : decOf (digitsOf b o e) > 4294967295) :
    ∃ j st', o < j ∧ j < e ∧ parseCSeqVal b o st = (j, .numTooBig, st') := by
  have hlt : o < b.size := by omega
  have hb : b[o]? = some b[o] := Array.getElem?_eq_getElem hlt
  rw [afb_digitsOf_cons b o e b[o] hb hoe] at hd hbig
  have hc : IsDigitB b[o] := hd _ List.mem_cons_self
  have hstep : csStep b o b[o] st = .cont (o + 1) { st with state := .foundDigit, soffs := o, cseqNo := b[o].toNat - 48 } := by
    unfold csStep
    rw [afb_notLWS_of_B hc, afb_isDigit_of_B hc, hs]
    simp only [Bool.false_eq_true, if_false, if_true]
  have hrun := runLoop_cont csMachine hb hstep
  rw [if_pos (Nat.lt_succ_self o)] at hrun
  rw [decOf, decFrom_cons, dval_def] at hbig
  have h9 := hc.2
  obtain ⟨j, st', a1, a2, a3⟩ := afb_cs_run_big b e (e - (o + 1)) (o + 1)
    { st with state := .foundDigit, soffs := o, cseqNo := b[o].toNat - 48 } rfl (by omega) he rfl
    (by show b[o].toNat - 48 ≤ 4294967295; omega) (fun x hx => hd x (List.mem_cons_of_mem _ hx))
    (by simpa using hbig)
  refine ⟨j, st', by omega, a2, ?_⟩
  unfold parseCSeqVal
  rw [if_neg (by rw [hs]; decide), hrun]; exact a3

/-- **ParseCSeqVal, new object, optional leading spaces / tabs, then a digit string of value above 2^32-1**: rejected
    with NumTooBig at one of the digits, whatever follows them (method or not) -/
theorem afb_cseq_big_rejected_ws (b : Buf) (o i e : Nat) (st : PCSeqBody) (hs : st.state = .init) (hoi : o ≤ i)
    (hws : AfbWsRun b o i) (hie : i < e) (he : e ≤ b.size) (hd : AllDigits (digitsOf b i e))
    (hbig : decOf (digitsOf b i e) > 4294967295) :
    ∃ j st', i < j ∧ j < e ∧ parseCSeqVal b o st = (j, .numTooBig, st') := by
  rcases Nat.eq_or_lt_of_le hoi with heq | hlt
  · subst heq; exact afb_cseq_big_rejected b o e st hs hie he hd hbig
  · have hbi : b[i]? = some b[i] := Array.getElem?_eq_getElem (by omega)
    have hci : IsDigitB b[i] := by
      rw [afb_digitsOf_cons b i e b[i] hbi hie] at hd
      exact hd _ List.mem_cons_self
    obtain ⟨w, hw, hww⟩ := hws o (Nat.le_refl _) hlt
    have hstep : csStep b o w st = .cont i st := by
      unfold csStep
      rw [afb_isLWS_of_WS hww, hs]
      simp only [if_true]
      exact afb_lwsStd_ws_run b o i b[i] st (csEOH b) id hbi (afb_notWS_of_B hci).1 (afb_notWS_of_B hci).2 hoi hws
    have hrun := runLoop_cont csMachine hw hstep
    rw [if_pos hlt] at hrun
    obtain ⟨j, st', a1, a2, a3⟩ := afb_cseq_big_rejected b i e st hs hie he hd hbig
    refine ⟨j, st', a1, a2, ?_⟩
    unfold parseCSeqVal at a3 ⊢
    rw [if_neg (by rw [hs]; decide)] at a3 ⊢
    rw [hrun]; exact a3

/-! ### packaged: "exact AND in range", for new or legitimately suspended objects, and for every chunk schedule -/

/-- what a caller may legitimately pass to ParseUIntVal / ParseCLenVal: an offset inside the buffer and an object that
    is new (`afb_ClLegit_new`) or was returned with MoreBytes by a call on a prefix of the buffer (`afb_uint_more_legit`) -/
def AfbClLegit (b : Buf) (o : Nat) (st : PUIntBody) : Prop := o ≤ b.size ∧ ClNum b o st ∧ st.uiVal ≤ 4294967295

theorem afb_ClLegit_new (b : Buf) (o : Nat) (ho : o ≤ b.size) : AfbClLegit b o {} :=
  ⟨ho, ClNum_new b o, Nat.zero_le _⟩

/-- **C10 for ParseUIntVal (= ParseExpiresVal) at run level**: after OK the reported field is a non-empty digit string
    of the buffer, the reported number is exactly its decimal value, and it does not exceed 2^32-1 -/
theorem afb_uint_exact_in_range (b : Buf) (o : Nat) (st : PUIntBody) (hfit : b.size ≤ 65535) (h : AfbClLegit b o st)
    {o' : Nat} {st' : PUIntBody} (hr : parseUIntVal b o st = (o', .ok, st')) :
    NumDone b st'.sVal st'.uiVal ∧ st'.uiVal ≤ 4294967295 :=
  ⟨parseUIntVal_exact b o st hfit h.1 h.2.1 hr, afb_uint_ok_le b o st h.2.2 hr⟩

theorem afb_uint_more_legit (b s : Buf) (o : Nat) (st : PUIntBody) (hfit : b.size ≤ 65535) (h : AfbClLegit b o st)
    {o' : Nat} {st' : PUIntBody} (hr : parseUIntVal b o st = (o', .moreBytes, st')) : AfbClLegit (b ++ s) o' st' := by
  obtain ⟨a1, a2, _⟩ := afb_uint_more_inv b s o st hfit h.1 h.2.1 hr
  refine ⟨by rw [Array.size_append]; omega, a1, ?_⟩
  have := afb_parseUIntVal_u32 b o st h.2.2
  rw [hr] at this; exact this

/-- **C10 for ParseCLenVal at run level**: exact, at most 9 digits, at most 2^24 -/
theorem afb_clen_exact_in_range (b : Buf) (o : Nat) (st : PUIntBody) (hfit : b.size ≤ 65535) (h : AfbClLegit b o st)
    {o' : Nat} {st' : PUIntBody} (hr : parseCLenVal b o st = (o', .ok, st')) :
    NumDone b st'.sVal st'.uiVal ∧ st'.uiVal ≤ 16777216 ∧ st'.sVal.len ≤ 9 := by
  refine ⟨parseCLenVal_exact b o st hfit h.1 h.2.1 hr, ?_⟩
  unfold parseCLenVal at hr
  rcases hp : parseUIntVal b o st with ⟨o1, e1, s1⟩
  rw [hp] at hr
  cases e1 <;> simp only at hr
  case ok =>
    split at hr
    · cases hr
    · rename_i hn
      cases hr
      simp only [MaxCLenValueSize, MaxClenValue, Bool.or_eq_true, not_or] at hn
      have h1 : ¬ st'.sVal.len > 9 := by simpa using hn.1
      have h2 : ¬ st'.uiVal > 16777216 := by simpa using hn.2
      exact ⟨by omega, by omega⟩
  all_goals cases hr

theorem afb_clen_more_legit (b s : Buf) (o : Nat) (st : PUIntBody) (hfit : b.size ≤ 65535) (h : AfbClLegit b o st)
    {o' : Nat} {st' : PUIntBody} (hr : parseCLenVal b o st = (o', .moreBytes, st')) : AfbClLegit (b ++ s) o' st' := by
  obtain ⟨a1, a2, _⟩ := afb_clen_more_inv b s o st hfit h.1 h.2.1 hr
  refine ⟨by rw [Array.size_append]; omega, a1, ?_⟩
  have := afb_parseCLenVal_u32 b o st h.2.2
  rw [hr] at this; exact this

/-- what a caller may legitimately pass to ParseCSeqVal (not a finished object: passing one again returns it
    unchanged, see `finished_cseq`) -/
def AfbCsLegit (b : Buf) (o : Nat) (st : PCSeqBody) : Prop :=
  o ≤ b.size ∧ CsNum b o st ∧ st.cseqNo ≤ 4294967295 ∧ st.state ≠ .fin

theorem afb_CsLegit_new (b : Buf) (o : Nat) (ho : o ≤ b.size) : AfbCsLegit b o {} :=
  ⟨ho, CsNum_new b o, Nat.zero_le _, (fun hh => by cases hh)⟩

/-- **C10 for ParseCSeqVal at run level**: after OK the reported number field is a non-empty digit string of the
    buffer of at most 10 digits, the reported number is exactly its decimal value, and it does not exceed 2^32-1 -/
theorem afb_cseq_exact_in_range (b : Buf) (o : Nat) (st : PCSeqBody) (hfit : b.size ≤ 65535) (h : AfbCsLegit b o st)
    {o' : Nat} {st' : PCSeqBody} (hr : parseCSeqVal b o st = (o', .ok, st')) :
    NumDone b st'.cseq st'.cseqNo ∧ st'.cseqNo ≤ 4294967295 ∧ st'.cseq.len ≤ 10 :=
  ⟨parseCSeqVal_exact b o st hfit h.1 h.2.1 (fun hf => absurd hf h.2.2.2) hr,
   afb_cseq_ok_le b o st h.2.2.1 (fun hf => absurd hf h.2.2.2) hr⟩

theorem afb_cseq_more_legit (b s : Buf) (o : Nat) (st : PCSeqBody) (hfit : b.size ≤ 65535) (h : AfbCsLegit b o st)
    {o' : Nat} {st' : PCSeqBody} (hr : parseCSeqVal b o st = (o', .moreBytes, st')) : AfbCsLegit (b ++ s) o' st' := by
  obtain ⟨a1, a2, a3⟩ := afb_cseq_more_inv b s o st hfit h.1 h.2.1 hr
  refine ⟨by rw [Array.size_append]; omega, a1, ?_, a3⟩
  have := (afb_parseCSeqVal_range b o st h.2.2.1 (fun hf => absurd hf h.2.2.2)).1
  rw [hr] at this; exact this

/-- a post-condition of every single call from a legitimate state, the legitimacy being re-established at every
    suspension, holds of the caller's loop over any growing sequence of buffers, relative to the buffer of the call
    that produced the result -/
theorem afb_resumeRun_post {σ : Type} (P : Parser σ) (Inv : Buf → Nat → σ → Prop)
    (Q : Buf → Nat × Err × σ → Prop) (C : Buf → Prop)
    (hP : ∀ b o st, C b → Inv b o st → Q b (P b o st) ∧
      ((P b o st).2.1 = .moreBytes → ∀ s, Inv (b ++ s) (P b o st).1 (P b o st).2.2))
    (o : Nat) (st : σ) (l : List Buf) (hg : Growing l) (hC : ∀ x ∈ l, C x) (hne : l ≠ [])
    (h0 : ∀ b ∈ l.head?, Inv b o st) : ∃ b ∈ l, Q b (resumeRun P o st l) := by
  induction l generalizing o st with
  | nil => exact absurd rfl hne
  | cons b rest ih =>
    have hI : Inv b o st := h0 b (by simp)
    have hCb : C b := hC b List.mem_cons_self
    have hb := hP b o st hCb hI
    cases rest with
    | nil => exact ⟨b, List.mem_cons_self, hb.1⟩
    | cons b' rest' =>
      simp only [resumeRun]
      rcases hp : P b o st with ⟨o1, e1, s1⟩
      rw [hp] at hb
      have hdone : e1 ≠ .moreBytes → ∃ x ∈ b :: b' :: rest', Q x (o1, e1, s1) :=
        fun _ => ⟨b, List.mem_cons_self, hb.1⟩
      cases e1 <;> simp only <;> try exact hdone (by decide)
      have hinv := hb.2 rfl
      obtain ⟨s', hs'⟩ := growing_ext hg b' List.mem_cons_self
      obtain ⟨x, hx, hq⟩ := ih o1 s1 (growing_tail hg) (fun x hx => hC x (List.mem_cons_of_mem _ hx)) (by simp)
        (by intro x hx; simp at hx; subst hx; rw [hs']; exact hinv s')
      exact ⟨x, List.mem_cons_of_mem _ hx, hq⟩

/-- **ParseUIntVal under every chunk schedule from a new object**: if the chain of resumed calls ends with OK, the
    reported field is a digit string of the buffer of the call that finished, the number is its exact value, ≤ 2^32-1 -/
theorem afb_uint_schedule (o : Nat) (l : List Buf) (hg : Growing l) (hfit : ∀ x ∈ l, x.size ≤ 65535) (hne : l ≠ [])
    (h0 : ∀ b ∈ l.head?, o ≤ b.size) {o' : Nat} {st' : PUIntBody}
    (hr : resumeRun parseUIntVal o {} l = (o', .ok, st')) :
    ∃ b ∈ l, NumDone b st'.sVal st'.uiVal ∧ st'.uiVal ≤ 4294967295 := by
  have := afb_resumeRun_post parseUIntVal AfbClLegit
    (fun b r => r.2.1 = .ok → NumDone b r.2.2.sVal r.2.2.uiVal ∧ r.2.2.uiVal ≤ 4294967295) (fun b => b.size ≤ 65535)
    (fun b o st hC hI => ⟨fun he => afb_uint_exact_in_range b o st hC hI (o' := (parseUIntVal b o st).1) (by rw [← he]),
      fun he s => afb_uint_more_legit b s o st hC hI (by rw [← he])⟩)
    o {} l hg hfit hne (fun b hb => afb_ClLegit_new b o (h0 b hb))
  rw [hr] at this
  obtain ⟨b, hb, hq⟩ := this
  exact ⟨b, hb, hq rfl⟩

theorem afb_clen_schedule (o : Nat) (l : List Buf) (hg : Growing l) (hfit : ∀ x ∈ l, x.size ≤ 65535) (hne : l ≠ [])
    (h0 : ∀ b ∈ l.head?, o ≤ b.size) {o' : Nat} {st' : PUIntBody}
    (hr : resumeRun parseCLenVal o {} l = (o', .ok, st')) :
    ∃ b ∈ l, NumDone b st'.sVal st'.uiVal ∧ st'.uiVal ≤ 16777216 ∧ st'.sVal.len ≤ 9 := by
  have := afb_resumeRun_post parseCLenVal AfbClLegit
    (fun b r => r.2.1 = .ok → NumDone b r.2.2.sVal r.2.2.uiVal ∧ r.2.2.uiVal ≤ 16777216 ∧ r.2.2.sVal.len ≤ 9)
    (fun b => b.size ≤ 65535)
    (fun b o st hC hI => ⟨fun he => afb_clen_exact_in_range b o st hC hI (o' := (parseCLenVal b o st).1) (by rw [← he]),
      fun he s => afb_clen_more_legit b s o st hC hI (by rw [← he])⟩)
    o {} l hg hfit hne (fun b hb => afb_ClLegit_new b o (h0 b hb))
  rw [hr] at this
  obtain ⟨b, hb, hq⟩ := this
  exact ⟨b, hb, hq rfl⟩

theorem afb_cseq_schedule (o : Nat) (l : List Buf) (hg : Growing l) (hfit : ∀ x ∈ l, x.size ≤ 65535) (hne : l ≠ [])
    (h0 : ∀ b ∈ l.head?, o ≤ b.size) {o' : Nat} {st' : PCSeqBody}
    (hr : resumeRun parseCSeqVal o {} l = (o', .ok, st')) :
    ∃ b ∈ l, NumDone b st'.cseq st'.cseqNo ∧ st'.cseqNo ≤ 4294967295 ∧ st'.cseq.len ≤ 10 := by
  have := afb_resumeRun_post parseCSeqVal AfbCsLegit
    (fun b r => r.2.1 = .ok → NumDone b r.2.2.cseq r.2.2.cseqNo ∧ r.2.2.cseqNo ≤ 4294967295 ∧ r.2.2.cseq.len ≤ 10)
    (fun b => b.size ≤ 65535)
    (fun b o st hC hI => ⟨fun he => afb_cseq_exact_in_range b o st hC hI (o' := (parseCSeqVal b o st).1) (by rw [← he]),
      fun he s => afb_cseq_more_legit b s o st hC hI (by rw [← he])⟩)
    o {} l hg hfit hne (fun b hb => afb_CsLegit_new b o (h0 b hb))
  rw [hr] at this
  obtain ⟨b, hb, hq⟩ := this
  exact ⟨b, hb, hq rfl⟩

/-! ### (A) tests / non-vacuity: the general theorems instantiated on concrete inputs (closed computations by
    `decide +kernel`; these are examples, not the general claims) -/

/-- "  4711 CRLF X" -/
def afbBufClen : Buf := #[32, 32, 52, 55, 49, 49, 13, 10, 88]
/-- "42 INVITE CRLF X" -/
def afbBufCSeq : Buf := #[52, 50, 32, 73, 78, 86, 73, 84, 69, 13, 10, 88]
/-- " 4294967296 CRLF X": 2^32 -/
def afbBufBig : Buf := #[32, 52, 50, 57, 52, 57, 54, 55, 50, 57, 54, 13, 10, 88]

/-- test: `uint_value_exact` (`parseUIntVal_exact`) + range on a concrete run from a new object -/
example : NumDone afbBufClen ⟨2, 4⟩ 4711 ∧ 4711 ≤ 4294967295 := by
  have hr : parseUIntVal afbBufClen 0 {} = (8, .ok, { uiVal := 4711, sVal := ⟨2, 4⟩, state := .fin }) := by
    decide +kernel
  exact afb_uint_exact_in_range afbBufClen 0 {} (by decide) (afb_ClLegit_new _ 0 (by decide)) hr

/-- test: `clen_value_exact` (`parseCLenVal_exact`) + range -/
example : NumDone afbBufClen ⟨2, 4⟩ 4711 ∧ 4711 ≤ 16777216 ∧ (⟨2, 4⟩ : PField).len ≤ 9 := by
  have hr : parseCLenVal afbBufClen 0 {} = (8, .ok, { uiVal := 4711, sVal := ⟨2, 4⟩, state := .fin }) := by
    decide +kernel
  exact afb_clen_exact_in_range afbBufClen 0 {} (by decide) (afb_ClLegit_new _ 0 (by decide)) hr

/-- test: `cseq_value_exact` (`parseCSeqVal_exact`) + range -/
example : NumDone afbBufCSeq (parseCSeqVal afbBufCSeq 0 {}).2.2.cseq 42 := by
  have hr : parseCSeqVal afbBufCSeq 0 {} = (11, .ok, (parseCSeqVal afbBufCSeq 0 {}).2.2) := by decide +kernel
  have hv : (parseCSeqVal afbBufCSeq 0 {}).2.2.cseqNo = 42 := by decide +kernel
  have := (afb_cseq_exact_in_range afbBufCSeq 0 {} (by decide) (afb_CsLegit_new _ 0 (by decide)) hr).1
  rw [hv] at this; exact this

/-- test: a suspended object ("  47", then the rest): the resumed call meets the hypotheses by `afb_clen_more_legit` -/
example : NumDone afbBufClen ⟨2, 4⟩ 4711 ∧ 4711 ≤ 16777216 ∧ (⟨2, 4⟩ : PField).len ≤ 9 := by
  have h1 : parseCLenVal #[32, 32, 52, 55] 0 {} = (4, .moreBytes, { uiVal := 47, state := .found, soffs := 2 }) := by
    decide +kernel
  have hl := afb_clen_more_legit #[32, 32, 52, 55] #[49, 49, 13, 10, 88] 0 {} (by decide) (afb_ClLegit_new _ 0 (by decide)) h1
  have h2 : parseCLenVal (#[32, 32, 52, 55] ++ #[49, 49, 13, 10, 88]) 4 { uiVal := 47, state := .found, soffs := 2 } =
      (8, .ok, { uiVal := 4711, sVal := ⟨2, 4⟩, state := .fin }) := by decide +kernel
  exact afb_clen_exact_in_range _ 4 _ (by decide) hl h2

/-- test: the hypotheses of the rejection theorem are satisfiable: 2^32 after one space -/
example : ∃ j st', 1 < j ∧ j < 11 ∧ parseUIntVal afbBufBig 0 {} = (j, .numTooBig, st') := by
  refine afb_uint_big_rejected_ws afbBufBig 0 1 11 {} rfl (by decide) ?_ (by decide) (by decide) ?_ (by decide +kernel)
  · intro k h1 h2
    have : k = 0 := by omega
    subst this; exact ⟨32, by decide, by decide⟩
  · intro c hc
    have : c ∈ [52, 50, 57, 52, 57, 54, 55, 50, 57, 54] := by
      have h : digitsOf afbBufBig 1 11 = [52, 50, 57, 52, 57, 54, 55, 50, 57, 54] := by decide +kernel
      rw [h] at hc; exact hc
    simp only [List.mem_cons, List.not_mem_nil, or_false] at this
    rcases this with h | h | h | h | h | h | h | h | h | h <;> (subst h; unfold IsDigitB; decide)

/-- test: the concrete verdict -/
example : (parseUIntVal afbBufBig 0 {}).2.1 = .numTooBig ∧ (parseCSeqVal afbBufBig 0 {}).2.1 = .numTooBig := by
  decide +kernel

/-! ### complete behaviour on the canonical input: [spaces] digits CR LF non-continuation -/

/-- the loop inside a number whose value fits: it runs through all the digits, accumulating the value -/
theorem afb_cl_run_fit (b : Buf) (e : Nat) :
    ∀ (k i : Nat) (st : PUIntBody), e - i = k → i ≤ e → e ≤ b.size → st.state = .found →
      AllDigits (digitsOf b i e) → decFrom st.uiVal (digitsOf b i e) ≤ 4294967295 →
      runLoop clMachine b i st = runLoop clMachine b e { st with uiVal := decFrom st.uiVal (digitsOf b i e) } := by
  intro k
  induction k with
  | zero =>
    intro i st hk hie he hs hd hfitv
    have : i = e := by omega
    subst this
    rw [digitsOf_self, decFrom_nil]
  | succ k ih =>
    intro i st hk hie he hs hd hfitv
    have hlt : i < b.size := by omega
    have hb : b[i]? = some b[i] := Array.getElem?_eq_getElem hlt
    rw [afb_digitsOf_cons b i e b[i] hb (by omega)] at hd hfitv ⊢
    have hc : IsDigitB b[i] := hd _ List.mem_cons_self
    have hstep := afb_clStep_digit b i b[i] st hc hs
    rw [decFrom_cons] at hfitv ⊢
    have hge := decFrom_ge (st.uiVal * 10 + dval b[i]) (digitsOf b (i + 1) e)
    rw [if_neg (by omega)] at hstep
    have hrun := runLoop_cont clMachine hb hstep
    rw [if_pos (Nat.lt_succ_self i)] at hrun
    rw [hrun]
    exact ih (i + 1) { st with uiVal := st.uiVal * 10 + dval b[i] } (by omega) (by omega) he hs
      (fun x hx => hd x (List.mem_cons_of_mem _ hx)) hfitv

/-- a proper end of the header value at `e`: CR LF followed by a byte that does not continue the line -/
def AfbTerm (b : Buf) (e : Nat) : Prop :=
  b[e]? = some 13 ∧ b[e + 1]? = some 10 ∧ ∃ c2, b[e + 2]? = some c2 ∧ isWS c2 = false

theorem afb_skipLWS_term (b : Buf) (e : Nat) (h : AfbTerm b e) : skipLWS b e 0 = (e, 2, .eoh) := by
  obtain ⟨h0, h1, c2, h2, hw⟩ := h
  have hs : skipCRLF b e = (e + 2, 2, .ok) := by
    unfold skipCRLF
    simp [h1, h0]
  exact skipLWS_crlf_eoh h0 (by decide) (by decide) hs h2 hw

/-- the object at the successful end of a number that began at `st.soffs` and ends before `e` -/
def afbClFin (st : PUIntBody) (e : Nat) : PUIntBody :=
  { st with sVal := PField.set st.soffs e, pnc := st.pnc || PField.setPanics st.soffs e, state := .fin, soffs := 0 }

theorem afb_cl_term (b : Buf) (e : Nat) (st : PUIntBody) (hs : st.state = .found) (h : AfbTerm b e) :
    runLoop clMachine b e st = (e + 2, .ok, afbClFin st e) := by
  have hstep : clStep b e 13 st = .done (e + 2) .ok (afbClFin st e) := by
    unfold clStep
    rw [show isLWSch (13 : UInt8) = true by decide, hs]
    simp only [if_true]
    unfold lwsStd
    rw [afb_skipLWS_term b e h]
    rfl
  exact runLoop_done clMachine h.1 hstep

theorem afb_cl_skip_ws (b : Buf) (o i : Nat) (st : PUIntBody) (hs : st.state = .init) (hoi : o ≤ i)
    (hws : AfbWsRun b o i) (hbi : ∃ c, b[i]? = some c ∧ IsDigitB c) :
    runLoop clMachine b o st = runLoop clMachine b i st := by
  rcases Nat.eq_or_lt_of_le hoi with heq | hlt
  · subst heq; rfl
  · obtain ⟨c, hc, hcd⟩ := hbi
    obtain ⟨w, hw, hww⟩ := hws o (Nat.le_refl _) hlt
    have hstep : clStep b o w st = .cont i st := by
      unfold clStep
      rw [afb_isLWS_of_WS hww, hs]
      simp only [if_true]
      exact afb_lwsStd_ws_run b o i c st clEOH id hc (afb_notWS_of_B hcd).1 (afb_notWS_of_B hcd).2 hoi hws
    have hrun := runLoop_cont clMachine hw hstep
    rw [if_pos hlt] at hrun
    exact hrun

theorem afb_cl_first_digit (b : Buf) (i : Nat) (c : UInt8) (st : PUIntBody) (hs : st.state = .init)
    (hb : b[i]? = some c) (hc : IsDigitB c) :
    runLoop clMachine b i st = runLoop clMachine b (i + 1) { st with state := .found, soffs := i, uiVal := c.toNat - 48 } := by
  have hstep : clStep b i c st = .cont (i + 1) { st with state := .found, soffs := i, uiVal := c.toNat - 48 } := by
    unfold clStep
    rw [afb_notLWS_of_B hc, afb_isDigit_of_B hc, hs]
    simp only [Bool.false_eq_true, if_false, if_true]
  have hrun := runLoop_cont clMachine hb hstep
  rw [if_pos (Nat.lt_succ_self i)] at hrun
  exact hrun

/-- **ParseUIntVal on the canonical input, complete**: a new object; optional spaces / tabs `[o, i)`; a non-empty digit
    string `[i, e)`; CR LF and a byte that does not continue the line.  If the value fits 32 bits the call returns OK
    just after the CR LF with exactly that value and the field `[i, e)`; otherwise NumTooBig at one of the digits. -/
theorem afb_uint_canonical (b : Buf) (o i e : Nat) (hoi : o ≤ i) (hws : AfbWsRun b o i) (hie : i < e)
    (hd : AllDigits (digitsOf b i e)) (ht : AfbTerm b e) :
    (decOf (digitsOf b i e) ≤ 4294967295 →
      parseUIntVal b o {} = (e + 2, .ok, { uiVal := decOf (digitsOf b i e), sVal := PField.set i e, state := .fin })) ∧
    (decOf (digitsOf b i e) > 4294967295 → ∃ j st', i < j ∧ j < e ∧ parseUIntVal b o {} = (j, .numTooBig, st')) := by
  have he : e ≤ b.size := Nat.le_of_lt (get?_lt ht.1)
  refine ⟨fun hv => ?_, fun hv => afb_uint_big_rejected_ws b o i e {} rfl hoi hws hie he hd hv⟩
  have hbi : b[i]? = some b[i] := Array.getElem?_eq_getElem (by omega)
  have hd' := hd
  rw [afb_digitsOf_cons b i e b[i] hbi hie] at hd'
  have hci : IsDigitB b[i] := hd' _ List.mem_cons_self
  have hval : decOf (digitsOf b i e) = decFrom (b[i].toNat - 48) (digitsOf b (i + 1) e) := by
    rw [afb_digitsOf_cons b i e b[i] hbi hie, decOf, decFrom_cons, dval_def]; simp
  unfold parseUIntVal
  rw [if_neg (by decide), afb_cl_skip_ws b o i {} rfl hoi hws ⟨b[i], hbi, hci⟩,
    afb_cl_first_digit b i b[i] {} rfl hbi hci,
    afb_cl_run_fit b e (e - (i + 1)) (i + 1) _ rfl (by omega) he rfl
      (fun x hx => hd' x (List.mem_cons_of_mem _ hx)) (by rw [← hval]; exact hv),
    afb_cl_term b e _ rfl ht]
  have hp : PField.setPanics i e = false := by unfold PField.setPanics; simp; omega
  simp only [afbClFin, hp, ← hval, Bool.or_false]

/-- **ParseCLenVal on the canonical input, complete** (buffer within the 65,535-byte limit): OK with the exact value
    and field iff the value is at most 2^24 and written with at most 9 digits; NumTooBig otherwise -/
theorem afb_clen_canonical (b : Buf) (o i e : Nat) (hfit : b.size ≤ 65535) (hoi : o ≤ i) (hws : AfbWsRun b o i)
    (hie : i < e) (hd : AllDigits (digitsOf b i e)) (ht : AfbTerm b e) :
    (decOf (digitsOf b i e) ≤ 16777216 ∧ e - i ≤ 9 →
      parseCLenVal b o {} = (e + 2, .ok, { uiVal := decOf (digitsOf b i e), sVal := PField.set i e, state := .fin })) ∧
    (¬ (decOf (digitsOf b i e) ≤ 16777216 ∧ e - i ≤ 9) → (parseCLenVal b o {}).2.1 = .numTooBig) := by
  have he : e ≤ b.size := Nat.le_of_lt (get?_lt ht.1)
  have hcan := afb_uint_canonical b o i e hoi hws hie hd ht
  have hset : PField.set i e = ⟨i, e - i⟩ := pfield_set_eq i e (by omega) (by omega)
  constructor
  · intro hv
    unfold parseCLenVal
    rw [hcan.1 (by omega)]
    simp only [hset, MaxCLenValueSize, MaxClenValue]
    rw [if_neg]
    simp
    omega
  · intro hv
    by_cases hbig : decOf (digitsOf b i e) ≤ 4294967295
    · unfold parseCLenVal
      rw [hcan.1 hbig]
      simp only [hset, MaxCLenValueSize, MaxClenValue]
      rw [if_pos]
      simp
      omega
    · obtain ⟨j, st', _, _, h3⟩ := hcan.2 (by omega)
      unfold parseCLenVal
      rw [h3]

/-- the CSeq end-of-header code rejects a number field longer than 10 bytes (e.g. leading zeros) with NumTooBig -/
theorem afb_csFinish_long (st : PCSeqBody) (b : Buf) (n crl : Nat) (h : st.cseq.len > 10 ∨ st.cseqNo > 4294967295) :
    (csFinish st b n crl).2.1 = .numTooBig := by
  unfold csFinish
  simp only
  rw [if_pos]
  simp [MaxCSeqNValueSize]
  exact h

/-- test: the canonical theorem instantiated: "  4711 CR LF X" -/
example : parseCLenVal afbBufClen 0 {} = (8, .ok, { uiVal := 4711, sVal := PField.set 2 6, state := .fin }) := by
  have hd : digitsOf afbBufClen 2 6 = [52, 55, 49, 49] := by decide +kernel
  have hv : decOf (digitsOf afbBufClen 2 6) = 4711 := by decide +kernel
  have := (afb_clen_canonical afbBufClen 0 2 6 (by decide) (by decide)
    (by intro k _ h2
        have : k = 0 ∨ k = 1 := by omega
        rcases this with rfl | rfl <;> exact ⟨32, by decide, by decide⟩)
    (by decide)
    (by rw [hd]; intro c hc
        simp only [List.mem_cons, List.not_mem_nil, or_false] at hc
        rcases hc with h | h | h | h <;> (subst h; unfold IsDigitB; decide))
    ⟨by decide, by decide, 88, by decide, by decide⟩).1 (by rw [hv]; decide)
  rw [hv] at this; exact this

/-- test: 16777217 = 2^24 + 1 is rejected by ParseCLenVal but accepted by ParseUIntVal (Expires) -/
example : (parseCLenVal #[49, 54, 55, 55, 55, 50, 49, 55, 13, 10, 88] 0 {}).2.1 = .numTooBig ∧
    (parseUIntVal #[49, 54, 55, 55, 55, 50, 49, 55, 13, 10, 88] 0 {}).2.1 = .ok ∧
    (parseUIntVal #[49, 54, 55, 55, 55, 50, 49, 55, 13, 10, 88] 0 {}).2.2.uiVal = 16777217 := by decide +kernel

/-! ## (B) C12: Reset / Init make a used object behave like a new one

  In the model the result of a call is a function of (buffer, offset, flags, object), so "behaves like a new object on
  every later input" is: the object after Reset / Init EQUALS the new object (then every later call returns the same). -/

/-! ### (B i) PSIPMsg, no side condition: every object reachable by ANY history -/

/-- the new message object: header array of `kh` cleared entries, contact array of `kc` cleared entries; `len` is the
    length of the retained `Buf` slice (the parser never reads it, see `afb_parseSIPMsg_bufLen`) -/
def afbNewMsg (len kh kc : Nat) : PSIPMsg :=
  { bufLen := len, hl := { hdrs := Array.replicate kh {} }, pv := { contacts := { vals := Array.replicate kc {} } } }

/-- `afbNewMsg` is what Init produces from ANY object given cleared caller arrays -/
theorem afb_newMsg_eq_init (m0 : PSIPMsg) (len kh kc : Nat) :
    m0.init len (some (Array.replicate kh {})) (some (Array.replicate kc {})) = afbNewMsg len kh kc := rfl

/-- **PSIPMsg.Init, EVERY object `m` (reachable or not), every argument**: the result does not depend on `m` at all; it
    is the zero object over the GIVEN arrays (`none` = nil: the private 10-element arrays, which the Reset inside Init
    has just zeroed).  Init does not clear the caller's arrays: the result is the new object iff they are cleared. -/
theorem afb_msg_init_any (m : PSIPMsg) (len : Nat) (hdrs : Option (Array Hdr)) (cts : Option (Array PFromBody)) :
    m.init len hdrs cts =
      { bufLen := len, hl := { hdrs := hdrs.getD (Array.replicate 10 {}) },
        pv := { contacts := { vals := cts.getD (Array.replicate 10 {}) } } } := rfl

theorem afb_msg_init_indep (m m' : PSIPMsg) (len : Nat) (hdrs : Option (Array Hdr)) (cts : Option (Array PFromBody)) :
    m.init len hdrs cts = m'.init len hdrs cts := rfl

/-- **Init of any used object with cleared arrays behaves like new**: every later call — any buffer, offset, flags —
    returns what it returns on the new object -/
theorem afb_msg_init_like_new (m : PSIPMsg) (len kh kc : Nat) (b : Buf) (o flags : Nat) :
    parseSIPMsg b o (m.init len (some (Array.replicate kh {})) (some (Array.replicate kc {}))) flags =
      parseSIPMsg b o (afbNewMsg len kh kc) flags := rfl

/-- **C12 for PSIPMsg.Reset, no side condition**: for every object reachable by any history of Init (cleared arrays or
    nil) / ParseSIPMsg (any buffer, offset, flags, verdict) / Reset calls, Reset gives literally the new object with
    the same array capacities -/
theorem afb_msg_reset_reach {m : PSIPMsg} (hR : ScReach m) :
    m.reset = afbNewMsg m.bufLen m.hl.hdrs.size m.pv.contacts.vals.size := by
  rw [sc_reset_after_history hR]; rfl

/-- … hence for EVERY later buffer / offset / flags the call on the Reset object returns what it returns on the new
    object: "behaves like new" -/
theorem afb_msg_reset_like_new {m : PSIPMsg} (hR : ScReach m) (b : Buf) (o flags : Nat) :
    parseSIPMsg b o m.reset flags = parseSIPMsg b o (afbNewMsg m.bufLen m.hl.hdrs.size m.pv.contacts.vals.size) flags := by
  rw [afb_msg_reset_reach hR]

/-- … and so does every chain of resumed calls (every chunk schedule) -/
theorem afb_msg_reset_like_new_schedule {m : PSIPMsg} (hR : ScReach m) (flags o : Nat) (l : List Buf) :
    resumeRun (fun b o m => parseSIPMsg b o m flags) o m.reset l =
      resumeRun (fun b o m => parseSIPMsg b o m flags) o
        (afbNewMsg m.bufLen m.hl.hdrs.size m.pv.contacts.vals.size) l := by
  rw [afb_msg_reset_reach hR]

/-- the same with Init in place of Reset, the caller handing back the object's own (just cleared) arrays — what the
    driver's op `I` does: the new object -/
theorem afb_msg_reinit_reach {m : PSIPMsg} (hR : ScReach m) (len : Nat) :
    m.init len (some m.reset.hl.hdrs) (some m.reset.pv.contacts.vals) =
      afbNewMsg len m.hl.hdrs.size m.pv.contacts.vals.size := by
  rw [afb_msg_reset_reach hR]; rfl

/-- the objects produced by Reset / Init are again reachable (the statements iterate) -/
theorem afb_reach_reset {m : PSIPMsg} (hR : ScReach m) : ScReach m.reset := ScReach.reset hR

theorem afb_reach_newMsg (len kh kc : Nat) : ScReach (afbNewMsg len kh kc) := by
  have := ScReach.init ({} : PSIPMsg) len kh kc (some ()) (some ())
  exact this

/-! #### the retained buffer length is write-only for the parser -/

/-- same offset, same verdict, objects equal up to the retained buffer length — and equal after OK -/
def AfbLenEq (r1 r2 : Nat × Err × PSIPMsg) : Prop :=
  r1.1 = r2.1 ∧ r1.2.1 = r2.2.1 ∧ ({ r1.2.2 with bufLen := 0 } : PSIPMsg) = { r2.2.2 with bufLen := 0 } ∧
    (r2.2.1 = .ok → r1.2.2 = r2.2.2)

theorem afb_msgEnd_bufLen (m : PSIPMsg) (b : Buf) (o x : Nat) : msgEnd { m with bufLen := x } b o = msgEnd m b o := rfl

theorem afb_lenEq_refl (r : Nat × Err × PSIPMsg) : AfbLenEq r r := ⟨rfl, rfl, rfl, fun _ => rfl⟩

theorem afb_msgErr_lenEq (m : PSIPMsg) (o : Nat) (e : Err) (flags x : Nat) (he : e ≠ .ok) :
    AfbLenEq (msgErr { m with bufLen := x } o e flags) (msgErr m o e flags) := by
  unfold msgErr
  split
  · exact ⟨rfl, rfl, rfl, fun hh => absurd hh he⟩
  · split
    · exact ⟨rfl, rfl, rfl, fun hh => by cases hh⟩
    · exact ⟨rfl, rfl, rfl, fun hh => absurd hh he⟩

theorem afb_msgBody_lenEq (b : Buf) (o : Nat) (m : PSIPMsg) (flags x : Nat) :
    AfbLenEq (msgBody b o { m with bufLen := x } flags) (msgBody b o m flags) := by
  unfold msgBody
  simp only
  split
  · split
    · exact ⟨rfl, rfl, rfl, fun hh => by cases hh⟩
    · exact afb_lenEq_refl _
  · split
    · split
      · split
        · exact afb_lenEq_refl _
        · exact ⟨rfl, rfl, rfl, fun hh => by cases hh⟩
      · exact afb_lenEq_refl _
    · split <;> exact afb_lenEq_refl _

theorem afb_msgHeaders_lenEq (b : Buf) (o : Nat) (m : PSIPMsg) (flags x : Nat) :
    AfbLenEq (msgHeaders b o { m with bufLen := x } flags) (msgHeaders b o m flags) := by
  unfold msgHeaders
  simp only
  rcases hp : parseHeaders b o m.hl (some m.pv) with ⟨o1, e1, hl1, hb1⟩
  cases e1 <;> simp only
  case ok => exact afb_msgBody_lenEq b o1 { m with hl := hl1, pv := hb1.getD m.pv, state := .body } flags x
  all_goals exact afb_msgErr_lenEq { m with hl := hl1, pv := hb1.getD m.pv } o1 _ flags x (by decide)

theorem afb_msgFLine_lenEq (b : Buf) (o : Nat) (m : PSIPMsg) (flags x : Nat) :
    AfbLenEq (msgFLine b o { m with bufLen := x } flags) (msgFLine b o m flags) := by
  unfold msgFLine
  simp only
  rcases hp : parseFLine b o m.fl with ⟨o1, e1, fl1⟩
  cases e1 <;> simp only
  case ok => exact afb_msgHeaders_lenEq b o1 { m with fl := fl1, state := .headers } flags x
  all_goals exact afb_msgErr_lenEq { m with fl := fl1 } o1 _ flags x (by decide)

theorem afb_parseSIPMsg_bufLen (b : Buf) (o : Nat) (m : PSIPMsg) (flags x : Nat) :
    AfbLenEq (parseSIPMsg b o { m with bufLen := x } flags) (parseSIPMsg b o m flags) := by
  unfold parseSIPMsg
  simp only
  split
  · exact afb_msgFLine_lenEq b o { m with offs := o, state := .fline } flags x
  · exact afb_msgFLine_lenEq b o m flags x
  · exact afb_msgHeaders_lenEq b o m flags x
  · exact afb_msgBody_lenEq b o m flags x
  · exact afb_msgErr_lenEq m o _ flags x (by decide)

/-- **Reset of a reachable object against the new object with NO retained buffer** (what the driver's `msg` creates):
    every later call returns the same offset and verdict, the same object up to the length of the retained `Buf`
    slice, and after OK the very same object -/
theorem afb_msg_reset_like_new0 {m : PSIPMsg} (hR : ScReach m) (b : Buf) (o flags : Nat) :
    AfbLenEq (parseSIPMsg b o m.reset flags)
      (parseSIPMsg b o (afbNewMsg 0 m.hl.hdrs.size m.pv.contacts.vals.size) flags) := by
  rw [afb_msg_reset_reach hR]
  exact afb_parseSIPMsg_bufLen b o (afbNewMsg 0 m.hl.hdrs.size m.pv.contacts.vals.size) flags m.bufLen

/-! ### (B i') PHdrVals / PContacts used stand-alone (ParseHdrLine / ParseHeaders with a header-values object,
    ParseAllContactValues), no side condition: every object reachable by any history -/

/-- the new header-values object over a cleared contact array of `kc` entries -/
def afbNewHv (kc : Nat) : PHdrVals := { contacts := { vals := Array.replicate kc {} } }

/-- the life of a header-values object: new / Init with a cleared array, then any sequence of Reset, ParseHdrLine and
    ParseHeaders calls (any buffer, offset, header object / list, verdict) -/
inductive AfbHvReach : PHdrVals → Prop
  | new (kc : Nat) : AfbHvReach (afbNewHv kc)
  | init (hv : PHdrVals) (kc : Nat) : AfbHvReach (hv.init (Array.replicate kc {}))
  | reset {hv : PHdrVals} : AfbHvReach hv → AfbHvReach hv.reset
  | hdrline {hv hv' : PHdrVals} (b : Buf) (o : Nat) (h : Hdr) : AfbHvReach hv →
      (parseHdrLine b o h (some hv)).2.2.2 = some hv' → AfbHvReach hv'
  | headers {hv hv' : PHdrVals} (b : Buf) (o : Nat) (hl : HdrLst) : AfbHvReach hv →
      (parseHeaders b o hl (some hv)).2.2.2 = some hv' → AfbHvReach hv'

theorem afb_hv_reset_of_tail (hv : PHdrVals) (H : TailZero hv.contacts.vals {} hv.contacts.n) :
    hv.reset = afbNewHv hv.contacts.vals.size := by
  have h2 : hv.reset.contacts.vals = Array.replicate hv.contacts.vals.size {} :=
    clearUpToP_of_tailZero hv.contacts.vals {} hv.contacts.n H
  unfold PHdrVals.reset PContacts.reset afbNewHv
  unfold PHdrVals.reset PContacts.reset at h2
  simp only at h2
  rw [h2]

theorem AfbHvReach.inv {hv : PHdrVals} (h : AfbHvReach hv) : TailZero hv.contacts.vals {} hv.contacts.n := by
  induction h with
  | new kc => exact tailZero_new ({} : PFromBody) kc 0
  | init hv kc => exact tailZero_new ({} : PFromBody) kc 0
  | @reset hv _ ih => rw [afb_hv_reset_of_tail hv ih]; exact tailZero_new ({} : PFromBody) _ 0
  | hdrline b o h _ hr ih => exact sc_ct_parseHdrLine b o h _ (ScHb_some ih) _ hr
  | headers b o hl _ hr ih => exact sc_ct_parseHeaders b o hl _ (ScHb_some ih) _ hr

/-- **C12 for PHdrVals.Reset, no side condition** -/
theorem afb_hv_reset_reach {hv : PHdrVals} (hR : AfbHvReach hv) : hv.reset = afbNewHv hv.contacts.vals.size :=
  afb_hv_reset_of_tail hv hR.inv

/-- … behaves like new in every later ParseHdrLine / ParseHeaders call -/
theorem afb_hv_reset_like_new {hv : PHdrVals} (hR : AfbHvReach hv) (b : Buf) (o : Nat) :
    (∀ h : Hdr, parseHdrLine b o h (some hv.reset) = parseHdrLine b o h (some (afbNewHv hv.contacts.vals.size))) ∧
    (∀ hl : HdrLst, parseHeaders b o hl (some hv.reset) = parseHeaders b o hl (some (afbNewHv hv.contacts.vals.size))) := by
  rw [afb_hv_reset_reach hR]; exact ⟨fun _ => rfl, fun _ => rfl⟩

/-- the new contacts object over a cleared array of `kc` entries -/
def afbNewCt (kc : Nat) : PContacts := { vals := Array.replicate kc {} }

/-- the life of a stand-alone contacts object -/
inductive AfbCtReach : PContacts → Prop
  | new (kc : Nat) : AfbCtReach (afbNewCt kc)
  | reset {c : PContacts} : AfbCtReach c → AfbCtReach c.reset
  | parse {c : PContacts} (b : Buf) (o : Nat) : AfbCtReach c → AfbCtReach (parseAllContactValues b o c).2.2

theorem afb_ct_reset_of_tail (c : PContacts) (H : TailZero c.vals {} c.n) : c.reset = afbNewCt c.vals.size := by
  have h2 : c.reset.vals = Array.replicate c.vals.size {} := clearUpToP_of_tailZero c.vals {} c.n H
  unfold PContacts.reset afbNewCt
  unfold PContacts.reset at h2
  simp only at h2
  rw [h2]

theorem AfbCtReach.inv {c : PContacts} (h : AfbCtReach c) : TailZero c.vals {} c.n := by
  induction h with
  | new kc => exact tailZero_new ({} : PFromBody) kc 0
  | @reset c _ ih => rw [afb_ct_reset_of_tail c ih]; exact tailZero_new ({} : PFromBody) _ 0
  | parse b o _ ih => exact sc_ct_parseAll b o _ ih

/-- **C12 for PContacts.Reset, no side condition**, and "behaves like new" -/
theorem afb_ct_reset_reach {c : PContacts} (hR : AfbCtReach c) : c.reset = afbNewCt c.vals.size :=
  afb_ct_reset_of_tail c hR.inv

theorem afb_ct_reset_like_new {c : PContacts} (hR : AfbCtReach c) (b : Buf) (o : Nat) :
    parseAllContactValues b o c.reset = parseAllContactValues b o (afbNewCt c.vals.size) := by
  rw [afb_ct_reset_reach hR]

/-! ### (B ii) the object types whose Go `Reset` is `*x = T{}`

  PFLine, PFromBody, PCSeqBody, PCallIDBody, PUIntBody, PTokParam, Hdr, PsipURI (and URIParam, whose Reset assigns the
  zero value to both of its fields; PPAIs too).  Checked against /repo: parse_fline.go, parse_from.go, parse_cseq.go,
  parse_callid.go, parse_clen.go, parse_params.go, parse_headers.go, sipuri.go, parse_uri_params.go, parse_pai.go.

  HONEST STATUS.  Except for `PPAIs.reset` the MODEL HAS NO Reset FUNCTION for these types: wherever Go calls such a
  Reset the model writes the literal `{}` — the driver's op `R` (`Exec.doReset`) substitutes `{}` for a stand-alone
  object, `HdrLst.reset` maps every slot to `{}`, the list Resets store `{}` in the slots they clear.  "Reset gives
  the new object whatever the previous state" therefore holds BY CONSTRUCTION of the model: the statements below are
  definitional (`rfl`) and say exactly that; their content lies in the differential check that ties the driver to
  the Go code (an `R` line followed by any parse is compared with Go), not in a proof. -/

/-- the one model function of this kind: `PPAIs.reset` returns the zero object for EVERY argument -/
theorem afb_pais_reset (c : PPAIs) : c.reset = {} := rfl

/-- the driver's Reset of a stand-alone object of these types is the substitution of the zero object, whatever the
    object was (definitional) -/
theorem afb_driver_reset_simple :
    (∀ x : PFLine, Exec.doReset (.fline x) = .fline {}) ∧
    (∀ (t : Nat) (x : PFromBody), Exec.doReset (.nameaddr t x) = .nameaddr t {}) ∧
    (∀ x : PFromBody, Exec.doReset (.pai1 x) = .pai1 {}) ∧
    (∀ x : PCSeqBody, Exec.doReset (.cseq x) = .cseq {}) ∧
    (∀ x : PCallIDBody, Exec.doReset (.callid x) = .callid {}) ∧
    (∀ x : PUIntBody, Exec.doReset (.uint x) = .uint {}) ∧
    (∀ x : PUIntBody, Exec.doReset (.clen x) = .clen {}) ∧
    (∀ x : PTokParam, Exec.doReset (.tokparam x) = .tokparam {}) ∧
    (∀ x : PsipURI, Exec.doReset (.uri x) = .uri {}) ∧
    (∀ x : PPAIs, Exec.doReset (.pais x) = .pais {}) ∧
    (∀ (h : Hdr) (hb : Option PHdrVals), Exec.doReset (.hdrline h hb) = .hdrline {} (hb.map (·.reset))) :=
  ⟨fun _ => rfl, fun _ _ => rfl, fun _ => rfl, fun _ => rfl, fun _ => rfl, fun _ => rfl, fun _ => rfl, fun _ => rfl,
   fun _ => rfl, fun _ => rfl, fun _ _ => rfl⟩

/-- inside the model: `HdrLst.Reset` leaves the zero header in EVERY slot, whatever was there (the per-element
    `Hdr.Reset` of the Go loop) -/
theorem afb_hdrlst_reset_slots (hl : HdrLst) (k : Nat) (h : k < hl.reset.hdrs.size) : hl.reset.hdrs[k] = {} := by
  simp [HdrLst.reset]

/-- inside the model: the list Resets leave the zero element in every slot up to the one in progress, whatever was
    there (the per-element `PFromBody.Reset` / `URIParam.Reset` / `URIHdr.Reset` of the Go loops) -/
theorem afb_clearUpTo_slots {α : Type} (a : Array α) (z : α) (n k : Nat) (hk : k ≤ n) (h : k < (clearUpTo a z n).size) :
    (clearUpTo a z n)[k] = z := by
  have key : ∀ (l : List Nat) (a : Array α) (h : k < (l.foldl (fun acc i => acc.set! i z) a).size),
      (k ∈ l ∨ (∃ h' : k < a.size, a[k] = z)) → (l.foldl (fun acc i => acc.set! i z) a)[k] = z := by
    intro l
    induction l with
    | nil =>
      intro a h hh
      rcases hh with hh | ⟨_, hh⟩
      · cases hh
      · exact hh
    | cons x xs ih =>
      intro a h hh
      simp only [List.foldl_cons] at h ⊢
      have hsz : ∀ (l : List Nat) (a : Array α), (l.foldl (fun acc i => acc.set! i z) a).size = a.size := by
        intro l
        induction l with
        | nil => intro a; rfl
        | cons y ys ihy => intro a; simp only [List.foldl_cons]; rw [ihy]; simp
      have hka : k < a.size := by rw [hsz] at h; simpa using h
      apply ih
      by_cases hx : k = x
      · right
        subst hx
        exact ⟨by simpa using hka, by simp [Array.set!_eq_setIfInBounds]⟩
      · rcases hh with hh | ⟨h', hh⟩
        · rcases List.mem_cons.1 hh with hh | hh
          · exact absurd hh hx
          · exact Or.inl hh
        · right
          refine ⟨by simpa using hka, ?_⟩
          simp only [Array.set!_eq_setIfInBounds]
          rw [Array.getElem_setIfInBounds_ne hka (fun hne => hx hne.symm)]
          exact hh
  unfold clearUpTo at h ⊢
  apply key
  left
  have hsz : k < a.size := by
    have : ∀ (l : List Nat) (a : Array α), (l.foldl (fun acc i => acc.set! i z) a).size = a.size := by
      intro l
      induction l with
      | nil => intro a; rfl
      | cons y ys ihy => intro a; simp only [List.foldl_cons]; rw [ihy]; simp
    rw [this] at h; exact h
  simp only [List.mem_range]
  omega

/-! ### (B iii) what the `Init` functions guarantee

  Go: `PContacts.Init(buf)` / `URIParamsLst.Init(buf)` / `URIHdrsLst.Init(buf)` only store the slice; `PHdrVals.Init`
  = Reset + `Contacts.Init`.  None of them clears the array it is given. -/

/-- **PContacts.Init only swaps the array**: every other field keeps its value -/
theorem afb_contacts_init (c : PContacts) (vals : Array PFromBody) : c.init vals = { c with vals := vals } := rfl

/-- hence: Init after Reset (or on a new object) = the zero object over the GIVEN array, for every `c` … -/
theorem afb_contacts_reset_init (c : PContacts) (vals : Array PFromBody) : c.reset.init vals = { vals := vals } := rfl

/-- … which is the new object exactly when the given array is cleared -/
theorem afb_contacts_init_new_iff (vals : Array PFromBody) :
    ({ vals := vals } : PContacts).vals = (afbNewCt vals.size).vals ↔ ∀ k (h : k < vals.size), vals[k] = {} := by
  unfold afbNewCt
  simp only
  constructor
  · intro h k hk
    have : vals[k] = (Array.replicate vals.size ({} : PFromBody))[k]'(by simpa using hk) := by
      congr 1
    rw [this]; simp
  · intro h
    apply Array.ext
    · simp
    · intro i h1 h2; rw [h i h1]; simp

/-- **PHdrVals.Init, EVERY object `hv`**: the result does not depend on `hv`; it is the zero object over the GIVEN
    contact array; the new object iff that array is cleared -/
theorem afb_hdrvals_init_any (hv : PHdrVals) (cbuf : Array PFromBody) :
    hv.init cbuf = { contacts := { vals := cbuf } } := rfl

theorem afb_hdrvals_init_new (hv : PHdrVals) (kc : Nat) : hv.init (Array.replicate kc {}) = afbNewHv kc := rfl

/-- the model has no `Init` for the URI lists (the driver resets them instead); this is the Go function
    `l.Params = pbuf`, written out here only to state what it guarantees -/
def afbUriParamsInit (l : URIParamsLst) (pbuf : Array URIParam) : URIParamsLst := { l with params := pbuf }
def afbUriHdrsInit (l : URIHdrsLst) (hbuf : Array PTokParam) : URIHdrsLst := { l with hdrs := hbuf }

/-- Init after Reset = the zero object over the given array (new iff the array is cleared); Init alone keeps the
    count, the type flags and the scratch element of the used object -/
theorem afb_uriparams_reset_init (l : URIParamsLst) (pbuf : Array URIParam) :
    afbUriParamsInit l.reset pbuf = { params := pbuf } ∧ (afbUriParamsInit l pbuf).n = l.n ∧
      (afbUriParamsInit l pbuf).types = l.types ∧ (afbUriParamsInit l pbuf).tmp = l.tmp :=
  ⟨rfl, rfl, rfl, rfl⟩

theorem afb_urihdrs_reset_init (l : URIHdrsLst) (hbuf : Array PTokParam) :
    afbUriHdrsInit l.reset hbuf = { hdrs := hbuf } ∧ (afbUriHdrsInit l hbuf).n = l.n ∧
      (afbUriHdrsInit l hbuf).tmp = l.tmp :=
  ⟨rfl, rfl, rfl⟩

/-- test: Init does NOT clear — a contact array holding a stale finished value, handed to Init, is not "like new":
    the next parse of `<sip:a>` CRLF X reports the stale entry as its first contact -/
example :
    let stale : PFromBody := { state := .fin, expires := 7, hasExpires := true }
    let dirty := (({} : PContacts).init #[stale, {}])
    let clean := (({} : PContacts).init #[{}, {}])
    let buf : Buf := #[60, 115, 105, 112, 58, 97, 62, 13, 10, 88]
    (parseAllContactValues buf 0 dirty).2.2.maxExpires = 7 ∧ (parseAllContactValues buf 0 clean).2.2.maxExpires = 0 := by
  decide +kernel

/-- test: a used message object (failed parse), Reset, is the new object of the same capacities -/
example : scTestUsed.reset = afbNewMsg scTestUsed.bufLen scTestUsed.hl.hdrs.size scTestUsed.pv.contacts.vals.size :=
  afb_msg_reset_reach scTestUsed_reach

/-! ## (C) C02: the missing one-step laws in exportable form and the schedule corollaries

  Every statement below has the shape used in Properties/C02.lean: a one-step law (`ResumableR` / `ResumableRC`: after
  MoreBytes the resumed call on ANY extension returns the offset, the verdict, and — unless the verdict is an error —
  the very object of a fresh call on the extension, the same observable object after an error; the legitimacy
  invariant is re-established) and, from the generic schedule theorem, the statement for EVERY chunk schedule. -/

/-! ### (C i) ParseOnePAI (ParseNameAddrPVal for P-Asserted-Identity + the `*` value remapped to the bad-value verdict) -/

/-- one-step law -/
theorem afb_onePAI_resumableR : ResumableR parseOnePAI naOK PFromBody.obs := by
  intro b s o st o' st' hI hr
  obtain ⟨h1, h2, _⟩ := parseOnePAI_resumeR b s o st hI hr
  exact ⟨h1, h2⟩

/-- the one-step law spelled out, with everything the proof yields: the invariant on the extended buffer, the object
    is not finished, the returned offset lies between the start offset and the end of the parsed buffer -/
theorem afb_onePAI_resume (b s : Buf) (o : Nat) (pf : PFromBody) (hok : naOK b o pf)
    {o' : Nat} {pf' : PFromBody} (hr : parseOnePAI b o pf = (o', Err.moreBytes, pf')) :
    RR PFromBody.obs (parseOnePAI (b ++ s) o' pf') (parseOnePAI (b ++ s) o pf) ∧
      naOK (b ++ s) o' pf' ∧ pf'.state ≠ .fin ∧ o ≤ o' ∧ o' ≤ b.size :=
  parseOnePAI_resumeR b s o pf hok hr

/-- L1: a definitive result is the result on every extension -/
theorem afb_onePAI_stable (b s : Buf) (o : Nat) (pf : PFromBody) (hok : naOK b o pf)
    {o' : Nat} {e : Err} {pf' : PFromBody} (hr : parseOnePAI b o pf = (o', e, pf')) (he : e ≠ .moreBytes) :
    parseOnePAI (b ++ s) o pf = (o', e, pf') :=
  parseOnePAI_stable b s o pf hok hr he

/-- **every chunk schedule, ParseOnePAI, from any legitimate object** -/
theorem afb_onePAI_schedule_from (o : Nat) (pf : PFromBody) (l : List Buf) (hg : Growing l)
    (h0 : ∀ b ∈ l.head?, naOK b o pf) :
    RR PFromBody.obs (resumeRun parseOnePAI o pf l) (oneShotRun parseOnePAI o pf l) :=
  resumeRun_eq_oneShotR parseOnePAI naOK PFromBody.obs afb_onePAI_resumableR o pf l hg h0

/-- **every chunk schedule, ParseOnePAI, from a new object** at an offset inside the first chunk -/
theorem afb_onePAI_schedule (o : Nat) (l : List Buf) (hg : Growing l) (h0 : ∀ b ∈ l.head?, o ≤ b.size) :
    RR PFromBody.obs (resumeRun parseOnePAI o {} l) (oneShotRun parseOnePAI o {} l) :=
  afb_onePAI_schedule_from o {} l hg (fun b hb => naOK_new b o (h0 b hb))

/-! ### (C ii) ParseFLine -/

theorem afb_fline_resumableRC :
    ResumableRC parseFLine (fun b o pl => o ≤ b.size ∧ flOK pl) (fun x => x) (fun b => b.size ≤ 65535) := by
  intro b s o st o' st' hC hI hr
  obtain ⟨a, b', c⟩ := parseFLine_resume b s o st hI.1 hI.2 hC hr
  exact ⟨RR.of_eq a, by rw [Array.size_append]; omega, b'⟩

theorem afb_RR_id_eq {σ : Type} {r1 r2 : Nat × Err × σ} (h : RR (fun x : σ => x) r1 r2) : r1 = r2 := by
  obtain ⟨a1, e1, s1⟩ := r1
  obtain ⟨a2, e2, s2⟩ := r2
  obtain ⟨h1, h2, _, h4⟩ := h
  simp only at h1 h2 h4
  rw [h1, h2, h4]

/-- **every chunk schedule, ParseFLine** (every chunk within the documented 65,535-byte limit), from any legitimate
    object: the chain of resumed calls returns EXACTLY what the fresh one-shot calls return -/
theorem afb_fline_schedule_from (o : Nat) (pl : PFLine) (l : List Buf) (hg : Growing l)
    (hfit : ∀ x ∈ l, x.size ≤ 65535) (h0 : ∀ b ∈ l.head?, o ≤ b.size ∧ flOK pl) :
    resumeRun parseFLine o pl l = oneShotRun parseFLine o pl l :=
  afb_RR_id_eq (resumeRun_eq_oneShotRC parseFLine (fun b o pl => o ≤ b.size ∧ flOK pl) (fun x => x)
    (fun b => b.size ≤ 65535) afb_fline_resumableRC o pl l hg hfit h0)

theorem afb_flOK_new : flOK {} := by unfold flOK; decide

/-- … from a new object -/
theorem afb_fline_schedule (o : Nat) (l : List Buf) (hg : Growing l) (hfit : ∀ x ∈ l, x.size ≤ 65535)
    (h0 : ∀ b ∈ l.head?, o ≤ b.size) : resumeRun parseFLine o {} l = oneShotRun parseFLine o {} l :=
  afb_fline_schedule_from o {} l hg hfit (fun b hb => ⟨h0 b hb, afb_flOK_new⟩)

/-! ### ParseAllContactValues -/

theorem afb_contacts_resumableR :
    ResumableR parseAllContactValues (fun b o c => ctOK b o c ∧ o ≤ b.size) PContacts.obs := by
  intro b s o st o' st' hI hr
  obtain ⟨h1, h2, _, _, h5⟩ := parseAllContactValues_resume b s o st hI.1 hI.2 hr
  exact ⟨h1, h2, by rw [Array.size_append]; omega⟩

theorem afb_contacts_schedule_from (o : Nat) (c : PContacts) (l : List Buf) (hg : Growing l)
    (h0 : ∀ b ∈ l.head?, ctOK b o c ∧ o ≤ b.size) :
    RR PContacts.obs (resumeRun parseAllContactValues o c l) (oneShotRun parseAllContactValues o c l) :=
  resumeRun_eq_oneShotR parseAllContactValues _ PContacts.obs afb_contacts_resumableR o c l hg h0

theorem afb_ctOK_new (b : Buf) (o : Nat) (ho : o ≤ b.size) (kc : Nat) : ctOK b o { vals := Array.replicate kc {} } := by
  refine ⟨fun k _ hk => ?_, naOK_new b o ho⟩
  have hk' : k < kc := by simpa using hk
  have : (Array.replicate kc ({} : PFromBody))[k]! = {} := by simp [hk']
  show naOK b o (Array.replicate kc ({} : PFromBody))[k]!
  rw [this]; exact naOK_new b o ho

/-- **every chunk schedule, ParseAllContactValues, from a new object** over a cleared array of any capacity -/
theorem afb_contacts_schedule (o kc : Nat) (l : List Buf) (hg : Growing l) (h0 : ∀ b ∈ l.head?, o ≤ b.size) :
    RR PContacts.obs (resumeRun parseAllContactValues o { vals := Array.replicate kc {} } l)
      (oneShotRun parseAllContactValues o { vals := Array.replicate kc {} } l) :=
  afb_contacts_schedule_from o _ l hg (fun b hb => ⟨afb_ctOK_new b o (h0 b hb) kc, h0 b hb⟩)

/-! ### ParseAllPAIValues -/

theorem afb_pais_resumableR :
    ResumableR parseAllPAIValues (fun b o c => paOK b o c ∧ o ≤ b.size) PPAIs.obs := by
  intro b s o st o' st' hI hr
  obtain ⟨h1, h2, _, _, h5⟩ := parseAllPAIValues_resume b s o st hI.1 hI.2 hr
  exact ⟨h1, h2, by rw [Array.size_append]; omega⟩

theorem afb_pais_schedule_from (o : Nat) (c : PPAIs) (l : List Buf) (hg : Growing l)
    (h0 : ∀ b ∈ l.head?, paOK b o c ∧ o ≤ b.size) :
    RR PPAIs.obs (resumeRun parseAllPAIValues o c l) (oneShotRun parseAllPAIValues o c l) :=
  resumeRun_eq_oneShotR parseAllPAIValues _ PPAIs.obs afb_pais_resumableR o c l hg h0

theorem afb_paOK_new (b : Buf) (o : Nat) (ho : o ≤ b.size) : paOK b o {} := by
  refine ⟨fun k _ hk => ?_, naOK_new b o ho⟩
  have hk' : k < 2 := hk
  have : k = 0 ∨ k = 1 := by omega
  rcases this with rfl | rfl <;> exact naOK_new b o ho

/-- **every chunk schedule, ParseAllPAIValues, from a new object** -/
theorem afb_pais_schedule (o : Nat) (l : List Buf) (hg : Growing l) (h0 : ∀ b ∈ l.head?, o ≤ b.size) :
    RR PPAIs.obs (resumeRun parseAllPAIValues o {} l) (oneShotRun parseAllPAIValues o {} l) :=
  afb_pais_schedule_from o {} l hg (fun b hb => ⟨afb_paOK_new b o (h0 b hb), h0 b hb⟩)

/-! ### ParseHdrLine -/

/-- ParseHdrLine as a parser over the pair (header, header values or nil) -/
def afbHdrLineP : Parser (Hdr × Option PHdrVals) := fun b o st => parseHdrLine b o st.1 st.2

def afbHdrLineInv (b : Buf) (o : Nat) (st : Hdr × Option PHdrVals) : Prop := hlOK b o st.1 st.2 ∧ hlPending st

theorem afb_hdrline_resumableR : ResumableR afbHdrLineP afbHdrLineInv hlObs := by
  intro b s o st o' st' hI hr
  obtain ⟨h', hb'⟩ := st'
  obtain ⟨h1, h2, h3, _⟩ := parseHdrLine_resume b s o st.1 st.2 hI.1 hI.2 hr
  exact ⟨h1, h2, h3⟩

/-- **every chunk schedule, ParseHdrLine, from any legitimate (header, values) pair** -/
theorem afb_hdrline_schedule_from (o : Nat) (h : Hdr) (hb : Option PHdrVals) (l : List Buf) (hg : Growing l)
    (h0 : ∀ b ∈ l.head?, hlOK b o h hb ∧ hlPending (h, hb)) :
    RR hlObs (resumeRun afbHdrLineP o (h, hb) l) (oneShotRun afbHdrLineP o (h, hb) l) :=
  resumeRun_eq_oneShotR afbHdrLineP afbHdrLineInv hlObs afb_hdrline_resumableR o (h, hb) l hg h0

theorem afb_hvOK_new (b : Buf) (o : Nat) (ho : o ≤ b.size) (kc : Nat) : hvOK b o (afbNewHv kc) :=
  ⟨naOK_new b o ho, naOK_new b o ho, Or.inr ⟨ho, (fun hh => by cases hh), (fun hh => by cases hh)⟩,
   afb_ctOK_new b o ho kc, afb_paOK_new b o ho⟩

theorem afb_hbOK_new (b : Buf) (o : Nat) (ho : o ≤ b.size) (kc : Nat) (nil : Bool) :
    hbOK b o (if nil then none else some (afbNewHv kc)) := by
  cases nil
  · exact afb_hvOK_new b o ho kc
  · trivial

/-- **every chunk schedule, ParseHdrLine, from a new header** with new header values (contact array of any capacity)
    or none (`nil = true`) -/
theorem afb_hdrline_schedule (o kc : Nat) (nil : Bool) (l : List Buf) (hg : Growing l) (h0 : ∀ b ∈ l.head?, o ≤ b.size) :
    RR hlObs (resumeRun afbHdrLineP o ({}, if nil then none else some (afbNewHv kc)) l)
      (oneShotRun afbHdrLineP o ({}, if nil then none else some (afbNewHv kc)) l) :=
  afb_hdrline_schedule_from o {} _ l hg (fun b hb =>
    ⟨⟨h0 b hb, hdrOK_new b, afb_hbOK_new b o (h0 b hb) kc nil⟩,
     hlPending_of_not_isVal (by simp [HState.isVal])⟩)

/-! ### ParseHeaders -/

def afbHeadersP : Parser (HdrLst × Option PHdrVals) := fun b o st => parseHeaders b o st.1 st.2

def afbHeadersInv (b : Buf) (o : Nat) (st : HdrLst × Option PHdrVals) : Prop :=
  hlsOK b st.1 ∧ hbOK b o st.2 ∧ hlsPend st.1 st.2 ∧ o ≤ b.size

theorem afb_headers_resumableR : ResumableR afbHeadersP afbHeadersInv hdrsObs := by
  intro b s o st o' st' hI hr
  obtain ⟨h1, h2, h3, h4⟩ := hI
  obtain ⟨hl', hb'⟩ := st'
  obtain ⟨r, a, b', c, _, e⟩ := parseHeaders_resume b s o st.1 st.2 h1 h2 h3 h4 hr
  exact ⟨r, a, b', c, by rw [Array.size_append]; omega⟩

/-- **every chunk schedule, ParseHeaders, from any legitimate (list, values) pair** -/
theorem afb_headers_schedule_from (o : Nat) (hl : HdrLst) (hb : Option PHdrVals) (l : List Buf) (hg : Growing l)
    (h0 : ∀ b ∈ l.head?, afbHeadersInv b o (hl, hb)) :
    RR hdrsObs (resumeRun afbHeadersP o (hl, hb) l) (oneShotRun afbHeadersP o (hl, hb) l) :=
  resumeRun_eq_oneShotR afbHeadersP afbHeadersInv hdrsObs afb_headers_resumableR o (hl, hb) l hg h0

theorem afb_headersInv_new (b : Buf) (o : Nat) (ho : o ≤ b.size) (kh kc : Nat) (nil : Bool) :
    afbHeadersInv b o ({ hdrs := Array.replicate kh {} }, if nil then none else some (afbNewHv kc)) := by
  have hrep : ∀ k, k < (Array.replicate kh ({} : Hdr)).size → (Array.replicate kh ({} : Hdr))[k]! = {} := by
    intro k hk; simp at hk; simp [hk]
  refine ⟨⟨fun k _ hk => ?_, hdrOK_new b⟩, afb_hbOK_new b o ho kc nil, ⟨?_, fun k _ hk => ?_, fun _ => ?_⟩, ho⟩
  · show hdrOK b (Array.replicate kh ({} : Hdr))[k]!
    rw [hrep k hk]; exact hdrOK_new b
  · apply hlPending_of_not_isVal
    have hcur : ({ hdrs := Array.replicate kh {} } : HdrLst).cur = {} := by
      unfold HdrLst.cur
      split
      · rename_i hin; exact hrep 0 hin
      · rfl
    show ¬ ({ hdrs := Array.replicate kh {} } : HdrLst).cur.state.isVal
    rw [hcur]; simp [HState.isVal]
  · show ¬ (Array.replicate kh ({} : Hdr))[k]!.state.isVal
    rw [hrep k hk]; simp [HState.isVal]
  · simp [HState.isVal]

/-- **every chunk schedule, ParseHeaders, from a new header list** (cleared array of any capacity) with new header
    values (contact array of any capacity) or none -/
theorem afb_headers_schedule (o kh kc : Nat) (nil : Bool) (l : List Buf) (hg : Growing l)
    (h0 : ∀ b ∈ l.head?, o ≤ b.size) :
    RR hdrsObs
      (resumeRun afbHeadersP o ({ hdrs := Array.replicate kh {} }, if nil then none else some (afbNewHv kc)) l)
      (oneShotRun afbHeadersP o ({ hdrs := Array.replicate kh {} }, if nil then none else some (afbNewHv kc)) l) :=
  afb_headers_schedule_from o _ _ l hg (fun b hb => afb_headersInv_new b o (h0 b hb) kh kc nil)

/-- what `RR` gives a caller: same offset, same verdict; the very same object whenever the verdict is one after which
    parsing goes on (OK, MoreBytes, MoreValues, Empty) -/
theorem afb_RR_use {σ τ : Type} {obs : σ → τ} {r1 r2 : Nat × Err × σ} (h : RR obs r1 r2) :
    r1.1 = r2.1 ∧ r1.2.1 = r2.2.1 ∧ (Err.goesOn r2.2.1 → r1 = r2) :=
  ⟨h.1, h.2.1, fun hg => h.eq hg⟩

/-! ### (C) tests / non-vacuity (closed computations by `decide +kernel`; examples, not the general claims) -/

/-- "*", "* CR LF", "* CR LF X": a schedule cutting a `*` P-Asserted-Identity value before and inside the line end -/
def afbStarCuts : List Buf := [#[42], #[42, 13, 10], #[42, 13, 10, 88]]

theorem afbStarCuts_growing : Growing afbStarCuts := ⟨⟨#[13, 10], by decide⟩, ⟨#[88], by decide⟩, trivial⟩

/-- test: the first two calls are suspended, the last one meets the `*`: the name-addr parser says OK, ParseOnePAI
    remaps it to the bad-value verdict, and the chain of resumed calls returns that verdict at that offset -/
example : (parseOnePAI #[42] 0 {}).2.1 = .moreBytes ∧ (parseOnePAI #[42, 13, 10] 0 {}).2.1 = .moreBytes ∧
    (parseNameAddrPVal HdrPAI #[42, 13, 10, 88] 0 {}).2.1 = .ok ∧ (parseOnePAI #[42, 13, 10, 88] 0 {}).2.1 = .valBad ∧
    (resumeRun parseOnePAI 0 {} afbStarCuts).2.1 = .valBad ∧ (resumeRun parseOnePAI 0 {} afbStarCuts).1 = 3 := by
  decide +kernel

/-- test: the schedule theorem instantiated on it -/
example : RR PFromBody.obs (resumeRun parseOnePAI 0 {} afbStarCuts) (oneShotRun parseOnePAI 0 {} afbStarCuts) :=
  afb_onePAI_schedule 0 afbStarCuts afbStarCuts_growing (by intro b hb; simp [afbStarCuts] at hb; subst hb; decide)

/-- "Via: x CR LF CSeq: 1 INVITE CR LF CR LF" cut after 3 and after 12 bytes -/
def afbHdrsBuf : Buf := "Via: x\r\nCSeq: 1 INVITE\r\n\r\n".toUTF8.data
def afbHdrsCuts : List Buf := [afbHdrsBuf.extract 0 3, afbHdrsBuf.extract 0 12, afbHdrsBuf]

theorem afbHdrsCuts_growing : Growing afbHdrsCuts :=
  ⟨⟨afbHdrsBuf.extract 3 12, by decide +kernel⟩, ⟨afbHdrsBuf.extract 12 afbHdrsBuf.size, by decide +kernel⟩, trivial⟩

/-- test: ParseHeaders (3-slot header array, header values with a 2-slot contact array) suspended twice, then OK; the
    schedule theorem gives the one-shot result, here with the very same object (`afb_RR_use`) -/
example : (afbHeadersP (afbHdrsBuf.extract 0 3) 0 ({ hdrs := Array.replicate 3 {} }, some (afbNewHv 2))).2.1 = .moreBytes ∧
    (afbHeadersP afbHdrsBuf 0 ({ hdrs := Array.replicate 3 {} }, some (afbNewHv 2))).2.1 = .ok := by
  decide +kernel

example : resumeRun afbHeadersP 0 ({ hdrs := Array.replicate 3 {} }, some (afbNewHv 2)) afbHdrsCuts =
    oneShotRun afbHeadersP 0 ({ hdrs := Array.replicate 3 {} }, some (afbNewHv 2)) afbHdrsCuts := by
  have h := afb_headers_schedule 0 3 2 false afbHdrsCuts afbHdrsCuts_growing
    (by intro b hb; simp [afbHdrsCuts] at hb; subst hb; exact Nat.zero_le _)
  refine (afb_RR_use h).2.2 ?_
  have : (oneShotRun afbHeadersP 0 ({ hdrs := Array.replicate 3 {} }, if false = true then none else some (afbNewHv 2))
      afbHdrsCuts).2.1 = .ok := by decide +kernel
  rw [this]; exact Or.inl rfl

/-- test: ParseFLine, a request line cut inside the method and inside the version -/
example : resumeRun parseFLine 0 {} [#[73, 78], #[73, 78, 86, 73, 84, 69, 32, 115, 105, 112, 58, 97, 32, 83, 73],
      #[73, 78, 86, 73, 84, 69, 32, 115, 105, 112, 58, 97, 32, 83, 73, 80, 47, 50, 46, 48, 13, 10, 88]] =
    oneShotRun parseFLine 0 {} [#[73, 78], #[73, 78, 86, 73, 84, 69, 32, 115, 105, 112, 58, 97, 32, 83, 73],
      #[73, 78, 86, 73, 84, 69, 32, 115, 105, 112, 58, 97, 32, 83, 73, 80, 47, 50, 46, 48, 13, 10, 88]] :=
  afb_fline_schedule 0 _ ⟨⟨#[86, 73, 84, 69, 32, 115, 105, 112, 58, 97, 32, 83, 73], by decide⟩,
    ⟨#[80, 47, 50, 46, 48, 13, 10, 88], by decide⟩, trivial⟩ (by decide) (by intro b hb; simp at hb; subst hb; decide)

end Sipsp
