/-
  Sipsp.Proofs.AuditFixB — gaps found by the audit of C10 (A), C12 (B), C02 (C).  Lemma file; the theorems are
  re-exported in the Properties files.
-/
import Sipsp.Proofs.NumRun

namespace Sipsp

/-! ## (A) C10: the range half at RUN level -/

/-- 2^32 - 1 -/
def afbMaxU32 : Nat := 4294967295

/-! ### ParseUIntVal (= ParseExpiresVal): the number of the returned object never exceeds 2^32-1 -/

theorem afb_clEOH_uiVal (st : PUIntBody) (i n crl : Nat) : (clEOH st i n crl).2.2.uiVal = st.uiVal := by
  unfold clEOH
  cases st.state <;> rfl

theorem afb_clStep_u32 (b : Buf) (i : Nat) (c : UInt8) (st : PUIntBody) (hb : b[i]? = some c)
    (h : st.uiVal ≤ 4294967295) :
    StepAll2 (fun _ s => s.uiVal ≤ 4294967295) (fun _ _ s => s.uiVal ≤ 4294967295) (clStep b i c st) := by
  have hlt := get?_lt hb
  have key : ∀ s1 : PUIntBody, s1.uiVal ≤ 4294967295 →
      StepAll2 (fun _ s => s.uiVal ≤ 4294967295) (fun _ _ s => s.uiVal ≤ 4294967295) (lwsStd b i s1 clEOH id) := by
    intro s1 h1
    refine lwsStd_all2 b i s1 clEOH id _ _ (by omega) (fun _ _ _ => h1) (fun _ _ _ => h1) (fun _ _ _ => h1)
      (fun n crl _ _ _ => ?_)
    rw [afb_clEOH_uiVal]; exact h1
  unfold clStep
  by_cases hl : isLWSch c = true
  · simp only [hl, ↓reduceIte]
    cases hst : st.state <;> simp only
    case found => exact key _ h
    case fin => exact h
    all_goals exact key st h
  · simp only [hl, Bool.false_eq_true, ↓reduceIte]
    by_cases hd : isDigit c = true
    · simp only [hd, ↓reduceIte]
      cases hst : st.state <;> simp only
      case init =>
        show c.toNat - 48 ≤ 4294967295
        have := c.toNat_lt; omega
      case found =>
        split
        · exact h
        · rename_i hn
          show st.uiVal * 10 + (c.toNat - 48) ≤ 4294967295
          omega
      case fend => exact h
      case fin => exact h
    · simp only [hd, Bool.false_eq_true, ↓reduceIte]
      exact h

/-- **ParseUIntVal (= ParseExpiresVal), any buffer, any offset, ANY verdict**: if the number held by the object passed
    in fits 32 bits (a new object: 0; an object returned by an earlier call: by this very theorem), so does the number
    of the returned object.  No wrapped value is ever stored. -/
theorem afb_parseUIntVal_u32 (b : Buf) (o : Nat) (st : PUIntBody) (h : st.uiVal ≤ 4294967295) :
    (parseUIntVal b o st).2.2.uiVal ≤ 4294967295 := by
  unfold parseUIntVal
  split
  · exact h
  · exact runLoop_safe2 clMachine b (fun _ s => s.uiVal ≤ 4294967295) (fun _ _ s => s.uiVal ≤ 4294967295) cl_progress
      (fun i c s hb hs => afb_clStep_u32 b i c s hb hs) (fun _ _ hs => hs) o st h

/-- … in the form asked for: OK ⇒ `uiVal ≤ 2^32-1` -/
theorem afb_uint_ok_le (b : Buf) (o : Nat) (st : PUIntBody) (h : st.uiVal ≤ 4294967295)
    {o' : Nat} {st' : PUIntBody} (hr : parseUIntVal b o st = (o', .ok, st')) : st'.uiVal ≤ 4294967295 := by
  have := afb_parseUIntVal_u32 b o st h
  rw [hr] at this; exact this

theorem afb_parseCLenVal_u32 (b : Buf) (o : Nat) (st : PUIntBody) (h : st.uiVal ≤ 4294967295) :
    (parseCLenVal b o st).2.2.uiVal ≤ 4294967295 := by
  have := afb_parseUIntVal_u32 b o st h
  unfold parseCLenVal
  rcases hp : parseUIntVal b o st with ⟨o1, e1, s1⟩
  rw [hp] at this
  cases e1 <;> simp only
  case ok => split <;> exact this
  all_goals exact this

/-! ### ParseCSeqVal: the number never exceeds 2^32-1 and an accepted digit string has at most 10 digits -/

theorem afb_csFinish_no (st : PCSeqBody) (b : Buf) (n crl : Nat) : (csFinish st b n crl).2.2.cseqNo = st.cseqNo := by
  unfold csFinish
  simp only
  split
  · rfl
  · split <;> rfl

theorem afb_csFinish_cseq (st : PCSeqBody) (b : Buf) (n crl : Nat) : (csFinish st b n crl).2.2.cseq = st.cseq := by
  unfold csFinish
  simp only
  split
  · rfl
  · split <;> rfl

/-- the end-of-header code accepts only a number field of at most 10 bytes and a number that fits 32 bits -/
theorem afb_csFinish_ok (st : PCSeqBody) (b : Buf) (n crl : Nat) (h : (csFinish st b n crl).2.1 = .ok) :
    st.cseq.len ≤ 10 ∧ st.cseqNo ≤ 4294967295 := by
  unfold csFinish at h
  simp only at h
  split at h
  · cases h
  · rename_i hn
    simp only [MaxCSeqNValueSize, Bool.or_eq_true, decide_eq_true_eq, not_or] at hn
    have h1 : ¬ st.cseq.len > 10 := by simpa using hn.1
    have h2 := hn.2
    exact ⟨by omega, by omega⟩

theorem afb_csEOH_no (b : Buf) (st : PCSeqBody) (i n crl : Nat) : (csEOH b st i n crl).2.2.cseqNo = st.cseqNo := by
  unfold csEOH
  cases st.state <;> simp only
  case fend => exact afb_csFinish_no st b n crl
  case foundMethod => rw [afb_csFinish_no]; rfl

theorem afb_csEOH_ok (b : Buf) (st : PCSeqBody) (i n crl : Nat) (h : (csEOH b st i n crl).2.1 = .ok) :
    (csEOH b st i n crl).2.2.cseq.len ≤ 10 ∧ (csEOH b st i n crl).2.2.cseqNo ≤ 4294967295 := by
  unfold csEOH at h ⊢
  cases hst : st.state <;> simp only [hst] at h ⊢
  case fend =>
    rw [afb_csFinish_no, afb_csFinish_cseq]; exact afb_csFinish_ok st b n crl h
  case foundMethod =>
    rw [afb_csFinish_no, afb_csFinish_cseq]; exact afb_csFinish_ok _ b n crl h
  all_goals cases h

/-- what every exit of the CSeq loop guarantees -/
def AfbCsT (e : Err) (s : PCSeqBody) : Prop :=
  s.cseqNo ≤ 4294967295 ∧ (e = .ok → s.cseq.len ≤ 10)

theorem afb_csStep_u32 (b : Buf) (i : Nat) (c : UInt8) (st : PCSeqBody) (hb : b[i]? = some c)
    (h : st.cseqNo ≤ 4294967295) :
    StepAll2 (fun _ s => s.cseqNo ≤ 4294967295) (fun _ e s => AfbCsT e s) (csStep b i c st) := by
  have hlt := get?_lt hb
  have key : ∀ s1 : PCSeqBody, s1.cseqNo ≤ 4294967295 →
      StepAll2 (fun _ s => s.cseqNo ≤ 4294967295) (fun _ e s => AfbCsT e s) (lwsStd b i s1 (csEOH b) id) := by
    intro s1 h1
    refine lwsStd_all2 b i s1 (csEOH b) id _ _ (by omega) (fun _ _ _ => h1)
      (fun _ _ _ => ⟨h1, (fun hh => by cases hh)⟩) (fun _ _ _ => ⟨h1, (fun hh => by cases hh)⟩)
      (fun n crl _ _ _ => ⟨?_, fun hh => (afb_csEOH_ok b s1 i n crl hh).1⟩)
    rw [afb_csEOH_no]; exact h1
  have herr : ∀ e : Err, e ≠ .ok → AfbCsT e st := fun e he => ⟨h, fun hh => absurd hh he⟩
  unfold csStep
  by_cases hl : isLWSch c = true
  · simp only [hl, ↓reduceIte]
    cases hst : st.state <;> simp only
    case foundDigit => exact key _ h
    case foundMethod => exact key _ h
    case fin => exact h
    all_goals exact key st h
  · simp only [hl, Bool.false_eq_true, ↓reduceIte]
    by_cases hd : isDigit c = true
    · simp only [hd, ↓reduceIte]
      cases hst : st.state <;> simp only
      case init =>
        show c.toNat - 48 ≤ 4294967295
        have := c.toNat_lt; omega
      case foundDigit =>
        split
        · exact herr _ (by decide)
        · rename_i hn
          show st.cseqNo * 10 + (c.toNat - 48) ≤ 4294967295
          omega
      case endDigit => exact h
      case foundMethod => exact h
      case fend => exact herr _ (by decide)
      case fin => exact h
    · simp only [hd, Bool.false_eq_true, ↓reduceIte]
      cases hst : st.state <;> simp only
      case endDigit => exact h
      case foundMethod => exact h
      case fin => exact h
      all_goals exact herr _ (by decide)

/-- **ParseCSeqVal, any buffer, any offset, any verdict**: the number of the returned object fits 32 bits whenever the
    number of the object passed in does; and after OK the reported number field has at most 10 bytes.  The only
    hypothesis on a FINISHED object passed in again (the call then returns it unchanged) is that it has these
    properties itself — as every finished object returned by this function has. -/
theorem afb_parseCSeqVal_range (b : Buf) (o : Nat) (st : PCSeqBody) (h : st.cseqNo ≤ 4294967295)
    (hfin : st.state = .fin → st.cseq.len ≤ 10) :
    (parseCSeqVal b o st).2.2.cseqNo ≤ 4294967295 ∧
      ((parseCSeqVal b o st).2.1 = .ok → (parseCSeqVal b o st).2.2.cseq.len ≤ 10) := by
  unfold parseCSeqVal
  split
  · rename_i hf; exact ⟨h, fun _ => hfin hf⟩
  · exact runLoop_safe2 csMachine b (fun _ s => s.cseqNo ≤ 4294967295) (fun _ e s => AfbCsT e s) cs_progress
      (fun i c s hb hs => afb_csStep_u32 b i c s hb hs) (fun _ _ hs => ⟨hs, (fun hh => by cases hh)⟩) o st h

/-- … in the form asked for: OK ⇒ `cseqNo ≤ 2^32-1` and `cseq.len ≤ 10` -/
theorem afb_cseq_ok_le (b : Buf) (o : Nat) (st : PCSeqBody) (h : st.cseqNo ≤ 4294967295)
    (hfin : st.state = .fin → st.cseq.len ≤ 10)
    {o' : Nat} {st' : PCSeqBody} (hr : parseCSeqVal b o st = (o', .ok, st')) :
    st'.cseqNo ≤ 4294967295 ∧ st'.cseq.len ≤ 10 := by
  have := afb_parseCSeqVal_range b o st h hfin
  rw [hr] at this; exact ⟨this.1, this.2 rfl⟩

/-! ### the invariants `ClNum` / `CsNum` of the exactness theorems are re-established at every suspension -/

theorem afb_digitsOf_app (b s : Buf) (x e : Nat) (he : e ≤ b.size) : digitsOf (b ++ s) x e = digitsOf b x e := by
  unfold digitsOf
  rw [Array.extract_append]
  have : s.extract (x - b.size) (e - b.size) = #[] := by
    apply Array.eq_empty_of_size_eq_zero
    rw [Array.size_extract]; omega
  rw [this, Array.append_empty]

theorem afb_NumDone_app {b : Buf} {fld : PField} {v : Nat} (s : Buf) (h : NumDone b fld v) : NumDone (b ++ s) fld v := by
  obtain ⟨x, e, h1, h2, h3, h4, h5⟩ := h
  refine ⟨x, e, h1, h2, by rw [Array.size_append]; omega, ?_, ?_⟩
  · rw [afb_digitsOf_app b s x e h3]; exact h4
  · rw [afb_digitsOf_app b s x e h3]; exact h5

theorem afb_ClNum_app {b : Buf} {i : Nat} {st : PUIntBody} (s : Buf) (hi : i ≤ b.size) (h : ClNum b i st) :
    ClNum (b ++ s) i st := by
  refine ⟨fun hf => ?_, fun hd => afb_NumDone_app s (h.done hd)⟩
  rw [afb_digitsOf_app b s _ i hi]; exact h.found hf

theorem afb_CsNum_app {b : Buf} {i : Nat} {st : PCSeqBody} (s : Buf) (hi : i ≤ b.size) (h : CsNum b i st) :
    CsNum (b ++ s) i st := by
  refine ⟨fun hf => ?_, fun hd => afb_NumDone_app s (h.done hd)⟩
  rw [afb_digitsOf_app b s _ i hi]; exact h.found hf

/-- exits of the UInt loop: after OK the value is exact; after MoreBytes the invariant holds at the returned offset -/
def AfbClT (b : Buf) (n : Nat) (e : Err) (s : PUIntBody) : Prop :=
  (e = .ok → NumDone b s.sVal s.uiVal) ∧ (e = .moreBytes → n ≤ b.size ∧ ClNum b n s ∧ s.state ≠ .fin)

theorem afb_AfbClT_err {b : Buf} {n : Nat} {e : Err} {s : PUIntBody} (h1 : e ≠ .ok) (h2 : e ≠ .moreBytes) :
    AfbClT b n e s := ⟨fun h => absurd h h1, fun h => absurd h h2⟩

theorem afb_clStep_num (b : Buf) (i : Nat) (c : UInt8) (st : PUIntBody) (hfit : b.size ≤ 65535) (hb : b[i]? = some c)
    (hi : i ≤ b.size) (h : ClNum b i st) (hnf : st.state ≠ .fin) :
    StepAll2 (fun n s => n ≤ b.size ∧ ClNum b n s ∧ s.state ≠ .fin) (AfbClT b) (clStep b i c st) := by
  have hlt := get?_lt hb
  have key : ∀ s1 : PUIntBody, s1.state ≠ .found → s1.state ≠ .fin → ClNum b i s1 →
      StepAll2 (fun n s => n ≤ b.size ∧ ClNum b n s ∧ s.state ≠ .fin) (AfbClT b) (lwsStd b i s1 clEOH id) := by
    intro s1 hnf hnn h1
    have hany : ∀ n, ClNum b n s1 := fun n => ⟨(fun hh => absurd hh hnf), h1.done⟩
    refine lwsStd_all2 b i s1 clEOH id _ _ hi (fun n _ a2 => ⟨a2, hany n, hnn⟩)
      (fun n _ _ => afb_AfbClT_err (by decide) (by decide))
      (fun n _ a2 => ⟨(fun hh => by cases hh), fun _ => ⟨a2, hany n, hnn⟩⟩) (fun n crl _ _ _ => ?_)
    unfold clEOH
    cases hst : s1.state <;> simp only
    case fend => exact ⟨fun _ => h1.done (Or.inl hst), (fun hh => by cases hh)⟩
    case found => exact absurd hst hnf
    all_goals exact afb_AfbClT_err (by decide) (by decide)
  unfold clStep
  by_cases hl : isLWSch c = true
  · simp only [hl, ↓reduceIte]
    cases hst : st.state <;> simp only
    case found =>
      obtain ⟨h1, h2, h3⟩ := h.found hst
      refine key _ (fun hh => by cases hh) (fun hh => by cases hh) ⟨(fun hh => by cases hh), fun _ => ?_⟩
      show NumDone b (PField.set st.soffs i) st.uiVal
      exact ⟨st.soffs, i, pfield_set_eq _ _ (by omega) (by omega), h1, hi, h2, h3⟩
    case fin => exact absurd hst hnf
    all_goals exact key st (by rw [hst]; decide) (by rw [hst]; decide) h
  · simp only [hl, Bool.false_eq_true, ↓reduceIte]
    by_cases hd : isDigit c = true
    · simp only [hd, ↓reduceIte]
      cases hst : st.state <;> simp only
      case init =>
        refine ⟨by omega, ⟨(fun _ => ⟨by show i < i + 1; omega, ?_, ?_⟩), (fun hh => by rcases hh with hh | hh <;> cases hh)⟩, (fun hh => by cases hh)⟩
        · show AllDigits (digitsOf b i (i + 1))
          rw [digitsOf_snoc b i i c (Nat.le_refl _) hb, digitsOf_self]
          intro x hx; simp at hx; subst hx; exact isDigit_B hd
        · show c.toNat - 48 = decOf (digitsOf b i (i + 1))
          rw [digitsOf_snoc b i i c (Nat.le_refl _) hb, digitsOf_self]
          simp [decOf, decFrom, dval_def]
      case found =>
        obtain ⟨h1, h2, h3⟩ := h.found hst
        split
        · exact afb_AfbClT_err (by decide) (by decide)
        · refine ⟨by omega, ⟨(fun _ => ⟨by show st.soffs < i + 1; omega, ?_, ?_⟩), (fun hh => by rcases hh with hh | hh <;> cases hh)⟩, (fun hh => by cases hh)⟩
          · show AllDigits (digitsOf b st.soffs (i + 1))
            rw [digitsOf_snoc b st.soffs i c (by omega) hb]
            intro x hx
            rcases List.mem_append.mp hx with hx | hx
            · exact h2 x hx
            · simp at hx; subst hx; exact isDigit_B hd
          · show st.uiVal * 10 + (c.toNat - 48) = decOf (digitsOf b st.soffs (i + 1))
            rw [digitsOf_snoc b st.soffs i c (by omega) hb, decOf, decFrom_snoc, ← decOf, ← h3, dval_def]
      case fend => exact afb_AfbClT_err (by decide) (by decide)
      case fin => exact absurd hst hnf
    · simp only [hd, Bool.false_eq_true, ↓reduceIte]
      exact afb_AfbClT_err (by decide) (by decide)

/-- **ParseUIntVal suspended**: after MoreBytes the returned object satisfies `ClNum` at the returned offset — on the
    buffer that was parsed and on every extension of it — the offset lies inside the buffer and the object is not
    finished: the hypotheses of `uint_value_exact` / `clen_value_exact` for the resumed call. -/
theorem afb_uint_more_inv (b s : Buf) (o : Nat) (st : PUIntBody) (hfit : b.size ≤ 65535) (ho : o ≤ b.size)
    (h : ClNum b o st) {o' : Nat} {st' : PUIntBody} (hr : parseUIntVal b o st = (o', .moreBytes, st')) :
    ClNum (b ++ s) o' st' ∧ o' ≤ b.size ∧ st'.state ≠ .fin := by
  unfold parseUIntVal at hr
  split at hr
  · cases hr
  · rename_i hnf
    have := runLoop_safe2 clMachine b (fun n s => n ≤ b.size ∧ ClNum b n s ∧ s.state ≠ .fin) (AfbClT b) cl_progress
      (fun i c s hb hs => afb_clStep_num b i c s hfit hb hs.1 hs.2.1 hs.2.2)
      (fun i s hs => ⟨(fun hh => by cases hh), fun _ => hs⟩) o st ⟨ho, h, hnf⟩
    rw [hr] at this
    obtain ⟨a1, a2, a3⟩ := this.2 rfl
    exact ⟨afb_ClNum_app s a1 a2, a1, a3⟩

theorem afb_clen_more_inv (b s : Buf) (o : Nat) (st : PUIntBody) (hfit : b.size ≤ 65535) (ho : o ≤ b.size)
    (h : ClNum b o st) {o' : Nat} {st' : PUIntBody} (hr : parseCLenVal b o st = (o', .moreBytes, st')) :
    ClNum (b ++ s) o' st' ∧ o' ≤ b.size ∧ st'.state ≠ .fin := by
  unfold parseCLenVal at hr
  rcases hp : parseUIntVal b o st with ⟨o1, e1, s1⟩
  rw [hp] at hr
  cases e1 <;> simp only at hr
  case ok => split at hr <;> cases hr
  case moreBytes => cases hr; exact afb_uint_more_inv b s o st hfit ho h hp
  all_goals cases hr

end Sipsp
