/-
  Sipsp.Proofs.CapacityHl — capacity independence through ParseHdrLine: two runs whose values objects differ only in
  the capacity-dependent representation of the contacts do the same.
-/
import Sipsp.Proofs.Capacity
import Sipsp.Proofs.HdrLineL2

namespace Sipsp

/-- the second values object is the first one with another (related) contacts object -/
def HvRel (hv1 hv2 : PHdrVals) : Prop := ∃ c2, hv2 = { hv1 with contacts := c2 } ∧ CtW hv1.contacts c2

def HbRel : Option PHdrVals → Option PHdrVals → Prop
  | none, none => True
  | some a, some b => HvRel a b
  | _, _ => False

/-- relation between the values objects returned with verdict `e` (header state `st`) -/
def HbOut (e : Err) (st : HState) : Option PHdrVals → Option PHdrVals → Prop
  | none, none => True
  | some a, some b => ∃ c2, b = { a with contacts := c2 } ∧
      ((e = .ok ∨ e = .empty) → CtW a.contacts c2) ∧
      (e = .moreBytes → CtW a.contacts c2 ∨ (st = .hContact ∧ CtRel a.contacts c2))
  | _, _ => False

theorem HbOut.of_rel {e : Err} {st : HState} {hb1 hb2 : Option PHdrVals} (h : HbRel hb1 hb2) : HbOut e st hb1 hb2 := by
  cases hb1 <;> cases hb2 <;> first | trivial | (exact h.elim) | skip
  obtain ⟨c2, h1, h2⟩ := h
  exact ⟨c2, h1, fun _ => h2, fun _ => Or.inl h2⟩

/-- the header-value dispatch does the same on related values objects -/
theorem parseBody_rel (b : Buf) (o : Nat) (h : Hdr) (hb1 hb2 : Option PHdrVals) (hR : HbRel hb1 hb2) :
    (parseBody b o h hb1).1 = (parseBody b o h hb2).1 ∧ (parseBody b o h hb1).2.1 = (parseBody b o h hb2).2.1 ∧
    (parseBody b o h hb1).2.2.1 = (parseBody b o h hb2).2.2.1 ∧
    HbOut (parseBody b o h hb1).2.1 (parseBody b o h hb1).2.2.1.state (parseBody b o h hb1).2.2.2 (parseBody b o h hb2).2.2.2 := by
  cases hb1 with
  | none =>
    cases hb2 with
    | none => exact ⟨rfl, rfl, rfl, trivial⟩
    | some _ => exact hR.elim
  | some hv =>
  cases hb2 with
  | none => exact hR.elim
  | some hv2 =>
  obtain ⟨c2, rfl, hc⟩ := hR
  unfold parseBody
  simp only
  by_cases h_from_ : (h.type == HdrFrom) = true
  · simp only [h_from_, ↓reduceIte]
    split
    · exact ⟨(by first | rfl | trivial), (by first | rfl | trivial), (by first | rfl | trivial), ⟨c2, rfl, fun _ => hc, fun _ => Or.inl hc⟩⟩
    · exact ⟨(by first | rfl | trivial), (by first | rfl | trivial), (by first | rfl | trivial), ⟨c2, rfl, fun _ => hc, fun _ => Or.inl hc⟩⟩
  simp only [h_from_, Bool.false_eq_true, ↓reduceIte]
  by_cases h_to : (h.type == HdrTo) = true
  · simp only [h_to, ↓reduceIte]
    split
    · exact ⟨(by first | rfl | trivial), (by first | rfl | trivial), (by first | rfl | trivial), ⟨c2, rfl, fun _ => hc, fun _ => Or.inl hc⟩⟩
    · exact ⟨(by first | rfl | trivial), (by first | rfl | trivial), (by first | rfl | trivial), ⟨c2, rfl, fun _ => hc, fun _ => Or.inl hc⟩⟩
  simp only [h_to, Bool.false_eq_true, ↓reduceIte]
  by_cases h_callid : (h.type == HdrCallID) = true
  · simp only [h_callid, ↓reduceIte]
    split
    · exact ⟨(by first | rfl | trivial), (by first | rfl | trivial), (by first | rfl | trivial), ⟨c2, rfl, fun _ => hc, fun _ => Or.inl hc⟩⟩
    · exact ⟨(by first | rfl | trivial), (by first | rfl | trivial), (by first | rfl | trivial), ⟨c2, rfl, fun _ => hc, fun _ => Or.inl hc⟩⟩
  simp only [h_callid, Bool.false_eq_true, ↓reduceIte]
  by_cases h_cseq : (h.type == HdrCSeq) = true
  · simp only [h_cseq, ↓reduceIte]
    split
    · exact ⟨(by first | rfl | trivial), (by first | rfl | trivial), (by first | rfl | trivial), ⟨c2, rfl, fun _ => hc, fun _ => Or.inl hc⟩⟩
    · exact ⟨(by first | rfl | trivial), (by first | rfl | trivial), (by first | rfl | trivial), ⟨c2, rfl, fun _ => hc, fun _ => Or.inl hc⟩⟩
  simp only [h_cseq, Bool.false_eq_true, ↓reduceIte]
  by_cases h_clen : (h.type == HdrCLen) = true
  · simp only [h_clen, ↓reduceIte]
    split
    · exact ⟨(by first | rfl | trivial), (by first | rfl | trivial), (by first | rfl | trivial), ⟨c2, rfl, fun _ => hc, fun _ => Or.inl hc⟩⟩
    · exact ⟨(by first | rfl | trivial), (by first | rfl | trivial), (by first | rfl | trivial), ⟨c2, rfl, fun _ => hc, fun _ => Or.inl hc⟩⟩
  simp only [h_clen, Bool.false_eq_true, ↓reduceIte]
  by_cases h_contacts : (h.type == HdrContact) = true
  · simp only [h_contacts, ↓reduceIte]
    have hc0 : CtW (if h.state != .hContact then { hv.contacts with hNo := hv.contacts.hNo + 1, lastHVal := {} } else hv.contacts)
        (if h.state != .hContact then { c2 with hNo := c2.hNo + 1, lastHVal := {} } else c2) := by
      split
      · exact hc.bump
      · exact hc
    have hrel := parseAllContactValues_rel b o _ _ hc0
    rcases hq1 : parseAllContactValues b o (if h.state != .hContact then { hv.contacts with hNo := hv.contacts.hNo + 1, lastHVal := {} } else hv.contacts) with ⟨n1, e1, f1⟩
    rcases hq2 : parseAllContactValues b o (if h.state != .hContact then { c2 with hNo := c2.hNo + 1, lastHVal := {} } else c2) with ⟨n2, e2, f2⟩
    rw [hq1, hq2] at hrel
    obtain ⟨r1, r2, r3, r4⟩ := hrel
    simp only at r1 r2 r3 r4 ⊢
    subst r1; subst r2
    refine ⟨(by first | rfl | trivial), (by first | rfl | trivial), ?_, ⟨f2, rfl, ?_, ?_⟩⟩
    · by_cases hok : (e1 == Err.ok) = true
      · simp only [hok, ↓reduceIte]
        have : e1 = .ok := by simpa using hok
        rw [(r4 this).lhv]
      · simp only [hok, Bool.false_eq_true, ↓reduceIte]
    · intro he
      rcases he with he | he
      · exact (r4 he).toW
      · exfalso
        have := parseAllContactValues_ne_empty b o (if h.state != .hContact then { hv.contacts with hNo := hv.contacts.hNo + 1, lastHVal := {} } else hv.contacts)
        rw [hq1] at this; exact this he
    · intro he; exact Or.inr ⟨rfl, r3 he⟩
  simp only [h_contacts, Bool.false_eq_true, ↓reduceIte]
  by_cases h_expires : (h.type == HdrExpires) = true
  · simp only [h_expires, ↓reduceIte]
    split
    · exact ⟨(by first | rfl | trivial), (by first | rfl | trivial), (by first | rfl | trivial), ⟨c2, rfl, fun _ => hc, fun _ => Or.inl hc⟩⟩
    · exact ⟨(by first | rfl | trivial), (by first | rfl | trivial), (by first | rfl | trivial), ⟨c2, rfl, fun _ => hc, fun _ => Or.inl hc⟩⟩
  simp only [h_expires, Bool.false_eq_true, ↓reduceIte]
  by_cases h_pais : (h.type == HdrPAI) = true
  · simp only [h_pais, ↓reduceIte]
    exact ⟨(by first | rfl | trivial), (by first | rfl | trivial), (by first | rfl | trivial), ⟨c2, rfl, fun _ => hc, fun _ => Or.inl hc⟩⟩
  simp only [h_pais, Bool.false_eq_true, ↓reduceIte]
  exact ⟨(by first | rfl | trivial), (by first | rfl | trivial), (by first | rfl | trivial), ⟨c2, rfl, fun _ => hc, fun _ => Or.inl hc⟩⟩

/-- relation between the results of one iteration of the ParseHdrLine loop -/
def StepRelHl : Step HLσ → Step HLσ → Prop
  | .cont i1 s1, .cont i2 s2 => i1 = i2 ∧ s1.1 = s2.1 ∧ HbRel s1.2 s2.2
  | .done o1 e1 s1, .done o2 e2 s2 => o1 = o2 ∧ e1 = e2 ∧ s1.1 = s2.1 ∧ HbOut e1 s1.1.state s1.2 s2.2
  | _, _ => False

theorem StepRelHl.same_done (o : Nat) (e : Err) (h : Hdr) {hb1 hb2 : Option PHdrVals} (hR : HbRel hb1 hb2) :
    StepRelHl (.done o e (h, hb1)) (.done o e (h, hb2)) := ⟨rfl, rfl, rfl, HbOut.of_rel hR⟩

theorem StepRelHl.same_cont (i : Nat) (h : Hdr) {hb1 hb2 : Option PHdrVals} (hR : HbRel hb1 hb2) :
    StepRelHl (.cont i (h, hb1)) (.cont i (h, hb2)) := ⟨rfl, rfl, hR⟩

theorem HbOut.to_rel {st : HState} {hb1 hb2 : Option PHdrVals} (h : HbOut .ok st hb1 hb2) : HbRel hb1 hb2 := by
  cases hb1 <;> cases hb2 <;> first | trivial | (exact h.elim) | skip
  obtain ⟨c2, h1, h2, _⟩ := h
  exact ⟨c2, h1, h2 (Or.inl rfl)⟩

theorem HbOut.restate {e : Err} {st st' : HState} {hb1 hb2 : Option PHdrVals} (h : HbOut e st hb1 hb2)
    (hs : e = .moreBytes → st' = st) : HbOut e st' hb1 hb2 := by
  cases hb1 <;> cases hb2 <;> first | trivial | (exact h.elim) | skip
  obtain ⟨c2, h1, h2, h3⟩ := h
  refine ⟨c2, h1, h2, fun he => ?_⟩
  rw [hs he]; exact h3 he

theorem hlAfterColon_rel (b : Buf) (i : Nat) (h : Hdr) (hb1 hb2 : Option PHdrVals) (hR : HbRel hb1 hb2) :
    StepRelHl (hlAfterColon b i h hb1) (hlAfterColon b i h hb2) := by
  unfold hlAfterColon
  cases hnm : h.name.get? b with
  | none => exact StepRelHl.same_done _ _ _ hR
  | some nm =>
    simp only
    have hrel := parseBody_rel b i { h with type := getHdrType nm } hb1 hb2 hR
    rcases hp1 : parseBody b i { h with type := getHdrType nm } hb1 with ⟨n1, e1, g1, v1⟩
    rcases hp2 : parseBody b i { h with type := getHdrType nm } hb2 with ⟨n2, e2, g2, v2⟩
    rw [hp1, hp2] at hrel
    obtain ⟨r1, r2, r3, r4⟩ := hrel
    simp only at r1 r2 r3 r4 ⊢
    subst r1; subst r2; subst r3
    by_cases hst : (g1.state != HState.bodyStart) = true
    · rw [if_pos hst, if_pos hst]
      refine ⟨rfl, rfl, rfl, ?_⟩
      apply r4.restate
      intro he; subst he; rfl
    · rw [if_neg hst, if_neg hst]
      have hst' : g1.state = .bodyStart := by simpa using hst
      have hk := parseBody_keep b i _ hb1 hp1 hst'
      have : e1 = .ok := hk.2.1
      subst this
      exact ⟨rfl, rfl, r4.to_rel⟩

theorem hlValEnd_rel (b : Buf) (i : Nat) (h : Hdr) (hb1 hb2 : Option PHdrVals) (hR : HbRel hb1 hb2) :
    StepRelHl (hlValEnd b i h hb1) (hlValEnd b i h hb2) := by
  unfold hlValEnd
  rcases skipLWS b i 0 with ⟨n, crl, e⟩
  cases e <;> first | exact StepRelHl.same_cont _ _ hR | exact StepRelHl.same_done _ _ _ hR

theorem hlName_rel (b : Buf) (i : Nat) (h : Hdr) (hb1 hb2 : Option PHdrVals) (hR : HbRel hb1 hb2) :
    StepRelHl (hlName b i h hb1) (hlName b i h hb2) := by
  unfold hlName
  simp only
  split
  · exact StepRelHl.same_done _ _ _ hR
  · split
    · split
      · exact StepRelHl.same_done _ _ _ hR
      · exact StepRelHl.same_cont _ _ hR
    · split
      · split
        · exact StepRelHl.same_done _ _ _ hR
        · exact hlAfterColon_rel b _ _ hb1 hb2 hR
      · exact StepRelHl.same_done _ _ _ hR

theorem hlCont_rel (b : Buf) (i : Nat) (h : Hdr) (hb1 hb2 : Option PHdrVals) (hR : HbRel hb1 hb2) :
    StepRelHl (hlCont b i h hb1) (hlCont b i h hb2) := by
  cases hb1 with
  | none =>
    cases hb2 with
    | none => exact ⟨rfl, rfl, rfl, trivial⟩
    | some _ => exact hR.elim
  | some hv =>
  cases hb2 with
  | none => exact hR.elim
  | some hv2 =>
  obtain ⟨c2, rfl, hc⟩ := hR
  unfold hlCont
  simp only
  cases hst : h.state <;> simp only
  case hContact =>
    have hrel := parseAllContactValues_rel b i hv.contacts c2 hc
    rcases hq1 : parseAllContactValues b i hv.contacts with ⟨n1, e1, f1⟩
    rcases hq2 : parseAllContactValues b i c2 with ⟨n2, e2, f2⟩
    rw [hq1, hq2] at hrel
    obtain ⟨r1, r2, r3, r4⟩ := hrel
    simp only at r1 r2 r3 r4 ⊢
    subst r1; subst r2
    have hne : e1 ≠ .empty := by
      have := parseAllContactValues_ne_empty b i hv.contacts
      rw [hq1] at this; exact this
    by_cases hok : (e1 == Err.ok) = true
    · have he : e1 = .ok := by simpa using hok
      subst he
      simp only [↓reduceIte, BEq.rfl]
      refine ⟨rfl, rfl, by rw [(r4 rfl).lhv], ⟨f2, rfl, fun _ => (r4 rfl).toW, (fun hh => by cases hh)⟩⟩
    · simp only [hok, Bool.false_eq_true, ↓reduceIte]
      refine ⟨rfl, rfl, rfl, ⟨f2, rfl, fun he => ?_, fun he => Or.inr ⟨hst, r3 he⟩⟩⟩
      rcases he with he | he
      · subst he; simp at hok
      · exact absurd he hne
  all_goals first
    | exact ⟨(by first | rfl | trivial), (by first | rfl | trivial), (by first | rfl | trivial), ⟨c2, rfl, fun _ => hc, fun _ => Or.inl hc⟩⟩

theorem hlStep_rel (b : Buf) (i : Nat) (c : UInt8) (h : Hdr) (hb1 hb2 : Option PHdrVals) (hR : HbRel hb1 hb2) :
    StepRelHl (hlStep b i c (h, hb1)) (hlStep b i c (h, hb2)) := by
  unfold hlStep
  simp only
  cases hst : h.state <;> simp only
  case init =>
    split
    · split
      · exact StepRelHl.same_done _ _ _ hR
      · split <;> exact StepRelHl.same_done _ _ _ hR
    · split
      · exact StepRelHl.same_done _ _ _ hR
      · exact hlName_rel b i _ hb1 hb2 hR
  case name => exact hlName_rel b i h hb1 hb2 hR
  case nameEnd =>
    split
    · exact StepRelHl.same_done _ _ _ hR
    · split
      · exact hlAfterColon_rel b _ _ hb1 hb2 hR
      · exact StepRelHl.same_done _ _ _ hR
  case bodyStart =>
    rcases skipLWS b i 0 with ⟨n, crl, e⟩
    cases e <;> first | exact StepRelHl.same_cont _ _ hR | exact StepRelHl.same_done _ _ _ hR
  case val =>
    split
    · exact StepRelHl.same_done _ _ _ hR
    · exact hlValEnd_rel b _ _ hb1 hb2 hR
  case valEnd => exact hlValEnd_rel b i h hb1 hb2 hR
  case fin => exact StepRelHl.same_done _ _ _ hR
  all_goals exact hlCont_rel b i h hb1 hb2 hR

/-! ### the loop -/

theorem runLoop_rel2 {σ : Type} (m : Machine σ) (b : Buf) (R : σ → σ → Prop)
    (Q : Nat × Err × σ → Nat × Err × σ → Prop)
    (hstep : ∀ i c s1 s2, b[i]? = some c → R s1 s2 →
      (match m.step b i c s1, m.step b i c s2 with
       | .cont i1 t1, .cont i2 t2 => i1 = i2 ∧ R t1 t2
       | .done o1 e1 t1, .done o2 e2 t2 => Q (o1, e1, t1) (o2, e2, t2)
       | _, _ => False))
    (heob : ∀ i s1 s2, R s1 s2 → Q (m.eob b i s1) (m.eob b i s2))
    (hlb : ∀ i s1 s2, R s1 s2 → Q (i, .lbug, s1) (i, .lbug, s2))
    (i : Nat) (s1 s2 : σ) (h : R s1 s2) : Q (runLoop m b i s1) (runLoop m b i s2) := by
  induction hk : b.size - i using Nat.strongRecOn generalizing i s1 s2 with
  | _ k ih =>
    cases hb : b[i]? with
    | none => rw [runLoop_none m s1 hb, runLoop_none m s2 hb]; exact heob i s1 s2 h
    | some c =>
      have hs := hstep i c s1 s2 hb h
      cases h1 : m.step b i c s1 with
      | done o1 e1 t1 =>
        cases h2 : m.step b i c s2 with
        | done o2 e2 t2 =>
          rw [h1, h2] at hs
          rw [runLoop_done m hb h1, runLoop_done m hb h2]; exact hs
        | cont i2 t2 => rw [h1, h2] at hs; exact hs.elim
      | cont i1 t1 =>
        cases h2 : m.step b i c s2 with
        | done o2 e2 t2 => rw [h1, h2] at hs; exact hs.elim
        | cont i2 t2 =>
          rw [h1, h2] at hs
          obtain ⟨rfl, hR⟩ := hs
          rw [runLoop_cont m hb h1, runLoop_cont m hb h2]
          split
          · rename_i hlt
            have := get?_lt hb
            exact ih (b.size - i1) (by omega) i1 t1 t2 hR rfl
          · exact hlb i t1 t2 hR

/-- **ParseHdrLine does the same on related values objects** -/
theorem parseHdrLine_rel (b : Buf) (o : Nat) (h : Hdr) (hb1 hb2 : Option PHdrVals) (hR : HbRel hb1 hb2) :
    (parseHdrLine b o h hb1).1 = (parseHdrLine b o h hb2).1 ∧
    (parseHdrLine b o h hb1).2.1 = (parseHdrLine b o h hb2).2.1 ∧
    (parseHdrLine b o h hb1).2.2.1 = (parseHdrLine b o h hb2).2.2.1 ∧
    HbOut (parseHdrLine b o h hb1).2.1 (parseHdrLine b o h hb1).2.2.1.state
      (parseHdrLine b o h hb1).2.2.2 (parseHdrLine b o h hb2).2.2.2 := by
  unfold parseHdrLine
  have := runLoop_rel2 hlMachine b (fun s1 s2 : HLσ => s1.1 = s2.1 ∧ HbRel s1.2 s2.2)
    (fun r1 r2 => r1.1 = r2.1 ∧ r1.2.1 = r2.2.1 ∧ r1.2.2.1 = r2.2.2.1 ∧ HbOut r1.2.1 r1.2.2.1.state r1.2.2.2 r2.2.2.2)
    (by
      intro i c s1 s2 _ hr
      obtain ⟨g1, v1⟩ := s1
      obtain ⟨g2, v2⟩ := s2
      obtain ⟨rfl, hv⟩ := hr
      have hrel := hlStep_rel b i c g1 v1 v2 hv
      simp only [hlMachine]
      revert hrel
      generalize hlStep b i c (g1, v1) = X1
      generalize hlStep b i c (g1, v2) = X2
      intro hrel
      cases X1 <;> cases X2 <;> first | exact hrel | exact hrel.elim)
    (by
      intro i s1 s2 hr
      exact ⟨rfl, rfl, hr.1, HbOut.of_rel hr.2⟩)
    (by
      intro i s1 s2 hr
      exact ⟨rfl, rfl, hr.1, HbOut.of_rel hr.2⟩)
    o (h, hb1) (h, hb2) ⟨rfl, hR⟩
  rcases h1 : runLoop hlMachine b o (h, hb1) with ⟨o1, e1, g1, v1⟩
  rcases h2 : runLoop hlMachine b o (h, hb2) with ⟨o2, e2, g2, v2⟩
  rw [h1, h2] at this
  exact this

/-- with the pending invariant of the first run, a suspended result is related in the idle sense too -/
theorem HbOut.to_rel_more {st : HState} {hb1 hb2 : Option PHdrVals} {h : Hdr} (hst : h.state = st)
    (ho : HbOut .moreBytes st hb1 hb2) (hp : hlPending (h, hb1)) : HbRel hb1 hb2 := by
  cases hb1 <;> cases hb2 <;> first | trivial | (exact ho.elim) | skip
  obtain ⟨c2, h1, _, h3⟩ := ho
  refine ⟨c2, h1, ?_⟩
  rcases h3 rfl with h3 | ⟨h3, h4⟩
  · exact h3
  · exact h4.toW (hp.2.2.2.2.2.1 (by rw [hst]; exact h3))

end Sipsp
