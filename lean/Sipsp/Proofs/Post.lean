/-
  Sipsp.Proofs.Post — post-conditions of the header value parsers on an OK verdict: the returned offset lies
  in [start, len(buf)] and the object is final (so it can be carried along as "legitimate" by the callers).
-/
import Sipsp.Proofs.HdrLineL1

namespace Sipsp

variable {σ : Type}

/-- generic: what holds of every OK exit of the loop body holds of an OK result of the loop -/
theorem runLoop_okPost (m : Machine σ) (b : Buf) (R : σ → Prop)
    (hd : ∀ i c st o e st', b[i]? = some c → m.step b i c st = .done o e st' → e = .ok →
      i < o ∧ o ≤ b.size ∧ R st')
    (he : ∀ i st, (m.eob b i st).2.1 ≠ .ok) (i : Nat) (st : σ)
    (hok : (runLoop m b i st).2.1 = .ok) :
    i < (runLoop m b i st).1 ∧ (runLoop m b i st).1 ≤ b.size ∧ R (runLoop m b i st).2.2 := by
  have key := runLoop_inv m b (fun j _ => i ≤ j)
    (fun r => r.2.1 = .ok → i < r.1 ∧ r.1 ≤ b.size ∧ R r.2.2)
    (by
      intro j c s j' s' _ hP _
      exact ⟨fun hlt => by omega, fun _ hq => by cases hq⟩)
    (by
      intro j c s o e s' hb hP hs hq
      have := hd j c s o e s' hb hs hq
      exact ⟨by omega, this.2.1, this.2.2⟩)
    (by
      intro j s _ _ hq
      exact absurd hq (he j s))
    i st (Nat.le_refl _)
  exact key hok

/-- an OK exit of the standard white-space pattern is an end-of-header exit -/
theorem lwsStd_done_ok (b : Buf) (i : Nat) (st : σ) (eoh : σ → Nat → Nat → Nat → Nat × Err × σ) (mb : σ → σ)
    {o : Nat} {st' : σ} (h : lwsStd b i st eoh mb = .done o .ok st') :
    ∃ n crl, i ≤ n ∧ n + crl ≤ b.size ∧ eoh st i n crl = (o, .ok, st') ∧ 1 ≤ crl := by
  unfold lwsStd at h
  rcases hsk : skipLWS b i 0 with ⟨n, crl, e⟩
  rw [hsk] at h
  cases e <;> simp only at h <;> try (cases h; done)
  case eoh =>
    have hr := skipLWS_eoh_range b i 0 hsk (by decide)
    refine ⟨n, crl, hr.1, by omega, ?_, hr.2.2⟩
    simp only [Step.done.injEq] at h
    obtain ⟨h1, h2, h3⟩ := h
    rw [← h1, ← h2, ← h3]

theorem ciEOH_ok (s : PCallIDBody) (j n crl : Nat) {o : Nat} {s' : PCallIDBody}
    (h : ciEOH s j n crl = (o, .ok, s')) : o = n + crl ∧ s'.state = .fin := by
  unfold ciEOH at h
  cases hst : s.state <;> rw [hst] at h <;> simp only [Prod.mk.injEq] at h
  all_goals first
    | (obtain ⟨rfl, _, rfl⟩ := h; exact ⟨rfl, rfl⟩)
    | (exact absurd h.2.1 (by decide))

theorem clEOH_ok (s : PUIntBody) (j n crl : Nat) {o : Nat} {s' : PUIntBody}
    (h : clEOH s j n crl = (o, .ok, s')) : o = n + crl ∧ s'.state = .fin := by
  unfold clEOH at h
  cases hst : s.state <;> rw [hst] at h <;> simp only [Prod.mk.injEq] at h
  all_goals first
    | (obtain ⟨rfl, _, rfl⟩ := h; exact ⟨rfl, rfl⟩)
    | (exact absurd h.2.1 (by decide))

theorem csFinish_ok (st : PCSeqBody) (b : Buf) (n crl : Nat) {o : Nat} {s' : PCSeqBody}
    (h : csFinish st b n crl = (o, .ok, s')) : o = n + crl ∧ s'.state = .fin := by
  unfold csFinish at h
  simp only at h
  split at h
  · simp only [Prod.mk.injEq] at h; exact absurd h.2.1 (by decide)
  · split at h <;> (simp only [Prod.mk.injEq] at h; obtain ⟨rfl, _, rfl⟩ := h; exact ⟨rfl, rfl⟩)

theorem csEOH_ok (b : Buf) (s : PCSeqBody) (j n crl : Nat) {o : Nat} {s' : PCSeqBody}
    (h : csEOH b s j n crl = (o, .ok, s')) : o = n + crl ∧ s'.state = .fin := by
  unfold csEOH at h
  cases hst : s.state <;> rw [hst] at h <;> simp only at h
  all_goals first
    | exact csFinish_ok _ b n crl h
    | (simp only [Prod.mk.injEq] at h; exact absurd h.2.1 (by decide))

/-- **ParseCallIDVal, OK**: offset in range, object final -/
theorem parseCallIDVal_post (b : Buf) (o : Nat) (st : PCallIDBody) (ho : o ≤ b.size)
    {o' : Nat} {st' : PCallIDBody} (hr : parseCallIDVal b o st = (o', .ok, st')) :
    o ≤ o' ∧ o' ≤ b.size ∧ st'.state = .fin ∧ (st.state ≠ .fin → o < o') := by
  unfold parseCallIDVal at hr
  split at hr
  · rename_i hf; cases hr; exact ⟨Nat.le_refl _, ho, hf, fun hn => absurd hf hn⟩
  · have := runLoop_okPost ciMachine b (fun s => s.state = .fin)
      (by
        intro i c s o1 e s1 hb hs he
        subst he
        change ciStep b i c s = .done o1 .ok s1 at hs
        unfold ciStep at hs
        split at hs
        · cases hst : s.state <;> rw [hst] at hs <;> simp only at hs
          all_goals first
            | (obtain ⟨n, crl, h1, h2, h3, h5⟩ := lwsStd_done_ok b i _ ciEOH id hs
               obtain ⟨rfl, h4⟩ := ciEOH_ok _ _ _ _ h3
               exact ⟨by omega, h2, h4⟩)
            | cases hs
        · cases hst : s.state <;> rw [hst] at hs <;> simp only at hs <;> cases hs)
      (by intro i s; simp [ciMachine]) o st (by rw [hr])
    rw [hr] at this; exact ⟨by omega, this.2.1, this.2.2, fun _ => this.1⟩

/-- **ParseUIntVal, OK** -/
theorem parseUIntVal_post (b : Buf) (o : Nat) (st : PUIntBody) (ho : o ≤ b.size)
    {o' : Nat} {st' : PUIntBody} (hr : parseUIntVal b o st = (o', .ok, st')) :
    o ≤ o' ∧ o' ≤ b.size ∧ st'.state = .fin ∧ (st.state ≠ .fin → o < o') := by
  unfold parseUIntVal at hr
  split at hr
  · rename_i hf; cases hr; exact ⟨Nat.le_refl _, ho, hf, fun hn => absurd hf hn⟩
  · have := runLoop_okPost clMachine b (fun s => s.state = .fin)
      (by
        intro i c s o1 e s1 hb hs he
        subst he
        change clStep b i c s = .done o1 .ok s1 at hs
        unfold clStep at hs
        split at hs
        · cases hst : s.state <;> rw [hst] at hs <;> simp only at hs
          all_goals first
            | (obtain ⟨n, crl, h1, h2, h3, h5⟩ := lwsStd_done_ok b i _ clEOH id hs
               obtain ⟨rfl, h4⟩ := clEOH_ok _ _ _ _ h3
               exact ⟨by omega, h2, h4⟩)
            | cases hs
        · split at hs
          · cases hst : s.state <;> rw [hst] at hs <;> simp only at hs
            all_goals first
              | cases hs
              | (split at hs <;> cases hs)
          · cases hs)
      (by intro i s; simp [clMachine]) o st (by rw [hr])
    rw [hr] at this; exact ⟨by omega, this.2.1, this.2.2, fun _ => this.1⟩

/-- **ParseCLenVal, OK** -/
theorem parseCLenVal_post (b : Buf) (o : Nat) (st : PUIntBody) (ho : o ≤ b.size)
    {o' : Nat} {st' : PUIntBody} (hr : parseCLenVal b o st = (o', .ok, st')) :
    o ≤ o' ∧ o' ≤ b.size ∧ st'.state = .fin ∧ (st.state ≠ .fin → o < o') := by
  unfold parseCLenVal at hr
  rcases hp : parseUIntVal b o st with ⟨o1, e1, s1⟩
  rw [hp] at hr
  cases e1 <;> simp only at hr <;> try (cases hr; done)
  split at hr
  · cases hr
  · cases hr; exact parseUIntVal_post b o st ho hp

/-- **ParseCSeqVal, OK** -/
theorem parseCSeqVal_post (b : Buf) (o : Nat) (st : PCSeqBody) (ho : o ≤ b.size)
    {o' : Nat} {st' : PCSeqBody} (hr : parseCSeqVal b o st = (o', .ok, st')) :
    o ≤ o' ∧ o' ≤ b.size ∧ st'.state = .fin ∧ (st.state ≠ .fin → o < o') := by
  unfold parseCSeqVal at hr
  split at hr
  · rename_i hf; cases hr; exact ⟨Nat.le_refl _, ho, hf, fun hn => absurd hf hn⟩
  · have := runLoop_okPost csMachine b (fun s => s.state = .fin)
      (by
        intro i c s o1 e s1 hb hs he
        subst he
        change csStep b i c s = .done o1 .ok s1 at hs
        unfold csStep at hs
        split at hs
        · cases hst : s.state <;> rw [hst] at hs <;> simp only at hs
          all_goals first
            | (obtain ⟨n, crl, h1, h2, h3, h5⟩ := lwsStd_done_ok b i _ (csEOH b) id hs
               obtain ⟨rfl, h4⟩ := csEOH_ok b _ _ _ _ h3
               exact ⟨by omega, h2, h4⟩)
            | cases hs
        · split at hs
          · cases hst : s.state <;> rw [hst] at hs <;> simp only at hs
            all_goals first
              | cases hs
              | (split at hs <;> cases hs)
          · cases hst : s.state <;> rw [hst] at hs <;> simp only at hs <;> cases hs)
      (by intro i s; simp [csMachine]) o st (by rw [hr])
    rw [hr] at this; exact ⟨by omega, this.2.1, this.2.2, fun _ => this.1⟩

/-! ### the "empty line" verdict belongs to ParseHdrLine alone -/

theorem runLoop_verdict (m : Machine σ) (b : Buf) (V : Err → Prop) (hl : V .lbug)
    (hd : ∀ i c st o e st', b[i]? = some c → m.step b i c st = .done o e st' → V e)
    (he : ∀ i st, V (m.eob b i st).2.1) (i : Nat) (st : σ) : V (runLoop m b i st).2.1 :=
  runLoop_inv m b (fun _ _ => True) (fun r => V r.2.1)
    (by intro i c st i' st' _ _ _; exact ⟨fun _ => trivial, fun _ => hl⟩)
    (by intro i c st o e st' hb _ hs; exact hd i c st o e st' hb hs)
    (by intro i st _ _; exact he i st) i st trivial

theorem lwsStd_done_verdict (b : Buf) (i : Nat) (st : σ) (eoh : σ → Nat → Nat → Nat → Nat × Err × σ) (mb : σ → σ)
    {o : Nat} {e : Err} {st' : σ} (h : lwsStd b i st eoh mb = .done o e st') :
    e = .moreBytes ∨ e = .noCR ∨ ∃ n crl, (eoh st i n crl).2.1 = e := by
  unfold lwsStd at h
  rcases hsk : skipLWS b i 0 with ⟨n, crl, e1⟩
  rw [hsk] at h
  rcases skipLWS_verdicts b i 0 hsk with rfl | rfl | rfl | rfl <;> simp only at h
  · cases h
  · simp only [Step.done.injEq] at h; exact Or.inr (Or.inr ⟨n, crl, h.2.1⟩)
  · cases h; exact Or.inr (Or.inl rfl)
  · cases h; exact Or.inl rfl

theorem ciEOH_ne_empty (s : PCallIDBody) (j n crl : Nat) : (ciEOH s j n crl).2.1 ≠ .empty := by
  unfold ciEOH; cases s.state <;> simp
theorem clEOH_ne_empty (s : PUIntBody) (j n crl : Nat) : (clEOH s j n crl).2.1 ≠ .empty := by
  unfold clEOH; cases s.state <;> simp
theorem csEOH_ne_empty (b : Buf) (s : PCSeqBody) (j n crl : Nat) : (csEOH b s j n crl).2.1 ≠ .empty := by
  unfold csEOH csFinish
  cases s.state <;> simp only <;> (repeat' split) <;> simp

theorem lwsStd_ne_empty (b : Buf) (i : Nat) (st : σ) (eoh : σ → Nat → Nat → Nat → Nat × Err × σ) (mb : σ → σ)
    (heoh : ∀ s j n crl, (eoh s j n crl).2.1 ≠ .empty)
    {o : Nat} {e : Err} {st' : σ} (h : lwsStd b i st eoh mb = .done o e st') : e ≠ .empty := by
  rcases lwsStd_done_verdict b i st eoh mb h with rfl | rfl | ⟨n, crl, rfl⟩
  · decide
  · decide
  · exact heoh _ _ _ _

theorem parseCallIDVal_ne_empty (b : Buf) (o : Nat) (st : PCallIDBody) : (parseCallIDVal b o st).2.1 ≠ .empty := by
  unfold parseCallIDVal
  split
  · intro hh; cases hh
  · refine runLoop_verdict ciMachine b (· ≠ .empty) (by decide) ?_ (by intro i s; simp [ciMachine]) o st
    intro i c s o1 e s1 hb hs
    change ciStep b i c s = .done o1 e s1 at hs
    unfold ciStep at hs
    split at hs
    · cases hst : s.state <;> rw [hst] at hs <;> simp only at hs
      all_goals first
        | exact lwsStd_ne_empty b i _ ciEOH id ciEOH_ne_empty hs
        | cases hs
    · cases hst : s.state <;> rw [hst] at hs <;> simp only at hs <;> cases hs <;> decide

theorem parseUIntVal_ne_empty (b : Buf) (o : Nat) (st : PUIntBody) : (parseUIntVal b o st).2.1 ≠ .empty := by
  unfold parseUIntVal
  split
  · intro hh; cases hh
  · refine runLoop_verdict clMachine b (· ≠ .empty) (by decide) ?_ (by intro i s; simp [clMachine]) o st
    intro i c s o1 e s1 hb hs
    change clStep b i c s = .done o1 e s1 at hs
    unfold clStep at hs
    split at hs
    · cases hst : s.state <;> rw [hst] at hs <;> simp only at hs
      all_goals first
        | exact lwsStd_ne_empty b i _ clEOH id clEOH_ne_empty hs
        | cases hs
    · split at hs
      · cases hst : s.state <;> rw [hst] at hs <;> simp only at hs
        all_goals first
          | (cases hs <;> decide)
          | (split at hs <;> cases hs <;> decide)
      · cases hs; decide

theorem parseCLenVal_ne_empty (b : Buf) (o : Nat) (st : PUIntBody) : (parseCLenVal b o st).2.1 ≠ .empty := by
  unfold parseCLenVal
  have := parseUIntVal_ne_empty b o st
  rcases hp : parseUIntVal b o st with ⟨o1, e1, s1⟩
  rw [hp] at this
  cases e1 <;> simp only <;> first | exact this | (split <;> (intro hh; cases hh))

theorem parseCSeqVal_ne_empty (b : Buf) (o : Nat) (st : PCSeqBody) : (parseCSeqVal b o st).2.1 ≠ .empty := by
  unfold parseCSeqVal
  split
  · intro hh; cases hh
  · refine runLoop_verdict csMachine b (· ≠ .empty) (by decide) ?_ (by intro i s; simp [csMachine]) o st
    intro i c s o1 e s1 hb hs
    change csStep b i c s = .done o1 e s1 at hs
    unfold csStep at hs
    split at hs
    · cases hst : s.state <;> rw [hst] at hs <;> simp only at hs
      all_goals first
        | exact lwsStd_ne_empty b i _ (csEOH b) id (csEOH_ne_empty b) hs
        | cases hs
    · split at hs
      · cases hst : s.state <;> rw [hst] at hs <;> simp only at hs
        all_goals first
          | (cases hs <;> decide)
          | (split at hs <;> cases hs <;> decide)
      · cases hst : s.state <;> rw [hst] at hs <;> simp only at hs <;> cases hs <;> decide

/-! ### the value-list loops -/

theorem naPVal_ok_range (t : Nat) (b : Buf) (o : Nat) (pf : PFromBody) (ho : o ≤ b.size)
    {o' : Nat} {e : Err} {pf' : PFromBody} (hr : parseNameAddrPVal t b o pf = (o', e, pf'))
    (hc : Err.complete e) : pf'.state = .fin ∧ o ≤ o' ∧ o' ≤ b.size := by
  have hp := parseNameAddrPVal_post t b o pf hr hc
  refine ⟨hp.1, ?_⟩
  by_cases hf : pf.state = .fin
  · unfold parseNameAddrPVal at hr; rw [if_pos hf] at hr; cases hr; exact ⟨Nat.le_refl _, ho⟩
  · have := hp.2 hf; omega

theorem setCur_last_out (c : PContacts) (pf : PFromBody) (h : ¬ c.n < c.vals.size) : (c.setCur pf).last = pf := by
  unfold PContacts.setCur; rw [if_neg h]

/-- the object after the last value of the line (verdict OK) -/
theorem ctOK_done {b : Buf} {o o' : Nat} {c : PContacts} (pf : PFromBody) (h : ctOK b o c) (hf : pf.state = .fin)
    (h1 : o ≤ o') (h2 : o' ≤ b.size) : ctOK b o' ((c.setCur pf).account pf) := by
  refine ⟨fun k hk hk' => ?_, ?_⟩
  · rw [account_n, setCur_n] at hk
    rw [account_vals, setCur_size] at hk'
    rw [account_vals, setCur_vals_ne c pf k (by omega)]
    exact naOK_mono (h.1 k (by omega) hk') h1 h2
  · rw [account_last]
    by_cases hin : c.n < c.vals.size
    · rw [setCur_last_in c pf hin]; exact naOK_mono h.2 h1 h2
    · rw [setCur_last_out c pf hin]; exact Or.inl hf

theorem contactsLoop_post (b : Buf) (offs : Nat) (c : PContacts) (hok : ctOK b offs c) (ho : offs ≤ b.size)
    {o' : Nat} {c' : PContacts} (hr : contactsLoop b offs c = (o', .ok, c')) :
    offs ≤ o' ∧ o' ≤ b.size ∧ ctOK b o' c' := by
  induction hk : b.size - offs using Nat.strongRecOn generalizing offs c with
  | _ k ih =>
    rw [contactsLoop] at hr
    rcases hp : parseOneContact b offs c.cur with ⟨next, e1, pf⟩
    rw [hp] at hr
    cases e1 <;> simp only at hr <;> try (cases hr; done)
    case ok =>
      simp only [Prod.mk.injEq] at hr
      obtain ⟨rfl, _, rfl⟩ := hr
      obtain ⟨hf, h1, h2⟩ := naPVal_ok_range HdrContact b offs c.cur ho hp (Or.inl rfl)
      exact ⟨h1, h2, ctOK_done pf hok hf h1 h2⟩
    case moreValues =>
      obtain ⟨hf, h1, h2⟩ := naPVal_ok_range HdrContact b offs c.cur ho hp (Or.inr rfl)
      split at hr
      · rename_i hg
        have := ih (b.size - next) (by omega) next _ (ctOK_next pf hok h1 h2) h2 hr rfl
        exact ⟨by omega, this.2.1, this.2.2⟩
      · cases hr

theorem parseAllContactValues_post (b : Buf) (offs : Nat) (c : PContacts) (hok : ctOK b offs c)
    (ho : offs ≤ b.size) {o' : Nat} {c' : PContacts}
    (hr : parseAllContactValues b offs c = (o', .ok, c')) : offs ≤ o' ∧ o' ≤ b.size ∧ ctOK b o' c' := by
  unfold parseAllContactValues at hr
  exact contactsLoop_post b offs _ (ctOK_entry hok ho) ho hr

theorem paSetCur_last_out (c : PPAIs) (pf : PFromBody) (h : ¬ c.n < c.vals.size) : (c.setCur pf).last = pf := by
  unfold PPAIs.setCur; rw [if_neg h]

/-- the object after the last value of the line (verdict OK) -/
theorem paOK_done {b : Buf} {o o' : Nat} {c : PPAIs} (pf : PFromBody) (h : paOK b o c) (hf : pf.state = .fin)
    (h1 : o ≤ o') (h2 : o' ≤ b.size) : paOK b o' ((c.setCur pf).account pf) := by
  refine ⟨fun k hk hk' => ?_, ?_⟩
  · rw [paAccount_n, paSetCur_n] at hk
    rw [paAccount_vals, paSetCur_size] at hk'
    rw [paAccount_vals, paSetCur_vals_ne c pf k (by omega)]
    exact naOK_mono (h.1 k (by omega) hk') h1 h2
  · rw [paAccount_last]
    by_cases hin : c.n < c.vals.size
    · rw [paSetCur_last_in c pf hin]; exact naOK_mono h.2 h1 h2
    · rw [paSetCur_last_out c pf hin]; exact Or.inl hf

theorem paisLoop_post (b : Buf) (offs : Nat) (c : PPAIs) (hok : paOK b offs c) (ho : offs ≤ b.size)
    {o' : Nat} {c' : PPAIs} (hr : paisLoop b offs c = (o', .ok, c')) :
    offs ≤ o' ∧ o' ≤ b.size ∧ paOK b o' c' := by
  induction hk : b.size - offs using Nat.strongRecOn generalizing offs c with
  | _ k ih =>
    rw [paisLoop] at hr
    rcases hp : parseOnePAI b offs c.cur with ⟨next, e1, pf⟩
    rw [hp] at hr
    obtain ⟨e0, h0, he0⟩ := parseOnePAI_inv hp
    cases e1 <;> simp only at hr <;> try (cases hr; done)
    case ok =>
      simp only [Prod.mk.injEq] at hr
      obtain ⟨rfl, _, rfl⟩ := hr
      have he0' : e0 = .ok := by
        split at he0
        · cases he0
        · exact he0.symm
      subst he0'
      obtain ⟨hf, h1, h2⟩ := naPVal_ok_range HdrPAI b offs c.cur ho h0 (Or.inl rfl)
      exact ⟨h1, h2, paOK_done pf hok hf h1 h2⟩
    case moreValues =>
      have he0' : e0 = .moreValues := by
        split at he0
        · cases he0
        · exact he0.symm
      subst he0'
      obtain ⟨hf, h1, h2⟩ := naPVal_ok_range HdrPAI b offs c.cur ho h0 (Or.inr rfl)
      split at hr
      · rename_i hg
        have := ih (b.size - next) (by omega) next _ (paOK_next pf hok h1 h2) h2 hr rfl
        exact ⟨by omega, this.2.1, this.2.2⟩
      · cases hr

theorem parseAllPAIValues_post (b : Buf) (offs : Nat) (c : PPAIs) (hok : paOK b offs c)
    (ho : offs ≤ b.size) {o' : Nat} {c' : PPAIs}
    (hr : parseAllPAIValues b offs c = (o', .ok, c')) : offs ≤ o' ∧ o' ≤ b.size ∧ paOK b o' c' := by
  unfold parseAllPAIValues at hr
  exact paisLoop_post b offs _ (paOK_entry hok ho) ho hr

theorem contactsLoop_ne_empty (b : Buf) (offs : Nat) (c : PContacts) : (contactsLoop b offs c).2.1 ≠ .empty := by
  induction hk : b.size - offs using Nat.strongRecOn generalizing offs c with
  | _ k ih =>
    rw [contactsLoop]
    have hne := parseNameAddrPVal_ne_empty HdrContact b offs c.cur
    rcases hp : parseOneContact b offs c.cur with ⟨next, e1, pf⟩
    have hp' : parseNameAddrPVal HdrContact b offs c.cur = (next, e1, pf) := hp
    rw [hp'] at hne
    cases e1 <;> simp only <;> try (first | exact hne | decide)
    split
    · rename_i hg; exact ih (b.size - next) (by omega) next _ rfl
    · intro hh; cases hh

theorem parseAllContactValues_ne_empty (b : Buf) (offs : Nat) (c : PContacts) :
    (parseAllContactValues b offs c).2.1 ≠ .empty := by
  unfold parseAllContactValues; exact contactsLoop_ne_empty b offs _

theorem parseOnePAI_ne_empty (b : Buf) (o : Nat) (pf : PFromBody) : (parseOnePAI b o pf).2.1 ≠ .empty := by
  have hne := parseNameAddrPVal_ne_empty HdrPAI b o pf
  unfold parseOnePAI
  rcases hp : parseNameAddrPVal HdrPAI b o pf with ⟨n, e, p⟩
  rw [hp] at hne
  simp only
  split
  · intro hh; cases hh
  · exact hne

theorem paisLoop_ne_empty (b : Buf) (offs : Nat) (c : PPAIs) : (paisLoop b offs c).2.1 ≠ .empty := by
  induction hk : b.size - offs using Nat.strongRecOn generalizing offs c with
  | _ k ih =>
    rw [paisLoop]
    have hne := parseOnePAI_ne_empty b offs c.cur
    rcases hp : parseOnePAI b offs c.cur with ⟨next, e1, pf⟩
    rw [hp] at hne
    cases e1 <;> simp only <;> try (first | exact hne | decide)
    split
    · rename_i hg; exact ih (b.size - next) (by omega) next _ rfl
    · intro hh; cases hh

theorem parseAllPAIValues_ne_empty (b : Buf) (offs : Nat) (c : PPAIs) :
    (parseAllPAIValues b offs c).2.1 ≠ .empty := by
  unfold parseAllPAIValues; exact paisLoop_ne_empty b offs _

/-- a value list whose current element is not finished: OK means the offset has moved -/
theorem contactsLoop_ok_gt (b : Buf) (offs : Nat) (c : PContacts) (hok : ctOK b offs c) (ho : offs ≤ b.size)
    (hnf : c.cur.state ≠ .fin) {o' : Nat} {c' : PContacts} (hr : contactsLoop b offs c = (o', .ok, c')) :
    offs < o' := by
  rw [contactsLoop] at hr
  rcases hp : parseOneContact b offs c.cur with ⟨next, e1, pf⟩
  rw [hp] at hr
  cases e1 <;> simp only at hr <;> try (cases hr; done)
  case ok =>
    simp only [Prod.mk.injEq] at hr
    obtain ⟨rfl, _, _⟩ := hr
    exact ((parseNameAddrPVal_post HdrContact b offs c.cur hp (Or.inl rfl)).2 hnf).1
  case moreValues =>
    have hlt := ((parseNameAddrPVal_post HdrContact b offs c.cur hp (Or.inr rfl)).2 hnf)
    obtain ⟨hf, h1, h2⟩ := naPVal_ok_range HdrContact b offs c.cur ho hp (Or.inr rfl)
    have hg : offs < next ∧ next ≤ b.size := ⟨hlt.1, h2⟩
    rw [if_pos hg] at hr
    have := contactsLoop_post b next _ (ctOK_next pf hok h1 h2) h2 hr
    omega

theorem parseAllContactValues_ok_gt (b : Buf) (offs : Nat) (c : PContacts) (hok : ctOK b offs c)
    (ho : offs ≤ b.size) (hnf : c.cur.state ≠ .fin) {o' : Nat} {c' : PContacts}
    (hr : parseAllContactValues b offs c = (o', .ok, c')) : offs < o' := by
  unfold parseAllContactValues at hr
  refine contactsLoop_ok_gt b offs _ (ctOK_entry hok ho) ho ?_ hr
  split
  · rename_i hcond
    simp only [Bool.and_eq_true, decide_eq_true_eq] at hcond
    unfold PContacts.cur
    rw [if_neg (by simp only; omega)]
    intro hh; cases hh
  · exact hnf

/-- a value list whose current element is not finished: OK means the offset has moved -/
theorem paisLoop_ok_gt (b : Buf) (offs : Nat) (c : PPAIs) (hok : paOK b offs c) (ho : offs ≤ b.size)
    (hnf : c.cur.state ≠ .fin) {o' : Nat} {c' : PPAIs} (hr : paisLoop b offs c = (o', .ok, c')) :
    offs < o' := by
  rw [paisLoop] at hr
  rcases hp : parseOnePAI b offs c.cur with ⟨next, e1, pf⟩
  rw [hp] at hr
  obtain ⟨e0, h0, he0⟩ := parseOnePAI_inv hp
  cases e1 <;> simp only at hr <;> try (cases hr; done)
  case ok =>
    simp only [Prod.mk.injEq] at hr
    obtain ⟨rfl, _, _⟩ := hr
    have he0' : e0 = .ok := by
      split at he0
      · cases he0
      · exact he0.symm
    subst he0'
    exact ((parseNameAddrPVal_post HdrPAI b offs c.cur h0 (Or.inl rfl)).2 hnf).1
  case moreValues =>
    have he0' : e0 = .moreValues := by
      split at he0
      · cases he0
      · exact he0.symm
    subst he0'
    have hlt := ((parseNameAddrPVal_post HdrPAI b offs c.cur h0 (Or.inr rfl)).2 hnf)
    obtain ⟨hf, h1, h2⟩ := naPVal_ok_range HdrPAI b offs c.cur ho h0 (Or.inr rfl)
    have hg : offs < next ∧ next ≤ b.size := ⟨hlt.1, h2⟩
    rw [if_pos hg] at hr
    have := paisLoop_post b next _ (paOK_next pf hok h1 h2) h2 hr
    omega

theorem parseAllPAIValues_ok_gt (b : Buf) (offs : Nat) (c : PPAIs) (hok : paOK b offs c)
    (ho : offs ≤ b.size) (hnf : c.cur.state ≠ .fin) {o' : Nat} {c' : PPAIs}
    (hr : parseAllPAIValues b offs c = (o', .ok, c')) : offs < o' := by
  unfold parseAllPAIValues at hr
  refine paisLoop_ok_gt b offs _ (paOK_entry hok ho) ho ?_ hr
  split
  · rename_i hcond
    simp only [Bool.and_eq_true, decide_eq_true_eq] at hcond
    unfold PPAIs.cur
    rw [if_neg (by simp only; omega)]
    intro hh; cases hh
  · exact hnf

end Sipsp
