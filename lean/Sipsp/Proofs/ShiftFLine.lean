/-
  Sipsp.Proofs.ShiftFLine — position independence of ParseFLine.
-/
import Sipsp.Proofs.Shift
import Sipsp.Proofs.SafeFLine

namespace Sipsp

theorem skipToEOL_shift (pre t : Buf) (i : Nat) : skipToEOL (pre ++ t) (pre.size + i) = pre.size + skipToEOL t i := by
  fun_induction skipToEOL t i with
  | case1 i hb => exact skipToEOL_none (by rw [get?_shift]; exact hb)
  | case2 i c hb hl => exact skipToEOL_eq_self (by rw [get?_shift]; exact hb) hl
  | case3 i c hb hl ih =>
    rw [skipToEOL_step (by rw [get?_shift]; exact hb) (by simpa using hl), Nat.add_assoc]; exact ih

theorem skipLine_shift (pre t : Buf) (i : Nat) :
    skipLine (pre ++ t) (pre.size + i) = (pre.size + (skipLine t i).1, (skipLine t i).2.1, (skipLine t i).2.2) := by
  unfold skipLine
  rw [skipToEOL_shift, skipCRLF_shift]

/-- translation of a first-line object on the request path: the fields set so far are moved -/
def shReq (k : Nat) (pl : PFLine) : PFLine :=
  match pl.state with
  | .reqMethod => { pl with method := shF k pl.method }
  | .reqURI => { pl with method := shF k pl.method, uri := shF k pl.uri }
  | .reqVer => { pl with method := shF k pl.method, uri := shF k pl.uri, version := shF k pl.version }
  | .crlf => { pl with method := shF k pl.method, uri := shF k pl.uri, version := shF k pl.version }
  | .fin => { pl with method := shF k pl.method, uri := shF k pl.uri, version := shF k pl.version }
  | _ => pl

/-- … and on the reply path -/
def shRpl (k : Nat) (pl : PFLine) : PFLine :=
  match pl.state with
  | .rplStatus => { pl with version := shF k pl.version }
  | .rplReason => { pl with version := shF k pl.version, statusCode := shF k pl.statusCode, reason := shF k pl.reason }
  | .fin => { pl with version := shF k pl.version, statusCode := shF k pl.statusCode, reason := shF k pl.reason }
  | _ => pl

theorem shReq_state (k : Nat) (pl : PFLine) : (shReq k pl).state = pl.state := by unfold shReq; split <;> rfl
theorem shRpl_state (k : Nat) (pl : PFLine) : (shRpl k pl).state = pl.state := by unfold shRpl; split <;> rfl

theorem flCRLF_shift (pre t : Buf) (i : Nat) (pl : PFLine) (hst : pl.state = .crlf) :
    flCRLF (pre ++ t) (pre.size + i) (shReq pre.size pl) = shRes pre.size (shReq pre.size) (flCRLF t i pl) := by
  unfold flCRLF
  rw [skipCRLF_shift]
  rcases hq : skipCRLF t i with ⟨n, crl, e⟩
  cases e <;> simp only [shRes]
  case ok => simp [shReq, hst]

theorem flReqVer_shift (pre t : Buf) (i : Nat) (pl : PFLine) (hst : pl.state = .reqVer) (hS : FlSafe t i pl)
    (hfit : pre.size + t.size ≤ 65535) :
    flReqVer (pre ++ t) (pre.size + i) (shReq pre.size pl) = shRes pre.size (shReq pre.size) (flReqVer t i pl) := by
  have hge := skipToken_ge t i
  have hle := skipToken_le t i hS.ho
  have hvo : pl.version.offs ≤ skipToken t i := by have h0 : pl.version.offs + pl.version.len ≤ i := hS.version; omega
  unfold flReqVer
  simp only
  rw [skipToken_shift, get?_shift]
  cases hj : t[skipToken t i]? with
  | none => rfl
  | some c =>
    simp only
    by_cases hc : (c != 13 && c != 10) = true
    · simp only [hc, ↓reduceIte]; rfl
    · simp only [hc, Bool.false_eq_true, ↓reduceIte]
      have hv : (shReq pre.size pl).version = shF pre.size pl.version := by simp [shReq, hst]
      have hp : (shReq pre.size pl).pnc = pl.pnc := by simp [shReq, hst]
      rw [hv, hp, extend_shift pre.size pl.version _ (by omega) hvo, extendPanics_shift]
      have hemp : (shF pre.size (pl.version.extend (skipToken t i))).isEmpty = (pl.version.extend (skipToken t i)).isEmpty := rfl
      rw [hemp]
      by_cases he : (pl.version.extend (skipToken t i)).isEmpty = true
      · simp only [he, ↓reduceIte, shRes]
        refine Prod.ext rfl (Prod.ext rfl ?_)
        simp [shReq, hst]
      · simp only [he, Bool.false_eq_true, ↓reduceIte]
        have := flCRLF_shift pre t (skipToken t i)
          { pl with version := pl.version.extend (skipToken t i),
                    pnc := pl.pnc || pl.version.extendPanics (skipToken t i), state := .crlf } rfl
        rw [← this]
        congr 1
        simp [shReq, hst]

theorem flReqURI_shift (pre t : Buf) (i : Nat) (pl : PFLine) (hst : pl.state = .reqURI) (hS : FlSafe t i pl)
    (hfit : pre.size + t.size ≤ 65535) :
    flReqURI (pre ++ t) (pre.size + i) (shReq pre.size pl) = shRes pre.size (shReq pre.size) (flReqURI t i pl) := by
  have hge := skipToken_ge t i
  have hle := skipToken_le t i hS.ho
  have hvo : pl.uri.offs ≤ skipToken t i := by have h0 : pl.uri.offs + pl.uri.len ≤ i := hS.uri; omega
  unfold flReqURI
  simp only
  rw [skipToken_shift, get?_shift]
  cases hj : t[skipToken t i]? with
  | none => rfl
  | some c =>
    have hjl := get?_lt hj
    simp only
    by_cases hc : (c != 32) = true
    · simp only [hc, ↓reduceIte]; rfl
    · simp only [hc, Bool.false_eq_true, ↓reduceIte]
      have hv : (shReq pre.size pl).uri = shF pre.size pl.uri := by simp [shReq, hst]
      have hp : (shReq pre.size pl).pnc = pl.pnc := by simp [shReq, hst]
      rw [hv, hp, extend_shift pre.size pl.uri _ (by omega) hvo, extendPanics_shift]
      have hemp : (shF pre.size (pl.uri.extend (skipToken t i))).isEmpty = (pl.uri.extend (skipToken t i)).isEmpty := rfl
      rw [hemp]
      by_cases he : (pl.uri.extend (skipToken t i)).isEmpty = true
      · simp only [he, ↓reduceIte, shRes]
        refine Prod.ext rfl (Prod.ext rfl ?_)
        simp [shReq, hst]
      · simp only [he, Bool.false_eq_true, ↓reduceIte]
        have hS' : FlSafe t (skipToken t i + 1)
            { pl with uri := pl.uri.extend (skipToken t i), pnc := pl.pnc || pl.uri.extendPanics (skipToken t i),
                      state := .reqVer, version := PField.set (skipToken t i + 1) (skipToken t i + 1) } :=
          ⟨by omega, PField.inside_mono hS.method (by omega), PField.inside_mono (extend_inside pl.uri _ _ hvo (Nat.le_refl _)) (by omega),
            set_inside _ _ _ (Nat.le_refl _) (Nat.le_refl _), PField.inside_mono hS.statusCode (by omega),
            PField.inside_mono hS.reason (by omega), by
              show (pl.pnc || pl.uri.extendPanics (skipToken t i)) = false
              rw [hS.pnc, extendPanics_false _ _ hvo]; rfl⟩
        have := flReqVer_shift pre t (skipToken t i + 1) _ rfl hS' hfit
        rw [← this]
        rw [Nat.add_assoc]
        congr 1
        simp only [shReq, hst]
        rw [set_shift pre.size _ _ (by omega)]

theorem flReqMethod_shift (pre t : Buf) (i : Nat) (pl : PFLine) (hst : pl.state = .reqMethod) (hS : FlSafe t i pl)
    (hfit : pre.size + t.size ≤ 65535) :
    flReqMethod (pre ++ t) (pre.size + i) (shReq pre.size pl) = shRes pre.size (shReq pre.size) (flReqMethod t i pl) := by
  have hge := skipToken_ge t i
  have hle := skipToken_le t i hS.ho
  have hvo : pl.method.offs ≤ skipToken t i := by have h0 : pl.method.offs + pl.method.len ≤ i := hS.method; omega
  unfold flReqMethod
  simp only
  rw [skipToken_shift, get?_shift]
  cases hj : t[skipToken t i]? with
  | none => rfl
  | some c =>
    have hjl := get?_lt hj
    simp only
    by_cases hc : (c != 32) = true
    · simp only [hc, ↓reduceIte]; rfl
    · simp only [hc, Bool.false_eq_true, ↓reduceIte]
      have hv : (shReq pre.size pl).method = shF pre.size pl.method := by simp [shReq, hst]
      have hp : (shReq pre.size pl).pnc = pl.pnc := by simp [shReq, hst]
      rw [hv, hp, extend_shift pre.size pl.method _ (by omega) hvo, extendPanics_shift]
      have hemp : (shF pre.size (pl.method.extend (skipToken t i))).isEmpty = (pl.method.extend (skipToken t i)).isEmpty := rfl
      rw [hemp]
      by_cases he : (pl.method.extend (skipToken t i)).isEmpty = true
      · simp only [he, ↓reduceIte, shRes]
        refine Prod.ext rfl (Prod.ext rfl ?_)
        simp [shReq, hst]
      · simp only [he, Bool.false_eq_true, ↓reduceIte]
        have hin : (pl.method.extend (skipToken t i)).inside t.size :=
          extend_inside pl.method _ _ hvo hle
        rw [get?_shiftF pre t _ hin hfit]
        cases hg : (pl.method.extend (skipToken t i)).get? t with
        | none =>
          simp only [shRes]
          refine Prod.ext rfl (Prod.ext rfl ?_)
          simp [shReq, hst]
        | some nm =>
          simp only
          have hS' : FlSafe t (skipToken t i + 1)
              { pl with method := pl.method.extend (skipToken t i),
                        pnc := pl.pnc || pl.method.extendPanics (skipToken t i), methodNo := getMethodNo nm,
                        state := .reqURI, uri := PField.set (skipToken t i + 1) (skipToken t i + 1) } :=
            ⟨by omega, PField.inside_mono (extend_inside pl.method _ _ hvo (Nat.le_refl _)) (by omega),
              set_inside _ _ _ (Nat.le_refl _) (Nat.le_refl _), PField.inside_mono hS.version (by omega),
              PField.inside_mono hS.statusCode (by omega), PField.inside_mono hS.reason (by omega), by
                show (pl.pnc || pl.method.extendPanics (skipToken t i)) = false
                rw [hS.pnc, extendPanics_false _ _ hvo]; rfl⟩
          have := flReqURI_shift pre t (skipToken t i + 1) _ rfl hS' hfit
          rw [← this]
          rw [Nat.add_assoc]
          congr 1
          simp only [shReq, hst]
          rw [set_shift pre.size _ _ (by omega)]

theorem flRplReason_shift (pre t : Buf) (i : Nat) (pl : PFLine) (hst : pl.state = .rplReason) (hS : FlSafe t i pl)
    (hfit : pre.size + t.size ≤ 65535) :
    flRplReason (pre ++ t) (pre.size + i) (shRpl pre.size pl) = shRes pre.size (shRpl pre.size) (flRplReason t i pl) := by
  have hge := skipToEOL_ge t i
  have hle := skipToEOL_le t i hS.ho
  have hro : pl.reason.offs ≤ i := by have h0 : pl.reason.offs + pl.reason.len ≤ i := hS.reason; omega
  unfold flRplReason
  rw [skipLine_shift]
  unfold skipLine
  rcases hq : skipCRLF t (skipToEOL t i) with ⟨e, crl, err⟩
  have hr := skipCRLF_range hq
  cases err <;> simp only [shRes]
  case ok =>
    obtain ⟨h1, h2, h3⟩ := hr.2.2.1 rfl
    have hv : (shRpl pre.size pl).reason = shF pre.size pl.reason := by simp [shRpl, hst]
    have hp : (shRpl pre.size pl).pnc = pl.pnc := by simp [shRpl, hst]
    have he : pre.size + e - crl = pre.size + (e - crl) := by omega
    rw [hv, hp, he, extend_shift pre.size pl.reason _ (by omega) (by omega), extendPanics_shift]
    refine Prod.ext rfl (Prod.ext rfl ?_)
    simp [shRpl, hst]

/-- the reply branch of the initial state (the object is new: no field set yet) -/
theorem flReply_shift (pre t : Buf) (i0 l : Nat) (pl : PFLine) (hl : 1 ≤ l) (hlen : i0 + l + 4 ≤ t.size)
    (hS : FlSafe t i0 pl) (hfit : pre.size + t.size ≤ 65535) :
    flReply (pre ++ t) (pre.size + i0) l pl = shRes pre.size (shRpl pre.size) (flReply t i0 l pl) := by
  unfold flReply
  simp only
  have e0 : pre.size + i0 + l = pre.size + (i0 + l) := by omega
  have e1 : pre.size + (i0 + l) + 1 = pre.size + (i0 + l + 1) := by omega
  have e2 : pre.size + (i0 + l) + 2 = pre.size + (i0 + l + 2) := by omega
  have e3 : pre.size + (i0 + l) + 3 = pre.size + (i0 + l + 3) := by omega
  rw [e0, e1, e2, e3, get?_shift, get?_shift, get?_shift, get?_shift]
  have g0 : ∃ d0, t[i0 + l]? = some d0 := ⟨_, Array.getElem?_eq_getElem (by omega)⟩
  have g1 : ∃ d1, t[i0 + l + 1]? = some d1 := ⟨_, Array.getElem?_eq_getElem (by omega)⟩
  have g2 : ∃ d2, t[i0 + l + 2]? = some d2 := ⟨_, Array.getElem?_eq_getElem (by omega)⟩
  have g3 : ∃ d3, t[i0 + l + 3]? = some d3 := ⟨_, Array.getElem?_eq_getElem (by omega)⟩
  obtain ⟨d0, h0⟩ := g0; obtain ⟨d1, h1⟩ := g1; obtain ⟨d2, h2⟩ := g2; obtain ⟨d3, h3⟩ := g3
  rw [h0, h1, h2, h3]
  simp only
  have hver : PField.set (pre.size + i0) (pre.size + (i0 + l) - 1) = shF pre.size (PField.set i0 (i0 + l - 1)) := by
    have : pre.size + (i0 + l) - 1 = pre.size + (i0 + l - 1) := by omega
    rw [this, set_shift pre.size _ _ (by omega)]
  by_cases hc : (d3 != 32 || !(isDigit d0 && isDigit d1 && isDigit d2)) = true
  · simp only [hc, ↓reduceIte, shRes]
    refine Prod.ext rfl (Prod.ext rfl ?_)
    simp only [shRpl]
    rw [hver]
  · simp only [hc, Bool.false_eq_true, ↓reduceIte]
    have hS' : FlSafe t (i0 + l + 4)
        { pl with version := PField.set i0 (i0 + l - 1), statusCode := PField.set (i0 + l) (i0 + l + 3),
                  status := (d0.toNat - 48) * 100 + (d1.toNat - 48) * 10 + (d2.toNat - 48),
                  reason := PField.set (i0 + l + 4) (i0 + l + 4), state := .rplReason } :=
      ⟨by omega, PField.inside_mono hS.method (by omega), PField.inside_mono hS.uri (by omega),
        set_inside _ _ _ (by omega) (by omega), set_inside _ _ _ (by omega) (by omega),
        set_inside _ _ _ (Nat.le_refl _) (Nat.le_refl _), hS.pnc⟩
    have := flRplReason_shift pre t (i0 + l + 4) _ rfl hS' hfit
    have e4 : pre.size + (i0 + l) + 4 = pre.size + (i0 + l + 4) := by omega
    rw [e4, ← this]
    congr 1
    simp only [shRpl]
    rw [hver, set_shift pre.size _ _ (by omega), set_shift pre.size _ _ (by omega)]

theorem extract_shift (pre t : Buf) (i j : Nat) :
    (pre ++ t).extract (pre.size + i) (pre.size + j) = t.extract i j := by
  apply Array.ext
  · simp [Array.size_extract, Array.size_append]
  · intro x h1 h2
    simp only [Array.getElem_extract]
    rw [Array.getElem_append_right (by omega)]
    congr 1
    omega

/-- **ParseFLine is position independent** (from a new object; the translation moves the fields of the request line,
    resp. of the status line) -/
theorem parseFLine_shift_new (pre t : Buf) (o : Nat) (ho : o ≤ t.size) (hfit : pre.size + t.size ≤ 65535) :
    parseFLine (pre ++ t) (pre.size + o) {} =
      shRes pre.size (if (bcPrefix sipVerSP (t.extract o (o + 8)).toList).2 then shRpl pre.size else shReq pre.size)
        (parseFLine t o {}) := by
  unfold parseFLine
  simp only
  have hsz : (pre ++ t).size - (pre.size + o) = t.size - o := by rw [Array.size_append]; omega
  rw [hsz]
  by_cases hlen : t.size - o < 14
  · simp only [hlen, ↓reduceIte, shRes]
    split <;> rfl
  · simp only [hlen, ↓reduceIte]
    have e8 : pre.size + o + 8 = pre.size + (o + 8) := by omega
    rw [e8, extract_shift]
    rcases hp : bcPrefix sipVerSP (t.extract o (o + 8)).toList with ⟨l, ok⟩
    cases ok <;> simp only
    · -- request
      have hS : FlSafe t o { ({} : PFLine) with state := .reqMethod, method := PField.set o o } :=
        ⟨ho, set_inside _ _ _ (Nat.le_refl _) (Nat.le_refl _), PField.inside_zero _, PField.inside_zero _,
          PField.inside_zero _, PField.inside_zero _, rfl⟩
      have := flReqMethod_shift pre t o _ rfl hS hfit
      simp only [Bool.false_eq_true, ↓reduceIte]
      rw [← this]
      congr 1
      simp only [shReq]
      rw [set_shift pre.size o o (by omega)]
    · -- reply
      have hl8 : l = 8 := by
        have hsz8 : (t.extract o (o + 8)).toList.length = 8 := by simp; omega
        unfold bcPrefix at hp
        have hle : sipVerSP.length ≤ (t.extract o (o + 8)).toList.length := by rw [hsz8]; decide
        rw [if_neg (by omega)] at hp
        have := prefixAux_true sipVerSP _ 0 l hle hp
        simpa [sipVerSP] using this
      subst hl8
      simp only [↓reduceIte]
      exact flReply_shift pre t o 8 {} (by decide) (by omega) (FlSafe_new t o ho) hfit

/-- … and from an object suspended on the request path / in the reason phrase -/
theorem parseFLine_shift_req (pre t : Buf) (o : Nat) (pl : PFLine)
    (hst : pl.state = .reqMethod ∨ pl.state = .reqURI ∨ pl.state = .reqVer ∨ pl.state = .crlf)
    (hS : FlSafe t o pl) (hfit : pre.size + t.size ≤ 65535) :
    parseFLine (pre ++ t) (pre.size + o) (shReq pre.size pl) = shRes pre.size (shReq pre.size) (parseFLine t o pl) := by
  unfold parseFLine
  rw [shReq_state]
  rcases hst with h | h | h | h <;> simp only [h]
  · exact flReqMethod_shift pre t o pl h hS hfit
  · exact flReqURI_shift pre t o pl h hS hfit
  · exact flReqVer_shift pre t o pl h hS hfit
  · exact flCRLF_shift pre t o pl h

theorem parseFLine_shift_rpl (pre t : Buf) (o : Nat) (pl : PFLine) (hst : pl.state = .rplReason)
    (hS : FlSafe t o pl) (hfit : pre.size + t.size ≤ 65535) :
    parseFLine (pre ++ t) (pre.size + o) (shRpl pre.size pl) = shRes pre.size (shRpl pre.size) (parseFLine t o pl) := by
  unfold parseFLine
  rw [shRpl_state]
  simp only [hst]
  exact flRplReason_shift pre t o pl hst hS hfit

end Sipsp
